import SpVerif.Model.Heap
/-!
# C11 / C15 / C02 — the aliasing clauses over the object-graph model (`Model/Heap.lean`)
-/
namespace SpVerif.Props.C11Heap
open SpVerif SpVerif.Heap

/-! ## list helpers -/

private theorem flatMap_congr' {α β : Type} {l : List α} {f g : α → List β} (h : ∀ x ∈ l, f x = g x) :
    l.flatMap f = l.flatMap g := by
  induction l with
  | nil => rfl
  | cons a l ih =>
    simp only [List.flatMap_cons]
    rw [h a (by simp), ih (fun x hx => h x (by simp [hx]))]

private theorem mem_kids {c : Cell} {r : Addr} : r ∈ c.kids ↔ some r ∈ c.refs := by
  simp [Cell.kids, List.mem_filterMap]

/-! ## (a) frame lemmas: a write outside what is reachable from a handle is invisible through it -/

/-- FRAME: overwriting a cell that is not reachable from `a` leaves the view through `a` unchanged -/
theorem C11_heap_frame (n : Nat) (s : Store) (a w : Addr) (c : Cell) (h : w ∉ reachN n s a) :
    viewN n (s.set w c) a = viewN n s a := by
  induction n generalizing a with
  | zero => simp [viewN]
  | succ n ih =>
    simp only [reachN, List.mem_cons, not_or] at h
    obtain ⟨hne, hrest⟩ := h
    have hget : (s.set w c)[a]? = s[a]? := List.getElem?_set_ne (fun e => hne e)
    simp only [viewN, hget]
    cases hc : s[a]? with
    | none => rfl
    | some cell =>
      simp only [hc] at hrest
      simp only
      congr 1
      apply flatMap_congr'
      intro o ho
      cases o with
      | none => rfl
      | some r =>
        simp only
        apply ih
        intro hw
        apply hrest
        simp only [List.mem_flatMap]
        exact ⟨r, mem_kids.mpr ho, hw⟩

/-- the same for what is reachable -/
theorem C11_heap_frame_reach (n : Nat) (s : Store) (a w : Addr) (c : Cell) (h : w ∉ reachN n s a) :
    reachN n (s.set w c) a = reachN n s a := by
  induction n generalizing a with
  | zero => simp [reachN]
  | succ n ih =>
    simp only [reachN, List.mem_cons, not_or] at h
    obtain ⟨hne, hrest⟩ := h
    have hget : (s.set w c)[a]? = s[a]? := List.getElem?_set_ne (fun e => hne e)
    simp only [reachN, hget]
    cases hc : s[a]? with
    | none => rfl
    | some cell =>
      simp only [hc] at hrest
      simp only
      congr 1
      apply flatMap_congr'
      intro r hr
      apply ih
      intro hw
      apply hrest
      simp only [List.mem_flatMap]
      exact ⟨r, hr, hw⟩

/-- FRAME for a whole sequence of writes, none of which hits a cell reachable from `a` -/
theorem C11_heap_frame_writes (n : Nat) (s : Store) (a : Addr) (ws : List (Addr × Cell))
    (h : ∀ w ∈ ws, w.1 ∉ reachN n s a) :
    viewN n (ws.foldl (fun s w => s.set w.1 w.2) s) a = viewN n s a := by
  induction ws generalizing s with
  | nil => rfl
  | cons w ws ih =>
    simp only [List.foldl_cons]
    have hw := h w (by simp)
    rw [ih (s.set w.1 w.2) (fun x hx => by
      rw [C11_heap_frame_reach n s a w.1 w.2 hw]; exact h x (by simp [hx]))]
    exact C11_heap_frame n s a w.1 w.2 hw

/-! ## allocation: old cells keep their views, fresh cells are separated from everything that existed -/

private theorem closed_kid_lt {s : Store} (hc : Closed s) {a : Addr} {c : Cell} (h : s[a]? = some c) {r : Addr} (hr : r ∈ c.kids) :
    r < s.length :=
  hc c (List.mem_of_getElem? h) r hr

/-- in a closed store everything reachable from an existing cell exists -/
theorem C11_heap_reach_closed (n : Nat) (s : Store) (a : Addr) (hc : Closed s) (ha : a < s.length) :
    ∀ x ∈ reachN n s a, x < s.length := by
  induction n generalizing a with
  | zero => intro x hx; simp [reachN] at hx; subst hx; exact ha
  | succ n ih =>
    intro x hx
    simp only [reachN, List.mem_cons] at hx
    rcases hx with rfl | hx
    · exact ha
    · cases hcell : s[a]? with
      | none => simp [hcell] at hx
      | some cell =>
        simp only [hcell, List.mem_flatMap] at hx
        obtain ⟨r, hr, hx⟩ := hx
        exact ih r (closed_kid_lt hc hcell hr) x hx

/-- ALLOCATION keeps every existing view: appending cells to a closed store changes nothing an observer reads
    through a handle that existed before -/
theorem C11_heap_alloc_view (n : Nat) (s t : Store) (a : Addr) (hc : Closed s) (ha : a < s.length) :
    viewN n (s ++ t) a = viewN n s a := by
  induction n generalizing a with
  | zero => rfl
  | succ n ih =>
    have hget : (s ++ t)[a]? = s[a]? := List.getElem?_append_left ha
    simp only [viewN, hget]
    cases hcell : s[a]? with
    | none => rfl
    | some cell =>
      simp only
      congr 1
      apply flatMap_congr'
      intro o ho
      cases o with
      | none => rfl
      | some r => exact ih r (closed_kid_lt hc hcell (mem_kids.mpr ho))

theorem C11_heap_alloc_reach (n : Nat) (s t : Store) (a : Addr) (hc : Closed s) (ha : a < s.length) :
    reachN n (s ++ t) a = reachN n s a := by
  induction n generalizing a with
  | zero => rfl
  | succ n ih =>
    have hget : (s ++ t)[a]? = s[a]? := List.getElem?_append_left ha
    simp only [reachN, hget]
    cases hcell : s[a]? with
    | none => rfl
    | some cell =>
      simp only
      congr 1
      apply flatMap_congr'
      intro r hr
      exact ih r (closed_kid_lt hc hcell hr)

/-- FRESHNESS: if the appended cells refer to appended cells only, everything reachable from an appended cell is
    appended (so it is separated from every object that existed before) -/
theorem C11_heap_fresh_reach (n : Nat) (s t : Store) (a : Addr)
    (ht : ∀ c ∈ t, ∀ r ∈ c.kids, s.length ≤ r) (ha : s.length ≤ a) :
    ∀ x ∈ reachN n (s ++ t) a, s.length ≤ x := by
  induction n generalizing a with
  | zero => intro x hx; simp [reachN] at hx; subst hx; exact ha
  | succ n ih =>
    intro x hx
    simp only [reachN, List.mem_cons] at hx
    rcases hx with rfl | hx
    · exact ha
    · cases hcell : (s ++ t)[a]? with
      | none => simp [hcell] at hx
      | some cell =>
        simp only [hcell, List.mem_flatMap] at hx
        obtain ⟨r, hr, hx⟩ := hx
        have hmem : cell ∈ t := by
          rw [List.getElem?_append_right ha] at hcell
          exact List.mem_of_getElem? hcell
        exact ih r (ht cell hmem r hr) x hx

/-- a fresh object graph and an old handle have no cell in common -/
theorem C11_heap_fresh_disjoint (n : Nat) (s t : Store) (a b : Addr) (hc : Closed s) (hb : b < s.length)
    (ht : ∀ c ∈ t, ∀ r ∈ c.kids, s.length ≤ r) (ha : s.length ≤ a) :
    Disjoint (reachN n (s ++ t) a) (reachN n (s ++ t) b) := by
  intro x hx hx'
  have h1 := C11_heap_fresh_reach n s t a ht ha x hx
  rw [C11_heap_alloc_reach n s t b hc hb] at hx'
  have h2 := C11_heap_reach_closed n s b hc hb x hx'
  exact Nat.lt_irrefl _ (Nat.lt_of_lt_of_le h2 h1)

/-! ## a handle whose reachable cells all exist; arbitrary writes and allocations elsewhere -/

/-- everything reachable from `x` in at most `n` steps is a cell of the store (true of every existing `x` in a closed store) -/
def Valid (n : Nat) (s : Store) (x : Addr) : Prop := ∀ y ∈ reachN n s x, y < s.length

private theorem valid_kid {n : Nat} {s : Store} {a r : Addr} {c : Cell} (hv : Valid (n + 1) s a) (hc : s[a]? = some c)
    (hr : r ∈ c.kids) : Valid n s r := by
  intro y hy
  apply hv y
  simp only [reachN, hc, List.mem_cons, List.mem_flatMap]
  exact Or.inr ⟨r, hr, hy⟩

/-- ALLOCATION keeps the view and the reachable set of every handle whose reachable cells exist (no `Closed` needed) -/
theorem C11_heap_alloc_valid (n : Nat) (s t : Store) (a : Addr) (hv : Valid n s a) :
    viewN n (s ++ t) a = viewN n s a ∧ reachN n (s ++ t) a = reachN n s a := by
  induction n generalizing a with
  | zero => exact ⟨rfl, rfl⟩
  | succ n ih =>
    have ha : a < s.length := hv a (by simp [reachN])
    have hget : (s ++ t)[a]? = s[a]? := List.getElem?_append_left ha
    simp only [viewN, reachN, hget]
    cases hcell : s[a]? with
    | none => exact ⟨rfl, rfl⟩
    | some cell =>
      simp only
      refine ⟨?_, ?_⟩
      · congr 1
        apply flatMap_congr'
        intro o ho
        cases o with
        | none => rfl
        | some r => exact (ih r (valid_kid hv hcell (mem_kids.mpr ho))).1
      · congr 1
        apply flatMap_congr'
        intro r hr
        exact (ih r (valid_kid hv hcell hr)).2

/-- `s'` is `s` after finitely many steps, each either an ARBITRARY overwrite of a cell in `W` or an allocation -/
inductive Steps (W : List Addr) : Store → Store → Prop
  | refl (s : Store) : Steps W s s
  | write {s s1 : Store} (a : Addr) (c : Cell) : Steps W s s1 → a ∈ W → Steps W s (s1.set a c)
  | alloc {s s1 : Store} (t : Store) : Steps W s s1 → Steps W s (s1 ++ t)

/-- FRAME for whole calls: if a call only overwrites cells in `W` and allocates, every handle `x` whose reachable
    cells exist and avoid `W` shows the same view and reaches the same cells afterwards — whatever is written -/
theorem C11_heap_steps_frame {W : List Addr} {s s' : Store} (h : Steps W s s') (n : Nat) (x : Addr) (hv : Valid n s x)
    (hw : ∀ a ∈ W, a ∉ reachN n s x) :
    viewN n s' x = viewN n s x ∧ reachN n s' x = reachN n s x ∧ s.length ≤ s'.length := by
  induction h with
  | refl => exact ⟨rfl, rfl, Nat.le_refl _⟩
  | @write s1 a c _ ha ih =>
    obtain ⟨iv, ir, il⟩ := ih
    have hna : a ∉ reachN n s1 x := by rw [ir]; exact hw a ha
    exact ⟨by rw [C11_heap_frame n s1 x a c hna, iv], by rw [C11_heap_frame_reach n s1 x a c hna, ir], by simpa using il⟩
  | @alloc s1 t _ ih =>
    obtain ⟨iv, ir, il⟩ := ih
    have hv1 : Valid n s1 x := fun y hy => Nat.lt_of_lt_of_le (hv y (by rw [← ir]; exact hy)) il
    obtain ⟨av, ar⟩ := C11_heap_alloc_valid n s1 t x hv1
    exact ⟨by rw [av, iv], by rw [ar, ir], by rw [List.length_append]; exact Nat.le_trans il (Nat.le_add_right _ _)⟩

private theorem Steps.trans {W : List Addr} {s s' s'' : Store} (h1 : Steps W s s') (h2 : Steps W s' s'') : Steps W s s'' := by
  induction h2 with
  | refl => exact h1
  | write a c _ ha ih => exact .write a c ih ha
  | alloc t _ ih => exact .alloc t ih

/-! ## library calls that only allocate -/

/-- the call leaves every existing cell as it was: the store afterwards is the store before plus new cells -/
structure AllocOnly {α : Type} (m : H α) : Prop where
  ext : ∀ s r s', m.run s = some (r, s') → ∃ t, s' = s ++ t

private theorem run_bind_some {α β : Type} (m : H α) (f : α → H β) (s : Store) (b : β) (s' : Store) :
    (m >>= f).run s = some (b, s') ↔ ∃ a s1, m.run s = some (a, s1) ∧ (f a).run s1 = some (b, s') := by
  rw [StateT.run_bind]
  cases h1 : m.run s with
  | none => simp
  | some p =>
    obtain ⟨a, s1⟩ := p
    simp only [Option.some.injEq, Prod.mk.injEq]
    constructor
    · intro h; exact ⟨a, s1, ⟨rfl, rfl⟩, h⟩
    · rintro ⟨a', s1', ⟨rfl, rfl⟩, h⟩; exact h

private theorem alloc_bind {α β : Type} {m : H α} {f : α → H β} (hm : AllocOnly m) (hf : ∀ a, AllocOnly (f a)) :
    AllocOnly (m >>= f) := by
  constructor
  intro s r s' h
  obtain ⟨a, s1, h1, h2⟩ := (run_bind_some m f s r s').mp h
  obtain ⟨t1, rfl⟩ := hm.ext s a s1 h1
  obtain ⟨t2, rfl⟩ := (hf a).ext _ r s' h2
  exact ⟨t1 ++ t2, by simp⟩

private theorem alloc_pure {α : Type} (a : α) : AllocOnly (pure a : H α) := by
  constructor
  intro s r s' h
  simp [StateT.run_pure] at h
  exact ⟨[], by simp [h.2]⟩

private theorem alloc_fail {α : Type} : AllocOnly (fail : H α) := by
  constructor
  intro s r s' h
  simp [fail, StateT.run] at h

private theorem alloc_new (c : Cell) : AllocOnly (new c) := by
  constructor
  intro s r s' h
  simp [new, StateT.run] at h
  exact ⟨[c], h.2.symm⟩

private theorem alloc_cellAt (a : Addr) : AllocOnly (cellAt a) := by
  constructor
  intro s r s' h
  simp only [cellAt, StateT.run] at h
  split at h
  · simp at h; exact ⟨[], by simp [h.2]⟩
  · simp at h

macro "alloc_tac" : tactic => `(tactic| repeat' (first
  | exact alloc_pure _ | exact alloc_fail | exact alloc_new _ | exact alloc_cellAt _ | assumption
  | intro _ | split | apply alloc_bind))

private theorem alloc_ref (a : Addr) (i : Nat) : AllocOnly (ref a i) := by unfold ref; alloc_tac
private theorem alloc_refOpt (a : Addr) (i : Nat) : AllocOnly (refOpt a i) := by unfold refOpt; alloc_tac
private theorem alloc_scalAt (a : Addr) (i : Nat) : AllocOnly (scalAt a i) := by unfold scalAt; alloc_tac
private theorem alloc_copyCell (a : Addr) : AllocOnly (copyCell a) := by unfold copyCell; alloc_tac

private theorem set_same {α : Type} {l : List α} {i : Nat} {x : α} (h : l[i]? = some x) : l.set i x = l := by
  apply List.ext_getElem?
  intro j
  by_cases hij : i = j
  · subst hij
    rw [List.getElem?_set_self (List.getElem?_eq_some_iff.mp h).1, h]
  · exact List.getElem?_set_ne hij

private theorem cellAt_run (a : Addr) (s : Store) (c : Cell) (s' : Store) :
    (cellAt a).run s = some (c, s') ↔ s[a]? = some c ∧ s' = s := by
  simp only [cellAt, StateT.run]
  cases h : s[a]? with
  | none => simp
  | some c' =>
    simp only [Option.some.injEq, Prod.mk.injEq]
    constructor
    · rintro ⟨rfl, rfl⟩; exact ⟨rfl, rfl⟩
    · rintro ⟨rfl, rfl⟩; exact ⟨rfl, rfl⟩

private theorem put_run (a : Addr) (c : Cell) (s : Store) (u : Unit) (s' : Store) :
    (put a c).run s = some (u, s') ↔ a < s.length ∧ s' = s.set a c := by
  simp only [put, StateT.run]
  by_cases h : a < s.length
  · simp only [h, if_true, Option.some.injEq, Prod.mk.injEq, true_and]
    exact eq_comm
  · simp [h]

private theorem alloc_touchRef (a : Addr) (i : Nat) : AllocOnly (touchRef a i) := by
  constructor
  intro s r s' h
  unfold touchRef at h
  obtain ⟨c, s1, h1, h2⟩ := (run_bind_some _ _ s r s').mp h
  obtain ⟨hc, rfl⟩ := (cellAt_run a s c s1).mp h1
  split at h2
  · rename_i r' hr
    obtain ⟨_, rfl⟩ := (put_run _ _ _ _ _).mp h2
    refine ⟨[], ?_⟩
    rw [set_same hr]
    simp [set_same hc]
  · exact (alloc_pure ()).ext _ _ _ h2

/-- "the call does not modify anything the caller holds": in EVERY closed store, for EVERY object that existed before
    the call, the view through it, the set of cells reachable from it and the cell itself are what they were -/
def InputsUntouched {α : Type} (m : H α) : Prop :=
  ∀ s, Closed s → ∀ r s', m.run s = some (r, s') →
    ∀ a, a < s.length → view s' a = view s a ∧ reach s' a = reach s a ∧ s'[a]? = s[a]?

/-- (b), generic form: a call that only allocates does not modify anything the caller holds -/
theorem C11_heap_allocOnly_inputs_untouched {α : Type} {m : H α} (hm : AllocOnly m) : InputsUntouched m := by
  intro s hc r s' h a ha
  obtain ⟨t, rfl⟩ := hm.ext s r s' h
  exact ⟨C11_heap_alloc_view depth s t a hc ha, C11_heap_alloc_reach depth s t a hc ha, List.getElem?_append_left ha⟩

macro "alloc_ops" : tactic => `(tactic| repeat' (first
  | exact alloc_pure _ | exact alloc_fail | exact alloc_new _ | exact alloc_cellAt _
  | exact alloc_ref _ _ | exact alloc_refOpt _ _ | exact alloc_scalAt _ _ | exact alloc_copyCell _ | exact alloc_touchRef _ _
  | intro _ | split | apply alloc_bind))

/-! ### (b) per operation: constructors, factories, decoders -/

private theorem alloc_newSpHeader (a b c d e f g : Nat) : AllocOnly (newSpHeader a b c d e f g) := by
  unfold newSpHeader newPacketId newPsc; alloc_ops

private theorem alloc_deepCopyHeader (h : Addr) : AllocOnly (deepCopyHeader h) := by
  unfold deepCopyHeader; alloc_ops

private theorem alloc_reqIdFromSpHeader (h : Addr) : AllocOnly (reqIdFromSpHeader h) := by
  unfold reqIdFromSpHeader; alloc_ops

private theorem alloc_newPusTm (a b c d e f : Nat) : AllocOnly (newPusTm a b c d e f) := by
  unfold newPusTm
  repeat' (first | exact alloc_newSpHeader .. | exact alloc_new _ | intro _ | apply alloc_bind)

private theorem alloc_newPdu (k : PduKind) (conf : Addr) (objs : List (Option Addr)) (scal : List Nat) (af : Bool) (fl dl : Nat) :
    AllocOnly (newPdu k conf objs scal af fl dl) := by
  unfold newPdu newDirective newPduHeader copyConfWithDir; alloc_ops

/-- `PusTc(...)` and `PusTc.unpack(...)`: nothing the caller holds is modified -/
theorem C02_heap_tc_ctor_inputs_untouched (a b c d e f g : Nat) :
    InputsUntouched (newPusTc a b c d e f g) ∧ InputsUntouched (unpackTc a b c d e f g) := by
  constructor <;> apply C11_heap_allocOnly_inputs_untouched
  · unfold newPusTc newTcSec
    repeat' (first | exact alloc_newSpHeader .. | exact alloc_new _ | intro _ | apply alloc_bind)
  · unfold unpackTc newTcSec
    repeat' (first | exact alloc_newSpHeader .. | exact alloc_new _ | intro _ | apply alloc_bind)

/-- `PusTc.from_composite_fields(...)` adopts the two header objects and modifies nothing -/
theorem C02_heap_from_composite_inputs_untouched (hdr sec : Addr) (n : Nat) :
    InputsUntouched (tcFromCompositeFields hdr sec n) := by
  apply C11_heap_allocOnly_inputs_untouched
  unfold tcFromCompositeFields; alloc_ops

/-- `RequestId.from_sp_header(header)` / `RequestId.from_pus_tc(tc)` modify neither header nor telecommand -/
theorem C15_heap_request_id_inputs_untouched (x : Addr) :
    InputsUntouched (reqIdFromSpHeader x) ∧ InputsUntouched (reqIdFromPusTc x) := by
  constructor <;> apply C11_heap_allocOnly_inputs_untouched
  · exact alloc_reqIdFromSpHeader x
  · unfold reqIdFromPusTc
    repeat' (first | exact alloc_reqIdFromSpHeader _ | exact alloc_ref _ _ | intro _ | apply alloc_bind)

/-- `create_<step>_tm(apid, tc, timestamp)` does not modify the telecommand -/
theorem C15_heap_service1_inputs_untouched (tc : Addr) (apid sub tsLen : Nat) :
    InputsUntouched (service1FromTc tc apid sub tsLen) := by
  apply C11_heap_allocOnly_inputs_untouched
  unfold service1FromTc
  repeat' (first | exact alloc_reqIdFromSpHeader _ | exact alloc_newPusTm .. | exact alloc_ref _ _ | exact alloc_new _ | intro _ | apply alloc_bind)

/-- the common part of the eight CFDP PDU constructors — for every kind, every caller configuration, every list of
    caller objects: nothing the caller holds is modified (in particular not the `PduConfig`: the direction is
    assigned on the constructor's own copy — the former `NakPdu` defect is the case `k = .nak`) -/
theorem C11_heap_pdu_ctor_inputs_untouched (k : PduKind) (conf : Addr) (objs : List (Option Addr)) (scal : List Nat)
    (af : Bool) (fl dl : Nat) : InputsUntouched (newPdu k conf objs scal af fl dl) :=
  C11_heap_allocOnly_inputs_untouched (alloc_newPdu ..)

/-- the eight constructors by name -/
theorem C11_heap_eight_ctors_inputs_untouched (conf : Addr) :
    (∀ acked cond st, InputsUntouched (newAckPdu conf acked cond st)) ∧
    (∀ resp, InputsUntouched (newPromptPdu conf resp)) ∧
    (∀ progress, InputsUntouched (newKeepAlivePdu conf progress)) ∧
    (∀ start stop segs, InputsUntouched (newNakPdu conf start stop segs)) ∧
    (∀ size cond fault, InputsUntouched (newEofPdu conf size cond fault)) ∧
    (∀ params, InputsUntouched (newFinishedPdu conf params)) ∧
    (∀ params options, InputsUntouched (newMetadataPdu conf params options)) ∧
    (∀ params, InputsUntouched (newFileDataPdu conf params)) := by
  refine ⟨?_, ?_, ?_, ?_, ?_, ?_, ?_, ?_⟩ <;> intros <;> apply C11_heap_allocOnly_inputs_untouched
  · exact alloc_newPdu ..
  · exact alloc_newPdu ..
  · exact alloc_newPdu ..
  · unfold newNakPdu
    repeat' (first | exact alloc_newPdu .. | exact alloc_new _ | intro _ | split | apply alloc_bind)
  · exact alloc_newPdu ..
  · unfold newFinishedPdu
    repeat' (first | exact alloc_newPdu .. | exact alloc_touchRef _ _ | exact alloc_pure _ | intro _ | apply alloc_bind)
  · exact alloc_newPdu ..
  · unfold newFileDataPdu segMetaLen
    repeat' (first | exact alloc_newPdu .. | exact alloc_refOpt _ _ | exact alloc_scalAt _ _ | exact alloc_pure _ | intro _ | split | apply alloc_bind)

/-- the factories: a new object (and a new list) per call, nothing existing is touched -/
theorem C11_heap_factories_inputs_untouched :
    InputsUntouched finishedSuccessParams ∧ InputsUntouched finishedEmptyParams ∧ InputsUntouched fileDataEmptyParams ∧
    InputsUntouched pduConfigDefault ∧ (∀ conf, InputsUntouched (finishedSuccessPdu conf)) := by
  refine ⟨?_, ?_, ?_, ?_, ?_⟩ <;> intros <;> apply C11_heap_allocOnly_inputs_untouched
  · unfold finishedSuccessParams newFinishedParams; alloc_ops
  · unfold finishedEmptyParams newFinishedParams; alloc_ops
  · unfold fileDataEmptyParams newFileDataParams; alloc_ops
  · unfold pduConfigDefault newByteField newPduConfig; alloc_ops
  · unfold finishedSuccessPdu finishedSuccessParams newFinishedParams newFinishedPdu
    repeat' (first | exact alloc_newPdu .. | exact alloc_touchRef _ _ | exact alloc_pure _ | exact alloc_new _ | intro _ | apply alloc_bind)

/-- every decoder: nothing existing is touched -/
theorem C11_heap_unpack_inputs_untouched (k : PduKind) (idw seqw : Nat) (withObj : Bool) (scal : List Nat) :
    InputsUntouched (unpackPdu k idw seqw withObj scal) := by
  apply C11_heap_allocOnly_inputs_untouched
  unfold unpackPdu newByteField newPduConfig newDirective newPduHeader newFileDataParams newSegMeta newFinishedParams
  alloc_ops

/-- `PduHolder(pdu)` -/
theorem C11_heap_holder_ctor_inputs_untouched (pdu : Option Addr) : InputsUntouched (newHolder pdu) :=
  C11_heap_allocOnly_inputs_untouched (by unfold newHolder; alloc_ops)

/-! ## (c) separation where the code separates -/

private theorem new_run (c : Cell) (s : Store) (r : Addr) (s' : Store) :
    (new c).run s = some (r, s') ↔ r = s.length ∧ s' = s ++ [c] := by
  simp only [new, StateT.run, Option.some.injEq, Prod.mk.injEq]
  constructor <;> rintro ⟨rfl, rfl⟩ <;> exact ⟨rfl, rfl⟩

private theorem pure_run {α : Type} (a : α) (s : Store) (r : α) (s' : Store) :
    (pure a : H α).run s = some (r, s') ↔ r = a ∧ s' = s := by
  simp only [StateT.run_pure, Option.pure_def, Option.some.injEq, Prod.mk.injEq]
  constructor <;> rintro ⟨rfl, rfl⟩ <;> exact ⟨rfl, rfl⟩

private theorem fail_run {α : Type} (s : Store) (r : α) (s' : Store) : (fail : H α).run s = some (r, s') ↔ False := by
  simp [fail, StateT.run]

private theorem ref_run (a : Addr) (i : Nat) (s : Store) (r : Addr) (s' : Store) :
    (ref a i).run s = some (r, s') ↔ (∃ c, s[a]? = some c ∧ c.refs[i]? = some (some r)) ∧ s' = s := by
  unfold ref
  rw [run_bind_some]
  constructor
  · rintro ⟨c, s1, h1, h2⟩
    obtain ⟨hc, rfl⟩ := (cellAt_run _ _ _ _).mp h1
    split at h2
    · rename_i r' hr
      obtain ⟨rfl, rfl⟩ := (pure_run _ _ _ _).mp h2
      exact ⟨⟨c, hc, hr⟩, rfl⟩
    · exact ((fail_run _ _ _).mp h2).elim
  · rintro ⟨⟨c, hc, hr⟩, rfl⟩
    refine ⟨c, s', (cellAt_run _ _ _ _).mpr ⟨hc, rfl⟩, ?_⟩
    simp only [hr]
    exact (pure_run _ _ _ _).mpr ⟨rfl, rfl⟩

private theorem scalAt_run (a : Addr) (i : Nat) (s : Store) (v : Nat) (s' : Store) :
    (scalAt a i).run s = some (v, s') ↔ (∃ c, s[a]? = some c ∧ c.scal[i]? = some v) ∧ s' = s := by
  unfold scalAt
  rw [run_bind_some]
  constructor
  · rintro ⟨c, s1, h1, h2⟩
    obtain ⟨hc, rfl⟩ := (cellAt_run _ _ _ _).mp h1
    split at h2
    · rename_i v' hv
      obtain ⟨rfl, rfl⟩ := (pure_run _ _ _ _).mp h2
      exact ⟨⟨c, hc, hv⟩, rfl⟩
    · exact ((fail_run _ _ _).mp h2).elim
  · rintro ⟨⟨c, hc, hv⟩, rfl⟩
    refine ⟨c, s', (cellAt_run _ _ _ _).mpr ⟨hc, rfl⟩, ?_⟩
    simp only [hv]
    exact (pure_run _ _ _ _).mpr ⟨rfl, rfl⟩

private theorem copyCell_run (a : Addr) (s : Store) (r : Addr) (s' : Store) :
    (copyCell a).run s = some (r, s') ↔ ∃ c, s[a]? = some c ∧ r = s.length ∧ s' = s ++ [c] := by
  unfold copyCell
  rw [run_bind_some]
  constructor
  · rintro ⟨c, s1, h1, h2⟩
    obtain ⟨hc, rfl⟩ := (cellAt_run _ _ _ _).mp h1
    exact ⟨c, hc, (new_run _ _ _ _).mp h2⟩
  · rintro ⟨c, hc, rfl, rfl⟩
    exact ⟨c, s, (cellAt_run _ _ _ _).mpr ⟨hc, rfl⟩, (new_run _ _ _ _).mpr ⟨rfl, rfl⟩⟩

private theorem setScal_run (a : Addr) (i v : Nat) (s : Store) (u : Unit) (s' : Store) :
    (setScal a i v).run s = some (u, s') ↔ ∃ c, s[a]? = some c ∧ s' = s.set a { c with scal := c.scal.set i v } := by
  unfold setScal
  rw [run_bind_some]
  constructor
  · rintro ⟨c, s1, h1, h2⟩
    obtain ⟨hc, rfl⟩ := (cellAt_run _ _ _ _).mp h1
    exact ⟨c, hc, ((put_run _ _ _ _ _).mp h2).2⟩
  · rintro ⟨c, hc, rfl⟩
    exact ⟨c, s, (cellAt_run _ _ _ _).mpr ⟨hc, rfl⟩, (put_run _ _ _ _ _).mpr ⟨(List.getElem?_eq_some_iff.mp hc).1, rfl⟩⟩

/-- the cell at `a` holds no objects (`PacketId`, `PacketSeqCtrl`, byte fields, secondary headers …) -/
def Leaf (s : Store) (a : Addr) : Prop := (s[a]?.map Cell.kids).getD [] = []

instance (s : Store) (a : Addr) : Decidable (Leaf s a) := by unfold Leaf; infer_instance

/-- the objects held by the cell at `a` hold no objects themselves (a header: its `PacketId` and `PacketSeqCtrl`) -/
def KidsAreLeaves (s : Store) (a : Addr) : Prop := ∀ r ∈ (s[a]?.map Cell.kids).getD [], Leaf s r

instance (s : Store) (a : Addr) : Decidable (KidsAreLeaves s a) := by unfold KidsAreLeaves; infer_instance

private theorem leaf_kids {s : Store} {a : Addr} {c : Cell} (hl : Leaf s a) (hc : s[a]? = some c) : c.kids = [] := by
  simpa [Leaf, hc] using hl

private theorem kid_of_ref {c : Cell} {i : Nat} {r : Addr} (h : c.refs[i]? = some (some r)) : r ∈ c.kids :=
  mem_kids.mpr (List.mem_of_getElem? h)

/-- what `RequestId.from_sp_header` builds, exactly: copies of the two cells the header holds, and the request-ID cell -/
private theorem reqIdFromSpHeader_shape (s : Store) (hdr rid : Addr) (s' : Store)
    (h : (reqIdFromSpHeader hdr).run s = some (rid, s')) :
    ∃ ch pid psc cp cq ver, s[hdr]? = some ch ∧ ch.refs[0]? = some (some pid) ∧ ch.refs[1]? = some (some psc) ∧
      ch.scal[0]? = some ver ∧ s[pid]? = some cp ∧ (s ++ [cp])[psc]? = some cq ∧ rid = s.length + 2 ∧
      s' = s ++ [cp, cq, ⟨.requestId, [some s.length, some (s.length + 1)], [ver]⟩] := by
  unfold reqIdFromSpHeader at h
  obtain ⟨pid, s1, h1, h2⟩ := (run_bind_some _ _ _ _ _).mp h
  obtain ⟨⟨ch, hch, hpid⟩, e1⟩ := (ref_run _ _ _ _ _).mp h1
  subst s1
  obtain ⟨psc, s2, h3, h4⟩ := (run_bind_some _ _ _ _ _).mp h2
  obtain ⟨⟨ch', hch', hpsc⟩, e2⟩ := (ref_run _ _ _ _ _).mp h3
  subst s2
  have e3 : ch' = ch := by rw [hch] at hch'; exact (Option.some.inj hch').symm
  subst e3
  obtain ⟨ver, s3, h5, h6⟩ := (run_bind_some _ _ _ _ _).mp h4
  obtain ⟨⟨ch'', hch'', hver⟩, e4⟩ := (scalAt_run _ _ _ _ _).mp h5
  subst s3
  have e5 : ch'' = ch' := by rw [hch] at hch''; exact (Option.some.inj hch'').symm
  subst e5
  obtain ⟨pid', s4, h7, h8⟩ := (run_bind_some _ _ _ _ _).mp h6
  obtain ⟨cp, hcp, e5, e6⟩ := (copyCell_run _ _ _ _).mp h7
  subst pid' s4
  obtain ⟨psc', s5, h9, h10⟩ := (run_bind_some _ _ _ _ _).mp h8
  obtain ⟨cq, hcq, e7, e8⟩ := (copyCell_run _ _ _ _).mp h9
  subst psc' s5
  obtain ⟨e9, e10⟩ := (new_run _ _ _ _).mp h10
  subst rid s'
  exact ⟨ch'', pid, psc, cp, cq, ver, hch, hpid, hpsc, hver, hcp, hcq, by simp, by simp⟩

/-- SEPARATION (since 840b2f2), to every depth `n`: the request ID taken from a header has no cell in common with ANY
    object that existed before the call — the header, the telecommand, other request IDs of the same telecommand -/
theorem C15_heap_reqid_separated (n : Nat) (s : Store) (hc : Closed s) (hdr : Addr) (hl : KidsAreLeaves s hdr)
    (rid : Addr) (s' : Store) (h : (reqIdFromSpHeader hdr).run s = some (rid, s')) (b : Addr) (hb : b < s.length) :
    Disjoint (reachN n s' rid) (reachN n s' b) := by
  obtain ⟨ch, pid, psc, cp, cq, ver, hch, hpid, hpsc, _, hcp, hcq, rfl, rfl⟩ := reqIdFromSpHeader_shape s hdr rid s' h
  have hql : psc < s.length := closed_kid_lt hc hch (kid_of_ref hpsc)
  rw [List.getElem?_append_left hql] at hcq
  have hkp : cp.kids = [] := leaf_kids (hl pid (by simp [hch, kid_of_ref hpid])) hcp
  have hkq : cq.kids = [] := leaf_kids (hl psc (by simp [hch, kid_of_ref hpsc])) hcq
  apply C11_heap_fresh_disjoint n s _ _ b hc hb
  · intro c hcm r hr
    simp only [List.mem_cons, List.not_mem_nil, or_false] at hcm
    rcases hcm with rfl | rfl | rfl
    · simp [hkp] at hr
    · simp [hkq] at hr
    · simp [Cell.kids] at hr; rcases hr with rfl | rfl <;> simp
  · simp

/-- the VALUE half of "snapshot": the request ID's `tc_packet_id` / `tc_psc` are cells EQUAL to the header's `PacketId` /
    `PacketSeqCtrl` cells at the time of the call (tag and every scalar), and its version is the header's version — a
    factory returning `RequestId.empty()`-like fresh cells does not satisfy this -/
theorem C15_heap_reqid_snapshot_values (s : Store) (hc : Closed s) (hdr rid : Addr) (s' : Store)
    (h : (reqIdFromSpHeader hdr).run s = some (rid, s')) :
    ∃ ch pid psc a b ver, s[hdr]? = some ch ∧ ch.refs[0]? = some (some pid) ∧ ch.refs[1]? = some (some psc) ∧
      ch.scal[0]? = some ver ∧ s'[rid]? = some ⟨.requestId, [some a, some b], [ver]⟩ ∧
      s'[a]? = s[pid]? ∧ s'[b]? = s[psc]? ∧ s'[a]?.isSome ∧ s'[b]?.isSome := by
  obtain ⟨ch, pid, psc, cp, cq, ver, hch, hpid, hpsc, hver, hcp, hcq, rfl, rfl⟩ := reqIdFromSpHeader_shape s hdr rid s' h
  have hql : psc < s.length := closed_kid_lt hc hch (kid_of_ref hpsc)
  rw [List.getElem?_append_left hql] at hcq
  refine ⟨ch, pid, psc, s.length, s.length + 1, ver, hch, hpid, hpsc, hver, ?_, ?_, ?_, ?_, ?_⟩ <;>
    simp [List.getElem?_append_right, hcp, hcq]

/-! ### scalar writes inside one object graph are invisible from a disjoint one — for every sequence of setter calls -/

/-- `s'` is `s` after finitely many assignments of SCALAR attributes of cells in `R` -/
inductive ScalSteps (R : List Addr) : Store → Store → Prop
  | refl (s : Store) : ScalSteps R s s
  | snoc {s s' : Store} (a : Addr) (c : Cell) (f : List Nat) :
      ScalSteps R s s' → a ∈ R → s'[a]? = some c → ScalSteps R s (s'.set a { c with scal := f })

private theorem ScalSteps.trans {R : List Addr} {s s' s'' : Store} (h1 : ScalSteps R s s') (h2 : ScalSteps R s' s'') :
    ScalSteps R s s'' := by
  induction h2 with
  | refl => exact h1
  | snoc a c f _ ha hc ih => exact .snoc a c f ih ha hc

private theorem reachN_set_same_refs (n : Nat) (s : Store) (a : Addr) (c c' : Cell) (hc : s[a]? = some c)
    (hr : c'.refs = c.refs) (x : Addr) : reachN n (s.set a c') x = reachN n s x := by
  induction n generalizing x with
  | zero => rfl
  | succ n ih =>
    simp only [reachN]
    congr 1
    by_cases hx : a = x
    · subst hx
      rw [List.getElem?_set_self (List.getElem?_eq_some_iff.mp hc).1, hc]
      simp only [Cell.kids, hr]
      exact flatMap_congr' (fun r _ => ih r)
    · rw [List.getElem?_set_ne hx]
      cases s[x]? with
      | none => rfl
      | some cx => exact flatMap_congr' (fun r _ => ih r)

private theorem ScalSteps.reach_eq {R : List Addr} {s s' : Store} (h : ScalSteps R s s') (n : Nat) (x : Addr) :
    reachN n s' x = reachN n s x := by
  induction h with
  | refl => rfl
  | snoc a c f _ _ hc ih => rw [reachN_set_same_refs n _ a c { c with scal := f } hc rfl x, ih]

private theorem ScalSteps.view_eq {R : List Addr} {s s' : Store} (h : ScalSteps R s s') (n : Nat) (x : Addr)
    (hd : ∀ a ∈ R, a ∉ reachN n s x) : viewN n s' x = viewN n s x := by
  induction h with
  | refl => rfl
  | snoc a c f st ha _ ih =>
    rw [C11_heap_frame n _ x a _ (by rw [st.reach_eq n x]; exact hd a ha), ih]

private theorem mem_reachN_self (n : Nat) (s : Store) (a : Addr) : a ∈ reachN n s a := by
  cases n <;> simp [reachN]

private theorem mem_reachN_step {n : Nat} {s : Store} {a r x : Addr} {c : Cell} {i : Nat} (hc : s[a]? = some c)
    (hr : c.refs[i]? = some (some r)) (hx : x ∈ reachN n s r) : x ∈ reachN (n + 1) s a := by
  simp only [reachN, hc, List.mem_cons, List.mem_flatMap]
  exact Or.inr ⟨r, kid_of_ref hr, hx⟩

private theorem scalSteps_setScal {R : List Addr} {s s0 s' : Store} {a : Addr} {i v : Nat} {u : Unit} (st : ScalSteps R s0 s)
    (ha : a ∈ R) (h : (setScal a i v).run s = some (u, s')) : ScalSteps R s0 s' := by
  obtain ⟨c, hc, rfl⟩ := (setScal_run _ _ _ _ _ _).mp h
  exact .snoc a c _ st ha hc

/-- GENERIC isolation, for ALL sequences of calls of a setter family `f` on one object `obj`: if every call of the family is
    a sequence of scalar assignments inside `obj`'s own object graph (to depth `n`), then a handle `x` whose reachable
    cells are disjoint from `obj`'s shows the same view and reaches the same cells after any sequence of calls -/
theorem C11_heap_setters_frame {α : Type} (f : α → H Unit) (obj : Addr) (n : Nat)
    (hconf : ∀ s op u s', (f op).run s = some (u, s') → ScalSteps (reachN n s obj) s s')
    (s : Store) (x : Addr) (hd : Disjoint (reachN n s x) (reachN n s obj)) (ops : List α) :
    viewN n (runOps f ops s) x = viewN n s x ∧ reachN n (runOps f ops s) x = reachN n s x := by
  have key : ∀ (ops : List α) (s0 : Store), ScalSteps (reachN n s obj) s s0 →
      ScalSteps (reachN n s obj) s (runOps f ops s0) := by
    intro ops
    induction ops with
    | nil => intro s0 h; exact h
    | cons o ops ih =>
      intro s0 h
      simp only [runOps, List.foldl_cons]
      cases hrun : (f o).run s0 with
      | none => exact ih s0 h
      | some p =>
        obtain ⟨u, s1⟩ := p
        have st := hconf s0 o u s1 hrun
        have e : reachN n s0 obj = reachN n s obj := h.reach_eq n obj
        rw [e] at st
        exact ih s1 (h.trans st)
  have st := key ops s (.refl s)
  exact ⟨st.view_eq n x (fun a ha hx => hd a hx ha), st.reach_eq n x⟩

/-- every documented telecommand setter is a sequence of scalar assignments inside the telecommand's own object graph
    (cells at most 2 attribute steps from it) -/
theorem C02_heap_tc_setter_confined (n : Nat) (s : Store) (tc : Addr) (op : TcOp) (u : Unit) (s' : Store)
    (h : (tcSet tc op).run s = some (u, s')) : ScalSteps (reachN (n + 2) s tc) s s' := by
  have hself : tc ∈ reachN (n + 2) s tc := mem_reachN_self _ _ _
  cases op with
  | seqCount v =>
    simp only [tcSet] at h
    obtain ⟨hd, s1, h1, h2⟩ := (run_bind_some _ _ _ _ _).mp h
    obtain ⟨⟨ct, hct, hr⟩, e⟩ := (ref_run _ _ _ _ _).mp h1
    subst s1
    obtain ⟨psc, s2, h3, h4⟩ := (run_bind_some _ _ _ _ _).mp h2
    obtain ⟨⟨ch, hch, hr2⟩, e⟩ := (ref_run _ _ _ _ _).mp h3
    subst s2
    exact scalSteps_setScal (.refl s) (mem_reachN_step hct hr (mem_reachN_step hch hr2 (mem_reachN_self _ _ _))) h4
  | apid v =>
    simp only [tcSet] at h
    obtain ⟨hd, s1, h1, h2⟩ := (run_bind_some _ _ _ _ _).mp h
    obtain ⟨⟨ct, hct, hr⟩, e⟩ := (ref_run _ _ _ _ _).mp h1
    subst s1
    obtain ⟨pid, s2, h3, h4⟩ := (run_bind_some _ _ _ _ _).mp h2
    obtain ⟨⟨ch, hch, hr2⟩, e⟩ := (ref_run _ _ _ _ _).mp h3
    subst s2
    exact scalSteps_setScal (.refl s) (mem_reachN_step hct hr (mem_reachN_step hch hr2 (mem_reachN_self _ _ _))) h4
  | sourceId v =>
    simp only [tcSet] at h
    obtain ⟨sec, s1, h1, h2⟩ := (run_bind_some _ _ _ _ _).mp h
    obtain ⟨⟨ct, hct, hr⟩, e⟩ := (ref_run _ _ _ _ _).mp h1
    subst s1
    exact scalSteps_setScal (.refl s) (mem_reachN_step hct hr (mem_reachN_self _ _ _)) h2
  | appData m =>
    simp only [tcSet] at h
    obtain ⟨hd, s1, h1, h2⟩ := (run_bind_some _ _ _ _ _).mp h
    obtain ⟨⟨ct, hct, hr⟩, e⟩ := (ref_run _ _ _ _ _).mp h1
    subst s1
    split at h2
    · exact ((fail_run _ _ _).mp h2).elim
    · obtain ⟨u1, s2, h3, h4⟩ := (run_bind_some _ _ _ _ _).mp h2
      have st1 := scalSteps_setScal (.refl s) hself h3
      exact scalSteps_setScal st1 (mem_reachN_step hct hr (mem_reachN_self _ _ _)) h4

/-- the same for the documented setters of a telemetry packet (`apid`, `seq_flags`, `tm_data`) -/
theorem C02_heap_tm_setter_confined (n : Nat) (s : Store) (tm : Addr) (op : TmOp) (u : Unit) (s' : Store)
    (h : (tmSet tm op).run s = some (u, s')) : ScalSteps (reachN (n + 2) s tm) s s' := by
  have hself : tm ∈ reachN (n + 2) s tm := mem_reachN_self _ _ _
  cases op with
  | apid v =>
    simp only [tmSet] at h
    obtain ⟨hd, s1, h1, h2⟩ := (run_bind_some _ _ _ _ _).mp h
    obtain ⟨⟨ct, hct, hr⟩, e⟩ := (ref_run _ _ _ _ _).mp h1
    subst s1
    obtain ⟨pid, s2, h3, h4⟩ := (run_bind_some _ _ _ _ _).mp h2
    obtain ⟨⟨ch, hch, hr2⟩, e⟩ := (ref_run _ _ _ _ _).mp h3
    subst s2
    exact scalSteps_setScal (.refl s) (mem_reachN_step hct hr (mem_reachN_step hch hr2 (mem_reachN_self _ _ _))) h4
  | seqFlags v =>
    simp only [tmSet] at h
    obtain ⟨hd, s1, h1, h2⟩ := (run_bind_some _ _ _ _ _).mp h
    obtain ⟨⟨ct, hct, hr⟩, e⟩ := (ref_run _ _ _ _ _).mp h1
    subst s1
    obtain ⟨psc, s2, h3, h4⟩ := (run_bind_some _ _ _ _ _).mp h2
    obtain ⟨⟨ch, hch, hr2⟩, e⟩ := (ref_run _ _ _ _ _).mp h3
    subst s2
    exact scalSteps_setScal (.refl s) (mem_reachN_step hct hr (mem_reachN_step hch hr2 (mem_reachN_self _ _ _))) h4
  | tmData m =>
    simp only [tmSet] at h
    obtain ⟨hd, s1, h1, h2⟩ := (run_bind_some _ _ _ _ _).mp h
    obtain ⟨⟨ct, hct, hr⟩, e⟩ := (ref_run _ _ _ _ _).mp h1
    subst s1
    obtain ⟨sec, s2, h3, h4⟩ := (run_bind_some _ _ _ _ _).mp h2
    obtain ⟨_, e⟩ := (ref_run _ _ _ _ _).mp h3
    subst s2
    obtain ⟨ts, s3, h5, h6⟩ := (run_bind_some _ _ _ _ _).mp h4
    obtain ⟨_, e⟩ := (scalAt_run _ _ _ _ _).mp h5
    subst s3
    split at h6
    · exact ((fail_run _ _ _).mp h6).elim
    · obtain ⟨u1, s4, h7, h8⟩ := (run_bind_some _ _ _ _ _).mp h6
      have st1 := scalSteps_setScal (.refl s) hself h7
      exact scalSteps_setScal st1 (mem_reachN_step hct hr (mem_reachN_self _ _ _)) h8

/-- ISOLATION, for ALL sequences of setter calls and EVERY depth `n + 2`: an object whose reachable cells are disjoint
    from the telecommand's shows the same view (and reaches the same cells) after any number of `seq_count` / `apid` /
    `source_id` / `app_data` assignments on the telecommand, refused calls included (`view`, `reach` are the case `n = 6`) -/
theorem C02_heap_tc_setters_frame (n : Nat) (s : Store) (tc x : Addr)
    (hd : Disjoint (reachN (n + 2) s x) (reachN (n + 2) s tc)) (ops : List TcOp) :
    viewN (n + 2) (runOps (tcSet tc) ops s) x = viewN (n + 2) s x ∧
    reachN (n + 2) (runOps (tcSet tc) ops s) x = reachN (n + 2) s x :=
  C11_heap_setters_frame (tcSet tc) tc (n + 2) (fun s op u s' h => C02_heap_tc_setter_confined n s tc op u s' h) s x hd ops

/-- … and after any number of `apid` / `seq_flags` / `tm_data` assignments on a telemetry packet -/
theorem C02_heap_tm_setters_frame (n : Nat) (s : Store) (tm x : Addr)
    (hd : Disjoint (reachN (n + 2) s x) (reachN (n + 2) s tm)) (ops : List TmOp) :
    viewN (n + 2) (runOps (tmSet tm) ops s) x = viewN (n + 2) s x ∧
    reachN (n + 2) (runOps (tmSet tm) ops s) x = reachN (n + 2) s x :=
  C11_heap_setters_frame (tmSet tm) tm (n + 2) (fun s op u s' h => C02_heap_tm_setter_confined n s tm op u s' h) s x hd ops

/-- the header a telecommand / telemetry / space-packet object holds (first object attribute) -/
def headerOf (s : Store) (p : Addr) : Option Addr := (s[p]?.bind fun c => c.refs[0]?).join

/-- C15, all histories, every depth: the request ID taken from a telecommand (`RequestId.from_pus_tc`) is a SNAPSHOT — no
    sequence of setter calls on the telecommand afterwards changes anything readable through the request ID -/
theorem C15_heap_reqid_isolated (n : Nat) (s : Store) (hc : Closed s) (tc : Addr) (htc : tc < s.length)
    (hl : ∀ hdr, headerOf s tc = some hdr → KidsAreLeaves s hdr)
    (rid : Addr) (s' : Store) (h : (reqIdFromPusTc tc).run s = some (rid, s')) (ops : List TcOp) :
    Disjoint (reachN (n + 2) s' rid) (reachN (n + 2) s' tc) ∧
    viewN (n + 2) (runOps (tcSet tc) ops s') rid = viewN (n + 2) s' rid := by
  unfold reqIdFromPusTc at h
  obtain ⟨hdr, s1, h1, h2⟩ := (run_bind_some _ _ _ _ _).mp h
  obtain ⟨⟨ct, hct, hr⟩, e⟩ := (ref_run _ _ _ _ _).mp h1
  subst s1
  have hsep := C15_heap_reqid_separated (n + 2) s hc hdr (hl hdr (by simp [headerOf, hct, hr])) rid s' h2 tc htc
  exact ⟨hsep, (C02_heap_tc_setters_frame n s' tc rid hsep ops).1⟩

/-- what `copy.deepcopy(header)` builds, exactly -/
private theorem deepCopyHeader_shape (s : Store) (hdr h' : Addr) (s' : Store)
    (h : (deepCopyHeader hdr).run s = some (h', s')) :
    ∃ ch pid psc cp cq, s[hdr]? = some ch ∧ ch.refs[0]? = some (some pid) ∧ ch.refs[1]? = some (some psc) ∧
      s[pid]? = some cp ∧ (s ++ [cp])[psc]? = some cq ∧ h' = s.length + 2 ∧
      s' = s ++ [cp, cq, { ch with refs := [some s.length, some (s.length + 1)] }] := by
  unfold deepCopyHeader at h
  obtain ⟨ch, s0, h0, h01⟩ := (run_bind_some _ _ _ _ _).mp h
  obtain ⟨hch, e⟩ := (cellAt_run _ _ _ _).mp h0
  subst s0
  obtain ⟨pid, s1, h1, h2⟩ := (run_bind_some _ _ _ _ _).mp h01
  obtain ⟨⟨ch1, hch1, hpid⟩, e1⟩ := (ref_run _ _ _ _ _).mp h1
  subst s1
  obtain ⟨psc, s2, h3, h4⟩ := (run_bind_some _ _ _ _ _).mp h2
  obtain ⟨⟨ch2, hch2, hpsc⟩, e2⟩ := (ref_run _ _ _ _ _).mp h3
  subst s2
  have e3 : ch1 = ch := by rw [hch] at hch1; exact (Option.some.inj hch1).symm
  have e4 : ch2 = ch := by rw [hch] at hch2; exact (Option.some.inj hch2).symm
  subst e3 e4
  obtain ⟨pid', s4, h7, h8⟩ := (run_bind_some _ _ _ _ _).mp h4
  obtain ⟨cp, hcp, e5, e6⟩ := (copyCell_run _ _ _ _).mp h7
  subst pid' s4
  obtain ⟨psc', s5, h9, h10⟩ := (run_bind_some _ _ _ _ _).mp h8
  obtain ⟨cq, hcq, e7, e8⟩ := (copyCell_run _ _ _ _).mp h9
  subst psc' s5
  obtain ⟨e9, e10⟩ := (new_run _ _ _ _).mp h10
  subst h' s'
  exact ⟨ch2, pid, psc, cp, cq, hch, hpid, hpsc, hcp, hcq, by simp, by simp⟩

private theorem closed_set_same_refs {s : Store} (hc : Closed s) {a : Addr} {c c' : Cell} (h : s[a]? = some c)
    (hr : c'.refs = c.refs) : Closed (s.set a c') := by
  intro x hx r hrk
  rw [List.length_set]
  rcases List.mem_or_eq_of_mem_set hx with hm | rfl
  · exact hc x hm r hrk
  · exact hc c (List.mem_of_getElem? h) r (by simpa [Cell.kids, hr] using hrk)

private theorem kidsAreLeaves_set_same_refs {s : Store} {a hdr : Addr} {c c' : Cell} (h : s[a]? = some c)
    (hr : c'.refs = c.refs) (hl : KidsAreLeaves s hdr) : KidsAreLeaves (s.set a c') hdr := by
  have key : ∀ x : Addr, ((s.set a c')[x]?.map Cell.kids) = (s[x]?.map Cell.kids) := by
    intro x
    by_cases hx : a = x
    · subst hx
      rw [List.getElem?_set_self (List.getElem?_eq_some_iff.mp h).1, h]
      simp [Cell.kids, hr]
    · rw [List.getElem?_set_ne hx]
  intro r hrm
  rw [key] at hrm
  have := hl r hrm
  simpa [Leaf, key] using this

/-- the common core of `PusTc.to_space_packet()` / `PusTm.to_space_packet()` (both: read header and data length, assign
    the own `crc16` cache, deep-copy the header, build the `SpacePacket`) -/
private theorem toSpacePacket_shape (secLen : Nat) (p sp : Addr) (s s' : Store)
    (h : (do
        let hdr ← ref p 0
        let n ← scalAt p 0
        setScal p 1 1
        let hdr' ← deepCopyHeader hdr
        new ⟨.spacePacket, [some hdr'], [secLen, n + 2]⟩ : H Addr).run s = some (sp, s')) :
    ∃ cp hdr n ch pid psc c1 c2, s[p]? = some cp ∧ cp.refs[0]? = some (some hdr) ∧ cp.scal[0]? = some n ∧
      (s.set p { cp with scal := cp.scal.set 1 1 })[hdr]? = some ch ∧ ch.refs[0]? = some (some pid) ∧
      ch.refs[1]? = some (some psc) ∧ (s.set p { cp with scal := cp.scal.set 1 1 })[pid]? = some c1 ∧
      (s.set p { cp with scal := cp.scal.set 1 1 } ++ [c1])[psc]? = some c2 ∧ sp = s.length + 3 ∧
      s' = s.set p { cp with scal := cp.scal.set 1 1 } ++
        [c1, c2, { ch with refs := [some s.length, some (s.length + 1)] }, ⟨.spacePacket, [some (s.length + 2)], [secLen, n + 2]⟩] := by
  obtain ⟨hdr, s1, h1, h2⟩ := (run_bind_some _ _ _ _ _).mp h
  obtain ⟨⟨cp, hcp, hr⟩, e⟩ := (ref_run _ _ _ _ _).mp h1
  subst s1
  obtain ⟨n, s2, h3, h4⟩ := (run_bind_some _ _ _ _ _).mp h2
  obtain ⟨⟨cp', hcp', hn⟩, e⟩ := (scalAt_run _ _ _ _ _).mp h3
  subst s2
  have e1 : cp' = cp := by rw [hcp] at hcp'; exact (Option.some.inj hcp').symm
  subst e1
  obtain ⟨u, s3, h5, h6⟩ := (run_bind_some _ _ _ _ _).mp h4
  obtain ⟨cp'', hcp'', e⟩ := (setScal_run _ _ _ _ _ _).mp h5
  have e2 : cp'' = cp' := by rw [hcp] at hcp''; exact (Option.some.inj hcp'').symm
  subst e2 s3
  obtain ⟨hdr', s4, h7, h8⟩ := (run_bind_some _ _ _ _ _).mp h6
  obtain ⟨ch, pid, psc, c1, c2, hch, hpid, hpsc, hc1, hc2, e3, e4⟩ := deepCopyHeader_shape _ hdr hdr' s4 h7
  subst hdr' s4
  obtain ⟨e5, e6⟩ := (new_run _ _ _ _).mp h8
  subst sp s'
  refine ⟨cp'', hdr, n, ch, pid, psc, c1, c2, hcp, hr, hn, hch, hpid, hpsc, hc1, hc2, ?_, ?_⟩
  · simp [List.length_set]
  · simp [List.length_set]

/-- what `to_space_packet()` does to the objects that existed, stated as it is (`calc_crc()` runs first): the ONLY
    pre-existing cell that changes is the packet's own, and there only the `crc16` cache scalar (index 1: tag, header /
    secondary-header references and the data length stay); every other pre-existing cell — header, `PacketId`,
    `PacketSeqCtrl`, secondary header, every other object — is what it was; and every handle whose reachable cells exist and
    do not include the packet shows the same view and reaches the same cells. Both for `PusTc` and `PusTm`. -/
theorem C02_heap_to_space_packet_writes_only_crc (isTm : Bool) (p sp : Addr) (s s' : Store)
    (h : (if isTm then tmToSpacePacket p else tcToSpacePacket p).run s = some (sp, s')) :
    (∃ cp, s[p]? = some cp ∧ s'[p]? = some { cp with scal := cp.scal.set 1 1 }) ∧
    (∀ a, a < s.length → a ≠ p → s'[a]? = s[a]?) ∧
    (∀ n x, Valid n s x → p ∉ reachN n s x → viewN n s' x = viewN n s x ∧ reachN n s' x = reachN n s x) := by
  have hsh : ∃ secLen, (do
        let hdr ← ref p 0
        let n ← scalAt p 0
        setScal p 1 1
        let hdr' ← deepCopyHeader hdr
        new ⟨.spacePacket, [some hdr'], [secLen, n + 2]⟩ : H Addr).run s = some (sp, s') := by
    cases isTm
    · exact ⟨5, h⟩
    · exact ⟨7, h⟩
  obtain ⟨secLen, hsh⟩ := hsh
  obtain ⟨cp, hdr, n, ch, pid, psc, c1, c2, hcp, _, _, _, _, _, _, _, _, rfl⟩ := toSpacePacket_shape secLen p sp s s' hsh
  have hp : p < s.length := (List.getElem?_eq_some_iff.mp hcp).1
  refine ⟨⟨cp, hcp, ?_⟩, ?_, ?_⟩
  · rw [List.getElem?_append_left (by simpa using hp), List.getElem?_set_self hp]
  · intro a ha hne
    rw [List.getElem?_append_left (by simpa using ha), List.getElem?_set_ne (fun e => hne e.symm)]
  · intro m x hv hx
    have st : Steps [p] s (s.set p { cp with scal := cp.scal.set 1 1 } ++
        [c1, c2, { ch with refs := [some s.length, some (s.length + 1)] }, ⟨.spacePacket, [some (s.length + 2)], [secLen, n + 2]⟩]) :=
      .alloc _ (.write p _ (.refl s) (by simp))
    obtain ⟨hv', hr', _⟩ := C11_heap_steps_frame st m x hv (by simpa using hx)
    exact ⟨hv', hr'⟩

private theorem toSpacePacket_separated (secLen : Nat) (p sp : Addr) (s s' : Store) (hc : Closed s)
    (hl : ∀ hdr, headerOf s p = some hdr → KidsAreLeaves s hdr)
    (h : (do
        let hdr ← ref p 0
        let n ← scalAt p 0
        setScal p 1 1
        let hdr' ← deepCopyHeader hdr
        new ⟨.spacePacket, [some hdr'], [secLen, n + 2]⟩ : H Addr).run s = some (sp, s')) :
    ∀ n b, b < s.length → Disjoint (reachN n s' sp) (reachN n s' b) := by
  obtain ⟨cp, hdr, m, ch, pid, psc, c1, c2, hcp, hr, _, hch, hpid, hpsc, hc1, hc2, rfl, rfl⟩ := toSpacePacket_shape secLen p sp s s' h
  intro n b hb
  have hc1s := closed_set_same_refs hc hcp (c' := { cp with scal := cp.scal.set 1 1 }) rfl
  have hl1 := kidsAreLeaves_set_same_refs hcp (c' := { cp with scal := cp.scal.set 1 1 }) rfl (hl hdr (by simp [headerOf, hcp, hr]))
  have hql : psc < (s.set p { cp with scal := cp.scal.set 1 1 }).length := closed_kid_lt hc1s hch (kid_of_ref hpsc)
  rw [List.getElem?_append_left hql] at hc2
  have hk1 : c1.kids = [] := leaf_kids (hl1 pid (by simp [hch, kid_of_ref hpid])) hc1
  have hk2 : c2.kids = [] := leaf_kids (hl1 psc (by simp [hch, kid_of_ref hpsc])) hc2
  have hlen : (s.set p { cp with scal := cp.scal.set 1 1 }).length = s.length := List.length_set
  have := C11_heap_fresh_disjoint n (s.set p { cp with scal := cp.scal.set 1 1 })
    [c1, c2, { ch with refs := [some s.length, some (s.length + 1)] }, ⟨.spacePacket, [some (s.length + 2)], [secLen, m + 2]⟩]
    (s.length + 3) b hc1s (by rw [hlen]; exact hb)
    (by
      intro c hcm r hrk
      rw [hlen]
      simp only [List.mem_cons, List.not_mem_nil, or_false] at hcm
      rcases hcm with rfl | rfl | rfl | rfl
      · simp [hk1] at hrk
      · simp [hk2] at hrk
      · simp [Cell.kids] at hrk; rcases hrk with rfl | rfl <;> simp
      · simp [Cell.kids] at hrk; subst hrk; simp)
    (by rw [hlen]; simp)
  exact this

/-- C02, all histories, every depth: the generic space-packet view of a telecommand (`to_space_packet()`) has no cell in
    common with any object that existed before — in particular not with the telecommand — and no sequence of setter calls
    on the telecommand afterwards changes anything readable through it -/
theorem C02_heap_space_packet_isolated (n : Nat) (s : Store) (hc : Closed s) (tc : Addr) (htc : tc < s.length)
    (hl : ∀ hdr, headerOf s tc = some hdr → KidsAreLeaves s hdr)
    (sp : Addr) (s' : Store) (h : (tcToSpacePacket tc).run s = some (sp, s')) (ops : List TcOp) :
    (∀ m b, b < s.length → Disjoint (reachN m s' sp) (reachN m s' b)) ∧
    viewN (n + 2) (runOps (tcSet tc) ops s') sp = viewN (n + 2) s' sp := by
  have hsep := toSpacePacket_separated 5 tc sp s s' hc hl h
  exact ⟨hsep, (C02_heap_tc_setters_frame n s' tc sp (hsep (n + 2) tc htc) ops).1⟩

/-- the same for a telemetry packet and its setters (`apid`, `seq_flags`, `tm_data`) -/
theorem C02_heap_tm_space_packet_isolated (n : Nat) (s : Store) (hc : Closed s) (tm : Addr) (htm : tm < s.length)
    (hl : ∀ hdr, headerOf s tm = some hdr → KidsAreLeaves s hdr)
    (sp : Addr) (s' : Store) (h : (tmToSpacePacket tm).run s = some (sp, s')) (ops : List TmOp) :
    (∀ m b, b < s.length → Disjoint (reachN m s' sp) (reachN m s' b)) ∧
    viewN (n + 2) (runOps (tmSet tm) ops s') sp = viewN (n + 2) s' sp := by
  have hsep := toSpacePacket_separated 7 tm sp s s' hc hl h
  exact ⟨hsep, (C02_heap_tm_setters_frame n s' tm sp (hsep (n + 2) tm htm) ops).1⟩

/-- the VALUE half: the space packet's header is a cell with the tag and scalars (version, data length) of the packet's
    header at the time of the call, and its `PacketId` / `PacketSeqCtrl` are cells EQUAL to the header's — provided the
    packet is not reachable from its own header (no cycle), so that the `crc16` assignment does not touch those cells -/
theorem C02_heap_space_packet_snapshot_values (isTm : Bool) (p sp : Addr) (s s' : Store) (hc : Closed s)
    (h : (if isTm then tmToSpacePacket p else tcToSpacePacket p).run s = some (sp, s'))
    (hacyc : ∀ hdr, headerOf s p = some hdr → p ∉ reachN 1 s hdr) :
    ∃ hdr ch pid psc h' a b, headerOf s p = some hdr ∧ s[hdr]? = some ch ∧ ch.refs[0]? = some (some pid) ∧
      ch.refs[1]? = some (some psc) ∧ (s'[sp]?.map Cell.refs) = some [some h'] ∧
      s'[h']? = some { ch with refs := [some a, some b] } ∧ s'[a]? = s[pid]? ∧ s'[b]? = s[psc]? ∧ s'[a]?.isSome ∧ s'[b]?.isSome := by
  have hsh : ∃ secLen, (do
        let hdr ← ref p 0
        let n ← scalAt p 0
        setScal p 1 1
        let hdr' ← deepCopyHeader hdr
        new ⟨.spacePacket, [some hdr'], [secLen, n + 2]⟩ : H Addr).run s = some (sp, s') := by
    cases isTm
    · exact ⟨5, h⟩
    · exact ⟨7, h⟩
  obtain ⟨secLen, hsh⟩ := hsh
  obtain ⟨cp, hdr, n, ch, pid, psc, c1, c2, hcp, hr, _, hch, hpid, hpsc, hc1, hc2, rfl, rfl⟩ := toSpacePacket_shape secLen p sp s s' hsh
  have hho : headerOf s p = some hdr := by simp [headerOf, hcp, hr]
  have hnot := hacyc hdr hho
  have hne1 : p ≠ hdr := fun e => hnot (by rw [e]; exact mem_reachN_self _ _ _)
  rw [List.getElem?_set_ne hne1] at hch
  have hne2 : p ≠ pid := fun e => hnot (by rw [e]; exact mem_reachN_step hch hpid (mem_reachN_self _ _ _))
  have hne3 : p ≠ psc := fun e => hnot (by rw [e]; exact mem_reachN_step hch hpsc (mem_reachN_self _ _ _))
  rw [List.getElem?_set_ne hne2] at hc1
  have hpscl : psc < s.length := closed_kid_lt hc hch (kid_of_ref hpsc)
  rw [List.getElem?_append_left (by rw [List.length_set]; exact hpscl), List.getElem?_set_ne hne3] at hc2
  refine ⟨hdr, ch, pid, psc, s.length + 2, s.length, s.length + 1, hho, hch, hpid, hpsc, ?_, ?_, ?_, ?_, ?_, ?_⟩ <;>
    simp [List.getElem?_append_right, List.length_set, hc1, hc2]

private theorem new_run_eq (c : Cell) (s : Store) : (new c).run s = some (s.length, s ++ [c]) := rfl

private theorem closed_append {s t : Store} (hc : Closed s) (ht : ∀ c ∈ t, ∀ r ∈ c.kids, r < s.length + t.length) :
    Closed (s ++ t) := by
  intro c hcm r hr
  rw [List.length_append]
  rcases List.mem_append.mp hcm with hm | hm
  · exact Nat.lt_of_lt_of_le (hc c hm r hr) (Nat.le_add_right _ _)
  · exact ht c hm r hr

/-- a decoder result is separated from everything that existed before: `<Pdu>.unpack(raw)` of every kind returns an
    object graph (PDU, base, header, configuration, byte fields, parameter objects, lists, TLVs) of NEW cells only -/
theorem C11_heap_unpack_fresh (k : PduKind) (idw seqw : Nat) (withObj : Bool) (scal : List Nat) (s : Store) (hc : Closed s)
    (dec : Addr) (s' : Store) (h : (unpackPdu k idw seqw withObj scal).run s = some (dec, s')) (b : Addr) (hb : b < s.length) :
    Disjoint (reach s' dec) (reach s' b) := by
  cases k <;> cases withObj <;>
    simp [unpackPdu, newByteField, newPduConfig, newDirective, newPduHeader, newFileDataParams, newSegMeta, newFinishedParams,
      StateT.run_bind, new_run_eq, PduKind.tag, PduKind.code] at h <;>
    obtain ⟨rfl, rfl⟩ := h <;>
    (try simp only [List.append_assoc, List.cons_append, List.nil_append]) <;>
    apply C11_heap_fresh_disjoint depth s _ _ b hc hb <;>
    first | omega | (simp [Cell.kids]; done) | (simp [Cell.kids]; omega)

/-- two results of a factory are separated: `FinishedParams.success_params()` / `.empty()` / `FileDataParams.empty()` /
    `PduConfig.default()` called twice give object graphs without a common cell (a new list / new byte fields per call) -/
theorem C11_heap_factory_results_separated (s : Store) (hc : Closed s) (which : Fin 4) (a b : Addr) (s1 s2 : Store)
    (h1 : (match which with
      | 0 => finishedSuccessParams | 1 => finishedEmptyParams | 2 => fileDataEmptyParams | 3 => pduConfigDefault).run s = some (a, s1))
    (h2 : (match which with
      | 0 => finishedSuccessParams | 1 => finishedEmptyParams | 2 => fileDataEmptyParams | 3 => pduConfigDefault).run s1 = some (b, s2)) :
    Disjoint (reach s2 b) (reach s2 a) := by
  match which with
  | 0 | 1 | 2 | 3 =>
    simp [finishedSuccessParams, finishedEmptyParams, fileDataEmptyParams, pduConfigDefault, newFinishedParams, newFileDataParams,
      newByteField, newPduConfig, StateT.run_bind, new_run_eq] at h1 h2
    obtain ⟨rfl, rfl⟩ := h1
    obtain ⟨rfl, rfl⟩ := h2
    apply C11_heap_fresh_disjoint depth _ _ _ _
    · apply closed_append hc
      simp [Cell.kids] <;> omega
    · simp
    · simp [Cell.kids] <;> omega
    · simp

/-! ## (d) where the code SHARES — stated as it is -/

/-- what the common body of the eight CFDP PDU constructors builds, exactly -/
private theorem newPdu_shape (k : PduKind) (conf : Addr) (objs : List (Option Addr)) (scal : List Nat) (af : Bool)
    (fl dl : Nat) (s : Store) (cc : Cell) (hcc : s[conf]? = some cc) (pdu : Addr) (s' : Store)
    (h : (newPdu k conf objs scal af fl dl).run s = some (pdu, s')) :
    (k = .fileData ∧ pdu = s.length + 2 ∧
      s' = s ++ [{ cc with scal := cc.scal.set 3 (k.dir af) }, ⟨.pduHeader, [some s.length], [1, fl, dl]⟩,
                 ⟨k.tag, some (s.length + 1) :: objs, scal⟩]) ∨
    (k ≠ .fileData ∧ pdu = s.length + 3 ∧
      s' = s ++ [{ cc with scal := cc.scal.set 3 (k.dir af) }, ⟨.pduHeader, [some s.length], [0, 0, scal.length + 1]⟩,
                 ⟨.directive, [some (s.length + 1)], [k.code]⟩, ⟨k.tag, some (s.length + 2) :: objs, scal⟩]) := by
  unfold newPdu at h
  obtain ⟨conf', s1, h1, h2⟩ := (run_bind_some _ _ _ _ _).mp h
  unfold copyConfWithDir at h1
  obtain ⟨c0, s0, h3, h4⟩ := (run_bind_some _ _ _ _ _).mp h1
  obtain ⟨hc0, e⟩ := (cellAt_run _ _ _ _).mp h3
  subst s0
  have e0 : c0 = cc := by rw [hcc] at hc0; exact (Option.some.inj hc0).symm
  subst e0
  obtain ⟨e1, e2⟩ := (new_run _ _ _ _).mp h4
  subst conf' s1
  cases k <;>
    simp [newDirective, newPduHeader, StateT.run_bind, new_run_eq] at h2 <;>
    obtain ⟨rfl, rfl⟩ := h2 <;>
    first
      | exact Or.inl ⟨rfl, rfl, rfl⟩
      | exact Or.inr ⟨(by intro e; cases e), rfl, rfl⟩

/-- from the PDU object to the configuration it reads: `refs` index chain of `pdu.pdu_header.pdu_conf` -/
def confPath : PduKind → List Nat
  | .fileData => [0, 0]
  | _ => [0, 0, 0]

private theorem reach_leaf {s : Store} {r : Addr} (hl : Leaf s r) : ∀ m x, x ∈ reachN m s r → x = r := by
  intro m x hx
  cases m with
  | zero => simpa [reachN] using hx
  | succ m =>
    simp only [reachN, List.mem_cons] at hx
    rcases hx with h | h
    · exact h
    · cases hc : s[r]? with
      | none => simp [hc] at h
      | some c => simp [hc, leaf_kids hl hc] at h

/-- everything reachable from a fresh root is fresh, or reachable (in the old store) from an OLD cell a fresh cell refers to -/
private theorem reach_fresh_or_old (n : Nat) (s t : Store) (hc : Closed s) : ∀ a x, s.length ≤ a → x ∈ reachN n (s ++ t) a →
    s.length ≤ x ∨ ∃ c ∈ t, ∃ r ∈ c.kids, r < s.length ∧ ∃ m, x ∈ reachN m s r := by
  induction n with
  | zero => intro a x ha hx; simp [reachN] at hx; subst hx; exact Or.inl ha
  | succ n ih =>
    intro a x ha hx
    simp only [reachN, List.mem_cons] at hx
    rcases hx with rfl | hx
    · exact Or.inl ha
    · cases hcell : (s ++ t)[a]? with
      | none => simp [hcell] at hx
      | some cell =>
        simp only [hcell, List.mem_flatMap] at hx
        obtain ⟨r, hr, hx⟩ := hx
        have hmem : cell ∈ t := by
          rw [List.getElem?_append_right ha] at hcell
          exact List.mem_of_getElem? hcell
        by_cases hrl : r < s.length
        · rw [C11_heap_alloc_reach n s t r hc hrl] at hx
          exact Or.inr ⟨cell, hmem, r, hr, hrl, n, hx⟩
        · exact ih r x (Nat.le_of_not_lt hrl) hx

/-- the caller's configuration as constructors expect it: its object attributes (the three byte fields) hold no objects and
    are not the configuration itself -/
def ConfFieldsAreLeaves (s : Store) (conf : Addr) : Prop :=
  ∀ r ∈ (s[conf]?.map Cell.kids).getD [], Leaf s r ∧ r ≠ conf

instance (s : Store) (conf : Addr) : Decidable (ConfFieldsAreLeaves s conf) := by unfold ConfFieldsAreLeaves; infer_instance

/-- the caller's parameter objects do not lead back to the caller's configuration -/
def ObjsAvoid (s : Store) (objs : List (Option Addr)) (conf : Addr) : Prop :=
  ∀ o, some o ∈ objs → ∀ m, conf ∉ reachN m s o

/-- THE alias relation after a CFDP PDU constructor, about the RETURNED PDU (all eight kinds, every closed store):
    * following `pdu_header`, `pdu_conf` (the access path of the tie) from the returned PDU reaches a NEW cell (`s.length`),
      not the caller's configuration;
    * that cell holds the caller's object attributes — the SAME three byte-field addresses (`copy.copy` is shallow) — and the
      caller's scalars except the direction of the kind; the caller's cell is unchanged;
    * the caller's configuration cell is NOT reachable from the returned PDU, to any depth (so nothing the caller later
      assigns to scalar attributes of its configuration is read through the PDU: `C11_heap_conf_scalar_write_invisible`);
    * every byte field of the caller's configuration IS reachable from the returned PDU (through the index chain
      `confPath ++ [i]`): what the caller later assigns to `.value` of such a field is read through the PDU;
    * the PDU object's further object attributes are exactly the caller's objects `objs` (parameter object, list, TLV). -/
theorem C11_heap_conf_bytefields_shared (k : PduKind) (conf : Addr) (objs : List (Option Addr)) (scal : List Nat) (af : Bool)
    (fl dl : Nat) (s : Store) (hc : Closed s) (cc : Cell) (hcc : s[conf]? = some cc) (hl : ConfFieldsAreLeaves s conf)
    (ho : ObjsAvoid s objs conf) (pdu : Addr) (s' : Store)
    (h : (newPdu k conf objs scal af fl dl).run s = some (pdu, s')) :
    followAttrs s' pdu ["pdu_header", "pdu_conf"] = some s.length ∧ followIdx s' pdu (confPath k) = some s.length ∧
    s.length ≠ conf ∧ s'[s.length]? = some { cc with scal := cc.scal.set 3 (k.dir af) } ∧ s'[conf]? = some cc ∧
    (∀ n, conf ∉ reachN n s' pdu) ∧
    (∀ i r, cc.refs[i]? = some (some r) → followIdx s' pdu ((confPath k) ++ [i]) = some r) ∧
    (∃ b, s'[pdu]? = some ⟨k.tag, some b :: objs, scal⟩) := by
  have hlt : conf < s.length := (List.getElem?_eq_some_iff.mp hcc).1
  have hne : s.length ≠ conf := fun e => by rw [e] at hlt; exact Nat.lt_irrefl _ hlt
  have hnotreach : ∀ t a, s.length ≤ a →
      (∀ c ∈ t, ∀ r ∈ c.kids, r < s.length → r ∈ cc.kids ∨ some r ∈ objs) → ∀ n, conf ∉ reachN n (s ++ t) a := by
    intro t a ha hk n hx
    rcases reach_fresh_or_old n s t hc a conf ha hx with hge | ⟨c, hcm, r, hr, hrl, m, hm⟩
    · exact Nat.lt_irrefl _ (Nat.lt_of_lt_of_le hlt hge)
    · rcases hk c hcm r hr hrl with hk1 | hk2
      · have := hl r (by simpa [hcc] using hk1)
        exact this.2 (reach_leaf this.1 m conf hm).symm
      · exact ho r hk2 m hm
  have hrefs : ∀ (i : Nat) (r : Addr), cc.refs[i]? = some (some r) → r < s.length :=
    fun i r hr => closed_kid_lt hc hcc (kid_of_ref hr)
  rcases newPdu_shape k conf objs scal af fl dl s cc hcc pdu s' h with ⟨rfl, rfl, rfl⟩ | ⟨hk, rfl, rfl⟩
  · refine ⟨?_, ?_, hne, ?_, ?_, ?_, ?_, ⟨s.length + 1, ?_⟩⟩
    · simp [followAttrs, followIdx, attr, PduKind.tag, List.getElem?_append_right]
    · simp [confPath, followIdx, List.getElem?_append_right]
    · simp [List.getElem?_append_right]
    · rw [List.getElem?_append_left hlt]; exact hcc
    · apply hnotreach _ _ (by omega)
      intro c hcm r hr hrl
      simp only [List.mem_cons, List.not_mem_nil, or_false] at hcm
      rcases hcm with rfl | rfl | rfl
      · left; simpa [Cell.kids] using hr
      · simp [Cell.kids] at hr; subst hr; exact absurd hrl (Nat.lt_irrefl _)
      · simp [Cell.kids] at hr
        rcases hr with rfl | hr
        · exact absurd hrl (by simp)
        · right; exact hr
    · intro i r hr
      simp [confPath, followIdx, List.getElem?_append_right, hr]
    · simp [List.getElem?_append_right]
  · have hattr : attr k.tag "pdu_header" = some [0, 0] := by cases k <;> first | rfl | exact absurd rfl hk
    have hcp : confPath k = [0, 0, 0] := by cases k <;> first | rfl | exact absurd rfl hk
    have hattr2 : attr .pduHeader "pdu_conf" = some [0] := rfl
    refine ⟨?_, ?_, hne, ?_, ?_, ?_, ?_, ⟨s.length + 2, ?_⟩⟩
    · simp [followAttrs, followIdx, hattr, hattr2, List.getElem?_append_right]
    · simp [hcp, followIdx, List.getElem?_append_right]
    · simp [List.getElem?_append_right]
    · rw [List.getElem?_append_left hlt]; exact hcc
    · apply hnotreach _ _ (by omega)
      intro c hcm r hr hrl
      simp only [List.mem_cons, List.not_mem_nil, or_false] at hcm
      rcases hcm with rfl | rfl | rfl | rfl
      · left; simpa [Cell.kids] using hr
      · simp [Cell.kids] at hr; subst hr; exact absurd hrl (Nat.lt_irrefl _)
      · simp [Cell.kids] at hr; subst hr; exact absurd hrl (by simp)
      · simp [Cell.kids] at hr
        rcases hr with rfl | hr
        · exact absurd hrl (by simp)
        · right; exact hr
    · intro i r hr
      simp [hcp, followIdx, List.getElem?_append_right, hr]
    · simp [List.getElem?_append_right]

/-- GENERAL (every closed store, all eight kinds, every scalar attribute, every value, every depth): an assignment to a SCALAR
    attribute of the caller's configuration (`conf.crc_flag = …`, `file_flag`, `trans_mode`, `direction`, `seg_ctrl`) after the
    constructor changes nothing that is read through the PDU, nor what the PDU reaches — the PDU reads its own copy -/
theorem C11_heap_conf_scalar_write_invisible (k : PduKind) (conf : Addr) (objs : List (Option Addr)) (scal : List Nat) (af : Bool)
    (fl dl : Nat) (s : Store) (hc : Closed s) (cc : Cell) (hcc : s[conf]? = some cc) (hl : ConfFieldsAreLeaves s conf)
    (ho : ObjsAvoid s objs conf) (pdu : Addr) (s' : Store) (h : (newPdu k conf objs scal af fl dl).run s = some (pdu, s'))
    (i v : Nat) (u : Unit) (s'' : Store) (hw : (confSetScalar conf i v).run s' = some (u, s'')) (n : Nat) :
    viewN n s'' pdu = viewN n s' pdu ∧ reachN n s'' pdu = reachN n s' pdu := by
  obtain ⟨_, _, _, _, _, hnr, _, _⟩ := C11_heap_conf_bytefields_shared k conf objs scal af fl dl s hc cc hcc hl ho pdu s' h
  obtain ⟨c, _, rfl⟩ := (setScal_run _ _ _ _ _ _).mp hw
  exact ⟨C11_heap_frame n s' pdu conf _ (hnr n), C11_heap_frame_reach n s' pdu conf _ (hnr n)⟩

private theorem followIdx_set_same_refs (s : Store) (a : Addr) (c c' : Cell) (hc : s[a]? = some c) (hr : c'.refs = c.refs) :
    ∀ (path : List Nat) (x : Addr), followIdx (s.set a c') x path = followIdx s x path := by
  intro path
  induction path with
  | nil => intro x; rfl
  | cons i rest ih =>
    intro x
    simp only [followIdx]
    by_cases hx : a = x
    · subst hx
      rw [List.getElem?_set_self (List.getElem?_eq_some_iff.mp hc).1, hc]
      simp only [hr]
      cases c.refs[i]? with
      | none => rfl
      | some o => cases o with
        | none => rfl
        | some r => exact ih r
    · rw [List.getElem?_set_ne hx]
      cases s[x]? with
      | none => rfl
      | some cx =>
        simp only
        cases cx.refs[i]? with
        | none => rfl
        | some o => cases o with
          | none => rfl
          | some r => exact ih r

/-- GENERAL, truthful (every closed store, all eight kinds, each of the three byte fields, every value): `conf.<field>.value = v`
    on the caller's configuration after the constructor writes THE VERY CELL the PDU reads at
    `pdu_header.pdu_conf.<field>` — before and after the assignment that path from the returned PDU ends at the written cell,
    which now holds `v` (the byte-field objects are shared: `copy.copy` is shallow) -/
theorem C11_heap_conf_bytefield_write_visible (k : PduKind) (conf : Addr) (objs : List (Option Addr)) (scal : List Nat) (af : Bool)
    (fl dl : Nat) (s : Store) (hc : Closed s) (cc : Cell) (hcc : s[conf]? = some cc) (hl : ConfFieldsAreLeaves s conf)
    (ho : ObjsAvoid s objs conf) (pdu : Addr) (s' : Store) (h : (newPdu k conf objs scal af fl dl).run s = some (pdu, s'))
    (i v : Nat) (u : Unit) (s'' : Store) (hw : (confSetFieldValue conf i v).run s' = some (u, s'')) :
    ∃ r cr, cc.refs[i]? = some (some r) ∧ s'[r]? = some cr ∧ followIdx s' pdu (confPath k ++ [i]) = some r ∧
      followIdx s'' pdu (confPath k ++ [i]) = some r ∧ s''[r]? = some { cr with scal := cr.scal.set 1 v } := by
  obtain ⟨_, _, _, _, hconf, _, hfields, _⟩ := C11_heap_conf_bytefields_shared k conf objs scal af fl dl s hc cc hcc hl ho pdu s' h
  unfold confSetFieldValue at hw
  obtain ⟨r, s1, h1, h2⟩ := (run_bind_some _ _ _ _ _).mp hw
  obtain ⟨⟨c0, hc0, hr⟩, e⟩ := (ref_run _ _ _ _ _).mp h1
  subst s1
  have e0 : c0 = cc := by rw [hconf] at hc0; exact (Option.some.inj hc0).symm
  subst e0
  obtain ⟨cr, hcr, rfl⟩ := (setScal_run _ _ _ _ _ _).mp h2
  refine ⟨r, cr, hr, hcr, hfields i r hr, ?_, ?_⟩
  · rw [followIdx_set_same_refs s' r cr { cr with scal := cr.scal.set 1 v } hcr rfl]; exact hfields i r hr
  · exact List.getElem?_set_self (List.getElem?_eq_some_iff.mp hcr).1

private theorem touchRef_run (a : Addr) (i : Nat) (s : Store) (u : Unit) (s' : Store) (h : (touchRef a i).run s = some (u, s')) :
    s' = s := by
  obtain ⟨t, rfl⟩ := (alloc_touchRef a i).ext s u s' h
  unfold touchRef at h
  obtain ⟨c, s1, h1, h2⟩ := (run_bind_some _ _ _ _ _).mp h
  obtain ⟨hc, e⟩ := (cellAt_run _ _ _ _).mp h1
  subst s1
  split at h2
  · have := ((put_run _ _ _ _ _).mp h2).2
    have hl := congrArg List.length this
    simp at hl
    simp [hl]
  · have := ((pure_run _ _ _ _).mp h2).2
    have hl := congrArg List.length this
    simp at hl
    simp [hl]

private theorem refOpt_run_store (a : Addr) (i : Nat) (s : Store) (o : Option Addr) (s' : Store)
    (h : (refOpt a i).run s = some (o, s')) : s' = s := by
  unfold refOpt at h
  obtain ⟨c, s1, h1, h2⟩ := (run_bind_some _ _ _ _ _).mp h
  obtain ⟨_, e⟩ := (cellAt_run _ _ _ _).mp h1
  subst s1
  split at h2
  · exact ((pure_run _ _ _ _).mp h2).2
  · exact ((fail_run _ _ _).mp h2).elim

private theorem segMetaLen_run_store (o : Option Addr) (s : Store) (n : Nat) (s' : Store)
    (h : (segMetaLen o).run s = some (n, s')) : s' = s := by
  cases o with
  | none => exact ((pure_run _ _ _ _).mp h).2
  | some m =>
    simp only [segMetaLen] at h
    obtain ⟨l, s1, h1, h2⟩ := (run_bind_some _ _ _ _ _).mp h
    obtain ⟨_, e⟩ := (scalAt_run _ _ _ _ _).mp h1
    subst s1
    exact ((pure_run _ _ _ _).mp h2).2

/-- `FinishedPdu(conf, params)` is the common constructor body on `[params]` (its re-assignments into `params` are identities),
    `FileDataPdu(conf, params)` likewise: every theorem about `newPdu` applies to them -/
theorem C11_heap_finished_filedata_ctor_is_pdu_ctor (conf params pdu : Addr) (s s' : Store) :
    ((newFinishedPdu conf params).run s = some (pdu, s') → (newPdu .finished conf [some params] []).run s = some (pdu, s')) ∧
    ((newFileDataPdu conf params).run s = some (pdu, s') →
      ∃ fl dl, (newPdu .fileData conf [some params] [] false fl dl).run s = some (pdu, s')) := by
  constructor
  · intro h
    unfold newFinishedPdu at h
    obtain ⟨p, s1, h1, h2⟩ := (run_bind_some _ _ _ _ _).mp h
    obtain ⟨u1, s2, h3, h4⟩ := (run_bind_some _ _ _ _ _).mp h2
    obtain ⟨u2, s3, h5, h6⟩ := (run_bind_some _ _ _ _ _).mp h4
    have e1 := touchRef_run _ _ _ _ _ h3
    have e2 := touchRef_run _ _ _ _ _ h5
    obtain ⟨e3, e4⟩ := (pure_run _ _ _ _).mp h6
    subst e1 e2 e3 e4
    exact h1
  · intro h
    unfold newFileDataPdu at h
    obtain ⟨sm, s1, h1, h2⟩ := (run_bind_some _ _ _ _ _).mp h
    have e1 := refOpt_run_store _ _ _ _ _ h1
    obtain ⟨n, s2, h3, h4⟩ := (run_bind_some _ _ _ _ _).mp h2
    obtain ⟨_, e2⟩ := (scalAt_run _ _ _ _ _).mp h3
    obtain ⟨ml, s3, h5, h6⟩ := (run_bind_some _ _ _ _ _).mp h4
    have e3 := segMetaLen_run_store _ _ _ _ h5
    subst e1 e2 e3
    exact ⟨_, _, h6⟩

/-- C15 / C16: the service-1 report built for a telecommand (`create_<step>_tm(apid, tc, timestamp)`) — the report, its
    `tc_req_id` with `PacketId` / `PacketSeqCtrl`, its `PusTm` and header — shares no cell with ANY object that existed
    before (the telecommand in particular), to every depth -/
theorem C15_heap_service1_separated (n : Nat) (s : Store) (hc : Closed s) (tc : Addr)
    (hl : ∀ hdr, headerOf s tc = some hdr → KidsAreLeaves s hdr) (apid sub tsLen : Nat)
    (tm : Addr) (s' : Store) (h : (service1FromTc tc apid sub tsLen).run s = some (tm, s')) (b : Addr) (hb : b < s.length) :
    Disjoint (reachN n s' tm) (reachN n s' b) := by
  unfold service1FromTc at h
  obtain ⟨hdr, s1, h1, h2⟩ := (run_bind_some _ _ _ _ _).mp h
  obtain ⟨⟨ct, hct, hr⟩, e⟩ := (ref_run _ _ _ _ _).mp h1
  subst s1
  obtain ⟨rid, s2, h3, h4⟩ := (run_bind_some _ _ _ _ _).mp h2
  obtain ⟨ch, pid, psc, cp, cq, ver, hch, hpid, hpsc, _, hcp, hcq, rfl, rfl⟩ := reqIdFromSpHeader_shape s hdr rid s2 h3
  have hql : psc < s.length := closed_kid_lt hc hch (kid_of_ref hpsc)
  rw [List.getElem?_append_left hql] at hcq
  have hlv := hl hdr (by simp [headerOf, hct, hr])
  have hkp : cp.kids = [] := leaf_kids (hlv pid (by simp [hch, kid_of_ref hpid])) hcp
  have hkq : cq.kids = [] := leaf_kids (hlv psc (by simp [hch, kid_of_ref hpsc])) hcq
  simp [newPusTm, newSpHeader, newPacketId, newPsc, StateT.run_bind, new_run_eq] at h4
  obtain ⟨rfl, rfl⟩ := h4
  have hsplit : ∀ (t2 : Store), s ++ cp :: cq :: t2 = s ++ ([cp, cq] ++ t2) := fun _ => by simp
  rw [hsplit]
  apply C11_heap_fresh_disjoint n s _ _ b hc hb
  · intro c hcm r hrk
    rcases List.mem_append.mp hcm with hm | hm
    · simp only [List.mem_cons, List.not_mem_nil, or_false] at hm
      rcases hm with rfl | rfl
      · simp [hkp] at hrk
      · simp [hkq] at hrk
    · have key : ∀ t2 : Store, (∀ c ∈ t2, ∀ r ∈ c.kids, s.length ≤ r) → c ∈ t2 → s.length ≤ r :=
        fun t2 h hc' => h c hc' r hrk
      refine key _ ?_ hm
      first | (simp [Cell.kids]; done) | (simp [Cell.kids]; omega)
  · first | omega | (simp; done) | (simp; omega)

/-- C16: the key `PusVerificator.add_tc(tc)` files the telecommand under (a fresh `RequestId`) shares no cell with any
    pre-existing object that does not reach the tracker itself — the telecommand in particular — and only the tracker cell
    is overwritten -/
theorem C15_heap_verificator_key_separated (n : Nat) (s : Store) (hc : Closed s) (v tc : Addr)
    (hl : ∀ hdr, headerOf s tc = some hdr → KidsAreLeaves s hdr)
    (key : Addr) (s' : Store) (h : (verificatorAddTc v tc).run s = some (key, s')) (hvs : v < s.length) (b : Addr)
    (hb : b < s.length) (hv : v ∉ reachN n s b) :
    Disjoint (reachN n s' key) (reachN n s' b) ∧ viewN n s' b = viewN n s b := by
  unfold verificatorAddTc at h
  obtain ⟨hdr, s1, h1, h2⟩ := (run_bind_some _ _ _ _ _).mp h
  obtain ⟨⟨ct, hct, hr⟩, e⟩ := (ref_run _ _ _ _ _).mp h1
  subst s1
  obtain ⟨rid, s2, h3, h4⟩ := (run_bind_some _ _ _ _ _).mp h2
  obtain ⟨ch, pid, psc, cp, cq, ver, hch, hpid, hpsc, _, hcp, hcq, rfl, rfl⟩ := reqIdFromSpHeader_shape s hdr rid s2 h3
  have hql : psc < s.length := closed_kid_lt hc hch (kid_of_ref hpsc)
  rw [List.getElem?_append_left hql] at hcq
  have hlv := hl hdr (by simp [headerOf, hct, hr])
  have hkp : cp.kids = [] := leaf_kids (hlv pid (by simp [hch, kid_of_ref hpid])) hcp
  have hkq : cq.kids = [] := leaf_kids (hlv psc (by simp [hch, kid_of_ref hpsc])) hcq
  obtain ⟨st, s3, h5, h6⟩ := (run_bind_some _ _ _ _ _).mp h4
  obtain ⟨rfl, rfl⟩ := (new_run _ _ _ _).mp h5
  obtain ⟨cv, s4, h7, h8⟩ := (run_bind_some _ _ _ _ _).mp h6
  obtain ⟨hcv, e⟩ := (cellAt_run _ _ _ _).mp h7
  subst s4
  obtain ⟨u, s5, h9, h10⟩ := (run_bind_some _ _ _ _ _).mp h8
  obtain ⟨hvl, e⟩ := (put_run _ _ _ _ _).mp h9
  subst s5
  obtain ⟨rfl, rfl⟩ := (pure_run _ _ _ _).mp h10
  -- the store before the tracker is updated: s ++ t
  have happ : s ++ [cp, cq, ⟨.requestId, [some s.length, some (s.length + 1)], [ver]⟩] ++ [⟨.verifStatus, [], [0, 0, 0, 0, 0]⟩]
      = s ++ [cp, cq, ⟨.requestId, [some s.length, some (s.length + 1)], [ver]⟩, ⟨.verifStatus, [], [0, 0, 0, 0, 0]⟩] := by simp
  rw [happ] at hcv hvl ⊢
  have ht : ∀ c ∈ [cp, cq, (⟨.requestId, [some s.length, some (s.length + 1)], [ver]⟩ : Cell), ⟨.verifStatus, [], [0, 0, 0, 0, 0]⟩],
      ∀ r ∈ c.kids, s.length ≤ r := by
    intro c hcm r hrk
    simp only [List.mem_cons, List.not_mem_nil, or_false] at hcm
    rcases hcm with rfl | rfl | rfl | rfl
    · simp [hkp] at hrk
    · simp [hkq] at hrk
    · simp [Cell.kids] at hrk; rcases hrk with rfl | rfl <;> simp
    · simp [Cell.kids] at hrk
  have hst : Steps [v] s ((s ++ [cp, cq, ⟨.requestId, [some s.length, some (s.length + 1)], [ver]⟩, ⟨.verifStatus, [], [0, 0, 0, 0, 0]⟩]).set v
      { cv with refs := cv.refs ++ [some (s.length + 2), some (s ++ [cp, cq, ⟨.requestId, [some s.length, some (s.length + 1)], [ver]⟩]).length] }) :=
    .write v _ (.alloc _ (.refl s)) (by simp)
  obtain ⟨hview, hreach, _⟩ := C11_heap_steps_frame hst n b (C11_heap_reach_closed n s b hc hb) (by simpa using hv)
  refine ⟨?_, hview⟩
  intro x hx hx'
  rw [hreach] at hx'
  have hlt := C11_heap_reach_closed n s b hc hb x hx'
  have hfresh := C11_heap_fresh_reach n s _ (s.length + 2) ht (by omega)
  have hvn : v ∉ reachN n (s ++ [cp, cq, ⟨.requestId, [some s.length, some (s.length + 1)], [ver]⟩, ⟨.verifStatus, [], [0, 0, 0, 0, 0]⟩]) (s.length + 2) :=
    fun hm => Nat.lt_irrefl _ (Nat.lt_of_lt_of_le hvs (hfresh v hm))
  rw [C11_heap_frame_reach n _ (s.length + 2) v _ hvn] at hx
  exact Nat.lt_irrefl _ (Nat.lt_of_lt_of_le hlt (hfresh x hx))

/-! ### constructors and factories KEEP the caller's object (general; stated as what the code does) -/

/-- `EofPdu(conf, …, fault_location=t)`, `NakPdu(conf, …, segment_requests=l)`, `MetadataPdu(conf, params, options)`,
    `FinishedPdu(conf, params)`, `FileDataPdu(conf, params)`: the returned PDU holds THE CALLER'S object — the public access
    path from the returned PDU ends at the very address that was passed in (File Data has no public accessor for its
    parameter object: stated for the object attribute itself, index 1) -/
theorem C11_heap_pdu_ctor_keeps_caller_object (conf : Addr) (s : Store) (cc : Cell) (hcc : s[conf]? = some cc) (x : Addr)
    (hx : x < s.length) (pdu : Addr) (s' : Store) :
    (∀ size cond, (newEofPdu conf size cond (some x)).run s = some (pdu, s') → followAttrs s' pdu ["fault_location"] = some x) ∧
    (∀ a b, (newNakPdu conf a b (some x)).run s = some (pdu, s') → followAttrs s' pdu ["segment_requests"] = some x) ∧
    (∀ o, (newMetadataPdu conf x o).run s = some (pdu, s') → followAttrs s' pdu ["params"] = some x) ∧
    (∀ p, (newMetadataPdu conf p (some x)).run s = some (pdu, s') → followAttrs s' pdu ["options"] = some x) ∧
    ((newFinishedPdu conf x).run s = some (pdu, s') → followAttrs s' pdu ["finished_params"] = some x) ∧
    ((newFileDataPdu conf x).run s = some (pdu, s') → followIdx s' pdu [1] = some x) := by
  have hx' : ∀ t : Store, x < (s ++ t).length := fun t => by rw [List.length_append]; exact Nat.lt_of_lt_of_le hx (Nat.le_add_right _ _)
  have key : ∀ (k : PduKind) objs scal af fl dl, (newPdu k conf objs scal af fl dl).run s = some (pdu, s') →
      ∃ b, s'[pdu]? = some ⟨k.tag, some b :: objs, scal⟩ ∧ x < s'.length := by
    intro k objs scal af fl dl h
    rcases newPdu_shape k conf objs scal af fl dl s cc hcc pdu s' h with ⟨_, rfl, rfl⟩ | ⟨_, rfl, rfl⟩
    · exact ⟨s.length + 1, by simp [List.getElem?_append_right], hx' _⟩
    · exact ⟨s.length + 2, by simp [List.getElem?_append_right], hx' _⟩
  refine ⟨?_, ?_, ?_, ?_, ?_, ?_⟩
  · intro size cond h
    obtain ⟨b, hp, hl⟩ := key .eof _ _ _ _ _ h
    simp [followAttrs, followIdx, attr, hp, PduKind.tag, hl]
  · intro a b h
    obtain ⟨b', hp, hl⟩ := key .nak [some x] [a, b] false 0 0 h
    simp [followAttrs, followIdx, attr, hp, PduKind.tag, hl]
  · intro o h
    obtain ⟨b, hp, hl⟩ := key .metadata _ _ _ _ _ h
    simp [followAttrs, followIdx, attr, hp, PduKind.tag, hl]
  · intro p h
    obtain ⟨b, hp, hl⟩ := key .metadata _ _ _ _ _ h
    simp [followAttrs, followIdx, attr, hp, PduKind.tag, hl]
  · intro h
    obtain ⟨b, hp, hl⟩ := key .finished _ _ _ _ _ ((C11_heap_finished_filedata_ctor_is_pdu_ctor conf x pdu s s').1 h)
    simp [followAttrs, followIdx, attr, hp, PduKind.tag, hl]
  · intro h
    obtain ⟨fl, dl, h'⟩ := (C11_heap_finished_filedata_ctor_is_pdu_ctor conf x pdu s s').2 h
    obtain ⟨b, hp, hl⟩ := key .fileData _ _ _ _ _ h'
    simp [followIdx, hp]

/-- `PusTc.from_composite_fields(header, sec_header, data)` ADOPTS both objects: the new telecommand's `sp_header` and
    `pus_tc_sec_header` are the caller's objects; `PduHolder(x)` / `holder.pdu = x` keep `x`;
    `Service1Tm(…, verif_params=vp)` keeps `vp` (so `report.tc_req_id` is the caller's `RequestId` object) -/
theorem C02_heap_adoption_keeps_caller_object (s : Store) (x : Addr) (hx : x < s.length) (r : Addr) (s' : Store) :
    (∀ sec n, sec < s.length → (tcFromCompositeFields x sec n).run s = some (r, s') →
      followAttrs s' r ["sp_header"] = some x ∧ followAttrs s' r ["pus_tc_sec_header"] = some sec) ∧
    ((newHolder (some x)).run s = some (r, s') → followAttrs s' r ["pdu"] = some x) ∧
    (∀ apid sub ts, (newService1Tm x apid sub ts).run s = some (r, s') → followIdx s' r [0] = some x ∧
      ∀ rid cx, s[x]? = some cx → cx.refs[0]? = some (some rid) → rid < s.length →
        followAttrs s' r ["tc_req_id"] = some rid) := by
  refine ⟨?_, ?_, ?_⟩
  · intro sec n hsec h
    unfold tcFromCompositeFields at h
    obtain ⟨pid, s1, h1, h2⟩ := (run_bind_some _ _ _ _ _).mp h
    obtain ⟨_, e⟩ := (ref_run _ _ _ _ _).mp h1
    subst s1
    obtain ⟨pt, s2, h3, h4⟩ := (run_bind_some _ _ _ _ _).mp h2
    obtain ⟨_, e⟩ := (scalAt_run _ _ _ _ _).mp h3
    subst s2
    split at h4
    · exact ((fail_run _ _ _).mp h4).elim
    · obtain ⟨rfl, rfl⟩ := (new_run _ _ _ _).mp h4
      constructor <;> simp [followAttrs, followIdx, attr, List.getElem?_append_right] <;>
        first | exact Nat.lt_succ_of_lt hx | exact Nat.lt_succ_of_lt hsec
  · intro h
    obtain ⟨rfl, rfl⟩ := (new_run _ _ _ _).mp h
    simp [followAttrs, followIdx, attr, List.getElem?_append_right]
    exact Nat.lt_succ_of_lt hx
  · intro apid sub ts h
    unfold newService1Tm newPusTm newSpHeader newPacketId newPsc at h
    obtain ⟨c, s1, h1, h2⟩ := (run_bind_some _ _ _ _ _).mp h
    obtain ⟨hcx, e⟩ := (cellAt_run _ _ _ _).mp h1
    subst s1
    simp [StateT.run_bind, new_run_eq] at h2
    obtain ⟨rfl, rfl⟩ := h2
    refine ⟨by simp [followIdx, List.getElem?_append_right, Nat.add_assoc], ?_⟩
    intro rid cx hcx' href hrid
    simp [followAttrs, followIdx, attr, List.getElem?_append_right, List.getElem?_append_left hx, hcx', href, Nat.add_assoc]
    exact Nat.lt_of_lt_of_le hrid (Nat.le_add_right _ _)

/-! ### setters that write INTO caller-supplied objects: what they write, and what they cannot touch (general) -/

private theorem setRef_run (a : Addr) (i : Nat) (v : Option Addr) (s : Store) (u : Unit) (s' : Store) :
    (setRef a i v).run s = some (u, s') ↔ ∃ c, s[a]? = some c ∧ s' = s.set a { c with refs := c.refs.set i v } := by
  unfold setRef
  rw [run_bind_some]
  constructor
  · rintro ⟨c, s1, h1, h2⟩
    obtain ⟨hc, rfl⟩ := (cellAt_run _ _ _ _).mp h1
    exact ⟨c, hc, ((put_run _ _ _ _ _).mp h2).2⟩
  · rintro ⟨c, hc, rfl⟩
    exact ⟨c, s, (cellAt_run _ _ _ _).mpr ⟨hc, rfl⟩, (put_run _ _ _ _ _).mpr ⟨(List.getElem?_eq_some_iff.mp hc).1, rfl⟩⟩

private theorem followIdx_one {s : Store} {a r : Addr} {c : Cell} {i : Nat} (hc : s[a]? = some c) (hr : c.refs[i]? = some (some r)) :
    followIdx s a [i] = some r := by
  simp [followIdx, hc, hr]

private theorem followIdx_two {s : Store} {a b r : Addr} {c d : Cell} {i j : Nat} (hc : s[a]? = some c) (hr : c.refs[i]? = some (some b))
    (hd : s[b]? = some d) (hr2 : d.refs[j]? = some (some r)) : followIdx s a [i, j] = some r := by
  simp [followIdx, hc, hr, hd, hr2]

/-- what a call that only overwrites cells of `W` and allocates cannot touch (the conclusion of `C11_heap_steps_frame`) -/
def FrameOutside (W : List Addr) (s s' : Store) : Prop :=
  ∀ n x, Valid n s x → (∀ a ∈ W, a ∉ reachN n s x) → viewN n s' x = viewN n s x ∧ reachN n s' x = reachN n s x

private theorem frameOutside_of_steps {W : List Addr} {s s' : Store} (h : Steps W s s') : FrameOutside W s s' :=
  fun n x hv hw => let ⟨a, b, _⟩ := C11_heap_steps_frame h n x hv hw; ⟨a, b⟩

/-- GENERAL (every store, every `FinOp`): a Finished-PDU setter (`condition_code`, `fault_location`, `file_store_responses`,
    `None` included) overwrites exactly two pre-existing cells — the parameter object the PDU holds (the CALLER's
    `FinishedParams`, see `C11_heap_pdu_ctor_keeps_caller_object`) and the PDU's header — and allocates at most a list; every
    handle that reaches neither shows the same view afterwards -/
theorem C11_heap_finished_setter_confined (s : Store) (pdu : Addr) (op : FinOp) (u : Unit) (s' : Store)
    (h : (finSet pdu op).run s = some (u, s')) :
    ∃ p hd, followIdx s pdu [1] = some p ∧ followIdx s pdu [0, 0] = some hd ∧ FrameOutside [p, hd] s s' := by
  have pre : ∀ {β : Type} (k : Addr → Addr → H β) (r : β), (do
        let p ← ref pdu 1
        let b ← ref pdu 0
        let hd ← ref b 0
        k p hd).run s = some (r, s') →
      ∃ p hd, followIdx s pdu [1] = some p ∧ followIdx s pdu [0, 0] = some hd ∧ (k p hd).run s = some (r, s') := by
    intro β k r h
    obtain ⟨p, s1, h1, h2⟩ := (run_bind_some _ _ _ _ _).mp h
    obtain ⟨⟨cp, hcp, hr1⟩, e⟩ := (ref_run _ _ _ _ _).mp h1
    subst s1
    obtain ⟨b, s2, h3, h4⟩ := (run_bind_some _ _ _ _ _).mp h2
    obtain ⟨⟨cp', hcp', hr2⟩, e⟩ := (ref_run _ _ _ _ _).mp h3
    subst s2
    have e1 : cp' = cp := by rw [hcp] at hcp'; exact (Option.some.inj hcp').symm
    subst e1
    obtain ⟨hd, s3, h5, h6⟩ := (run_bind_some _ _ _ _ _).mp h4
    obtain ⟨⟨cb, hcb, hr3⟩, e⟩ := (ref_run _ _ _ _ _).mp h5
    subst s3
    exact ⟨p, hd, followIdx_one hcp hr1, followIdx_two hcp hr2 hcb hr3, h6⟩
  cases op with
  | cond v =>
    obtain ⟨p, hd, hp, hh, h⟩ := pre (fun p hd => do setScal p 0 v; setScal hd 2 (2 + v)) u h
    refine ⟨p, hd, hp, hh, frameOutside_of_steps ?_⟩
    obtain ⟨u1, s1, h1, h2⟩ := (run_bind_some _ _ _ _ _).mp h
    obtain ⟨c1, _, rfl⟩ := (setScal_run _ _ _ _ _ _).mp h1
    obtain ⟨c2, _, rfl⟩ := (setScal_run _ _ _ _ _ _).mp h2
    exact .write hd _ (.write p _ (.refl s) (by simp)) (by simp)
  | faultLoc t =>
    cases t with
    | some a =>
      obtain ⟨p, hd, hp, hh, h⟩ := pre (fun p hd => do setRef p 1 (some a); setScal hd 2 7) u h
      refine ⟨p, hd, hp, hh, frameOutside_of_steps ?_⟩
      obtain ⟨u1, s1, h1, h2⟩ := (run_bind_some _ _ _ _ _).mp h
      obtain ⟨c1, _, rfl⟩ := (setRef_run _ _ _ _ _ _).mp h1
      obtain ⟨c2, _, rfl⟩ := (setScal_run _ _ _ _ _ _).mp h2
      exact .write hd _ (.write p _ (.refl s) (by simp)) (by simp)
    | none =>
      obtain ⟨p, hd, hp, hh, h⟩ := pre (fun p hd => do setRef p 1 none; setScal hd 2 2) u h
      refine ⟨p, hd, hp, hh, frameOutside_of_steps ?_⟩
      obtain ⟨u1, s1, h1, h2⟩ := (run_bind_some _ _ _ _ _).mp h
      obtain ⟨c1, _, rfl⟩ := (setRef_run _ _ _ _ _ _).mp h1
      obtain ⟨c2, _, rfl⟩ := (setScal_run _ _ _ _ _ _).mp h2
      exact .write hd _ (.write p _ (.refl s) (by simp)) (by simp)
  | responses l =>
    cases l with
    | some a =>
      obtain ⟨p, hd, hp, hh, h⟩ := pre (fun p hd => do setRef p 0 (some a); setScal hd 2 11) u h
      refine ⟨p, hd, hp, hh, frameOutside_of_steps ?_⟩
      obtain ⟨u1, s1, h1, h2⟩ := (run_bind_some _ _ _ _ _).mp h
      obtain ⟨c1, _, rfl⟩ := (setRef_run _ _ _ _ _ _).mp h1
      obtain ⟨c2, _, rfl⟩ := (setScal_run _ _ _ _ _ _).mp h2
      exact .write hd _ (.write p _ (.refl s) (by simp)) (by simp)
    | none =>
      obtain ⟨p, hd, hp, hh, h⟩ := pre (fun p hd => do
        let e ← new ⟨.pyList, [], []⟩
        setRef p 0 (some e)
        setScal hd 2 2) u h
      refine ⟨p, hd, hp, hh, frameOutside_of_steps ?_⟩
      obtain ⟨e, s0, h0, h⟩ := (run_bind_some _ _ _ _ _).mp h
      obtain ⟨rfl, rfl⟩ := (new_run _ _ _ _).mp h0
      obtain ⟨u1, s1, h1, h2⟩ := (run_bind_some _ _ _ _ _).mp h
      obtain ⟨c1, _, rfl⟩ := (setRef_run _ _ _ _ _ _).mp h1
      obtain ⟨c2, _, rfl⟩ := (setScal_run _ _ _ _ _ _).mp h2
      exact .write hd _ (.write p _ (.alloc _ (.refl s)) (by simp)) (by simp)

/-- GENERAL, truthful: `pdu.condition_code = v` assigns the scalar of the parameter object the PDU holds — after
    `FinishedPdu(conf, params)` that is the caller's `params` — while the constructor itself leaves it as it was
    (`C11_heap_eight_ctors_inputs_untouched`) -/
theorem C11_heap_finished_setter_writes_caller_params (s : Store) (pdu : Addr) (v : Nat) (u : Unit) (s' : Store)
    (h : (finSet pdu (.cond v)).run s = some (u, s')) :
    ∃ p hd cp, followIdx s pdu [1] = some p ∧ followIdx s pdu [0, 0] = some hd ∧ s[p]? = some cp ∧
      (p ≠ hd → s'[p]? = some { cp with scal := cp.scal.set 0 v }) := by
  simp only [finSet] at h
  obtain ⟨p, s1, h1, h2⟩ := (run_bind_some _ _ _ _ _).mp h
  obtain ⟨⟨cpdu, hcpdu, hr1⟩, e⟩ := (ref_run _ _ _ _ _).mp h1
  subst s1
  obtain ⟨b, s2, h3, h4⟩ := (run_bind_some _ _ _ _ _).mp h2
  obtain ⟨⟨c', hc', hr2⟩, e⟩ := (ref_run _ _ _ _ _).mp h3
  subst s2
  have e1 : c' = cpdu := by rw [hcpdu] at hc'; exact (Option.some.inj hc').symm
  subst e1
  obtain ⟨hd, s3, h5, h6⟩ := (run_bind_some _ _ _ _ _).mp h4
  obtain ⟨⟨cb, hcb, hr3⟩, e⟩ := (ref_run _ _ _ _ _).mp h5
  subst s3
  obtain ⟨u1, s4, h7, h8⟩ := (run_bind_some _ _ _ _ _).mp h6
  obtain ⟨cp, hcp, rfl⟩ := (setScal_run _ _ _ _ _ _).mp h7
  obtain ⟨ch, _, rfl⟩ := (setScal_run _ _ _ _ _ _).mp h8
  refine ⟨p, hd, cp, followIdx_one hcpdu hr1, followIdx_two hcpdu hr2 hcb hr3, hcp, ?_⟩
  intro hne
  rw [List.getElem?_set_ne (fun e => hne e.symm), List.getElem?_set_self (List.getElem?_eq_some_iff.mp hcp).1]

/-- GENERAL: the File Data setters (`file_data`, `segment_metadata`) overwrite exactly the parameter object the PDU holds
    (the caller's `FileDataParams`) and the PDU's header; `holder.pdu = x` overwrites exactly the holder -/
theorem C11_heap_filedata_holder_setter_confined (s : Store) (obj : Addr) (u : Unit) (s' : Store) :
    (∀ op, (fdSet obj op).run s = some (u, s') →
      ∃ p hd, followIdx s obj [1] = some p ∧ followIdx s obj [0] = some hd ∧ FrameOutside [p, hd] s s') ∧
    (∀ x, (holderSet obj x).run s = some (u, s') → FrameOutside [obj] s s' ∧
      ∃ c, s[obj]? = some c ∧ s'[obj]? = some { c with refs := c.refs.set 0 x }) := by
  constructor
  · intro op h
    cases op with
    | fileData n =>
      simp only [fdSet] at h
      obtain ⟨p, s1, h1, h2⟩ := (run_bind_some _ _ _ _ _).mp h
      obtain ⟨⟨co, hco, hr1⟩, e⟩ := (ref_run _ _ _ _ _).mp h1
      subst s1
      obtain ⟨hd, s2, h3, h4⟩ := (run_bind_some _ _ _ _ _).mp h2
      obtain ⟨⟨co', hco', hr2⟩, e⟩ := (ref_run _ _ _ _ _).mp h3
      subst s2
      have e1 : co' = co := by rw [hco] at hco'; exact (Option.some.inj hco').symm
      subst e1
      obtain ⟨sm, s3, h5, h6⟩ := (run_bind_some _ _ _ _ _).mp h4
      have e2 := refOpt_run_store _ _ _ _ _ h5
      subst e2
      obtain ⟨ml, s4, h7, h8⟩ := (run_bind_some _ _ _ _ _).mp h6
      have e3 := segMetaLen_run_store _ _ _ _ h7
      subst e3
      obtain ⟨u1, s5, h9, h10⟩ := (run_bind_some _ _ _ _ _).mp h8
      obtain ⟨c1, _, rfl⟩ := (setScal_run _ _ _ _ _ _).mp h9
      obtain ⟨c2, _, rfl⟩ := (setScal_run _ _ _ _ _ _).mp h10
      exact ⟨p, hd, followIdx_one hco hr1, followIdx_one hco hr2,
        frameOutside_of_steps (.write hd _ (.write p _ (.refl _) (by simp)) (by simp))⟩
    | segMeta m =>
      simp only [fdSet] at h
      obtain ⟨p, s1, h1, h2⟩ := (run_bind_some _ _ _ _ _).mp h
      obtain ⟨⟨co, hco, hr1⟩, e⟩ := (ref_run _ _ _ _ _).mp h1
      subst s1
      obtain ⟨hd, s2, h3, h4⟩ := (run_bind_some _ _ _ _ _).mp h2
      obtain ⟨⟨co', hco', hr2⟩, e⟩ := (ref_run _ _ _ _ _).mp h3
      subst s2
      have e1 : co' = co := by rw [hco] at hco'; exact (Option.some.inj hco').symm
      subst e1
      obtain ⟨n, s3, h5, h6⟩ := (run_bind_some _ _ _ _ _).mp h4
      obtain ⟨_, e⟩ := (scalAt_run _ _ _ _ _).mp h5
      subst s3
      obtain ⟨ml, s4, h7, h8⟩ := (run_bind_some _ _ _ _ _).mp h6
      have e3 := segMetaLen_run_store _ _ _ _ h7
      subst e3
      obtain ⟨u1, s5, h9, h10⟩ := (run_bind_some _ _ _ _ _).mp h8
      obtain ⟨c1, _, rfl⟩ := (setRef_run _ _ _ _ _ _).mp h9
      obtain ⟨u2, s6, h11, h12⟩ := (run_bind_some _ _ _ _ _).mp h10
      obtain ⟨c2, _, rfl⟩ := (setScal_run _ _ _ _ _ _).mp h11
      obtain ⟨c3, _, rfl⟩ := (setScal_run _ _ _ _ _ _).mp h12
      exact ⟨p, hd, followIdx_one hco hr1, followIdx_one hco hr2,
        frameOutside_of_steps (.write hd _ (.write hd _ (.write p _ (.refl _) (by simp)) (by simp)) (by simp))⟩
  · intro x h
    obtain ⟨c, hc, rfl⟩ := (setRef_run _ _ _ _ _ _).mp h
    exact ⟨frameOutside_of_steps (.write obj _ (.refl s) (by simp)), c, hc,
      List.getElem?_set_self (List.getElem?_eq_some_iff.mp hc).1⟩

/-! ### closure preservation: the hypotheses `Closed s`, `a < s.length` of the theorems above hold again after a call,
so calls can be CHAINED by proof (side conditions: the address arguments are cells of the store) -/

/-- after the call the store is closed again, has not shrunk, and the result is a cell of it -/
def KeepsClosed (m : H Addr) : Prop :=
  ∀ s, Closed s → ∀ r s', m.run s = some (r, s') → Closed s' ∧ s.length ≤ s'.length ∧ r < s'.length

private theorem ScalSteps.closed {R : List Addr} {s s' : Store} (h : ScalSteps R s s') (hc : Closed s) :
    Closed s' ∧ s'.length = s.length := by
  induction h with
  | refl => exact ⟨hc, rfl⟩
  | snoc a c f _ _ hcell ih => exact ⟨closed_set_same_refs ih.1 hcell rfl, by rw [List.length_set]; exact ih.2⟩

/-- setter calls (any sequence of telecommand / telemetry setters) keep a closed store closed and its size -/
theorem C02_heap_setters_keep_closed (s : Store) (hc : Closed s) (p : Addr) :
    (∀ ops : List TcOp, Closed (runOps (tcSet p) ops s) ∧ (runOps (tcSet p) ops s).length = s.length) ∧
    (∀ ops : List TmOp, Closed (runOps (tmSet p) ops s) ∧ (runOps (tmSet p) ops s).length = s.length) := by
  have gen : ∀ {α : Type} (f : α → H Unit), (∀ s op u s', (f op).run s = some (u, s') → ScalSteps (reachN 2 s p) s s') →
      ∀ (ops : List α) (s0 : Store), Closed s0 → Closed (runOps f ops s0) ∧ (runOps f ops s0).length = s0.length := by
    intro α f hf ops
    induction ops with
    | nil => intro s0 h0; exact ⟨h0, rfl⟩
    | cons o ops ih =>
      intro s0 h0
      simp only [runOps, List.foldl_cons]
      cases hrun : (f o).run s0 with
      | none => exact ih s0 h0
      | some q =>
        obtain ⟨u, s1⟩ := q
        obtain ⟨c1, l1⟩ := (hf s0 o u s1 hrun).closed h0
        obtain ⟨c2, l2⟩ := ih s1 c1
        exact ⟨c2, by rw [← l1]; exact l2⟩
  exact ⟨fun ops => gen (tcSet p) (fun s op u s' h => C02_heap_tc_setter_confined 0 s p op u s' h) ops s hc,
         fun ops => gen (tmSet p) (fun s op u s' h => C02_heap_tm_setter_confined 0 s p op u s' h) ops s hc⟩

/-- the builders without address arguments, `RequestId.from_sp_header` / `from_pus_tc`, `to_space_packet()` (TC and TM) and
    the common body of the eight PDU constructors (caller objects must be cells of the store) keep closed stores closed -/
theorem C11_heap_ops_keep_closed :
    (∀ a b c d e f g, KeepsClosed (newPusTc a b c d e f g)) ∧ (∀ a b c d e f, KeepsClosed (newPusTm a b c d e f)) ∧
    (∀ a b c d e f g, KeepsClosed (newSpHeader a b c d e f g)) ∧
    KeepsClosed finishedSuccessParams ∧ KeepsClosed finishedEmptyParams ∧ KeepsClosed fileDataEmptyParams ∧
    KeepsClosed pduConfigDefault ∧ (∀ w v, KeepsClosed (newByteField w v)) ∧
    (∀ hdr, KeepsClosed (reqIdFromSpHeader hdr)) ∧ (∀ tc, KeepsClosed (reqIdFromPusTc tc)) ∧
    (∀ p, KeepsClosed (tcToSpacePacket p)) ∧ (∀ p, KeepsClosed (tmToSpacePacket p)) ∧
    (∀ k conf objs scal af fl dl s, Closed s → (∀ o, some o ∈ objs → o < s.length) →
      ∀ r s', (newPdu k conf objs scal af fl dl).run s = some (r, s') → Closed s' ∧ s.length ≤ s'.length ∧ r < s'.length) := by
  have noarg : ∀ (m : H Addr), (∀ s r s', m.run s = some (r, s') →
      ∃ t, s' = s ++ t ∧ (∀ c ∈ t, ∀ x ∈ c.kids, x < s.length + t.length) ∧ r < s.length + t.length) → KeepsClosed m := by
    intro m hm s hc r s' h
    obtain ⟨t, rfl, ht, hr⟩ := hm s r s' h
    exact ⟨closed_append hc ht, by simp, by simpa using hr⟩
  have hreq : ∀ hdr, KeepsClosed (reqIdFromSpHeader hdr) := by
    intro hdr s hc r s' h
    obtain ⟨ch, pid, psc, cp, cq, ver, hch, hpid, hpsc, _, hcp, hcq, rfl, rfl⟩ := reqIdFromSpHeader_shape s hdr r s' h
    have hql : psc < s.length := closed_kid_lt hc hch (kid_of_ref hpsc)
    rw [List.getElem?_append_left hql] at hcq
    refine ⟨closed_append hc ?_, by simp, by simp⟩
    intro c hcm x hx
    simp only [List.mem_cons, List.not_mem_nil, or_false] at hcm
    rcases hcm with rfl | rfl | rfl
    · exact Nat.lt_of_lt_of_le (closed_kid_lt hc hcp hx) (Nat.le_add_right _ _)
    · exact Nat.lt_of_lt_of_le (closed_kid_lt hc hcq hx) (Nat.le_add_right _ _)
    · simp [Cell.kids] at hx; rcases hx with rfl | rfl <;> simp
  have hsp : ∀ secLen p, KeepsClosed (do
        let hdr ← ref p 0
        let n ← scalAt p 0
        setScal p 1 1
        let hdr' ← deepCopyHeader hdr
        new ⟨.spacePacket, [some hdr'], [secLen, n + 2]⟩ : H Addr) := by
    intro secLen p s hc r s' h
    obtain ⟨cp, hdr, m, ch, pid, psc, c1, c2, hcp, hr, _, hch, hpid, hpsc, hc1, hc2, rfl, rfl⟩ := toSpacePacket_shape secLen p r s s' h
    have hc1s := closed_set_same_refs hc hcp (c' := { cp with scal := cp.scal.set 1 1 }) rfl
    have hlen : (s.set p { cp with scal := cp.scal.set 1 1 }).length = s.length := List.length_set
    have hql : psc < (s.set p { cp with scal := cp.scal.set 1 1 }).length := closed_kid_lt hc1s hch (kid_of_ref hpsc)
    rw [List.getElem?_append_left hql] at hc2
    refine ⟨closed_append hc1s ?_, by simp [hlen], by simp [hlen]⟩
    intro c hcm x hx
    rw [hlen]
    simp only [List.mem_cons, List.not_mem_nil, or_false] at hcm
    rcases hcm with rfl | rfl | rfl | rfl
    · exact Nat.lt_of_lt_of_le (by rw [← hlen]; exact closed_kid_lt hc1s hc1 hx) (Nat.le_add_right _ _)
    · exact Nat.lt_of_lt_of_le (by rw [← hlen]; exact closed_kid_lt hc1s hc2 hx) (Nat.le_add_right _ _)
    · simp [Cell.kids] at hx; rcases hx with rfl | rfl <;> simp
    · simp [Cell.kids] at hx; subst hx; simp
  have hnoarg : ∀ (m : H Addr), (∀ s r s', m.run s = some (r, s') →
      ∃ t, s' = s ++ t ∧ (∀ c ∈ t, ∀ x ∈ c.kids, x < s.length + t.length) ∧ r < s.length + t.length) → KeepsClosed m := noarg
  refine ⟨?_, ?_, ?_, ?_, ?_, ?_, ?_, ?_, hreq, ?_, fun p => hsp 5 p, fun p => hsp 7 p, ?_⟩
  case refine_9 =>
    intro tc s hc r s' h
    unfold reqIdFromPusTc at h
    obtain ⟨hdr, s1, h1, h2⟩ := (run_bind_some _ _ _ _ _).mp h
    obtain ⟨_, e⟩ := (ref_run _ _ _ _ _).mp h1
    subst s1
    exact hreq hdr s hc r s' h2
  case refine_10 =>
    intro k conf objs scal af fl dl s hc hobjs r s' h
    have hcc : ∃ cc, s[conf]? = some cc := by
      unfold newPdu copyConfWithDir at h
      obtain ⟨_, _, h1, _⟩ := (run_bind_some _ _ _ _ _).mp h
      obtain ⟨c0, _, h3, _⟩ := (run_bind_some _ _ _ _ _).mp h1
      exact ⟨c0, ((cellAt_run _ _ _ _).mp h3).1⟩
    obtain ⟨cc, hcc⟩ := hcc
    have hkid : ∀ x ∈ cc.kids, x < s.length := fun x hx => closed_kid_lt hc hcc hx
    rcases newPdu_shape k conf objs scal af fl dl s cc hcc r s' h with ⟨_, rfl, rfl⟩ | ⟨_, rfl, rfl⟩
    · refine ⟨closed_append hc ?_, by simp, by simp⟩
      intro c hcm x hx
      simp only [List.mem_cons, List.not_mem_nil, or_false] at hcm
      rcases hcm with rfl | rfl | rfl
      · exact Nat.lt_of_lt_of_le (hkid x (by simpa [Cell.kids] using hx)) (Nat.le_add_right _ _)
      · simp [Cell.kids] at hx; subst hx; simp
      · simp [Cell.kids] at hx
        rcases hx with rfl | hx
        · simp
        · exact Nat.lt_of_lt_of_le (hobjs x hx) (Nat.le_add_right _ _)
    · refine ⟨closed_append hc ?_, by simp, by simp⟩
      intro c hcm x hx
      simp only [List.mem_cons, List.not_mem_nil, or_false] at hcm
      rcases hcm with rfl | rfl | rfl | rfl
      · exact Nat.lt_of_lt_of_le (hkid x (by simpa [Cell.kids] using hx)) (Nat.le_add_right _ _)
      · simp [Cell.kids] at hx; subst hx; simp
      · simp [Cell.kids] at hx; subst hx; simp
      · simp [Cell.kids] at hx
        rcases hx with rfl | hx
        · simp
        · exact Nat.lt_of_lt_of_le (hobjs x hx) (Nat.le_add_right _ _)
  all_goals
    intros
    apply hnoarg
    intro s r s' h
    simp [newPusTc, newTcSec, newPusTm, newSpHeader, newPacketId, newPsc, finishedSuccessParams, finishedEmptyParams,
      fileDataEmptyParams, newFinishedParams, newFileDataParams, pduConfigDefault, newByteField, newPduConfig,
      StateT.run_bind, new_run_eq] at h
    obtain ⟨rfl, rfl⟩ := h
    refine ⟨_, rfl, ?_, ?_⟩ <;> first | (simp [Cell.kids]; done) | (simp [Cell.kids]; omega)

/-- the call does not raise and its result and the store afterwards satisfy `P` -/
def Holds {α : Type} (r : Option (α × Store)) (P : α → Store → Prop) : Prop := ∃ a s', r = some (a, s') ∧ P a s'

instance {α : Type} (r : Option (α × Store)) (P : α → Store → Prop) [∀ a s, Decidable (P a s)] : Decidable (Holds r P) :=
  match r with
  | none => isFalse (by rintro ⟨a, s', h, _⟩; cases h)
  | some (a, s') =>
    if h : P a s' then isTrue ⟨a, s', rfl, h⟩
    else isFalse (by rintro ⟨a', s'', e, h'⟩; cases e; exact h h')

/-! ## concrete stores: non-vacuity of the hypotheses, and the NEGATIVE results for the designs that share -/

/-- one telecommand built by the constructor in the empty store: cells `[sec, pid, psc, hdr, tc]`, the telecommand at 4 -/
def exTcStore : Store :=
  match (newPusTc 17 1 66 5 0 15 3).run [] with
  | some (_, s) => s
  | none => []

/-- the hypotheses of `C15_heap_reqid_isolated` / `C02_heap_space_packet_isolated` hold for a store built by the
    constructor, and both calls succeed on it -/
example : Closed exTcStore ∧ 4 < exTcStore.length ∧ headerOf exTcStore 4 = some 3 ∧ KidsAreLeaves exTcStore 3 ∧
    ((reqIdFromPusTc 4).run exTcStore).isSome ∧ ((tcToSpacePacket 4).run exTcStore).isSome := by decide

/-- … and the setter sequences of those theorems really change the telecommand (the statement is not about no-ops) -/
example : view (runOps (tcSet 4) [.apid 7, .seqCount 9, .appData 300000, .sourceId 2, .appData 1] exTcStore) 4 ≠ view exTcStore 4 := by
  decide

/-- NEGATIVE (the code before 840b2f2): a request ID that holds the header's own `PacketId` / `PacketSeqCtrl` objects is
    NOT a snapshot — one `apid` assignment on the telecommand changes what is read through the request ID -/
theorem C15_heap_shared_variant_not_isolated :
    Holds ((reqIdFromPusTcShared 4).run exTcStore) fun rid s' =>
      view (runOps (tcSet 4) [.apid 7] s') rid ≠ view s' rid ∧ ¬ Disjoint (reach s' rid) (reach s' 4) := by decide

/-- the same call sequence with the code as it is: the view through the request ID stays -/
example :
    Holds ((reqIdFromPusTc 4).run exTcStore) fun rid s' =>
      view (runOps (tcSet 4) [.apid 7] s') rid = view s' rid ∧ Disjoint (reach s' rid) (reach s' 4) := by decide

/-- NEGATIVE (the code before b7949db): a space-packet view that holds the telecommand's own header changes with it -/
theorem C02_heap_shared_variant_not_isolated :
    Holds ((tcToSpacePacketShared 4).run exTcStore) fun sp s' =>
      view (runOps (tcSet 4) [.seqCount 9] s') sp ≠ view s' sp ∧ ¬ Disjoint (reach s' sp) (reach s' 4) := by decide

example :
    Holds ((tcToSpacePacket 4).run exTcStore) fun sp s' =>
      view (runOps (tcSet 4) [.seqCount 9] s') sp = view s' sp ∧ Disjoint (reach s' sp) (reach s' 4) := by decide

/-- a caller's configuration (three byte fields at 0, 1, 2, the `PduConfig` at 3) and its parameter object for a Finished
    PDU (list at 4, parameters at 5) -/
def exConfStore : Store :=
  [⟨.byteField, [], [2, 513]⟩, ⟨.byteField, [], [2, 1027]⟩, ⟨.byteField, [], [1, 9]⟩,
   ⟨.pduConfig, [some 0, some 1, some 2], [0, 1, 1, 0, 0]⟩, ⟨.pyList, [], []⟩, ⟨.finishedParams, [some 4, none], [0, 0, 2]⟩]

/-- the constructors run on it, it is closed (hypotheses of the `…_inputs_untouched` theorems and of
    `C11_heap_conf_bytefields_shared`), and a NAK PDU built from a configuration whose direction is "towards receiver" gets
    its own direction on its own copy -/
example : Closed exConfStore ∧ ((newNakPdu 3 0 100 none).run exConfStore).isSome ∧ ((newFinishedPdu 3 5).run exConfStore).isSome ∧
    (Holds ((newNakPdu 3 0 100 none).run exConfStore) fun _ s' =>
      s'[3]? = exConfStore[3]? ∧ (s'[7]?.map Cell.scal) = some [0, 1, 1, 1, 0]) := by decide

/-- TRUTHFUL consequence of the shallow copy: assigning `.value` of a byte field the caller's configuration holds DOES
    change what is read through a PDU built from it earlier (the byte-field object is shared) … -/
example :
    Holds ((newKeepAlivePdu 3 77).run exConfStore) fun pdu s' =>
      Holds ((confSetFieldValue 3 0 99).run s') fun _ s'' => view s'' pdu ≠ view s' pdu := by decide

/-- TRUTHFUL: the setters of a Finished PDU write into the parameter object the caller passed to the constructor
    (`pdu.condition_code = …` changes the caller's `FinishedParams`); the constructor itself does not -/
example :
    Holds ((newFinishedPdu 3 5).run exConfStore) fun pdu s' =>
      view s' 5 = view exConfStore 5 ∧ (s'[pdu]?.map Cell.refs) = some [some 8, some 5] ∧
      Holds ((finSet pdu (.cond 4)).run s') fun _ s'' => view s'' 5 ≠ view s' 5 := by decide

/-- TRUTHFUL: `PusTc.from_sp_header(header, …)` adopts AND modifies the caller's header (documented behaviour of that
    factory: packet type, secondary-header flag and data length are assigned on it) -/
theorem C02_heap_tc_from_sp_header_writes_caller_header :
    Holds ((newSpHeader 0 66 5 0 0 3 0).run []) fun hdr s =>
      Holds ((tcFromSpHeader hdr 17 1 0 15 3).run s) fun tc s' => view s' hdr ≠ view s hdr ∧ headerOf s' tc = some hdr := by
  decide

/-- … while an assignment of any SCALAR attribute of the caller's configuration (`conf.crc_flag = …`, `file_flag`,
    `trans_mode`, `direction`, `seg_ctrl`) after the constructor does NOT change what is read through the PDU — the PDU
    reads its own copy (general reason: `C11_heap_frame` + `C11_heap_conf_bytefields_shared`, the caller's cell is not
    reachable from the PDU; here evaluated for all eight kinds, every scalar attribute and several values on `exConfStore`) -/
example :
    ∀ k ∈ [PduKind.ack, .prompt, .keepAlive, .nak, .eof, .finished, .metadata, .fileData],
      Holds ((newPdu k 3 [] [7]).run exConfStore) fun pdu s' =>
        3 ∉ reach s' pdu ∧
        ∀ i ∈ [0, 1, 2, 3, 4], ∀ v ∈ [0, 1, 5],
          Holds ((confSetScalar 3 i v).run s') fun _ s'' => view s'' pdu = view s' pdu ∧ view s'' 3 = view (s'.set 3 ⟨.pduConfig, [some 0, some 1, some 2], [0, 1, 1, 0, 0].set i v⟩) 3 := by
  decide

/-! ## the audit's counter-model, chained calls by proof, non-vacuity of the general (d) theorems -/

/-- audit 3, finding 1: a "constructor" that makes the copy but builds the PDU on the CALLER's configuration -/
def badPdu (k : PduKind) (conf : Addr) (scal : List Nat) : H Addr := do
  let conf' ← copyConfWithDir conf (k.dir false)
  let _ ← newPduHeader conf' 0 0 (scal.length + 1)
  let h ← newPduHeader conf 0 0 (scal.length + 1)
  let b ← new ⟨.directive, [some h], [k.code]⟩
  new ⟨k.tag, [some b], scal⟩

/-- it satisfied the OLD conclusion (a copy exists, a header refers to it, the caller's cell is unchanged) but is REJECTED by
    the strengthened `C11_heap_conf_bytefields_shared`: from the returned PDU the path `pdu_header.pdu_conf` ends at the
    caller's configuration (3), not at the new cell (`exConfStore.length` = 6), and the caller's cell is reachable -/
example : Holds ((badPdu .keepAlive 3 [7]).run exConfStore) fun pdu s' =>
    s'[exConfStore.length]? = some ⟨.pduConfig, [some 0, some 1, some 2], [0, 1, 1, 1, 0]⟩ ∧ s'[3]? = exConfStore[3]? ∧
    followAttrs s' pdu ["pdu_header", "pdu_conf"] = some 3 ∧ followAttrs s' pdu ["pdu_header", "pdu_conf"] ≠ some exConfStore.length ∧
    3 ∈ reach s' pdu ∧
    Holds ((confSetScalar 3 2 0).run s') fun _ s'' => view s'' pdu ≠ view s' pdu := by decide

/-- the hypotheses of the general (d) theorems hold for `exConfStore` (configuration at 3) … -/
example : Closed exConfStore ∧ ConfFieldsAreLeaves exConfStore 3 ∧ ObjsAvoid exConfStore [] 3 ∧ ObjsAvoid exConfStore [some 5] 3 := by
  refine ⟨by decide, by decide, fun o h => by simp at h, ?_⟩
  intro o ho m hm
  simp at ho
  subst ho
  -- everything reachable from the parameter object 5 is 5 or its (empty) list 4
  have : ∀ m x, x ∈ reachN m exConfStore 5 → x = 5 ∨ x = 4 := by
    intro m x hx
    cases m with
    | zero => simp [reachN] at hx; exact Or.inl hx
    | succ m =>
      simp only [reachN, List.mem_cons] at hx
      rcases hx with h | h
      · exact Or.inl h
      · have h4 : Leaf exConfStore 4 := by decide
        simp [exConfStore, Cell.kids] at h
        exact Or.inr (reach_leaf h4 m x h)
  rcases this m 3 hm with h | h <;> simp at h

/-- … and the conclusion of `C11_heap_conf_bytefields_shared` for the real Finished constructor on it, evaluated -/
example : Holds ((newFinishedPdu 3 5).run exConfStore) fun pdu s' =>
    followAttrs s' pdu ["pdu_header", "pdu_conf"] = some 6 ∧ 3 ∉ reach s' pdu ∧
    followAttrs s' pdu ["pdu_header", "pdu_conf", "source_entity_id"] = some 0 ∧ followAttrs s' pdu ["finished_params"] = some 5 := by
  decide

/-- CHAINED calls, by proof (no evaluation): on ANY closed store, build a telecommand, take its request ID, assign the
    APID, take the space-packet view — every intermediate store is closed, all handles stay valid, the request ID still
    reads what it read, and the packet view is separated from request ID and telecommand -/
example (s0 : Store) (hc0 : Closed s0) (tc rid sp : Addr) (s1 s2 s3 : Store)
    (h1 : (newPusTc 17 1 66 5 0 15 3).run s0 = some (tc, s1))
    (h2 : (reqIdFromPusTc tc).run s1 = some (rid, s2))
    (hl : ∀ hdr, headerOf s1 tc = some hdr → KidsAreLeaves s1 hdr)
    (hl' : ∀ hdr, headerOf (runOps (tcSet tc) [.apid 7] s2) tc = some hdr → KidsAreLeaves (runOps (tcSet tc) [.apid 7] s2) hdr)
    (h3 : (tcToSpacePacket tc).run (runOps (tcSet tc) [.apid 7] s2) = some (sp, s3)) :
    Closed s3 ∧ rid < s3.length ∧ view (runOps (tcSet tc) [.apid 7] s2) rid = view s2 rid ∧
    Disjoint (reach s3 sp) (reach s3 rid) ∧ Disjoint (reach s3 sp) (reach s3 tc) := by
  obtain ⟨hTc, _, _, _, _, _, _, _, _, hReqTc, hSpTc, _, _⟩ := C11_heap_ops_keep_closed
  obtain ⟨c1, _, r1⟩ := hTc 17 1 66 5 0 15 3 s0 hc0 tc s1 h1
  obtain ⟨c2, l2, r2⟩ := hReqTc tc s1 c1 rid s2 h2
  obtain ⟨c2', len2⟩ := (C02_heap_setters_keep_closed s2 c2 tc).1 [.apid 7]
  obtain ⟨c3, l3, _⟩ := hSpTc tc _ c2' sp s3 h3
  have hiso := C15_heap_reqid_isolated 6 s1 c1 tc r1 hl rid s2 h2 [.apid 7]
  have hsp := C02_heap_space_packet_isolated 6 _ c2' tc (by rw [len2]; exact Nat.lt_of_lt_of_le r1 l2) hl' sp s3 h3 []
  refine ⟨c3, Nat.lt_of_lt_of_le r2 (by rw [← len2]; exact l3), hiso.2, ?_, ?_⟩
  · exact hsp.1 depth rid (by rw [len2]; exact r2)
  · exact hsp.1 depth tc (by rw [len2]; exact Nat.lt_of_lt_of_le r1 l2)

/-! ## (f) USLP transfer frames: the frame KEEPS the caller's header and data field, `set_frame_len_in_header()` WRITES the
caller's header -/

/-- `PrimaryHeader(…)`, `TruncatedPrimaryHeader(…)`, `TransferFrameDataField(…)`, `TransferFrame(header, tfdf, …)` and
    `TransferFrame.unpack(…)`: nothing the caller holds is modified (the constructor only stores the two objects) -/
theorem C11_heap_uslp_ctor_inputs_untouched :
    (∀ a b c d e f g, InputsUntouched (newUslpHeader a b c d e f g)) ∧ (∀ a b c d, InputsUntouched (newUslpTruncHeader a b c d)) ∧
    (∀ r i fhp n, InputsUntouched (newTfdf r i fhp n)) ∧
    (∀ hdr tfdf iz ocf fecf, InputsUntouched (newTransferFrame hdr tfdf iz ocf fecf)) ∧
    (∀ tr hs ts fs, InputsUntouched (unpackFrame tr hs ts fs)) := by
  refine ⟨?_, ?_, ?_, ?_, ?_⟩ <;> intros <;> apply C11_heap_allocOnly_inputs_untouched
  · unfold newUslpHeader; alloc_ops
  · unfold newUslpTruncHeader; alloc_ops
  · unfold newTfdf; alloc_ops
  · unfold newTransferFrame; alloc_ops
  · unfold unpackFrame; alloc_ops

/-- `TransferFrame(header, tfdf, …)` KEEPS both caller objects: `frame.header` / `frame.tfdf` of the returned frame are the
    very addresses passed in, and the call allocates exactly the frame cell -/
theorem C11_heap_uslp_frame_keeps_caller_objects (s : Store) (hdr tfdf : Addr) (hh : hdr < s.length) (ht : tfdf < s.length)
    (iz ocf fecf : Option Nat) (fr : Addr) (s' : Store) (h : (newTransferFrame hdr tfdf iz ocf fecf).run s = some (fr, s')) :
    followAttrs s' fr ["header"] = some hdr ∧ followAttrs s' fr ["tfdf"] = some tfdf ∧ fr = s.length ∧
    s' = s ++ [⟨.transferFrame, [some hdr, some tfdf], [optEnc iz, optEnc ocf, optEnc fecf]⟩] := by
  obtain ⟨rfl, rfl⟩ := (new_run _ _ _ _).mp h
  refine ⟨?_, ?_, rfl, rfl⟩ <;> simp [followAttrs, followIdx, attr, List.getElem?_append_right] <;>
    first | exact Nat.lt_succ_of_lt hh | exact Nat.lt_succ_of_lt ht

/-- GENERAL (every store, no hypothesis): the write set of `frame.set_frame_len_in_header()` is EXACTLY the `frame_len`
    scalar (index 0) of the header object the frame holds — after `TransferFrame(header, …)` that is the CALLER's
    `PrimaryHeader` (`C11_heap_uslp_frame_keeps_caller_objects`): the call reads `frame.header`; if it is not a
    `PrimaryHeader` the store is unchanged; otherwise the store afterwards is the store before with that one scalar set to
    a value ≤ 65535. Every other cell is what it was, and every handle that does not reach the header shows the same view. -/
theorem C11_heap_set_frame_len_writes_caller_header (s : Store) (fr : Addr) (u : Unit) (s' : Store)
    (h : (setFrameLenInHeader fr).run s = some (u, s')) :
    ∃ hd ch, followIdx s fr [0] = some hd ∧ s[hd]? = some ch ∧
      ((ch.tag ≠ .uslpHeader ∧ s' = s) ∨
       (ch.tag = .uslpHeader ∧ ∃ v, v ≤ 65535 ∧ s' = s.set hd { ch with scal := ch.scal.set 0 v })) ∧
      (∀ a, a ≠ hd → s'[a]? = s[a]?) ∧ FrameOutside [hd] s s' := by
  unfold setFrameLenInHeader at h
  obtain ⟨hd, s1, h1, h2⟩ := (run_bind_some _ _ _ _ _).mp h
  obtain ⟨⟨cf, hcf, hr⟩, e⟩ := (ref_run _ _ _ _ _).mp h1
  subst s1
  obtain ⟨ch, s2, h3, h4⟩ := (run_bind_some _ _ _ _ _).mp h2
  obtain ⟨hch, e⟩ := (cellAt_run _ _ _ _).mp h3
  subst s2
  refine ⟨hd, ch, followIdx_one hcf hr, hch, ?_⟩
  split at h4
  · rename_i htag
    obtain ⟨_, rfl⟩ := (pure_run _ _ _ _).mp h4
    exact ⟨Or.inl ⟨htag, rfl⟩, fun _ _ => rfl, frameOutside_of_steps (.refl _)⟩
  · rename_i htag
    have htag' : ch.tag = .uslpHeader := Classical.not_not.mp htag
    obtain ⟨t, s3, h5, h6⟩ := (run_bind_some _ _ _ _ _).mp h4
    obtain ⟨_, e⟩ := (ref_run _ _ _ _ _).mp h5
    subst s3
    obtain ⟨vcf, s4, h7, h8⟩ := (run_bind_some _ _ _ _ _).mp h6
    obtain ⟨_, e⟩ := (scalAt_run _ _ _ _ _).mp h7
    subst s4
    obtain ⟨sz, s5, h9, h10⟩ := (run_bind_some _ _ _ _ _).mp h8
    obtain ⟨_, e⟩ := (scalAt_run _ _ _ _ _).mp h9
    subst s5
    obtain ⟨iz, s6, h11, h12⟩ := (run_bind_some _ _ _ _ _).mp h10
    obtain ⟨_, e⟩ := (scalAt_run _ _ _ _ _).mp h11
    subst s6
    obtain ⟨ocf, s7, h13, h14⟩ := (run_bind_some _ _ _ _ _).mp h12
    obtain ⟨_, e⟩ := (scalAt_run _ _ _ _ _).mp h13
    subst s7
    obtain ⟨fecf, s8, h15, h16⟩ := (run_bind_some _ _ _ _ _).mp h14
    obtain ⟨_, e⟩ := (scalAt_run _ _ _ _ _).mp h15
    subst s8
    simp only at h16
    split at h16
    · exact ((fail_run _ _ _).mp h16).elim
    · rename_i hle
      obtain ⟨ch', hch', rfl⟩ := (setScal_run _ _ _ _ _ _).mp h16
      have e1 : ch' = ch := by rw [hch] at hch'; exact (Option.some.inj hch').symm
      subst e1
      refine ⟨Or.inr ⟨htag', _, Nat.le_of_not_lt hle, rfl⟩, ?_, frameOutside_of_steps (.write hd _ (.refl _) (by simp))⟩
      intro a ha
      exact List.getElem?_set_ne (fun e => ha e.symm)

/-- `TransferFrame.unpack(raw, …)` returns an all-new graph: the decoded frame, its header and its data field have no cell in
    common with ANY object that existed before (in particular not with a frame / header the octets came from, nor with the
    result of an earlier `unpack`), to every depth -/
theorem C11_heap_uslp_unpack_fresh (tr : Bool) (hs ts fs : List Nat) (s : Store) (hc : Closed s) (dec : Addr) (s' : Store)
    (h : (unpackFrame tr hs ts fs).run s = some (dec, s')) (n : Nat) (b : Addr) (hb : b < s.length) :
    Disjoint (reachN n s' dec) (reachN n s' b) ∧ followAttrs s' dec ["header"] = some s.length ∧
    followAttrs s' dec ["tfdf"] = some (s.length + 1) := by
  simp [unpackFrame, StateT.run_bind, new_run_eq] at h
  obtain ⟨rfl, rfl⟩ := h
  refine ⟨?_, ?_, ?_⟩
  · apply C11_heap_fresh_disjoint n s _ _ b hc hb
    · simp [Cell.kids]
    · omega
  · simp [followAttrs, followIdx, attr, List.getElem?_append_right, Nat.add_assoc]
  · simp [followAttrs, followIdx, attr, List.getElem?_append_right, Nat.add_assoc]

/-- a caller's `PrimaryHeader` (0, frame length 0, no VCF count), its data field (1: rule 7, 3 octets of data zone, size 4) -/
def exFrameStore : Store := [⟨.uslpHeader, [], [0, 0, 0, 33, 1, 2, 0]⟩, ⟨.tfdf, [], [7, 5, 0, 3, 4]⟩]

/-- non-vacuity, evaluated: the constructor keeps both objects and leaves them alone; `set_frame_len_in_header()` then changes
    what is read through the CALLER's header handle (0) — frame length 7 + 4 + 2 − 1 = 12 — and nothing else; on a truncated
    header it changes nothing -/
example : Closed exFrameStore ∧
    Holds ((newTransferFrame 0 1 none none (some 2)).run exFrameStore) fun fr s' =>
      view s' 0 = view exFrameStore 0 ∧ followAttrs s' fr ["header"] = some 0 ∧ followAttrs s' fr ["tfdf"] = some 1 ∧
      Holds ((setFrameLenInHeader fr).run s') fun _ s'' =>
        view s'' 0 ≠ view s' 0 ∧ (s''[0]?.map Cell.scal) = some [12, 0, 0, 33, 1, 2, 0] ∧ s''[1]? = s'[1]? ∧ s''[fr]? = s'[fr]? := by
  decide

example : Holds ((newUslpTruncHeader 33 1 2 0).run exFrameStore) fun th s0 =>
    Holds ((newTransferFrame th 1 none none none).run s0) fun fr s' =>
      Holds ((setFrameLenInHeader fr).run s') fun _ s'' => s'' = s' := by decide

/-- … and a decoded frame is separated from the frame the octets came from -/
example : Holds ((newTransferFrame 0 1 none none none).run exFrameStore) fun fr s' =>
    Holds ((unpackFrame false [8, 0, 0, 33, 1, 2, 0] [7, 5, 0, 3, 4] [0, 0, 0]).run s') fun dec s'' =>
      Disjoint (reach s'' dec) (reach s'' fr) ∧ followAttrs s'' dec ["header"] = some 3 := by decide

/-! ## (g) adoption by the telemetry factories, service-1 reports built from a telemetry packet -/

/-- `PusTm.from_composite_fields(sp_header, sec_header, tm_data)` modifies nothing the caller holds … -/
theorem C11_heap_tm_from_composite_inputs_untouched (hdr sec : Addr) (n : Nat) :
    InputsUntouched (tmFromCompositeFields hdr sec n) := by
  apply C11_heap_allocOnly_inputs_untouched
  unfold tmFromCompositeFields; alloc_ops

/-- … and ADOPTS both objects: the new packet's `sp_header` / `space_packet_header` and `pus_tm_sec_header` are the caller's
    objects (every later setter call on the packet therefore writes the caller's header: `C02_heap_tm_setter_confined`) -/
theorem C11_heap_tm_from_composite_keeps_caller_object (s : Store) (hdr sec : Addr) (hh : hdr < s.length) (hs : sec < s.length)
    (n : Nat) (r : Addr) (s' : Store) (h : (tmFromCompositeFields hdr sec n).run s = some (r, s')) :
    followAttrs s' r ["sp_header"] = some hdr ∧ followAttrs s' r ["space_packet_header"] = some hdr ∧
    followAttrs s' r ["pus_tm_sec_header"] = some sec ∧ s' = s ++ [⟨.pusTm, [some hdr, some sec], [n, 0]⟩] := by
  unfold tmFromCompositeFields at h
  obtain ⟨pid, s1, h1, h2⟩ := (run_bind_some _ _ _ _ _).mp h
  obtain ⟨_, e⟩ := (ref_run _ _ _ _ _).mp h1
  subst s1
  obtain ⟨pt, s2, h3, h4⟩ := (run_bind_some _ _ _ _ _).mp h2
  obtain ⟨_, e⟩ := (scalAt_run _ _ _ _ _).mp h3
  subst s2
  split at h4
  · exact ((fail_run _ _ _).mp h4).elim
  · obtain ⟨rfl, rfl⟩ := (new_run _ _ _ _).mp h4
    refine ⟨?_, ?_, ?_, rfl⟩ <;> simp [followAttrs, followIdx, attr, List.getElem?_append_right] <;>
      first | exact Nat.lt_succ_of_lt hh | exact Nat.lt_succ_of_lt hs

/-- `Service1Tm.from_tm(tm, params)` and `Service1Tm(apid, subservice, timestamp)` (no parameters given) modify nothing the
    caller holds — in particular `from_tm` does not write the telemetry packet it adopts -/
theorem C15_heap_service1_from_tm_inputs_untouched :
    (∀ tm, InputsUntouched (service1FromTm tm)) ∧ (∀ apid sub ts, InputsUntouched (newService1TmDefault apid sub ts)) := by
  constructor <;> intros <;> apply C11_heap_allocOnly_inputs_untouched
  · unfold service1FromTm newReqId newPacketId newPsc; alloc_ops
  · unfold newService1TmDefault newReqId newPacketId newPsc newVerifParams
    repeat' (first | exact alloc_newPusTm .. | exact alloc_new _ | intro _ | apply alloc_bind)

/-- the cells `Service1Tm.from_tm` allocates besides the report itself: request ID (with `PacketId`, `PacketSeqCtrl`), optional
    step ID, optional failure notice (with its error code), the parameters object — `base` is the first new address -/
def s1Params (base sub : Nat) : List Cell :=
  [⟨.packetId, [], [0, 0, 0]⟩, ⟨.psc, [], [0, 0]⟩, ⟨.requestId, [some base, some (base + 1)], [0]⟩] ++
  (if sub = 5 ∨ sub = 6 then [⟨.fieldEnum, [], [8, 0]⟩] else []) ++
  (if sub % 2 = 0 then [⟨.fieldEnum, [], [8, 0]⟩,
      ⟨.failureNotice, [some (base + 3 + (if sub = 5 ∨ sub = 6 then 1 else 0))], [0]⟩] else []) ++
  [⟨.verifParams, [some (base + 2), (if sub = 5 ∨ sub = 6 then some (base + 3) else none),
      (if sub % 2 = 0 then some (base + 4 + (if sub = 5 ∨ sub = 6 then 1 else 0)) else none)], []⟩]

private theorem service1FromTm_shape (s : Store) (tm rep : Addr) (s' : Store) (h : (service1FromTm tm).run s = some (rep, s')) :
    ∃ sub, 1 ≤ sub ∧ sub ≤ 8 ∧ rep = s.length + (s1Params s.length sub).length ∧
      s' = s ++ (s1Params s.length sub ++ [⟨.service1Tm, [some (s.length + (s1Params s.length sub).length - 1), some tm], []⟩]) := by
  unfold service1FromTm at h
  obtain ⟨n, s1, h1, h2⟩ := (run_bind_some _ _ _ _ _).mp h
  obtain ⟨_, e⟩ := (scalAt_run _ _ _ _ _).mp h1
  subst s1
  obtain ⟨sec, s2, h3, h4⟩ := (run_bind_some _ _ _ _ _).mp h2
  obtain ⟨_, e⟩ := (ref_run _ _ _ _ _).mp h3
  subst s2
  obtain ⟨sub, s3, h5, h6⟩ := (run_bind_some _ _ _ _ _).mp h4
  obtain ⟨_, e⟩ := (scalAt_run _ _ _ _ _).mp h5
  subst s3
  split at h6
  · exact ((fail_run _ _ _).mp h6).elim
  · split at h6
    · exact ((fail_run _ _ _).mp h6).elim
    · rename_i hsub
      have hsub' : 1 ≤ sub ∧ sub ≤ 8 := Classical.not_not.mp hsub
      refine ⟨sub, hsub'.1, hsub'.2, ?_⟩
      by_cases hst : sub = 5 ∨ sub = 6 <;> by_cases hf : sub % 2 = 0 <;>
        simp [hst, hf, newReqId, newPacketId, newPsc, StateT.run_bind, new_run_eq, StateT.run_pure] at h6 <;>
        obtain ⟨rfl, rfl⟩ := h6 <;>
        simp [s1Params, hst, hf, Nat.add_assoc]

private theorem s1Params_kids (base sub : Nat) :
    (∀ c ∈ s1Params base sub, ∀ r ∈ c.kids, base ≤ r ∧ r < base + (s1Params base sub).length) ∧
    0 < (s1Params base sub).length ∧
    ∃ st fn, (s1Params base sub)[(s1Params base sub).length - 1]? = some ⟨.verifParams, [some (base + 2), st, fn], []⟩ ∧
      2 < (s1Params base sub).length := by
  by_cases hst : sub = 5 ∨ sub = 6 <;> by_cases hf : sub % 2 = 0 <;>
    (refine ⟨?_, ?_, ?_⟩ <;> simp [s1Params, hst, hf, Cell.kids] <;> omega)

/-- `Service1Tm.from_tm(tm, params)`, every closed store: the report ADOPTS the given telemetry packet (`report.pus_tm` is the
    caller's object, not a copy), while everything else it holds — its parameters object with the decoded request ID
    (`report.tc_req_id`), step ID and failure notice — is NEW: no cell in common with any object that existed before
    (`tm`, the telecommand, a report built earlier from the same packet), to every depth -/
theorem C15_heap_service1_from_tm_keeps_caller_object (s : Store) (hc : Closed s) (tm : Addr) (htm : tm < s.length)
    (rep : Addr) (s' : Store) (h : (service1FromTm tm).run s = some (rep, s')) :
    followAttrs s' rep ["pus_tm"] = some tm ∧
    ∃ vp rid, followIdx s' rep [0] = some vp ∧ followAttrs s' rep ["tc_req_id"] = some rid ∧ s.length ≤ rid ∧
      ∀ n b, b < s.length → Disjoint (reachN n s' vp) (reachN n s' b) := by
  obtain ⟨sub, _, _, rfl, rfl⟩ := service1FromTm_shape s tm rep s' h
  obtain ⟨hk, hpos, st, fn, hlast, h2⟩ := s1Params_kids s.length sub
  generalize hT : s1Params s.length sub = T at hk hpos hlast h2 ⊢
  have htmN : @LT.lt Nat _ tm s.length := htm
  have hrep : (s ++ (T ++ [(⟨.service1Tm, [some (s.length + T.length - 1), some tm], []⟩ : Cell)]))[s.length + T.length]? =
      some ⟨.service1Tm, [some (s.length + T.length - 1), some tm], []⟩ := by
    rw [List.getElem?_append_right (Nat.le_add_right _ _), Nat.add_sub_cancel_left, List.getElem?_append_right (Nat.le_refl _)]
    simp
  have hvp : (s ++ (T ++ [(⟨.service1Tm, [some (s.length + T.length - 1), some tm], []⟩ : Cell)]))[s.length + T.length - 1]? =
      some ⟨.verifParams, [some (s.length + 2), st, fn], []⟩ := by
    rw [List.getElem?_append_right (by omega), List.getElem?_append_left (by omega)]
    rw [show s.length + T.length - 1 - s.length = T.length - 1 by omega]
    exact hlast
  have htm' : tm < (s ++ (T ++ [(⟨.service1Tm, [some (s.length + T.length - 1), some tm], []⟩ : Cell)])).length :=
    Nat.lt_of_lt_of_le htm (by simp only [List.length_append]; omega)
  have hrid' : s.length + 2 < (s ++ (T ++ [(⟨.service1Tm, [some (s.length + T.length - 1), some tm], []⟩ : Cell)])).length := by
    simp only [List.length_append, List.length_cons, List.length_nil]; omega
  refine ⟨?_, s.length + T.length - 1, s.length + 2, ?_, ?_, by omega, ?_⟩
  · simp [followAttrs, followIdx, attr, hrep]; omega
  · simp [followIdx, hrep]
  · simp [followAttrs, followIdx, attr, hrep, hvp]; omega
  · intro n b hb
    have hbN : @LT.lt Nat _ b s.length := hb
    have hcT : Closed (s ++ T) := closed_append hc (fun c hcm r hr => (hk c hcm r hr).2)
    rw [← List.append_assoc]
    intro x hx hx'
    rw [C11_heap_alloc_reach n (s ++ T) _ _ hcT
      (show (s.length + T.length - 1 : Nat) < (s ++ T).length by simp only [List.length_append]; omega)] at hx
    rw [C11_heap_alloc_reach n (s ++ T) _ _ hcT (Nat.lt_of_lt_of_le hb (by simp))] at hx'
    exact C11_heap_fresh_disjoint n s T _ b hc hb (fun c hcm r hr => (hk c hcm r hr).1) (by omega) x hx hx'

/-- reports built WITHOUT parameters (`Service1Tm(apid, subservice, timestamp)`, the `__empty()` every decoder starts from) do
    not share their default parameters: each call allocates its own `VerificationParams` / `RequestId` — two results have no
    cell in common -/
theorem C15_heap_service1_default_results_separated (s : Store) (hc : Closed s) (a1 b1 c1 a2 b2 c2 : Nat) (x y : Addr) (s1 s2 : Store)
    (h1 : (newService1TmDefault a1 b1 c1).run s = some (x, s1)) (h2 : (newService1TmDefault a2 b2 c2).run s1 = some (y, s2))
    (n : Nat) : Disjoint (reachN n s2 y) (reachN n s2 x) := by
  simp [newService1TmDefault, newReqId, newVerifParams, newPusTm, newSpHeader, newPacketId, newPsc, StateT.run_bind, new_run_eq] at h1 h2
  obtain ⟨rfl, rfl⟩ := h1
  obtain ⟨rfl, rfl⟩ := h2
  apply C11_heap_fresh_disjoint n _ _ _ _
  · apply closed_append hc
    simp [Cell.kids] <;> omega
  · simp
  · simp [Cell.kids] <;> omega
  · simp

/-- a telemetry packet as a caller holds it (service 1, subservice 5, 5 octets of source data; the packet at 4, header at 2) -/
def exTmStore : Store :=
  match (newPusTm 1 5 66 9 7 5).run [] with
  | some (_, s) => s
  | none => []

/-- evaluated: `from_tm` on it adopts the packet (4), allocates request ID, step ID and parameters, leaves the packet alone;
    a second call on the same packet shares the packet and nothing else; `from_composite_fields` adopts header (2) and
    secondary header (3) -/
example : Closed exTmStore ∧ 4 < exTmStore.length ∧
    Holds ((service1FromTm 4).run exTmStore) fun rep s' =>
      followAttrs s' rep ["pus_tm"] = some 4 ∧ followAttrs s' rep ["tc_req_id"] = some 7 ∧ followAttrs s' rep ["step_id"] = some 8 ∧
      view s' 4 = view exTmStore 4 ∧
      Holds ((service1FromTm 4).run s') fun rep2 s'' =>
        followAttrs s'' rep2 ["pus_tm"] = some 4 ∧ followAttrs s'' rep2 ["tc_req_id"] = some 13 ∧
        Holds (some ((), s'')) fun _ _ => ¬ Disjoint (reach s'' rep2) (reach s'' rep) := by decide

example : Holds ((tmFromCompositeFields 2 3 9).run exTmStore) fun tm s' =>
    followAttrs s' tm ["sp_header"] = some 2 ∧ followAttrs s' tm ["pus_tm_sec_header"] = some 3 ∧ view s' 4 = view exTmStore 4 := by decide

/-! ## (h) setters that reach the configuration THROUGH a PDU write the PDU's own copy -/

private theorem pduHeaderConf_run (k : PduKind) (pdu : Addr) (t : Store) (hh c : Addr) (t1 : Store)
    (h : (pduHeaderConf k pdu).run t = some ((hh, c), t1)) :
    t1 = t ∧ followIdx t pdu (confPath k) = some c ∧ followIdx t hh [0] = some c := by
  have three : (do let b ← ref pdu 0; let hh' ← ref b 0; let c' ← ref hh' 0; pure (hh', c') : H (Addr × Addr)).run t = some ((hh, c), t1) →
      t1 = t ∧ followIdx t pdu [0, 0, 0] = some c ∧ followIdx t hh [0] = some c := by
    intro h
    obtain ⟨b, s1, h1, h2⟩ := (run_bind_some _ _ _ _ _).mp h
    obtain ⟨⟨cp, hcp, hr1⟩, e⟩ := (ref_run _ _ _ _ _).mp h1
    subst s1
    obtain ⟨hh', s2, h3, h4⟩ := (run_bind_some _ _ _ _ _).mp h2
    obtain ⟨⟨cb, hcb, hr2⟩, e⟩ := (ref_run _ _ _ _ _).mp h3
    subst s2
    obtain ⟨c', s3, h5, h6⟩ := (run_bind_some _ _ _ _ _).mp h4
    obtain ⟨⟨chh, hchh, hr3⟩, e⟩ := (ref_run _ _ _ _ _).mp h5
    subst s3
    obtain ⟨e, rfl⟩ := (pure_run _ _ _ _).mp h6
    cases e
    exact ⟨rfl, by simp [followIdx, hcp, hr1, hcb, hr2, hchh, hr3], followIdx_one hchh hr3⟩
  cases k <;> simp only [pduHeaderConf] at h <;> first
    | exact three h
    | (obtain ⟨hh', s2, h3, h4⟩ := (run_bind_some _ _ _ _ _).mp h
       obtain ⟨⟨cb, hcb, hr2⟩, e⟩ := (ref_run _ _ _ _ _).mp h3
       subst s2
       obtain ⟨c', s3, h5, h6⟩ := (run_bind_some _ _ _ _ _).mp h4
       obtain ⟨⟨chh, hchh, hr3⟩, e⟩ := (ref_run _ _ _ _ _).mp h5
       subst s3
       obtain ⟨e, rfl⟩ := (pure_run _ _ _ _).mp h6
       cases e
       exact ⟨rfl, by simp [confPath, followIdx, hcb, hr2, hchh, hr3], followIdx_one hchh hr3⟩)

private theorem pduFlagSet_steps (k : PduKind) (s : Store) (pdu : Addr) (op : PduFlagOp) (hop : ∀ i v, op ≠ .fieldValue i v)
    (u : Unit) (s' : Store) (h : (pduFlagSet k pdu op).run s = some (u, s')) :
    ∃ hd c, followIdx s pdu (confPath k) = some c ∧ followIdx s hd [0] = some c ∧ Steps [c, hd] s s' ∧
      (∀ a, a ≠ c → a ≠ hd → s'[a]? = s[a]?) ∧ s'.length = s.length := by
  cases op with
  | fileFlag v =>
    simp only [pduFlagSet] at h
    obtain ⟨⟨hd, c⟩, s1, h1, h2⟩ := (run_bind_some _ _ _ _ _).mp h
    obtain ⟨rfl, hc, hh⟩ := pduHeaderConf_run k pdu s hd c s1 h1
    simp only at h2
    obtain ⟨crc, s2, h3, h4⟩ := (run_bind_some _ _ _ _ _).mp h2
    obtain ⟨_, e⟩ := (scalAt_run _ _ _ _ _).mp h3
    subst s2
    obtain ⟨u1, s3, h5, h6⟩ := (run_bind_some _ _ _ _ _).mp h4
    obtain ⟨c1, _, rfl⟩ := (setScal_run _ _ _ _ _ _).mp h5
    obtain ⟨c2, _, rfl⟩ := (setScal_run _ _ _ _ _ _).mp h6
    refine ⟨hd, c, hc, hh, .write hd _ (.write c _ (.refl _) (by simp)) (by simp), ?_, by simp⟩
    intro a ha1 ha2
    rw [List.getElem?_set_ne (fun e => ha2 e.symm), List.getElem?_set_ne (fun e => ha1 e.symm)]
  | hdrScalar i v =>
    simp only [pduFlagSet] at h
    obtain ⟨⟨hd, c⟩, s1, h1, h2⟩ := (run_bind_some _ _ _ _ _).mp h
    obtain ⟨rfl, hc, hh⟩ := pduHeaderConf_run k pdu s hd c s1 h1
    simp only at h2
    obtain ⟨c1, _, rfl⟩ := (setScal_run _ _ _ _ _ _).mp h2
    refine ⟨hd, c, hc, hh, .write c _ (.refl _) (by simp), ?_, by simp⟩
    intro a ha1 _
    rw [List.getElem?_set_ne (fun e => ha1 e.symm)]
  | entityIds a b =>
    simp only [pduFlagSet] at h
    obtain ⟨⟨hd, c⟩, s1, h1, h2⟩ := (run_bind_some _ _ _ _ _).mp h
    obtain ⟨rfl, hc, hh⟩ := pduHeaderConf_run k pdu s hd c s1 h1
    simp only at h2
    obtain ⟨wa, s2, h3, h4⟩ := (run_bind_some _ _ _ _ _).mp h2
    obtain ⟨_, e⟩ := (scalAt_run _ _ _ _ _).mp h3
    subst s2
    obtain ⟨wb, s3, h5, h6⟩ := (run_bind_some _ _ _ _ _).mp h4
    obtain ⟨_, e⟩ := (scalAt_run _ _ _ _ _).mp h5
    subst s3
    split at h6
    · exact ((fail_run _ _ _).mp h6).elim
    · obtain ⟨u1, s4, h7, h8⟩ := (run_bind_some _ _ _ _ _).mp h6
      obtain ⟨c1, _, rfl⟩ := (setRef_run _ _ _ _ _ _).mp h7
      obtain ⟨c2, _, rfl⟩ := (setRef_run _ _ _ _ _ _).mp h8
      refine ⟨hd, c, hc, hh, .write c _ (.write c _ (.refl _) (by simp)) (by simp), ?_, by simp⟩
      intro x hx1 _
      rw [List.getElem?_set_ne (fun e => hx1 e.symm), List.getElem?_set_ne (fun e => hx1 e.symm)]
  | seqNum q =>
    simp only [pduFlagSet] at h
    obtain ⟨⟨hd, c⟩, s1, h1, h2⟩ := (run_bind_some _ _ _ _ _).mp h
    obtain ⟨rfl, hc, hh⟩ := pduHeaderConf_run k pdu s hd c s1 h1
    simp only at h2
    obtain ⟨c1, _, rfl⟩ := (setRef_run _ _ _ _ _ _).mp h2
    refine ⟨hd, c, hc, hh, .write c _ (.refl _) (by simp), ?_, by simp⟩
    intro a ha1 _
    rw [List.getElem?_set_ne (fun e => ha1 e.symm)]
  | fieldValue i v => exact absurd rfl (hop i v)

/-- GENERAL (every store, every kind): `pdu.file_flag = …` (Keep Alive, NAK), `pdu.pdu_header.<flag> = …` /
    `pdu.pdu_file_directive.file_flag / crc_flag = …`, `pdu.pdu_header.set_entity_ids(a, b)` and
    `pdu.pdu_header.transaction_seq_num = q` overwrite at most two cells — the configuration `pdu.pdu_header.pdu_conf` ends at,
    and the header holding it —; every other cell is what it was, and every handle reaching neither shows the same view -/
theorem C11_heap_pdu_flag_setter_confined (k : PduKind) (s : Store) (pdu : Addr) (op : PduFlagOp) (hop : ∀ i v, op ≠ .fieldValue i v)
    (u : Unit) (s' : Store) (h : (pduFlagSet k pdu op).run s = some (u, s')) :
    ∃ hd c, followIdx s pdu (confPath k) = some c ∧ followIdx s hd [0] = some c ∧ FrameOutside [c, hd] s s' ∧
      (∀ a, a ≠ c → a ≠ hd → s'[a]? = s[a]?) ∧ s'.length = s.length := by
  obtain ⟨hd, c, h1, h2, st, h3, h4⟩ := pduFlagSet_steps k s pdu op hop u s' h
  exact ⟨hd, c, h1, h2, frameOutside_of_steps st, h3, h4⟩

/-- where the configuration and header of a PDU just built are: both are cells the constructor allocated -/
private theorem newPdu_conf_header_fresh (k : PduKind) (conf : Addr) (objs : List (Option Addr)) (scal : List Nat) (af : Bool)
    (fl dl : Nat) (s : Store) (hc : Closed s) (cc : Cell) (hcc : s[conf]? = some cc) (hl : ConfFieldsAreLeaves s conf)
    (ho : ObjsAvoid s objs conf) (pdu : Addr) (s' : Store) (h : (newPdu k conf objs scal af fl dl).run s = some (pdu, s'))
    (hd c : Addr) (h1 : followIdx s' pdu (confPath k) = some c) (h2 : followIdx s' hd [0] = some c) :
    c = s.length ∧ s.length ≤ hd ∧ ∃ t, s' = s ++ t := by
  obtain ⟨_, hp, _, _, _, _, _, _⟩ := C11_heap_conf_bytefields_shared k conf objs scal af fl dl s hc cc hcc hl ho pdu s' h
  obtain ⟨t, rfl⟩ := (alloc_newPdu k conf objs scal af fl dl).ext s pdu s' h
  have ec : c = s.length := by rw [hp] at h1; exact (Option.some.inj h1).symm
  refine ⟨ec, ?_, t, rfl⟩
  apply Nat.le_of_not_lt
  intro hlt
  simp only [followIdx] at h2
  rw [List.getElem?_append_left hlt] at h2
  cases hcd : s[hd]? with
  | none => simp [hcd] at h2
  | some chd =>
    simp only [hcd] at h2
    cases hr : chd.refs[0]? with
    | none => simp [hr] at h2
    | some o =>
      cases o with
      | none => simp [hr] at h2
      | some r =>
        simp only [hr] at h2
        have e : r = c := Option.some.inj h2
        have := closed_kid_lt hc hcd (kid_of_ref hr)
        rw [e, ec] at this
        exact Nat.lt_irrefl _ this

/-- C11, the PDU-level flag setters — GENERAL: every closed store, all eight kinds, every caller configuration and caller objects,
    every one of `pdu.file_flag = v`, `pdu.pdu_header.<trans. mode | file_flag | crc_flag | direction | seg_ctrl> = v`,
    `pdu.pdu_header.set_entity_ids(a, b)`, `pdu.pdu_header.transaction_seq_num = q` on a PDU the constructor returned:
    the write is confined to cells the constructor allocated (the PDU's own configuration copy and its header), hence
    EVERY pre-existing cell — the caller's `PduConfig`, its three byte fields, the parameter objects — is what it was, and
    every pre-existing handle (the caller's configuration handle in particular) shows the same view and reaches the same
    cells, to every depth. (`set_entity_ids` / `transaction_seq_num` REPLACE the references in the PDU's configuration; they do
    not assign `.value` of the shared byte fields — see `C11_heap_pdu_entity_setters_replace_references`.) -/
theorem C11_heap_pdu_flag_setter_invisible_to_caller (k : PduKind) (conf : Addr) (objs : List (Option Addr)) (scal : List Nat)
    (af : Bool) (fl dl : Nat) (s : Store) (hc : Closed s) (cc : Cell) (hcc : s[conf]? = some cc) (hl : ConfFieldsAreLeaves s conf)
    (ho : ObjsAvoid s objs conf) (pdu : Addr) (s' : Store) (h : (newPdu k conf objs scal af fl dl).run s = some (pdu, s'))
    (op : PduFlagOp) (hop : ∀ i v, op ≠ .fieldValue i v) (u : Unit) (s'' : Store) (hw : (pduFlagSet k pdu op).run s' = some (u, s'')) :
    (∀ a, a < s.length → s''[a]? = s'[a]?) ∧ s''[conf]? = some cc ∧
    (∀ n b, b < s.length → viewN n s'' b = viewN n s' b ∧ reachN n s'' b = reachN n s' b) := by
  obtain ⟨hd, c, h1, h2, st, hcells, _⟩ := pduFlagSet_steps k s' pdu op hop u s'' hw
  obtain ⟨rfl, hhd, t, rfl⟩ := newPdu_conf_header_fresh k conf objs scal af fl dl s hc cc hcc hl ho pdu s' h hd _ h1 h2
  have hconf : conf < s.length := (List.getElem?_eq_some_iff.mp hcc).1
  have hold : ∀ a, a < s.length → s''[a]? = (s ++ t)[a]? := by
    intro a ha
    apply hcells a
    · exact fun e => Nat.lt_irrefl _ (e ▸ ha)
    · exact fun e => Nat.lt_irrefl _ (Nat.lt_of_lt_of_le (e ▸ ha) hhd)
  refine ⟨hold, ?_, ?_⟩
  · rw [hold conf hconf, List.getElem?_append_left hconf]; exact hcc
  · intro n b hb
    have hreach : reachN n (s ++ t) b = reachN n s b := C11_heap_alloc_reach n s t b hc hb
    have hlt := C11_heap_reach_closed n s b hc hb
    have hv : Valid n (s ++ t) b := by
      intro y hy
      rw [hreach] at hy
      rw [List.length_append]
      exact Nat.lt_of_lt_of_le (hlt y hy) (Nat.le_add_right _ _)
    obtain ⟨a1, a2, _⟩ := C11_heap_steps_frame st n b hv (by
      intro a ha hr
      rw [hreach] at hr
      have := hlt a hr
      simp only [List.mem_cons, List.not_mem_nil, or_false] at ha
      rcases ha with rfl | rfl
      · exact Nat.lt_irrefl _ this
      · exact Nat.lt_irrefl _ (Nat.lt_of_lt_of_le this hhd))
    exact ⟨a1, a2⟩

/-- TRUTHFUL, GENERAL: `set_entity_ids(a, b)` / `transaction_seq_num = q` through a PDU REPLACE object references in the PDU's
    own configuration copy (the new cell `s.length`): afterwards that cell holds the GIVEN objects `a`, `b` / `q`, the caller's
    configuration cell still holds its own three byte fields, and no byte-field cell was written
    (`C11_heap_pdu_flag_setter_invisible_to_caller`: every old cell is unchanged) — the setters do NOT assign `.value` in place -/
theorem C11_heap_pdu_entity_setters_replace_references (k : PduKind) (conf : Addr) (objs : List (Option Addr)) (scal : List Nat)
    (af : Bool) (fl dl : Nat) (s : Store) (hc : Closed s) (cc : Cell) (hcc : s[conf]? = some cc) (hl : ConfFieldsAreLeaves s conf)
    (ho : ObjsAvoid s objs conf) (pdu : Addr) (s' : Store) (h : (newPdu k conf objs scal af fl dl).run s = some (pdu, s'))
    (u : Unit) (s'' : Store) :
    (∀ a b, (pduFlagSet k pdu (.entityIds a b)).run s' = some (u, s'') →
      s''[s.length]? = some { cc with scal := cc.scal.set 3 (k.dir af), refs := (cc.refs.set 0 (some a)).set 1 (some b) } ∧
      s''[conf]? = some cc) ∧
    (∀ q, (pduFlagSet k pdu (.seqNum q)).run s' = some (u, s'') →
      s''[s.length]? = some { cc with scal := cc.scal.set 3 (k.dir af), refs := cc.refs.set 2 (some q) } ∧ s''[conf]? = some cc) := by
  obtain ⟨_, hp, _, hcopy, _, _, _, _⟩ := C11_heap_conf_bytefields_shared k conf objs scal af fl dl s hc cc hcc hl ho pdu s' h
  have hlen : s.length < s'.length := (List.getElem?_eq_some_iff.mp hcopy).1
  constructor
  · intro a b hw
    have hinv := (C11_heap_pdu_flag_setter_invisible_to_caller k conf objs scal af fl dl s hc cc hcc hl ho pdu s' h
      (.entityIds a b) (fun _ _ e => by cases e) u s'' hw).2.1
    refine ⟨?_, hinv⟩
    simp only [pduFlagSet] at hw
    obtain ⟨⟨hd, c⟩, s1, h1, h2⟩ := (run_bind_some _ _ _ _ _).mp hw
    obtain ⟨rfl, hc', _⟩ := pduHeaderConf_run k pdu s' hd c s1 h1
    have ec : c = s.length := by rw [hp] at hc'; exact (Option.some.inj hc').symm
    subst ec
    simp only at h2
    obtain ⟨wa, s2, h3, h4⟩ := (run_bind_some _ _ _ _ _).mp h2
    obtain ⟨_, e⟩ := (scalAt_run _ _ _ _ _).mp h3
    subst s2
    obtain ⟨wb, s3, h5, h6⟩ := (run_bind_some _ _ _ _ _).mp h4
    obtain ⟨_, e⟩ := (scalAt_run _ _ _ _ _).mp h5
    subst s3
    split at h6
    · exact ((fail_run _ _ _).mp h6).elim
    · obtain ⟨u1, s4, h7, h8⟩ := (run_bind_some _ _ _ _ _).mp h6
      obtain ⟨c1, hc1, rfl⟩ := (setRef_run _ _ _ _ _ _).mp h7
      obtain ⟨c2, hc2, rfl⟩ := (setRef_run _ _ _ _ _ _).mp h8
      rw [hcopy] at hc1
      cases hc1
      rw [List.getElem?_set_self hlen] at hc2
      cases hc2
      rw [List.getElem?_set_self (by simpa using hlen)]
  · intro q hw
    have hinv := (C11_heap_pdu_flag_setter_invisible_to_caller k conf objs scal af fl dl s hc cc hcc hl ho pdu s' h
      (.seqNum q) (fun _ _ e => by cases e) u s'' hw).2.1
    refine ⟨?_, hinv⟩
    simp only [pduFlagSet] at hw
    obtain ⟨⟨hd, c⟩, s1, h1, h2⟩ := (run_bind_some _ _ _ _ _).mp hw
    obtain ⟨rfl, hc', _⟩ := pduHeaderConf_run k pdu s' hd c s1 h1
    have ec : c = s.length := by rw [hp] at hc'; exact (Option.some.inj hc').symm
    subst ec
    simp only at h2
    obtain ⟨c1, hc1, rfl⟩ := (setRef_run _ _ _ _ _ _).mp h2
    rw [hcopy] at hc1
    cases hc1
    rw [List.getElem?_set_self hlen]

/-- TRUTHFUL, GENERAL — the one write through a PDU that the CALLER sees: `pdu.source_entity_id.value = v` (likewise the
    destination ID and the sequence number) assigns INTO the byte-field object, and that object is the one the caller's
    configuration holds (`copy.copy` is shallow): the written cell is the cell the caller's `conf.<field>` denotes, before and
    after, and it now holds `v` -/
theorem C11_heap_pdu_bytefield_write_visible_to_caller (k : PduKind) (conf : Addr) (objs : List (Option Addr)) (scal : List Nat)
    (af : Bool) (fl dl : Nat) (s : Store) (hc : Closed s) (cc : Cell) (hcc : s[conf]? = some cc) (hl : ConfFieldsAreLeaves s conf)
    (ho : ObjsAvoid s objs conf) (pdu : Addr) (s' : Store) (h : (newPdu k conf objs scal af fl dl).run s = some (pdu, s'))
    (i v : Nat) (u : Unit) (s'' : Store) (hw : (pduFlagSet k pdu (.fieldValue i v)).run s' = some (u, s'')) :
    ∃ r cr, cc.refs[i]? = some (some r) ∧ r < s.length ∧ s'[r]? = some cr ∧ followIdx s' conf [i] = some r ∧
      followIdx s'' conf [i] = some r ∧ s''[r]? = some { cr with scal := cr.scal.set 1 v } := by
  obtain ⟨_, hp, _, hcopy, hconf, _, _, _⟩ := C11_heap_conf_bytefields_shared k conf objs scal af fl dl s hc cc hcc hl ho pdu s' h
  simp only [pduFlagSet] at hw
  obtain ⟨⟨hd, c⟩, s1, h1, h2⟩ := (run_bind_some _ _ _ _ _).mp hw
  obtain ⟨rfl, hc', _⟩ := pduHeaderConf_run k pdu s' hd c s1 h1
  have ec : c = s.length := by rw [hp] at hc'; exact (Option.some.inj hc').symm
  subst ec
  simp only at h2
  obtain ⟨r, s2, h3, h4⟩ := (run_bind_some _ _ _ _ _).mp h2
  obtain ⟨⟨c0, hc0, hr⟩, e⟩ := (ref_run _ _ _ _ _).mp h3
  subst s2
  rw [hcopy] at hc0
  cases hc0
  simp only at hr
  obtain ⟨cr, hcr, rfl⟩ := (setScal_run _ _ _ _ _ _).mp h4
  have hrl : r < s.length := closed_kid_lt hc hcc (kid_of_ref hr)
  have hne : r ≠ conf := (hl r (by simpa [hcc] using kid_of_ref hr)).2
  refine ⟨r, cr, hr, hrl, hcr, followIdx_one hconf hr, ?_, List.getElem?_set_self (List.getElem?_eq_some_iff.mp hcr).1⟩
  exact followIdx_one (by rw [List.getElem?_set_ne hne]; exact hconf) hr

/-- evaluated on `exConfStore` (configuration 3, byte fields 0 1 2), Keep Alive and NAK: `pdu.file_flag = 0` changes what is read
    through the PDU but nothing that is read through the caller's configuration; `set_entity_ids(a, b)` with two new byte
    fields makes the PDU read `a` while the caller's configuration still reads its own field 0, whose cell is unchanged;
    `pdu.source_entity_id.value = 99` IS read through the caller's configuration -/
example : ∀ k ∈ [PduKind.keepAlive, .nak],
    Holds ((newPdu k 3 [] [7]).run exConfStore) fun pdu s' =>
      Holds ((pduFlagSet k pdu (.fileFlag 0)).run s') fun _ s'' =>
        view s'' pdu ≠ view s' pdu ∧ view s'' 3 = view s' 3 ∧ view s' 3 = view exConfStore 3 := by decide

example : Holds ((newPdu .keepAlive 3 [] [7]).run (exConfStore ++ [⟨.byteField, [], [2, 77]⟩, ⟨.byteField, [], [2, 88]⟩])) fun pdu s' =>
    Holds ((pduFlagSet .keepAlive pdu (.entityIds 6 7)).run s') fun _ s'' =>
      followAttrs s'' pdu ["source_entity_id"] = some 6 ∧ followAttrs s'' pdu ["dest_entity_id"] = some 7 ∧
      followAttrs s'' 3 ["source_entity_id"] = some 0 ∧ s''[0]? = exConfStore[0]? ∧ view s'' 3 = view exConfStore 3 := by decide

example : Holds ((newPdu .keepAlive 3 [] [7]).run exConfStore) fun pdu s' =>
    Holds ((pduFlagSet .keepAlive pdu (.fieldValue 0 99)).run s') fun _ s'' => view s'' 3 ≠ view s' 3 := by decide

/-! ## (i) `NakPdu(conf, start, end)` without a list; closure preservation for the setters and the remaining builders -/

/-- `NakPdu(conf, a, b, segment_requests=None)` IS the common constructor body run on a store that already holds a NEW empty
    list (so every theorem about `newPdu` applies to it, on the closed store `s ++ [list]`): the returned PDU's
    `segment_requests` is that new list (address `s.length`), and the list is not reachable from ANY object that existed before
    — two NAK PDUs built without a list never share one -/
theorem C11_heap_nak_none_allocates_list (conf : Addr) (a b : Nat) (s : Store) (pdu : Addr) (s' : Store)
    (h : (newNakPdu conf a b none).run s = some (pdu, s')) :
    (newPdu .nak conf [some s.length] [a, b]).run (s ++ [⟨.pyList, [], []⟩]) = some (pdu, s') ∧
    (Closed s → Closed (s ++ [(⟨.pyList, [], []⟩ : Cell)])) ∧
    (∀ cc, s[conf]? = some cc → followAttrs s' pdu ["segment_requests"] = some s.length) ∧
    (Closed s → ∀ n x, x < s.length → s.length ∉ reachN n s' x) := by
  have h0 := h
  simp only [newNakPdu] at h
  obtain ⟨l, s1, h1, h2⟩ := (run_bind_some _ _ _ _ _).mp h
  obtain ⟨rfl, rfl⟩ := (new_run _ _ _ _).mp h1
  refine ⟨h2, fun hc => closed_append hc (by simp [Cell.kids]), ?_, ?_⟩
  · intro cc hcc
    have hcc' : (s ++ [(⟨.pyList, [], []⟩ : Cell)])[conf]? = some cc := by
      rw [List.getElem?_append_left (List.getElem?_eq_some_iff.mp hcc).1]; exact hcc
    rcases newPdu_shape .nak conf _ _ _ _ _ _ cc hcc' pdu s' h2 with ⟨hk, _, _⟩ | ⟨_, rfl, rfl⟩
    · cases hk
    · simp [followAttrs, followIdx, attr, PduKind.tag, List.getElem?_append_right, Nat.add_assoc]
  · intro hc n x hx hm
    have hal : AllocOnly (newNakPdu conf a b none) := by
      unfold newNakPdu
      repeat' (first | exact alloc_newPdu .. | exact alloc_new _ | intro _ | split | apply alloc_bind)
    obtain ⟨t, rfl⟩ := hal.ext s pdu s' h0
    rw [C11_heap_alloc_reach n s t x hc hx] at hm
    exact Nat.lt_irrefl _ (C11_heap_reach_closed n s x hc hx _ hm)

/-- `s'` is `s` after finitely many steps each of which keeps a closed store closed: a scalar assignment, the assignment of an
    object attribute to `None` or to a cell of the store, the allocation of a cell referring to cells of the store -/
inductive CSteps : Store → Store → Prop
  | refl (s : Store) : CSteps s s
  | scal {s s1 : Store} (a : Addr) (c : Cell) (f : List Nat) : CSteps s s1 → s1[a]? = some c → CSteps s (s1.set a { c with scal := f })
  | ref {s s1 : Store} (a : Addr) (c : Cell) (i : Nat) (v : Option Addr) : CSteps s s1 → s1[a]? = some c →
      (∀ r, v = some r → r < s1.length) → CSteps s (s1.set a { c with refs := c.refs.set i v })
  | alloc {s s1 : Store} (c : Cell) : CSteps s s1 → (∀ r ∈ c.kids, r < s1.length + 1) → CSteps s (s1 ++ [c])

private theorem closed_set {s : Store} (hc : Closed s) {a : Addr} {c' : Cell} (hk : ∀ r ∈ c'.kids, r < s.length) :
    Closed (s.set a c') := by
  intro x hx r hr
  rw [List.length_set]
  rcases List.mem_or_eq_of_mem_set hx with hm | rfl
  · exact hc x hm r hr
  · exact hk r hr

private theorem CSteps.closed {s s' : Store} (h : CSteps s s') (hc : Closed s) : Closed s' ∧ s.length ≤ s'.length := by
  induction h with
  | refl => exact ⟨hc, Nat.le_refl _⟩
  | scal a c f _ hcell ih => exact ⟨closed_set_same_refs ih.1 hcell rfl, by rw [List.length_set]; exact ih.2⟩
  | ref a c i v _ hcell hv ih =>
    refine ⟨closed_set ih.1 ?_, by rw [List.length_set]; exact ih.2⟩
    intro r hr
    rcases List.mem_or_eq_of_mem_set (mem_kids.mp hr) with hm | he
    · exact closed_kid_lt ih.1 hcell (mem_kids.mpr hm)
    · exact hv r he.symm
  | alloc c _ hk ih =>
    exact ⟨closed_append ih.1 (by simpa using hk), by rw [List.length_append]; exact Nat.le_trans ih.2 (Nat.le_add_right _ _)⟩

private theorem CSteps.len {s s' : Store} (h : CSteps s s') : s.length ≤ s'.length := by
  induction h with
  | refl => exact Nat.le_refl _
  | scal a c f _ _ ih => rw [List.length_set]; exact ih
  | ref a c i v _ _ _ ih => rw [List.length_set]; exact ih
  | alloc c _ _ ih => rw [List.length_append]; exact Nat.le_trans ih (Nat.le_add_right _ _)

private theorem csteps_setScal {s0 s s' : Store} {a : Addr} {i v : Nat} {u : Unit} (st : CSteps s0 s)
    (h : (setScal a i v).run s = some (u, s')) : CSteps s0 s' := by
  obtain ⟨c, hc, rfl⟩ := (setScal_run _ _ _ _ _ _).mp h
  exact .scal a c _ st hc

private theorem csteps_setRef {s0 s s' : Store} {a : Addr} {i : Nat} {v : Option Addr} {u : Unit} (st : CSteps s0 s)
    (hv : ∀ r, v = some r → r < s0.length) (h : (setRef a i v).run s = some (u, s')) : CSteps s0 s' := by
  obtain ⟨c, hc, rfl⟩ := (setRef_run _ _ _ _ _ _).mp h
  exact .ref a c i v st hc (fun r hr => Nat.lt_of_lt_of_le (hv r hr) st.len)

/-- the address arguments of a setter call are cells of the store (side condition of closure preservation) -/
def FinOp.argsIn (s : Store) : FinOp → Prop
  | .cond _ => True
  | .faultLoc t => ∀ a, t = some a → a < s.length
  | .responses l => ∀ a, l = some a → a < s.length

def FdOp.argsIn (s : Store) : FdOp → Prop
  | .fileData _ => True
  | .segMeta m => ∀ a, m = some a → a < s.length

def PduFlagOp.argsIn (s : Store) : PduFlagOp → Prop
  | .entityIds a b => a < s.length ∧ b < s.length
  | .seqNum q => q < s.length
  | _ => True

/-- CLOSURE PRESERVATION for the setters (every closed store, every object, every operation whose address arguments are cells
    of the store): after a Finished-PDU setter, a File-Data setter, `holder.pdu = x`, a PDU-level flag / entity-ID setter or
    `set_frame_len_in_header()` the store is closed again and has not shrunk — so the theorems with hypothesis `Closed` can be
    chained through these calls by proof. (Without the side condition it is false: audit 3, finding 5.) -/
theorem C11_heap_setters_keep_closed (s : Store) (hc : Closed s) (obj : Addr) (u : Unit) (s' : Store) :
    (∀ op, FinOp.argsIn s op → (finSet obj op).run s = some (u, s') → Closed s' ∧ s.length ≤ s'.length) ∧
    (∀ op, FdOp.argsIn s op → (fdSet obj op).run s = some (u, s') → Closed s' ∧ s.length ≤ s'.length) ∧
    (∀ x, (∀ a, x = some a → a < s.length) → (holderSet obj x).run s = some (u, s') → Closed s' ∧ s.length ≤ s'.length) ∧
    (∀ k op, PduFlagOp.argsIn s op → (pduFlagSet k obj op).run s = some (u, s') → Closed s' ∧ s.length ≤ s'.length) ∧
    ((setFrameLenInHeader obj).run s = some (u, s') → Closed s' ∧ s.length ≤ s'.length) := by
  have fin : ∀ {s1 : Store}, CSteps s s1 → Closed s1 ∧ s.length ≤ s1.length := fun st => st.closed hc
  refine ⟨?_, ?_, ?_, ?_, ?_⟩
  · intro op harg h
    apply fin
    have pre : ∀ (k : Addr → Addr → H Unit), (do
          let p ← ref obj 1
          let b ← ref obj 0
          let hd ← ref b 0
          k p hd).run s = some (u, s') → ∃ p hd, (k p hd).run s = some (u, s') := by
      intro k h
      obtain ⟨p, s1, h1, h2⟩ := (run_bind_some _ _ _ _ _).mp h
      obtain ⟨_, e⟩ := (ref_run _ _ _ _ _).mp h1
      subst s1
      obtain ⟨b, s2, h3, h4⟩ := (run_bind_some _ _ _ _ _).mp h2
      obtain ⟨_, e⟩ := (ref_run _ _ _ _ _).mp h3
      subst s2
      obtain ⟨hd, s3, h5, h6⟩ := (run_bind_some _ _ _ _ _).mp h4
      obtain ⟨_, e⟩ := (ref_run _ _ _ _ _).mp h5
      subst s3
      exact ⟨p, hd, h6⟩
    cases op with
    | cond v =>
      obtain ⟨p, hd, h⟩ := pre (fun p hd => do setScal p 0 v; setScal hd 2 (2 + v)) h
      obtain ⟨u1, s1, h1, h2⟩ := (run_bind_some _ _ _ _ _).mp h
      exact csteps_setScal (csteps_setScal (.refl s) h1) h2
    | faultLoc t =>
      cases t with
      | some a =>
        obtain ⟨p, hd, h⟩ := pre (fun p hd => do setRef p 1 (some a); setScal hd 2 7) h
        obtain ⟨u1, s1, h1, h2⟩ := (run_bind_some _ _ _ _ _).mp h
        exact csteps_setScal (csteps_setRef (.refl s) harg h1) h2
      | none =>
        obtain ⟨p, hd, h⟩ := pre (fun p hd => do setRef p 1 none; setScal hd 2 2) h
        obtain ⟨u1, s1, h1, h2⟩ := (run_bind_some _ _ _ _ _).mp h
        exact csteps_setScal (csteps_setRef (.refl s) (fun _ e => by cases e) h1) h2
    | responses l =>
      cases l with
      | some a =>
        obtain ⟨p, hd, h⟩ := pre (fun p hd => do setRef p 0 (some a); setScal hd 2 11) h
        obtain ⟨u1, s1, h1, h2⟩ := (run_bind_some _ _ _ _ _).mp h
        exact csteps_setScal (csteps_setRef (.refl s) harg h1) h2
      | none =>
        obtain ⟨p, hd, h⟩ := pre (fun p hd => do
          let e ← new ⟨.pyList, [], []⟩
          setRef p 0 (some e)
          setScal hd 2 2) h
        obtain ⟨e, s0, h0, h⟩ := (run_bind_some _ _ _ _ _).mp h
        obtain ⟨rfl, rfl⟩ := (new_run _ _ _ _).mp h0
        obtain ⟨u1, s1, h1, h2⟩ := (run_bind_some _ _ _ _ _).mp h
        obtain ⟨c1, hc1, rfl⟩ := (setRef_run _ _ _ _ _ _).mp h1
        have st1 : CSteps s (s ++ [(⟨.pyList, [], []⟩ : Cell)]) := .alloc _ (.refl s) (by simp [Cell.kids])
        exact csteps_setScal (.ref _ c1 0 _ st1 hc1 (fun r hr => by cases hr; simp)) h2
  · intro op harg h
    apply fin
    cases op with
    | fileData n =>
      simp only [fdSet] at h
      obtain ⟨p, s1, h1, h2⟩ := (run_bind_some _ _ _ _ _).mp h
      obtain ⟨_, e⟩ := (ref_run _ _ _ _ _).mp h1
      subst s1
      obtain ⟨hd, s2, h3, h4⟩ := (run_bind_some _ _ _ _ _).mp h2
      obtain ⟨_, e⟩ := (ref_run _ _ _ _ _).mp h3
      subst s2
      obtain ⟨sm, s3, h5, h6⟩ := (run_bind_some _ _ _ _ _).mp h4
      have e2 := refOpt_run_store _ _ _ _ _ h5
      subst e2
      obtain ⟨ml, s4, h7, h8⟩ := (run_bind_some _ _ _ _ _).mp h6
      have e3 := segMetaLen_run_store _ _ _ _ h7
      subst e3
      obtain ⟨u1, s5, h9, h10⟩ := (run_bind_some _ _ _ _ _).mp h8
      exact csteps_setScal (csteps_setScal (.refl _) h9) h10
    | segMeta m =>
      simp only [fdSet] at h
      obtain ⟨p, s1, h1, h2⟩ := (run_bind_some _ _ _ _ _).mp h
      obtain ⟨_, e⟩ := (ref_run _ _ _ _ _).mp h1
      subst s1
      obtain ⟨hd, s2, h3, h4⟩ := (run_bind_some _ _ _ _ _).mp h2
      obtain ⟨_, e⟩ := (ref_run _ _ _ _ _).mp h3
      subst s2
      obtain ⟨n, s3, h5, h6⟩ := (run_bind_some _ _ _ _ _).mp h4
      obtain ⟨_, e⟩ := (scalAt_run _ _ _ _ _).mp h5
      subst s3
      obtain ⟨ml, s4, h7, h8⟩ := (run_bind_some _ _ _ _ _).mp h6
      have e3 := segMetaLen_run_store _ _ _ _ h7
      subst e3
      obtain ⟨u1, s5, h9, h10⟩ := (run_bind_some _ _ _ _ _).mp h8
      obtain ⟨u2, s6, h11, h12⟩ := (run_bind_some _ _ _ _ _).mp h10
      exact csteps_setScal (csteps_setScal (csteps_setRef (.refl _) harg h9) h11) h12
  · intro x hx h
    exact fin (csteps_setRef (.refl s) hx h)
  · intro k op harg h
    apply fin
    cases op with
    | fileFlag v =>
      simp only [pduFlagSet] at h
      obtain ⟨⟨hd, c⟩, s1, h1, h2⟩ := (run_bind_some _ _ _ _ _).mp h
      obtain ⟨rfl, _, _⟩ := pduHeaderConf_run k obj s hd c s1 h1
      simp only at h2
      obtain ⟨crc, s2, h3, h4⟩ := (run_bind_some _ _ _ _ _).mp h2
      obtain ⟨_, e⟩ := (scalAt_run _ _ _ _ _).mp h3
      subst s2
      obtain ⟨u1, s3, h5, h6⟩ := (run_bind_some _ _ _ _ _).mp h4
      exact csteps_setScal (csteps_setScal (.refl _) h5) h6
    | hdrScalar i v =>
      simp only [pduFlagSet] at h
      obtain ⟨⟨hd, c⟩, s1, h1, h2⟩ := (run_bind_some _ _ _ _ _).mp h
      obtain ⟨rfl, _, _⟩ := pduHeaderConf_run k obj s hd c s1 h1
      simp only at h2
      exact csteps_setScal (.refl _) h2
    | entityIds a b =>
      simp only [pduFlagSet] at h
      obtain ⟨⟨hd, c⟩, s1, h1, h2⟩ := (run_bind_some _ _ _ _ _).mp h
      obtain ⟨rfl, _, _⟩ := pduHeaderConf_run k obj s hd c s1 h1
      simp only at h2
      obtain ⟨wa, s2, h3, h4⟩ := (run_bind_some _ _ _ _ _).mp h2
      obtain ⟨_, e⟩ := (scalAt_run _ _ _ _ _).mp h3
      subst s2
      obtain ⟨wb, s3, h5, h6⟩ := (run_bind_some _ _ _ _ _).mp h4
      obtain ⟨_, e⟩ := (scalAt_run _ _ _ _ _).mp h5
      subst s3
      split at h6
      · exact ((fail_run _ _ _).mp h6).elim
      · obtain ⟨u1, s4, h7, h8⟩ := (run_bind_some _ _ _ _ _).mp h6
        exact csteps_setRef (csteps_setRef (.refl _) (fun r e => by cases e; exact harg.1) h7) (fun r e => by cases e; exact harg.2) h8
    | seqNum q =>
      simp only [pduFlagSet] at h
      obtain ⟨⟨hd, c⟩, s1, h1, h2⟩ := (run_bind_some _ _ _ _ _).mp h
      obtain ⟨rfl, _, _⟩ := pduHeaderConf_run k obj s hd c s1 h1
      simp only at h2
      exact csteps_setRef (.refl _) (fun r e => by cases e; exact harg) h2
    | fieldValue i v =>
      simp only [pduFlagSet] at h
      obtain ⟨⟨hd, c⟩, s1, h1, h2⟩ := (run_bind_some _ _ _ _ _).mp h
      obtain ⟨rfl, _, _⟩ := pduHeaderConf_run k obj s hd c s1 h1
      simp only at h2
      obtain ⟨f, s2, h3, h4⟩ := (run_bind_some _ _ _ _ _).mp h2
      obtain ⟨_, e⟩ := (ref_run _ _ _ _ _).mp h3
      subst s2
      exact csteps_setScal (.refl _) h4
  · intro h
    obtain ⟨hd, ch, _, hch, hcase, _, _⟩ := C11_heap_set_frame_len_writes_caller_header s obj u s' h
    rcases hcase with ⟨_, rfl⟩ | ⟨_, v, _, rfl⟩
    · exact ⟨hc, Nat.le_refl _⟩
    · exact ⟨closed_set_same_refs hc hch rfl, by simp⟩

/-- CLOSURE PRESERVATION for the remaining builders: `PusVerificator.add_tc(tc)`, `create_<step>_tm(apid, tc, ts)`,
    `Service1Tm(…)` without parameters, `TransferFrame.unpack`, the USLP header / data-field constructors need no side
    condition; `Service1Tm.from_tm(tm)`, `Service1Tm(verif_params=vp)`, `PusTm` / `PusTc.from_composite_fields(hdr, sec, …)`,
    `TransferFrame(hdr, tfdf, …)`, `PduHolder(x)` keep a closed store closed when the objects they are given are cells of it -/
theorem C11_heap_builders_keep_closed :
    (∀ v tc, KeepsClosed (verificatorAddTc v tc)) ∧ (∀ tc a b c, KeepsClosed (service1FromTc tc a b c)) ∧
    (∀ a b c, KeepsClosed (newService1TmDefault a b c)) ∧ (∀ tr hs ts fs, KeepsClosed (unpackFrame tr hs ts fs)) ∧
    (∀ a b c d e f g, KeepsClosed (newUslpHeader a b c d e f g)) ∧ (∀ a b c d, KeepsClosed (newUslpTruncHeader a b c d)) ∧
    (∀ r i f n, KeepsClosed (newTfdf r i f n)) ∧
    (∀ s, Closed s → ∀ x y, x < s.length → y < s.length → ∀ r s',
      (∀ n, (tmFromCompositeFields x y n).run s = some (r, s') → Closed s' ∧ s.length ≤ s'.length ∧ r < s'.length) ∧
      (∀ n, (tcFromCompositeFields x y n).run s = some (r, s') → Closed s' ∧ s.length ≤ s'.length ∧ r < s'.length) ∧
      (∀ iz ocf fecf, (newTransferFrame x y iz ocf fecf).run s = some (r, s') → Closed s' ∧ s.length ≤ s'.length ∧ r < s'.length) ∧
      ((service1FromTm x).run s = some (r, s') → Closed s' ∧ s.length ≤ s'.length ∧ r < s'.length) ∧
      (∀ a b c, (newService1Tm x a b c).run s = some (r, s') → Closed s' ∧ s.length ≤ s'.length ∧ r < s'.length) ∧
      ((newHolder (some x)).run s = some (r, s') → Closed s' ∧ s.length ≤ s'.length ∧ r < s'.length)) := by
  have noarg : ∀ (m : H Addr), (∀ s r s', m.run s = some (r, s') →
      ∃ t, s' = s ++ t ∧ (∀ c ∈ t, ∀ x ∈ c.kids, x < s.length + t.length) ∧ r < s.length + t.length) → KeepsClosed m := by
    intro m hm s hc r s' h
    obtain ⟨t, rfl, ht, hr⟩ := hm s r s' h
    exact ⟨closed_append hc ht, by simp, by simpa using hr⟩
  have witht : ∀ (s : Store), Closed s → ∀ (t : Store) (r : Addr), (∀ c ∈ t, ∀ x ∈ c.kids, x < s.length + t.length) →
      r < s.length + t.length → Closed (s ++ t) ∧ s.length ≤ (s ++ t).length ∧ r < (s ++ t).length :=
    fun s hc t r ht hr => ⟨closed_append hc ht, by simp, by simpa using hr⟩
  refine ⟨?_, ?_, ?_, ?_, ?_, ?_, ?_, ?_⟩
  · intro v tc s hc key s' h
    unfold verificatorAddTc at h
    obtain ⟨hdr, s1, h1, h2⟩ := (run_bind_some _ _ _ _ _).mp h
    obtain ⟨_, e⟩ := (ref_run _ _ _ _ _).mp h1
    subst s1
    obtain ⟨rid, s2, h3, h4⟩ := (run_bind_some _ _ _ _ _).mp h2
    obtain ⟨c2, l2, r2⟩ := C11_heap_ops_keep_closed.2.2.2.2.2.2.2.2.1 hdr s hc rid s2 h3
    obtain ⟨st, s3, h5, h6⟩ := (run_bind_some _ _ _ _ _).mp h4
    obtain ⟨rfl, rfl⟩ := (new_run _ _ _ _).mp h5
    obtain ⟨cv, s4, h7, h8⟩ := (run_bind_some _ _ _ _ _).mp h6
    obtain ⟨hcv, e⟩ := (cellAt_run _ _ _ _).mp h7
    subst s4
    obtain ⟨u, s5, h9, h10⟩ := (run_bind_some _ _ _ _ _).mp h8
    obtain ⟨_, e⟩ := (put_run _ _ _ _ _).mp h9
    subst s5
    obtain ⟨rfl, rfl⟩ := (pure_run _ _ _ _).mp h10
    have c3 : Closed (s2 ++ [(⟨.verifStatus, [], [0, 0, 0, 0, 0]⟩ : Cell)]) := closed_append c2 (by simp [Cell.kids])
    refine ⟨closed_set c3 ?_, by simp; omega, Nat.lt_of_lt_of_le r2 (by simp)⟩
    intro r hr
    have hm := mem_kids.mp hr
    simp only [List.mem_append, List.mem_cons, List.not_mem_nil, or_false] at hm
    rcases hm with hm | hm | hm
    · exact closed_kid_lt c3 hcv (mem_kids.mpr hm)
    · cases hm; exact Nat.lt_of_lt_of_le r2 (by simp)
    · cases hm; simp
  · intro tc a b c s hc r s' h
    unfold service1FromTc at h
    obtain ⟨hdr, s1, h1, h2⟩ := (run_bind_some _ _ _ _ _).mp h
    obtain ⟨_, e⟩ := (ref_run _ _ _ _ _).mp h1
    subst s1
    obtain ⟨rid, s2, h3, h4⟩ := (run_bind_some _ _ _ _ _).mp h2
    obtain ⟨c2, l2, r2⟩ := C11_heap_ops_keep_closed.2.2.2.2.2.2.2.2.1 hdr s hc rid s2 h3
    simp [newPusTm, newSpHeader, newPacketId, newPsc, StateT.run_bind, new_run_eq] at h4
    obtain ⟨rfl, rfl⟩ := h4
    have hridN : @LT.lt Nat _ rid s2.length := r2
    refine ⟨closed_append c2 ?_, by simp; omega, by simp⟩
    simp [Cell.kids]
    exact Nat.lt_of_lt_of_le r2 (by omega)
  · intro a b c
    apply noarg
    intro s r s' h
    simp [newService1TmDefault, newReqId, newVerifParams, newPusTm, newSpHeader, newPacketId, newPsc, StateT.run_bind, new_run_eq] at h
    obtain ⟨rfl, rfl⟩ := h
    refine ⟨_, rfl, ?_, ?_⟩ <;> first | (simp [Cell.kids]; done) | (simp [Cell.kids]; omega)
  · intro tr hs ts fs
    apply noarg
    intro s r s' h
    simp [unpackFrame, StateT.run_bind, new_run_eq] at h
    obtain ⟨rfl, rfl⟩ := h
    refine ⟨_, rfl, ?_, ?_⟩ <;> first | (simp [Cell.kids]; done) | (simp [Cell.kids]; omega)
  · intro a b c d e f g
    apply noarg
    intro s r s' h
    obtain ⟨rfl, rfl⟩ := (new_run _ _ _ _).mp h
    exact ⟨_, rfl, by simp [Cell.kids], by simp⟩
  · intro a b c d
    apply noarg
    intro s r s' h
    obtain ⟨rfl, rfl⟩ := (new_run _ _ _ _).mp h
    exact ⟨_, rfl, by simp [Cell.kids], by simp⟩
  · intro a b c d
    apply noarg
    intro s r s' h
    unfold newTfdf at h
    split at h
    · exact ((fail_run _ _ _).mp h).elim
    · obtain ⟨rfl, rfl⟩ := (new_run _ _ _ _).mp h
      exact ⟨_, rfl, by simp [Cell.kids], by simp⟩
  · intro s hc x y hx hy r s'
    have one : ∀ (c : Cell), (∀ k ∈ c.kids, k = x ∨ k = y) → r = s.length → s' = s ++ [c] →
        Closed s' ∧ s.length ≤ s'.length ∧ r < s'.length := by
      intro c hk rfl rfl
      refine ⟨closed_append hc ?_, by simp, by simp⟩
      intro c' hc' k hk'
      simp only [List.mem_cons, List.not_mem_nil, or_false] at hc'
      subst hc'
      rcases hk k hk' with rfl | rfl
      · exact Nat.lt_of_lt_of_le hx (Nat.le_add_right _ _)
      · exact Nat.lt_of_lt_of_le hy (Nat.le_add_right _ _)
    refine ⟨?_, ?_, ?_, ?_, ?_, ?_⟩
    · intro n h
      obtain ⟨_, _, _, rfl⟩ := C11_heap_tm_from_composite_keeps_caller_object s x y hx hy n r s' h
      have hal := (alloc_new (⟨.pusTm, [some x, some y], [n, 0]⟩ : Cell)).ext
      refine one _ (by simp [Cell.kids]) ?_ rfl
      unfold tmFromCompositeFields at h
      obtain ⟨pid, s1, h1, h2⟩ := (run_bind_some _ _ _ _ _).mp h
      obtain ⟨_, e⟩ := (ref_run _ _ _ _ _).mp h1
      subst s1
      obtain ⟨pt, s2, h3, h4⟩ := (run_bind_some _ _ _ _ _).mp h2
      obtain ⟨_, e⟩ := (scalAt_run _ _ _ _ _).mp h3
      subst s2
      split at h4
      · exact ((fail_run _ _ _).mp h4).elim
      · exact ((new_run _ _ _ _).mp h4).1
    · intro n h
      unfold tcFromCompositeFields at h
      obtain ⟨pid, s1, h1, h2⟩ := (run_bind_some _ _ _ _ _).mp h
      obtain ⟨_, e⟩ := (ref_run _ _ _ _ _).mp h1
      subst s1
      obtain ⟨pt, s2, h3, h4⟩ := (run_bind_some _ _ _ _ _).mp h2
      obtain ⟨_, e⟩ := (scalAt_run _ _ _ _ _).mp h3
      subst s2
      split at h4
      · exact ((fail_run _ _ _).mp h4).elim
      · obtain ⟨e1, e2⟩ := (new_run _ _ _ _).mp h4
        exact one _ (by simp [Cell.kids]) e1 e2
    · intro iz ocf fecf h
      obtain ⟨e1, e2⟩ := (new_run _ _ _ _).mp h
      exact one _ (by simp [Cell.kids]) e1 e2
    · intro h
      obtain ⟨sub, _, _, rfl, rfl⟩ := service1FromTm_shape s x r s' h
      obtain ⟨hk, hpos, _, _, _, _⟩ := s1Params_kids s.length sub
      have hxN : @LT.lt Nat _ x s.length := hx
      refine ⟨closed_append hc ?_, by simp, by simp⟩
      intro c hcm k hk'
      rcases List.mem_append.mp hcm with hm | hm
      · exact Nat.lt_of_lt_of_le (hk c hm k hk').2 (by simp)
      · simp only [List.mem_cons, List.not_mem_nil, or_false] at hm
        subst hm
        simp [Cell.kids] at hk'
        rcases hk' with rfl | rfl
        · show @LT.lt Nat _ _ _
          simp; omega
        · exact Nat.lt_of_lt_of_le hx (Nat.le_add_right _ _)
    · intro a b c h
      unfold newService1Tm newPusTm newSpHeader newPacketId newPsc at h
      obtain ⟨cx, s1, h1, h2⟩ := (run_bind_some _ _ _ _ _).mp h
      obtain ⟨_, e⟩ := (cellAt_run _ _ _ _).mp h1
      subst s1
      simp [StateT.run_bind, new_run_eq] at h2
      obtain ⟨rfl, rfl⟩ := h2
      refine ⟨closed_append hc ?_, by simp, by simp⟩
      simp [Cell.kids]
      exact Nat.lt_of_lt_of_le hx (by omega)
    · intro h
      obtain ⟨e1, e2⟩ := (new_run _ _ _ _).mp h
      exact one _ (by simp [Cell.kids]) e1 e2

/-- CHAINED through a setter, by proof (no evaluation): on ANY closed store with a configuration cell, build a Keep Alive PDU and
    assign its file flag — the store is closed after both calls and the caller's configuration (cell and view) is what it was -/
example (s0 : Store) (hc0 : Closed s0) (conf : Addr) (cc : Cell) (hcc : s0[conf]? = some cc) (hl : ConfFieldsAreLeaves s0 conf)
    (pdu : Addr) (s1 s2 : Store) (u : Unit) (v : Nat)
    (h1 : (newKeepAlivePdu conf 7).run s0 = some (pdu, s1))
    (h2 : (pduFlagSet .keepAlive pdu (.fileFlag v)).run s1 = some (u, s2)) :
    Closed s2 ∧ s2[conf]? = some cc ∧ view s2 conf = view s0 conf := by
  have ho : ObjsAvoid s0 [] conf := fun o h => by simp at h
  obtain ⟨c1, l1, _⟩ := C11_heap_ops_keep_closed.2.2.2.2.2.2.2.2.2.2.2.2 .keepAlive conf [] [7] false 0 0 s0 hc0 (fun o h => by simp at h) pdu s1 h1
  obtain ⟨c2, _⟩ := (C11_heap_setters_keep_closed s1 c1 pdu u s2).2.2.2.1 .keepAlive (.fileFlag v) trivial h2
  obtain ⟨_, hcell, hview⟩ := C11_heap_pdu_flag_setter_invisible_to_caller .keepAlive conf [] [7] false 0 0 s0 hc0 cc hcc hl ho pdu s1 h1
    (.fileFlag v) (fun _ _ e => by cases e) u s2 h2
  have hlt : conf < s0.length := (List.getElem?_eq_some_iff.mp hcc).1
  refine ⟨c2, hcell, ?_⟩
  rw [view, (hview depth conf hlt).1]
  exact (C11_heap_pdu_ctor_inputs_untouched .keepAlive conf [] [7] false 0 0 s0 hc0 pdu s1 h1 conf hlt).1


/-- evaluated: two NAK PDUs built without a list from one configuration get two lists (6 and 11), neither reachable from the
    caller's configuration -/
example : Holds ((newNakPdu 3 0 100 none).run exConfStore) fun pdu s' =>
    followAttrs s' pdu ["segment_requests"] = some 6 ∧ 6 ∉ reach s' 3 ∧
    Holds ((newNakPdu 3 0 50 none).run s') fun pdu2 s'' =>
      followAttrs s'' pdu2 ["segment_requests"] = some 11 ∧ followAttrs s'' pdu ["segment_requests"] = some 6 := by decide

/-- the side condition of `C11_heap_setters_keep_closed` is needed and sufficient on a concrete store (audit 3, finding 5): a
    fault location that is not a cell breaks closure, one that is a cell (4) keeps it; and the tracker / report builders keep
    `exTcStore` closed -/
example : Holds ((newFinishedPdu 3 5).run exConfStore) fun pdu s' =>
    Closed s' ∧ Holds ((finSet pdu (.faultLoc (some 999))).run s') (fun _ s'' => ¬ Closed s'') ∧
    Holds ((finSet pdu (.faultLoc (some 4))).run s') (fun _ s'' => Closed s'') ∧
    Holds ((pduFlagSet .finished pdu (.entityIds 1 0)).run s') (fun _ s'' => Closed s'') := by decide

example : Holds (newVerificator.run exTcStore) fun v s1 => Holds ((verificatorAddTc v 4).run s1) fun _ s2 =>
    Closed s2 ∧ Holds ((service1FromTc 4 9 1 7).run s2) fun _ s3 => Closed s3 := by decide

end SpVerif.Props.C11Heap
