import SpVerif.Model.Heap
/-!
# C11 / C15 / C02 — the aliasing clauses over the object-graph model (`Model/Heap.lean`)
-/
namespace SpVerif.Props.C11Heap
open SpVerif SpVerif.Heap

/-! ## list helpers -/

private theorem flatMap_congr' {α β : Type} {l : List α} {f g : α → List β} (h : ∀ x ∈ l, f x = g x) :
    l.flatMap f = l.flatMap g := by
  induction l with
  | nil => rfl
  | cons a l ih =>
    simp only [List.flatMap_cons]
    rw [h a (by simp), ih (fun x hx => h x (by simp [hx]))]

private theorem mem_kids {c : Cell} {r : Addr} : r ∈ c.kids ↔ some r ∈ c.refs := by
  simp [Cell.kids, List.mem_filterMap]

/-! ## (a) frame lemmas: a write outside what is reachable from a handle is invisible through it -/

/-- FRAME: overwriting a cell that is not reachable from `a` leaves the view through `a` unchanged -/
theorem C11_heap_frame (n : Nat) (s : Store) (a w : Addr) (c : Cell) (h : w ∉ reachN n s a) :
    viewN n (s.set w c) a = viewN n s a := by
  induction n generalizing a with
  | zero => simp [viewN]
  | succ n ih =>
    simp only [reachN, List.mem_cons, not_or] at h
    obtain ⟨hne, hrest⟩ := h
    have hget : (s.set w c)[a]? = s[a]? := List.getElem?_set_ne (fun e => hne e)
    simp only [viewN, hget]
    cases hc : s[a]? with
    | none => rfl
    | some cell =>
      simp only [hc] at hrest
      simp only
      congr 1
      apply flatMap_congr'
      intro o ho
      cases o with
      | none => rfl
      | some r =>
        simp only
        apply ih
        intro hw
        apply hrest
        simp only [List.mem_flatMap]
        exact ⟨r, mem_kids.mpr ho, hw⟩

/-- the same for what is reachable -/
theorem C11_heap_frame_reach (n : Nat) (s : Store) (a w : Addr) (c : Cell) (h : w ∉ reachN n s a) :
    reachN n (s.set w c) a = reachN n s a := by
  induction n generalizing a with
  | zero => simp [reachN]
  | succ n ih =>
    simp only [reachN, List.mem_cons, not_or] at h
    obtain ⟨hne, hrest⟩ := h
    have hget : (s.set w c)[a]? = s[a]? := List.getElem?_set_ne (fun e => hne e)
    simp only [reachN, hget]
    cases hc : s[a]? with
    | none => rfl
    | some cell =>
      simp only [hc] at hrest
      simp only
      congr 1
      apply flatMap_congr'
      intro r hr
      apply ih
      intro hw
      apply hrest
      simp only [List.mem_flatMap]
      exact ⟨r, hr, hw⟩

/-- FRAME for a whole sequence of writes, none of which hits a cell reachable from `a` -/
theorem C11_heap_frame_writes (n : Nat) (s : Store) (a : Addr) (ws : List (Addr × Cell))
    (h : ∀ w ∈ ws, w.1 ∉ reachN n s a) :
    viewN n (ws.foldl (fun s w => s.set w.1 w.2) s) a = viewN n s a := by
  induction ws generalizing s with
  | nil => rfl
  | cons w ws ih =>
    simp only [List.foldl_cons]
    have hw := h w (by simp)
    rw [ih (s.set w.1 w.2) (fun x hx => by
      rw [C11_heap_frame_reach n s a w.1 w.2 hw]; exact h x (by simp [hx]))]
    exact C11_heap_frame n s a w.1 w.2 hw

/-! ## allocation: old cells keep their views, fresh cells are separated from everything that existed -/

private theorem closed_kid_lt {s : Store} (hc : Closed s) {a : Addr} {c : Cell} (h : s[a]? = some c) {r : Addr} (hr : r ∈ c.kids) :
    r < s.length :=
  hc c (List.mem_of_getElem? h) r hr

/-- in a closed store everything reachable from an existing cell exists -/
theorem C11_heap_reach_closed (n : Nat) (s : Store) (a : Addr) (hc : Closed s) (ha : a < s.length) :
    ∀ x ∈ reachN n s a, x < s.length := by
  induction n generalizing a with
  | zero => intro x hx; simp [reachN] at hx; subst hx; exact ha
  | succ n ih =>
    intro x hx
    simp only [reachN, List.mem_cons] at hx
    rcases hx with rfl | hx
    · exact ha
    · cases hcell : s[a]? with
      | none => simp [hcell] at hx
      | some cell =>
        simp only [hcell, List.mem_flatMap] at hx
        obtain ⟨r, hr, hx⟩ := hx
        exact ih r (closed_kid_lt hc hcell hr) x hx

/-- ALLOCATION keeps every existing view: appending cells to a closed store changes nothing an observer reads
    through a handle that existed before -/
theorem C11_heap_alloc_view (n : Nat) (s t : Store) (a : Addr) (hc : Closed s) (ha : a < s.length) :
    viewN n (s ++ t) a = viewN n s a := by
  induction n generalizing a with
  | zero => rfl
  | succ n ih =>
    have hget : (s ++ t)[a]? = s[a]? := List.getElem?_append_left ha
    simp only [viewN, hget]
    cases hcell : s[a]? with
    | none => rfl
    | some cell =>
      simp only
      congr 1
      apply flatMap_congr'
      intro o ho
      cases o with
      | none => rfl
      | some r => exact ih r (closed_kid_lt hc hcell (mem_kids.mpr ho))

theorem C11_heap_alloc_reach (n : Nat) (s t : Store) (a : Addr) (hc : Closed s) (ha : a < s.length) :
    reachN n (s ++ t) a = reachN n s a := by
  induction n generalizing a with
  | zero => rfl
  | succ n ih =>
    have hget : (s ++ t)[a]? = s[a]? := List.getElem?_append_left ha
    simp only [reachN, hget]
    cases hcell : s[a]? with
    | none => rfl
    | some cell =>
      simp only
      congr 1
      apply flatMap_congr'
      intro r hr
      exact ih r (closed_kid_lt hc hcell hr)

/-- FRESHNESS: if the appended cells refer to appended cells only, everything reachable from an appended cell is
    appended (so it is separated from every object that existed before) -/
theorem C11_heap_fresh_reach (n : Nat) (s t : Store) (a : Addr)
    (ht : ∀ c ∈ t, ∀ r ∈ c.kids, s.length ≤ r) (ha : s.length ≤ a) :
    ∀ x ∈ reachN n (s ++ t) a, s.length ≤ x := by
  induction n generalizing a with
  | zero => intro x hx; simp [reachN] at hx; subst hx; exact ha
  | succ n ih =>
    intro x hx
    simp only [reachN, List.mem_cons] at hx
    rcases hx with rfl | hx
    · exact ha
    · cases hcell : (s ++ t)[a]? with
      | none => simp [hcell] at hx
      | some cell =>
        simp only [hcell, List.mem_flatMap] at hx
        obtain ⟨r, hr, hx⟩ := hx
        have hmem : cell ∈ t := by
          rw [List.getElem?_append_right ha] at hcell
          exact List.mem_of_getElem? hcell
        exact ih r (ht cell hmem r hr) x hx

/-- a fresh object graph and an old handle have no cell in common -/
theorem C11_heap_fresh_disjoint (n : Nat) (s t : Store) (a b : Addr) (hc : Closed s) (hb : b < s.length)
    (ht : ∀ c ∈ t, ∀ r ∈ c.kids, s.length ≤ r) (ha : s.length ≤ a) :
    Disjoint (reachN n (s ++ t) a) (reachN n (s ++ t) b) := by
  intro x hx hx'
  have h1 := C11_heap_fresh_reach n s t a ht ha x hx
  rw [C11_heap_alloc_reach n s t b hc hb] at hx'
  have h2 := C11_heap_reach_closed n s b hc hb x hx'
  exact Nat.lt_irrefl _ (Nat.lt_of_lt_of_le h2 h1)

/-! ## library calls that only allocate -/

/-- the call leaves every existing cell as it was: the store afterwards is the store before plus new cells -/
structure AllocOnly {α : Type} (m : H α) : Prop where
  ext : ∀ s r s', m.run s = some (r, s') → ∃ t, s' = s ++ t

private theorem run_bind_some {α β : Type} (m : H α) (f : α → H β) (s : Store) (b : β) (s' : Store) :
    (m >>= f).run s = some (b, s') ↔ ∃ a s1, m.run s = some (a, s1) ∧ (f a).run s1 = some (b, s') := by
  rw [StateT.run_bind]
  cases h1 : m.run s with
  | none => simp
  | some p =>
    obtain ⟨a, s1⟩ := p
    simp only [Option.some.injEq, Prod.mk.injEq]
    constructor
    · intro h; exact ⟨a, s1, ⟨rfl, rfl⟩, h⟩
    · rintro ⟨a', s1', ⟨rfl, rfl⟩, h⟩; exact h

private theorem alloc_bind {α β : Type} {m : H α} {f : α → H β} (hm : AllocOnly m) (hf : ∀ a, AllocOnly (f a)) :
    AllocOnly (m >>= f) := by
  constructor
  intro s r s' h
  obtain ⟨a, s1, h1, h2⟩ := (run_bind_some m f s r s').mp h
  obtain ⟨t1, rfl⟩ := hm.ext s a s1 h1
  obtain ⟨t2, rfl⟩ := (hf a).ext _ r s' h2
  exact ⟨t1 ++ t2, by simp⟩

private theorem alloc_pure {α : Type} (a : α) : AllocOnly (pure a : H α) := by
  constructor
  intro s r s' h
  simp [StateT.run_pure] at h
  exact ⟨[], by simp [h.2]⟩

private theorem alloc_fail {α : Type} : AllocOnly (fail : H α) := by
  constructor
  intro s r s' h
  simp [fail, StateT.run] at h

private theorem alloc_new (c : Cell) : AllocOnly (new c) := by
  constructor
  intro s r s' h
  simp [new, StateT.run] at h
  exact ⟨[c], h.2.symm⟩

private theorem alloc_cellAt (a : Addr) : AllocOnly (cellAt a) := by
  constructor
  intro s r s' h
  simp only [cellAt, StateT.run] at h
  split at h
  · simp at h; exact ⟨[], by simp [h.2]⟩
  · simp at h

macro "alloc_tac" : tactic => `(tactic| repeat' (first
  | exact alloc_pure _ | exact alloc_fail | exact alloc_new _ | exact alloc_cellAt _ | assumption
  | intro _ | split | apply alloc_bind))

private theorem alloc_ref (a : Addr) (i : Nat) : AllocOnly (ref a i) := by unfold ref; alloc_tac
private theorem alloc_refOpt (a : Addr) (i : Nat) : AllocOnly (refOpt a i) := by unfold refOpt; alloc_tac
private theorem alloc_scalAt (a : Addr) (i : Nat) : AllocOnly (scalAt a i) := by unfold scalAt; alloc_tac
private theorem alloc_copyCell (a : Addr) : AllocOnly (copyCell a) := by unfold copyCell; alloc_tac

private theorem set_same {α : Type} {l : List α} {i : Nat} {x : α} (h : l[i]? = some x) : l.set i x = l := by
  apply List.ext_getElem?
  intro j
  by_cases hij : i = j
  · subst hij
    rw [List.getElem?_set_self (List.getElem?_eq_some_iff.mp h).1, h]
  · exact List.getElem?_set_ne hij

private theorem cellAt_run (a : Addr) (s : Store) (c : Cell) (s' : Store) :
    (cellAt a).run s = some (c, s') ↔ s[a]? = some c ∧ s' = s := by
  simp only [cellAt, StateT.run]
  cases h : s[a]? with
  | none => simp
  | some c' =>
    simp only [Option.some.injEq, Prod.mk.injEq]
    constructor
    · rintro ⟨rfl, rfl⟩; exact ⟨rfl, rfl⟩
    · rintro ⟨rfl, rfl⟩; exact ⟨rfl, rfl⟩

private theorem put_run (a : Addr) (c : Cell) (s : Store) (u : Unit) (s' : Store) :
    (put a c).run s = some (u, s') ↔ a < s.length ∧ s' = s.set a c := by
  simp only [put, StateT.run]
  by_cases h : a < s.length
  · simp only [h, if_true, Option.some.injEq, Prod.mk.injEq, true_and]
    exact eq_comm
  · simp [h]

private theorem alloc_touchRef (a : Addr) (i : Nat) : AllocOnly (touchRef a i) := by
  constructor
  intro s r s' h
  unfold touchRef at h
  obtain ⟨c, s1, h1, h2⟩ := (run_bind_some _ _ s r s').mp h
  obtain ⟨hc, rfl⟩ := (cellAt_run a s c s1).mp h1
  split at h2
  · rename_i r' hr
    obtain ⟨_, rfl⟩ := (put_run _ _ _ _ _).mp h2
    refine ⟨[], ?_⟩
    rw [set_same hr]
    simp [set_same hc]
  · exact (alloc_pure ()).ext _ _ _ h2

/-- "the call does not modify anything the caller holds": in EVERY closed store, for EVERY object that existed before
    the call, the view through it, the set of cells reachable from it and the cell itself are what they were -/
def InputsUntouched {α : Type} (m : H α) : Prop :=
  ∀ s, Closed s → ∀ r s', m.run s = some (r, s') →
    ∀ a, a < s.length → view s' a = view s a ∧ reach s' a = reach s a ∧ s'[a]? = s[a]?

/-- (b), generic form: a call that only allocates does not modify anything the caller holds -/
theorem C11_heap_allocOnly_inputs_untouched {α : Type} {m : H α} (hm : AllocOnly m) : InputsUntouched m := by
  intro s hc r s' h a ha
  obtain ⟨t, rfl⟩ := hm.ext s r s' h
  exact ⟨C11_heap_alloc_view depth s t a hc ha, C11_heap_alloc_reach depth s t a hc ha, List.getElem?_append_left ha⟩

macro "alloc_ops" : tactic => `(tactic| repeat' (first
  | exact alloc_pure _ | exact alloc_fail | exact alloc_new _ | exact alloc_cellAt _
  | exact alloc_ref _ _ | exact alloc_refOpt _ _ | exact alloc_scalAt _ _ | exact alloc_copyCell _ | exact alloc_touchRef _ _
  | intro _ | split | apply alloc_bind))

/-! ### (b) per operation: constructors, factories, decoders -/

private theorem alloc_newSpHeader (a b c d e f g : Nat) : AllocOnly (newSpHeader a b c d e f g) := by
  unfold newSpHeader newPacketId newPsc; alloc_ops

private theorem alloc_deepCopyHeader (h : Addr) : AllocOnly (deepCopyHeader h) := by
  unfold deepCopyHeader; alloc_ops

private theorem alloc_reqIdFromSpHeader (h : Addr) : AllocOnly (reqIdFromSpHeader h) := by
  unfold reqIdFromSpHeader; alloc_ops

private theorem alloc_newPusTm (a b c d e f : Nat) : AllocOnly (newPusTm a b c d e f) := by
  unfold newPusTm
  repeat' (first | exact alloc_newSpHeader .. | exact alloc_new _ | intro _ | apply alloc_bind)

private theorem alloc_newPdu (k : PduKind) (conf : Addr) (objs : List (Option Addr)) (scal : List Nat) (af : Bool) (fl dl : Nat) :
    AllocOnly (newPdu k conf objs scal af fl dl) := by
  unfold newPdu newDirective newPduHeader copyConfWithDir; alloc_ops

/-- `PusTc(...)` and `PusTc.unpack(...)`: nothing the caller holds is modified -/
theorem C02_heap_tc_ctor_inputs_untouched (a b c d e f g : Nat) :
    InputsUntouched (newPusTc a b c d e f g) ∧ InputsUntouched (unpackTc a b c d e f g) := by
  constructor <;> apply C11_heap_allocOnly_inputs_untouched
  · unfold newPusTc newTcSec
    repeat' (first | exact alloc_newSpHeader .. | exact alloc_new _ | intro _ | apply alloc_bind)
  · unfold unpackTc newTcSec
    repeat' (first | exact alloc_newSpHeader .. | exact alloc_new _ | intro _ | apply alloc_bind)

/-- `PusTc.from_composite_fields(...)` adopts the two header objects and modifies nothing -/
theorem C02_heap_from_composite_inputs_untouched (hdr sec : Addr) (n : Nat) :
    InputsUntouched (tcFromCompositeFields hdr sec n) := by
  apply C11_heap_allocOnly_inputs_untouched
  unfold tcFromCompositeFields; alloc_ops

/-- `to_space_packet()` of a telecommand / a telemetry packet modifies nothing the caller holds (the packet included) -/
theorem C02_heap_to_space_packet_inputs_untouched (p : Addr) :
    InputsUntouched (tcToSpacePacket p) ∧ InputsUntouched (tmToSpacePacket p) := by
  constructor <;> apply C11_heap_allocOnly_inputs_untouched
  · unfold tcToSpacePacket
    repeat' (first | exact alloc_deepCopyHeader _ | exact alloc_new _ | exact alloc_ref _ _ | exact alloc_scalAt _ _ | intro _ | apply alloc_bind)
  · unfold tmToSpacePacket
    repeat' (first | exact alloc_deepCopyHeader _ | exact alloc_new _ | exact alloc_ref _ _ | exact alloc_scalAt _ _ | intro _ | apply alloc_bind)

/-- `RequestId.from_sp_header(header)` / `RequestId.from_pus_tc(tc)` modify neither header nor telecommand -/
theorem C15_heap_request_id_inputs_untouched (x : Addr) :
    InputsUntouched (reqIdFromSpHeader x) ∧ InputsUntouched (reqIdFromPusTc x) := by
  constructor <;> apply C11_heap_allocOnly_inputs_untouched
  · exact alloc_reqIdFromSpHeader x
  · unfold reqIdFromPusTc
    repeat' (first | exact alloc_reqIdFromSpHeader _ | exact alloc_ref _ _ | intro _ | apply alloc_bind)

/-- `create_<step>_tm(apid, tc, timestamp)` does not modify the telecommand -/
theorem C15_heap_service1_inputs_untouched (tc : Addr) (apid sub tsLen : Nat) :
    InputsUntouched (service1FromTc tc apid sub tsLen) := by
  apply C11_heap_allocOnly_inputs_untouched
  unfold service1FromTc
  repeat' (first | exact alloc_reqIdFromSpHeader _ | exact alloc_newPusTm .. | exact alloc_ref _ _ | exact alloc_new _ | intro _ | apply alloc_bind)

/-- the common part of the eight CFDP PDU constructors — for every kind, every caller configuration, every list of
    caller objects: nothing the caller holds is modified (in particular not the `PduConfig`: the direction is
    assigned on the constructor's own copy — the former `NakPdu` defect is the case `k = .nak`) -/
theorem C11_heap_pdu_ctor_inputs_untouched (k : PduKind) (conf : Addr) (objs : List (Option Addr)) (scal : List Nat)
    (af : Bool) (fl dl : Nat) : InputsUntouched (newPdu k conf objs scal af fl dl) :=
  C11_heap_allocOnly_inputs_untouched (alloc_newPdu ..)

/-- the eight constructors by name -/
theorem C11_heap_eight_ctors_inputs_untouched (conf : Addr) :
    (∀ acked cond st, InputsUntouched (newAckPdu conf acked cond st)) ∧
    (∀ resp, InputsUntouched (newPromptPdu conf resp)) ∧
    (∀ progress, InputsUntouched (newKeepAlivePdu conf progress)) ∧
    (∀ start stop segs, InputsUntouched (newNakPdu conf start stop segs)) ∧
    (∀ size cond fault, InputsUntouched (newEofPdu conf size cond fault)) ∧
    (∀ params, InputsUntouched (newFinishedPdu conf params)) ∧
    (∀ params options, InputsUntouched (newMetadataPdu conf params options)) ∧
    (∀ params, InputsUntouched (newFileDataPdu conf params)) := by
  refine ⟨?_, ?_, ?_, ?_, ?_, ?_, ?_, ?_⟩ <;> intros <;> apply C11_heap_allocOnly_inputs_untouched
  · exact alloc_newPdu ..
  · exact alloc_newPdu ..
  · exact alloc_newPdu ..
  · unfold newNakPdu
    repeat' (first | exact alloc_newPdu .. | exact alloc_new _ | intro _ | split | apply alloc_bind)
  · exact alloc_newPdu ..
  · unfold newFinishedPdu
    repeat' (first | exact alloc_newPdu .. | exact alloc_touchRef _ _ | exact alloc_pure _ | intro _ | apply alloc_bind)
  · exact alloc_newPdu ..
  · unfold newFileDataPdu segMetaLen
    repeat' (first | exact alloc_newPdu .. | exact alloc_refOpt _ _ | exact alloc_scalAt _ _ | exact alloc_pure _ | intro _ | split | apply alloc_bind)

/-- the factories: a new object (and a new list) per call, nothing existing is touched -/
theorem C11_heap_factories_inputs_untouched :
    InputsUntouched finishedSuccessParams ∧ InputsUntouched finishedEmptyParams ∧ InputsUntouched fileDataEmptyParams ∧
    InputsUntouched pduConfigDefault ∧ (∀ conf, InputsUntouched (finishedSuccessPdu conf)) := by
  refine ⟨?_, ?_, ?_, ?_, ?_⟩ <;> intros <;> apply C11_heap_allocOnly_inputs_untouched
  · unfold finishedSuccessParams newFinishedParams; alloc_ops
  · unfold finishedEmptyParams newFinishedParams; alloc_ops
  · unfold fileDataEmptyParams newFileDataParams; alloc_ops
  · unfold pduConfigDefault newByteField newPduConfig; alloc_ops
  · unfold finishedSuccessPdu finishedSuccessParams newFinishedParams newFinishedPdu
    repeat' (first | exact alloc_newPdu .. | exact alloc_touchRef _ _ | exact alloc_pure _ | exact alloc_new _ | intro _ | apply alloc_bind)

/-- every decoder: nothing existing is touched -/
theorem C11_heap_unpack_inputs_untouched (k : PduKind) (idw seqw : Nat) (withObj : Bool) (scal : List Nat) :
    InputsUntouched (unpackPdu k idw seqw withObj scal) := by
  apply C11_heap_allocOnly_inputs_untouched
  unfold unpackPdu newByteField newPduConfig newDirective newPduHeader newFileDataParams newSegMeta newFinishedParams
  alloc_ops

/-- `PduHolder(pdu)` -/
theorem C11_heap_holder_ctor_inputs_untouched (pdu : Option Addr) : InputsUntouched (newHolder pdu) :=
  C11_heap_allocOnly_inputs_untouched (by unfold newHolder; alloc_ops)

end SpVerif.Props.C11Heap
