import SpVerif.Model.FileData
import SpVerif.Props.C05
namespace SpVerif.Props.C07
theorem C07_tmp : True := trivial
end SpVerif.Props.C07
