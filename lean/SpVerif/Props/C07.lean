import SpVerif.Proofs.FileData
import SpVerif.Props.C05
/-!
# C07 — CFDP File Data PDU carries offset, segment metadata and file data exactly

Property theorems only. `Spec.octets` is the layout of CCSDS 727.0-B-5 §5.3 (table 5-14):
fixed PDU header (C05) ‖ optional [record-continuation state (2 bits) | segment-metadata length
(6 bits)] ‖ segment metadata (0..63 octets) ‖ offset (32 bits, 64 with the large-file flag,
big-endian) ‖ file data ‖ CRC-16 over everything before it iff the CRC flag is set; the header's
data-field length covers everything after the header.
-/
namespace SpVerif.Props.C07
open SpVerif SpVerif.CfdpHeader SpVerif.FileData

/-- optional segment metadata in the domain: a member of `RecordContinuationState`, 0..63 octets -/
def WFMeta : Option SegMeta → Prop
  | none => True
  | some m => m.state < 4 ∧ m.metadata.length ≤ 63

instance (m : Option SegMeta) : Decidable (WFMeta m) := by
  cases m <;> (unfold WFMeta; infer_instance)

/-- the segment-metadata flag that goes with the params -/
def metaFlag (m : Option SegMeta) : Nat := if m.isSome then 1 else 0

/-- the domain of the statement: any header configuration of C05's domain (every flag, width and
    ID value; PDU type and direction bits included, since the decoder keeps whatever the octets
    carry), the flag in step with the presence of segment metadata, the data-field length covering
    exactly metadata ‖ offset ‖ data ‖ CRC, an offset of the width the large-file flag selects -/
def WF (x : Pdu) : Prop :=
  C05.WF x.header ∧ x.header.segMeta = metaFlag x.params.segMeta ∧ x.header.dataFieldLen = x.calcLen ∧
  x.params.offset < 256 ^ offWidth x.header ∧ WFMeta x.params.segMeta

instance (x : Pdu) : Decidable (WF x) := by unfold WF; infer_instance

/-- a configuration a File Data PDU can be built from -/
def WFConf (c : PduConfig) : Prop :=
  c.direction < 2 ∧ c.transMode < 2 ∧ c.crcFlag < 2 ∧ c.fileFlag < 2 ∧ c.segCtrl < 2 ∧
  C05.WFField c.source ∧ C05.WFField c.seqNum ∧ C05.WFField c.dest ∧ c.dest.width = c.source.width

instance (c : PduConfig) : Decidable (WFConf c) := by unfold WFConf; infer_instance

/-! ## what the standard prescribes -/

def Spec.meta : Option SegMeta → Bytes
  | none => []
  | some m => u8 (m.state * 64 + m.metadata.length) :: m.metadata

/-- header ‖ optional (state, length) octet and metadata ‖ offset big-endian ‖ file data -/
def Spec.body (x : Pdu) : Bytes :=
  C05.Spec.octets x.header ++ Spec.meta x.params.segMeta
    ++ beBytes (offWidth x.header) x.params.offset ++ x.params.fileData

/-- CRC-16 over everything before it iff the CRC flag is set -/
def Spec.trailer (x : Pdu) : Bytes :=
  if x.header.conf.crcFlag = 1 then Crc.crcTrailer (Spec.body x) else []

def Spec.octets (x : Pdu) : Bytes := Spec.body x ++ Spec.trailer x

/-- the header a File Data PDU built from `(c, ps)` carries -/
def Spec.header (c : PduConfig) (ps : Params) : PduHeader :=
  ⟨1, metaFlag ps.segMeta, (Pdu.mk ⟨1, metaFlag ps.segMeta, 0, { c with direction := 0 }⟩ ps).calcLen,
    { c with direction := 0 }⟩

-- small facts
private theorem meta_length (m : Option SegMeta) : (Spec.meta m).length = metaLen m := by
  cases m with
  | none => rfl
  | some m => simp [Spec.meta, metaLen]; omega

private theorem trailer_length (x : Pdu) : (Spec.trailer x).length = crcLen x.header := by
  unfold Spec.trailer crcLen
  split <;> simp [Crc.crcTrailer, Crc.be16]

private theorem body_length (x : Pdu) (wh : C05.WF x.header) :
    (Spec.body x).length = x.header.headerLen + metaLen x.params.segMeta + offWidth x.header
      + x.params.fileData.length := by
  have := (C05.C05_len x.header wh).2.1
  simp only [Spec.body, List.length_append, meta_length, beBytes_length]
  omega

private theorem packMeta_spec (m : Option SegMeta) (wm : WFMeta m) : packMeta m = .ok (Spec.meta m) := by
  cases m with
  | none => rfl
  | some m =>
    obtain ⟨hs, hl⟩ := wm
    rw [packMeta_some, if_neg (by omega), if_pos (by omega)]
    rfl

private theorem ar_meta (s l : Nat) (hs : s < 4) (hl : l ≤ 63) :
    (s * 64 + l) % 256 / 64 % 4 = s ∧ (s * 64 + l) % 256 % 64 = l := by omega

private theorem ar_meta_inv (b : Nat) (hb : b < 256) : b / 64 % 4 * 64 + b % 64 = b := by omega

/-! ## encode -/

/-- **pack = prescribed octets**, for every header configuration, offset, file data (the empty
    string included) and optional segment metadata of the domain -/
theorem C07_pack_exact (x : Pdu) (wf : WF x) : x.pack = .ok (Spec.octets x) := by
  obtain ⟨wh, _, _, hoff, hmeta⟩ := wf
  have hb : x.packBody = .ok (Spec.body x) :=
    packBody_eq_of (C05.C05_pack_exact x.header wh) (packMeta_spec _ hmeta) hoff
  rw [pack_eq_of hb]
  unfold Spec.octets Spec.trailer
  split <;> simp

/-- **lengths**: the packed PDU is `packet_len` octets long, that is header length + data-field
    length, and the data-field length is metadata (1 + n, or nothing) + offset (4/8) + file data +
    CRC (2 iff the flag is set) -/
theorem C07_len (x : Pdu) (wf : WF x) :
    (Spec.octets x).length = x.packetLen ∧
    x.packetLen = x.header.headerLen + x.header.dataFieldLen ∧
    x.header.dataFieldLen = metaLen x.params.segMeta + offWidth x.header + x.params.fileData.length
      + (if x.header.conf.crcFlag = 1 then 2 else 0) := by
  obtain ⟨wh, _, hd, _, _⟩ := wf
  have hb := body_length x wh
  have ht := trailer_length x
  refine ⟨?_, ?_, ?_⟩
  · simp only [Spec.octets, List.length_append, hb, ht, Pdu.packetLen, PduHeader.packetLen, hd, calcLen_eq]
    omega
  · simp only [Pdu.packetLen, PduHeader.packetLen]; omega
  · rw [hd]; rfl

/-- the two length octets inside the packed PDU say how many octets follow the header -/
theorem C07_len_field (x : Pdu) (wf : WF x) :
    ((Spec.octets x).drop 1).take 2 =
      [u8 (((Spec.octets x).length - x.header.headerLen) / 256),
       u8 (((Spec.octets x).length - x.header.headerLen) % 256)] := by
  have hl := C07_len x wf
  have e : (Spec.octets x).length - x.header.headerLen = x.header.dataFieldLen := by
    rw [hl.1, hl.2.1]; omega
  rw [e]
  simp [Spec.octets, Spec.body, C05.Spec.octets]

/-- the CRC trailer is the CRC-16 of all preceding octets: residue zero over the packed PDU -/
theorem C07_crc_valid (x : Pdu) (hc : x.header.conf.crcFlag = 1) : Crc.crc16 (Spec.octets x) = 0 := by
  simp [Spec.octets, Spec.trailer, hc, Crc.crc16_residue]

/-! ## constructor -/

/-- the constructor accepts every configuration and parameter set of the domain whose data-field
    length fits 16 bits, stores the params unchanged and yields PDU type File Data, direction
    towards the receiver, the flag in step with the metadata and the right data-field length -/
theorem C07_new (c : PduConfig) (ps : Params) (wc : WFConf c)
    (hlen : (Spec.header c ps).dataFieldLen ≤ 65535) :
    Pdu.new c ps = .ok ⟨Spec.header c ps, ps⟩ := by
  obtain ⟨_, _, _, _, _, _, _, _, hw⟩ := wc
  unfold Pdu.new
  have g : ¬ (65535 < 0 ∨ ({ c with direction := 0 } : PduConfig).source.width ≠
      ({ c with direction := 0 } : PduConfig).dest.width) := by simp; omega
  simp only [new_eq, if_neg g, bind, Except.bind]
  rw [recalc_ok]
  · rfl
  · exact hlen

/-- … and that object is in the domain when offset and metadata are -/
theorem C07_new_wf (c : PduConfig) (ps : Params) (wc : WFConf c)
    (hlen : (Spec.header c ps).dataFieldLen ≤ 65535)
    (hoff : ps.offset < 256 ^ (if c.fileFlag = 1 then 8 else 4)) (hm : WFMeta ps.segMeta) :
    WF ⟨Spec.header c ps, ps⟩ := by
  obtain ⟨_, h2, h3, h4, h5, h6, h7, h8, hw⟩ := wc
  refine ⟨?_, rfl, rfl, ?_, hm⟩
  · refine ⟨by show (1 : Nat) < 2; omega, by show (0 : Nat) < 2; omega, h2, h3, h4, h5, ?_, by simp only [Spec.header] at hlen ⊢; omega,
      h6, h7, h8, hw⟩
    simp only [Spec.header, metaFlag]; split <;> omega
  · rw [offWidth_eq]; exact hoff

/-- file data (with metadata, offset and CRC) beyond what the 16-bit length field can describe is
    refused with `ValueError`, as are source / destination IDs of different widths -/
theorem C07_new_refuse (c : PduConfig) (ps : Params)
    (h : 65535 < (Spec.header c ps).dataFieldLen ∨ c.source.width ≠ c.dest.width) :
    Pdu.new c ps = .error .value := by
  unfold Pdu.new
  simp only [new_eq, bind, Except.bind]
  by_cases hw : c.source.width = c.dest.width
  · have g : ¬ (65535 < 0 ∨ ({ c with direction := 0 } : PduConfig).source.width ≠
        ({ c with direction := 0 } : PduConfig).dest.width) := by simp; omega
    rw [if_neg g]
    apply recalc_refuse
    rcases h with h | h
    · exact h
    · exact absurd hw h
  · have g : (65535 < 0 ∨ ({ c with direction := 0 } : PduConfig).source.width ≠
        ({ c with direction := 0 } : PduConfig).dest.width) := Or.inr hw
    rw [if_pos g]

/-! ## decode -/

private theorem octets_split (x : Pdu) (rest : Bytes) :
    Spec.octets x ++ rest = C05.Spec.octets x.header ++ (Spec.meta x.params.segMeta
      ++ beBytes (offWidth x.header) x.params.offset ++ x.params.fileData ++ Spec.trailer x ++ rest) := by
  simp [Spec.octets, Spec.body]

private theorem body_drop (x : Pdu) (wh : C05.WF x.header) :
    (Spec.body x).drop x.header.headerLen =
      Spec.meta x.params.segMeta ++ (beBytes (offWidth x.header) x.params.offset ++ x.params.fileData) := by
  have hl := (C05.C05_len x.header wh).2.1
  unfold Spec.body
  rw [List.append_assoc, List.append_assoc, List.drop_left' hl.symm]

/-- the body decoder on the prescribed body gives the object back -/
private theorem parseBody_spec (x : Pdu) (wf : WF x) : parseBody x.header (Spec.body x) = .ok x := by
  obtain ⟨wh, hflag, hdfl, hoff, hmeta⟩ := wf
  have hd := body_drop x wh
  have hn : x.header.dataFieldLen < 65536 := wh.2.2.2.2.2.2.2.1
  have hw : (beBytes (offWidth x.header) x.params.offset).length = offWidth x.header := beBytes_length _ _
  obtain ⟨h, ⟨fd, off, sm⟩⟩ := x
  simp only at *
  cases sm with
  | none =>
    have hm : h.segMeta = 0 := by rw [hflag]; rfl
    simp only [Spec.meta, List.nil_append] at hd
    rw [parseBody_none _ hm, hd]
    have g : ¬ (beBytes (offWidth h) off ++ fd).length < offWidth h := by
      simp only [List.length_append, hw]; omega
    rw [if_neg g, List.take_left' hw, List.drop_left' hw, beNat_beBytes _ _ hoff]
    rw [recalc_ok (by rw [← hdfl]; omega), ← hdfl]
  | some m =>
    obtain ⟨hs, hl⟩ := hmeta
    have hm : h.segMeta ≠ 0 := by rw [hflag]; simp [metaFlag]
    have hm1 : h.segMeta = 1 := by rw [hflag]; rfl
    simp only [Spec.meta, List.cons_append] at hd
    rw [parseBody_some _ hm, hd]
    have A := ar_meta m.state m.metadata.length hs hl
    simp only [u8_toNat, A.1, A.2]
    have g1 : ¬ (m.metadata ++ (beBytes (offWidth h) off ++ fd)).length ≤ m.metadata.length := by
      simp only [List.length_append, hw]; have := offWidth_pos h; omega
    have t1 : (m.metadata ++ (beBytes (offWidth h) off ++ fd)).take m.metadata.length = m.metadata :=
      List.take_left' rfl
    have d1 : (m.metadata ++ (beBytes (offWidth h) off ++ fd)).drop m.metadata.length
        = beBytes (offWidth h) off ++ fd := List.drop_left' rfl
    have g2 : ¬ (beBytes (offWidth h) off ++ fd).length < offWidth h := by
      simp only [List.length_append, hw]; omega
    rw [if_neg g1, d1, if_neg g2, t1, List.take_left' hw, List.drop_left' hw, beNat_beBytes _ _ hoff]
    have hc : (Pdu.mk { h with segMeta := 1 } ⟨fd, off, some ⟨m.state, m.metadata⟩⟩).calcLen
        = (Pdu.mk h ⟨fd, off, some m⟩).calcLen := rfl
    rw [recalc_ok (by rw [hc, ← hdfl]; omega), hc, ← hdfl]
    cases h
    simp only at hm1
    subst hm1
    rfl

/-- **decode ∘ encode = id**: every member of the domain — every header configuration (widths,
    CRC on/off, 32/64-bit offset, segmentation control, mode), every offset, every file data string
    including the empty one, metadata absent or present with 0..63 octets and any of the four
    record-continuation states — is decoded to exactly the same object, whatever octets follow the
    PDU in the buffer; in particular the file data comes back octet for octet, without the CRC
    trailer and without anything that follows -/
theorem C07_roundtrip (x : Pdu) (wf : WF x) (rest : Bytes) :
    Pdu.unpack (Spec.octets x ++ rest) = .ok x := by
  have wh := wf.1
  have hu : PduHeader.unpack (Spec.octets x ++ rest) = .ok x.header := by
    rw [octets_split]; exact C05.C05_roundtrip x.header wh _
  have hlen : (Spec.octets x).length = x.header.packetLen := (C07_len x wf).1
  have hbl : (Spec.body x).length = x.header.packetLen - crcLen x.header := by
    have := trailer_length x
    simp only [Spec.octets, List.length_append] at hlen
    omega
  rw [unpack_of_header hu]
  have g1 : ¬ (Spec.octets x ++ rest).length < x.header.packetLen := by
    simp only [List.length_append]; omega
  have t1 : (Spec.octets x ++ rest).take x.header.packetLen = Spec.octets x := List.take_left' hlen
  have g2 : ¬ (x.header.conf.crcFlag = 1 ∧ Crc.crc16 (Spec.octets x) ≠ 0) := by
    rintro ⟨hc, hz⟩
    exact hz (C07_crc_valid x hc)
  have t2 : (Spec.octets x ++ rest).take (x.header.packetLen - crcLen x.header) = Spec.body x := by
    unfold Spec.octets
    rw [List.append_assoc]
    exact List.take_left' hbl
  rw [if_neg g1, t1, if_neg g2, t2]
  exact parseBody_spec x wf

/-- pack and unpack composed -/
theorem C07_unpack_pack (x : Pdu) (wf : WF x) (rest : Bytes) :
    (x.pack >>= fun b => Pdu.unpack (b ++ rest)) = .ok x := by
  rw [C07_pack_exact x wf]; exact C07_roundtrip x wf rest

/-- the decoded PDU re-packs to the same octets … -/
theorem C07_repack (x : Pdu) (wf : WF x) (rest : Bytes) :
    (Pdu.unpack (Spec.octets x ++ rest) >>= Pdu.pack) = .ok (Spec.octets x) := by
  rw [C07_roundtrip x wf rest]; exact C07_pack_exact x wf

/-- … and is equal to the original under the library's `==` -/
theorem C07_eq (x : Pdu) (wf : WF x) (rest : Bytes) :
    (Pdu.unpack (Spec.octets x ++ rest)).map (fun y => y.beq x && x.beq y) = .ok true := by
  rw [C07_roundtrip x wf rest]
  simp [Except.map, Pdu.beq, hdrBeq]

/-- the decoded file data is the packed file data: the two CRC octets and the octets after the PDU
    are never part of it (explicit form of the clause "not one octet more or fewer") -/
theorem C07_file_data_exact (x : Pdu) (wf : WF x) (rest : Bytes) :
    (Pdu.unpack (Spec.body x ++ Spec.trailer x ++ rest)).map (fun y => (y.params.fileData, y.params.offset, y.params.segMeta))
      = .ok (x.params.fileData, x.params.offset, x.params.segMeta) := by
  have := C07_roundtrip x wf rest
  unfold Spec.octets at this
  rw [this]; rfl

/-- packed PDUs of the domain are the same octets only if they are the same PDU -/
theorem C07_pack_injective (x y : Pdu) (wx : WF x) (wy : WF y) (h : Spec.octets x = Spec.octets y) : x = y := by
  have r1 := C07_roundtrip x wx []
  have r2 := C07_roundtrip y wy []
  rw [h, r2] at r1
  cases r1; rfl

/-! ## refusals -/

/-- **segment metadata longer than 63 octets is refused** (`ValueError`), whatever else the object holds -/
theorem C07_refuse_metadata (x : Pdu) (m : SegMeta) (hm : x.params.segMeta = some m)
    (hl : 63 < m.metadata.length) : x.pack = .error .value := by
  unfold Pdu.pack Pdu.packBody
  cases hh : x.header.pack with
  | error e =>
    have := header_pack_error _ _ hh
    subst this
    simp [bind, Except.bind]
  | ok hdr =>
    simp only [hm, packMeta_some, if_pos hl, bind, Except.bind]

/-- a record-continuation state that does not fit two bits cannot be packed either (`ValueError`
    from `bytearray.append`) -/
theorem C07_refuse_state (x : Pdu) (m : SegMeta) (hm : x.params.segMeta = some m)
    (hs : 4 ≤ m.state) : x.pack = .error .value := by
  unfold Pdu.pack Pdu.packBody
  cases hh : x.header.pack with
  | error e =>
    have := header_pack_error _ _ hh
    subst this
    simp [bind, Except.bind]
  | ok hdr =>
    simp only [hm, packMeta_some, bind, Except.bind]
    by_cases h63 : 63 < m.metadata.length
    · rw [if_pos h63]
    · rw [if_neg h63, if_neg (by omega)]

/-- an offset that does not fit the 32 (64) bits the large-file flag selects makes `pack` fail
    (`struct.error`); it is never encoded truncated -/
theorem C07_offset_overflow (x : Pdu) (wh : C05.WF x.header) (wm : WFMeta x.params.segMeta)
    (ho : 256 ^ offWidth x.header ≤ x.params.offset) : x.pack = .error .struct := by
  unfold Pdu.pack Pdu.packBody
  have : ¬ x.params.offset < 256 ^ offWidth x.header := by omega
  simp [C05.C05_pack_exact x.header wh, packMeta_spec _ wm, packBE, this, bind, Except.bind]

/-- every strict prefix of a packed PDU is refused with `ValueError` (too short) -/
theorem C07_truncated (x : Pdu) (wf : WF x) (k : Nat) (hk : k < x.packetLen) :
    Pdu.unpack ((Spec.octets x).take k) = .error .value := by
  have wh := wf.1
  have hlen : (Spec.octets x).length = x.header.packetLen := (C07_len x wf).1
  have hH := (C05.C05_len x.header wh).2.1
  by_cases hk' : k < x.header.headerLen
  · apply unpack_header_error
    have e : (Spec.octets x).take k = (C05.Spec.octets x.header).take k := by
      have := octets_split x []
      simp only [List.append_nil] at this
      rw [this]
      exact List.take_append_of_le_length (by omega)
    rw [e]
    exact C05.C05_truncated x.header wh k hk'
  · have e : (Spec.octets x).take k = C05.Spec.octets x.header ++
        ((Spec.octets x).drop x.header.headerLen).take (k - x.header.headerLen) := by
      have hs := octets_split x []
      simp only [List.append_nil] at hs
      rw [hs, List.take_append, List.drop_left' hH.symm, List.take_of_length_le (by omega)]
      rw [← hH]
    have hu : PduHeader.unpack ((Spec.octets x).take k) = .ok x.header := by
      rw [e]; exact C05.C05_roundtrip x.header wh _
    rw [unpack_of_header hu, if_pos]
    simp only [List.length_take, Pdu.packetLen] at hk ⊢
    omega

/-! ## what acceptance guarantees, for every octet string -/

/-- any octet string: the decoder returns a PDU or fails with `ValueError`,
    `UnsupportedCfdpVersion` or `InvalidCrc` — never IndexError / struct.error (C10) -/
theorem C07_documented (d : Bytes) : Documented (Pdu.unpack d) := unpack_documented d

theorem C07_unpack_errors (d : Bytes) (e : Err) (h : Pdu.unpack d = .error e) :
    e = .value ∨ e = .cfdpVersion ∨ e = .crc := unpack_error d e h

/-- octets after the declared PDU are never read: a buffer that holds the declared PDU is decoded
    exactly as that PDU alone, whatever follows (C09; the decoder does not refuse trailing octets) -/
theorem C07_prefix (d : Bytes) (h : PduHeader) (hu : PduHeader.unpack d = .ok h)
    (hl : h.packetLen ≤ d.length) (rest : Bytes) :
    Pdu.unpack (d ++ rest) = Pdu.unpack d ∧ Pdu.unpack (d.take h.packetLen) = Pdu.unpack d := by
  have hp := C05.C05_unpack_prefix d h hu
  have hhl : h.headerLen ≤ h.packetLen := by unfold PduHeader.packetLen; omega
  constructor
  · exact unpack_append hu hl rest (header_unpack_append rest (hp _))
  · have e : d = d.take h.packetLen ++ d.drop h.packetLen := (List.take_append_drop _ _).symm
    have hu2 : PduHeader.unpack (d.take h.packetLen) = .ok h := by
      have := hp ((d.take h.packetLen).drop h.headerLen)
      have e2 : d.take h.headerLen = (d.take h.packetLen).take h.headerLen := by
        rw [List.take_take, Nat.min_eq_left hhl]
      rw [e2, List.take_append_drop] at this
      exact this
    have hl2 : h.packetLen ≤ (d.take h.packetLen).length := by simp; omega
    have := unpack_append hu2 hl2 (d.drop h.packetLen) (by rw [← e]; exact hu)
    rw [← e] at this
    exact this.symm

/-- acceptance implies: the declared PDU lies inside the buffer and, with the CRC flag, the CRC-16
    over exactly the declared PDU is zero (C04) -/
theorem C07_accept_sound (d : Bytes) (x : Pdu) (hx : Pdu.unpack d = .ok x) :
    ∃ h, PduHeader.unpack d = .ok h ∧ h.packetLen ≤ d.length ∧
      (h.conf.crcFlag = 1 → Crc.crc16 (d.take h.packetLen) = 0) ∧ x.header.conf = h.conf ∧
      x.header.pduType = h.pduType := by
  obtain ⟨h, hu, hl, hc, hb⟩ := unpack_accept_crc hx
  refine ⟨h, hu, hl, hc, ?_⟩
  by_cases hm : h.segMeta = 0
  · rw [parseBody_none _ hm] at hb
    split at hb
    · cases hb
    · rw [recalc_eq] at hb
      split at hb
      · cases hb
      · cases hb; exact ⟨rfl, rfl⟩
  · rw [parseBody_some _ hm] at hb
    split at hb
    · cases hb
    · split at hb
      · cases hb
      · split at hb
        · cases hb
        · rw [recalc_eq] at hb
          split at hb
          · cases hb
          · cases hb; exact ⟨rfl, rfl⟩

private theorem hdr_eta (h : PduHeader) : { h with dataFieldLen := h.dataFieldLen } = h := by cases h; rfl

/-- body ‖ the two octets that make the CRC residue zero = body ‖ CRC trailer -/
private theorem octets_of_body (x : Pdu) (d : Bytes) (hl : x.header.packetLen ≤ d.length)
    (hb : Spec.body x = d.take (x.header.packetLen - crcLen x.header))
    (hc : x.header.conf.crcFlag = 1 → Crc.crc16 (d.take x.header.packetLen) = 0) :
    Spec.octets x = d.take x.header.packetLen := by
  unfold Spec.octets Spec.trailer
  by_cases hf : x.header.conf.crcFlag = 1
  · rw [if_pos hf]
    have hcl : crcLen x.header = 2 := by simp [crcLen, hf]
    rw [hcl] at hb
    have h4 := packetLen_ge x.header
    have hEl : (d.take x.header.packetLen).length = x.header.packetLen := by simp; omega
    have e1 : d.take x.header.packetLen = (d.take x.header.packetLen).take (x.header.packetLen - 2)
        ++ (d.take x.header.packetLen).drop (x.header.packetLen - 2) := (List.take_append_drop _ _).symm
    have e2 : (d.take x.header.packetLen).take (x.header.packetLen - 2) = d.take (x.header.packetLen - 2) := by
      rw [List.take_take]; congr 1; omega
    obtain ⟨a, b, hab⟩ : ∃ a b, (d.take x.header.packetLen).drop (x.header.packetLen - 2) = [a, b] := by
      have : ((d.take x.header.packetLen).drop (x.header.packetLen - 2)).length = 2 := by
        rw [List.length_drop, hEl]; omega
      match (d.take x.header.packetLen).drop (x.header.packetLen - 2), this with
      | [a, b], _ => exact ⟨a, b, rfl⟩
    have hz := hc hf
    rw [e1, e2, hab, ← hb] at hz
    have hu := Crc.crc16_trailer_unique _ _ _ hz
    rw [← hu, e1, e2, hab, ← hb]
  · rw [if_neg hf]
    have hcl : crcLen x.header = 0 := by simp [crcLen, hf]
    rw [hcl] at hb
    simpa using hb

/-- **encode ∘ decode = identity on the declared PDU**: whenever the decoder accepts an octet
    string whatever, the result is in the domain, its header is what the header decoder gives, the
    declared PDU lies inside the buffer, and re-packing gives exactly the first `packet_len` octets
    of the buffer — file data, offset and metadata are those octets, not one more or fewer
    (with `C07_roundtrip`: a bijection between the domain and the accepted PDUs) -/
theorem C07_decode_encode (d : Bytes) (x : Pdu) (hx : Pdu.unpack d = .ok x) :
    WF x ∧ x.packetLen ≤ d.length ∧ x.pack = .ok (d.take x.packetLen) ∧
    PduHeader.unpack d = .ok x.header := by
  obtain ⟨h, hu, hl, hc, hb⟩ := unpack_accept_crc hx
  obtain ⟨wh, hhl, hpk⟩ := C05.C05_decode_encode d h hu
  rw [C05.C05_pack_exact h wh] at hpk
  have hH : C05.Spec.octets h = d.take h.headerLen := Except.ok.inj hpk
  have hn : h.dataFieldLen < 65536 := wh.2.2.2.2.2.2.2.1
  have hm2 : h.segMeta < 2 := wh.2.2.2.2.2.2.1
  have hcl := crcLen_le h
  have hw := offWidth_pos h
  have hpl : h.packetLen = h.dataFieldLen + h.headerLen := rfl
  have htl : ((d.take (h.packetLen - crcLen h)).drop h.headerLen).length
      = h.packetLen - crcLen h - h.headerLen := by
    rw [List.length_drop, List.length_take]; omega
  have hDt : h.headerLen ≤ h.packetLen - crcLen h →
      d.take h.headerLen = (d.take (h.packetLen - crcLen h)).take h.headerLen := by
    intro hle; rw [List.take_take]; congr 1; omega
  suffices hs : x.header = h ∧ WF x ∧ (h.headerLen ≤ h.packetLen - crcLen h) ∧
      Spec.body x = d.take (h.packetLen - crcLen h) by
    obtain ⟨e, wf, _, hbody⟩ := hs
    have e' : x.packetLen = h.packetLen := by unfold Pdu.packetLen; rw [e]
    refine ⟨wf, by omega, ?_, by rw [e]; exact hu⟩
    rw [C07_pack_exact x wf, e']
    congr 1
    have := octets_of_body x d (by rw [e]; exact hl) (by rw [e]; exact hbody) (by rw [e]; exact hc)
    rw [e] at this
    exact this
  generalize ht : (d.take (h.packetLen - crcLen h)).drop h.headerLen = t at htl
  by_cases hm : h.segMeta = 0
  · rw [parseBody_none _ hm, ht] at hb
    by_cases g : t.length < offWidth h
    · rw [if_pos g] at hb; cases hb
    · rw [if_neg g, recalc_eq] at hb
      have hcalc : (Pdu.mk h ⟨t.drop (offWidth h), beNat (t.take (offWidth h)), none⟩).calcLen = h.dataFieldLen := by
        simp only [calcLen_eq, metaLen, List.length_drop]
        omega
      rw [hcalc, if_neg (by omega), hdr_eta h] at hb
      have := Except.ok.inj hb
      subst this
      have htk : (t.take (offWidth h)).length = offWidth h := by rw [List.length_take]; omega
      have hbe := beBytes_beNat (t.take (offWidth h))
      rw [htk] at hbe
      refine ⟨rfl, ⟨wh, by rw [hm]; rfl, hcalc.symm, ?_, trivial⟩, by omega, ?_⟩
      · have := beNat_lt (t.take (offWidth h)); rw [htk] at this; exact this
      · simp only [Spec.body, Spec.meta, List.append_nil, hbe, hH]
        rw [List.append_assoc, List.take_append_drop, ← ht, hDt (by omega), List.take_append_drop]
  · have hm1 : h.segMeta = 1 := by omega
    rw [parseBody_some _ hm, ht] at hb
    cases t with
    | nil => cases hb
    | cons b t' =>
      simp only at hb
      simp only [List.length_cons] at htl
      by_cases g1 : t'.length ≤ b.toNat % 64
      · rw [if_pos g1] at hb; cases hb
      · rw [if_neg g1] at hb
        by_cases g2 : (t'.drop (b.toNat % 64)).length < offWidth h
        · rw [if_pos g2] at hb; cases hb
        · rw [if_neg g2, recalc_eq] at hb
          have hseg : ({ h with segMeta := 1 } : PduHeader) = h := by cases h; simp only at hm1; subst hm1; rfl
          rw [hseg] at hb
          have hml : b.toNat % 64 < 64 := Nat.mod_lt _ (by omega)
          have htk0 : (t'.take (b.toNat % 64)).length = b.toNat % 64 := by rw [List.length_take]; omega
          rw [List.length_drop] at g2
          have hcalc : (Pdu.mk h ⟨(t'.drop (b.toNat % 64)).drop (offWidth h),
              beNat ((t'.drop (b.toNat % 64)).take (offWidth h)),
              some ⟨b.toNat / 64 % 4, t'.take (b.toNat % 64)⟩⟩).calcLen = h.dataFieldLen := by
            simp only [calcLen_eq, metaLen, List.length_drop, htk0]
            omega
          rw [hcalc, if_neg (by omega), hdr_eta h] at hb
          have := Except.ok.inj hb
          subst this
          have htk : ((t'.drop (b.toNat % 64)).take (offWidth h)).length = offWidth h := by
            rw [List.length_take, List.length_drop]; omega
          have hbe := beBytes_beNat ((t'.drop (b.toNat % 64)).take (offWidth h))
          rw [htk] at hbe
          have hst : b.toNat / 64 % 4 < 4 := Nat.mod_lt _ (by omega)
          refine ⟨rfl, ⟨wh, by rw [hm1]; rfl, hcalc.symm, ?_, ⟨hst, by simp only [htk0]; omega⟩⟩, by omega, ?_⟩
          · have := beNat_lt ((t'.drop (b.toNat % 64)).take (offWidth h)); rw [htk] at this; exact this
          · simp only [Spec.body, Spec.meta, htk0, ar_meta_inv _ (toNat_lt b), u8_toNat_self, hbe, hH]
            rw [List.append_assoc, List.append_assoc, List.take_append_drop, List.cons_append,
              List.take_append_drop, ← ht, hDt (by omega), List.take_append_drop]

/-- the decoded file data, offset and metadata are functions of the declared PDU without its CRC
    trailer only (C09 "no fold"): nothing after `packet_len - crc` is ever part of them -/
theorem C07_no_fold (d : Bytes) (x : Pdu) (hx : Pdu.unpack d = .ok x) :
    Spec.body x = d.take (x.packetLen - crcLen x.header) := by
  obtain ⟨wf, hl, hp, _⟩ := C07_decode_encode d x hx
  rw [C07_pack_exact x wf] at hp
  have ho : Spec.octets x = d.take x.packetLen := Except.ok.inj hp
  have hbl : (Spec.body x).length = x.packetLen - crcLen x.header := by
    have h1 := (C07_len x wf).1
    have h2 := trailer_length x
    simp only [Spec.octets, List.length_append] at h1
    omega
  have : (Spec.octets x).take (x.packetLen - crcLen x.header) = Spec.body x := by
    unfold Spec.octets; exact List.take_left' hbl
  rw [← this, ho, List.take_take]
  congr 1
  omega

/-! ## maximum file segment length -/

/-- `get_max_file_seg_len…`: what is left of `max_packet_len` after header, metadata, offset and
    CRC; `ValueError` when not even the base packet fits -/
theorem C07_max_seg (c : PduConfig) (n : Nat) (m : Option SegMeta) :
    maxFileSegLen c (n : Int) m =
      if n < c.headerLen + metaLen m + (if c.fileFlag = 1 then 8 else 4) + (if c.crcFlag = 1 then 2 else 0)
      then .error .value
      else .ok (n - (c.headerLen + metaLen m + (if c.fileFlag = 1 then 8 else 4) + (if c.crcFlag = 1 then 2 else 0))) := by
  unfold maxFileSegLen
  simp only
  generalize c.headerLen + metaLen m + (if c.fileFlag = 1 then 8 else 4) + (if c.crcFlag = 1 then 2 else 0) = s
  by_cases h : n < s
  · have : (n : Int) < (s : Int) := by omega
    simp [h, this]
  · have : ¬ (n : Int) < (s : Int) := by omega
    simp only [h, this, ↓reduceIte]
    congr 1
    omega

theorem C07_max_seg_negative (c : PduConfig) (v : Int) (m : Option SegMeta) (hv : v < 0) :
    maxFileSegLen c v m = .error .value := by
  unfold maxFileSegLen
  simp only
  rw [if_pos (by omega)]

/-- a segment of the reported maximum size packs to exactly `max_packet_len` octets, and one more
    octet would exceed it -/
theorem C07_max_seg_fits (x : Pdu) (wf : WF x) (n k : Nat)
    (hk : maxFileSegLen x.header.conf (n : Int) x.params.segMeta = .ok k)
    (hd : x.params.fileData.length = k) : (Spec.octets x).length = n := by
  obtain ⟨wh, _, hdfl, _, _⟩ := id wf
  have hl := C07_len x wf
  have hc := (C05.C05_len x.header wh).2
  rw [C07_max_seg] at hk
  have e1 : x.header.conf.headerLen = x.header.headerLen := by rw [hc.1, hc.2]
  rw [hl.1, hl.2.1, hl.2.2, hd]
  rw [offWidth_eq]
  rw [e1] at hk
  generalize (if x.header.conf.crcFlag = 1 then 2 else 0) = cr at hk ⊢
  generalize (if x.header.conf.fileFlag = 1 then 8 else 4) = ow at hk ⊢
  by_cases g : n < x.header.headerLen + metaLen x.params.segMeta + ow + cr
  · rw [if_pos g] at hk; cases hk
  · rw [if_neg g] at hk
    have := Except.ok.inj hk
    omega

/-! ## setters (state transitions; reused by C11) -/

/-- the cached length and the flag agree with the params -/
def Consistent (x : Pdu) : Prop :=
  x.header.dataFieldLen = x.calcLen ∧ x.header.segMeta = metaFlag x.params.segMeta

instance (x : Pdu) : Decidable (Consistent x) := by unfold Consistent; infer_instance

/-- a setter is refused (`ValueError`) exactly when the new data-field length exceeds 16 bits, and
    then the object is **unchanged** (the setter restores the old attribute; the header flag and the
    cached length were never touched); when it is accepted only the assigned attribute, the flag and
    the length change -/
theorem C07_step (x : Pdu) (s : Setter) :
    x.step s = if 65535 < (x.put s).calcLen then (x, some .value)
      else ({ x.put s with header := { (x.put s).header with dataFieldLen := (x.put s).calcLen } }, none) := by
  unfold Pdu.step
  rw [recalc_eq]
  by_cases g : 65535 < (x.put s).calcLen
  · rw [if_pos g, if_pos g]
  · rw [if_neg g, if_neg g]

/-- **refused → state unchanged**: a setter call that raises leaves exactly the object it was
    called on (params, header flag, cached length), the exception is `ValueError`, and the reason
    is the 16-bit length limit -/
theorem C07_step_refused (x : Pdu) (s : Setter) (h : (x.step s).2 ≠ none) :
    (x.step s).1 = x ∧ (x.step s).2 = some .value ∧ 65535 < (x.put s).calcLen := by
  rw [C07_step] at h ⊢
  split
  · rename_i g; exact ⟨rfl, rfl, g⟩
  · rename_i g; rw [if_neg g] at h; exact absurd rfl h

/-- a setter call is accepted exactly when the new data-field length fits 16 bits -/
theorem C07_step_accepted_iff (x : Pdu) (s : Setter) :
    (x.step s).2 = none ↔ (x.put s).calcLen ≤ 65535 := by
  rw [C07_step]
  split
  · rename_i g; exact ⟨fun h => (by cases h), fun h => (by omega)⟩
  · rename_i g; exact ⟨fun _ => (by omega), fun _ => rfl⟩

/-- every accepted setter call leaves a consistent object, whatever the cached length was before;
    the flag is kept in step by the metadata setter itself -/
theorem C07_step_consistent (x : Pdu) (s : Setter) (hflag : x.header.segMeta = metaFlag x.params.segMeta)
    (h : (x.step s).2 = none) : Consistent (x.step s).1 := by
  rw [C07_step] at h ⊢
  split at h
  · cases h
  · rename_i g
    rw [if_neg g]
    cases s with
    | fileData d => exact ⟨rfl, hflag⟩
    | segMeta m => exact ⟨rfl, rfl⟩

/-- consistency is an invariant of every setter call, accepted or refused -/
theorem C07_step_inv (x : Pdu) (s : Setter) (hx : Consistent x) : Consistent (x.step s).1 := by
  by_cases h : (x.step s).2 = none
  · exact C07_step_consistent x s hx.2 h
  · rw [(C07_step_refused x s h).1]; exact hx

/-- a refused call in a sequence is skipped: the sequence continues from the unchanged state -/
theorem C07_run_refused (x : Pdu) (s : Setter) (l : List Setter) (h : (x.step s).2 ≠ none) :
    x.run (s :: l) = x.run l ∧ x.trace (s :: l) = (x, some .value) :: x.trace l := by
  obtain ⟨h1, h2, _⟩ := C07_step_refused x s h
  refine ⟨?_, ?_⟩
  · simp only [Pdu.run, List.foldl_cons, h1]
  · have : x.step s = (x, some .value) := Prod.ext h1 h2
    simp only [Pdu.trace, this]

/-- after a whole sequence of setter calls — accepted or refused, in any mixture — the object is
    consistent: reported length = packed length (`C07_consistent_pack_len`) survives refusals -/
theorem C07_run_consistent (x : Pdu) (l : List Setter) (hx : Consistent x) : Consistent (x.run l) := by
  induction l generalizing x with
  | nil => exact hx
  | cons s rest ih =>
    simp only [Pdu.run, List.foldl_cons]
    exact ih _ (C07_step_inv x s hx)

/-- every state in the trace of a sequence is consistent, and each refused entry carries the state
    before the call -/
theorem C07_trace_consistent (x : Pdu) (l : List Setter) (hx : Consistent x) :
    ∀ p ∈ x.trace l, Consistent p.1 := by
  induction l generalizing x with
  | nil => intro p hp; cases hp
  | cons s rest ih =>
    intro p hp
    simp only [Pdu.trace, List.mem_cons] at hp
    rcases hp with rfl | hp
    · exact C07_step_inv x s hx
    · exact ih _ (C07_step_inv x s hx) p hp

/-- setters never touch the configuration or the PDU type -/
theorem C07_run_conf (x : Pdu) (l : List Setter) :
    (x.run l).header.conf = x.header.conf ∧ (x.run l).header.pduType = x.header.pduType := by
  induction l generalizing x with
  | nil => exact ⟨rfl, rfl⟩
  | cons s rest ih =>
    simp only [Pdu.run, List.foldl_cons]
    have h1 := ih (x.step s).1
    simp only [Pdu.run] at h1
    rw [h1.1, h1.2, C07_step]
    split
    · exact ⟨rfl, rfl⟩
    · cases s <;> exact ⟨rfl, rfl⟩

/-- a consistent object is determined by its configuration, PDU type and params: after any setter
    sequence it is the object a fresh construction with the final values gives -/
theorem C07_fresh (a b : Pdu) (ha : Consistent a) (hb : Consistent b)
    (hc : a.header.conf = b.header.conf) (ht : a.header.pduType = b.header.pduType)
    (hp : a.params = b.params) : a = b := by
  obtain ⟨⟨t1, m1, n1, c1⟩, p1⟩ := a
  obtain ⟨⟨t2, m2, n2, c2⟩, p2⟩ := b
  obtain ⟨h1, h2⟩ := ha
  obtain ⟨h3, h4⟩ := hb
  simp only at hc ht hp h1 h2 h3 h4
  subst hc ht hp
  subst h2 h4
  have : n1 = n2 := by rw [h1, h3]; rfl
  subst this
  rfl

/-- **reported length = packed length** for every consistent object that packs at all (in
    particular after any sequence of accepted setter calls), and the length octets say so -/
theorem C07_consistent_pack_len (x : Pdu) (hx : Consistent x)
    (hw : x.header.conf.dest.width = x.header.conf.source.width) (b : Bytes) (hp : x.pack = .ok b) :
    b.length = x.packetLen ∧
    (b.drop 1).take 2 = [u8 (x.header.dataFieldLen / 256 % 256), u8 (x.header.dataFieldLen % 256)] := by
  unfold Pdu.pack Pdu.packBody at hp
  cases hh : x.header.pack with
  | error e => simp [hh, bind, Except.bind] at hp
  | ok hdr =>
    cases hm : packMeta x.params.segMeta with
    | error e => simp [hh, hm, bind, Except.bind] at hp
    | ok md =>
      cases ho : packBE (offWidth x.header) x.params.offset with
      | error e => simp [hh, hm, ho, bind, Except.bind] at hp
      | ok off =>
        simp only [hh, hm, ho, bind, Except.bind, pure, Except.pure] at hp
        have hhl : hdr.length = x.header.headerLen ∧
            (hdr.drop 1).take 2 = [u8 (x.header.dataFieldLen / 256 % 256), u8 (x.header.dataFieldLen % 256)] := by
          unfold PduHeader.pack at hh
          cases h0 : byteOfN (32 + x.header.pduType * 16 + x.header.conf.direction * 8 + x.header.conf.transMode * 4
                      + x.header.conf.crcFlag * 2 + x.header.conf.fileFlag) with
          | error e0 => simp [h0, bind, Except.bind] at hh
          | ok b0 =>
            simp only [h0, bind, Except.bind] at hh
            by_cases hz : x.header.conf.source.width = 0 ∨ x.header.conf.seqNum.width = 0
            · simp [hz, throw, throwThe, MonadExceptOf.throw] at hh
            · simp only [hz, ↓reduceIte, pure, Except.pure] at hh
              cases h3 : byteOfN (x.header.conf.segCtrl * 128 + (x.header.conf.source.width - 1) * 16
                  + x.header.segMeta * 8 + (x.header.conf.seqNum.width - 1)) with
              | error e3 => simp [h3] at hh
              | ok b3 =>
                simp only [h3] at hh
                have := Except.ok.inj hh
                subst this
                constructor
                · simp only [List.length_append, List.length_cons, List.length_nil, BF.bytes_length,
                    PduHeader.headerLen, hw]
                  omega
                · simp
        have hml : md.length = metaLen x.params.segMeta := by
          cases hs : x.params.segMeta with
          | none => rw [hs] at hm; cases hm; rfl
          | some m =>
            rw [hs, packMeta_some] at hm
            split at hm
            · cases hm
            · split at hm
              · cases hm; simp [metaLen]; omega
              · cases hm
        have hol : off.length = offWidth x.header := by
          unfold packBE at ho
          split at ho
          · cases ho; simp
          · cases ho
        have h4 := headerLen_ge x.header
        have hdr2 : ((hdr ++ md ++ off ++ x.params.fileData).drop 1).take 2 = (hdr.drop 1).take 2 := by
          rw [List.append_assoc, List.append_assoc, List.drop_append_of_le_length (by omega),
            List.take_append_of_le_length (by simp; omega)]
        have hdr3 : ∀ t : Bytes, ((hdr ++ md ++ off ++ x.params.fileData ++ t).drop 1).take 2 = (hdr.drop 1).take 2 := by
          intro t
          rw [List.append_assoc, List.append_assoc, List.append_assoc, List.drop_append_of_le_length (by omega),
            List.take_append_of_le_length (by simp; omega)]
        obtain ⟨hd, _⟩ := hx
        split at hp
        · have := Except.ok.inj hp
          subst this
          rename_i hc
          refine ⟨?_, by rw [hdr3, hhl.2]⟩
          simp only [List.length_append, Crc.crcTrailer, Crc.be16, List.length_cons, List.length_nil, hhl.1, hml,
            hol, Pdu.packetLen, PduHeader.packetLen, hd, calcLen_eq, crcLen, hc, ↓reduceIte]
          omega
        · have := Except.ok.inj hp
          subst this
          rename_i hc
          refine ⟨?_, by rw [hdr2, hhl.2]⟩
          simp only [List.length_append, hhl.1, hml, hol, Pdu.packetLen, PduHeader.packetLen, hd, calcLen_eq,
            crcLen, hc, ↓reduceIte]
          omega

/-- members of the domain are consistent, and an accepted setter with in-domain arguments stays in
    the domain (so `C07_pack_exact`, `C07_roundtrip` apply after any such sequence) -/
theorem C07_step_wf (x : Pdu) (wf : WF x) (s : Setter)
    (hs : match s with | .fileData _ => True | .segMeta m => WFMeta m)
    (hacc : (x.step s).2 = none) : WF (x.step s).1 ∧ (x.step s).1.params = (x.put s).params := by
  have hcons := C07_step_consistent x s wf.2.1 hacc
  rw [C07_step] at hacc hcons ⊢
  split at hacc
  · cases hacc
  · rename_i g
    rw [if_neg g] at hcons ⊢
    obtain ⟨⟨ht, hd, hm, hc, hl, hg, hsm, hn, hsrc, hseq, hdst, hdw⟩, hflag, hdfl, hoff, hmeta⟩ := wf
    refine ⟨⟨?_, hcons.2, hcons.1, ?_, ?_⟩, rfl⟩
    · cases s with
      | fileData d =>
        exact ⟨ht, hd, hm, hc, hl, hg, hsm, by simp only [Pdu.put, Pdu.putFileData] at g ⊢; omega,
          hsrc, hseq, hdst, hdw⟩
      | segMeta m =>
        refine ⟨ht, hd, hm, hc, hl, hg, ?_, by simp only [Pdu.put, Pdu.putSegMeta] at g ⊢; omega,
          hsrc, hseq, hdst, hdw⟩
        simp only [Pdu.put, Pdu.putSegMeta]; split <;> omega
    · cases s <;> exact hoff
    · cases s with
      | fileData d => exact hmeta
      | segMeta m => exact hs

/-- the domain is an invariant of every setter call with in-domain arguments, accepted or refused
    (a refused call leaves the object as it was) -/
theorem C07_step_wf_any (x : Pdu) (wf : WF x) (s : Setter)
    (hs : match s with | .fileData _ => True | .segMeta m => WFMeta m) : WF (x.step s).1 := by
  by_cases h : (x.step s).2 = none
  · exact (C07_step_wf x wf s hs h).1
  · rw [(C07_step_refused x s h).1]; exact wf

theorem C07_wf_consistent (x : Pdu) (wf : WF x) : Consistent x := ⟨wf.2.2.1, wf.2.1⟩

/-! ## non-vacuity -/

-- 8-octet IDs, 4-octet sequence number, CRC, large file, segmentation control, 3 octets of metadata
def exA : Pdu :=
  ⟨⟨1, 1, 1 + 3 + 8 + 2 + 2, ⟨⟨8, 0x0102030405060708⟩, ⟨8, 0xF1F2F3F4F5F6F7F8⟩, ⟨4, 0xA1A2A3A4⟩, 1, 1, 1, 0, 1⟩⟩,
   ⟨[0xDE, 0xAD], 0x1122334455667788, some ⟨3, [7, 8, 9]⟩⟩⟩
-- default configuration, empty file data, no metadata
def exB : Pdu := ⟨⟨1, 0, 4, ⟨⟨1, 0⟩, ⟨1, 0⟩, ⟨1, 0⟩, 0, 0, 0, 0, 0⟩⟩, ⟨[], 0xFFFFFFFF, none⟩⟩

example : WF exA := by decide
example : WF exB := by decide
example : Spec.body exA =
    [0x37, 0, 16, 0xFB, 1, 2, 3, 4, 5, 6, 7, 8, 0xA1, 0xA2, 0xA3, 0xA4, 0xF1, 0xF2, 0xF3, 0xF4, 0xF5, 0xF6, 0xF7, 0xF8,
     0xC3, 7, 8, 9, 0x11, 0x22, 0x33, 0x44, 0x55, 0x66, 0x77, 0x88, 0xDE, 0xAD] := by decide
example : Spec.octets exB = [0x30, 0, 4, 0x00, 0, 0, 0, 0xFF, 0xFF, 0xFF, 0xFF] := by decide
example : (Spec.octets exA).length = 40 := (C07_len exA (by decide)).1.trans (by decide)
example : WFConf ⟨⟨2, 513⟩, ⟨2, 7⟩, ⟨1, 9⟩, 1, 0, 1, 1, 0⟩ := by decide
-- refusals are not vacuous
example : (Pdu.mk exB.header ⟨[], 0, some ⟨0, List.replicate 64 0⟩⟩).pack = .error .value :=
  C07_refuse_metadata _ _ rfl (by decide)
example : Pdu.unpack [0x30, 0, 4, 0x00, 0, 0, 0, 0xFF, 0xFF, 0xFF] = .error .value :=
  C07_truncated exB (by decide) 10 (by decide)
example : maxFileSegLen PduConfig.default 10 none = .error .value := by rfl
example : maxFileSegLen PduConfig.default 64 none = .ok 53 := by rfl
example : exB.step (.fileData (List.replicate 65532 0)) = (exB, some .value) := by
  have h : 65535 < (exB.put (.fileData (List.replicate 65532 0))).calcLen := by
    simp only [Pdu.put, Pdu.putFileData, calcLen_eq, List.length_replicate, exB, metaLen]
    have := offWidth_pos ⟨1, 0, 4, ⟨⟨1, 0⟩, ⟨1, 0⟩, ⟨1, 0⟩, 0, 0, 0, 0, 0⟩⟩
    omega
  rw [C07_step, if_pos h]
-- the sequence continues after the refusal, from the unchanged object
example : exB.run [.fileData (List.replicate 65532 0), .fileData [1, 2]] = exB.run [.fileData [1, 2]] :=
  (C07_run_refused exB _ _ (by
    have h : 65535 < (exB.put (.fileData (List.replicate 65532 0))).calcLen := by
      simp only [Pdu.put, Pdu.putFileData, calcLen_eq, List.length_replicate, exB, metaLen]
      have := offWidth_pos ⟨1, 0, 4, ⟨⟨1, 0⟩, ⟨1, 0⟩, ⟨1, 0⟩, 0, 0, 0, 0, 0⟩⟩
      omega
    rw [C07_step, if_pos h]; exact fun h => by cases h)).1

end SpVerif.Props.C07
