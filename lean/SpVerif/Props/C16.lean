import SpVerif.Model.Verificator
import SpVerif.Proofs.Verificator
/-!
# C16 — The PUS verification tracker follows its state machine for every report history

Property theorems only. The implementation model is `Verificator.step` (a transcription of
`PusVerificator.add_tc / add_tm / remove_entry / remove_completed_entries`, the `if/elif` chain of
`_check_subservice` included); the documented state machine is `Verificator.Spec` (a per-field
transition table, see `Model/Verificator.lean`). A history is a `List Op`; the tracker is keyed by
the 32-bit request id. Step values are natural numbers (what `PacketFieldEnum.val` of a decoded or
constructed step id is).

All history theorems are by induction on the op list and hold for histories of every length, over
any number of telecommands, from `PusVerificator()` or from any tracker with unique keys (every
reachable tracker has unique keys, `C16_keys_unique`). "The entry of `r` survives the history"
(`Alive`) means: `r` is present after every call, i.e. it is the *same* registration throughout
(`C16_alive_iff` gives the prefix formulation).
-/
namespace SpVerif.Props.C16
open SpVerif SpVerif.Verificator

/-! ## Domain -/

/-- decidable well-formedness of a history: every report has a subservice in 1..8 and every step
    report (5, 6) carries a step id — what `Service1Tm` objects built with verification parameters
    or decoded from octets always satisfy -/
def WF (ops : List Op) : Bool := ops.all Op.WF

/-- non-vacuity: two telecommands interleaved, all eight reports, a duplicate registration, an
    unknown id, both ways of removing -/
def sample : List Op :=
  [.addTc 0x1801C000, .addTc 0x1802C001, .addTm 0x1801C000 1 none, .addTm 0x1802C001 2 none,
   .addTc 0x1801C000, .addTm 0x1801C000 3 none, .addTm 0x1801C000 5 (some 1), .addTm 0x1801C000 6 (some 2),
   .addTm 0x1801C000 5 (some 3), .addTm 0x77 7 none, .addTm 0x1801C000 4 none, .addTm 0x1801C000 8 none,
   .addTm 0x1801C000 7 none, .removeCompleted, .removeEntry 0x1801C000, .removeEntry 0x1801C000]

example : WF sample = true := by decide

example : (trace Tracker.empty (sample.take 13)).getLast? =
    some (.result ⟨true, .success, .failure, .failure, [1, 2, 3], .success⟩ true,
      [(0x1801C000, ⟨true, .success, .failure, .failure, [1, 2, 3], .success⟩),
       (0x1802C001, ⟨true, .failure, .unset, .unset, [], .unset⟩)]) := by decide

example : run Tracker.empty sample = [] := by decide

/-! ## Refinement: the implementation is the documented state machine -/

/-- **one call of the implementation = one call of the state machine**, on every tracker with
    unique keys, for every call in the domain -/
theorem C16_refines_step (t : Tracker) (hu : KeysUnique t) (o : Op) (wf : o.WF = true) :
    step t o = Spec.step t o := by
  cases o with
  | addTc r =>
    cases h : lookup t r with
    | none => simp [addTc_new h, Spec.step, h]
    | some s => simp [addTc_known h, Spec.step, h]
  | addTm r sub v =>
    cases h : lookup t r with
    | none => simp [addTm_unknown h, Spec.step, h]
    | some s =>
      simp only [Op.WF, Bool.and_eq_true, Bool.or_eq_true, decide_eq_true_eq, Bool.not_eq_true'] at wf
      obtain ⟨⟨h1, h8⟩, hv⟩ := wf
      have hv' : sub = 5 ∨ sub = 6 → v.isSome = true := by
        intro hs
        rcases hv with hv | hv
        · simp at hv; omega
        · exact hv
      rw [addTm_known h sub v h1 h8 hv']
      simp only [Spec.step, h]
      rw [set_eq_map hu h (fun x => Spec.report x sub v)]
  | removeEntry r =>
    cases h : lookup t r with
    | none =>
      rw [removeEntry_unknown h]
      have : erase t r = t := erase_of_not_mem h
      rw [erase_eq_filter hu] at this
      simp only [Spec.step, h, Option.isSome_none]
      rw [this]
    | some s =>
      rw [removeEntry_known h, erase_eq_filter hu]
      simp [Spec.step, h]
  | removeCompleted => rfl

private theorem refines_from (t : Tracker) (hu : KeysUnique t) (ops : List Op) (wf : WF ops = true) :
    trace t ops = Spec.trace t ops := by
  induction ops generalizing t with
  | nil => rfl
  | cons o os ih =>
    simp only [WF, List.all_cons, Bool.and_eq_true] at wf
    have h := C16_refines_step t hu o wf.1
    simp only [trace, Spec.trace]
    rw [← h, ih (step t o).1 (keysUnique_step hu o) (by simpa [WF] using wf.2)]

/-- **for every history in the domain, every answer and every intermediate dictionary of the
    implementation are those of the documented state machine** -/
theorem C16_refines (ops : List Op) (wf : WF ops = true) :
    trace Tracker.empty ops = Spec.trace Tracker.empty ops :=
  refines_from _ keysUnique_empty ops wf

/-- the `if/elif` chain of `_check_subservice` computes the per-field table: for every status
    record (3^4·2 field combinations, any step list), every subservice 1..8 -/
theorem C16_transition_table (s : VStatus) (sub : Nat) (v : Option Nat) (h1 : 1 ≤ sub) (h8 : sub ≤ 8)
    (hv : sub = 5 ∨ sub = 6 → v.isSome = true) :
    checkSubservice s sub v = (Spec.report s sub v, .ok (Spec.resultFlag sub)) :=
  checkSubservice_eq s sub v h1 h8 hv

/-! ## Dictionary invariant -/

/-- **keys stay unique** along every history (also outside the domain) -/
theorem C16_keys_unique (ops : List Op) : KeysUnique (run Tracker.empty ops) :=
  keysUnique_run keysUnique_empty ops

/-- … and from every tracker with unique keys, hence at every point of every history -/
theorem C16_keys_unique_from (t : Tracker) (hu : KeysUnique t) (ops : List Op) : KeysUnique (run t ops) :=
  keysUnique_run hu ops

/-! ## Unknown request ids, duplicates -/

/-- **a report for an unknown request id yields no result and changes nothing**, whatever its
    subservice and step id -/
theorem C16_unknown (t : Tracker) (r sub : Nat) (v : Option Nat) (h : lookup t r = none) :
    step t (.addTm r sub v) = (t, .noResult) :=
  addTm_unknown h sub v

/-- the converse: a report in the domain for a registered id always yields a result -/
theorem C16_known_result (t : Tracker) (r sub : Nat) (v : Option Nat) (s : VStatus) (h : lookup t r = some s)
    (wf : (Op.addTm r sub v).WF = true) :
    ∃ s' c, (step t (.addTm r sub v)).2 = .result s' c ∧ lookup (step t (.addTm r sub v)).1 r = some s' := by
  simp only [Op.WF, Bool.and_eq_true, Bool.or_eq_true, decide_eq_true_eq, Bool.not_eq_true'] at wf
  obtain ⟨⟨h1, h8⟩, hv⟩ := wf
  have hv' : sub = 5 ∨ sub = 6 → v.isSome = true := by
    intro hs
    rcases hv with hv | hv
    · simp at hv; omega
    · exact hv
  rw [addTm_known h sub v h1 h8 hv']
  exact ⟨_, _, rfl, lookup_set_eq _ _ _ (by simp [h])⟩

/-- **a duplicate registration is refused and the existing entry is not reset** (the whole
    dictionary is unchanged) -/
theorem C16_duplicate (t : Tracker) (r : Nat) (s : VStatus) (h : lookup t r = some s) :
    step t (.addTc r) = (t, .added false) :=
  addTc_known h

/-- a new telecommand is accepted, filed last with the initial record, and nothing else changes -/
theorem C16_register (t : Tracker) (r : Nat) (h : lookup t r = none) :
    step t (.addTc r) = (t ++ [(r, VStatus.init)], .added true) ∧
      lookup (step t (.addTc r)).1 r = some ⟨false, .unset, .unset, .unset, [], .unset⟩ ∧
      ∀ r', r' ≠ r → lookup (step t (.addTc r)).1 r' = lookup t r' := by
  rw [addTc_new h]
  refine ⟨rfl, by simp [lookup_append, h, VStatus.init], ?_⟩
  intro r' hne
  have : ¬ r = r' := fun x => hne x.symm
  cases h' : lookup t r' <;> simp [lookup_append, h', this]

/-! ## Isolation -/

/-- **a report touches no other telecommand**: every entry under another key is the same before and
    after, and the set (and order) of keys is unchanged — for every subservice value -/
theorem C16_isolation (t : Tracker) (r sub : Nat) (v : Option Nat) :
    (∀ r', r' ≠ r → lookup (step t (.addTm r sub v)).1 r' = lookup t r') ∧
      keys (step t (.addTm r sub v)).1 = keys t := by
  refine ⟨?_, by rw [keys_step]⟩
  intro r' hne
  cases h : lookup t r with
  | none => rw [addTm_unknown h]
  | some s =>
    by_cases hb : sub = 0 ∨ 8 < sub
    · rw [addTm_bad_subservice h sub v hb]
    · rw [addTm_in_range h sub v (by omega) (by omega)]
      exact lookup_set_ne _ _ _ _ hne

/-- **within its own record a report writes only the field of its family** (acceptance 1/2,
    start 3/4, step and step list 5/6, completion 7/8) — plus the all-received mark -/
theorem C16_field_frame (t : Tracker) (r sub : Nat) (v : Option Nat) (s s' : VStatus)
    (h : lookup t r = some s) (h' : lookup (step t (.addTm r sub v)).1 r = some s') :
    (sub ≠ 1 → sub ≠ 2 → s'.accepted = s.accepted) ∧
    (sub ≠ 3 → sub ≠ 4 → s'.started = s.started) ∧
    (sub ≠ 5 → sub ≠ 6 → s'.step = s.step ∧ s'.stepList = s.stepList) ∧
    (sub ≠ 7 → sub ≠ 8 → s'.completed = s.completed) := by
  have hs' : s' = Spec.report s sub v := by
    by_cases hb : sub = 0 ∨ 8 < sub
    · rw [addTm_bad_subservice h sub v hb, h] at h'
      have n1 : ¬ sub = 1 := by omega
      have n2 : ¬ sub = 2 := by omega
      have n3 : ¬ sub = 3 := by omega
      have n4 : ¬ sub = 4 := by omega
      have n5 : ¬ sub = 5 := by omega
      have n6 : ¬ sub = 6 := by omega
      have n7 : ¬ sub = 7 := by omega
      have n8 : ¬ sub = 8 := by omega
      have : s' = s := by simpa using h'.symm
      subst this
      simp [Spec.report, Spec.accepted, Spec.started, Spec.stepField, Spec.completed,
        Spec.stepList, Spec.finishes, n1, n2, n3, n4, n5, n6, n7, n8]
    · rw [addTm_in_range h sub v (by omega) (by omega), lookup_set_eq _ _ _ (by simp [h])] at h'
      simpa using h'.symm
  subst hs'
  refine ⟨?_, ?_, ?_, ?_⟩
  · intro a b; simp [Spec.report, Spec.accepted, a, b]
  · intro a b; simp [Spec.report, Spec.started, a, b]
  · intro a b; simp [Spec.report, Spec.stepField, Spec.stepList, a, b]
  · intro a b; simp [Spec.report, Spec.completed, a, b]

/-- what each report writes into the field of its family -/
theorem C16_field_values (s : VStatus) (v : Option Nat) :
    (Spec.report s 1 v).accepted = .success ∧ (Spec.report s 2 v).accepted = .failure ∧
    (Spec.report s 3 v).started = .success ∧ (Spec.report s 4 v).started = .failure ∧
    (Spec.report s 5 v).step = (if s.step = .unset then .success else s.step) ∧
    (Spec.report s 6 v).step = .failure ∧
    (Spec.report s 7 v).completed = .success ∧ (Spec.report s 8 v).completed = .failure := by
  refine ⟨rfl, rfl, rfl, rfl, ?_, rfl, rfl, rfl⟩
  simp [Spec.report, Spec.stepField]

/-! ## A failed step is never overwritten -/

/-- single call: whatever the call is, if the entry is still there its step field is still
    `failure` -/
theorem C16_step_sticky_step (t : Tracker) (hu : KeysUnique t) (r : Nat) (s s' : VStatus) (o : Op)
    (h : lookup t r = some s) (hf : s.step = .failure) (h' : lookup (step t o).1 r = some s') :
    s'.step = .failure := by
  rcases step_entry hu h o h' with ⟨e, _⟩ | ⟨sub, v, _, _, _, e⟩
  · exact e ▸ hf
  · exact e ▸ Spec.report_step_of_failure s sub v hf

/-- **once a step failure is recorded it stays recorded**, along every history the entry survives
    (later step successes, repeated reports, reports for other telecommands, registrations and
    removals of other entries included) -/
theorem C16_step_sticky (t : Tracker) (hu : KeysUnique t) (r : Nat) (s : VStatus) (ops : List Op)
    (h : lookup t r = some s) (hf : s.step = .failure) (alive : Alive t r ops) :
    ∃ s', lookup (run t ops) r = some s' ∧ s'.step = .failure :=
  entry_invariant (P := fun x => x.step = .failure) (fun s sub v => Spec.report_step_of_failure s sub v)
    hu h hf ops alive

/-- a step success after a step failure in particular -/
example : (run Tracker.empty [.addTc 9, .addTm 9 6 (some 4), .addTm 9 5 (some 5)]) =
    [(9, ⟨false, .unset, .unset, .failure, [4, 5], .unset⟩)] := by decide

/-! ## The completed flag of the result -/

/-- **the result's `completed` flag is set exactly for failure reports and completion reports**
    (subservices 2, 4, 6, 7, 8), independent of the state -/
theorem C16_completed_flag (t : Tracker) (r sub : Nat) (v : Option Nat) (s' : VStatus) (c : Bool)
    (h : (step t (.addTm r sub v)).2 = .result s' c) :
    (c = true ↔ sub = 2 ∨ sub = 4 ∨ sub = 6 ∨ sub = 7 ∨ sub = 8) := by
  cases hl : lookup t r with
  | none => simp [addTm_unknown hl] at h
  | some s =>
    by_cases hb : sub = 0 ∨ 8 < sub
    · simp [addTm_bad_subservice hl sub v hb] at h
    · have h1 : 1 ≤ sub := by omega
      have h8 : sub ≤ 8 := by omega
      rw [addTm_in_range hl sub v h1 h8] at h
      simp only at h
      cases v with
      | some x =>
        rw [checkSubservice_eq s sub (some x) h1 h8 (by simp)] at h
        simp only [Out.result.injEq] at h
        rw [← h.2]; simp [Spec.resultFlag]
      | none =>
        by_cases h56 : sub = 5 ∨ sub = 6
        · have := checkSubservice_no_step_id s sub h56
          rw [this] at h; simp at h
        · rw [checkSubservice_eq s sub none h1 h8 (by intro x; exact absurd x h56)] at h
          simp only [Out.result.injEq] at h
          rw [← h.2]; simp [Spec.resultFlag]

/-- the status of the result is the record stored in the dictionary after the call -/
theorem C16_result_is_entry (t : Tracker) (r sub : Nat) (v : Option Nat) (s' : VStatus) (c : Bool)
    (h : (step t (.addTm r sub v)).2 = .result s' c) :
    lookup (step t (.addTm r sub v)).1 r = some s' := by
  cases hl : lookup t r with
  | none => simp [addTm_unknown hl] at h
  | some s =>
    by_cases hb : sub = 0 ∨ 8 < sub
    · simp [addTm_bad_subservice hl sub v hb] at h
    · rw [addTm_in_range hl sub v (by omega) (by omega)] at h ⊢
      simp only at h ⊢
      rw [lookup_set_eq _ _ _ (by simp [hl])]
      cases hc : (checkSubservice s sub v).2 with
      | ok b => simp [hc] at h; rw [h.1]
      | error e => simp [hc] at h

/-! ## All verifications received -/

/-- **'all verifications received' after a report = it was set before, or this report finishes the
    sequence per the table**: acceptance failure; start failure with an acceptance report seen;
    step failure / completion success / completion failure with acceptance and start reports seen -/
theorem C16_all_recvd_exact (t : Tracker) (r sub : Nat) (v : Option Nat) (s s' : VStatus)
    (h : lookup t r = some s) (h1 : 1 ≤ sub) (h8 : sub ≤ 8)
    (h' : lookup (step t (.addTm r sub v)).1 r = some s') :
    (s'.allRecvd = true ↔
      s.allRecvd = true ∨ sub = 2 ∨ (sub = 4 ∧ s.accepted ≠ .unset)
        ∨ ((sub = 6 ∨ sub = 7 ∨ sub = 8) ∧ s.accepted ≠ .unset ∧ s.started ≠ .unset)) := by
  rw [addTm_in_range h sub v h1 h8, lookup_set_eq _ _ _ (by simp [h])] at h'
  have : s' = Spec.report s sub v := by simpa using h'.symm
  subst this
  simp [Spec.report, Spec.finishes]

/-- single call: the mark never reverts while the entry is there -/
theorem C16_all_recvd_monotone_step (t : Tracker) (hu : KeysUnique t) (r : Nat) (s s' : VStatus) (o : Op)
    (h : lookup t r = some s) (hf : s.allRecvd = true) (h' : lookup (step t o).1 r = some s') :
    s'.allRecvd = true := by
  rcases step_entry hu h o h' with ⟨e, _⟩ | ⟨sub, v, _, _, _, e⟩
  · exact e ▸ hf
  · exact e ▸ Spec.report_allRecvd_of_true s sub v hf

/-- **'all verifications received' never reverts** along any history the entry survives -/
theorem C16_all_recvd_monotone (t : Tracker) (hu : KeysUnique t) (r : Nat) (s : VStatus) (ops : List Op)
    (h : lookup t r = some s) (hf : s.allRecvd = true) (alive : Alive t r ops) :
    ∃ s', lookup (run t ops) r = some s' ∧ s'.allRecvd = true :=
  entry_invariant (P := fun x => x.allRecvd = true) (fun s sub v => Spec.report_allRecvd_of_true s sub v)
    hu h hf ops alive

/-- only a report for the telecommand itself can set the mark -/
theorem C16_all_recvd_only_by_report (t : Tracker) (hu : KeysUnique t) (r : Nat) (s s' : VStatus) (o : Op)
    (h : lookup t r = some s) (hf : s.allRecvd = false) (h' : lookup (step t o).1 r = some s')
    (hs : s'.allRecvd = true) : ∃ sub v, o = .addTm r sub v ∧ Spec.finishes sub s = true := by
  rcases step_entry hu h o h' with ⟨e, _⟩ | ⟨sub, v, ho, _, _, e⟩
  · subst e; simp [hf] at hs
  · subst e
    refine ⟨sub, v, ho, ?_⟩
    simpa [Spec.report, hf] using hs

/-! ## Step list -/

/-- **the step list is the sequence of step values reported for that id, in order**: along every
    history the entry survives, the list grows by exactly the step values of the step reports
    (5 and 6) addressed to `r` -/
theorem C16_step_list (t : Tracker) (hu : KeysUnique t) (r : Nat) (s : VStatus) (ops : List Op)
    (h : lookup t r = some s) (alive : Alive t r ops) :
    ∃ s', lookup (run t ops) r = some s' ∧ s'.stepList = s.stepList ++ stepsFor r ops := by
  induction ops generalizing t s with
  | nil => exact ⟨s, h, by simp [stepsFor]⟩
  | cons o os ih =>
    obtain ⟨h0, hrest⟩ := alive
    obtain ⟨s1, h1⟩ := Option.isSome_iff_exists.1 h0
    have hl : s1.stepList = s.stepList ++ stepsOf r o := by
      rcases step_entry hu h o h1 with ⟨e, e2⟩ | ⟨sub, v, ho, _, _, e⟩
      · rw [e, e2]; simp
      · rw [e, ho]; exact Spec.report_stepList s r sub v
    obtain ⟨s', hs', hl'⟩ := ih _ (keysUnique_step hu o) _ h1 hrest
    refine ⟨s', hs', ?_⟩
    rw [hl', hl]
    simp [stepsFor]

/-- from the registration on: the list is exactly what was reported since -/
theorem C16_step_list_from_registration (t : Tracker) (hu : KeysUnique t) (r : Nat) (ops : List Op)
    (h : lookup t r = none) (alive : Alive t r (.addTc r :: ops)) :
    ∃ s', lookup (run t (.addTc r :: ops)) r = some s' ∧ s'.stepList = stepsFor r ops := by
  have hreg := (C16_register t r h).2.1
  have := C16_step_list (step t (.addTc r)).1 (keysUnique_step hu _) r _ ops hreg alive.2
  simpa [run] using this

example : stepsFor 7 [.addTm 7 5 (some 1), .addTm 8 5 (some 9), .addTm 7 1 (some 3), .addTm 7 6 (some 2),
    .addTm 7 5 none, .removeCompleted] = [1, 2] := by decide

/-! ## Removing entries -/

/-- **removing completed entries removes exactly those marked finished**: the dictionary afterwards
    is the sub-dictionary (same order) of the entries without the mark; nothing is returned -/
theorem C16_remove_completed (t : Tracker) :
    (step t .removeCompleted).2 = .done ∧
    (∀ e, e ∈ (step t .removeCompleted).1 ↔ e ∈ t ∧ e.2.allRecvd = false) ∧
    ((step t .removeCompleted).1).Sublist t := by
  refine ⟨rfl, ?_, ?_⟩
  · intro e; simp [removeCompleted_eq]
  · rw [removeCompleted_eq]; exact List.filter_sublist

/-- … per request id (unique keys): an entry survives iff it is not marked, unchanged -/
theorem C16_remove_completed_lookup (t : Tracker) (hu : KeysUnique t) (r : Nat) :
    lookup (step t .removeCompleted).1 r = (lookup t r).filter (fun s => !s.allRecvd) := by
  rw [removeCompleted_eq, lookup_filter hu]

/-- **removing one entry** removes that entry and only it; an unknown id is reported as `False` -/
theorem C16_remove_entry (t : Tracker) (hu : KeysUnique t) (r : Nat) :
    (step t (.removeEntry r)).2 = .removed (lookup t r).isSome ∧
    lookup (step t (.removeEntry r)).1 r = none ∧
    (∀ r', r' ≠ r → lookup (step t (.removeEntry r)).1 r' = lookup t r') ∧
    ((lookup t r) = none → (step t (.removeEntry r)).1 = t) := by
  cases h : lookup t r with
  | none =>
    rw [removeEntry_unknown h]
    exact ⟨rfl, h, fun _ _ => rfl, fun _ => rfl⟩
  | some s =>
    rw [removeEntry_known h]
    exact ⟨rfl, lookup_erase_eq hu r, fun r' hne => lookup_erase_ne _ _ _ hne, fun x => by simp at x⟩

/-- a removed telecommand can be registered again and starts from the initial record -/
example : run Tracker.empty [.addTc 5, .addTm 5 2 none, .removeCompleted, .addTc 5] = [(5, VStatus.init)] := by
  decide

/-! ## Failure modes (outside the property's domain, documented for re-use) -/

/-- a subservice outside 1..8 for a registered id is refused with `ValueError`, nothing changes -/
theorem C16_bad_subservice (t : Tracker) (r sub : Nat) (v : Option Nat) (s : VStatus) (h : lookup t r = some s)
    (hs : sub = 0 ∨ 8 < sub) : step t (.addTm r sub v) = (t, .raised .value) :=
  addTm_bad_subservice h sub v hs

/-- **no call in the domain raises**; outside the domain the only errors are `ValueError`
    (subservice) and `AttributeError` (step report whose `step_id` is `None`) -/
theorem C16_errors (t : Tracker) (o : Op) (e : Err) (h : (step t o).2 = .raised e) :
    o.WF = false ∧ (e = .value ∨ e = .attr) := by
  cases o with
  | addTc r => cases hl : lookup t r <;> simp [step, addTc, hl] at h
  | removeEntry r => cases hl : lookup t r <;> simp [step, removeEntry, hl] at h
  | removeCompleted => simp [step, removeCompleted] at h
  | addTm r sub v =>
    cases hl : lookup t r with
    | none => simp [step, addTm, hl] at h
    | some s =>
      by_cases hb : sub = 0 ∨ 8 < sub
      · rw [addTm_bad_subservice hl sub v hb] at h
        simp only [Out.raised.injEq] at h
        refine ⟨?_, .inl h.symm⟩
        rcases hb with hb | hb
        · subst hb; rfl
        · have : ¬ sub ≤ 8 := by omega
          simp [Op.WF, this]
      · by_cases hv : sub = 5 ∨ sub = 6 → v.isSome = true
        · rw [addTm_known hl sub v (by omega) (by omega) hv] at h
          simp at h
        · have h56 : sub = 5 ∨ sub = 6 := by
            by_cases x : sub = 5 ∨ sub = 6
            · exact x
            · exact absurd (fun y => absurd y x) hv
          have hn : v = none := by
            cases v with
            | none => rfl
            | some x => exact absurd (fun _ => rfl) hv
          subst hn
          rw [addTm_no_step_id hl sub h56] at h
          simp only [Out.raised.injEq] at h
          refine ⟨?_, .inr h.symm⟩
          rcases h56 with x | x <;> subst x <;> rfl

/-! ## `Alive`, spelled out -/

/-- "survives the history" = present after every non-empty prefix -/
theorem C16_alive_iff (t : Tracker) (r : Nat) (ops : List Op) :
    Alive t r ops ↔ ∀ n, 0 < n → n ≤ ops.length → (lookup (run t (ops.take n)) r).isSome = true :=
  alive_iff_prefixes t r ops

/-- a history without removals keeps every registered telecommand alive -/
theorem C16_alive_without_removals (t : Tracker) (hu : KeysUnique t) (r : Nat) (s : VStatus) (ops : List Op)
    (h : lookup t r = some s)
    (hops : ∀ o ∈ ops, o ≠ .removeEntry r ∧ o ≠ .removeCompleted) : Alive t r ops := by
  induction ops generalizing t s with
  | nil => trivial
  | cons o os ih =>
    have ho := hops o (by simp)
    have hsome : ∃ s1, lookup (step t o).1 r = some s1 := by
      cases o with
      | addTc r0 =>
        by_cases hr : r0 = r
        · subst hr; rw [addTc_known h]; exact ⟨s, h⟩
        · cases h0 : lookup t r0 with
          | some s0 => rw [addTc_known h0]; exact ⟨s, h⟩
          | none => rw [addTc_new h0]; exact ⟨s, by simp [lookup_append, h]⟩
      | addTm r0 sub v =>
        have hk : r ∈ keys (step t (.addTm r0 sub v)).1 := by
          rw [(C16_isolation t r0 sub v).2]; exact (lookup_isSome_iff t r).1 (by simp [h])
        exact Option.isSome_iff_exists.1 ((lookup_isSome_iff _ r).2 hk)
      | removeEntry r0 =>
        have hr : r0 ≠ r := fun x => ho.1 (x ▸ rfl)
        cases h0 : lookup t r0 with
        | none => rw [removeEntry_unknown h0]; exact ⟨s, h⟩
        | some s0 =>
          rw [removeEntry_known h0]
          exact ⟨s, by rw [lookup_erase_ne _ _ _ (fun x => hr x.symm)]; exact h⟩
      | removeCompleted => exact absurd rfl ho.2
    obtain ⟨s1, h1⟩ := hsome
    exact ⟨by simp [h1], ih _ (keysUnique_step hu o) _ h1 (fun o' ho' => hops o' (List.mem_cons_of_mem _ ho'))⟩

end SpVerif.Props.C16
