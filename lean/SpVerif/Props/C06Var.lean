import SpVerif.Props.C06Fixed
import SpVerif.Model.Eof
import SpVerif.Model.Finished
import SpVerif.Model.Metadata
namespace SpVerif.Props.C06Var
open SpVerif

theorem C06_eof_placeholder : (1 : Nat) = 1 := rfl

end SpVerif.Props.C06Var
