import SpVerif.Props.C05
import SpVerif.Props.C06Fixed
import SpVerif.Props.C08
import SpVerif.Proofs.Eof
import SpVerif.Proofs.Finished
import SpVerif.Proofs.Metadata
/-!
# C06 (part "var") — EOF, Finished and Metadata PDUs are encoded exactly per CCSDS 727.0-B-5 §5.2
and round-trip

Property theorems only. (Base class, ACK, Prompt, Keep Alive and NAK are in `Props/C06Fixed.lean`;
`WFConf`, `WFBase`, `Spec.pdu`, `crcLen` are shared with that part.)

Layout (727.0-B-5 §5.2): fixed PDU header ‖ directive code ‖ parameters ‖ CRC-16 iff the CRC flag
is set, the data-field length counting every octet after the header, with the parameters

* EOF (code 4, §5.2.2, towards the receiver): `condition code (4 bits) | spare (4 bits)`, file
  checksum (4 octets), file size (FSS: 32 bits, 64 with the large-file flag), optional fault
  location (entity-ID TLV: type 6, length, value);
* Finished (code 5, §5.2.3, towards the sender): `condition code (4) | spare (1) | delivery code
  (1) | file status (2)`, filestore responses (TLVs of type 1, list order), optional fault
  location (not with condition code "no error" / "unsupported checksum type");
* Metadata (code 7, §5.2.5, towards the receiver): `reserved (1) | closure requested (1) |
  reserved (2) | checksum type (4)`, file size (FSS), source file name (LV), destination file name
  (LV), options (TLVs, list order).

All three decoders read the declared PDU only: whatever follows it is ignored
(`C06_*_roundtrip` hold with an arbitrary suffix), and the CRC trailer is never parsed as a TLV.
-/
namespace SpVerif.Props.C06Var
open SpVerif SpVerif.CfdpHeader SpVerif.FileDirective SpVerif.Tlv SpVerif.Lv
open SpVerif.Eof SpVerif.Finished SpVerif.Metadata
open SpVerif.Props.C06Fixed (WFConf dirHeader crcLen WFBase)
open SpVerif.Nak (fits)

/-! ### shared machinery -/

private theorem wf_dirHeader (c : PduConfig) (wf : WFConf c) (dir dlen : Nat) (hd : dir < 2) (hl : dlen < 65536) :
    C05.WF (dirHeader c dir dlen) := by
  obtain ⟨h1, h2, h3, _, h5, h6, h7, h8, h9⟩ := wf
  exact ⟨Nat.zero_lt_two, hd, h1, h3, h2, h5, Nat.zero_lt_two, hl, h6, h7, h8, h9⟩

private theorem spec_pdu_eq (fd : FileDirective) (P : Bytes) :
    C06Fixed.Spec.pdu fd P = withCrc fd.header.conf.crcFlag (specOctets fd ++ P) := rfl

private theorem prelude_pdu (fd : FileDirective) (code dir : Nat) (P rest : Bytes)
    (wf : WFBase fd code dir P.length) (hc : code < 256) :
    prelude (C06Fixed.Spec.pdu fd P ++ rest) = .ok (fd, specOctets fd ++ P) ∧
    (C06Fixed.Spec.pdu fd P).length = fd.packetLen := by
  obtain ⟨w1, _, _, w4, _, w6⟩ := wf
  rw [spec_pdu_eq]
  exact prelude_spec fd w1 (by omega) P rest (by simpa [crcLen] using w6)

private theorem octetAt_params (fd : FileDirective) (wf : C05.WF fd.header) (P : Bytes) (k : Nat) :
    octetAt (specOctets fd ++ P) (fd.headerLen + k) = octetAt P k := by
  rw [← specOctets_length fd wf]
  simp [octetAt, List.getElem?_append_right]

private theorem slice_params (fd : FileDirective) (wf : C05.WF fd.header) (P : Bytes) (s e : Nat) :
    slice (specOctets fd ++ P) (fd.headerLen + s) (fd.headerLen + e) = slice P s e := by
  rw [← specOctets_length fd wf]; exact slice_after _ _ _ _

private theorem drop_params (fd : FileDirective) (wf : C05.WF fd.header) (P : Bytes) (k : Nat) :
    (specOctets fd ++ P).drop (fd.headerLen + k) = P.drop k := by
  rw [← specOctets_length fd wf]; exact drop_after _ _ _

private theorem idx_params (fd : FileDirective) (wf : C05.WF fd.header) (P : Bytes) (k : Nat) :
    idx (specOctets fd ++ P) (fd.headerLen + k) = idx P k := by
  rw [← specOctets_length fd wf]; exact idx_after _ _ _

private theorem pdu_len (fd : FileDirective) (code dir : Nat) (P : Bytes) (wf : WFBase fd code dir P.length) :
    (C06Fixed.Spec.pdu fd P).length = fd.packetLen ∧
    fd.header.dataFieldLen = (C06Fixed.Spec.pdu fd P).length - fd.header.headerLen ∧
    fd.header.dataFieldLen = fd.packetLen - fd.header.headerLen ∧
    (C06Fixed.Spec.pdu fd P).length = fd.header.headerLen + 1 + P.length + crcLen fd.header.conf := by
  obtain ⟨w1, _, _, _, _, w6⟩ := wf
  have hs := specOctets_length fd w1
  have hhl : fd.headerLen = fd.header.headerLen + 1 := rfl
  have hpl : fd.packetLen = fd.header.dataFieldLen + fd.header.headerLen := rfl
  have : (C06Fixed.Spec.pdu fd P).length = fd.header.headerLen + 1 + P.length + crcLen fd.header.conf := by
    rw [spec_pdu_eq]
    unfold withCrc crcLen
    split
    · simp only [List.length_append, hs, Crc.crcTrailer, Crc.be16, List.length_cons, List.length_nil]; omega
    · simp only [List.length_append, hs]; omega
  omega

private theorem pdu_crc (fd : FileDirective) (P : Bytes) :
    (fd.header.conf.crcFlag = 1 →
      C06Fixed.Spec.pdu fd P = (C05.Spec.octets fd.header ++ [u8 fd.code] ++ P)
        ++ Crc.crcTrailer (C05.Spec.octets fd.header ++ [u8 fd.code] ++ P) ∧
      Crc.crc16 (C06Fixed.Spec.pdu fd P) = 0) ∧
    (fd.header.conf.crcFlag ≠ 1 → C06Fixed.Spec.pdu fd P = C05.Spec.octets fd.header ++ [u8 fd.code] ++ P) := by
  constructor
  · intro h
    have : C06Fixed.Spec.pdu fd P = (C05.Spec.octets fd.header ++ [u8 fd.code] ++ P)
        ++ Crc.crcTrailer (C05.Spec.octets fd.header ++ [u8 fd.code] ++ P) := by
      simp [C06Fixed.Spec.pdu, withCrc, h]
    exact ⟨this, by rw [this]; exact Crc.crc16_residue _⟩
  · intro h
    simp [C06Fixed.Spec.pdu, withCrc, h]

private theorem pdu_truncated {α : Type} (f : FileDirective × Bytes → Py α) (fd : FileDirective)
    (code dir : Nat) (P : Bytes) (wf : WFBase fd code dir P.length) (k : Nat)
    (hk : k < (C06Fixed.Spec.pdu fd P).length) :
    (prelude ((C06Fixed.Spec.pdu fd P).take k) >>= f) = .error .value := by
  have hl := (pdu_len fd code dir P wf).1
  have : ∃ R, C06Fixed.Spec.pdu fd P = specOctets fd ++ R := by
    rw [spec_pdu_eq]; unfold withCrc
    split
    · exact ⟨P ++ Crc.crcTrailer (specOctets fd ++ P), by simp⟩
    · exact ⟨P, rfl⟩
  obtain ⟨R, hR⟩ := this
  rw [hR] at hl hk ⊢
  exact bind_prelude_truncated f fd wf.1 R hl k (by omega)

/-- FSS width as `pack()` selects it -/
private theorem wsel (fd : FileDirective) :
    (if fd.header.largeFileFlagSet then 8 else 4) = fssWidth fd.header.conf.fileFlag := by
  unfold PduHeader.largeFileFlagSet fssWidth
  by_cases h : fd.header.conf.fileFlag = 1 <;> simp [h]

private theorem byteOf_nibble (c : Int) (h0 : 0 ≤ c) (h : c < 16) :
    byteOf (c * 16) = .ok (u8 (c.toNat * 16)) := by
  unfold byteOf
  have g : 0 ≤ c * 16 ∧ c * 16 < 256 := by omega
  rw [if_pos g]
  congr 2
  omega

private theorem byteOf_bad (c : Int) (h : c < 0 ∨ 16 ≤ c) : byteOf (c * 16) = .error .value := by
  unfold byteOf
  have g : ¬ (0 ≤ c * 16 ∧ c * 16 < 256) := by omega
  rw [if_neg g]

/-! ## fault location (shared by EOF and Finished) -/

/-- a fault location as the library builds it: an entity-ID TLV (type 6) of 0..255 value octets -/
def WFFault : Option EntityIdTlv → Prop
  | none => True
  | some t => t.tlv.ttype = 6 ∧ t.tlv.value.length ≤ 255

instance (fl : Option EntityIdTlv) : Decidable (WFFault fl) := by
  cases fl <;> unfold WFFault <;> infer_instance

/-- the fault location as the standard lays it out: nothing, or type 6, length, entity ID -/
def Spec.fault : Option EntityIdTlv → Bytes
  | none => []
  | some t => C08.Spec.entityId t.tlv.value

private theorem fault_eta (t : EntityIdTlv) (h : t.tlv.ttype = 6) : (⟨⟨6, t.tlv.value⟩⟩ : EntityIdTlv) = t := by
  cases t with
  | mk tlv => cases tlv; simp_all

private theorem packFault_spec (fl : Option EntityIdTlv) (wf : WFFault fl) :
    Eof.packFaultLoc fl = .ok (Spec.fault fl) := by
  cases fl with
  | none => rfl
  | some t =>
    obtain ⟨h1, h2⟩ := wf
    show t.tlv.pack = _
    rw [CfdpTlv.pack_eq _ (by omega) h2, h1]
    rfl

private theorem fault_length (fl : Option EntityIdTlv) : (Spec.fault fl).length = Eof.faultLen fl := by
  cases fl with
  | none => rfl
  | some t => simp [Spec.fault, C08.Spec.entityId, C08.Spec.tlv, Eof.faultLen, EntityIdTlv.packetLen,
      CfdpTlv.packetLen]; omega

/-- decoding a laid-out fault location, whatever follows -/
private theorem unpack_fault (t : EntityIdTlv) (wf : WFFault (some t)) (rest : Bytes) :
    EntityIdTlv.unpack (Spec.fault (some t) ++ rest) = .ok t := by
  obtain ⟨h1, h2⟩ := wf
  rw [EntityIdTlv.unpack_bind]
  have := CfdpTlv.unpack_pack_append 6 t.tlv.value rest (by decide) h2
  simp only [Spec.fault, C08.Spec.entityId, C08.Spec.tlv, List.cons_append]
  rw [this, bind_ok, EntityIdTlv.fromTlv_eq]
  simp only [tEntityId, ↓reduceIte]
  rw [fault_eta t h1]

/-! ## EOF (`C06_eof_*`) -/

/-- valid EOF PDUs: every condition code nibble (all `ConditionCode` members), a 4-octet checksum,
    a file size over the full range of the selected FSS width, no fault location or an entity-ID
    TLV of any width 0..255, towards the receiver, any header configuration -/
def WFEof (k : Eof) : Prop :=
  0 ≤ k.cond ∧ k.cond < 16 ∧ k.checksum.length = 4 ∧
  fits (fssWidth k.fd.header.conf.fileFlag) k.fileSize ∧ WFFault k.faultLoc ∧
  WFBase k.fd 4 0 (5 + fssWidth k.fd.header.conf.fileFlag + (Spec.fault k.faultLoc).length)

instance (k : Eof) : Decidable (WFEof k) := by unfold WFEof; infer_instance

/-- the parameters of 727.0-B-5 §5.2.2 -/
def Spec.eofParams (k : Eof) : Bytes :=
  [u8 (k.cond.toNat * 16)] ++ k.checksum ++ beBytes (fssWidth k.fd.header.conf.fileFlag) k.fileSize.toNat
    ++ Spec.fault k.faultLoc

def Spec.eof (k : Eof) : Bytes := C06Fixed.Spec.pdu k.fd (Spec.eofParams k)

private theorem eofParams_length (k : Eof) (hc : k.checksum.length = 4) :
    (Spec.eofParams k).length = 5 + fssWidth k.fd.header.conf.fileFlag + (Spec.fault k.faultLoc).length := by
  simp only [Spec.eofParams, List.length_append, List.length_cons, List.length_nil, hc, beBytes_length]

private theorem eof_plen (f c : Nat) (fl : Option EntityIdTlv) :
    eofParamLen f c fl + 1 = 1 + (5 + fssWidth f + (Spec.fault fl).length) + (if c = 1 then 2 else 0) := by
  unfold eofParamLen; rw [fault_length]; omega

private theorem eofParamLen_le (f c : Nat) (fl : Option EntityIdTlv) (wf : WFFault fl) :
    eofParamLen f c fl + 1 ≤ 300 := by
  unfold eofParamLen
  have := Nak.fssWidth_le f
  have : Eof.faultLen fl ≤ 257 := by
    cases fl with
    | none => simp [Eof.faultLen]
    | some t => have := wf.2; simp [Eof.faultLen, EntityIdTlv.packetLen, CfdpTlv.packetLen]; omega
  split <;> omega

/-- the constructor accepts every configuration, every condition code, checksum of 4 octets, size
    and fault location, forces the direction "towards receiver" and yields a valid PDU -/
theorem C06_eof_new (c : PduConfig) (wf : WFConf c) (cs : Bytes) (size : Int) (fl : Option EntityIdTlv)
    (cond : Int) (hcs : cs.length = 4) (hfl : WFFault fl) :
    ∃ k, Eof.new c cs size fl cond = .ok k ∧ k.cond = cond ∧ k.checksum = cs ∧ k.fileSize = size ∧
      k.faultLoc = fl ∧ k.fd.header.conf = { c with direction := 0 } ∧
      (0 ≤ cond → cond < 16 → fits (fssWidth c.fileFlag) size → WFEof k) := by
  rw [Eof.new_eq]
  have hle := eofParamLen_le c.fileFlag c.crcFlag fl hfl
  have g1 : ¬ cs.length ≠ 4 := by omega
  have g2 : ¬ (c.source.width ≠ c.dest.width ∨ 65535 < eofParamLen c.fileFlag c.crcFlag fl + 1) := by
    have := wf.2.2.2.2.2.2.2.2; omega
  rw [if_neg g1, if_neg g2]
  refine ⟨_, rfl, rfl, rfl, rfl, rfl, rfl, ?_⟩
  intro h0 h1 h2
  refine ⟨h0, h1, hcs, h2, hfl, ?_, rfl, rfl, rfl, rfl, ?_⟩
  · exact wf_dirHeader c wf _ _ (by omega) (by omega)
  · simp only [crcLen]; exact eof_plen _ _ _

/-- a checksum that is not 4 octets long is refused (`ValueError`) -/
theorem C06_eof_refuse_checksum (c : PduConfig) (cs : Bytes) (size : Int) (fl : Option EntityIdTlv)
    (cond : Int) (h : cs.length ≠ 4) : Eof.new c cs size fl cond = .error .value := by
  rw [Eof.new_eq, if_pos h]

/-- **pack = standard layout**, for every valid EOF PDU in every header configuration -/
theorem C06_eof_pack_exact (k : Eof) (wf : WFEof k) : k.pack = .ok (Spec.eof k) := by
  obtain ⟨h0, h1, _, h3, h4, w1, _, _, w4, _, _⟩ := wf
  unfold Eof.pack
  rw [pack_spec k.fd w1 (by omega), byteOf_nibble _ h0 h1, wsel, Nak.packInt_fits _ _ h3, packFault_spec _ h4]
  simp only [bind, Except.bind, pure, Except.pure, Spec.eof, C06Fixed.Spec.pdu, Spec.eofParams, specOctets,
    List.append_assoc]

/-- **a file size that does not fit the selected width makes `pack` fail, never truncate**
    (`struct.error` from `struct.pack`; `ValueError` first if the condition code is no nibble) -/
theorem C06_eof_fss_overflow (k : Eof) (wf : C05.WF k.fd.header) (hc : k.fd.code < 256)
    (h : ¬ fits (fssWidth k.fd.header.conf.fileFlag) k.fileSize) :
    k.pack = .error .struct ∨ k.pack = .error .value := by
  unfold Eof.pack
  rw [pack_spec k.fd wf hc, wsel]
  have hs : packInt (fssWidth k.fd.header.conf.fileFlag) k.fileSize = .error .struct := by
    unfold fits at h
    by_cases h0 : k.fileSize < 0
    · exact packInt_neg _ _ h0
    · exact packInt_big _ _ (by omega) (by omega)
  by_cases hcond : 0 ≤ k.cond ∧ k.cond < 16
  · left
    rw [byteOf_nibble _ hcond.1 hcond.2, hs]
    rfl
  · right
    rw [byteOf_bad _ (by omega)]
    rfl

/-- `ConditionCode.NO_CONDITION_FIELD` (−1) is constructible but cannot be packed (`ValueError`) -/
theorem C06_eof_no_condition_field (k : Eof) (wf : C05.WF k.fd.header) (hc : k.fd.code < 256)
    (h : k.cond < 0 ∨ 16 ≤ k.cond) : k.pack = .error .value := by
  unfold Eof.pack
  rw [pack_spec k.fd wf hc, byteOf_bad _ h]
  rfl

/-- **length clauses**: 1 + 4 + FSS octets, plus the fault location TLV, plus 2 with CRC -/
theorem C06_eof_len (k : Eof) (wf : WFEof k) :
    (Spec.eof k).length = k.packetLen ∧
    k.fd.header.dataFieldLen = (Spec.eof k).length - k.fd.header.headerLen ∧
    k.fd.header.dataFieldLen = k.packetLen - k.fd.header.headerLen ∧
    (Spec.eof k).length = k.fd.header.headerLen + 1
      + (5 + fssWidth k.fd.header.conf.fileFlag + (Spec.fault k.faultLoc).length) + crcLen k.fd.header.conf := by
  have hl := eofParams_length k wf.2.2.1
  have := pdu_len k.fd 4 0 (Spec.eofParams k) (by rw [hl]; exact wf.2.2.2.2.2)
  rw [hl] at this
  exact this

theorem C06_eof_crc (k : Eof) :
    (k.fd.header.conf.crcFlag = 1 →
      Spec.eof k = (C05.Spec.octets k.fd.header ++ [u8 k.fd.code] ++ Spec.eofParams k)
        ++ Crc.crcTrailer (C05.Spec.octets k.fd.header ++ [u8 k.fd.code] ++ Spec.eofParams k) ∧
      Crc.crc16 (Spec.eof k) = 0) ∧
    (k.fd.header.conf.crcFlag ≠ 1 →
      Spec.eof k = C05.Spec.octets k.fd.header ++ [u8 k.fd.code] ++ Spec.eofParams k) :=
  pdu_crc k.fd (Spec.eofParams k)

private theorem nibble_back (c : Nat) (h : c < 16) : c * 16 % 256 / 16 % 16 = c := by omega

/-- **round trip, whatever follows the PDU**: decoding the packed PDU followed by arbitrary octets
    returns the identical PDU (condition code, checksum, file size, fault location, header) — in
    particular neither the CRC trailer nor trailing octets are read as a fault location -/
theorem C06_eof_roundtrip (k : Eof) (wf : WFEof k) (rest : Bytes) :
    Eof.unpack (Spec.eof k ++ rest) = .ok k := by
  obtain ⟨h0, h1, hcs, hfit, hfl, wb⟩ := wf
  have hpl := eofParams_length k hcs
  have wb' : WFBase k.fd 4 0 (Spec.eofParams k).length := by rw [hpl]; exact wb
  obtain ⟨hp, _⟩ := prelude_pdu k.fd 4 0 (Spec.eofParams k) rest wb' (by omega)
  have w1 := wb.1
  have hw := Nak.fssWidth_pos k.fd.header.conf.fileFlag
  rw [Eof.unpack_eq, Spec.eof, hp]
  show Eof.parse (k.fd, specOctets k.fd ++ Spec.eofParams k) = _
  rw [Eof.parse_eq]
  have hsl := specOctets_length k.fd w1
  have hfe : Eof.fixedEnd k.fd = k.fd.headerLen + (5 + fssWidth k.fd.header.conf.fileFlag) := by
    unfold Eof.fixedEnd; omega
  have hlen : (specOctets k.fd ++ Spec.eofParams k).length
      = k.fd.headerLen + (5 + fssWidth k.fd.header.conf.fileFlag) + (Spec.fault k.faultLoc).length := by
    simp only [List.length_append, hsl, hpl]; omega
  have c1 : ¬ (specOctets k.fd ++ Spec.eofParams k).length < Eof.fixedEnd k.fd := by omega
  rw [if_neg c1]
  -- the fixed parameters
  have e0 : Eof.condOf k.fd (specOctets k.fd ++ Spec.eofParams k) = k.cond := by
    unfold Eof.condOf
    have := octetAt_params k.fd w1 (Spec.eofParams k) 0
    rw [Nat.add_zero] at this
    have hP0 : octetAt (Spec.eofParams k) 0 = k.cond.toNat * 16 % 256 := by
      simp [Spec.eofParams, octetAt]
    rw [this, hP0, nibble_back _ (by omega)]
    omega
  have e1 : Eof.checksumOf k.fd (specOctets k.fd ++ Spec.eofParams k) = k.checksum := by
    unfold Eof.checksumOf
    rw [slice_params k.fd w1]
    have := slice_eq_of_append [u8 (k.cond.toNat * 16)] k.checksum
      (beBytes (fssWidth k.fd.header.conf.fileFlag) k.fileSize.toNat ++ Spec.fault k.faultLoc)
    simp only [List.length_cons, List.length_nil, hcs] at this
    simpa [Spec.eofParams, List.append_assoc] using this
  have e2 : Eof.sizeOf k.fd (specOctets k.fd ++ Spec.eofParams k) = k.fileSize := by
    unfold Eof.sizeOf
    rw [hfe, slice_params k.fd w1]
    have := slice_eq_of_append ([u8 (k.cond.toNat * 16)] ++ k.checksum)
      (beBytes (fssWidth k.fd.header.conf.fileFlag) k.fileSize.toNat) (Spec.fault k.faultLoc)
    simp only [List.length_append, List.length_cons, List.length_nil, hcs, beBytes_length] at this
    rw [show (0 + 1 + 4) = 5 from rfl] at this
    rw [show Spec.eofParams k = [u8 (k.cond.toNat * 16)] ++ k.checksum
      ++ beBytes (fssWidth k.fd.header.conf.fileFlag) k.fileSize.toNat ++ Spec.fault k.faultLoc from rfl, this,
      beNat_beBytes _ _ hfit.2]
    exact Nak.toNat_cast_fits _ _ hfit
  rw [e0, e1, e2]
  cases hf : k.faultLoc with
  | none =>
    have c2 : (specOctets k.fd ++ Spec.eofParams k).length = Eof.fixedEnd k.fd := by
      rw [hlen, hf, hfe]; simp [Spec.fault]
    rw [if_pos c2]
    cases k
    simp_all
  | some t =>
    rw [hf] at hfl hlen
    have hpos : 0 < (Spec.fault (some t)).length := by
      simp [Spec.fault, C08.Spec.entityId, C08.Spec.tlv]
    have c2 : ¬ (specOctets k.fd ++ Spec.eofParams k).length = Eof.fixedEnd k.fd := by omega
    rw [if_neg c2, hfe, drop_params k.fd w1]
    have hd : (Spec.eofParams k).drop (5 + fssWidth k.fd.header.conf.fileFlag) = Spec.fault (some t) := by
      rw [show Spec.eofParams k = ([u8 (k.cond.toNat * 16)] ++ k.checksum
        ++ beBytes (fssWidth k.fd.header.conf.fileFlag) k.fileSize.toNat) ++ Spec.fault k.faultLoc from rfl, hf]
      apply List.drop_left'
      simp only [List.length_append, List.length_cons, List.length_nil, hcs, beBytes_length]
    have hu := unpack_fault t hfl []
    rw [List.append_nil] at hu
    rw [hd, hu, bind_ok, Eof.calcLen_eq']
    have hdl : k.fd.header.dataFieldLen
        = eofParamLen k.fd.header.conf.fileFlag k.fd.header.conf.crcFlag (some t) + 1 := by
      rw [eof_plen]; have := wb.2.2.2.2.2; rw [hf] at this; simpa [crcLen] using this
    have g : ¬ 65535 < eofParamLen k.fd.header.conf.fileFlag k.fd.header.conf.crcFlag (some t) + 1 := by
      have := w1.2.2.2.2.2.2.2.1; omega
    rw [if_neg g, bind_ok, fd_eta k.fd _ hdl]
    cases k
    simp_all

/-- widths `UnsignedByteField` supports; `EntityIdTlv.__eq__` raises `ValueError` for any other -/
def EqWidth : Option EntityIdTlv → Prop
  | none => True
  | some t => t.value.length ∈ [1, 2, 4, 8]

instance (fl : Option EntityIdTlv) : Decidable (EqWidth fl) := by
  cases fl <;> unfold EqWidth <;> infer_instance

private theorem optEntityBeq_refl (fl : Option EntityIdTlv) (h : EqWidth fl) :
    Eof.optEntityBeq fl fl = .ok true := by
  cases fl with
  | none => rfl
  | some t =>
    have h' : t.value.length ∈ [1, 2, 4, 8] := h
    simp [Eof.optEntityBeq, EntityIdTlv.beq, ubfValue, h', bind, Except.bind, pure, Except.pure]

/-- the decoded PDU **compares equal** to the original (both ways) and **re-packs to the same
    octets**; `==` needs a fault location whose entity ID has a width the library can compare -/
theorem C06_eof_eq_repack (k : Eof) (wf : WFEof k) (hw : EqWidth k.faultLoc) (rest : Bytes) :
    ∃ k', (k.pack >>= fun b => Eof.unpack (b ++ rest)) = .ok k' ∧ k' = k ∧
      k.beq k' = .ok true ∧ k'.beq k = .ok true ∧ k'.pack = k.pack := by
  refine ⟨k, ?_, rfl, ?_, ?_, rfl⟩
  · rw [C06_eof_pack_exact k wf]; exact C06_eof_roundtrip k wf rest
  all_goals simp [Eof.beq, beq_refl, optEntityBeq_refl _ hw]

/-- with a fault location of any other width `==` raises `ValueError` (documented; nothing is
    compared wrongly) -/
theorem C06_eof_eq_other_width (k : Eof) (t : EntityIdTlv) (hf : k.faultLoc = some t)
    (hw : t.value.length ∉ [1, 2, 4, 8]) : k.beq k = .error .value := by
  simp [Eof.beq, beq_refl, hf, Eof.optEntityBeq, EntityIdTlv.beq, ubfValue, hw, bind, Except.bind]

/-- **the `fault_location` setter keeps the length consistent**: afterwards the PDU is the one a
    fresh constructor call with the new fault location gives -/
theorem C06_eof_set_fault_loc (c : PduConfig) (cs : Bytes) (size : Int) (fl fl' : Option EntityIdTlv)
    (cond : Int) (hfl : WFFault fl) (hfl' : WFFault fl') :
    (Eof.new c cs size fl cond >>= fun k => k.setFaultLoc fl') = Eof.new c cs size fl' cond := by
  have h1 := eofParamLen_le c.fileFlag c.crcFlag fl hfl
  have h2 := eofParamLen_le c.fileFlag c.crcFlag fl' hfl'
  rw [Eof.new_eq, Eof.new_eq]
  by_cases g1 : cs.length ≠ 4
  · rw [if_pos g1, if_pos g1]; rfl
  · rw [if_neg g1, if_neg g1]
    by_cases g2 : c.source.width ≠ c.dest.width
    · rw [if_pos (Or.inl g2), if_pos (Or.inl g2)]; rfl
    · rw [if_neg (by omega), if_neg (by omega), bind_ok, Eof.setFaultLoc_eq]
      have g3 : ¬ 65535 < eofParamLen c.fileFlag c.crcFlag fl' + 1 := by omega
      simp only [g3, ↓reduceIte]

/-- the decoder fails, for any octet string whatever, only with `ValueError`,
    `UnsupportedCfdpVersion`, `InvalidCrc` or `TlvTypeMissmatch` — never `IndexError` / `struct.error` -/
theorem C06_eof_documented (d : Bytes) : Documented (Eof.unpack d) := Eof.unpack_documented d

/-- what acceptance means: the buffer holds the whole declared PDU, the CRC-16 over exactly the
    declared PDU is zero when the flag is set, the decoded PDU is not longer than the declared one,
    and the result depends on the declared PDU only (trailing octets are neither read nor required) -/
theorem C06_eof_accept_sound (d : Bytes) (k : Eof) (h : Eof.unpack d = .ok k) :
    ∃ fd p, prelude d = .ok (fd, p) ∧ fd.packetLen ≤ d.length ∧ k.packetLen ≤ fd.packetLen ∧
      (fd.header.conf.crcFlag = 1 → Crc.crc16 (d.take fd.packetLen) = 0) ∧
      ∀ rest, Eof.unpack (d.take fd.packetLen ++ rest) = .ok k := by
  obtain ⟨fd, p, hp, hf, h3, h4, h5, h10⟩ := Eof.unpack_inv d k h
  refine ⟨fd, p, hp, h3, h5, h4, fun rest => ?_⟩
  rw [Eof.unpack_eq, prelude_take d fd p hp (by omega) rest]
  exact hf

/-- **every strict prefix of a packed PDU is refused with `ValueError`** -/
theorem C06_eof_truncated (x : Eof) (wf : WFEof x) (k : Nat) (hk : k < (Spec.eof x).length) :
    Eof.unpack ((Spec.eof x).take k) = .error .value := by
  rw [Eof.unpack_eq]
  exact pdu_truncated _ x.fd _ _ _ (by rw [eofParams_length x wf.2.2.1]; exact wf.2.2.2.2.2) k hk

-- non-vacuity: FILE_CHECKSUM_FAILURE, 64-bit size with pairwise different octets, 2-octet fault location, CRC
private def exEof : Eof :=
  ⟨⟨⟨0, 0, 20, ⟨⟨2, 0x0102⟩, ⟨2, 0x0304⟩, ⟨1, 9⟩, 0, 1, 1, 0, 0⟩⟩, 4⟩, 5, [0xA1, 0xA2, 0xA3, 0xA4],
    0x0102030405060708, some ⟨⟨6, [0x0A, 0x0B]⟩⟩⟩
example : WFEof exEof := by decide
example : EqWidth exEof.faultLoc := by decide
example : Eof.new ⟨⟨2, 0x0102⟩, ⟨2, 0x0304⟩, ⟨1, 9⟩, 0, 1, 1, 1, 0⟩ [0xA1, 0xA2, 0xA3, 0xA4] 0x0102030405060708
    (some ⟨⟨6, [0x0A, 0x0B]⟩⟩) 5 = .ok exEof := by rfl
example : C05.Spec.octets exEof.fd.header ++ [u8 exEof.fd.code] ++ Spec.eofParams exEof
    = [0x23, 0, 20, 0x10, 1, 2, 9, 3, 4, 4, 0x50, 0xA1, 0xA2, 0xA3, 0xA4, 1, 2, 3, 4, 5, 6, 7, 8, 6, 2, 0x0A, 0x0B] := by
  decide
example : WFEof ⟨⟨⟨0, 0, 10, ⟨⟨1, 0⟩, ⟨1, 0⟩, ⟨1, 0⟩, 0, 0, 0, 0, 0⟩⟩, 4⟩, 0, [0, 0, 0, 0], 4294967295, none⟩ := by decide
example : ¬ fits 4 4294967296 := by decide

/-! ## Finished (`C06_finished_*`) -/

/-- the filestore responses as the standard lays them out: the TLVs of C08 in list order -/
def Spec.responses : List FileStoreResponseTlv → Bytes
  | [] => []
  | r :: l => C08.Spec.fsResponse r ++ Spec.responses l

/-- every response is a valid filestore-response TLV (C08) -/
def WFResponses (l : List FileStoreResponseTlv) : Prop := ∀ r ∈ l, C08.WFResp r

instance (l : List FileStoreResponseTlv) : Decidable (WFResponses l) := by unfold WFResponses; infer_instance

/-- valid Finished PDUs: every `ConditionCode` / `DeliveryCode` / `FileStatus` member, any number of
    valid filestore responses, a fault location (entity ID of any width) only with a condition code
    that can have one (DESIGN §8), towards the sender, any header configuration -/
def WFFin (k : Finished) : Prop :=
  0 ≤ k.cond ∧ k.cond.toNat ∈ condMembers ∧ k.delivery < 2 ∧ k.status < 4 ∧
  WFResponses k.responses ∧ WFFault k.faultLoc ∧
  (k.faultLoc ≠ none → mightHaveFaultLoc k.cond = true) ∧
  WFBase k.fd 5 1 (1 + (Spec.responses k.responses).length + (Spec.fault k.faultLoc).length)

instance (k : Finished) : Decidable (WFFin k) := by unfold WFFin; infer_instance

/-- the parameters of 727.0-B-5 §5.2.3 -/
def Spec.finParams (k : Finished) : Bytes :=
  [u8 (k.cond.toNat * 16 + k.delivery * 4 + k.status)] ++ Spec.responses k.responses ++ Spec.fault k.faultLoc

def Spec.finished (k : Finished) : Bytes := C06Fixed.Spec.pdu k.fd (Spec.finParams k)

private theorem finOctet_all : ∀ c < 16, ∀ d < 2, ∀ s < 4,
    ((c <<< 4) ||| (d <<< 2)) ||| s = c * 16 + d * 4 + s := by decide

private theorem cond_lt (c : Nat) (h : c ∈ condMembers) : c < 16 := by
  simp only [condMembers, List.mem_cons, List.not_mem_nil, or_false] at h; omega

private theorem resp_pack (r : FileStoreResponseTlv) (wf : C08.WFResp r) :
    r.pack = .ok (C08.Spec.fsResponse r) ∧ (C08.Spec.fsResponse r).length = r.packetLen ∧
    2 ≤ (C08.Spec.fsResponse r).length := by
  have h := C08.C08_fs_response_pack_exact r wf
  refine ⟨h, C08.C08_fs_response_len r _ h, ?_⟩
  simp [C08.Spec.fsResponse, C08.Spec.tlv]

private theorem packResponses_spec (l : List FileStoreResponseTlv) (wf : WFResponses l) :
    packResponses l = .ok (Spec.responses l) := by
  induction l with
  | nil => rfl
  | cons r l ih =>
    have hr := (resp_pack r (wf r List.mem_cons_self)).1
    have hl : WFResponses l := fun q hq => wf q (List.mem_cons_of_mem _ hq)
    simp only [packResponses, hr, ih hl, bind, Except.bind, pure, Except.pure, Spec.responses]

private theorem responsesLen_spec (l : List FileStoreResponseTlv) (wf : WFResponses l) :
    responsesLen l = (Spec.responses l).length := by
  induction l with
  | nil => rfl
  | cons r l ih =>
    have hr := (resp_pack r (wf r List.mem_cons_self)).2.1
    have hl : WFResponses l := fun q hq => wf q (List.mem_cons_of_mem _ hq)
    simp only [responsesLen, Spec.responses, List.length_append, ih hl, hr]

private theorem fin_faultLen (cond : Int) (fl : Option EntityIdTlv) (h : fl ≠ none → mightHaveFaultLoc cond = true) :
    Finished.faultLen cond fl = (Spec.fault fl).length := by
  cases fl with
  | none => rfl
  | some t =>
    have := h (by simp)
    rw [fault_length]
    simp [Finished.faultLen, Eof.faultLen, this]

private theorem fin_packFault (cond : Int) (fl : Option EntityIdTlv) (wf : WFFault fl)
    (h : fl ≠ none → mightHaveFaultLoc cond = true) :
    Finished.packFaultLoc cond fl = .ok (Spec.fault fl) := by
  cases fl with
  | none => rfl
  | some t =>
    have := h (by simp)
    have hp := packFault_spec (some t) wf
    simp only [Finished.packFaultLoc, this, ↓reduceIte]
    exact hp

private theorem fin_plen (c : Nat) (k : Finished) (hr : WFResponses k.responses)
    (hm : k.faultLoc ≠ none → mightHaveFaultLoc k.cond = true) :
    finParamLen c k.cond k.responses k.faultLoc + 1
      = 1 + (1 + (Spec.responses k.responses).length + (Spec.fault k.faultLoc).length) + (if c = 1 then 2 else 0) := by
  unfold finParamLen
  rw [fin_faultLen _ _ hm, responsesLen_spec _ hr]
  split <;> omega

/-- the constructor accepts every configuration and every parameter set whose encoding fits the
    16-bit data-field length, forces the direction "towards sender" and yields a valid PDU -/
theorem C06_finished_new (c : PduConfig) (wf : WFConf c) (cond : Int) (dc fs : Nat)
    (rs : List FileStoreResponseTlv) (fl : Option EntityIdTlv)
    (hn : finParamLen c.crcFlag cond rs fl + 1 ≤ 65535) :
    ∃ k, Finished.new c cond dc fs rs fl = .ok k ∧ k.cond = cond ∧ k.delivery = dc ∧ k.status = fs ∧
      k.responses = rs ∧ k.faultLoc = fl ∧ k.fd.header.conf = { c with direction := 1 } ∧
      k.fd.header.dataFieldLen = finParamLen c.crcFlag cond rs fl + 1 ∧
      (0 ≤ cond → cond.toNat ∈ condMembers → dc < 2 → fs < 4 → WFResponses rs → WFFault fl →
        (fl ≠ none → mightHaveFaultLoc cond = true) → WFFin k) := by
  rw [Finished.new_eq]
  have g : ¬ (c.source.width ≠ c.dest.width ∨ 65535 < finParamLen c.crcFlag cond rs fl + 1) := by
    have := wf.2.2.2.2.2.2.2.2; omega
  rw [if_neg g]
  refine ⟨_, rfl, rfl, rfl, rfl, rfl, rfl, rfl, rfl, ?_⟩
  intro h0 h1 h2 h3 h4 h5 h6
  refine ⟨h0, h1, h2, h3, h4, h5, h6, ?_, rfl, rfl, rfl, rfl, ?_⟩
  · exact wf_dirHeader c wf _ _ (by omega) (by omega)
  · simp only [crcLen]
    exact fin_plen c.crcFlag ⟨⟨⟨0, 0, 0, c⟩, 5⟩, cond, dc, fs, rs, fl⟩ h4 h6

/-- more filestore responses than the 16-bit data-field length can describe are refused
    (`ValueError`) by the constructor -/
theorem C06_finished_too_long (c : PduConfig) (cond : Int) (dc fs : Nat) (rs : List FileStoreResponseTlv)
    (fl : Option EntityIdTlv) (hn : 65535 < finParamLen c.crcFlag cond rs fl + 1) :
    Finished.new c cond dc fs rs fl = .error .value := by
  rw [Finished.new_eq, if_pos (Or.inr hn)]

/-- **pack = standard layout**, for every valid Finished PDU (any number of filestore responses in
    list order, then the fault location) in every header configuration -/
theorem C06_finished_pack_exact (k : Finished) (wf : WFFin k) : k.pack = .ok (Spec.finished k) := by
  obtain ⟨h0, h1, h2, h3, h4, h5, h6, w1, _, _, w4, _, _⟩ := wf
  unfold Finished.pack
  have hneg : ¬ k.cond < 0 := by omega
  have hb : ((k.cond.toNat <<< 4) ||| (k.delivery <<< 2)) ||| k.status
      = k.cond.toNat * 16 + k.delivery * 4 + k.status := finOctet_all _ (cond_lt _ h1) _ h2 _ h3
  have hlt : k.cond.toNat * 16 + k.delivery * 4 + k.status < 256 := by have := cond_lt _ h1; omega
  rw [pack_spec k.fd w1 (by omega), hb, byteOfN_ok hlt, packResponses_spec _ h4, fin_packFault _ _ h5 h6]
  simp only [hneg, ↓reduceIte, bind, Except.bind, pure, Except.pure, Spec.finished, C06Fixed.Spec.pdu, Spec.finParams,
    specOctets, List.append_assoc]

/-- `ConditionCode.NO_CONDITION_FIELD` (−1) is constructible but cannot be packed (`ValueError`) -/
theorem C06_finished_no_condition_field (k : Finished) (wf : C05.WF k.fd.header) (hc : k.fd.code < 256)
    (h : k.cond < 0) : k.pack = .error .value := by
  unfold Finished.pack
  rw [pack_spec k.fd wf hc]
  simp [h, bind, Except.bind, throw, throwThe, MonadExceptOf.throw]

/-- **length clauses**: one octet, the responses, the fault location, plus 2 with CRC -/
theorem C06_finished_len (k : Finished) (wf : WFFin k) :
    (Spec.finished k).length = k.packetLen ∧
    k.fd.header.dataFieldLen = (Spec.finished k).length - k.fd.header.headerLen ∧
    k.fd.header.dataFieldLen = k.packetLen - k.fd.header.headerLen ∧
    (Spec.finished k).length = k.fd.header.headerLen + 1
      + (1 + (Spec.responses k.responses).length + (Spec.fault k.faultLoc).length) + crcLen k.fd.header.conf := by
  have hl : (Spec.finParams k).length = 1 + (Spec.responses k.responses).length + (Spec.fault k.faultLoc).length := by
    simp only [Spec.finParams, List.length_append, List.length_cons, List.length_nil]
  have := pdu_len k.fd 5 1 (Spec.finParams k) (by rw [hl]; exact wf.2.2.2.2.2.2.2)
  rw [hl] at this
  exact this

theorem C06_finished_crc (k : Finished) :
    (k.fd.header.conf.crcFlag = 1 →
      Spec.finished k = (C05.Spec.octets k.fd.header ++ [u8 k.fd.code] ++ Spec.finParams k)
        ++ Crc.crcTrailer (C05.Spec.octets k.fd.header ++ [u8 k.fd.code] ++ Spec.finParams k) ∧
      Crc.crc16 (Spec.finished k) = 0) ∧
    (k.fd.header.conf.crcFlag ≠ 1 →
      Spec.finished k = C05.Spec.octets k.fd.header ++ [u8 k.fd.code] ++ Spec.finParams k) :=
  pdu_crc k.fd (Spec.finParams k)

private theorem packResponses_length (l : List FileStoreResponseTlv) (b : Bytes) (h : packResponses l = .ok b) :
    b.length = responsesLen l := by
  induction l generalizing b with
  | nil => cases h; rfl
  | cons r l ih =>
    simp only [packResponses, bind, Except.bind] at h
    cases hr : r.pack with
    | error e => rw [hr] at h; cases h
    | ok x =>
      rw [hr] at h
      cases hl : packResponses l with
      | error e => rw [hl] at h; cases h
      | ok y =>
        rw [hl] at h
        cases h
        simp only [List.length_append, responsesLen, C08.C08_fs_response_len r x hr, ih y hl]

private theorem fin_packFault_length (cond : Int) (fl : Option EntityIdTlv) (b : Bytes)
    (h : Finished.packFaultLoc cond fl = .ok b) : b.length = Finished.faultLen cond fl := by
  cases fl with
  | none => cases h; rfl
  | some t =>
    simp only [Finished.packFaultLoc, Finished.faultLen] at h ⊢
    split at h
    · rename_i hm
      simp only [hm, ↓reduceIte]
      exact CfdpTlv.pack_length t.tlv b h
    · rename_i hm
      simp only [hm]
      cases h; rfl

/-- **reported length = packed length for every parameter set, valid or not** (DESIGN §8: also for
    a fault location given with a condition code that cannot have one — it is neither packed nor
    counted): whenever the length the constructor / setters compute is in place and `pack` succeeds,
    the octets are `packet_len` long and the data-field length counts the octets after the header -/
theorem C06_finished_len_any (k : Finished) (wf : C05.WF k.fd.header) (hc : k.fd.code < 256)
    (hinv : k.fd.header.dataFieldLen
      = finParamLen k.fd.header.conf.crcFlag k.cond k.responses k.faultLoc + 1)
    (b : Bytes) (h : k.pack = .ok b) :
    b.length = k.packetLen ∧ k.fd.header.dataFieldLen = b.length - k.fd.header.headerLen := by
  unfold Finished.pack at h
  rw [pack_spec k.fd wf hc, bind_ok] at h
  have hsl := specOctets_length k.fd wf
  have hhl : k.fd.headerLen = k.fd.header.headerLen + 1 := rfl
  have hpl : k.packetLen = k.fd.header.dataFieldLen + k.fd.header.headerLen := rfl
  by_cases hneg : k.cond < 0
  · simp [hneg, bind, Except.bind, throw, throwThe, MonadExceptOf.throw] at h
  · simp only [hneg, ↓reduceIte] at h
    cases hb : byteOfN (((k.cond.toNat <<< 4) ||| (k.delivery <<< 2)) ||| k.status) with
    | error e => simp [hb, bind, Except.bind, pure, Except.pure] at h
    | ok x =>
      cases hr : packResponses k.responses with
      | error e => simp [hb, hr, bind, Except.bind, pure, Except.pure] at h
      | ok rs =>
        cases hf : Finished.packFaultLoc k.cond k.faultLoc with
        | error e => simp [hb, hr, hf, bind, Except.bind, pure, Except.pure] at h
        | ok fl =>
          simp only [hb, hr, hf, bind, Except.bind, pure, Except.pure, Except.ok.injEq] at h
          have l1 := packResponses_length _ _ hr
          have l2 := fin_packFault_length _ _ _ hf
          subst h
          unfold finParamLen at hinv
          unfold withCrc
          split
          · rename_i hcf
            simp only [hcf, ↓reduceIte] at hinv
            simp only [List.length_append, hsl, List.length_cons, List.length_nil, Crc.crcTrailer, Crc.be16, l1, l2]
            omega
          · rename_i hcf
            simp only [hcf, ↓reduceIte] at hinv
            simp only [List.length_append, hsl, List.length_cons, List.length_nil, l1, l2]
            omega

/-! ### the TLV loop on laid-out responses and fault location -/

private theorem spec_resp_head (r : FileStoreResponseTlv) (rest : Bytes) :
    idx (C08.Spec.fsResponse r ++ rest) 0 = .ok 1 := by
  simp [C08.Spec.fsResponse, C08.Spec.tlv, idx]

private theorem spec_fault_head (t : EntityIdTlv) (rest : Bytes) :
    idx (Spec.fault (some t) ++ rest) 0 = .ok 6 := by
  simp [Spec.fault, C08.Spec.entityId, C08.Spec.tlv, idx]

private theorem tail_nil (l : List FileStoreResponseTlv) (fl : Option EntityIdTlv) (wf : WFResponses l)
    (h : Spec.responses l ++ Spec.fault fl = []) : l = [] ∧ fl = none := by
  have hlen := congrArg List.length h
  simp only [List.length_append, List.length_nil] at hlen
  constructor
  · cases l with
    | nil => rfl
    | cons r l =>
      have := (resp_pack r (wf r List.mem_cons_self)).2.2
      simp only [Spec.responses, List.length_append] at hlen
      omega
  · cases fl with
    | none => rfl
    | some t =>
      have : 2 ≤ (Spec.fault (some t)).length := by simp [Spec.fault, C08.Spec.entityId, C08.Spec.tlv]
      omega

/-- **the loop reads laid-out filestore responses and the fault location back**, in order, and
    stops exactly at the end of its input -/
private theorem unpackTlvs_spec (might : Bool) (l : List FileStoreResponseTlv) (fl : Option EntityIdTlv)
    (wf : WFResponses l) (hfl : WFFault fl) (hm : fl ≠ none → might = true) (hne : l ≠ [] ∨ fl ≠ none) :
    unpackTlvs might (Spec.responses l ++ Spec.fault fl) = .ok (l, fl) := by
  induction l with
  | nil =>
    cases fl with
    | none => rcases hne with h | h <;> exact absurd rfl h
    | some t =>
      have hmt := hm (by simp)
      have hu := unpack_fault t hfl []
      rw [List.append_nil] at hu
      have hh := spec_fault_head t []
      rw [List.append_nil] at hh
      rw [unpackTlvs]
      simp only [Spec.responses, List.nil_append]
      rw [hh, bind_ok]
      have hlen : t.packetLen = (Spec.fault (some t)).length := by
        rw [fault_length]; rfl
      simp only [tFsResponse, tEntityId, show ¬ (6 : Nat) = 1 by omega, ↓reduceIte, hmt, not_true_eq_false, hu,
        bind_ok, hlen, ge_iff_le, Nat.le_refl, ↓reduceDIte, pure, Except.pure]
  | cons r l ih =>
    have hr := resp_pack r (wf r List.mem_cons_self)
    have hl : WFResponses l := fun q hq => wf q (List.mem_cons_of_mem _ hq)
    have hd : Spec.responses (r :: l) ++ Spec.fault fl
        = C08.Spec.fsResponse r ++ (Spec.responses l ++ Spec.fault fl) := by
      simp [Spec.responses]
    rw [unpackTlvs, hd, spec_resp_head, bind_ok]
    have hu := C08.C08_fs_response_roundtrip r (wf r List.mem_cons_self) (Spec.responses l ++ Spec.fault fl)
    simp only [tFsResponse, ↓reduceIte, hu, bind_ok]
    by_cases hnil : Spec.responses l ++ Spec.fault fl = []
    · obtain ⟨e1, e2⟩ := tail_nil l fl hl hnil
      subst e1 e2
      have : r.packetLen ≥ (C08.Spec.fsResponse r ++ (Spec.responses [] ++ Spec.fault none)).length := by
        simp [Spec.responses, Spec.fault, hr.2.1]
      simp only [this, ↓reduceDIte, pure, Except.pure]
    · have hpos : 0 < (Spec.responses l ++ Spec.fault fl).length := List.length_pos_iff.mpr hnil
      have : ¬ r.packetLen ≥ (C08.Spec.fsResponse r ++ (Spec.responses l ++ Spec.fault fl)).length := by
        rw [List.length_append, hr.2.1]; omega
      simp only [this, ↓reduceDIte]
      have hdrop : (C08.Spec.fsResponse r ++ (Spec.responses l ++ Spec.fault fl)).drop r.packetLen
          = Spec.responses l ++ Spec.fault fl := List.drop_left' hr.2.1
      have hne' : l ≠ [] ∨ fl ≠ none := by
        by_cases h1 : l = []
        · by_cases h2 : fl = none
          · subst h1 h2; simp [Spec.responses, Spec.fault] at hnil
          · exact Or.inr h2
        · exact Or.inl h1
      rw [hdrop, ih hl hne', bind_ok]
      rfl

private theorem fin_octet (c d s : Nat) (hc : c < 16) (hd : d < 2) (hs : s < 4) :
    (c * 16 + d * 4 + s) % 256 / 16 % 16 = c ∧ (c * 16 + d * 4 + s) % 256 / 4 % 2 = d ∧
    (c * 16 + d * 4 + s) % 256 % 4 = s := by omega

/-- **round trip, whatever follows the PDU**: decoding the packed PDU followed by arbitrary octets
    returns the identical PDU — same header, condition / delivery / status codes, the same filestore
    responses in the same order and the same fault location; neither the CRC trailer nor trailing
    octets are read as TLVs -/
theorem C06_finished_roundtrip (k : Finished) (wf : WFFin k) (rest : Bytes) :
    Finished.unpack (Spec.finished k ++ rest) = .ok k := by
  obtain ⟨h0, h1, h2, h3, h4, h5, h6, wb⟩ := wf
  have hpl : (Spec.finParams k).length = 1 + (Spec.responses k.responses).length + (Spec.fault k.faultLoc).length := by
    simp only [Spec.finParams, List.length_append, List.length_cons, List.length_nil]
  have wb' : WFBase k.fd 5 1 (Spec.finParams k).length := by rw [hpl]; exact wb
  obtain ⟨hp, _⟩ := prelude_pdu k.fd 5 1 (Spec.finParams k) rest wb' (by omega)
  have w1 := wb.1
  have hc16 := cond_lt _ h1
  rw [Finished.unpack_eq, Spec.finished, hp]
  show Finished.parse (k.fd, specOctets k.fd ++ Spec.finParams k) = _
  have hsl := specOctets_length k.fd w1
  have hlen : (specOctets k.fd ++ Spec.finParams k).length
      = k.fd.headerLen + 1 + (Spec.responses k.responses ++ Spec.fault k.faultLoc).length := by
    simp only [List.length_append, hsl, hpl]; omega
  have hi : idx (specOctets k.fd ++ Spec.finParams k) k.fd.headerLen
      = .ok ((k.cond.toNat * 16 + k.delivery * 4 + k.status) % 256) := by
    have := idx_params k.fd w1 (Spec.finParams k) 0
    rw [Nat.add_zero] at this
    rw [this]
    simp [Spec.finParams, idx]
  obtain ⟨o1, o2, o3⟩ := fin_octet _ _ _ hc16 h2 h3
  have hcast : ((k.cond.toNat : Nat) : Int) = k.cond := by omega
  have hdl : k.fd.header.dataFieldLen
      = finParamLen k.fd.header.conf.crcFlag k.cond k.responses k.faultLoc + 1 := by
    rw [fin_plen _ k h4 h6]; have := wb.2.2.2.2.2; simpa [crcLen] using this
  have hle : k.fd.header.dataFieldLen ≤ 65535 := by have := w1.2.2.2.2.2.2.2.1; omega
  unfold Finished.parse
  simp only []
  have c1 : ¬ k.fd.headerLen ≥ (specOctets k.fd ++ Spec.finParams k).length := by omega
  rw [if_neg c1, hi]
  simp only [bind_ok, o1, o2, o3, enumOf, h1, ↓reduceIte, hcast]
  rw [Finished.calcLen_eq']
  have hmono : finParamLen k.fd.header.conf.crcFlag k.cond [] none
      ≤ finParamLen k.fd.header.conf.crcFlag k.cond k.responses k.faultLoc := by
    unfold finParamLen
    have := Finished.faultLen_none_le k.cond k.faultLoc
    simp only [responsesLen]; omega
  have g0 : ¬ 65535 < finParamLen k.fd.header.conf.crcFlag k.cond [] none + 1 := by omega
  rw [if_neg g0, bind_ok]
  by_cases hne : k.responses ≠ [] ∨ k.faultLoc ≠ none
  · have hpos : 0 < (Spec.responses k.responses ++ Spec.fault k.faultLoc).length := by
      apply List.length_pos_iff.mpr
      intro hnil
      obtain ⟨e1, e2⟩ := tail_nil _ _ h4 hnil
      rcases hne with h | h
      · exact h e1
      · exact h e2
    have c2 : (specOctets k.fd ++ Spec.finParams k).length > k.fd.headerLen + 1 := by omega
    rw [if_pos c2, drop_params k.fd w1]
    have hd : (Spec.finParams k).drop 1 = Spec.responses k.responses ++ Spec.fault k.faultLoc := by
      simp [Spec.finParams]
    rw [hd, unpackTlvs_spec _ _ _ h4 h5 h6 hne, bind_ok, Finished.finish_eq]
    simp only []
    have hmono2 : finParamLen k.fd.header.conf.crcFlag k.cond k.responses none
        ≤ finParamLen k.fd.header.conf.crcFlag k.cond k.responses k.faultLoc := by
      unfold finParamLen
      have := Finished.faultLen_none_le k.cond k.faultLoc
      omega
    have g1 : ¬ 65535 < finParamLen k.fd.header.conf.crcFlag k.cond k.responses none + 1 := by omega
    rw [if_neg g1, Finished.calcLen_setLen, Finished.calcLen_eq']
    have g2 : ¬ 65535 < finParamLen k.fd.header.conf.crcFlag k.cond k.responses k.faultLoc + 1 := by omega
    rw [if_neg g2, bind_ok, fd_eta k.fd _ hdl]
    rfl
  · have e1 : k.responses = [] := by
      by_cases h : k.responses = []
      · exact h
      · exact absurd (Or.inl h) hne
    have e2 : k.faultLoc = none := by
      by_cases h : k.faultLoc = none
      · exact h
      · exact absurd (Or.inr h) hne
    have c2 : ¬ (specOctets k.fd ++ Spec.finParams k).length > k.fd.headerLen + 1 := by
      rw [hlen, e1, e2]; simp [Spec.responses, Spec.fault]
    rw [if_neg c2]
    rw [e1, e2] at hdl
    rw [fd_eta k.fd _ hdl]
    cases k with
    | mk fd cond dl st rs fl =>
      simp only at e1 e2
      subst e1 e2
      rfl

/-- a well-formed list of filestore responses compares equal to itself (no element raises) -/
private theorem responsesBeqAux_refl : ∀ l : List FileStoreResponseTlv, WFResponses l → responsesBeqAux l l = .ok true := by
  intro l
  induction l with
  | nil => intro _; rfl
  | cons r l ih =>
    intro hl
    have hr := (resp_pack r (hl r List.mem_cons_self)).1
    have hv : r.value = .ok (C08.Spec.fsResponse r).tail.tail := by
      unfold FileStoreResponseTlv.pack at hr
      unfold FileStoreResponseTlv.value
      cases hb : r.buildTlv with
      | error e => rw [hb] at hr; cases hr
      | ok t =>
        rw [hb, bind_ok] at hr
        obtain ⟨_, _, he⟩ := CfdpTlv.pack_ok t _ hr
        rw [he]
        rfl
    have hl' : WFResponses l := fun q hq => hl q (List.mem_cons_of_mem _ hq)
    simp only [responsesBeqAux, AnyTlv.beq, AnyTlv.tlvType, AnyTlv.value, hv, ne_eq, not_true_eq_false,
      ↓reduceIte, bind, Except.bind, pure, Except.pure, BEq.rfl, ih hl']

/-- the decoded PDU **compares equal** to the original (both ways) and **re-packs to the same
    octets** (`==` needs a fault location whose entity ID has a width the library can compare) -/
theorem C06_finished_eq_repack (k : Finished) (wf : WFFin k) (hw : EqWidth k.faultLoc) (rest : Bytes) :
    ∃ k', (k.pack >>= fun b => Finished.unpack (b ++ rest)) = .ok k' ∧ k' = k ∧
      k.beq k' = .ok true ∧ k'.beq k = .ok true ∧ k'.pack = k.pack := by
  refine ⟨k, ?_, rfl, ?_, ?_, rfl⟩
  · rw [C06_finished_pack_exact k wf]; exact C06_finished_roundtrip k wf rest
  all_goals
    simp [Finished.beq, responsesBeq, responsesBeqAux_refl _ wf.2.2.2.2.1, optEntityBeq_refl _ hw, beq_refl, bind,
      Except.bind, pure, Except.pure]

/-- counterpart of `C06_eof_eq_other_width`: with a fault location whose entity ID has any other
    width (`WFFault` allows 0..255 octets) **`==` raises `ValueError`** — on the object itself and on
    the decoded PDU against the original, in both directions (documented class; nothing is compared
    wrongly, but the statement's "compares equal" does not hold there; the structural round trip
    `C06_finished_roundtrip` and the identical re-pack do) -/
theorem C06_finished_eq_other_width (k : Finished) (wf : WFFin k) (t : EntityIdTlv) (hf : k.faultLoc = some t)
    (hw : t.value.length ∉ [1, 2, 4, 8]) (rest : Bytes) :
    k.beq k = .error .value ∧
    ∃ k', (k.pack >>= fun b => Finished.unpack (b ++ rest)) = .ok k' ∧
      k.beq k' = .error .value ∧ k'.beq k = .error .value ∧ k'.pack = k.pack := by
  have h : k.beq k = .error .value := by
    simp [Finished.beq, responsesBeq, responsesBeqAux_refl _ wf.2.2.2.2.1, hf, Eof.optEntityBeq, EntityIdTlv.beq,
      ubfValue, hw, bind, Except.bind, pure, Except.pure]
  refine ⟨h, k, ?_, h, h, rfl⟩
  rw [C06_finished_pack_exact k wf]; exact C06_finished_roundtrip k wf rest

/-- **the three documented setters keep the length consistent**: afterwards the PDU is the one a
    fresh constructor call with the new value gives (or both are refused as too long) -/
theorem C06_finished_setters (c : PduConfig) (cond : Int) (dc fs : Nat) (rs : List FileStoreResponseTlv)
    (fl : Option EntityIdTlv) (hn : finParamLen c.crcFlag cond rs fl + 1 ≤ 65535) :
    (∀ cond', (Finished.new c cond dc fs rs fl >>= fun k => k.setCond cond') = Finished.new c cond' dc fs rs fl) ∧
    (∀ rs', (Finished.new c cond dc fs rs fl >>= fun k => k.setResponses rs')
      = Finished.new c cond dc fs (rs'.getD []) fl) ∧
    (∀ fl', (Finished.new c cond dc fs rs fl >>= fun k => k.setFaultLoc fl') = Finished.new c cond dc fs rs fl') := by
  by_cases g : c.source.width ≠ c.dest.width
  · refine ⟨fun _ => ?_, fun _ => ?_, fun _ => ?_⟩ <;>
      rw [Finished.new_eq, Finished.new_eq, if_pos (Or.inl g), if_pos (Or.inl g)] <;> rfl
  · have g0 : ¬ (c.source.width ≠ c.dest.width ∨ 65535 < finParamLen c.crcFlag cond rs fl + 1) := by omega
    refine ⟨fun cond' => ?_, fun rs' => ?_, fun fl' => ?_⟩
    · rw [Finished.new_eq, Finished.new_eq, if_neg g0, bind_ok, Finished.setCond_eq]
      by_cases g1 : 65535 < finParamLen c.crcFlag cond' rs fl + 1
      · simp [g, g1]
      · simp [g, g1]
    · rw [Finished.new_eq, Finished.new_eq, if_neg g0, bind_ok, Finished.setResponses_eq]
      by_cases g1 : 65535 < finParamLen c.crcFlag cond (rs'.getD []) fl + 1
      · simp [g, g1]
      · simp [g, g1]
    · rw [Finished.new_eq, Finished.new_eq, if_neg g0, bind_ok, Finished.setFaultLoc_eq]
      by_cases g1 : 65535 < finParamLen c.crcFlag cond rs fl' + 1
      · simp [g, g1]
      · simp [g, g1]

/-- the decoder fails, for any octet string whatever, only with `ValueError`,
    `UnsupportedCfdpVersion`, `InvalidCrc` or `TlvTypeMissmatch`; its TLV loop terminates (it is
    defined by well-founded recursion) and never raises `IndexError` -/
theorem C06_finished_documented (d : Bytes) : Documented (Finished.unpack d) := Finished.unpack_documented d

/-- what acceptance means: the buffer holds the whole declared PDU, the CRC-16 over exactly the
    declared PDU is zero when the flag is set, and the result depends on the declared PDU only -/
theorem C06_finished_accept_sound (d : Bytes) (k : Finished) (h : Finished.unpack d = .ok k) :
    ∃ fd p, prelude d = .ok (fd, p) ∧ fd.packetLen ≤ d.length ∧
      (fd.header.conf.crcFlag = 1 → Crc.crc16 (d.take fd.packetLen) = 0) ∧
      ∀ rest, Finished.unpack (d.take fd.packetLen ++ rest) = .ok k := by
  obtain ⟨fd, p, hp, hf, h3, h4, h2⟩ := Finished.unpack_inv d k h
  refine ⟨fd, p, hp, h3, h4, fun rest => ?_⟩
  rw [Finished.unpack_eq, prelude_take d fd p hp (by omega) rest]
  exact hf

/-- **every strict prefix of a packed PDU is refused with `ValueError`** -/
theorem C06_finished_truncated (x : Finished) (wf : WFFin x) (k : Nat) (hk : k < (Spec.finished x).length) :
    Finished.unpack ((Spec.finished x).take k) = .error .value := by
  rw [Finished.unpack_eq]
  have hl : (Spec.finParams x).length = 1 + (Spec.responses x.responses).length + (Spec.fault x.faultLoc).length := by
    simp only [Spec.finParams, List.length_append, List.length_cons, List.length_nil]
  exact pdu_truncated _ x.fd _ _ _ (by rw [hl]; exact wf.2.2.2.2.2.2.2) k hk

-- non-vacuity: FILESTORE_REJECTION, data incomplete, file retained, two responses (one with two names and a
-- non-ASCII name), 4-octet fault location, CRC
private def exFin : Finished :=
  ⟨⟨⟨0, 0, 26, ⟨⟨1, 7⟩, ⟨1, 8⟩, ⟨2, 0x0102⟩, 1, 0, 1, 1, 0⟩⟩, 5⟩, 4, 1, 2,
    [⟨0, 1, [0x61], [], ⟨[]⟩⟩, ⟨2, 33, [0xC3, 0xA4], [0x62], ⟨[9]⟩⟩], some ⟨⟨6, [1, 2, 3, 4]⟩⟩⟩
example : WFFin exFin := by decide
example : Finished.new ⟨⟨1, 7⟩, ⟨1, 8⟩, ⟨2, 0x0102⟩, 1, 0, 1, 0, 0⟩ 4 1 2
    [⟨0, 1, [0x61], [], ⟨[]⟩⟩, ⟨2, 33, [0xC3, 0xA4], [0x62], ⟨[9]⟩⟩] (some ⟨⟨6, [1, 2, 3, 4]⟩⟩) = .ok exFin := by rfl
example : C05.Spec.octets exFin.fd.header ++ [u8 exFin.fd.code] ++ Spec.finParams exFin
    = [0x2E, 0, 26, 0x01, 7, 1, 2, 8, 5, 0x46,
       1, 4, 0x01, 1, 0x61, 0,
       1, 8, 0x21, 2, 0xC3, 0xA4, 1, 0x62, 1, 9,
       6, 4, 1, 2, 3, 4] := by decide
example : WFFin ⟨⟨⟨0, 0, 2, ⟨⟨1, 0⟩, ⟨1, 0⟩, ⟨1, 0⟩, 0, 0, 0, 1, 0⟩⟩, 5⟩, 0, 0, 2, [], none⟩ := by decide
-- a well-formed Finished PDU whose fault location has a 3-octet entity ID: `==` raises (C06_finished_eq_other_width)
example : WFFin ⟨⟨⟨0, 0, 7, ⟨⟨1, 0⟩, ⟨1, 0⟩, ⟨1, 0⟩, 0, 0, 0, 1, 0⟩⟩, 5⟩, 4, 0, 2, [], some ⟨⟨6, [7, 8, 9]⟩⟩⟩ ∧
    ¬ EqWidth (some ⟨⟨6, [7, 8, 9]⟩⟩) ∧
    Finished.beq ⟨⟨⟨0, 0, 7, ⟨⟨1, 0⟩, ⟨1, 0⟩, ⟨1, 0⟩, 0, 0, 0, 1, 0⟩⟩, 5⟩, 4, 0, 2, [], some ⟨⟨6, [7, 8, 9]⟩⟩⟩
      ⟨⟨⟨0, 0, 7, ⟨⟨1, 0⟩, ⟨1, 0⟩, ⟨1, 0⟩, 0, 0, 0, 1, 0⟩⟩, 5⟩, 4, 0, 2, [], some ⟨⟨6, [7, 8, 9]⟩⟩⟩ = .error .value := by
  decide
-- a fault location with "no error" is outside the exact-layout domain
example : ¬ WFFin ⟨⟨⟨0, 0, 2, ⟨⟨1, 0⟩, ⟨1, 0⟩, ⟨1, 0⟩, 0, 0, 0, 1, 0⟩⟩, 5⟩, 0, 0, 2, [], some ⟨⟨6, [1]⟩⟩⟩ := by decide

/-! ## Metadata (`C06_metadata_*`) -/

/-- an `EntityIdTlv` *object* (not an option of the standard; its `__eq__` is `False` against the
    generic TLV the decoder yields) -/
def isEntityObj : AnyTlv → Bool
  | .entityId _ => true
  | _ => false

/-- the value octets of a TLV object (`[]` if `.value` raises) -/
def optValue (a : AnyTlv) : Bytes :=
  match a.value with
  | .ok v => v
  | .error _ => []

/-- a valid option: a TLV object of the library (generic, flow label, message to user,
    fault-handler override, filestore request / response) with a type of the standard whose value
    can be built, has 0..255 octets and which packs to type, length, value (C08) -/
def WFOpt (a : AnyTlv) : Prop :=
  isEntityObj a = false ∧ a.tlvType ∈ tlvTypes ∧ (optValue a).length ≤ 255 ∧
  a.value = .ok (optValue a) ∧ a.pack = .ok (C08.Spec.tlv a.tlvType (optValue a))

instance (a : AnyTlv) : Decidable (WFOpt a) := by unfold WFOpt; infer_instance

def WFOptions (l : List AnyTlv) : Prop := ∀ a ∈ l, WFOpt a

instance (l : List AnyTlv) : Decidable (WFOptions l) := by unfold WFOptions; infer_instance

/-- the options as the standard lays them out: type, length, value, in list order -/
def Spec.options : List AnyTlv → Bytes
  | [] => []
  | a :: l => C08.Spec.tlv a.tlvType (optValue a) ++ Spec.options l

/-- valid Metadata PDUs: closure requested or not, every `ChecksumType` member, a file size over
    the full range of the selected FSS width, names of 0..255 octets (any octets; the library
    produces UTF-8), no options / an empty list / any number of valid options that fits the 16-bit
    data-field length, towards the receiver, any header configuration -/
def WFMd (k : Metadata) : Prop :=
  k.checksumType ∈ checksumTypes ∧ fits (fssWidth k.fd.header.conf.fileFlag) k.fileSize ∧
  k.srcLv.value.length ≤ 255 ∧ k.dstLv.value.length ≤ 255 ∧ WFOptions (optList k.options) ∧
  WFBase k.fd 7 0 (1 + fssWidth k.fd.header.conf.fileFlag + (1 + k.srcLv.value.length)
    + (1 + k.dstLv.value.length) + (Spec.options (optList k.options)).length)

instance (k : Metadata) : Decidable (WFMd k) := by unfold WFMd; infer_instance

/-- the parameters of 727.0-B-5 §5.2.5 -/
def Spec.mdParams (k : Metadata) : Bytes :=
  [u8 ((if k.closure then 64 else 0) + k.checksumType)]
    ++ beBytes (fssWidth k.fd.header.conf.fileFlag) k.fileSize.toNat
    ++ C08.Spec.lv k.srcLv.value ++ C08.Spec.lv k.dstLv.value ++ Spec.options (optList k.options)

def Spec.metadata (k : Metadata) : Bytes := C06Fixed.Spec.pdu k.fd (Spec.mdParams k)

private theorem mdParams_length (k : Metadata) :
    (Spec.mdParams k).length = 1 + fssWidth k.fd.header.conf.fileFlag + (1 + k.srcLv.value.length)
      + (1 + k.dstLv.value.length) + (Spec.options (optList k.options)).length := by
  simp only [Spec.mdParams, C08.Spec.lv, List.length_append, List.length_cons, List.length_nil, beBytes_length]
  omega

private theorem ct_lt (c : Nat) (h : c ∈ checksumTypes) : c < 16 := by
  simp only [checksumTypes, List.mem_cons, List.not_mem_nil, or_false] at h; omega

private theorem md_octet (cl : Bool) (c : Nat) (h : c ∈ checksumTypes) :
    ((if cl then 64 else 0) ||| c) = (if cl then 64 else 0) + c := by
  simp only [checksumTypes, List.mem_cons, List.not_mem_nil, or_false] at h
  rcases h with rfl | rfl | rfl | rfl | rfl <;> cases cl <;> rfl

private theorem opt_len (a : AnyTlv) (wf : WFOpt a) : a.packetLen = (C08.Spec.tlv a.tlvType (optValue a)).length :=
  (C08.C08_packet_len a _ wf.2.2.2.2).symm

private theorem optionsLen_spec (l : List AnyTlv) (wf : WFOptions l) : optionsLen l = (Spec.options l).length := by
  induction l with
  | nil => rfl
  | cons a l ih =>
    have ha := opt_len a (wf a List.mem_cons_self)
    have hl : WFOptions l := fun q hq => wf q (List.mem_cons_of_mem _ hq)
    simp only [optionsLen, Spec.options, List.length_append, ih hl, ha]

private theorem packOptions_spec (l : List AnyTlv) (wf : WFOptions l) : packOptions l = .ok (Spec.options l) := by
  induction l with
  | nil => rfl
  | cons a l ih =>
    have ha := (wf a List.mem_cons_self).2.2.2.2
    have hl : WFOptions l := fun q hq => wf q (List.mem_cons_of_mem _ hq)
    simp only [packOptions, ha, ih hl, bind, Except.bind, pure, Except.pure, Spec.options]

private theorem md_plen (f c : Nat) (s d : CfdpLv) (o : Option (List AnyTlv)) (wf : WFOptions (optList o)) :
    mdParamLen f c s d o + 1 = 1 + (1 + fssWidth f + (1 + s.value.length) + (1 + d.value.length)
      + (Spec.options (optList o)).length) + (if c = 1 then 2 else 0) := by
  unfold mdParamLen CfdpLv.packetLen
  rw [optionsLen_spec _ wf]
  omega

/-- the constructor accepts every configuration and every parameter set whose encoding fits the
    16-bit data-field length (names of at most 255 octets; `None` is the empty name), forces the
    direction "towards receiver" and yields a valid PDU -/
theorem C06_metadata_new (c : PduConfig) (wf : WFConf c) (cl : Bool) (ct : Nat) (size : Int)
    (src dst : Option Bytes) (opts : Option (List AnyTlv))
    (hs : (nameOctets src).length ≤ 255) (hd : (nameOctets dst).length ≤ 255)
    (hn : mdParamLen c.fileFlag c.crcFlag ⟨nameOctets src⟩ ⟨nameOctets dst⟩ opts + 1 ≤ 65535) :
    ∃ k, Metadata.new c cl ct size src dst opts = .ok k ∧ k.closure = cl ∧ k.checksumType = ct ∧
      k.fileSize = size ∧ k.srcLv = ⟨nameOctets src⟩ ∧ k.dstLv = ⟨nameOctets dst⟩ ∧ k.options = opts ∧
      k.fd.header.conf = { c with direction := 0 } ∧
      (ct ∈ checksumTypes → fits (fssWidth c.fileFlag) size → WFOptions (optList opts) → WFMd k) := by
  rw [Metadata.new_eq]
  have g0 : ¬ (255 < (nameOctets src).length ∨ 255 < (nameOctets dst).length) := by omega
  have g : ¬ (c.source.width ≠ c.dest.width ∨
      65535 < mdParamLen c.fileFlag c.crcFlag ⟨nameOctets src⟩ ⟨nameOctets dst⟩ opts + 1) := by
    have := wf.2.2.2.2.2.2.2.2; omega
  rw [if_neg g0, if_neg g]
  refine ⟨_, rfl, rfl, rfl, rfl, rfl, rfl, rfl, rfl, ?_⟩
  intro h1 h2 h3
  refine ⟨h1, h2, hs, hd, h3, ?_, rfl, rfl, rfl, rfl, ?_⟩
  · exact wf_dirHeader c wf _ _ (by omega) (by omega)
  · simp only [crcLen]
    exact md_plen _ _ _ _ _ h3

/-- a name of more than 255 octets, or more options than the 16-bit data-field length can
    describe, are refused (`ValueError`) by the constructor -/
theorem C06_metadata_too_long (c : PduConfig) (cl : Bool) (ct : Nat) (size : Int) (src dst : Option Bytes)
    (opts : Option (List AnyTlv))
    (h : 255 < (nameOctets src).length ∨ 255 < (nameOctets dst).length ∨
      65535 < mdParamLen c.fileFlag c.crcFlag ⟨nameOctets src⟩ ⟨nameOctets dst⟩ opts + 1) :
    Metadata.new c cl ct size src dst opts = .error .value := by
  rw [Metadata.new_eq]
  by_cases g0 : 255 < (nameOctets src).length ∨ 255 < (nameOctets dst).length
  · rw [if_pos g0]
  · rw [if_neg g0, if_pos (Or.inr (by omega))]

private theorem pow8 : (256 : Nat) ^ 8 = 18446744073709551616 := by decide
private theorem pow4 : (256 : Nat) ^ 4 = 4294967296 := by decide

private theorem verify_fits (fd : FileDirective) (size : Int) (hf : fd.header.conf.fileFlag < 2)
    (h : fits (fssWidth fd.header.conf.fileFlag) size) : fd.verifyFileLen size = .ok () := by
  rw [verifyFileLen_eq]
  obtain ⟨h0, h1⟩ := h
  unfold fssWidth at h1
  have p8 := pow8
  have p4 := pow4
  by_cases hl : fd.header.conf.fileFlag = 1
  · simp only [hl, ↓reduceIte] at h1
    have g : ¬ ((fd.header.conf.fileFlag = 1 ∧ size > 18446744073709551616) ∨
        (fd.header.conf.fileFlag = 0 ∧ size > 4294967296)) := by omega
    rw [if_neg g]
  · simp only [hl, ↓reduceIte] at h1
    have g : ¬ ((fd.header.conf.fileFlag = 1 ∧ size > 18446744073709551616) ∨
        (fd.header.conf.fileFlag = 0 ∧ size > 4294967296)) := by omega
    rw [if_neg g]

/-- **pack = standard layout**, for every valid Metadata PDU (names as LVs, options in list order)
    in every header configuration -/
theorem C06_metadata_pack_exact (k : Metadata) (wf : WFMd k) : k.pack = .ok (Spec.metadata k) := by
  obtain ⟨h1, h2, h3, h4, h5, w1, _, _, w4, _, _⟩ := wf
  unfold Metadata.pack
  have hlt : (if k.closure then 64 else 0) + k.checksumType < 256 := by
    have := ct_lt _ h1; split <;> omega
  rw [verify_fits k.fd _ w1.2.2.2.2.1 h2, pack_spec k.fd w1 (by omega), md_octet _ _ h1, byteOfN_ok hlt, wsel,
    Nak.packInt_fits _ _ h2, CfdpLv.pack_eq _ h3, CfdpLv.pack_eq _ h4, packOptions_spec _ h5]
  simp only [bind, Except.bind, pure, Except.pure, Spec.metadata, C06Fixed.Spec.pdu, Spec.mdParams, specOctets,
    C08.Spec.lv, List.append_assoc]

/-- **a file size that does not fit the selected width makes `pack` fail, never truncate**:
    `ValueError` from `_verify_file_len` above 2^32 / 2^64, `struct.error` from `struct.pack` for
    exactly 2^32 / 2^64 and for negative sizes -/
theorem C06_metadata_fss_overflow (k : Metadata) (wf : C05.WF k.fd.header) (hc : k.fd.code < 256)
    (hct : k.checksumType ∈ checksumTypes)
    (h : ¬ fits (fssWidth k.fd.header.conf.fileFlag) k.fileSize) :
    k.pack = .error .value ∨ k.pack = .error .struct := by
  unfold Metadata.pack
  rw [verifyFileLen_eq]
  split
  · left; rfl
  · right
    have hlt : (if k.closure then 64 else 0) + k.checksumType < 256 := by
      have := ct_lt _ hct; split <;> omega
    rw [bind_ok, pack_spec k.fd wf hc, md_octet _ _ hct, byteOfN_ok hlt, wsel]
    have hs : packInt (fssWidth k.fd.header.conf.fileFlag) k.fileSize = .error .struct := by
      unfold fits at h
      by_cases h0 : k.fileSize < 0
      · exact packInt_neg _ _ h0
      · exact packInt_big _ _ (by omega) (by omega)
    rw [hs]
    rfl

/-- **length clauses**: 1 + FSS octets + the two LVs + the options, plus 2 with CRC -/
theorem C06_metadata_len (k : Metadata) (wf : WFMd k) :
    (Spec.metadata k).length = k.packetLen ∧
    k.fd.header.dataFieldLen = (Spec.metadata k).length - k.fd.header.headerLen ∧
    k.fd.header.dataFieldLen = k.packetLen - k.fd.header.headerLen ∧
    (Spec.metadata k).length = k.fd.header.headerLen + 1
      + (1 + fssWidth k.fd.header.conf.fileFlag + (1 + k.srcLv.value.length) + (1 + k.dstLv.value.length)
          + (Spec.options (optList k.options)).length) + crcLen k.fd.header.conf := by
  have hl := mdParams_length k
  have := pdu_len k.fd 7 0 (Spec.mdParams k) (by rw [hl]; exact wf.2.2.2.2.2)
  rw [hl] at this
  exact this

theorem C06_metadata_crc (k : Metadata) :
    (k.fd.header.conf.crcFlag = 1 →
      Spec.metadata k = (C05.Spec.octets k.fd.header ++ [u8 k.fd.code] ++ Spec.mdParams k)
        ++ Crc.crcTrailer (C05.Spec.octets k.fd.header ++ [u8 k.fd.code] ++ Spec.mdParams k) ∧
      Crc.crc16 (Spec.metadata k) = 0) ∧
    (k.fd.header.conf.crcFlag ≠ 1 →
      Spec.metadata k = C05.Spec.octets k.fd.header ++ [u8 k.fd.code] ++ Spec.mdParams k) :=
  pdu_crc k.fd (Spec.mdParams k)

/-! ### the option loop on laid-out options; what the decoder returns -/

/-- the generic TLV the decoder yields for an option -/
def toGeneric (a : AnyTlv) : AnyTlv := .generic ⟨a.tlvType, optValue a⟩

/-- the decoder's view of the option list: no options and an empty list are the same PDU, every
    option comes back as a generic TLV of the same type and value -/
def normOptions : Option (List AnyTlv) → Option (List AnyTlv)
  | none => none
  | some [] => none
  | some (a :: l) => some ((a :: l).map toGeneric)

/-- the PDU as the decoder returns it -/
def normMd (k : Metadata) : Metadata := { k with options := normOptions k.options }

private theorem tlv_spec_len (t : Nat) (v : Bytes) : (C08.Spec.tlv t v).length = 2 + v.length := by
  simp [C08.Spec.tlv]; omega

/-- **the loop reads laid-out options back**, in order, and stops exactly at the end of its input -/
private theorem parseOptions_spec (l : List AnyTlv) (wf : WFOptions l) (hne : l ≠ []) :
    parseOptions (Spec.options l) = .ok (l.map fun a => ⟨a.tlvType, optValue a⟩) := by
  induction l with
  | nil => exact absurd rfl hne
  | cons a l ih =>
    obtain ⟨_, ht, hv, _, _⟩ := wf a List.mem_cons_self
    have hl : WFOptions l := fun q hq => wf q (List.mem_cons_of_mem _ hq)
    have hu := CfdpTlv.unpack_pack_append a.tlvType (optValue a) (Spec.options l) ht hv
    rw [parseOptions]
    have hd : Spec.options (a :: l) = u8 a.tlvType :: u8 (optValue a).length :: (optValue a ++ Spec.options l) := by
      simp [Spec.options, C08.Spec.tlv]
    rw [hd, hu, bind_ok]
    have hlen : (u8 a.tlvType :: u8 (optValue a).length :: (optValue a ++ Spec.options l)).length
        = 2 + (optValue a).length + (Spec.options l).length := by
      simp only [List.length_cons, List.length_append]; omega
    have hpl : (CfdpTlv.mk a.tlvType (optValue a)).packetLen = 2 + (optValue a).length := rfl
    rw [hpl, hlen]
    have c1 : ¬ 2 + (optValue a).length > 2 + (optValue a).length + (Spec.options l).length := by omega
    rw [if_neg c1]
    cases l with
    | nil =>
      have c2 : 2 + (optValue a).length = 2 + (optValue a).length + (Spec.options []).length := by
        simp [Spec.options]
      rw [dif_pos c2]
      rfl
    | cons b l' =>
      have hb := tlv_spec_len b.tlvType (optValue b)
      have c2 : ¬ 2 + (optValue a).length = 2 + (optValue a).length + (Spec.options (b :: l')).length := by
        simp only [Spec.options, List.length_append]; omega
      rw [dif_neg c2]
      have hdrop : (u8 a.tlvType :: u8 (optValue a).length :: (optValue a ++ Spec.options (b :: l'))).drop
          (2 + (optValue a).length) = Spec.options (b :: l') := by
        have : u8 a.tlvType :: u8 (optValue a).length :: (optValue a ++ Spec.options (b :: l'))
            = (u8 a.tlvType :: u8 (optValue a).length :: optValue a) ++ Spec.options (b :: l') := by simp
        rw [this]
        apply List.drop_left'
        simp only [List.length_cons]; omega
      rw [hdrop, ih hl (by simp), bind_ok]
      rfl

private theorem md_first (cl : Bool) (c : Nat) (h : c < 16) :
    ((if cl then 64 else 0) + c) % 256 % 16 = c ∧
    (decide (((if cl then 64 else 0) + c) % 256 / 64 % 2 = 1)) = cl := by
  cases cl
  · simp only [Bool.false_eq_true, ↓reduceIte, Nat.zero_add]
    refine ⟨by omega, ?_⟩
    have : ¬ (c % 256 / 64 % 2 = 1) := by omega
    simp [this]
  · simp only [↓reduceIte]
    refine ⟨by omega, ?_⟩
    have : (64 + c) % 256 / 64 % 2 = 1 := by omega
    simp [this]

/-- **round trip, whatever follows the PDU**: decoding the packed PDU followed by arbitrary octets
    returns the PDU with identical header, closure flag, checksum type, file size and names, and the
    options as generic TLVs of the same types and values in the same order (`None` for no / an empty
    list) — neither the CRC trailer nor trailing octets are read as options -/
theorem C06_metadata_roundtrip (k : Metadata) (wf : WFMd k) (rest : Bytes) :
    Metadata.unpack (Spec.metadata k ++ rest) = .ok (normMd k) := by
  obtain ⟨h1, h2, h3, h4, h5, wb⟩ := wf
  have hpl := mdParams_length k
  have wb' : WFBase k.fd 7 0 (Spec.mdParams k).length := by rw [hpl]; exact wb
  obtain ⟨hp, _⟩ := prelude_pdu k.fd 7 0 (Spec.mdParams k) rest wb' (by omega)
  have w1 := wb.1
  have hw := Nak.fssWidth_pos k.fd.header.conf.fileFlag
  have hct := ct_lt _ h1
  rw [Metadata.unpack_eq, Spec.metadata, hp]
  show Metadata.parse (k.fd, specOctets k.fd ++ Spec.mdParams k) = _
  have hsl := specOctets_length k.fd w1
  generalize hwd : fssWidth k.fd.header.conf.fileFlag = w at *
  generalize hO : Spec.options (optList k.options) = O at *
  have hlen : (specOctets k.fd ++ Spec.mdParams k).length
      = k.fd.headerLen + (1 + w + (1 + k.srcLv.value.length) + (1 + k.dstLv.value.length) + O.length) := by
    simp only [List.length_append, hsl, hpl]
  unfold Metadata.parse
  simp only []
  have hmin : (if k.fd.header.conf.fileFlag = 1 then k.fd.headerLen + 7 + 4 else k.fd.headerLen + 7)
      = k.fd.headerLen + 3 + w := by
    rw [← hwd]; unfold fssWidth; split <;> omega
  have c1 : ¬ (specOctets k.fd ++ Spec.mdParams k).length < k.fd.headerLen + 3 + w := by omega
  rw [hmin, if_neg c1]
  -- first parameter octet
  have hi : idx (specOctets k.fd ++ Spec.mdParams k) k.fd.headerLen
      = .ok (((if k.closure then 64 else 0) + k.checksumType) % 256) := by
    have := idx_params k.fd w1 (Spec.mdParams k) 0
    rw [Nat.add_zero] at this
    rw [this]
    simp [Spec.mdParams, idx]
  obtain ⟨o1, o2⟩ := md_first k.closure k.checksumType hct
  rw [hi]
  simp only [bind_ok, o1, o2, enumOf, h1, ↓reduceIte]
  -- file size
  have hP : specOctets k.fd ++ Spec.mdParams k
      = (specOctets k.fd ++ [u8 ((if k.closure then 64 else 0) + k.checksumType)])
        ++ beBytes w k.fileSize.toNat
        ++ (C08.Spec.lv k.srcLv.value ++ (C08.Spec.lv k.dstLv.value ++ O)) := by
    simp only [Spec.mdParams, hwd, hO, List.append_assoc]
  have hpre : (specOctets k.fd ++ [u8 ((if k.closure then 64 else 0) + k.checksumType)]).length
      = k.fd.headerLen + 1 := by simp [hsl]
  have hfss := parseFss_spec k.fd (specOctets k.fd ++ [u8 ((if k.closure then 64 else 0) + k.checksumType)])
    (C08.Spec.lv k.srcLv.value ++ (C08.Spec.lv k.dstLv.value ++ O)) k.fileSize.toNat (by rw [hwd]; exact h2.2)
  rw [hwd, hpre, ← hP] at hfss
  rw [hfss, bind_ok]
  simp only []
  -- source name
  have hd1 : (specOctets k.fd ++ Spec.mdParams k).drop (k.fd.headerLen + 1 + w)
      = C08.Spec.lv k.srcLv.value ++ (C08.Spec.lv k.dstLv.value ++ O) := by
    rw [hP]
    apply List.drop_left'
    simp only [List.length_append, hpre, beBytes_length]
  have hu1 := CfdpLv.unpack_pack_append k.srcLv.value (C08.Spec.lv k.dstLv.value ++ O) h3
  rw [hd1]
  simp only [C08.Spec.lv, List.cons_append] at hu1 ⊢
  rw [hu1, bind_ok]
  -- destination name
  have hd2 : (specOctets k.fd ++ Spec.mdParams k).drop (k.fd.headerLen + 1 + w + (CfdpLv.mk k.srcLv.value).packetLen)
      = C08.Spec.lv k.dstLv.value ++ O := by
    rw [hP]
    have : (specOctets k.fd ++ [u8 ((if k.closure then 64 else 0) + k.checksumType)]) ++ beBytes w k.fileSize.toNat
        ++ (C08.Spec.lv k.srcLv.value ++ (C08.Spec.lv k.dstLv.value ++ O))
        = ((specOctets k.fd ++ [u8 ((if k.closure then 64 else 0) + k.checksumType)]) ++ beBytes w k.fileSize.toNat
            ++ C08.Spec.lv k.srcLv.value) ++ (C08.Spec.lv k.dstLv.value ++ O) := by
      simp only [List.append_assoc]
    rw [this]
    apply List.drop_left'
    simp only [List.length_append, hpre, beBytes_length, C08.Spec.lv, List.length_cons, CfdpLv.packetLen]
  have hu2 := CfdpLv.unpack_pack_append k.dstLv.value O h4
  rw [hd2]
  simp only [C08.Spec.lv, List.cons_append] at hu2 ⊢
  rw [hu2, bind_ok]
  have hcast : ((k.fileSize.toNat : Nat) : Int) = k.fileSize := Nak.toNat_cast_fits _ _ h2
  have hj : k.fd.headerLen + 1 + w + (CfdpLv.mk k.srcLv.value).packetLen + (CfdpLv.mk k.dstLv.value).packetLen
      = k.fd.headerLen + (1 + w + (1 + k.srcLv.value.length) + (1 + k.dstLv.value.length)) := by
    simp only [CfdpLv.packetLen]; omega
  rw [hj, hcast]
  have hsrc : (CfdpLv.mk k.srcLv.value) = k.srcLv := rfl
  have hdst : (CfdpLv.mk k.dstLv.value) = k.dstLv := rfl
  rw [hsrc, hdst]
  cases hopt : optList k.options with
  | nil =>
    have hO0 : O = [] := by rw [← hO, hopt]; rfl
    have c2 : ¬ k.fd.headerLen + (1 + w + (1 + k.srcLv.value.length) + (1 + k.dstLv.value.length))
        < (specOctets k.fd ++ Spec.mdParams k).length := by rw [hlen, hO0]; simp
    rw [if_neg c2]
    have hn : normOptions k.options = none := by
      cases ho : k.options with
      | none => rfl
      | some l => rw [ho] at hopt; simp only [optList] at hopt; rw [hopt]; rfl
    simp only [normMd, hn, pure, Except.pure]
  | cons a l =>
    have hOl : 2 ≤ O.length := by
      rw [← hO, hopt]
      have := tlv_spec_len a.tlvType (optValue a)
      simp only [Spec.options, List.length_append]; omega
    have c2 : k.fd.headerLen + (1 + w + (1 + k.srcLv.value.length) + (1 + k.dstLv.value.length))
        < (specOctets k.fd ++ Spec.mdParams k).length := by rw [hlen]; omega
    rw [if_pos c2, drop_params k.fd w1]
    have hd3 : (Spec.mdParams k).drop (1 + w + (1 + k.srcLv.value.length) + (1 + k.dstLv.value.length)) = O := by
      have : Spec.mdParams k = ([u8 ((if k.closure then 64 else 0) + k.checksumType)]
          ++ beBytes w k.fileSize.toNat ++ C08.Spec.lv k.srcLv.value ++ C08.Spec.lv k.dstLv.value) ++ O := by
        simp only [Spec.mdParams, hwd, hO]
      rw [this]
      apply List.drop_left'
      simp only [List.length_append, List.length_cons, List.length_nil, beBytes_length, C08.Spec.lv]
      omega
    rw [hd3, ← hO, hopt, parseOptions_spec (a :: l) (by rw [← hopt]; exact h5) (by simp), bind_ok]
    have hn : normOptions k.options = some ((a :: l).map toGeneric) := by
      cases ho : k.options with
      | none => rw [ho] at hopt; cases hopt
      | some l' => rw [ho] at hopt; simp only [optList] at hopt; rw [hopt]; rfl
    simp only [normMd, hn, pure, Except.pure, List.map_map]
    rfl

private theorem wfOpt_toGeneric (a : AnyTlv) (wf : WFOpt a) :
    WFOpt (toGeneric a) ∧ (toGeneric a).tlvType = a.tlvType ∧ optValue (toGeneric a) = optValue a := by
  obtain ⟨_, ht, hv, _, _⟩ := wf
  have ht' : a.tlvType < 256 := by
    simp only [tlvTypes, List.mem_cons, List.not_mem_nil, or_false] at ht; omega
  refine ⟨⟨rfl, ht, hv, rfl, ?_⟩, rfl, rfl⟩
  show CfdpTlv.pack ⟨a.tlvType, optValue a⟩ = _
  rw [CfdpTlv.pack_eq _ ht' hv]
  rfl

private theorem norm_spec (o : Option (List AnyTlv)) (wf : WFOptions (optList o)) :
    WFOptions (optList (normOptions o)) ∧ Spec.options (optList (normOptions o)) = Spec.options (optList o) := by
  have key : ∀ l : List AnyTlv, WFOptions l →
      WFOptions (l.map toGeneric) ∧ Spec.options (l.map toGeneric) = Spec.options l := by
    intro l
    induction l with
    | nil => intro _; exact ⟨fun a ha => (by cases ha), rfl⟩
    | cons a l ih =>
      intro hl
      obtain ⟨g1, g2, g3⟩ := wfOpt_toGeneric a (hl a List.mem_cons_self)
      obtain ⟨i1, i2⟩ := ih (fun q hq => hl q (List.mem_cons_of_mem _ hq))
      constructor
      · intro q hq
        rcases List.mem_cons.mp hq with rfl | hq
        · exact g1
        · exact i1 q hq
      · simp only [List.map_cons, Spec.options, g2, g3, i2]
  cases o with
  | none => exact ⟨wf, rfl⟩
  | some l =>
    cases l with
    | nil => exact ⟨fun a ha => (by cases ha), rfl⟩
    | cons a l => exact key (a :: l) wf

/-- the decoded PDU is again a valid PDU with **the same octets**: `pack` of the decoded PDU is
    `pack` of the original, and decoding it once more changes nothing -/
theorem C06_metadata_repack (k : Metadata) (wf : WFMd k) (rest : Bytes) :
    WFMd (normMd k) ∧ Spec.metadata (normMd k) = Spec.metadata k ∧ (normMd k).pack = k.pack ∧
    Metadata.unpack (Spec.metadata (normMd k) ++ rest) = .ok (normMd k) := by
  obtain ⟨n1, n2⟩ := norm_spec k.options wf.2.2.2.2.1
  have hwf : WFMd (normMd k) := by
    obtain ⟨h1, h2, h3, h4, _, wb⟩ := wf
    refine ⟨h1, h2, h3, h4, n1, ?_⟩
    show WFBase k.fd 7 0 _
    simp only [normMd, n2]
    exact wb
  have hs : Spec.metadata (normMd k) = Spec.metadata k := by
    show C06Fixed.Spec.pdu k.fd (Spec.mdParams (normMd k)) = C06Fixed.Spec.pdu k.fd (Spec.mdParams k)
    congr 1
    show _ ++ Spec.options (optList (normOptions k.options)) = _ ++ Spec.options (optList k.options)
    rw [n2]
    rfl
  have hnn : normMd (normMd k) = normMd k := by
    unfold normMd
    cases ho : k.options with
    | none => rfl
    | some l =>
      cases l with
      | nil => rfl
      | cons a l =>
        simp only [normOptions, List.map_cons, List.map_map]
        congr 2
  refine ⟨hwf, hs, ?_, ?_⟩
  · rw [C06_metadata_pack_exact _ hwf, C06_metadata_pack_exact _ wf, hs]
  · have := C06_metadata_roundtrip (normMd k) hwf rest
    rw [hnn] at this
    exact this

private theorem beq_toGeneric (a : AnyTlv) (wf : WFOpt a) :
    a.beq (toGeneric a) = .ok true ∧ (toGeneric a).beq a = .ok true := by
  obtain ⟨he, _, _, hv, _⟩ := wf
  cases a with
  | entityId t => cases he
  | generic t => simp_all [AnyTlv.beq, toGeneric, AnyTlv.tlvType, AnyTlv.value, bind, Except.bind, pure, Except.pure]
  | flowLabel t => simp_all [AnyTlv.beq, toGeneric, AnyTlv.tlvType, AnyTlv.value, bind, Except.bind, pure, Except.pure]
  | msgToUser t => simp_all [AnyTlv.beq, toGeneric, AnyTlv.tlvType, AnyTlv.value, bind, Except.bind, pure, Except.pure]
  | faultHandler t =>
    simp_all [AnyTlv.beq, toGeneric, AnyTlv.tlvType, AnyTlv.value, bind, Except.bind, pure, Except.pure]
  | fsRequest t => simp_all [AnyTlv.beq, toGeneric, AnyTlv.tlvType, AnyTlv.value, bind, Except.bind, pure, Except.pure]
  | fsResponse t => simp_all [AnyTlv.beq, toGeneric, AnyTlv.tlvType, AnyTlv.value, bind, Except.bind, pure, Except.pure]

/-- the decoded PDU **compares equal** to the original, both ways (an empty option list equals no
    options; options compare by type and value) -/
theorem C06_metadata_eq (k : Metadata) (wf : WFMd k) :
    k.beq (normMd k) = .ok true ∧ (normMd k).beq k = .ok true := by
  have key : ∀ l : List AnyTlv, WFOptions l →
      optionsBeqAux l (l.map toGeneric) = .ok true ∧ optionsBeqAux (l.map toGeneric) l = .ok true := by
    intro l
    induction l with
    | nil => intro _; exact ⟨rfl, rfl⟩
    | cons a l ih =>
      intro hl
      obtain ⟨b1, b2⟩ := beq_toGeneric a (hl a List.mem_cons_self)
      obtain ⟨i1, i2⟩ := ih (fun q hq => hl q (List.mem_cons_of_mem _ hq))
      simp only [List.map_cons, optionsBeqAux, b1, b2, i1, i2, bind, Except.bind, ↓reduceIte, and_self]
  have hopt : optionsBeq (optList k.options) (optList (normOptions k.options)) = .ok true ∧
      optionsBeq (optList (normOptions k.options)) (optList k.options) = .ok true := by
    cases ho : k.options with
    | none => exact ⟨rfl, rfl⟩
    | some l =>
      cases l with
      | nil => exact ⟨rfl, rfl⟩
      | cons a l =>
        have hl : WFOptions (a :: l) := by have := wf.2.2.2.2.1; rw [ho] at this; exact this
        obtain ⟨k1, k2⟩ := key (a :: l) hl
        simp only [normOptions, optList, optionsBeq, List.length_map, ne_eq, not_true_eq_false, ↓reduceIte]
        exact ⟨k1, k2⟩
  simp [Metadata.beq, normMd, beq_refl, hopt.1, hopt.2]

/-- **the three documented setters keep the length consistent**: afterwards the PDU is the one a
    fresh constructor call with the new value gives (or both are refused as too long) -/
theorem C06_metadata_setters (c : PduConfig) (cl : Bool) (ct : Nat) (size : Int) (src dst : Option Bytes)
    (opts : Option (List AnyTlv))
    (hs : (nameOctets src).length ≤ 255) (hd : (nameOctets dst).length ≤ 255)
    (hn : mdParamLen c.fileFlag c.crcFlag ⟨nameOctets src⟩ ⟨nameOctets dst⟩ opts + 1 ≤ 65535) :
    (∀ o', (Metadata.new c cl ct size src dst opts >>= fun k => k.setOptions o')
      = Metadata.new c cl ct size src dst o') ∧
    (∀ n, (Metadata.new c cl ct size src dst opts >>= fun k => k.setSrcName n)
      = Metadata.new c cl ct size n dst opts) ∧
    (∀ n, (Metadata.new c cl ct size src dst opts >>= fun k => k.setDstName n)
      = Metadata.new c cl ct size src n opts) := by
  have hs' : ¬ 255 < (nameOctets src).length := by omega
  have hd' : ¬ 255 < (nameOctets dst).length := by omega
  by_cases g : c.source.width ≠ c.dest.width
  · refine ⟨fun o' => ?_, fun n => ?_, fun n => ?_⟩
    · simp [Metadata.new_eq, hs', hd', g, bind, Except.bind]
    · by_cases g1 : 255 < (nameOctets n).length <;> simp [Metadata.new_eq, hs', hd', g, g1, bind, Except.bind]
    · by_cases g1 : 255 < (nameOctets n).length <;> simp [Metadata.new_eq, hs', hd', g, g1, bind, Except.bind]
  · have g0 : ¬ (255 < (nameOctets src).length ∨ 255 < (nameOctets dst).length) := by omega
    have g1 : ¬ (c.source.width ≠ c.dest.width ∨
        65535 < mdParamLen c.fileFlag c.crcFlag ⟨nameOctets src⟩ ⟨nameOctets dst⟩ opts + 1) := by omega
    refine ⟨fun o' => ?_, fun n => ?_, fun n => ?_⟩
    · rw [Metadata.new_eq, Metadata.new_eq, if_neg g0, if_neg g1, bind_ok, Metadata.setOptions_eq, if_neg g0]
      by_cases g2 : 65535 < mdParamLen c.fileFlag c.crcFlag ⟨nameOctets src⟩ ⟨nameOctets dst⟩ o' + 1
      · simp [g, g2]
      · simp [g, g2]
    · rw [Metadata.new_eq, Metadata.new_eq, if_neg g0, if_neg g1, bind_ok, Metadata.setSrcName_eq]
      by_cases g2 : 255 < (nameOctets n).length
      · simp [g2]
      · by_cases g3 : 65535 < mdParamLen c.fileFlag c.crcFlag ⟨nameOctets n⟩ ⟨nameOctets dst⟩ opts + 1
        · have : ¬ 255 < (nameOctets dst).length := by omega
          simp [g, g2, g3, this]
        · have : ¬ 255 < (nameOctets dst).length := by omega
          simp [g, g2, g3, this]
    · rw [Metadata.new_eq, Metadata.new_eq, if_neg g0, if_neg g1, bind_ok, Metadata.setDstName_eq]
      by_cases g2 : 255 < (nameOctets n).length
      · simp [g2]
      · by_cases g3 : 65535 < mdParamLen c.fileFlag c.crcFlag ⟨nameOctets src⟩ ⟨nameOctets n⟩ opts + 1
        · have : ¬ 255 < (nameOctets src).length := by omega
          simp [g, g2, g3, this]
        · have : ¬ 255 < (nameOctets src).length := by omega
          simp [g, g2, g3, this]

/-- the option classes of the library are valid options: a generic TLV of a standard type, a flow
    label, a message to user, a fault-handler override and (through the C08 layout theorems) a valid
    filestore response / request -/
theorem C06_metadata_option_kinds :
    (∀ t : CfdpTlv, C08.WFType t.ttype → C08.WFValue t.value → WFOpt (.generic t)) ∧
    (∀ v : Bytes, C08.WFValue v → WFOpt (.flowLabel ⟨⟨5, v⟩⟩) ∧ WFOpt (.msgToUser ⟨⟨2, v⟩⟩)) ∧
    (∀ r : FileStoreResponseTlv, C08.WFResp r → WFOpt (.fsResponse r)) ∧
    (∀ r : FileStoreRequestTlv, C08.WFReq r → WFOpt (.fsRequest r)) ∧
    (∀ (cc hc : Nat) (b : UInt8), WFOpt (.faultHandler ⟨cc, hc, ⟨4, [b]⟩⟩)) := by
  refine ⟨?_, ?_, ?_, ?_, ?_⟩
  · intro t ht hv
    have ht' : t.ttype < 256 := by
      simp only [C08.WFType, tlvTypes, List.mem_cons, List.not_mem_nil, or_false] at ht; omega
    refine ⟨rfl, ht, hv, rfl, ?_⟩
    show t.pack = _
    rw [CfdpTlv.pack_eq _ ht' hv]; rfl
  · intro v hv
    have hv' : v.length ≤ 255 := hv
    constructor
    · refine ⟨rfl, (by show (5 : Nat) ∈ tlvTypes; decide), hv, rfl, ?_⟩
      show CfdpTlv.pack ⟨5, v⟩ = _
      rw [CfdpTlv.pack_eq _ (by simp) hv']; rfl
    · refine ⟨rfl, (by show (2 : Nat) ∈ tlvTypes; decide), hv, rfl, ?_⟩
      show CfdpTlv.pack ⟨2, v⟩ = _
      rw [CfdpTlv.pack_eq _ (by simp) hv']; rfl
  · intro r wf
    have hp := C08.C08_fs_response_pack_exact r wf
    have hv : r.value = .ok (C08.Spec.fsResponse r).tail.tail := by
      unfold FileStoreResponseTlv.pack at hp
      unfold FileStoreResponseTlv.value
      cases hb : r.buildTlv with
      | error e => rw [hb] at hp; cases hp
      | ok t =>
        rw [hb, bind_ok] at hp
        obtain ⟨_, _, he⟩ := CfdpTlv.pack_ok t _ hp
        rw [he]; rfl
    have hov : optValue (.fsResponse r) = (C08.Spec.fsResponse r).tail.tail := by
      simp [optValue, AnyTlv.value, hv]
    refine ⟨rfl, (by show (1 : Nat) ∈ tlvTypes; decide), ?_, ?_, ?_⟩
    · rw [hov]; have := wf.2.2.2.2.2.2.2; simpa [C08.Spec.fsResponse, C08.Spec.tlv] using this
    · rw [hov]; exact hv
    · rw [hov]; exact hp
  · intro r wf
    have hp := C08.C08_fs_request_pack_exact r wf
    have hv : r.value = .ok (C08.Spec.fsRequest r).tail.tail := by
      unfold FileStoreRequestTlv.pack at hp
      unfold FileStoreRequestTlv.value
      cases hb : r.buildTlv with
      | error e => rw [hb] at hp; cases hp
      | ok t =>
        rw [hb, bind_ok] at hp
        obtain ⟨_, _, he⟩ := CfdpTlv.pack_ok t _ hp
        rw [he]; rfl
    have hov : optValue (.fsRequest r) = (C08.Spec.fsRequest r).tail.tail := by
      simp [optValue, AnyTlv.value, hv]
    refine ⟨rfl, (by show (0 : Nat) ∈ tlvTypes; decide), ?_, ?_, ?_⟩
    · rw [hov]; have := wf.2.2.2.2; simpa [C08.Spec.fsRequest, C08.Spec.tlv] using this
    · rw [hov]; exact hv
    · rw [hov]; exact hp
  · intro cc hc b
    refine ⟨rfl, (by show (4 : Nat) ∈ tlvTypes; decide), (by show ([b] : Bytes).length ≤ 255; simp), rfl, ?_⟩
    show CfdpTlv.pack ⟨4, [b]⟩ = _
    rw [CfdpTlv.pack_eq _ (by simp) (by simp)]; rfl

/-- the decoder fails, for any octet string whatever, only with `ValueError`,
    `UnsupportedCfdpVersion` or `InvalidCrc`; its option loop terminates (well-founded recursion) -/
theorem C06_metadata_documented (d : Bytes) : Documented (Metadata.unpack d) := Metadata.unpack_documented d

/-- what acceptance means: the buffer holds the whole declared PDU, the CRC-16 over exactly the
    declared PDU is zero when the flag is set, the decoded header is the declared one, and the
    result depends on the declared PDU only (trailing octets are neither read nor required) -/
theorem C06_metadata_accept_sound (d : Bytes) (k : Metadata) (h : Metadata.unpack d = .ok k) (rest : Bytes) :
    k.packetLen ≤ d.length ∧ (k.fd.header.conf.crcFlag = 1 → Crc.crc16 (d.take k.packetLen) = 0) ∧
    Metadata.unpack (d.take k.packetLen ++ rest) = .ok k := by
  obtain ⟨p, _, _, h3, h4, _⟩ := Metadata.unpack_inv d k h
  exact ⟨h3, h4, Metadata.unpack_take d k h rest⟩

/-- **every strict prefix of a packed PDU is refused with `ValueError`** -/
theorem C06_metadata_truncated (x : Metadata) (wf : WFMd x) (k : Nat) (hk : k < (Spec.metadata x).length) :
    Metadata.unpack ((Spec.metadata x).take k) = .error .value := by
  rw [Metadata.unpack_eq]
  exact pdu_truncated _ x.fd _ _ _ (by rw [mdParams_length x]; exact wf.2.2.2.2.2) k hk

-- non-vacuity: closure requested, CRC-32, 64-bit size, a non-ASCII source name, two options, CRC
private def exMd : Metadata :=
  ⟨⟨⟨0, 0, 25, ⟨⟨1, 7⟩, ⟨1, 8⟩, ⟨1, 9⟩, 0, 1, 1, 0, 0⟩⟩, 7⟩, true, 3, 0x0102030405060708,
    ⟨[0xC3, 0xA4, 0x2E]⟩, ⟨[0x62]⟩, some [.msgToUser ⟨⟨2, [0xAA]⟩⟩, .generic ⟨5, [1, 2]⟩]⟩
example : WFMd exMd := by decide
example : Metadata.new ⟨⟨1, 7⟩, ⟨1, 8⟩, ⟨1, 9⟩, 0, 1, 1, 1, 0⟩ true 3 0x0102030405060708 (some [0xC3, 0xA4, 0x2E])
    (some [0x62]) (some [.msgToUser ⟨⟨2, [0xAA]⟩⟩, .generic ⟨5, [1, 2]⟩]) = .ok exMd := by rfl
example : C05.Spec.octets exMd.fd.header ++ [u8 exMd.fd.code] ++ Spec.mdParams exMd
    = [0x23, 0, 25, 0x00, 7, 9, 8, 7, 0x43, 1, 2, 3, 4, 5, 6, 7, 8, 3, 0xC3, 0xA4, 0x2E, 1, 0x62,
       2, 1, 0xAA, 5, 2, 1, 2] := by decide
example : (normMd exMd).options = some [.generic ⟨2, [0xAA]⟩, .generic ⟨5, [1, 2]⟩] := by decide
example : WFMd ⟨⟨⟨0, 0, 8, ⟨⟨1, 0⟩, ⟨1, 0⟩, ⟨1, 0⟩, 0, 0, 0, 0, 0⟩⟩, 7⟩, false, 0, 4294967295, ⟨[]⟩, ⟨[]⟩, some []⟩ := by
  decide
example : (normMd ⟨⟨⟨0, 0, 8, ⟨⟨1, 0⟩, ⟨1, 0⟩, ⟨1, 0⟩, 0, 0, 0, 0, 0⟩⟩, 7⟩, false, 0, 5, ⟨[]⟩, ⟨[]⟩, some []⟩).options = none := by
  decide

/-! ## Injectivity of the three encodings (`C06_*_pack_injective`) -/

/-- **the Eof encoding is injective on the domain**: two valid PDUs with the same octets are the same
    PDU (corollary of `C06_eof_roundtrip`) -/
theorem C06_eof_pack_injective (a b : Eof) (wa : WFEof a) (wb : WFEof b)
    (h : Spec.eof a = Spec.eof b) : a = b := by
  have r1 := C06_eof_roundtrip a wa []
  have r2 := C06_eof_roundtrip b wb []
  rw [h, r2] at r1
  exact (Except.ok.inj r1).symm

/-- the same for the library's `pack()`, as an iff: valid Eof PDUs are equal exactly when they pack to
    the same octets -/
theorem C06_eof_pack_eq_iff (a b : Eof) (wa : WFEof a) (wb : WFEof b) : a.pack = b.pack ↔ a = b := by
  constructor
  · intro h
    rw [C06_eof_pack_exact a wa, C06_eof_pack_exact b wb] at h
    exact C06_eof_pack_injective a b wa wb (Except.ok.inj h)
  · rintro rfl; rfl

-- non-vacuity: two distinct valid Eof PDUs (they differ in the last octet of the fault location only) with different octets
example : WFEof exEof ∧ WFEof { exEof with faultLoc := some ⟨⟨6, [0x0A, 0x0C]⟩⟩ } ∧ Spec.eof exEof ≠ Spec.eof { exEof with faultLoc := some ⟨⟨6, [0x0A, 0x0C]⟩⟩ } := by
  have w1 : WFEof exEof := by decide
  have w2 : WFEof { exEof with faultLoc := some ⟨⟨6, [0x0A, 0x0C]⟩⟩ } := by decide
  exact ⟨w1, w2, fun h => absurd (C06_eof_pack_injective _ _ w1 w2 h) (by decide)⟩

/-- **the Finished encoding is injective on the domain**: two valid PDUs with the same octets are the same
    PDU (corollary of `C06_finished_roundtrip`) -/
theorem C06_finished_pack_injective (a b : Finished) (wa : WFFin a) (wb : WFFin b)
    (h : Spec.finished a = Spec.finished b) : a = b := by
  have r1 := C06_finished_roundtrip a wa []
  have r2 := C06_finished_roundtrip b wb []
  rw [h, r2] at r1
  exact (Except.ok.inj r1).symm

/-- the same for the library's `pack()`, as an iff: valid Finished PDUs are equal exactly when they pack to
    the same octets -/
theorem C06_finished_pack_eq_iff (a b : Finished) (wa : WFFin a) (wb : WFFin b) : a.pack = b.pack ↔ a = b := by
  constructor
  · intro h
    rw [C06_finished_pack_exact a wa, C06_finished_pack_exact b wb] at h
    exact C06_finished_pack_injective a b wa wb (Except.ok.inj h)
  · rintro rfl; rfl

-- non-vacuity: two distinct valid Finished PDUs (they differ in the last octet of the last filestore message only) with different octets
example : WFFin exFin ∧ WFFin { exFin with responses := [⟨0, 1, [0x61], [], ⟨[]⟩⟩, ⟨2, 33, [0xC3, 0xA4], [0x62], ⟨[10]⟩⟩] } ∧ Spec.finished exFin ≠ Spec.finished { exFin with responses := [⟨0, 1, [0x61], [], ⟨[]⟩⟩, ⟨2, 33, [0xC3, 0xA4], [0x62], ⟨[10]⟩⟩] } := by
  have w1 : WFFin exFin := by decide
  have w2 : WFFin { exFin with responses := [⟨0, 1, [0x61], [], ⟨[]⟩⟩, ⟨2, 33, [0xC3, 0xA4], [0x62], ⟨[10]⟩⟩] } := by decide
  exact ⟨w1, w2, fun h => absurd (C06_finished_pack_injective _ _ w1 w2 h) (by decide)⟩

/-- **the Metadata encoding is injective on the domain, up to the decoder's view of the options**: the
    round trip returns `normMd k` (no options and an empty option list are one PDU, every option comes
    back as the generic TLV of the same type and value), so two valid PDUs with the same octets have the
    same normal form (corollary of `C06_metadata_roundtrip`) -/
theorem C06_metadata_pack_injective (a b : Metadata) (wa : WFMd a) (wb : WFMd b)
    (h : Spec.metadata a = Spec.metadata b) : normMd a = normMd b := by
  have r1 := C06_metadata_roundtrip a wa []
  have r2 := C06_metadata_roundtrip b wb []
  rw [h, r2] at r1
  exact (Except.ok.inj r1).symm

/-- spelled out, and for the library's `pack()`: valid Metadata PDUs that pack to the same octets agree
    in header, closure flag, checksum type, file size and both file names, and their option lists have
    the same normal form (same TLV types and values in the same order) -/
theorem C06_metadata_pack_injective_fields (a b : Metadata) (wa : WFMd a) (wb : WFMd b)
    (h : a.pack = b.pack) :
    a.fd = b.fd ∧ a.closure = b.closure ∧ a.checksumType = b.checksumType ∧ a.fileSize = b.fileSize ∧
    a.srcLv = b.srcLv ∧ a.dstLv = b.dstLv ∧ normOptions a.options = normOptions b.options := by
  rw [C06_metadata_pack_exact a wa, C06_metadata_pack_exact b wb] at h
  have e := C06_metadata_pack_injective a b wa wb (Except.ok.inj h)
  cases a; cases b
  simpa [normMd] using e

/-- for PDUs whose options are already in the decoder's form (`normMd k = k`, e.g. everything the
    decoder returns, or no options) the encoding is injective outright -/
theorem C06_metadata_pack_injective_normal (a b : Metadata) (wa : WFMd a) (wb : WFMd b)
    (na : normMd a = a) (nb : normMd b = b) (h : Spec.metadata a = Spec.metadata b) : a = b := by
  rw [← na, ← nb]; exact C06_metadata_pack_injective a b wa wb h

-- non-vacuity: two valid Metadata PDUs in normal form (they differ in the last octet of the last option
-- only) with different octets
private def exMdN : Metadata := { exMd with options := some [.generic ⟨2, [0xAA]⟩, .generic ⟨5, [1, 2]⟩] }
private def exMdN' : Metadata := { exMd with options := some [.generic ⟨2, [0xAA]⟩, .generic ⟨5, [1, 3]⟩] }
example : WFMd exMdN ∧ WFMd exMdN' ∧ normMd exMdN = exMdN ∧ normMd exMdN' = exMdN' ∧
    Spec.metadata exMdN ≠ Spec.metadata exMdN' := by
  have w1 : WFMd exMdN := by decide
  have w2 : WFMd exMdN' := by decide
  have n1 : normMd exMdN = exMdN := by decide
  have n2 : normMd exMdN' = exMdN' := by decide
  exact ⟨w1, w2, n1, n2, fun h => absurd (C06_metadata_pack_injective_normal _ _ w1 w2 n1 n2 h) (by decide)⟩
-- the normalisation is really there: `exMd` (first option a Message-to-User TLV) and `exMdN` (the same
-- option as a generic TLV) are different valid PDUs with the same octets
example : WFMd exMd ∧ WFMd exMdN ∧ exMd ≠ exMdN ∧ Spec.metadata exMd = Spec.metadata exMdN := by
  have hp : Spec.mdParams exMd = Spec.mdParams exMdN := by decide
  have hf : exMdN.fd = exMd.fd := rfl
  refine ⟨by decide, by decide, by decide, ?_⟩
  rw [Spec.metadata, Spec.metadata, hp, hf]

end SpVerif.Props.C06Var
