import SpVerif.Props.C05
import SpVerif.Props.C06Fixed
import SpVerif.Props.C08
import SpVerif.Proofs.Eof
import SpVerif.Proofs.Finished
import SpVerif.Proofs.Metadata
/-!
# C06 (part "var") — EOF, Finished and Metadata PDUs are encoded exactly per CCSDS 727.0-B-5 §5.2
and round-trip

Property theorems only. (Base class, ACK, Prompt, Keep Alive and NAK are in `Props/C06Fixed.lean`;
`WFConf`, `WFBase`, `Spec.pdu`, `crcLen` are shared with that part.)

Layout (727.0-B-5 §5.2): fixed PDU header ‖ directive code ‖ parameters ‖ CRC-16 iff the CRC flag
is set, the data-field length counting every octet after the header, with the parameters

* EOF (code 4, §5.2.2, towards the receiver): `condition code (4 bits) | spare (4 bits)`, file
  checksum (4 octets), file size (FSS: 32 bits, 64 with the large-file flag), optional fault
  location (entity-ID TLV: type 6, length, value);
* Finished (code 5, §5.2.3, towards the sender): `condition code (4) | spare (1) | delivery code
  (1) | file status (2)`, filestore responses (TLVs of type 1, list order), optional fault
  location (not with condition code "no error" / "unsupported checksum type");
* Metadata (code 7, §5.2.5, towards the receiver): `reserved (1) | closure requested (1) |
  reserved (2) | checksum type (4)`, file size (FSS), source file name (LV), destination file name
  (LV), options (TLVs, list order).

All three decoders read the declared PDU only: whatever follows it is ignored
(`C06_*_roundtrip` hold with an arbitrary suffix), and the CRC trailer is never parsed as a TLV.
-/
namespace SpVerif.Props.C06Var
open SpVerif SpVerif.CfdpHeader SpVerif.FileDirective SpVerif.Tlv SpVerif.Lv
open SpVerif.Eof SpVerif.Finished SpVerif.Metadata
open SpVerif.Props.C06Fixed (WFConf dirHeader crcLen WFBase)
open SpVerif.Nak (fits)

/-! ### shared machinery -/

private theorem wf_dirHeader (c : PduConfig) (wf : WFConf c) (dir dlen : Nat) (hd : dir < 2) (hl : dlen < 65536) :
    C05.WF (dirHeader c dir dlen) := by
  obtain ⟨h1, h2, h3, _, h5, h6, h7, h8, h9⟩ := wf
  exact ⟨Nat.zero_lt_two, hd, h1, h3, h2, h5, Nat.zero_lt_two, hl, h6, h7, h8, h9⟩

private theorem spec_pdu_eq (fd : FileDirective) (P : Bytes) :
    C06Fixed.Spec.pdu fd P = withCrc fd.header.conf.crcFlag (specOctets fd ++ P) := rfl

private theorem prelude_pdu (fd : FileDirective) (code dir : Nat) (P rest : Bytes)
    (wf : WFBase fd code dir P.length) (hc : code < 256) :
    prelude (C06Fixed.Spec.pdu fd P ++ rest) = .ok (fd, specOctets fd ++ P) ∧
    (C06Fixed.Spec.pdu fd P).length = fd.packetLen := by
  obtain ⟨w1, _, _, w4, _, w6⟩ := wf
  rw [spec_pdu_eq]
  exact prelude_spec fd w1 (by omega) P rest (by simpa [crcLen] using w6)

private theorem octetAt_params (fd : FileDirective) (wf : C05.WF fd.header) (P : Bytes) (k : Nat) :
    octetAt (specOctets fd ++ P) (fd.headerLen + k) = octetAt P k := by
  rw [← specOctets_length fd wf]
  simp [octetAt, List.getElem?_append_right]

private theorem slice_params (fd : FileDirective) (wf : C05.WF fd.header) (P : Bytes) (s e : Nat) :
    slice (specOctets fd ++ P) (fd.headerLen + s) (fd.headerLen + e) = slice P s e := by
  rw [← specOctets_length fd wf]; exact slice_after _ _ _ _

private theorem drop_params (fd : FileDirective) (wf : C05.WF fd.header) (P : Bytes) (k : Nat) :
    (specOctets fd ++ P).drop (fd.headerLen + k) = P.drop k := by
  rw [← specOctets_length fd wf]; exact drop_after _ _ _

private theorem idx_params (fd : FileDirective) (wf : C05.WF fd.header) (P : Bytes) (k : Nat) :
    idx (specOctets fd ++ P) (fd.headerLen + k) = idx P k := by
  rw [← specOctets_length fd wf]; exact idx_after _ _ _

private theorem pdu_len (fd : FileDirective) (code dir : Nat) (P : Bytes) (wf : WFBase fd code dir P.length) :
    (C06Fixed.Spec.pdu fd P).length = fd.packetLen ∧
    fd.header.dataFieldLen = (C06Fixed.Spec.pdu fd P).length - fd.header.headerLen ∧
    fd.header.dataFieldLen = fd.packetLen - fd.header.headerLen ∧
    (C06Fixed.Spec.pdu fd P).length = fd.header.headerLen + 1 + P.length + crcLen fd.header.conf := by
  obtain ⟨w1, _, _, _, _, w6⟩ := wf
  have hs := specOctets_length fd w1
  have hhl : fd.headerLen = fd.header.headerLen + 1 := rfl
  have hpl : fd.packetLen = fd.header.dataFieldLen + fd.header.headerLen := rfl
  have : (C06Fixed.Spec.pdu fd P).length = fd.header.headerLen + 1 + P.length + crcLen fd.header.conf := by
    rw [spec_pdu_eq]
    unfold withCrc crcLen
    split
    · simp only [List.length_append, hs, Crc.crcTrailer, Crc.be16, List.length_cons, List.length_nil]; omega
    · simp only [List.length_append, hs]; omega
  omega

private theorem pdu_crc (fd : FileDirective) (P : Bytes) :
    (fd.header.conf.crcFlag = 1 →
      C06Fixed.Spec.pdu fd P = (C05.Spec.octets fd.header ++ [u8 fd.code] ++ P)
        ++ Crc.crcTrailer (C05.Spec.octets fd.header ++ [u8 fd.code] ++ P) ∧
      Crc.crc16 (C06Fixed.Spec.pdu fd P) = 0) ∧
    (fd.header.conf.crcFlag ≠ 1 → C06Fixed.Spec.pdu fd P = C05.Spec.octets fd.header ++ [u8 fd.code] ++ P) := by
  constructor
  · intro h
    have : C06Fixed.Spec.pdu fd P = (C05.Spec.octets fd.header ++ [u8 fd.code] ++ P)
        ++ Crc.crcTrailer (C05.Spec.octets fd.header ++ [u8 fd.code] ++ P) := by
      simp [C06Fixed.Spec.pdu, withCrc, h]
    exact ⟨this, by rw [this]; exact Crc.crc16_residue _⟩
  · intro h
    simp [C06Fixed.Spec.pdu, withCrc, h]

private theorem pdu_truncated {α : Type} (f : FileDirective × Bytes → Py α) (fd : FileDirective)
    (code dir : Nat) (P : Bytes) (wf : WFBase fd code dir P.length) (k : Nat)
    (hk : k < (C06Fixed.Spec.pdu fd P).length) :
    (prelude ((C06Fixed.Spec.pdu fd P).take k) >>= f) = .error .value := by
  have hl := (pdu_len fd code dir P wf).1
  have : ∃ R, C06Fixed.Spec.pdu fd P = specOctets fd ++ R := by
    rw [spec_pdu_eq]; unfold withCrc
    split
    · exact ⟨P ++ Crc.crcTrailer (specOctets fd ++ P), by simp⟩
    · exact ⟨P, rfl⟩
  obtain ⟨R, hR⟩ := this
  rw [hR] at hl hk ⊢
  exact bind_prelude_truncated f fd wf.1 R hl k (by omega)

/-- FSS width as `pack()` selects it -/
private theorem wsel (fd : FileDirective) :
    (if fd.header.largeFileFlagSet then 8 else 4) = fssWidth fd.header.conf.fileFlag := by
  unfold PduHeader.largeFileFlagSet fssWidth
  by_cases h : fd.header.conf.fileFlag = 1 <;> simp [h]

private theorem byteOf_nibble (c : Int) (h0 : 0 ≤ c) (h : c < 16) :
    byteOf (c * 16) = .ok (u8 (c.toNat * 16)) := by
  unfold byteOf
  have g : 0 ≤ c * 16 ∧ c * 16 < 256 := by omega
  rw [if_pos g]
  congr 2
  omega

private theorem byteOf_bad (c : Int) (h : c < 0 ∨ 16 ≤ c) : byteOf (c * 16) = .error .value := by
  unfold byteOf
  have g : ¬ (0 ≤ c * 16 ∧ c * 16 < 256) := by omega
  rw [if_neg g]

/-! ## fault location (shared by EOF and Finished) -/

/-- a fault location as the library builds it: an entity-ID TLV (type 6) of 0..255 value octets -/
def WFFault : Option EntityIdTlv → Prop
  | none => True
  | some t => t.tlv.ttype = 6 ∧ t.tlv.value.length ≤ 255

instance (fl : Option EntityIdTlv) : Decidable (WFFault fl) := by
  cases fl <;> unfold WFFault <;> infer_instance

/-- the fault location as the standard lays it out: nothing, or type 6, length, entity ID -/
def Spec.fault : Option EntityIdTlv → Bytes
  | none => []
  | some t => C08.Spec.entityId t.tlv.value

private theorem fault_eta (t : EntityIdTlv) (h : t.tlv.ttype = 6) : (⟨⟨6, t.tlv.value⟩⟩ : EntityIdTlv) = t := by
  cases t with
  | mk tlv => cases tlv; simp_all

private theorem packFault_spec (fl : Option EntityIdTlv) (wf : WFFault fl) :
    Eof.packFaultLoc fl = .ok (Spec.fault fl) := by
  cases fl with
  | none => rfl
  | some t =>
    obtain ⟨h1, h2⟩ := wf
    show t.tlv.pack = _
    rw [CfdpTlv.pack_eq _ (by omega) h2, h1]
    rfl

private theorem fault_length (fl : Option EntityIdTlv) : (Spec.fault fl).length = Eof.faultLen fl := by
  cases fl with
  | none => rfl
  | some t => simp [Spec.fault, C08.Spec.entityId, C08.Spec.tlv, Eof.faultLen, EntityIdTlv.packetLen,
      CfdpTlv.packetLen]; omega

/-- decoding a laid-out fault location, whatever follows -/
private theorem unpack_fault (t : EntityIdTlv) (wf : WFFault (some t)) (rest : Bytes) :
    EntityIdTlv.unpack (Spec.fault (some t) ++ rest) = .ok t := by
  obtain ⟨h1, h2⟩ := wf
  rw [EntityIdTlv.unpack_bind]
  have := CfdpTlv.unpack_pack_append 6 t.tlv.value rest (by decide) h2
  simp only [Spec.fault, C08.Spec.entityId, C08.Spec.tlv, List.cons_append]
  rw [this, bind_ok, EntityIdTlv.fromTlv_eq]
  simp only [tEntityId, ↓reduceIte]
  rw [fault_eta t h1]

/-! ## EOF (`C06_eof_*`) -/

/-- valid EOF PDUs: every condition code nibble (all `ConditionCode` members), a 4-octet checksum,
    a file size over the full range of the selected FSS width, no fault location or an entity-ID
    TLV of any width 0..255, towards the receiver, any header configuration -/
def WFEof (k : Eof) : Prop :=
  0 ≤ k.cond ∧ k.cond < 16 ∧ k.checksum.length = 4 ∧
  fits (fssWidth k.fd.header.conf.fileFlag) k.fileSize ∧ WFFault k.faultLoc ∧
  WFBase k.fd 4 0 (5 + fssWidth k.fd.header.conf.fileFlag + (Spec.fault k.faultLoc).length)

instance (k : Eof) : Decidable (WFEof k) := by unfold WFEof; infer_instance

/-- the parameters of 727.0-B-5 §5.2.2 -/
def Spec.eofParams (k : Eof) : Bytes :=
  [u8 (k.cond.toNat * 16)] ++ k.checksum ++ beBytes (fssWidth k.fd.header.conf.fileFlag) k.fileSize.toNat
    ++ Spec.fault k.faultLoc

def Spec.eof (k : Eof) : Bytes := C06Fixed.Spec.pdu k.fd (Spec.eofParams k)

private theorem eofParams_length (k : Eof) (hc : k.checksum.length = 4) :
    (Spec.eofParams k).length = 5 + fssWidth k.fd.header.conf.fileFlag + (Spec.fault k.faultLoc).length := by
  simp only [Spec.eofParams, List.length_append, List.length_cons, List.length_nil, hc, beBytes_length]

private theorem eof_plen (f c : Nat) (fl : Option EntityIdTlv) :
    eofParamLen f c fl + 1 = 1 + (5 + fssWidth f + (Spec.fault fl).length) + (if c = 1 then 2 else 0) := by
  unfold eofParamLen; rw [fault_length]; omega

private theorem eofParamLen_le (f c : Nat) (fl : Option EntityIdTlv) (wf : WFFault fl) :
    eofParamLen f c fl + 1 ≤ 300 := by
  unfold eofParamLen
  have := Nak.fssWidth_le f
  have : Eof.faultLen fl ≤ 257 := by
    cases fl with
    | none => simp [Eof.faultLen]
    | some t => have := wf.2; simp [Eof.faultLen, EntityIdTlv.packetLen, CfdpTlv.packetLen]; omega
  split <;> omega

/-- the constructor accepts every configuration, every condition code, checksum of 4 octets, size
    and fault location, forces the direction "towards receiver" and yields a valid PDU -/
theorem C06_eof_new (c : PduConfig) (wf : WFConf c) (cs : Bytes) (size : Int) (fl : Option EntityIdTlv)
    (cond : Int) (hcs : cs.length = 4) (hfl : WFFault fl) :
    ∃ k, Eof.new c cs size fl cond = .ok k ∧ k.cond = cond ∧ k.checksum = cs ∧ k.fileSize = size ∧
      k.faultLoc = fl ∧ k.fd.header.conf = { c with direction := 0 } ∧
      (0 ≤ cond → cond < 16 → fits (fssWidth c.fileFlag) size → WFEof k) := by
  rw [Eof.new_eq]
  have hle := eofParamLen_le c.fileFlag c.crcFlag fl hfl
  have g1 : ¬ cs.length ≠ 4 := by omega
  have g2 : ¬ (c.source.width ≠ c.dest.width ∨ 65535 < eofParamLen c.fileFlag c.crcFlag fl + 1) := by
    have := wf.2.2.2.2.2.2.2.2; omega
  rw [if_neg g1, if_neg g2]
  refine ⟨_, rfl, rfl, rfl, rfl, rfl, rfl, ?_⟩
  intro h0 h1 h2
  refine ⟨h0, h1, hcs, h2, hfl, ?_, rfl, rfl, rfl, rfl, ?_⟩
  · exact wf_dirHeader c wf _ _ (by omega) (by omega)
  · simp only [crcLen]; exact eof_plen _ _ _

/-- a checksum that is not 4 octets long is refused (`ValueError`) -/
theorem C06_eof_refuse_checksum (c : PduConfig) (cs : Bytes) (size : Int) (fl : Option EntityIdTlv)
    (cond : Int) (h : cs.length ≠ 4) : Eof.new c cs size fl cond = .error .value := by
  rw [Eof.new_eq, if_pos h]

/-- **pack = standard layout**, for every valid EOF PDU in every header configuration -/
theorem C06_eof_pack_exact (k : Eof) (wf : WFEof k) : k.pack = .ok (Spec.eof k) := by
  obtain ⟨h0, h1, _, h3, h4, w1, _, _, w4, _, _⟩ := wf
  unfold Eof.pack
  rw [pack_spec k.fd w1 (by omega), byteOf_nibble _ h0 h1, wsel, Nak.packInt_fits _ _ h3, packFault_spec _ h4]
  simp only [bind, Except.bind, pure, Except.pure, Spec.eof, C06Fixed.Spec.pdu, Spec.eofParams, specOctets,
    List.append_assoc]

/-- **a file size that does not fit the selected width makes `pack` fail, never truncate**
    (`struct.error` from `struct.pack`; `ValueError` first if the condition code is no nibble) -/
theorem C06_eof_fss_overflow (k : Eof) (wf : C05.WF k.fd.header) (hc : k.fd.code < 256)
    (h : ¬ fits (fssWidth k.fd.header.conf.fileFlag) k.fileSize) :
    k.pack = .error .struct ∨ k.pack = .error .value := by
  unfold Eof.pack
  rw [pack_spec k.fd wf hc, wsel]
  have hs : packInt (fssWidth k.fd.header.conf.fileFlag) k.fileSize = .error .struct := by
    unfold fits at h
    by_cases h0 : k.fileSize < 0
    · exact packInt_neg _ _ h0
    · exact packInt_big _ _ (by omega) (by omega)
  by_cases hcond : 0 ≤ k.cond ∧ k.cond < 16
  · left
    rw [byteOf_nibble _ hcond.1 hcond.2, hs]
    rfl
  · right
    rw [byteOf_bad _ (by omega)]
    rfl

/-- `ConditionCode.NO_CONDITION_FIELD` (−1) is constructible but cannot be packed (`ValueError`) -/
theorem C06_eof_no_condition_field (k : Eof) (wf : C05.WF k.fd.header) (hc : k.fd.code < 256)
    (h : k.cond < 0 ∨ 16 ≤ k.cond) : k.pack = .error .value := by
  unfold Eof.pack
  rw [pack_spec k.fd wf hc, byteOf_bad _ h]
  rfl

/-- **length clauses**: 1 + 4 + FSS octets, plus the fault location TLV, plus 2 with CRC -/
theorem C06_eof_len (k : Eof) (wf : WFEof k) :
    (Spec.eof k).length = k.packetLen ∧
    k.fd.header.dataFieldLen = (Spec.eof k).length - k.fd.header.headerLen ∧
    k.fd.header.dataFieldLen = k.packetLen - k.fd.header.headerLen ∧
    (Spec.eof k).length = k.fd.header.headerLen + 1
      + (5 + fssWidth k.fd.header.conf.fileFlag + (Spec.fault k.faultLoc).length) + crcLen k.fd.header.conf := by
  have hl := eofParams_length k wf.2.2.1
  have := pdu_len k.fd 4 0 (Spec.eofParams k) (by rw [hl]; exact wf.2.2.2.2.2)
  rw [hl] at this
  exact this

theorem C06_eof_crc (k : Eof) :
    (k.fd.header.conf.crcFlag = 1 →
      Spec.eof k = (C05.Spec.octets k.fd.header ++ [u8 k.fd.code] ++ Spec.eofParams k)
        ++ Crc.crcTrailer (C05.Spec.octets k.fd.header ++ [u8 k.fd.code] ++ Spec.eofParams k) ∧
      Crc.crc16 (Spec.eof k) = 0) ∧
    (k.fd.header.conf.crcFlag ≠ 1 →
      Spec.eof k = C05.Spec.octets k.fd.header ++ [u8 k.fd.code] ++ Spec.eofParams k) :=
  pdu_crc k.fd (Spec.eofParams k)

private theorem nibble_back (c : Nat) (h : c < 16) : c * 16 % 256 / 16 % 16 = c := by omega

/-- **round trip, whatever follows the PDU**: decoding the packed PDU followed by arbitrary octets
    returns the identical PDU (condition code, checksum, file size, fault location, header) — in
    particular neither the CRC trailer nor trailing octets are read as a fault location -/
theorem C06_eof_roundtrip (k : Eof) (wf : WFEof k) (rest : Bytes) :
    Eof.unpack (Spec.eof k ++ rest) = .ok k := by
  obtain ⟨h0, h1, hcs, hfit, hfl, wb⟩ := wf
  have hpl := eofParams_length k hcs
  have wb' : WFBase k.fd 4 0 (Spec.eofParams k).length := by rw [hpl]; exact wb
  obtain ⟨hp, _⟩ := prelude_pdu k.fd 4 0 (Spec.eofParams k) rest wb' (by omega)
  have w1 := wb.1
  have hw := Nak.fssWidth_pos k.fd.header.conf.fileFlag
  rw [Eof.unpack_eq, Spec.eof, hp]
  show Eof.parse (k.fd, specOctets k.fd ++ Spec.eofParams k) = _
  rw [Eof.parse_eq]
  have hsl := specOctets_length k.fd w1
  have hfe : Eof.fixedEnd k.fd = k.fd.headerLen + (5 + fssWidth k.fd.header.conf.fileFlag) := by
    unfold Eof.fixedEnd; omega
  have hlen : (specOctets k.fd ++ Spec.eofParams k).length
      = k.fd.headerLen + (5 + fssWidth k.fd.header.conf.fileFlag) + (Spec.fault k.faultLoc).length := by
    simp only [List.length_append, hsl, hpl]; omega
  have c1 : ¬ (specOctets k.fd ++ Spec.eofParams k).length < Eof.fixedEnd k.fd := by omega
  rw [if_neg c1]
  -- the fixed parameters
  have e0 : Eof.condOf k.fd (specOctets k.fd ++ Spec.eofParams k) = k.cond := by
    unfold Eof.condOf
    have := octetAt_params k.fd w1 (Spec.eofParams k) 0
    rw [Nat.add_zero] at this
    have hP0 : octetAt (Spec.eofParams k) 0 = k.cond.toNat * 16 % 256 := by
      simp [Spec.eofParams, octetAt]
    rw [this, hP0, nibble_back _ (by omega)]
    omega
  have e1 : Eof.checksumOf k.fd (specOctets k.fd ++ Spec.eofParams k) = k.checksum := by
    unfold Eof.checksumOf
    rw [slice_params k.fd w1]
    have := slice_eq_of_append [u8 (k.cond.toNat * 16)] k.checksum
      (beBytes (fssWidth k.fd.header.conf.fileFlag) k.fileSize.toNat ++ Spec.fault k.faultLoc)
    simp only [List.length_cons, List.length_nil, hcs] at this
    simpa [Spec.eofParams, List.append_assoc] using this
  have e2 : Eof.sizeOf k.fd (specOctets k.fd ++ Spec.eofParams k) = k.fileSize := by
    unfold Eof.sizeOf
    rw [hfe, slice_params k.fd w1]
    have := slice_eq_of_append ([u8 (k.cond.toNat * 16)] ++ k.checksum)
      (beBytes (fssWidth k.fd.header.conf.fileFlag) k.fileSize.toNat) (Spec.fault k.faultLoc)
    simp only [List.length_append, List.length_cons, List.length_nil, hcs, beBytes_length] at this
    rw [show (0 + 1 + 4) = 5 from rfl] at this
    rw [show Spec.eofParams k = [u8 (k.cond.toNat * 16)] ++ k.checksum
      ++ beBytes (fssWidth k.fd.header.conf.fileFlag) k.fileSize.toNat ++ Spec.fault k.faultLoc from rfl, this,
      beNat_beBytes _ _ hfit.2]
    exact Nak.toNat_cast_fits _ _ hfit
  rw [e0, e1, e2]
  cases hf : k.faultLoc with
  | none =>
    have c2 : (specOctets k.fd ++ Spec.eofParams k).length = Eof.fixedEnd k.fd := by
      rw [hlen, hf, hfe]; simp [Spec.fault]
    rw [if_pos c2]
    cases k
    simp_all
  | some t =>
    rw [hf] at hfl hlen
    have hpos : 0 < (Spec.fault (some t)).length := by
      simp [Spec.fault, C08.Spec.entityId, C08.Spec.tlv]
    have c2 : ¬ (specOctets k.fd ++ Spec.eofParams k).length = Eof.fixedEnd k.fd := by omega
    rw [if_neg c2, hfe, drop_params k.fd w1]
    have hd : (Spec.eofParams k).drop (5 + fssWidth k.fd.header.conf.fileFlag) = Spec.fault (some t) := by
      rw [show Spec.eofParams k = ([u8 (k.cond.toNat * 16)] ++ k.checksum
        ++ beBytes (fssWidth k.fd.header.conf.fileFlag) k.fileSize.toNat) ++ Spec.fault k.faultLoc from rfl, hf]
      apply List.drop_left'
      simp only [List.length_append, List.length_cons, List.length_nil, hcs, beBytes_length]
    have hu := unpack_fault t hfl []
    rw [List.append_nil] at hu
    rw [hd, hu, bind_ok, Eof.calcLen_eq']
    have hdl : k.fd.header.dataFieldLen
        = eofParamLen k.fd.header.conf.fileFlag k.fd.header.conf.crcFlag (some t) + 1 := by
      rw [eof_plen]; have := wb.2.2.2.2.2; rw [hf] at this; simpa [crcLen] using this
    have g : ¬ 65535 < eofParamLen k.fd.header.conf.fileFlag k.fd.header.conf.crcFlag (some t) + 1 := by
      have := w1.2.2.2.2.2.2.2.1; omega
    rw [if_neg g, bind_ok, fd_eta k.fd _ hdl]
    cases k
    simp_all

/-- widths `UnsignedByteField` supports; `EntityIdTlv.__eq__` raises `ValueError` for any other -/
def EqWidth : Option EntityIdTlv → Prop
  | none => True
  | some t => t.value.length ∈ [1, 2, 4, 8]

instance (fl : Option EntityIdTlv) : Decidable (EqWidth fl) := by
  cases fl <;> unfold EqWidth <;> infer_instance

private theorem optEntityBeq_refl (fl : Option EntityIdTlv) (h : EqWidth fl) :
    Eof.optEntityBeq fl fl = .ok true := by
  cases fl with
  | none => rfl
  | some t =>
    have h' : t.value.length ∈ [1, 2, 4, 8] := h
    simp [Eof.optEntityBeq, EntityIdTlv.beq, ubfValue, h', bind, Except.bind, pure, Except.pure]

/-- the decoded PDU **compares equal** to the original (both ways) and **re-packs to the same
    octets**; `==` needs a fault location whose entity ID has a width the library can compare -/
theorem C06_eof_eq_repack (k : Eof) (wf : WFEof k) (hw : EqWidth k.faultLoc) (rest : Bytes) :
    ∃ k', (k.pack >>= fun b => Eof.unpack (b ++ rest)) = .ok k' ∧ k' = k ∧
      k.beq k' = .ok true ∧ k'.beq k = .ok true ∧ k'.pack = k.pack := by
  refine ⟨k, ?_, rfl, ?_, ?_, rfl⟩
  · rw [C06_eof_pack_exact k wf]; exact C06_eof_roundtrip k wf rest
  all_goals simp [Eof.beq, beq_refl, optEntityBeq_refl _ hw]

/-- with a fault location of any other width `==` raises `ValueError` (documented; nothing is
    compared wrongly) -/
theorem C06_eof_eq_other_width (k : Eof) (t : EntityIdTlv) (hf : k.faultLoc = some t)
    (hw : t.value.length ∉ [1, 2, 4, 8]) : k.beq k = .error .value := by
  simp [Eof.beq, beq_refl, hf, Eof.optEntityBeq, EntityIdTlv.beq, ubfValue, hw, bind, Except.bind]

/-- **the `fault_location` setter keeps the length consistent**: afterwards the PDU is the one a
    fresh constructor call with the new fault location gives -/
theorem C06_eof_set_fault_loc (c : PduConfig) (cs : Bytes) (size : Int) (fl fl' : Option EntityIdTlv)
    (cond : Int) (hfl : WFFault fl) (hfl' : WFFault fl') :
    (Eof.new c cs size fl cond >>= fun k => k.setFaultLoc fl') = Eof.new c cs size fl' cond := by
  have h1 := eofParamLen_le c.fileFlag c.crcFlag fl hfl
  have h2 := eofParamLen_le c.fileFlag c.crcFlag fl' hfl'
  rw [Eof.new_eq, Eof.new_eq]
  by_cases g1 : cs.length ≠ 4
  · rw [if_pos g1, if_pos g1]; rfl
  · rw [if_neg g1, if_neg g1]
    by_cases g2 : c.source.width ≠ c.dest.width
    · rw [if_pos (Or.inl g2), if_pos (Or.inl g2)]; rfl
    · rw [if_neg (by omega), if_neg (by omega), bind_ok, Eof.setFaultLoc_eq]
      have g3 : ¬ 65535 < eofParamLen c.fileFlag c.crcFlag fl' + 1 := by omega
      simp only [g3, ↓reduceIte]

/-- the decoder fails, for any octet string whatever, only with `ValueError`,
    `UnsupportedCfdpVersion`, `InvalidCrc` or `TlvTypeMissmatch` — never `IndexError` / `struct.error` -/
theorem C06_eof_documented (d : Bytes) : Documented (Eof.unpack d) := Eof.unpack_documented d

/-- what acceptance means: the buffer holds the whole declared PDU, the CRC-16 over exactly the
    declared PDU is zero when the flag is set, the decoded PDU is not longer than the declared one,
    and the result depends on the declared PDU only (trailing octets are neither read nor required) -/
theorem C06_eof_accept_sound (d : Bytes) (k : Eof) (h : Eof.unpack d = .ok k) :
    ∃ fd p, prelude d = .ok (fd, p) ∧ fd.packetLen ≤ d.length ∧ k.packetLen ≤ fd.packetLen ∧
      (fd.header.conf.crcFlag = 1 → Crc.crc16 (d.take fd.packetLen) = 0) ∧
      ∀ rest, Eof.unpack (d.take fd.packetLen ++ rest) = .ok k := by
  obtain ⟨fd, p, hp, hf, h3, h4, h5, h10⟩ := Eof.unpack_inv d k h
  refine ⟨fd, p, hp, h3, h5, h4, fun rest => ?_⟩
  rw [Eof.unpack_eq, prelude_take d fd p hp (by omega) rest]
  exact hf

/-- **every strict prefix of a packed PDU is refused with `ValueError`** -/
theorem C06_eof_truncated (x : Eof) (wf : WFEof x) (k : Nat) (hk : k < (Spec.eof x).length) :
    Eof.unpack ((Spec.eof x).take k) = .error .value := by
  rw [Eof.unpack_eq]
  exact pdu_truncated _ x.fd _ _ _ (by rw [eofParams_length x wf.2.2.1]; exact wf.2.2.2.2.2) k hk

-- non-vacuity: FILE_CHECKSUM_FAILURE, 64-bit size with pairwise different octets, 2-octet fault location, CRC
private def exEof : Eof :=
  ⟨⟨⟨0, 0, 20, ⟨⟨2, 0x0102⟩, ⟨2, 0x0304⟩, ⟨1, 9⟩, 0, 1, 1, 0, 0⟩⟩, 4⟩, 5, [0xA1, 0xA2, 0xA3, 0xA4],
    0x0102030405060708, some ⟨⟨6, [0x0A, 0x0B]⟩⟩⟩
example : WFEof exEof := by decide
example : EqWidth exEof.faultLoc := by decide
example : Eof.new ⟨⟨2, 0x0102⟩, ⟨2, 0x0304⟩, ⟨1, 9⟩, 0, 1, 1, 1, 0⟩ [0xA1, 0xA2, 0xA3, 0xA4] 0x0102030405060708
    (some ⟨⟨6, [0x0A, 0x0B]⟩⟩) 5 = .ok exEof := by rfl
example : C05.Spec.octets exEof.fd.header ++ [u8 exEof.fd.code] ++ Spec.eofParams exEof
    = [0x23, 0, 20, 0x10, 1, 2, 9, 3, 4, 4, 0x50, 0xA1, 0xA2, 0xA3, 0xA4, 1, 2, 3, 4, 5, 6, 7, 8, 6, 2, 0x0A, 0x0B] := by
  decide
example : WFEof ⟨⟨⟨0, 0, 10, ⟨⟨1, 0⟩, ⟨1, 0⟩, ⟨1, 0⟩, 0, 0, 0, 0, 0⟩⟩, 4⟩, 0, [0, 0, 0, 0], 4294967295, none⟩ := by decide
example : ¬ fits 4 4294967296 := by decide

end SpVerif.Props.C06Var
