import SpVerif.Proofs.Factory
import SpVerif.Props.C06Fixed
import SpVerif.Props.C06Var
import SpVerif.Props.C07
/-!
# C12 — the PDU factory returns the right PDU kind, equal to what was packed

Property theorems only. Everything is stated over the decoder models of C05 / C06 / C07 (the
definitions the driver executes) and the factory model `Model/Factory.lean`.

What the standard fixes and the factory relies on (CCSDS 727.0-B-5 §5.1, table 5-1): bit 3 of the
first octet is the PDU type (0 file directive, 1 file data); a file directive carries its directive
code in the first octet of the data field, i.e. at offset `4 + 2·idw + seqw` where `idw − 1` and
`seqw − 1` are the two 3-bit width codes of the fourth octet — 16 positions for the 16 width
combinations (`C12_directive_octet_position`).

Kinds are handled as a table (`WFPdu`, `Spec.octets`, `refusesTrailing`, `headerOf`, `norm`, `EqOk`):
one line per kind, all eight kinds.

Two clauses need a word. *Identical*: for seven kinds the object the factory returns is the packed
object itself; a Metadata PDU comes back with its options as generic TLVs of the same types and
values (`[]` as `None`) — `norm` — which compares equal under the library's `==` both ways and
re-packs to the same octets (C06). *Equal*: `==` of an EOF / Finished PDU compares the fault-location
entity IDs numerically and raises `ValueError` for an ID width other than 1, 2, 4, 8 (`EqOk`).
-/
namespace SpVerif.Props.C12
open SpVerif SpVerif.CfdpHeader SpVerif.FileDirective SpVerif.Factory
open SpVerif.Props

/-! ## the domain: valid PDUs of every kind, in every header configuration -/

/-- valid PDUs (the domains of the C06 / C07 round-trip theorems: every header configuration —
    CRC × large file × mode × 16 width combinations × segmentation control — and every parameter
    value; a File Data PDU carries the File Data type bit, as every constructed one does) -/
def WFPdu : AnyPdu → Prop
  | .fileData x => C07.WF x ∧ x.header.pduType = 1
  | .ack x => C06Fixed.WFAck x
  | .nak x => C06Fixed.WFNak x
  | .prompt x => C06Fixed.WFPrompt x
  | .keepAlive x => C06Fixed.WFKeepAlive x
  | .eof x => C06Var.WFEof x
  | .finished x => C06Var.WFFin x
  | .metadata x => C06Var.WFMd x

instance (p : AnyPdu) : Decidable (WFPdu p) := by
  cases p <;> (unfold WFPdu; infer_instance)

/-- the octets the standard prescribes for a PDU (the `Spec` layouts of C06 / C07) -/
def Spec.octets : AnyPdu → Bytes
  | .fileData x => C07.Spec.octets x
  | .ack x => C06Fixed.Spec.ack x
  | .nak x => C06Fixed.Spec.nak x
  | .prompt x => C06Fixed.Spec.prompt x
  | .keepAlive x => C06Fixed.Spec.keepAlive x
  | .eof x => C06Var.Spec.eof x
  | .finished x => C06Var.Spec.finished x
  | .metadata x => C06Var.Spec.metadata x

/-- kinds whose decoder refuses octets after the declared PDU (documented `ValueError`, by design:
    NAK); the others decode the PDU alone — the two behaviours the statement allows (C09 clause) -/
def refusesTrailing : AnyPdu → Bool
  | .nak _ => true
  | _ => false

/-- the fixed header of a PDU object -/
def headerOf : AnyPdu → PduHeader
  | .fileData x => x.header
  | .ack x => x.fd.header
  | .nak x => x.fd.header
  | .prompt x => x.fd.header
  | .keepAlive x => x.fd.header
  | .eof x => x.fd.header
  | .finished x => x.fd.header
  | .metadata x => x.fd.header

/-- what a decoder hands back for a packed object: the object itself, except that Metadata options
    come back as generic TLVs (C06 `normMd`) -/
def norm : AnyPdu → AnyPdu
  | .metadata x => .metadata (C06Var.normMd x)
  | p => p

/-- PDUs the library's `==` can compare: a fault location (EOF, Finished) needs an entity ID of a
    width `UnsignedByteField` supports -/
def EqOk : AnyPdu → Prop
  | .eof x => C06Var.EqWidth x.faultLoc
  | .finished x => C06Var.EqWidth x.faultLoc
  | _ => True

instance (p : AnyPdu) : Decidable (EqOk p) := by
  cases p <;> (unfold EqOk; infer_instance)

/-! ## position of the directive octet -/

/-- **the directive octet's position for every width combination**: `header_len_from_raw` of a
    packed header (followed by anything) is `4 + 2·idw + seqw` -/
theorem C12_directive_octet_position (h : PduHeader) (wf : C05.WF h) (rest : Bytes) :
    headerLenFromRaw (C05.Spec.octets h ++ rest) = .ok (4 + 2 * h.conf.source.width + h.conf.seqNum.width) ∧
    (C05.Spec.octets h).length = 4 + 2 * h.conf.source.width + h.conf.seqNum.width := by
  rw [C05.C05_header_len_from_raw_pack h wf rest, (C05.C05_len h wf).1]
  exact ⟨rfl, rfl⟩

/-! ## shared machinery -/

/-- a buffer a directive decoder's prelude accepts: type bit, directive octet, dispatch -/
private theorem directive_facts (d : Bytes) (fd : FileDirective) (q : Bytes)
    (hp : prelude d = .ok (fd, q)) (ht : fd.header.pduType = 0) :
    pduType d = .ok 0 ∧ isFileDirective d = .ok true ∧ pduDirectiveType d = directiveOf fd.code ∧
    fromRaw d = directiveOf fd.code >>= fun dir => dispatch dir d := by
  obtain ⟨hu, hi, _⟩ := (prelude_ok_iff d fd q).mp hp
  have h1 := pduType_of_header d fd.header hu
  rw [ht] at h1
  obtain ⟨h3, h4⟩ := fromRaw_directive d fd.header hu ht fd.code hi
  refine ⟨h1, ?_, h3, h4⟩
  rw [isFileDirective_eq, h1]; rfl

/-- the prelude of every directive decoder on a laid-out PDU (any parameters), followed by anything -/
private theorem pdu_prelude (fd : FileDirective) (P rest : Bytes) (wf : C05.WF fd.header) (hc : fd.code < 256)
    (hl : fd.header.dataFieldLen = (C06Fixed.Spec.pdu fd P).length - fd.header.headerLen) :
    prelude (C06Fixed.Spec.pdu fd P ++ rest) = .ok (fd, specOctets fd ++ P) := by
  have e : C06Fixed.Spec.pdu fd P = withCrc fd.header.conf.crcFlag (specOctets fd ++ P) := rfl
  rw [e] at hl ⊢
  refine (prelude_spec fd wf hc P rest ?_).1
  have hs := specOctets_length fd wf
  have hh : fd.headerLen = fd.header.headerLen + 1 := rfl
  unfold withCrc at hl
  by_cases hcf : fd.header.conf.crcFlag = 1
  · simp only [hcf, ↓reduceIte, List.length_append, Crc.crcTrailer, Crc.be16, List.length_cons,
      List.length_nil] at hl ⊢
    omega
  · simp only [hcf, ↓reduceIte, List.length_append] at hl ⊢
    omega

private theorem decodeAs_ok {k : Kind} {d : Bytes} {p : AnyPdu} (hf : decoderOf k d = .ok p) :
    decodeAs k d = .ok (some p) := by
  simp only [decodeAs, hf]; rfl

private theorem decodeAs_err {k : Kind} {d : Bytes} {e : Err} (hf : decoderOf k d = .error e) :
    decodeAs k d = .error e := by
  simp only [decodeAs, hf]; rfl

/-! ## dispatch, kind by kind (`C12_dispatch_<K>`) -/

/-- **File Data**: the factory returns a File Data PDU identical to the packed one — alone or
    followed by any further octets — for every offset, data, segment metadata and configuration -/
theorem C12_dispatch_filedata (x : FileData.Pdu) (wf : C07.WF x) (ht : x.header.pduType = 1) (rest : Bytes) :
    fromRaw (C07.Spec.octets x ++ rest) = .ok (some (.fileData x)) ∧
    pduType (C07.Spec.octets x ++ rest) = .ok 1 ∧
    isFileDirective (C07.Spec.octets x ++ rest) = .ok false ∧
    pduDirectiveType (C07.Spec.octets x ++ rest) = .ok none := by
  have hr := C07.C07_roundtrip x wf rest
  obtain ⟨_, _, _, hu⟩ := C07.C07_decode_encode _ x hr
  have h1 := pduType_of_header _ _ hu
  rw [ht] at h1
  refine ⟨?_, h1, ?_, ?_⟩
  · rw [fromRaw_fileData _ _ hu (by omega), hr]; rfl
  · rw [isFileDirective_eq, h1]; rfl
  · rw [pduDirectiveType_of_header _ _ hu, if_pos (by omega)]

/-- **ACK**, alone or followed by any further octets -/
theorem C12_dispatch_ack (x : Ack.Ack) (wf : C06Fixed.WFAck x) (rest : Bytes) :
    fromRaw (C06Fixed.Spec.ack x ++ rest) = .ok (some (.ack x)) ∧
    pduType (C06Fixed.Spec.ack x ++ rest) = .ok 0 ∧
    isFileDirective (C06Fixed.Spec.ack x ++ rest) = .ok true ∧
    pduDirectiveType (C06Fixed.Spec.ack x ++ rest) = .ok (some 6) := by
  have hr := C06Fixed.C06_ack_roundtrip x wf rest
  obtain ⟨hp, _⟩ := Ack.unpack_inv _ x hr
  obtain ⟨_, hty, _, hcode, _⟩ := wf.2.2.2.2.2
  obtain ⟨h1, h2, h3, h4⟩ := directive_facts _ _ _ hp hty
  rw [hcode] at h3 h4
  refine ⟨?_, h1, h2, h3⟩
  rw [h4, (dispatch_table _).2.2.1]
  exact decodeAs_ok (show _ <$> _ = _ by rw [hr]; rfl)

/-- **Prompt**, alone or followed by any further octets -/
theorem C12_dispatch_prompt (x : Prompt.Prompt) (wf : C06Fixed.WFPrompt x) (rest : Bytes) :
    fromRaw (C06Fixed.Spec.prompt x ++ rest) = .ok (some (.prompt x)) ∧
    pduType (C06Fixed.Spec.prompt x ++ rest) = .ok 0 ∧
    isFileDirective (C06Fixed.Spec.prompt x ++ rest) = .ok true ∧
    pduDirectiveType (C06Fixed.Spec.prompt x ++ rest) = .ok (some 9) := by
  have hr := C06Fixed.C06_prompt_roundtrip x wf rest
  obtain ⟨hp, _⟩ := Prompt.unpack_inv _ x hr
  obtain ⟨_, hty, _, hcode, _⟩ := wf.2
  obtain ⟨h1, h2, h3, h4⟩ := directive_facts _ _ _ hp hty
  rw [hcode] at h3 h4
  refine ⟨?_, h1, h2, h3⟩
  rw [h4, (dispatch_table _).2.2.2.2.2.1]
  exact decodeAs_ok (show _ <$> _ = _ by rw [hr]; rfl)

/-- **Keep Alive**, alone or followed by any further octets -/
theorem C12_dispatch_keepalive (x : KeepAlive.KeepAlive) (wf : C06Fixed.WFKeepAlive x) (rest : Bytes) :
    fromRaw (C06Fixed.Spec.keepAlive x ++ rest) = .ok (some (.keepAlive x)) ∧
    pduType (C06Fixed.Spec.keepAlive x ++ rest) = .ok 0 ∧
    isFileDirective (C06Fixed.Spec.keepAlive x ++ rest) = .ok true ∧
    pduDirectiveType (C06Fixed.Spec.keepAlive x ++ rest) = .ok (some 12) := by
  have hr := C06Fixed.C06_keepalive_roundtrip x wf rest
  obtain ⟨hp, _⟩ := KeepAlive.unpack_inv _ x hr
  obtain ⟨_, hty, _, hcode, _⟩ := wf.2.2
  obtain ⟨h1, h2, h3, h4⟩ := directive_facts _ _ _ hp hty
  rw [hcode] at h3 h4
  refine ⟨?_, h1, h2, h3⟩
  rw [h4, (dispatch_table _).2.2.2.2.2.2.1]
  exact decodeAs_ok (show _ <$> _ = _ by rw [hr]; rfl)

/-- **NAK**: the PDU alone is returned identical; followed by further octets it is refused with the
    documented `ValueError` (never folded into segment requests), while the inspectors still report
    type and directive code -/
theorem C12_dispatch_nak (x : Nak.Nak) (wf : C06Fixed.WFNak x) (rest : Bytes) :
    fromRaw (C06Fixed.Spec.nak x ++ rest) = (if rest = [] then .ok (some (.nak x)) else .error .value) ∧
    pduType (C06Fixed.Spec.nak x ++ rest) = .ok 0 ∧
    isFileDirective (C06Fixed.Spec.nak x ++ rest) = .ok true ∧
    pduDirectiveType (C06Fixed.Spec.nak x ++ rest) = .ok (some 8) := by
  have hr := C06Fixed.C06_nak_roundtrip x wf
  obtain ⟨hp, _⟩ := Nak.unpack_inv _ x hr
  obtain ⟨hw, hty, _, hcode, _⟩ := wf.2.2.2
  -- the prelude only looks at the declared PDU: it accepts the buffer with the suffix as well
  have h1dl : 1 ≤ x.fd.header.dataFieldLen := by
    have := wf.2.2.2.2.2.2.2.2; omega
  have hlen : (C06Fixed.Spec.nak x).length = x.fd.packetLen := (C06Fixed.C06_nak_len x wf).1
  have hp2 := prelude_take _ _ _ hp h1dl rest
  rw [← hlen, List.take_length] at hp2
  obtain ⟨h1, h2, h3, h4⟩ := directive_facts _ _ _ hp2 hty
  rw [hcode] at h3 h4
  refine ⟨?_, h1, h2, h3⟩
  rw [h4, (dispatch_table _).2.2.2.2.1]
  by_cases hrest : rest = []
  · subst hrest
    rw [if_pos rfl, List.append_nil]
    exact decodeAs_ok (show _ <$> _ = _ by rw [hr]; rfl)
  · rw [if_neg hrest]
    exact decodeAs_err (show _ <$> _ = _ by rw [C06Fixed.C06_nak_trailing_refused x wf rest hrest]; rfl)

/-- **EOF**, alone or followed by any further octets (neither the CRC trailer nor trailing octets
    are read as a fault location) -/
theorem C12_dispatch_eof (x : Eof.Eof) (wf : C06Var.WFEof x) (rest : Bytes) :
    fromRaw (C06Var.Spec.eof x ++ rest) = .ok (some (.eof x)) ∧
    pduType (C06Var.Spec.eof x ++ rest) = .ok 0 ∧
    isFileDirective (C06Var.Spec.eof x ++ rest) = .ok true ∧
    pduDirectiveType (C06Var.Spec.eof x ++ rest) = .ok (some 4) := by
  have hr := C06Var.C06_eof_roundtrip x wf rest
  obtain ⟨hw, hty, _, hcode, _⟩ := wf.2.2.2.2.2
  have hp : prelude (C06Var.Spec.eof x ++ rest) = _ :=
    pdu_prelude x.fd (C06Var.Spec.eofParams x) rest hw (by omega) (C06Var.C06_eof_len x wf).2.1
  obtain ⟨h1, h2, h3, h4⟩ := directive_facts _ _ _ hp hty
  rw [hcode] at h3 h4
  refine ⟨?_, h1, h2, h3⟩
  rw [h4, (dispatch_table _).1]
  exact decodeAs_ok (show _ <$> _ = _ by rw [hr]; rfl)

/-- **Finished**, alone or followed by any further octets -/
theorem C12_dispatch_finished (x : Finished.Finished) (wf : C06Var.WFFin x) (rest : Bytes) :
    fromRaw (C06Var.Spec.finished x ++ rest) = .ok (some (.finished x)) ∧
    pduType (C06Var.Spec.finished x ++ rest) = .ok 0 ∧
    isFileDirective (C06Var.Spec.finished x ++ rest) = .ok true ∧
    pduDirectiveType (C06Var.Spec.finished x ++ rest) = .ok (some 5) := by
  have hr := C06Var.C06_finished_roundtrip x wf rest
  obtain ⟨hw, hty, _, hcode, _⟩ := wf.2.2.2.2.2.2.2
  have hp : prelude (C06Var.Spec.finished x ++ rest) = _ :=
    pdu_prelude x.fd (C06Var.Spec.finParams x) rest hw (by omega) (C06Var.C06_finished_len x wf).2.1
  obtain ⟨h1, h2, h3, h4⟩ := directive_facts _ _ _ hp hty
  rw [hcode] at h3 h4
  refine ⟨?_, h1, h2, h3⟩
  rw [h4, (dispatch_table _).2.1]
  exact decodeAs_ok (show _ <$> _ = _ by rw [hr]; rfl)

/-- **Metadata**, alone or followed by any further octets: the PDU comes back with identical header,
    closure flag, checksum type, file size and names, and its options as generic TLVs of the same
    types and values (`normMd`, C06) -/
theorem C12_dispatch_metadata (x : Metadata.Metadata) (wf : C06Var.WFMd x) (rest : Bytes) :
    fromRaw (C06Var.Spec.metadata x ++ rest) = .ok (some (.metadata (C06Var.normMd x))) ∧
    pduType (C06Var.Spec.metadata x ++ rest) = .ok 0 ∧
    isFileDirective (C06Var.Spec.metadata x ++ rest) = .ok true ∧
    pduDirectiveType (C06Var.Spec.metadata x ++ rest) = .ok (some 7) := by
  have hr := C06Var.C06_metadata_roundtrip x wf rest
  obtain ⟨hw, hty, _, hcode, _⟩ := wf.2.2.2.2.2
  have hp : prelude (C06Var.Spec.metadata x ++ rest) = _ :=
    pdu_prelude x.fd (C06Var.Spec.mdParams x) rest hw (by omega) (C06Var.C06_metadata_len x wf).2.1
  obtain ⟨h1, h2, h3, h4⟩ := directive_facts _ _ _ hp hty
  rw [hcode] at h3 h4
  refine ⟨?_, h1, h2, h3⟩
  rw [h4, (dispatch_table _).2.2.2.1]
  exact decodeAs_ok (show _ <$> _ = _ by rw [hr]; rfl)

/-! ## dispatch, uniformly over the kinds -/

/-- **pack = the standard's layout**, for every valid PDU of every kind (C06 / C07) -/
theorem C12_pack_exact (p : AnyPdu) (wf : WFPdu p) : p.pack = .ok (Spec.octets p) := by
  cases p with
  | fileData x => exact C07.C07_pack_exact x wf.1
  | ack x => exact C06Fixed.C06_ack_pack_exact x wf
  | nak x => exact C06Fixed.C06_nak_pack_exact x wf
  | prompt x => exact C06Fixed.C06_prompt_pack_exact x wf
  | keepAlive x => exact C06Fixed.C06_keepalive_pack_exact x wf
  | eof x => exact C06Var.C06_eof_pack_exact x wf
  | finished x => exact C06Var.C06_finished_pack_exact x wf
  | metadata x => exact C06Var.C06_metadata_pack_exact x wf

/-- **equal under the library's `==`, both ways**: the packed object and the object the factory
    returns for it (`norm p`) compare equal (for EOF / Finished: when the fault-location entity ID has a
    width the library can compare, otherwise `==` itself raises `ValueError`) -/
theorem C12_beq (p : AnyPdu) (wf : WFPdu p) (hw : EqOk p) :
    p.beq (norm p) = .ok true ∧ (norm p).beq p = .ok true := by
  cases p with
  | fileData x => simp [norm, AnyPdu.beq, FileData.Pdu.beq, FileData.hdrBeq, pure, Except.pure]
  | ack x => simp [norm, AnyPdu.beq, Ack.Ack.beq, FileDirective.beq_refl, pure, Except.pure]
  | nak x => simp [norm, AnyPdu.beq, Nak.Nak.beq, FileDirective.beq_refl, pure, Except.pure]
  | prompt x => simp [norm, AnyPdu.beq, Prompt.Prompt.beq, FileDirective.beq_refl, pure, Except.pure]
  | keepAlive x => simp [norm, AnyPdu.beq, KeepAlive.KeepAlive.beq, FileDirective.beq_refl, pure, Except.pure]
  | eof x =>
    obtain ⟨k', _, rfl, h1, h2, _⟩ := C06Var.C06_eof_eq_repack x wf hw []
    exact ⟨h1, h2⟩
  | finished x =>
    obtain ⟨k', _, rfl, h1, h2, _⟩ := C06Var.C06_finished_eq_repack x wf hw []
    exact ⟨h1, h2⟩
  | metadata x => exact C06Var.C06_metadata_eq x wf

/-- the returned object is of the same class, is a valid PDU again and **re-packs to the same octets** -/
theorem C12_norm (p : AnyPdu) (wf : WFPdu p) :
    (norm p).kind = p.kind ∧ WFPdu (norm p) ∧ Spec.octets (norm p) = Spec.octets p ∧
    (norm p).pack = p.pack ∧ norm (norm p) = norm p := by
  cases p with
  | metadata x =>
    obtain ⟨h1, h2, h3, _⟩ := C06Var.C06_metadata_repack x wf []
    refine ⟨rfl, h1, h2, h3, ?_⟩
    have h4 := C06Var.C06_metadata_roundtrip x wf []
    have h5 := C06Var.C06_metadata_roundtrip (C06Var.normMd x) h1 []
    rw [h2, h4] at h5
    simp only [norm]
    exact congrArg AnyPdu.metadata (Except.ok.inj h5).symm
  | fileData x => exact ⟨rfl, wf, rfl, rfl, rfl⟩
  | ack x => exact ⟨rfl, wf, rfl, rfl, rfl⟩
  | nak x => exact ⟨rfl, wf, rfl, rfl, rfl⟩
  | prompt x => exact ⟨rfl, wf, rfl, rfl, rfl⟩
  | keepAlive x => exact ⟨rfl, wf, rfl, rfl, rfl⟩
  | eof x => exact ⟨rfl, wf, rfl, rfl, rfl⟩
  | finished x => exact ⟨rfl, wf, rfl, rfl, rfl⟩

/-- **the factory's generic decode returns an instance of exactly the packed kind, equal to the
    original**: for every valid PDU `p` of every kind in every header configuration,
    `from_raw(pack(p) ‖ rest)` is `norm p` — `p` itself, same class, same header, same parameters (for
    Metadata: options as generic TLVs) — except that a kind which refuses trailing octets answers a
    non-empty `rest` with `ValueError` -/
theorem C12_dispatch (p : AnyPdu) (wf : WFPdu p) (rest : Bytes) :
    fromRaw (Spec.octets p ++ rest) =
      if refusesTrailing p = true ∧ rest ≠ [] then .error .value else .ok (some (norm p)) := by
  cases p with
  | fileData x => simpa [refusesTrailing, Spec.octets, norm] using (C12_dispatch_filedata x wf.1 wf.2 rest).1
  | ack x => simpa [refusesTrailing, Spec.octets, norm] using (C12_dispatch_ack x wf rest).1
  | prompt x => simpa [refusesTrailing, Spec.octets, norm] using (C12_dispatch_prompt x wf rest).1
  | keepAlive x => simpa [refusesTrailing, Spec.octets, norm] using (C12_dispatch_keepalive x wf rest).1
  | eof x => simpa [refusesTrailing, Spec.octets, norm] using (C12_dispatch_eof x wf rest).1
  | finished x => simpa [refusesTrailing, Spec.octets, norm] using (C12_dispatch_finished x wf rest).1
  | metadata x => simpa [refusesTrailing, Spec.octets, norm] using (C12_dispatch_metadata x wf rest).1
  | nak x =>
    have := (C12_dispatch_nak x wf rest).1
    by_cases hr : rest = []
    · simpa [refusesTrailing, Spec.octets, norm, hr] using this
    · simpa [refusesTrailing, Spec.octets, norm, hr] using this

/-- the statement's form: pack, hand the octets to the factory, get back an object `p'` of the same
    kind that is equal to the original under `==` (both ways) and re-packs to the same octets; for
    seven of the eight kinds it is the original itself -/
theorem C12_dispatch_eq_repack (p : AnyPdu) (wf : WFPdu p) :
    ∃ p', (p.pack >>= fromRaw) = .ok (some p') ∧ p'.kind = p.kind ∧ p' = norm p ∧
      (p.kind ≠ .metadata → p' = p) ∧ p'.pack = p.pack ∧
      (EqOk p → p.beq p' = .ok true ∧ p'.beq p = .ok true) := by
  obtain ⟨hk, _, _, hp, _⟩ := C12_norm p wf
  refine ⟨norm p, ?_, hk, rfl, ?_, hp, C12_beq p wf⟩
  · rw [C12_pack_exact p wf]
    have := C12_dispatch p wf []
    rw [List.append_nil] at this
    rw [show (Except.ok (Spec.octets p) >>= fromRaw) = fromRaw (Spec.octets p) from rfl, this]
    simp
  · intro hm
    cases p <;> first | rfl | exact absurd rfl hm

/-- **trailing octets (C09 clause)**: a packed PDU followed by further octets is either decoded
    exactly as the PDU alone or refused with a documented error — never anything else -/
theorem C12_dispatch_trailing (p : AnyPdu) (wf : WFPdu p) (rest : Bytes) :
    fromRaw (Spec.octets p ++ rest) = fromRaw (Spec.octets p) ∨
    ∃ e, fromRaw (Spec.octets p ++ rest) = .error e ∧ e.documented = true := by
  have h0 := C12_dispatch p wf []
  rw [List.append_nil] at h0
  simp only [ne_eq, not_true_eq_false, and_false, ↓reduceIte] at h0
  rw [C12_dispatch p wf rest, h0]
  split
  · exact Or.inr ⟨_, rfl, rfl⟩
  · exact Or.inl rfl

/-! ## raw-buffer inspectors -/

/-- **the inspectors report what the packed octets carry**, for every valid PDU of every kind and
    every header configuration, alone or followed by anything: `pdu_type` is the type of the PDU's
    kind and is bit 4 of the first packed octet; `is_file_directive` accordingly; and
    `pdu_directive_type` is `None` for File Data and otherwise the `DirectiveType` of the kind,
    which is the packed octet at `header_len` (for each of the 16 width combinations) -/
theorem C12_inspectors (p : AnyPdu) (wf : WFPdu p) (rest : Bytes) :
    pduType (Spec.octets p ++ rest) = .ok (if p.kind = .fileData then 1 else 0) ∧
    isFileDirective (Spec.octets p ++ rest) = .ok (decide (p.kind ≠ .fileData)) ∧
    pduDirectiveType (Spec.octets p ++ rest) = .ok p.kind.code ∧
    (∀ c, p.kind.code = some c → idx (Spec.octets p ++ rest) (headerOf p).headerLen = .ok c) ∧
    (∃ x r, Spec.octets p ++ rest = x :: r ∧ x.toNat / 16 % 2 = (if p.kind = .fileData then 1 else 0)) := by
  have key : pduType (Spec.octets p ++ rest) = .ok (if p.kind = .fileData then 1 else 0) ∧
      isFileDirective (Spec.octets p ++ rest) = .ok (decide (p.kind ≠ .fileData)) ∧
      pduDirectiveType (Spec.octets p ++ rest) = .ok p.kind.code := by
    cases p with
    | fileData x => obtain ⟨_, h1, h2, h3⟩ := C12_dispatch_filedata x wf.1 wf.2 rest; exact ⟨h1, h2, h3⟩
    | ack x => obtain ⟨_, h1, h2, h3⟩ := C12_dispatch_ack x wf rest; exact ⟨h1, h2, h3⟩
    | nak x => obtain ⟨_, h1, h2, h3⟩ := C12_dispatch_nak x wf rest; exact ⟨h1, h2, h3⟩
    | prompt x => obtain ⟨_, h1, h2, h3⟩ := C12_dispatch_prompt x wf rest; exact ⟨h1, h2, h3⟩
    | keepAlive x => obtain ⟨_, h1, h2, h3⟩ := C12_dispatch_keepalive x wf rest; exact ⟨h1, h2, h3⟩
    | eof x => obtain ⟨_, h1, h2, h3⟩ := C12_dispatch_eof x wf rest; exact ⟨h1, h2, h3⟩
    | finished x => obtain ⟨_, h1, h2, h3⟩ := C12_dispatch_finished x wf rest; exact ⟨h1, h2, h3⟩
    | metadata x => obtain ⟨_, h1, h2, h3⟩ := C12_dispatch_metadata x wf rest; exact ⟨h1, h2, h3⟩
  obtain ⟨k1, k2, k3⟩ := key
  refine ⟨k1, k2, k3, ?_, ?_⟩
  · -- the directive octet sits at header_len
    intro c hc
    have hdr : PduHeader.unpack (Spec.octets p ++ rest) = .ok (headerOf p) ∧ (headerOf p).pduType = 0 := by
      cases p with
      | fileData x => cases hc
      | ack x =>
        have hr := C06Fixed.C06_ack_roundtrip x wf rest
        obtain ⟨hp, _⟩ := Ack.unpack_inv _ x hr
        exact ⟨((prelude_ok_iff _ _ _).mp hp).1, wf.2.2.2.2.2.2.1⟩
      | prompt x =>
        have hr := C06Fixed.C06_prompt_roundtrip x wf rest
        obtain ⟨hp, _⟩ := Prompt.unpack_inv _ x hr
        exact ⟨((prelude_ok_iff _ _ _).mp hp).1, wf.2.2.1⟩
      | keepAlive x =>
        have hr := C06Fixed.C06_keepalive_roundtrip x wf rest
        obtain ⟨hp, _⟩ := KeepAlive.unpack_inv _ x hr
        exact ⟨((prelude_ok_iff _ _ _).mp hp).1, wf.2.2.2.1⟩
      | nak x =>
        have hr := C06Fixed.C06_nak_roundtrip x wf
        obtain ⟨hp, _⟩ := Nak.unpack_inv _ x hr
        have h1dl : 1 ≤ x.fd.header.dataFieldLen := by
          have := wf.2.2.2.2.2.2.2.2; omega
        have hlen : (C06Fixed.Spec.nak x).length = x.fd.packetLen := (C06Fixed.C06_nak_len x wf).1
        have hp2 := prelude_take _ _ _ hp h1dl rest
        rw [← hlen, List.take_length] at hp2
        exact ⟨((prelude_ok_iff _ _ _).mp hp2).1, wf.2.2.2.2.1⟩
      | eof x =>
        obtain ⟨hw, hty, _⟩ := wf.2.2.2.2.2
        have hp : prelude (C06Var.Spec.eof x ++ rest) = _ :=
          pdu_prelude x.fd (C06Var.Spec.eofParams x) rest hw (by have := wf.2.2.2.2.2.2.2.2.1; omega)
            (C06Var.C06_eof_len x wf).2.1
        exact ⟨((prelude_ok_iff _ _ _).mp hp).1, hty⟩
      | finished x =>
        obtain ⟨hw, hty, _⟩ := wf.2.2.2.2.2.2.2
        have hp : prelude (C06Var.Spec.finished x ++ rest) = _ :=
          pdu_prelude x.fd (C06Var.Spec.finParams x) rest hw (by have := wf.2.2.2.2.2.2.2.2.2.2.1; omega)
            (C06Var.C06_finished_len x wf).2.1
        exact ⟨((prelude_ok_iff _ _ _).mp hp).1, hty⟩
      | metadata x =>
        obtain ⟨hw, hty, _⟩ := wf.2.2.2.2.2
        have hp : prelude (C06Var.Spec.metadata x ++ rest) = _ :=
          pdu_prelude x.fd (C06Var.Spec.mdParams x) rest hw (by have := wf.2.2.2.2.2.2.2.2.1; omega)
            (C06Var.C06_metadata_len x wf).2.1
        exact ⟨((prelude_ok_iff _ _ _).mp hp).1, hty⟩
    obtain ⟨hu, ht⟩ := hdr
    rw [pduDirectiveType_of_header _ _ hu, if_neg (by omega)] at k3
    split at k3
    · cases k3
    · cases hi : idx (Spec.octets p ++ rest) (headerOf p).headerLen with
      | error e => rw [hi] at k3; cases k3
      | ok c' =>
        rw [hi] at k3
        change directiveOf c' = _ at k3
        rw [directiveOf_eq] at k3
        split at k3
        · rw [hc] at k3; cases k3; rfl
        · cases k3
  · cases hd : Spec.octets p ++ rest with
    | nil => rw [hd] at k1; cases k1
    | cons x r =>
      rw [hd, pduType_cons] at k1
      exact ⟨x, r, rfl, Except.ok.inj k1⟩

/-- the type bit, for any buffer whatever: bit 4 of the first octet; no octet → `ValueError` -/
theorem C12_pdu_type_bit (d : Bytes) :
    (d = [] → pduType d = .error .value ∧ isFileDirective d = .error .value ∧
      pduDirectiveType d = .error .value ∧ fromRaw d = .error .value) ∧
    (∀ x r, d = x :: r → pduType d = .ok (x.toNat / 16 % 2) ∧
      isFileDirective d = .ok (x.toNat / 16 % 2 == 0)) := by
  constructor
  · rintro rfl; exact ⟨rfl, rfl, rfl, rfl⟩
  · rintro x r rfl; exact ⟨pduType_cons x r, isFileDirective_cons x r⟩

/-- the directive octet, for any buffer whose fixed header decodes: `pdu_directive_type` is `None`
    for the File Data type bit; otherwise it reads the octet at `header_len` of the decoded header
    (`ValueError` when the buffer ends before it) and converts it with `DirectiveType(…)` -/
theorem C12_directive_octet (d : Bytes) (h : PduHeader) (hu : PduHeader.unpack d = .ok h) :
    pduType d = .ok h.pduType ∧
    pduDirectiveType d =
      (if h.pduType ≠ 0 then .ok none
       else if d.length ≤ h.headerLen then .error .value
       else idx d h.headerLen >>= directiveOf) :=
  ⟨pduType_of_header d h hu, pduDirectiveType_of_header d h hu⟩

/-- **unknown directive code → documented failure**: a file directive whose directive octet is not
    a member of `DirectiveType` makes `pdu_directive_type` and `from_raw` raise `ValueError`;
    `DirectiveType.NONE` (0x0A) *is* a member: the inspector returns it and `from_raw` returns
    `None`, no object -/
theorem C12_unknown_directive (d : Bytes) (h : PduHeader) (hu : PduHeader.unpack d = .ok h)
    (ht : h.pduType = 0) (c : Nat) (hc : idx d h.headerLen = .ok c) :
    (c ∉ directiveTypes → pduDirectiveType d = .error .value ∧ fromRaw d = .error .value) ∧
    (c = 10 → pduDirectiveType d = .ok (some 10) ∧ fromRaw d = .ok none) ∧
    (c ∈ directiveTypes → pduDirectiveType d = .ok (some c)) := by
  obtain ⟨h1, h2⟩ := fromRaw_directive d h hu ht c hc
  refine ⟨?_, ?_, ?_⟩
  · intro hn
    rw [h1, h2, directiveOf_unknown c hn]; exact ⟨rfl, rfl⟩
  · rintro rfl
    rw [h1, h2]; exact ⟨rfl, rfl⟩
  · intro hm
    rw [h1, directiveOf_member c hm]

/-- the members of `DirectiveType` and which of them select a decoder -/
theorem C12_directive_members :
    directiveTypes = [4, 5, 6, 7, 8, 9, 12, 10] ∧
    Kind.all.filterMap Kind.code = [4, 5, 6, 7, 8, 9, 12] := by decide

/-- a file directive that ends before its directive octet: `ValueError` from the inspector and the
    factory (`BytesTooShortError`), for every width combination -/
theorem C12_no_directive_octet (d : Bytes) (h : PduHeader) (hu : PduHeader.unpack d = .ok h)
    (ht : h.pduType = 0) (hl : d.length ≤ h.headerLen) :
    pduDirectiveType d = .error .value ∧ fromRaw d = .error .value := by
  constructor
  · rw [pduDirectiveType_of_header d h hu, if_neg (by omega), if_pos hl]
  · rw [fromRaw_of_header d h hu, if_neg (by omega), if_pos hl]

/-! ## truncated PDUs -/

private theorem truncated_directive (d : Bytes) (fd : FileDirective) (q : Bytes)
    (hp : prelude d = .ok (fd, q)) (ht : fd.header.pduType = 0) (kind : Kind)
    (hdisp : ∀ d', (directiveOf fd.code >>= fun dir => dispatch dir d') = decodeAs kind d')
    (k : Nat) (hk : k < d.length) (hf : decoderOf kind (d.take k) = .error .value) :
    fromRaw (d.take k) = .error .value := by
  obtain ⟨hu, hi, _⟩ := (prelude_ok_iff d fd q).mp hp
  rw [fromRaw_take_directive d fd.header hu ht fd.code hi k (by omega)]
  split
  · rfl
  · rw [hdisp]; exact decodeAs_err hf

/-- **every strict prefix of a packed PDU of any kind is refused by the factory with `ValueError`**
    (too short), in every header configuration — never decoded as something else -/
theorem C12_truncated (p : AnyPdu) (wf : WFPdu p) (k : Nat) (hk : k < (Spec.octets p).length) :
    fromRaw ((Spec.octets p).take k) = .error .value := by
  cases p with
  | fileData x =>
    obtain ⟨_, h1, _, _⟩ := C12_dispatch_filedata x wf.1 wf.2 []
    rw [List.append_nil] at h1
    have hlen : (C07.Spec.octets x).length = x.packetLen := (C07.C07_len x wf.1).1
    have ht := C07.C07_truncated x wf.1 k (by rw [← hlen]; exact hk)
    show fromRaw ((C07.Spec.octets x).take k) = _
    cases hd : C07.Spec.octets x with
    | nil => rw [hd] at h1; cases h1
    | cons x0 r =>
      rw [hd, pduType_cons] at h1
      have e1 : x0.toNat / 16 % 2 = 1 := Except.ok.inj h1
      rw [hd] at ht
      match k with
      | 0 => rfl
      | k + 1 =>
        rw [List.take_succ_cons] at ht ⊢
        rw [fromRaw_cons, if_pos (by omega)]
        exact decodeAs_err (show _ <$> _ = _ by rw [ht]; rfl)
  | ack x =>
    have hr := C06Fixed.C06_ack_roundtrip x wf []
    rw [List.append_nil] at hr
    obtain ⟨hp, _⟩ := Ack.unpack_inv _ x hr
    obtain ⟨_, hty, _, hcode, _⟩ := wf.2.2.2.2.2
    refine truncated_directive _ _ _ hp hty .ack ?_ k hk ?_
    · intro d'; rw [hcode]; exact (dispatch_table d').2.2.1
    · show AnyPdu.ack <$> Ack.Ack.unpack _ = _
      rw [C06Fixed.C06_ack_truncated x wf k hk]; rfl
  | prompt x =>
    have hr := C06Fixed.C06_prompt_roundtrip x wf []
    rw [List.append_nil] at hr
    obtain ⟨hp, _⟩ := Prompt.unpack_inv _ x hr
    obtain ⟨_, hty, _, hcode, _⟩ := wf.2
    refine truncated_directive _ _ _ hp hty .prompt ?_ k hk ?_
    · intro d'; rw [hcode]; exact (dispatch_table d').2.2.2.2.2.1
    · show AnyPdu.prompt <$> Prompt.Prompt.unpack _ = _
      rw [C06Fixed.C06_prompt_truncated x wf k hk]; rfl
  | keepAlive x =>
    have hr := C06Fixed.C06_keepalive_roundtrip x wf []
    rw [List.append_nil] at hr
    obtain ⟨hp, _⟩ := KeepAlive.unpack_inv _ x hr
    obtain ⟨_, hty, _, hcode, _⟩ := wf.2.2
    refine truncated_directive _ _ _ hp hty .keepAlive ?_ k hk ?_
    · intro d'; rw [hcode]; exact (dispatch_table d').2.2.2.2.2.2.1
    · show AnyPdu.keepAlive <$> KeepAlive.KeepAlive.unpack _ = _
      rw [C06Fixed.C06_keepalive_truncated x wf k hk]; rfl
  | nak x =>
    have hr := C06Fixed.C06_nak_roundtrip x wf
    obtain ⟨hp, _⟩ := Nak.unpack_inv _ x hr
    obtain ⟨_, hty, _, hcode, _⟩ := wf.2.2.2
    refine truncated_directive _ _ _ hp hty .nak ?_ k hk ?_
    · intro d'; rw [hcode]; exact (dispatch_table d').2.2.2.2.1
    · show AnyPdu.nak <$> Nak.Nak.unpack _ = _
      rw [C06Fixed.C06_nak_truncated x wf k hk]; rfl
  | eof x =>
    obtain ⟨hw, hty, _, hcode, _⟩ := wf.2.2.2.2.2
    have hp : prelude (C06Var.Spec.eof x ++ []) = _ :=
      pdu_prelude x.fd (C06Var.Spec.eofParams x) [] hw (by omega) (C06Var.C06_eof_len x wf).2.1
    rw [List.append_nil] at hp
    refine truncated_directive _ _ _ hp hty .eof ?_ k hk ?_
    · intro d'; rw [hcode]; exact (dispatch_table d').1
    · show AnyPdu.eof <$> Eof.Eof.unpack _ = _
      rw [C06Var.C06_eof_truncated x wf k hk]; rfl
  | finished x =>
    obtain ⟨hw, hty, _, hcode, _⟩ := wf.2.2.2.2.2.2.2
    have hp : prelude (C06Var.Spec.finished x ++ []) = _ :=
      pdu_prelude x.fd (C06Var.Spec.finParams x) [] hw (by omega) (C06Var.C06_finished_len x wf).2.1
    rw [List.append_nil] at hp
    refine truncated_directive _ _ _ hp hty .finished ?_ k hk ?_
    · intro d'; rw [hcode]; exact (dispatch_table d').2.1
    · show AnyPdu.finished <$> Finished.Finished.unpack _ = _
      rw [C06Var.C06_finished_truncated x wf k hk]; rfl
  | metadata x =>
    obtain ⟨hw, hty, _, hcode, _⟩ := wf.2.2.2.2.2
    have hp : prelude (C06Var.Spec.metadata x ++ []) = _ :=
      pdu_prelude x.fd (C06Var.Spec.mdParams x) [] hw (by omega) (C06Var.C06_metadata_len x wf).2.1
    rw [List.append_nil] at hp
    refine truncated_directive _ _ _ hp hty .metadata ?_ k hk ?_
    · intro d'; rw [hcode]; exact (dispatch_table d').2.2.2.1
    · show AnyPdu.metadata <$> Metadata.Metadata.unpack _ = _
      rw [C06Var.C06_metadata_truncated x wf k hk]; rfl

/-! ## soundness for any input -/

/-- **whatever `from_raw` returns, for whatever octet string, is an object of the kind the octets
    name**: its class is the File Data class iff the type bit is set, otherwise the class of the
    directive octet; and the holder's accessor for that kind returns it -/
theorem C12_from_raw_sound (d : Bytes) (p : AnyPdu) (h : fromRaw d = .ok (some p)) :
    pduType d = .ok (if p.kind = .fileData then 1 else 0) ∧
    pduDirectiveType d = .ok p.kind.code ∧
    p.Canonical ∧
    (∀ k, Holder.castTo k (some p) = if p.kind = k then .ok p else .error .type) := by
  obtain ⟨hc, h1, h2⟩ := fromRaw_sound d p h
  refine ⟨?_, h2, hc, castTo_canonical p hc⟩
  rw [h1]
  cases p <;> first | rfl | (simp only [AnyPdu.Canonical] at hc; simp [AnyPdu.pduType, AnyPdu.view, AnyPdu.kind, hc, FILE_DATA])

/-! ## the holder -/

/-- valid PDUs are canonical (so are all objects the factory returns, `C12_from_raw_sound`) -/
theorem C12_wf_canonical (p : AnyPdu) (wf : WFPdu p) : p.Canonical := by
  cases p with
  | fileData x => exact wf.2
  | prompt x => exact wf.2.2.2.2.1
  | ack x => trivial
  | nak x => trivial
  | keepAlive x => trivial
  | eof x => exact wf.2.2.2.2.2.2.2.2.1
  | finished x => trivial
  | metadata x => trivial

/-- **the (held kind or none) × (requested kind) table**: for an empty holder every one of the eight
    typed accessors raises `TypeError`; for a held PDU the accessor of its own kind succeeds and
    returns the held object itself, each of the seven others raises `TypeError` -/
theorem C12_holder (held : Holder) (k : Kind) (hc : ∀ p, held = some p → p.Canonical) :
    Holder.castTo k held =
      match held with
      | none => .error .type
      | some p => if p.kind = k then .ok p else .error .type := by
  cases held with
  | none => rfl
  | some p => exact castTo_canonical p (hc p rfl) k

/-- the table for valid PDUs, spelled out: diagonal and off-diagonal -/
theorem C12_holder_valid (p : AnyPdu) (wf : WFPdu p) (k : Kind) :
    (k = p.kind → Holder.castTo k (some p) = .ok p) ∧
    (k ≠ p.kind → Holder.castTo k (some p) = .error .type) ∧
    Holder.castTo k none = .error .type := by
  have := castTo_canonical p (C12_wf_canonical p wf) k
  refine ⟨?_, ?_, rfl⟩
  · rintro rfl; rw [this, if_pos rfl]
  · intro hk; rw [this, if_neg (fun h => hk h.symm)]

/-- the same table behind `from_raw_to_holder`: pack, decode into a holder, ask for kind `k` -/
theorem C12_holder_from_raw (p : AnyPdu) (wf : WFPdu p) (k : Kind) :
    (p.pack >>= fromRawToHolder >>= Holder.castTo k) = if p.kind = k then .ok (norm p) else .error .type := by
  rw [C12_pack_exact p wf]
  have := C12_dispatch p wf []
  rw [List.append_nil] at this
  simp only [ne_eq, not_true_eq_false, and_false, ↓reduceIte] at this
  show (fromRawToHolder (Spec.octets p) >>= Holder.castTo k) = _
  rw [fromRawToHolder, this]
  obtain ⟨hk, hwf, _⟩ := C12_norm p wf
  rw [← hk]
  exact castTo_canonical (norm p) (C12_wf_canonical _ hwf) k

/-- an accessor can only fail with `TypeError`, whatever the holder holds -/
theorem C12_holder_errors (held : Holder) (k : Kind) (e : Err) (h : Holder.castTo k held = .error e) :
    e = .type := by
  cases held with
  | none => cases h; rfl
  | some p =>
    unfold Holder.castTo at h
    simp only at h
    split at h
    · split at h
      · cases h
      · cases h; rfl
    · split at h
      · rename_i hd
        cases hdt : p.directiveType with
        | error e' =>
          -- only a File Data object has no `directive_type`, and it is not a directive class
          cases p <;> simp [AnyPdu.directiveType, AnyPdu.view, AnyPdu.isDirectiveClass, AnyPdu.kind] at hdt hd
        | ok t =>
          rw [hdt] at h
          simp only [bind, Except.bind] at h
          split at h
          · cases h
          · cases h; rfl
      · cases h; rfl

/-- an accessor never converts: what it returns is the held object -/
theorem C12_holder_returns_held (held : Holder) (k : Kind) (q : AnyPdu) (h : Holder.castTo k held = .ok q) :
    held = some q := by
  cases held with
  | none => cases h
  | some p =>
    unfold Holder.castTo at h
    simp only at h
    split at h
    · split at h
      · cases h; rfl
      · cases h
    · split at h
      · cases hd : p.directiveType with
        | error e => rw [hd] at h; cases h
        | ok t =>
          rw [hd] at h
          simp only [bind, Except.bind] at h
          split at h
          · cases h; rfl
          · cases h
      · cases h

/-- the other views of the holder: empty → `pack` gives no octets, `packet_len` 0, and the three
    type views raise `AssertionError`; a held valid PDU → the views of that PDU -/
theorem C12_holder_views (p : AnyPdu) (wf : WFPdu p) :
    Holder.pack none = .ok [] ∧ Holder.packetLen none = 0 ∧
    Holder.pduType none = .error .assertion ∧ Holder.isFileDirective none = .error .assertion ∧
    Holder.pduDirectiveType none = .error .assertion ∧
    Holder.pack (some p) = .ok (Spec.octets p) ∧ Holder.packetLen (some p) = (Spec.octets p).length ∧
    Holder.pduType (some p) = .ok (if p.kind = .fileData then 1 else 0) ∧
    Holder.isFileDirective (some p) = .ok (decide (p.kind ≠ .fileData)) ∧
    Holder.pduDirectiveType (some p) = .ok p.kind.code := by
  refine ⟨rfl, rfl, rfl, rfl, rfl, C12_pack_exact p wf, ?_, ?_, ?_, ?_⟩
  · cases p with
    | fileData x => exact (C07.C07_len x wf.1).1.symm
    | ack x => exact (C06Fixed.C06_ack_len x wf).1.symm
    | nak x => exact (C06Fixed.C06_nak_len x wf).1.symm
    | prompt x => exact (C06Fixed.C06_prompt_len x wf).1.symm
    | keepAlive x => exact (C06Fixed.C06_keepalive_len x wf).1.symm
    | eof x => exact (C06Var.C06_eof_len x wf).1.symm
    | finished x => exact (C06Var.C06_finished_len x wf).1.symm
    | metadata x => exact (C06Var.C06_metadata_len x wf).1.symm
  all_goals
    have hc := C12_wf_canonical p wf
    cases p <;>
      simp_all [Holder.pduType, Holder.isFileDirective, Holder.pduDirectiveType, AnyPdu.Canonical, AnyPdu.kind,
        AnyPdu.pduType, AnyPdu.directiveType, AnyPdu.view, Kind.code, FILE_DATA, FILE_DIRECTIVE, DIR_ACK, DIR_NAK,
        DIR_PROMPT, DIR_KEEP_ALIVE, DIR_EOF, DIR_FINISHED, DIR_METADATA, bind, Except.bind, pure, Except.pure,
        Functor.map, Except.map]

/-- the `pdu` / `base` setters replace the held object: afterwards the accessors answer for the new one -/
theorem C12_holder_setter (h : Holder) (q : Option AnyPdu) (k : Kind) :
    (h.setPdu q).castTo k = Holder.castTo k q ∧ (h.setPdu q).base = q := ⟨rfl, rfl⟩

/-! ## documented errors only -/

/-- the three inspectors fail, for any octet string whatever, only with `ValueError`; `from_raw`
    only with `ValueError` / `UnsupportedCfdpVersion` / `InvalidCrc` / `TlvTypeMissmatch` (what the
    eight decoders document); the typed accessors fail only with the `TypeError` the statement names
    (`C12_holder_errors`) -/
theorem C12_documented (d : Bytes) :
    Documented (pduType d) ∧ Documented (isFileDirective d) ∧ Documented (pduDirectiveType d) ∧
    Documented (fromRaw d) :=
  ⟨pduType_documented d, isFileDirective_documented d, pduDirectiveType_documented d, fromRaw_documented d⟩

/-! ## non-vacuity -/

private instance instDecEqExcept {ε α : Type} [DecidableEq ε] [DecidableEq α] : DecidableEq (Except ε α)
  | .ok a, .ok b => if h : a = b then isTrue (by rw [h]) else isFalse (by intro h'; cases h'; exact h rfl)
  | .error a, .error b => if h : a = b then isTrue (by rw [h]) else isFalse (by intro h'; cases h'; exact h rfl)
  | .ok _, .error _ => isFalse (by intro h; cases h)
  | .error _, .ok _ => isFalse (by intro h; cases h)

-- one valid PDU per modelled kind (the non-vacuity examples of C06 / C07)
private def exFd : AnyPdu := .fileData C07.exA
private def exAck : AnyPdu :=
  .ack ⟨⟨⟨0, 0, 5, ⟨⟨2, 0x0102⟩, ⟨2, 0x0304⟩, ⟨1, 0x77⟩, 1, 1, 1, 0, 0⟩⟩, 6⟩, 5, 1, 5, 2⟩
private def exPrompt : AnyPdu :=
  .prompt ⟨⟨⟨0, 0, 4, ⟨⟨8, 0x0102030405060708⟩, ⟨8, 0x1112131415161718⟩, ⟨4, 0xA1A2A3A4⟩, 0, 0, 1, 0, 1⟩⟩, 9⟩, 1⟩
private def exKa : AnyPdu :=
  .keepAlive ⟨⟨⟨0, 0, 11, ⟨⟨1, 0x21⟩, ⟨1, 0x43⟩, ⟨2, 0x6587⟩, 1, 1, 1, 1, 0⟩⟩, 12⟩, 0x0102030405060708⟩
private def exNak : AnyPdu :=
  .nak ⟨⟨⟨0, 0, 51, ⟨⟨2, 0x0102⟩, ⟨2, 0x0304⟩, ⟨1, 9⟩, 0, 1, 1, 1, 0⟩⟩, 8⟩, 0x0102030405060708, 0xFFFFFFFFFFFFFFFF,
    [(0, 0), (0x1112131415161718, 0x2122232425262728)]⟩
private def exEof : AnyPdu :=
  .eof ⟨⟨⟨0, 0, 20, ⟨⟨2, 0x0102⟩, ⟨2, 0x0304⟩, ⟨1, 9⟩, 0, 1, 1, 0, 0⟩⟩, 4⟩, 5, [0xA1, 0xA2, 0xA3, 0xA4],
    0x0102030405060708, some ⟨⟨6, [0x0A, 0x0B]⟩⟩⟩
private def exFin : AnyPdu :=
  .finished ⟨⟨⟨0, 0, 26, ⟨⟨1, 7⟩, ⟨1, 8⟩, ⟨2, 0x0102⟩, 1, 0, 1, 1, 0⟩⟩, 5⟩, 4, 1, 2,
    [⟨0, 1, [0x61], [], ⟨[]⟩⟩, ⟨2, 33, [0xC3, 0xA4], [0x62], ⟨[9]⟩⟩], some ⟨⟨6, [1, 2, 3, 4]⟩⟩⟩
private def exMd : AnyPdu :=
  .metadata ⟨⟨⟨0, 0, 25, ⟨⟨1, 7⟩, ⟨1, 8⟩, ⟨1, 9⟩, 0, 1, 1, 0, 0⟩⟩, 7⟩, true, 3, 0x0102030405060708,
    ⟨[0xC3, 0xA4, 0x2E]⟩, ⟨[0x62]⟩, some [.msgToUser ⟨⟨2, [0xAA]⟩⟩, .generic ⟨5, [1, 2]⟩]⟩
private def exHeld : List Holder :=
  [none, some exFd, some exEof, some exFin, some exAck, some exMd, some exNak, some exPrompt, some exKa]

example : ∀ p ∈ [exFd, exEof, exFin, exAck, exMd, exPrompt, exKa, exNak], WFPdu p ∧ EqOk p := by decide
example : norm exMd ≠ exMd ∧ (norm exMd).kind = .metadata := by decide
-- the directive octet sits at offset 9, 24, 8 and 9 in these four configurations
example : [exAck, exPrompt, exKa, exNak].map (fun p => (headerOf p).headerLen) = [9, 24, 8, 9] := by decide
-- the accessor table on concrete objects, all (held or none) × (requested kind) pairs, evaluated
example : ∀ h ∈ exHeld, ∀ k ∈ Kind.all,
    Holder.castTo k h = (match h with
      | none => .error .type
      | some p => if p.kind = k then .ok p else .error .type) := by decide
-- the factory on concrete packed octets (CRC-flagged ACK in a 2-octet-ID configuration)
example : (exAck.pack >>= fromRaw) = .ok (some exAck) := by decide +kernel
example : (exFd.pack >>= fromRaw) = .ok (some exFd) := by decide +kernel
-- directive octet 0x0A (`DirectiveType.NONE`) → no object; 0x0B → ValueError; header only → ValueError
example : fromRaw [0x20, 0, 1, 0x00, 1, 2, 3, 0x0A] = .ok none := by decide
example : fromRaw [0x20, 0, 1, 0x00, 1, 2, 3, 0x0B] = .error .value := by decide
example : pduDirectiveType [0x20, 0, 1, 0x00, 1, 2, 3, 0x0B] = .error .value := by decide
example : fromRaw [0x20, 0, 1, 0x00, 1, 2, 3] = .error .value := by decide
example : pduDirectiveType [0x20, 0, 1, 0x13, 1, 2, 3, 4, 5, 6, 7, 8, 9] = .ok (some 9) := by decide
-- a non-canonical held object (the Prompt decoder applied to ACK octets keeps directive code 6):
-- the Prompt accessor refuses it — the hypothesis of `C12_holder` is needed
example : Holder.castTo .prompt (some (.prompt ⟨⟨⟨0, 0, 3, PduConfig.default⟩, 6⟩, 0⟩)) = .error .type := by decide

end SpVerif.Props.C12
