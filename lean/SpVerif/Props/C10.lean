import SpVerif.Proofs.Robust
import SpVerif.Proofs.ErrSets
import SpVerif.Proofs.PusCrcAccept
import SpVerif.Props.C02
import SpVerif.Props.C03
import SpVerif.Props.C05
import SpVerif.Props.C08
import SpVerif.Props.C13
import SpVerif.Props.C14
import SpVerif.Props.C15
import SpVerif.Props.C16
import SpVerif.Props.C17
import SpVerif.Props.C20
import SpVerif.Props.C06Fixed
import SpVerif.Props.C06Var
import SpVerif.Props.C07
import SpVerif.Props.C12
import SpVerif.Props.C18
/-!
# C10 — decoding arbitrary or truncated input fails only in documented ways

Cross-cutting property: the theorems are stated over the decoder models of the owning properties
(the definitions the driver executes and the correspondence checks of C01–C20 tie to /repo).

For every public decoder `D` (table below, one block per kind):

* `C10_<D> : ∀ d cfg, Documented (D d cfg)` — on ANY octet string and ANY configuration the decoder
  returns a value or fails with a documented class (`Err.documented`: ValueError family, CRC errors,
  `UnsupportedCfdpVersion`, `TlvTypeMissmatch`, the `Uslp*` classes); never `IndexError`,
  `struct.error`, `TypeError`, `AttributeError`, `KeyError`, `AssertionError`, and never the
  model-only `fuel` error. The models can express all of those (`idx`, `unpackBE`, `Header.opCtrlFlag`
  …): the theorems say the guards exclude them.
* `C10_<D>_prefix : ∀ valid x, ∀ k < |pack x|, Rejected (D ((pack x).take k) cfg)` — every strict
  prefix of a valid *self-delimiting* unit is REJECTED (fails with a documented class), not decoded.
  Units that are self-delimiting only together with a parameter are stated with the matching one:
  TM / service 17 / service 1 with the timestamp length, `PacketFieldEnum` with its `pfc`, the byte
  field generator with its width, USLP frames with matching managed parameters. Entry points whose
  unit is not self-delimiting have the clause for what they do delimit (`header_len_from_raw`: the
  four fixed octets; `service_from_bytes`: eight octets; `UnsignedByteField.from_bytes`: the
  admissible lengths; the USLP data field, whose length is an argument: its header).
* **never loops**: every model function is a total Lean function — structural recursion
  (`vcfLoop`, `utf8ValidFrom`, `beNat`) or well-founded recursion whose termination proof Lean
  checked (`Parser.scanPy` / `scan`, `termination_by rest.length`); no fuel is used anywhere, and
  `C13_total` (`scanPy = ok ∘ scan`, collected as `C10_parser`) shows the stream parser returns on
  every input. `Documented` excludes `Err.fuel` by definition.

`Rejected x := ∃ e, x = error e ∧ e.documented`.

Blocks: space packet / parser; PUS TC, TM, service 17; request id, packet field, service 1, tracker;
CDS time; CFDP header, `verify_length_and_checksum`, decoder fronts; LV / TLV / concrete TLVs /
holder; byte fields; USLP; (stage 2) file-directive base, the eight PDU decoders, factory and
inspectors, reserved CFDP messages. Adding a kind = one `C10_<D>` line citing the owner's
`*_documented` lemma and one `C10_<D>_prefix` line (from the owner's `*_truncated` lemma, or from
`Robust.prefix_rejected` with the owner's accept-soundness and append-stability lemmas).
-/
namespace SpVerif.Props.C10
open SpVerif SpVerif.Robust

/-! ## CCSDS space packet header, APID helper, stream parser -/
section SpacePacket
open SpVerif.SpacePacket SpVerif.Parser

theorem C10_sph (d : Bytes) : Documented (Sph.unpack d) := C01.C01_unpack_documented d

theorem C10_sph_prefix (h : Sph) (_wf : C01.WF h) (k : Nat) (hk : k < (C01.Spec.octets h).length) :
    Rejected (Sph.unpack ((C01.Spec.octets h).take k)) := by
  refine .of_err (C01.C01_short _ ?_) rfl
  simp only [C01.Spec.octets, List.length_cons, List.length_nil] at hk
  simp only [List.length_take]; omega

theorem C10_apid (d : Bytes) : Documented (apidFromRaw d) := by
  unfold apidFromRaw
  by_cases h : d.length < 6
  · simp only [h, ↓reduceIte, throw, throwThe, MonadExceptOf.throw, bind, Except.bind]
    exact Documented.err rfl
  · simp only [h, ↓reduceIte, bind, Except.bind, pure, Except.pure,
      idx_ok (show 0 < d.length by omega), idx_ok (show 1 < d.length by omega)]
    exact Documented.ok _

theorem C10_apid_prefix (h : Sph) (_wf : C01.WF h) (k : Nat) (hk : k < (C01.Spec.octets h).length) :
    Rejected (apidFromRaw ((C01.Spec.octets h).take k)) := by
  simp only [C01.Spec.octets, List.length_cons, List.length_nil] at hk
  have : ((C01.Spec.octets h).take k).length < 6 := by simp only [List.length_take]; omega
  refine .of_err (e := .value) ?_ rfl
  unfold apidFromRaw
  simp only [this, ↓reduceIte, throw, throwThe, MonadExceptOf.throw, bind, Except.bind]

/-- `parse_space_packets` never raises and always returns (`C13_total*`): the Python-faithful scan
    with its `struct.unpack` calls equals the total pure scan, for every deque and ID list -/
theorem C10_parser (ids : List Nat) (q : List Bytes) :
    parseCall ids q = .ok (call ids q) ∧ Documented (parseCall ids q) := by
  have := C13.C13_total_call ids q
  exact ⟨this, by rw [this]; exact Documented.ok _⟩

theorem C10_parser_scan (ids : List Nat) (buf : Bytes) : scanPy ids buf = .ok (scan ids buf) :=
  C13.C13_total ids buf

/-- whole schedules of appends and parser calls never raise either -/
theorem C10_parser_run (ids : List Nat) (q : List Bytes) (s : List Step) :
    Documented (runPy ids q s) := by
  rw [C13.C13_total_run ids q s]; exact Documented.ok _

/-- a strict prefix of a complete registered packet is never returned as a packet: the scan
    returns nothing and keeps the prefix whole for the next call -/
theorem C10_parser_prefix (ids : List Nat) (p : Bytes) (wf : C13.WFPacket ids p) (k : Nat) (hk : k < p.length) :
    scan ids (p.take k) = ([], p.take k) := by
  apply C13.C13_incomplete
  apply C13.C13_prefix_incomplete ids (p.take k) (p.drop k)
  · intro h
    have := congrArg List.length h
    simp only [List.length_drop, List.length_nil] at this
    omega
  · rw [List.take_append_drop]; exact wf

end SpacePacket

/-! ## PUS telecommand, telemetry, service 17, `service_from_bytes` -/
section Pus
open SpVerif.SpacePacket SpVerif.PusTc SpVerif.PusTm

theorem C10_tc (d : Bytes) : Documented (Tc.unpack d) := C02.C02_documented d

/-- the secondary-header decoders are public classes of their own (`PusTcDataFieldHeader.unpack`,
    `PusTmSecondaryHeader.unpack`) -/
theorem C10_tc_sec (d : Bytes) : Documented (TcSec.unpack d) := C02.sec_unpack_documented d

theorem C10_tm_sec (d : Bytes) (tsLen : Nat) : Documented (TmSec.unpack d tsLen) := C03.sec_unpack_documented d tsLen

/-- fewer than five octets (TC data field header) are rejected -/
theorem C10_tc_sec_prefix (d : Bytes) (h : d.length < 5) : Rejected (TcSec.unpack d) := by
  refine .of_err (e := .value) ?_ rfl
  simp [TcSec.unpack, h, throw, throwThe, MonadExceptOf.throw, bind, Except.bind]

/-- fewer than seven octets (fixed part of the TM secondary header) are rejected; the timestamp
    behind them is a clamped slice (`data[7 : 7 + timestamp_len]`), so the header with its
    timestamp is not self-delimiting on its own — inside `PusTm.unpack` the packet length guards it -/
theorem C10_tm_sec_prefix (d : Bytes) (tsLen : Nat) (h : d.length < 7) : Rejected (TmSec.unpack d tsLen) := by
  refine .of_err (e := .value) ?_ rfl
  simp [TmSec.unpack, h, throw, throwThe, MonadExceptOf.throw, bind, Except.bind]

theorem C10_tc_prefix (t : Tc) (wf : C02.WF t) (k : Nat) (hk : k < (C02.Spec.octets t).length) :
    Rejected (Tc.unpack ((C02.Spec.octets t).take k)) := by
  have hs := (C02.C02_accept_sound _ t (by simpa using C02.C02_roundtrip t wf [])).2.2.2.2
  refine prefix_rejected Tc.unpack Sph.unpack Sph.packetLen C10_tc ?_ sph_unpack_append
    (C02.Spec.octets t) t.sph hs ?_ k hk
  · intro d a ha
    obtain ⟨_, hl, _, _, hsph⟩ := C02.C02_accept_sound d a ha
    exact ⟨a.sph, hsph, hl⟩
  · exact (C02.C02_len t wf).1.symm

theorem C10_tm (d : Bytes) (tsLen : Nat) : Documented (Tm.unpack d tsLen) := C03.C03_documented d tsLen

private theorem tm_hacc (n : Nat) (d : Bytes) (a : Tm) (ha : Tm.unpack d n = .ok a) :
    ∃ b, Sph.unpack d = .ok b ∧ b.packetLen ≤ d.length :=
  ⟨a.sph, PusCrc.tm_unpack_sph ha, (C03.C03_accept_sound d n a ha).2.1⟩

/-- TM packets are self-delimiting together with the timestamp length they were built with -/
theorem C10_tm_prefix (t : Tm) (wf : C03.WF t) (k : Nat) (hk : k < (C03.Spec.octets t).length) :
    Rejected (Tm.unpack ((C03.Spec.octets t).take k) t.sec.timestamp.length) := by
  have hs : Sph.unpack (C03.Spec.octets t) = .ok t.sph :=
    PusCrc.tm_unpack_sph (by simpa using C03.C03_roundtrip t wf [])
  exact prefix_rejected (fun d => Tm.unpack d t.sec.timestamp.length) Sph.unpack Sph.packetLen
    (fun d => C10_tm d _) (tm_hacc _) sph_unpack_append (C03.Spec.octets t) t.sph hs
    (C03.C03_len t wf).1.symm k hk

/-- … and a strict prefix is rejected whatever timestamp length the caller configures -/
theorem C10_tm_prefix_any_ts (t : Tm) (wf : C03.WF t) (n k : Nat) (hk : k < (C03.Spec.octets t).length) :
    Rejected (Tm.unpack ((C03.Spec.octets t).take k) n) := by
  have hs : Sph.unpack (C03.Spec.octets t) = .ok t.sph :=
    PusCrc.tm_unpack_sph (by simpa using C03.C03_roundtrip t wf [])
  exact prefix_rejected (fun d => Tm.unpack d n) Sph.unpack Sph.packetLen
    (fun d => C10_tm d _) (tm_hacc _) sph_unpack_append (C03.Spec.octets t) t.sph hs
    (C03.C03_len t wf).1.symm k hk

theorem C10_srv17 (d : Bytes) (tsLen : Nat) : Documented (srv17Unpack d tsLen) := C03.C03_documented d tsLen

theorem C10_srv17_prefix (t : Tm) (wf : C03.WF t) (n k : Nat) (hk : k < (C03.Spec.octets t).length) :
    Rejected (srv17Unpack ((C03.Spec.octets t).take k) n) := C10_tm_prefix_any_ts t wf n k hk

theorem C10_tm_service (d : Bytes) : Documented (serviceFromBytes d) := (C03.C03_service_from_bytes d).2.2

/-- `service_from_bytes` needs the first eight octets -/
theorem C10_tm_service_prefix (d : Bytes) (h : d.length < 8) : Rejected (serviceFromBytes d) := by
  refine .of_err (e := .value) ?_ rfl
  simp [serviceFromBytes, h, throw, throwThe, MonadExceptOf.throw, bind, Except.bind]

end Pus

/-! ## request id, packet field enum, service 1 reports, verification tracker -/
section Srv1
open SpVerif.SpacePacket SpVerif.PusTm SpVerif.Srv1 SpVerif.Verificator

theorem C10_reqid (d : Bytes) : Documented (ReqId.unpack d) := C15.C15_reqid_documented d

theorem C10_reqid_prefix (r : ReqId) (_wf : C15.WFReq r) (k : Nat) (hk : k < (C15.Spec.reqOctets r).length) :
    Rejected (ReqId.unpack ((C15.Spec.reqOctets r).take k)) := by
  rw [C15.reqOctets_length] at hk
  refine .of_err (ReqId.unpack_short _ ?_) rfl
  simp only [List.length_take]; omega

theorem C10_pfe (d : Bytes) (pfc : Nat) : Documented (Pfe.unpack d pfc) := Pfe.unpack_documented d pfc

/-- a field of width `w` is self-delimiting together with its `pfc = 8 w` -/
theorem C10_pfe_prefix (f : Pfe) (_wf : C15.WFField f) (k : Nat)
    (hk : k < (C15.Spec.fieldOctets f).length) :
    Rejected (Pfe.unpack ((C15.Spec.fieldOctets f).take k) f.pfc) := by
  rw [C15.fieldOctets_length] at hk
  refine .of_err (C15.C15_field_short _ f.pfc ?_).1 rfl
  simp only [List.length_take, C15.fieldOctets_length]
  unfold C15.fieldWidth at hk
  omega

theorem C10_srv1 (d : Bytes) (tsLen sb eb : Nat) : Documented (S1Tm.unpack d tsLen sb eb) :=
  C15.C15_unpack_documented d tsLen sb eb

/-- `Service1Tm.from_tm` on ANY telemetry object (decoded or constructed) -/
theorem C10_srv1_from_tm (tm : Tm) (sb eb : Nat) : Documented (S1Tm.fromTm tm sb eb) :=
  unpackRaw_documented tm sb eb

/-- strict prefixes of a packed report are rejected, whatever widths / timestamp length are configured -/
theorem C10_srv1_prefix (apid sub count ver ref dst : Nat) (ts : Bytes) (p : VParams)
    (ha : apid < 2048) (hc : count < 16384) (hsub : sub < 256) (hv : ver < 8) (hr : ref < 16)
    (hd : dst < 65536) (hl : ts.length + (C15.Spec.sourceData p).length ≤ 65527)
    (n sb eb k : Nat) (hk : k < (C15.Spec.reportOctets apid sub count ver ref dst ts p).length) :
    Rejected (S1Tm.unpack ((C15.Spec.reportOctets apid sub count ver ref dst ts p).take k) n sb eb) := by
  have wf := C15.reportTm_wf apid sub count ver ref dst ts p ha hc hsub hv hr hd hl
  apply Rejected.of_documented (C10_srv1 _ _ _ _)
  intro a h
  have := (C15.C15_unpack_sound _ n sb eb a h).1
  exact (C10_tm_prefix_any_ts _ wf n k hk).not_ok _ this

/-- **tracker** (`PusVerificator.add_tm`): a report that the service-1 decoder returned — for any
    octets and configuration — is inside the tracker's domain, so feeding it to the tracker never
    raises (no `AttributeError` from a step report without step id, no `ValueError` from a
    subservice outside 1..8), whatever the tracker's state -/
theorem C10_verificator (d : Bytes) (n sb eb : Nat) (s : S1Tm) (h : S1Tm.unpack d n sb eb = .ok s)
    (t : Tracker) (e : Err) :
    (step t (.addTm s.tcReqId.asU32 s.tm.sec.subservice (s.stepId.map Pfe.val))).2 ≠ .raised e := by
  intro hr
  obtain ⟨hwf, _⟩ := C16.C16_errors t _ e hr
  obtain ⟨_, ⟨h1, h8⟩, hm, _, _⟩ := C15.C15_unpack_sound d n sb eb s h
  unfold C15.Matches at hm
  have g1 : decide (1 ≤ s.tm.sec.subservice) = true := by simpa using h1
  have g8 : decide (s.tm.sec.subservice ≤ 8) = true := by simpa using h8
  simp only [Op.WF, g1, g8, Bool.true_and, S1Tm.stepId] at hwf
  by_cases h56 : s.tm.sec.subservice = 5 ∨ s.tm.sec.subservice = 6
  · have : s.params.stepId.isSome = true := by
      rcases hm with ⟨_, hs⟩
      cases hst : s.params.stepId with
      | none => rw [hst] at hs; simp at hs; omega
      | some _ => rfl
    rcases h56 with h5 | h6 <;> simp [*, Option.isSome_map] at hwf
  · have n5 : s.tm.sec.subservice ≠ 5 := fun x => h56 (.inl x)
    have n6 : s.tm.sec.subservice ≠ 6 := fun x => h56 (.inr x)
    simp [n5, n6] at hwf

/-- every other tracker call never raises at all (`C16_errors`) -/
theorem C10_verificator_other (t : Tracker) (o : Op) (e : Err) (h : (step t o).2 = .raised e) :
    o.WF = false ∧ (e = .value ∨ e = .attr) := C16.C16_errors t o e h

end Srv1

/-! ## CDS short timestamp -/
section Cds
open SpVerif.Cds

theorem C10_cds (d : Bytes) : Documented (unpackFromRaw d) := C14.C14_unpack_documented d

theorem C10_cds_prefix (s : Stamp) (_wf : C14.WF s) (k : Nat) (hk : k < (C14.Spec.octets s).length) :
    Rejected (unpackFromRaw ((C14.Spec.octets s).take k)) := by
  refine .of_err (C14.C14_refuse_short _ ?_) rfl
  have : (C14.Spec.octets s).length = 7 := by simp [C14.Spec.octets]
  simp only [List.length_take]; omega

end Cds

/-! ## CFDP fixed header, `header_len_from_raw`, `verify_length_and_checksum`, decoder fronts -/
section Cfdp
open SpVerif.CfdpHeader SpVerif.CfdpFront

theorem C10_pdu_header (d : Bytes) : Documented (PduHeader.unpack d) := C05.C05_unpack_documented d

theorem C10_pdu_header_prefix (h : PduHeader) (wf : C05.WF h) (k : Nat) (hk : k < (C05.Spec.octets h).length) :
    Rejected (PduHeader.unpack ((C05.Spec.octets h).take k)) :=
  .of_err (C05.C05_truncated h wf k (by rw [(C05.C05_len h wf).2.1]; exact hk)) rfl

theorem C10_header_len_from_raw (d : Bytes) : Documented (headerLenFromRaw d) := headerLenFromRaw_documented d

/-- `header_len_from_raw` reads the four fixed octets: fewer are rejected -/
theorem C10_header_len_from_raw_prefix (d : Bytes) (h : d.length < 4) : Rejected (headerLenFromRaw d) :=
  .of_err (headerLenFromRaw_short d h) rfl

/-- `verify_length_and_checksum` for ANY header object against ANY buffer -/
theorem C10_verify (h : PduHeader) (d : Bytes) : Documented (h.verifyLengthAndChecksum d) := verify_documented h d

/-- a buffer shorter than the declared PDU is rejected -/
theorem C10_verify_prefix (h : PduHeader) (d : Bytes) (hl : d.length < h.packetLen) :
    Rejected (h.verifyLengthAndChecksum d) := by
  refine .of_err (e := .value) ?_ rfl
  rw [verify_eq, if_pos hl]

/-- header decode + length/CRC verification: what `FileDataPdu.unpack` starts with -/
theorem C10_pdu_front (d : Bytes) : Documented (pduFront d) := by
  unfold pduFront
  refine Documented.bind (C10_pdu_header d) fun h _ => ?_
  refine Documented.bind (C10_verify h d) fun _ _ => Documented.ok _

/-- `FileDirectivePduBase.unpack` (header, room for the directive code) + verification: what the
    seven file-directive decoders start with -/
theorem C10_directive_front (d : Bytes) : Documented (directiveFront d) := by
  unfold directiveFront
  refine Documented.bind (C10_pdu_header d) fun h _ => ?_
  by_cases g : h.headerLen + 1 > d.length
  · simp only [g, ↓reduceIte, throw, throwThe, MonadExceptOf.throw, bind, Except.bind]
    exact Documented.err rfl
  · simp only [g, ↓reduceIte, bind, Except.bind, pure, Except.pure,
      idx_ok (show h.headerLen < d.length by omega)]
    exact Documented.bind (C10_verify h d) fun _ _ => Documented.ok _

private theorem front_hacc (d : Bytes) (a : PduHeader) (ha : pduFront d = .ok a) :
    ∃ b, PduHeader.unpack d = .ok b ∧ b.packetLen ≤ d.length := by
  obtain ⟨hu, n, hv⟩ := (CfdpCrc.pduFront_ok_iff d a).1 ha
  exact ⟨a, hu, ((verify_ok_iff a d n).1 hv).2.1⟩

private theorem pdu_len (h : PduHeader) (wf : C05.WF h) (tail : Bytes) (hl : tail.length = h.dataFieldLen) :
    h.packetLen = (C05.Spec.octets h ++ tail).length := by
  simp only [PduHeader.packetLen, List.length_append, (C05.C05_len h wf).2.1, hl]; omega

/-- **a PDU is self-delimiting through its header**: header octets followed by exactly the declared
    data-field length (body, and CRC when flagged — whatever their content): every strict prefix is
    rejected by the front of every PDU decoder -/
theorem C10_pdu_front_prefix (h : PduHeader) (wf : C05.WF h) (tail : Bytes) (hl : tail.length = h.dataFieldLen)
    (k : Nat) (hk : k < (C05.Spec.octets h ++ tail).length) :
    Rejected (pduFront ((C05.Spec.octets h ++ tail).take k)) :=
  prefix_rejected pduFront PduHeader.unpack PduHeader.packetLen C10_pdu_front front_hacc
    pdu_header_unpack_append _ h (C05.C05_roundtrip h wf tail) (pdu_len h wf tail hl) k hk

theorem C10_directive_front_prefix (h : PduHeader) (wf : C05.WF h) (tail : Bytes) (hl : tail.length = h.dataFieldLen)
    (k : Nat) (hk : k < (C05.Spec.octets h ++ tail).length) :
    Rejected (directiveFront ((C05.Spec.octets h ++ tail).take k)) := by
  refine prefix_rejected directiveFront PduHeader.unpack PduHeader.packetLen C10_directive_front ?_
    pdu_header_unpack_append _ h (C05.C05_roundtrip h wf tail) (pdu_len h wf tail hl) k hk
  intro d a ha
  obtain ⟨h', c⟩ := a
  exact front_hacc d h' (CfdpCrc.directiveFront_ok ha).1

end Cfdp

/-! ## LV, generic TLV, the six concrete TLV classes, `from_tlv`, `TlvHolder.to_*` -/
section Tlv
open SpVerif.Lv SpVerif.Tlv

theorem C10_lv (d : Bytes) : Documented (CfdpLv.unpack d) := CfdpLv.unpack_documented d

theorem C10_lv_prefix (v : Bytes) (wf : C08.WFValue v) (k : Nat) (hk : k < (C08.Spec.lv v).length) :
    Rejected (CfdpLv.unpack ((C08.Spec.lv v).take k)) := by
  refine prefix_rejected_self CfdpLv.unpack CfdpLv.packetLen C10_lv
    (fun d a h => (CfdpLv.unpack_spec d a h).2.1) CfdpLv.unpack_append (C08.Spec.lv v) ⟨v⟩ ?_ ?_ k hk
  · have := CfdpLv.unpack_pack_append v [] wf
    simpa [C08.Spec.lv] using this
  · simp [CfdpLv.packetLen, C08.Spec.lv]

theorem C10_tlv (d : Bytes) : Documented (CfdpTlv.unpack d) := CfdpTlv.unpack_documented d

/-- every decoder of the shape "generic TLV, then a conversion `f`" rejects every strict prefix of
    a packed TLV — whatever `f` is (`from_tlv` of a concrete class, a `TlvHolder.to_*` conversion) -/
theorem C10_tlv_then_prefix {α : Type} (f : CfdpTlv → Py α) (hf : ∀ t, Documented (f t))
    (t : Nat) (v : Bytes) (ht : C08.WFType t) (hv : C08.WFValue v) (k : Nat) (hk : k < (C08.Spec.tlv t v).length) :
    Rejected (CfdpTlv.unpack ((C08.Spec.tlv t v).take k) >>= f) := by
  refine prefix_rejected (fun d => CfdpTlv.unpack d >>= f) CfdpTlv.unpack CfdpTlv.packetLen
    (fun d => Documented.bind (C10_tlv d) fun a _ => hf a) ?_ CfdpTlv.unpack_append
    (C08.Spec.tlv t v) ⟨t, v⟩ ?_ ?_ k hk
  · intro d a ha
    obtain ⟨x, hx, _⟩ := bind_ok_first ha
    exact ⟨x, hx, (CfdpTlv.unpack_spec d x hx).2.2.1⟩
  · have := CfdpTlv.unpack_pack_append t v [] ht hv
    simpa [C08.Spec.tlv] using this
  · simp [CfdpTlv.packetLen, C08.Spec.tlv]; omega

theorem C10_tlv_prefix (t : Nat) (v : Bytes) (ht : C08.WFType t) (hv : C08.WFValue v) (k : Nat)
    (hk : k < (C08.Spec.tlv t v).length) : Rejected (CfdpTlv.unpack ((C08.Spec.tlv t v).take k)) := by
  have := C10_tlv_then_prefix (fun t => (pure t : Py CfdpTlv)) (fun t => Documented.ok t) t v ht hv k hk
  obtain ⟨e, he, hd⟩ := this
  refine ⟨e, ?_, hd⟩
  cases hx : CfdpTlv.unpack ((C08.Spec.tlv t v).take k) with
  | ok a => rw [hx] at he; cases he
  | error e' => rw [hx] at he; exact he

-- `from_tlv` of each concrete class, on ANY generic TLV object
theorem C10_entity_id_from_tlv (t : CfdpTlv) : Documented (EntityIdTlv.fromTlv t) := EntityIdTlv.fromTlv_documented t
theorem C10_flow_label_from_tlv (t : CfdpTlv) : Documented (FlowLabelTlv.fromTlv t) := FlowLabelTlv.fromTlv_documented t
theorem C10_msg_to_user_from_tlv (t : CfdpTlv) : Documented (MessageToUserTlv.fromTlv t) :=
  MessageToUserTlv.fromTlv_documented t
theorem C10_fault_handler_from_tlv (t : CfdpTlv) : Documented (FaultHandlerOverrideTlv.fromTlv t) :=
  FaultHandlerOverrideTlv.fromTlv_documented t
theorem C10_fs_request_from_tlv (t : CfdpTlv) : Documented (FileStoreRequestTlv.fromTlv t) :=
  FileStoreRequestTlv.fromTlv_documented t
theorem C10_fs_response_from_tlv (t : CfdpTlv) : Documented (FileStoreResponseTlv.fromTlv t) :=
  FileStoreResponseTlv.fromTlv_documented t

-- `unpack` of each concrete class, on ANY octet string
theorem C10_entity_id (d : Bytes) : Documented (EntityIdTlv.unpack d) := EntityIdTlv.unpack_documented d
theorem C10_flow_label (d : Bytes) : Documented (FlowLabelTlv.unpack d) := FlowLabelTlv.unpack_documented d
theorem C10_msg_to_user (d : Bytes) : Documented (MessageToUserTlv.unpack d) := MessageToUserTlv.unpack_documented d
theorem C10_fault_handler (d : Bytes) : Documented (FaultHandlerOverrideTlv.unpack d) :=
  FaultHandlerOverrideTlv.unpack_documented d
theorem C10_fs_request (d : Bytes) : Documented (FileStoreRequestTlv.unpack d) := FileStoreRequestTlv.unpack_documented d
theorem C10_fs_response (d : Bytes) : Documented (FileStoreResponseTlv.unpack d) :=
  FileStoreResponseTlv.unpack_documented d

/-- `TlvHolder(CfdpTlv.unpack(raw)).to_*()`: a holder built from a decoded generic TLV converts or
    fails with a documented class (`TlvTypeMissmatch` / `ValueError`), for every generic TLV -/
theorem C10_holder (t : CfdpTlv) :
    Documented (holderToEntityId (.generic t)) ∧ Documented (holderToFlowLabel (.generic t)) ∧
    Documented (holderToMsgToUser (.generic t)) ∧ Documented (holderToFaultHandler (.generic t)) ∧
    Documented (holderToFsRequest (.generic t)) ∧ Documented (holderToFsResponse (.generic t)) :=
  ⟨C10_entity_id_from_tlv t, C10_flow_label_from_tlv t, C10_msg_to_user_from_tlv t,
   C10_fault_handler_from_tlv t, C10_fs_request_from_tlv t, C10_fs_response_from_tlv t⟩

theorem C10_entity_id_prefix (v : Bytes) (wf : C08.WFValue v) (k : Nat) (hk : k < (C08.Spec.entityId v).length) :
    Rejected (EntityIdTlv.unpack ((C08.Spec.entityId v).take k)) := by
  rw [EntityIdTlv.unpack_bind]
  exact C10_tlv_then_prefix _ C10_entity_id_from_tlv 6 v (by decide) wf k hk

theorem C10_flow_label_prefix (v : Bytes) (wf : C08.WFValue v) (k : Nat) (hk : k < (C08.Spec.flowLabel v).length) :
    Rejected (FlowLabelTlv.unpack ((C08.Spec.flowLabel v).take k)) := by
  rw [FlowLabelTlv.unpack_bind]
  exact C10_tlv_then_prefix _ C10_flow_label_from_tlv 5 v (by decide) wf k hk

theorem C10_msg_to_user_prefix (v : Bytes) (wf : C08.WFValue v) (k : Nat) (hk : k < (C08.Spec.msgToUser v).length) :
    Rejected (MessageToUserTlv.unpack ((C08.Spec.msgToUser v).take k)) := by
  rw [MessageToUserTlv.unpack_bind]
  exact C10_tlv_then_prefix _ C10_msg_to_user_from_tlv 2 v (by decide) wf k hk

theorem C10_fault_handler_prefix (cc hc : Nat) (_hcc : cc < 16) (_hhc : hc < 16) (k : Nat)
    (hk : k < (C08.Spec.faultHandler cc hc).length) :
    Rejected (FaultHandlerOverrideTlv.unpack ((C08.Spec.faultHandler cc hc).take k)) := by
  rw [FaultHandlerOverrideTlv.unpack_bind]
  exact C10_tlv_then_prefix _ C10_fault_handler_from_tlv 4 _ (by decide) (by simp [C08.WFValue]) k hk

theorem C10_fs_request_prefix (r : FileStoreRequestTlv) (wf : C08.WFReq r) (k : Nat)
    (hk : k < (C08.Spec.fsRequest r).length) :
    Rejected (FileStoreRequestTlv.unpack ((C08.Spec.fsRequest r).take k)) := by
  rw [FileStoreRequestTlv.unpack_bind]
  exact C10_tlv_then_prefix _ C10_fs_request_from_tlv 0 _ (by decide) wf.2.2.2.2 k hk

theorem C10_fs_response_prefix (r : FileStoreResponseTlv) (wf : C08.WFResp r) (k : Nat)
    (hk : k < (C08.Spec.fsResponse r).length) :
    Rejected (FileStoreResponseTlv.unpack ((C08.Spec.fsResponse r).take k)) := by
  rw [FileStoreResponseTlv.unpack_bind]
  exact C10_tlv_then_prefix _ C10_fs_response_from_tlv 1 _ (by decide) wf.2.2.2.2.2.2.2 k hk

/-- the holder conversions of a strict prefix: the generic decoder already rejects -/
theorem C10_holder_prefix {α : Type} (conv : AnyTlv → Py α) (hc : ∀ t, Documented (conv (.generic t)))
    (t : Nat) (v : Bytes) (ht : C08.WFType t) (hv : C08.WFValue v) (k : Nat) (hk : k < (C08.Spec.tlv t v).length) :
    Rejected (CfdpTlv.unpack ((C08.Spec.tlv t v).take k) >>= fun x => conv (.generic x)) :=
  C10_tlv_then_prefix _ hc t v ht hv k hk

end Tlv

/-! ## unsigned byte fields -/
section ByteField
open SpVerif.ByteField

theorem C10_bf_from_bytes (d : Bytes) : Documented (fromBytes d) := fromBytes_documented d

/-- `from_bytes` takes the whole string as the field (its length IS the width), so a field is not
    self-delimiting; what holds: every length other than 1, 2, 4, 8 is rejected -/
theorem C10_bf_from_bytes_prefix (d : Bytes) (k : Nat) (hk : k < d.length) (hw : ¬ W k) :
    Rejected (fromBytes (d.take k)) := by
  refine .of_err (e := .value) ?_ rfl
  rw [fromBytes_eq, if_neg]
  simp only [List.length_take]
  rwa [Nat.min_eq_left (by omega)]

theorem C10_bf_gen (n : Int) (d : Bytes) : Documented (genFromBytes n d) := genFromBytes_documented n d

/-- `from_u8_bytes` … `from_u64_bytes` are the generator at widths 1, 2, 4, 8 -/
theorem C10_bf_from_un (d : Bytes) :
    Documented (fromU8Bytes d) ∧ Documented (fromU16Bytes d) ∧ Documented (fromU32Bytes d) ∧
    Documented (fromU64Bytes d) :=
  ⟨C10_bf_gen 1 d, C10_bf_gen 2 d, C10_bf_gen 4 d, C10_bf_gen 8 d⟩

/-- with its width, a field is self-delimiting: fewer octets than the width are rejected
    (so is every width other than 1, 2, 4, 8) -/
theorem C10_bf_gen_prefix (n : Int) (d : Bytes) (h : (d.length : Int) < n) : Rejected (genFromBytes n d) := by
  refine .of_err (e := .value) ?_ rfl
  rw [genFromBytes_eq, if_neg]
  intro ⟨_, h'⟩
  exact h' h

end ByteField

/-! ## USLP headers, header type, data field, transfer frame -/
section Uslp
open SpVerif.Uslp

private theorem toPy_ok_iff {α : Type} {x : UPy α} {a : α} : x.toPy = .ok a ↔ x = .ok a := by
  cases x <;> simp [UPy.toPy]

private theorem documented_of_errs {α : Type} (x : UPy α) (h : ∀ e, x = .error e → e.toErr.documented = true) :
    Documented x.toPy := by
  intro e he
  cases hx : x with
  | ok a => rw [hx] at he; cases he
  | error e' =>
    rw [hx] at he
    simp only [toPy_err, Except.error.injEq] at he
    subst he
    exact h e' hx

theorem C10_uslp_hdr (d : Bytes) (ver : Nat) : Documented (PrimaryHeader.unpack d ver).toPy :=
  documented_of_errs _ fun e he => by
    rcases PrimaryHeader.unpack_err d ver e he with rfl | rfl | rfl <;> rfl

theorem C10_uslp_thdr (d : Bytes) (ver : Nat) : Documented (TruncatedHeader.unpack d ver).toPy :=
  documented_of_errs _ fun e he => by
    rcases TruncatedHeader.unpack_err d ver e he with rfl | rfl | rfl <;> rfl

theorem C10_uslp_hdr_prefix (h : PrimaryHeader) (wf : C17.WFHdr h) (k : Nat) (hk : k < (C17.Spec.hdrOctets h).length) :
    Rejected (PrimaryHeader.unpack ((C17.Spec.hdrOctets h).take k)).toPy := by
  refine prefix_rejected_self (fun d => (PrimaryHeader.unpack d).toPy) PrimaryHeader.len
    (fun d => C10_uslp_hdr d _) ?_ ?_ (C17.Spec.hdrOctets h) (C17.normHdr h) ?_ ?_ k hk
  · intro d a ha
    exact (PrimaryHeader.unpack_len d _ a (toPy_ok_iff.1 ha)).1
  · intro d r a ha
    exact toPy_ok_iff.2 (PrimaryHeader.unpack_append d r _ a (toPy_ok_iff.1 ha))
  · have := C17.C17_hdr_roundtrip h wf []
    rw [List.append_nil] at this
    exact toPy_ok_iff.2 this
  · rw [(C17.C17_hdr_exact h wf).2.1]
    unfold C17.normHdr PrimaryHeader.len
    split <;> rfl

theorem C10_uslp_thdr_prefix (h : TruncatedHeader) (wf : C17.WFTHdr h) (k : Nat)
    (hk : k < (C17.Spec.thdrOctets h).length) :
    Rejected (TruncatedHeader.unpack ((C17.Spec.thdrOctets h).take k)).toPy := by
  rw [(C17.C17_thdr_exact h wf).2.1] at hk
  rw [TruncatedHeader.unpack_short _ _ (by simp only [List.length_take]; omega)]
  exact ⟨_, rfl, rfl⟩

theorem C10_uslp_hdr_type (d : Bytes) : Documented (headerIsTruncated d).toPy := by
  by_cases h : d.length < 4
  · rw [headerIsTruncated_short d h]; exact Documented.err rfl
  · rw [headerIsTruncated_eq d (by omega)]; exact Documented.ok _

/-- `determine_header_type` reads octet 3: fewer than four octets are rejected -/
theorem C10_uslp_hdr_type_prefix (d : Bytes) (h : d.length < 4) : Rejected (headerIsTruncated d).toPy := by
  rw [headerIsTruncated_short d h]; exact ⟨_, rfl, rfl⟩

theorem C10_tfdf (d : Bytes) (tr : Bool) (n : Nat) (ft : Option FrameType) :
    Documented (Tfdf.unpack d tr n ft).toPy :=
  documented_of_errs _ fun e he => by
    rcases Tfdf.unpack_err d tr n ft e he with rfl | rfl <;> rfl

/-- the data field is NOT self-delimiting (its length `exact_len` is an argument and the data zone
    is a clamped slice); what is delimited is its header (1 octet, or 3 with the pointer): a prefix
    that cuts the header is rejected -/
theorem C10_tfdf_prefix_header (t : Tfdf) (tr : Bool) (ft : FrameType) (wf : C17.WFTfdf t tr ft) (n k : Nat)
    (hk : k < t.headerLen) :
    Rejected (Tfdf.unpack ((C17.Spec.tfdfOctets t).take k) tr n (some ft)).toPy := by
  obtain ⟨hr, hu, hv, hp⟩ := wf
  by_cases h0 : k = 0
  · subst h0
    rw [List.take_zero, Tfdf.unpack_nil]; exact ⟨_, rfl, rfl⟩
  · obtain ⟨r, u, fhp, z⟩ := t
    cases fhp with
    | none => simp [Tfdf.headerLen] at hk; omega
    | some p =>
      simp only [Tfdf.headerLen, Option.isNone_some, Bool.false_eq_true, ↓reduceIte] at hk
      simp only at hr hu hv hp
      have hlen : ((C17.Spec.tfdfOctets ⟨r, u, some p, z⟩).take k).length = k := by
        simp [C17.Spec.tfdfOctets]; omega
      have h1 : 1 ≤ ((C17.Spec.tfdfOctets ⟨r, u, some p, z⟩).take k).length := by omega
      have e0 : ((C17.Spec.tfdfOctets ⟨r, u, some p, z⟩).take k)[0].toNat / 32 % 8 = r := by
        have : ((C17.Spec.tfdfOctets ⟨r, u, some p, z⟩).take k)[0] = u8 (r * 32 + u) := by
          rw [List.getElem_take]; simp [C17.Spec.tfdfOctets]
        rw [this]; simp; omega
      rw [Tfdf.unpack_fhp_short _ h1 tr n (Or.inl (by omega)) (some ft) (by rw [e0]; exact hv)
        (by rw [e0]; exact hp.1)]
      exact ⟨_, rfl, rfl⟩

theorem C10_frame (d : Bytes) (ft : FrameType) (p : FrameProps) : Documented (Frame.unpack d ft p).toPy :=
  Frame.unpack_documented d ft p

/-- a regular and a truncated header cannot both decode from the same octets (octet 3, bit 0) -/
private theorem not_both_headers (d : Bytes) (h : PrimaryHeader) (t : TruncatedHeader)
    (hp : PrimaryHeader.unpack d = .ok h) (ht : TruncatedHeader.unpack d = .ok t) : False := by
  by_cases h7 : 7 ≤ d.length
  · rw [PrimaryHeader.unpack_eq d _ h7] at hp
    rw [TruncatedHeader.unpack_eq d _ (by omega)] at ht
    by_cases c1 : d[0].toNat / 16 ≠ versionNumber
    · simp [c1] at hp
    · by_cases c2 : d[3].toNat % 2 = 1
      · simp [c1, c2] at hp
      · simp [c1, c2] at ht
  · rw [PrimaryHeader.unpack_short d _ (by omega)] at hp; cases hp

/-- **frames are self-delimiting together with matching managed parameters**: every strict prefix
    of a packed frame (regular header with the frame-length field set, or truncated header with the
    managed truncated length) is rejected by `TransferFrame.unpack` called with the frame's type
    and matching parameters -/
theorem C10_frame_prefix (f : Frame) (ft : FrameType) (p : FrameProps) (wf : C17.WFFrame f ft)
    (hl : C17.LenSet f) (hm : C17.Matching f ft p) (k : Nat) (hk : k < (C17.Spec.frameOctets f).length) :
    Rejected (Frame.unpack ((C17.Spec.frameOctets f).take k) ft p).toPy := by
  apply Rejected.of_documented (C10_frame _ _ _)
  intro g hg
  have hg' := toPy_ok_iff.1 hg
  have hfull := C17.C17_frame_roundtrip f ft p wf hl hm []
  rw [List.append_nil] at hfull
  have hlen : (C17.Spec.frameOctets f).length = f.len := (C17.C17_frame_order f ft none wf (.inl rfl)).2
  have sfull := C17.C17_unpack_sound _ ft p _ hfull
  have spre := C17.C17_unpack_sound _ ft p g hg'
  have hsplit : (C17.Spec.frameOctets f).take k ++ (C17.Spec.frameOctets f).drop k = C17.Spec.frameOctets f :=
    List.take_append_drop _ _
  have hklen : ((C17.Spec.frameOctets f).take k).length = k := by simp only [List.length_take]; omega
  cases hgh : g.header with
  | primary h' =>
    rw [hgh] at spre
    obtain ⟨hup, hfl, _, _⟩ := spre
    have hup' := PrimaryHeader.unpack_append _ ((C17.Spec.frameOctets f).drop k) _ h' hup
    rw [hsplit] at hup'
    cases hfh : f.header with
    | primary h =>
      have e : (C17.normFrame f).header = .primary (C17.normHdr h) := by simp [C17.normFrame, C17.normHeader, hfh]
      rw [e] at sfull
      obtain ⟨hu, _, _, _⟩ := sfull
      rw [hu] at hup'
      cases hup'
      have : h.frameLen + 1 = f.len := by
        unfold C17.LenSet at hl; rw [hfh] at hl; exact hl
      have e2 : (C17.normHdr h).frameLen = h.frameLen := by unfold C17.normHdr; split <;> rfl
      rw [e2, hklen] at hfl
      omega
    | truncated t =>
      have e : (C17.normFrame f).header = .truncated t := by simp [C17.normFrame, C17.normHeader, hfh]
      rw [e] at sfull
      exact not_both_headers _ h' t hup' sfull.1
  | truncated t' =>
    rw [hgh] at spre
    obtain ⟨hut, _, hk', hle, _⟩ := spre
    have hut' := TruncatedHeader.unpack_append _ ((C17.Spec.frameOctets f).drop k) _ t' hut
    rw [hsplit] at hut'
    cases hfh : f.header with
    | primary h =>
      have e : (C17.normFrame f).header = .primary (C17.normHdr h) := by simp [C17.normFrame, C17.normHeader, hfh]
      rw [e] at sfull
      exact not_both_headers _ _ t' sfull.1 hut'
    | truncated t =>
      have := (hm.2.2.2 (by rw [hfh]; rfl)).2
      rw [hklen] at hle
      omega

end Uslp

/-! ## stage 2 — the eight CFDP PDU decoders, the file-directive base, the factory, reserved messages -/
section CfdpPdus
open SpVerif.CfdpHeader SpVerif.FileDirective SpVerif.Factory

/-- `AbstractFileDirectiveBase` / `FileDirectivePduBase.unpack` -/
theorem C10_directive_base (d : Bytes) : Documented (FileDirective.unpack d) := C06Fixed.C06_directive_documented d

/-- a buffer that ends before the directive code (in particular every strict prefix of header ‖ code) is rejected -/
theorem C10_directive_base_prefix (fd : FileDirective) (wf : C05.WF fd.header) (k : Nat)
    (hk : k ≤ (C05.Spec.octets fd.header).length) (tail : Bytes) :
    Rejected (FileDirective.unpack ((C05.Spec.octets fd.header ++ tail).take k)) := by
  apply Rejected.of_documented (C10_directive_base _)
  intro a ha
  unfold FileDirective.unpack at ha
  obtain ⟨h, hu, hrest⟩ := bind_ok_first ha
  have hfull := pdu_header_unpack_append _ ((C05.Spec.octets fd.header ++ tail).drop k) h hu
  rw [List.take_append_drop, C05.C05_roundtrip fd.header wf tail] at hfull
  cases hfull
  have hl : ((C05.Spec.octets fd.header ++ tail).take k).length ≤ fd.header.headerLen := by
    rw [(C05.C05_len fd.header wf).2.1]; simp only [List.length_take]; omega
  have := C06Fixed.C06_directive_short _ fd.header hu hl
  unfold FileDirective.unpack at this
  rw [ha] at this
  cases this

theorem C10_ack (d : Bytes) : Documented (Ack.Ack.unpack d) := C06Fixed.C06_ack_documented d
theorem C10_prompt (d : Bytes) : Documented (Prompt.Prompt.unpack d) := C06Fixed.C06_prompt_documented d
theorem C10_keep_alive (d : Bytes) : Documented (KeepAlive.KeepAlive.unpack d) := C06Fixed.C06_keepalive_documented d
theorem C10_nak (d : Bytes) : Documented (Nak.Nak.unpack d) := C06Fixed.C06_nak_documented d
theorem C10_eof (d : Bytes) : Documented (Eof.Eof.unpack d) := C06Var.C06_eof_documented d
theorem C10_finished (d : Bytes) : Documented (Finished.Finished.unpack d) := C06Var.C06_finished_documented d
theorem C10_metadata (d : Bytes) : Documented (Metadata.Metadata.unpack d) := C06Var.C06_metadata_documented d
theorem C10_file_data (d : Bytes) : Documented (FileData.Pdu.unpack d) := C07.C07_documented d

theorem C10_ack_prefix (x : Ack.Ack) (wf : C06Fixed.WFAck x) (k : Nat) (hk : k < (C06Fixed.Spec.ack x).length) :
    Rejected (Ack.Ack.unpack ((C06Fixed.Spec.ack x).take k)) :=
  .of_err (C06Fixed.C06_ack_truncated x wf k hk) rfl

theorem C10_prompt_prefix (x : Prompt.Prompt) (wf : C06Fixed.WFPrompt x) (k : Nat)
    (hk : k < (C06Fixed.Spec.prompt x).length) :
    Rejected (Prompt.Prompt.unpack ((C06Fixed.Spec.prompt x).take k)) :=
  .of_err (C06Fixed.C06_prompt_truncated x wf k hk) rfl

theorem C10_keep_alive_prefix (x : KeepAlive.KeepAlive) (wf : C06Fixed.WFKeepAlive x) (k : Nat)
    (hk : k < (C06Fixed.Spec.keepAlive x).length) :
    Rejected (KeepAlive.KeepAlive.unpack ((C06Fixed.Spec.keepAlive x).take k)) :=
  .of_err (C06Fixed.C06_keepalive_truncated x wf k hk) rfl

theorem C10_nak_prefix (x : Nak.Nak) (wf : C06Fixed.WFNak x) (k : Nat) (hk : k < (C06Fixed.Spec.nak x).length) :
    Rejected (Nak.Nak.unpack ((C06Fixed.Spec.nak x).take k)) :=
  .of_err (C06Fixed.C06_nak_truncated x wf k hk) rfl

theorem C10_eof_prefix (x : Eof.Eof) (wf : C06Var.WFEof x) (k : Nat) (hk : k < (C06Var.Spec.eof x).length) :
    Rejected (Eof.Eof.unpack ((C06Var.Spec.eof x).take k)) :=
  .of_err (C06Var.C06_eof_truncated x wf k hk) rfl

theorem C10_finished_prefix (x : Finished.Finished) (wf : C06Var.WFFin x) (k : Nat)
    (hk : k < (C06Var.Spec.finished x).length) :
    Rejected (Finished.Finished.unpack ((C06Var.Spec.finished x).take k)) :=
  .of_err (C06Var.C06_finished_truncated x wf k hk) rfl

theorem C10_metadata_prefix (x : Metadata.Metadata) (wf : C06Var.WFMd x) (k : Nat)
    (hk : k < (C06Var.Spec.metadata x).length) :
    Rejected (Metadata.Metadata.unpack ((C06Var.Spec.metadata x).take k)) :=
  .of_err (C06Var.C06_metadata_truncated x wf k hk) rfl

theorem C10_file_data_prefix (x : FileData.Pdu) (wf : C07.WF x) (k : Nat) (hk : k < (C07.Spec.octets x).length) :
    Rejected (FileData.Pdu.unpack ((C07.Spec.octets x).take k)) :=
  .of_err (C07.C07_truncated x wf k (by rw [← (C07.C07_len x wf).1]; exact hk)) rfl

/-- the three raw-buffer inspectors, `PduFactory.from_raw` and `from_raw_to_holder` -/
theorem C10_pdu_type (d : Bytes) : Documented (pduType d) := (C12.C12_documented d).1
theorem C10_is_file_directive (d : Bytes) : Documented (isFileDirective d) := (C12.C12_documented d).2.1
theorem C10_pdu_directive_type (d : Bytes) : Documented (pduDirectiveType d) := (C12.C12_documented d).2.2.1
theorem C10_factory (d : Bytes) : Documented (fromRaw d) := (C12.C12_documented d).2.2.2
theorem C10_factory_holder (d : Bytes) : Documented (fromRawToHolder d) := (C12.C12_documented d).2.2.2

/-- every strict prefix of a packed PDU of any of the eight kinds is rejected by the factory -/
theorem C10_factory_prefix (p : AnyPdu) (wf : C12.WFPdu p) (k : Nat) (hk : k < (C12.Spec.octets p).length) :
    Rejected (fromRaw ((C12.Spec.octets p).take k)) ∧ Rejected (fromRawToHolder ((C12.Spec.octets p).take k)) :=
  ⟨.of_err (C12.C12_truncated p wf k hk) rfl, .of_err (C12.C12_truncated p wf k hk) rfl⟩

/-- the inspectors need one octet (`pdu_type`, `is_file_directive`) resp. the octet behind the header -/
theorem C10_pdu_type_prefix : Rejected (pduType []) ∧ Rejected (isFileDirective []) ∧ Rejected (pduDirectiveType []) := by
  refine ⟨⟨.value, rfl, rfl⟩, ⟨.value, rfl, rfl⟩, ⟨.value, rfl, rfl⟩⟩

end CfdpPdus

section Reserved
open SpVerif.Tlv SpVerif.MsgToUser

/-- **reserved CFDP messages**: `MessageToUserTlv.unpack(raw).to_reserved_msg_tlv()` and, on whatever
    it returns, all eight getters and the classification fail only with documented errors, for ANY
    octet string (fields cut short, wrong widths, LV lengths beyond the value) -/
theorem C10_reserved (d : Bytes) :
    Documented (MessageToUserTlv.unpack d >>= toReservedMsgTlv) ∧
    ∀ m r, MessageToUserTlv.unpack d = .ok m → toReservedMsgTlv m = .ok (some r) →
      Documented r.getProxyPutRequestParams ∧ Documented r.getProxyPutResponseParams ∧
      Documented r.getProxyClosureRequested ∧ Documented r.getProxyTransmissionMode ∧
      Documented r.getOriginatingTransactionId ∧ Documented r.getDirListingRequestParams ∧
      Documented r.getDirListingResponseParams ∧ Documented r.getDirListingOptions ∧
      (∃ k, C18.classify r = .ok k) :=
  ⟨Documented.bind (C10_msg_to_user d) fun m _ => (C18.C18_documented m).1,
   fun m r _ hr => (C18.C18_documented m).2 r hr⟩

/-- the conversion on ANY message-to-user object (decoded or constructed) -/
theorem C10_reserved_conversion (m : MessageToUserTlv) : Documented (toReservedMsgTlv m) :=
  (C18.C18_documented m).1

/-- strict prefixes of a packed message-to-user TLV never reach the conversion -/
theorem C10_reserved_prefix (v : Bytes) (wf : C08.WFValue v) (k : Nat) (hk : k < (C08.Spec.msgToUser v).length) :
    Rejected (MessageToUserTlv.unpack ((C08.Spec.msgToUser v).take k) >>= toReservedMsgTlv) := by
  obtain ⟨e, he, hd⟩ := C10_msg_to_user_prefix v wf k hk
  exact ⟨e, by rw [he]; rfl, hd⟩

end Reserved

/-! ## the exact error SET of every decoder (`C10_errors_<D>`)

`Documented` (all blocks above) is stated with the shared predicate `Err.documented`, which accepts
eight categories: the five of C10's statement — ValueError family, CRC errors,
`UnsupportedCfdpVersion`, `TlvTypeMissmatch`, the `Uslp*` classes (`Listed`) — and three more
(`OverflowError`, `FileNotFoundError`, `InvalidVerifParams`) that belong to C14 / C19 / C15 and that
no decoder can raise. The theorems of this block pin every decoder of the table to the exact list of
classes it can fail with (`ErrIn S x`: `x` fails, if at all, with a member of `S`); every such list is
a sub-list of `Listed`, collected in `C10_errors_all_listed`.

Method (`Proofs/ErrSets.lean`): the set of classes that occur in the definition of the decoder and
of everything it calls is read off structurally (`*_raises`, no guard reasoning — it still contains
`index` / `struct`); the owner's `Documented` theorem removes the undocumented ones
(`ErrIn.tighten`). Decoders whose owners already have an exact error lemma use that
(`C07_unpack_errors`, the `*_err` lemmas of `Proofs/Uslp.lean`). -/
section ErrorSets
open SpVerif.SpacePacket SpVerif.Parser SpVerif.PusTc SpVerif.PusTm SpVerif.Srv1 SpVerif.Cds SpVerif.CfdpHeader
  SpVerif.CfdpFront SpVerif.Lv SpVerif.Tlv SpVerif.ByteField SpVerif.Uslp SpVerif.FileDirective SpVerif.Factory
  SpVerif.MsgToUser

/-- the error classes C10's statement lists: ValueError and its subclasses, the CRC errors, the
    unsupported-version, TLV-type-mismatch and USLP errors -/
def Listed : List Err := [.value, .crc, .cfdpVersion, .tlvType, .uslp]

/-- closes `∀ e, e ∈ S → e.documented = true → e ∈ T` for literal lists -/
local macro "err_tight" : tactic => `(tactic| (intro e; cases e <;> simp [Err.documented]))

/-- every listed class is a documented one; the three documented classes that are NOT in the
    statement's list are exactly `overflow`, `fileNotFound`, `verifParams` -/
theorem C10_listed (e : Err) :
    (e ∈ Listed → e.documented = true) ∧
    (e.documented = true → e ∉ Listed → e = .overflow ∨ e = .fileNotFound ∨ e = .verifParams) := by
  cases e <;> simp [Listed, Err.documented]

/-- a decoder whose error set is inside the list fails only with documented classes — and with none
    of `OverflowError`, `FileNotFoundError`, `InvalidVerifParams` -/
theorem C10_errors_sound {α : Type} {S : List Err} {x : Py α} (h : ErrIn S x) (hs : ∀ e, e ∈ S → e ∈ Listed) :
    Documented x ∧ ∀ e, x = .error e → e ≠ .overflow ∧ e ≠ .fileNotFound ∧ e ≠ .verifParams := by
  refine ⟨fun e he => (C10_listed e).1 (hs e (h e he)), fun e he => ?_⟩
  have := hs e (h e he)
  cases e <;> simp [Listed] at this <;> simp

-- CCSDS
theorem C10_errors_sph (d : Bytes) : ErrIn [.value] (Sph.unpack d) :=
  (Sph.unpack_raises d).tighten (C10_sph d) (by err_tight)
theorem C10_errors_apid (d : Bytes) : ErrIn [.value] (apidFromRaw d) :=
  (apidFromRaw_raises d).tighten (C10_apid d) (by err_tight)
/-- the stream parser never fails at all -/
theorem C10_errors_parser (ids : List Nat) (q : List Bytes) : ErrIn [] (parseCall ids q) := by
  rw [(C10_parser ids q).1]; exact ErrIn.ok _
-- PUS
theorem C10_errors_tc (d : Bytes) : ErrIn [.value, .crc] (Tc.unpack d) :=
  (Tc.unpack_raises d).tighten (C10_tc d) (by err_tight)
theorem C10_errors_tc_sec (d : Bytes) : ErrIn [.value] (TcSec.unpack d) :=
  (TcSec.unpack_raises d).tighten (C10_tc_sec d) (by err_tight)
theorem C10_errors_tm_sec (d : Bytes) (n : Nat) : ErrIn [.value] (TmSec.unpack d n) :=
  (TmSec.unpack_raises d n).tighten (C10_tm_sec d n) (by err_tight)
theorem C10_errors_tm (d : Bytes) (n : Nat) : ErrIn [.value, .crc] (Tm.unpack d n) :=
  (Tm.unpack_raises d n).tighten (C10_tm d n) (by err_tight)
theorem C10_errors_srv17 (d : Bytes) (n : Nat) : ErrIn [.value, .crc] (srv17Unpack d n) := C10_errors_tm d n
theorem C10_errors_tm_service (d : Bytes) : ErrIn [.value] (serviceFromBytes d) :=
  (serviceFromBytes_raises d).tighten (C10_tm_service d) (by err_tight)
theorem C10_errors_reqid (d : Bytes) : ErrIn [.value] (ReqId.unpack d) :=
  (ReqId.unpack_raises d).tighten (C10_reqid d) (by err_tight)
theorem C10_errors_pfe (d : Bytes) (pfc : Nat) : ErrIn [.value] (Pfe.unpack d pfc) :=
  (Pfe.unpack_raises d pfc).tighten (C10_pfe d pfc) (by err_tight)
theorem C10_errors_srv1 (d : Bytes) (n sb eb : Nat) : ErrIn [.value, .crc] (S1Tm.unpack d n sb eb) :=
  (S1Tm.unpack_raises d n sb eb).tighten (C10_srv1 d n sb eb) (by err_tight)
theorem C10_errors_srv1_from_tm (tm : Tm) (sb eb : Nat) : ErrIn [.value] (S1Tm.fromTm tm sb eb) :=
  (unpackRaw_raises tm sb eb).tighten (C10_srv1_from_tm tm sb eb) (by err_tight)
/-- decode, then feed the tracker: the tracker adds no class (`C10_verificator`: it never raises on
    a decoded report) -/
theorem C10_errors_srv1_verificator (d : Bytes) (n sb eb : Nat) (t : Verificator.Tracker) :
    ErrIn [.value, .crc] (S1Tm.unpack d n sb eb) ∧
    ∀ s, S1Tm.unpack d n sb eb = .ok s → ∀ e,
      (Verificator.step t (.addTm s.tcReqId.asU32 s.tm.sec.subservice (s.stepId.map Pfe.val))).2 ≠ .raised e :=
  ⟨C10_errors_srv1 d n sb eb, fun s hs e => C10_verificator d n sb eb s hs t e⟩
theorem C10_errors_cds (d : Bytes) : ErrIn [.value] (unpackFromRaw d) :=
  (Cds.unpackFromRaw_raises d).tighten (C10_cds d) (by err_tight)
-- CFDP header and fronts
theorem C10_errors_pdu_header (d : Bytes) : ErrIn [.value, .cfdpVersion] (PduHeader.unpack d) :=
  (PduHeader.unpack_raises d).tighten (C10_pdu_header d) (by err_tight)
theorem C10_errors_header_len_from_raw (d : Bytes) : ErrIn [.value] (headerLenFromRaw d) :=
  (headerLenFromRaw_raises d).tighten (C10_header_len_from_raw d) (by err_tight)
theorem C10_errors_verify (h : PduHeader) (d : Bytes) : ErrIn [.value, .crc] (h.verifyLengthAndChecksum d) :=
  (PduHeader.verify_raises h d).tighten (C10_verify h d) (by err_tight)
theorem C10_errors_pdu_front (d : Bytes) : ErrIn [.value, .cfdpVersion, .crc] (pduFront d) :=
  (pduFront_raises d).tighten (C10_pdu_front d) (by err_tight)
theorem C10_errors_directive_front (d : Bytes) : ErrIn [.value, .cfdpVersion, .crc] (directiveFront d) :=
  (directiveFront_raises d).tighten (C10_directive_front d) (by err_tight)
-- LV / TLV
theorem C10_errors_lv (d : Bytes) : ErrIn [.value] (CfdpLv.unpack d) :=
  (CfdpLv.unpack_raises d).tighten (C10_lv d) (by err_tight)
theorem C10_errors_tlv (d : Bytes) : ErrIn [.value] (CfdpTlv.unpack d) :=
  (CfdpTlv.unpack_raises d).tighten (C10_tlv d) (by err_tight)
/-- the three plain wrappers' `from_tlv` can only refuse the type; fault handler and the two
    filestore classes also refuse malformed values -/
theorem C10_errors_from_tlv (t : CfdpTlv) :
    ErrIn [.tlvType] (EntityIdTlv.fromTlv t) ∧ ErrIn [.tlvType] (FlowLabelTlv.fromTlv t) ∧
    ErrIn [.tlvType] (MessageToUserTlv.fromTlv t) ∧ ErrIn [.value, .tlvType] (FaultHandlerOverrideTlv.fromTlv t) ∧
    ErrIn [.value, .tlvType] (FileStoreRequestTlv.fromTlv t) ∧
    ErrIn [.value, .tlvType] (FileStoreResponseTlv.fromTlv t) :=
  ⟨EntityIdTlv.fromTlv_raises t, FlowLabelTlv.fromTlv_raises t, MessageToUserTlv.fromTlv_raises t,
   (FaultHandlerOverrideTlv.fromTlv_raises t).tighten (C10_fault_handler_from_tlv t) (by err_tight),
   (FileStoreRequestTlv.fromTlv_raises t).tighten (C10_fs_request_from_tlv t) (by err_tight),
   (FileStoreResponseTlv.fromTlv_raises t).tighten (C10_fs_response_from_tlv t) (by err_tight)⟩
theorem C10_errors_concrete_tlv (d : Bytes) :
    ErrIn [.value, .tlvType] (EntityIdTlv.unpack d) ∧ ErrIn [.value, .tlvType] (FlowLabelTlv.unpack d) ∧
    ErrIn [.value, .tlvType] (MessageToUserTlv.unpack d) ∧ ErrIn [.value, .tlvType] (FaultHandlerOverrideTlv.unpack d) ∧
    ErrIn [.value, .tlvType] (FileStoreRequestTlv.unpack d) ∧
    ErrIn [.value, .tlvType] (FileStoreResponseTlv.unpack d) :=
  ⟨(EntityIdTlv.unpack_raises d).tighten (C10_entity_id d) (by err_tight),
   (FlowLabelTlv.unpack_raises d).tighten (C10_flow_label d) (by err_tight),
   (MessageToUserTlv.unpack_raises d).tighten (C10_msg_to_user d) (by err_tight),
   (FaultHandlerOverrideTlv.unpack_raises d).tighten (C10_fault_handler d) (by err_tight),
   (FileStoreRequestTlv.unpack_raises d).tighten (C10_fs_request d) (by err_tight),
   (FileStoreResponseTlv.unpack_raises d).tighten (C10_fs_response d) (by err_tight)⟩
/-- a holder of a decoded generic TLV: the conversion IS `from_tlv` -/
theorem C10_errors_holder (t : CfdpTlv) :
    ErrIn [.tlvType] (holderToEntityId (.generic t)) ∧ ErrIn [.tlvType] (holderToFlowLabel (.generic t)) ∧
    ErrIn [.tlvType] (holderToMsgToUser (.generic t)) ∧ ErrIn [.value, .tlvType] (holderToFaultHandler (.generic t)) ∧
    ErrIn [.value, .tlvType] (holderToFsRequest (.generic t)) ∧
    ErrIn [.value, .tlvType] (holderToFsResponse (.generic t)) := C10_errors_from_tlv t
-- byte fields
theorem C10_errors_bf_from_bytes (d : Bytes) : ErrIn [.value] (fromBytes d) :=
  (fromBytes_raises d).tighten (C10_bf_from_bytes d) (by err_tight)
theorem C10_errors_bf_gen (n : Int) (d : Bytes) : ErrIn [.value] (genFromBytes n d) :=
  (genFromBytes_raises n d).tighten (C10_bf_gen n d) (by err_tight)
theorem C10_errors_bf_from_un (d : Bytes) :
    ErrIn [.value] (fromU8Bytes d) ∧ ErrIn [.value] (fromU16Bytes d) ∧ ErrIn [.value] (fromU32Bytes d) ∧
    ErrIn [.value] (fromU64Bytes d) :=
  ⟨C10_errors_bf_gen 1 d, C10_errors_bf_gen 2 d, C10_errors_bf_gen 4 d, C10_errors_bf_gen 8 d⟩
-- USLP (exact lemmas of `Proofs/Uslp.lean`; all seven `Uslp*` classes are the category `uslp`)
theorem C10_errors_uslp_hdr (d : Bytes) (ver : Nat) : ErrIn [.uslp] (PrimaryHeader.unpack d ver).toPy :=
  errIn_toPy fun e he => by rcases PrimaryHeader.unpack_err d ver e he with rfl | rfl | rfl <;> simp [UErr.toErr]
theorem C10_errors_uslp_thdr (d : Bytes) (ver : Nat) : ErrIn [.uslp] (TruncatedHeader.unpack d ver).toPy :=
  errIn_toPy fun e he => by rcases TruncatedHeader.unpack_err d ver e he with rfl | rfl | rfl <;> simp [UErr.toErr]
theorem C10_errors_uslp_hdr_type (d : Bytes) : ErrIn [.value] (headerIsTruncated d).toPy := by
  by_cases h : d.length < 4
  · rw [headerIsTruncated_short d h]; exact ErrIn.err (by simp [UErr.toErr])
  · rw [headerIsTruncated_eq d (by omega)]; exact ErrIn.ok _
theorem C10_errors_tfdf (d : Bytes) (tr : Bool) (n : Nat) (ft : Option FrameType) :
    ErrIn [.uslp] (Tfdf.unpack d tr n ft).toPy :=
  errIn_toPy fun e he => by rcases Tfdf.unpack_err d tr n ft e he with rfl | rfl <;> simp [UErr.toErr]
theorem C10_errors_frame (d : Bytes) (ft : FrameType) (p : FrameProps) :
    ErrIn [.value, .uslp] (Frame.unpack d ft p).toPy :=
  errIn_toPy fun e he => by
    have := Frame.unpack_err d ft p e he
    cases e with
    | uslp k => simp [UErr.toErr]
    | py e => cases e <;> simp [UErr.isUslpOrValue] at this; simp [UErr.toErr]
-- CFDP PDUs, factory, reserved messages
theorem C10_errors_directive_base (d : Bytes) : ErrIn [.value, .cfdpVersion] (FileDirective.unpack d) :=
  (FileDirective.unpack_raises d).tighten (C10_directive_base d) (by err_tight)
theorem C10_errors_ack (d : Bytes) : ErrIn [.value, .cfdpVersion, .crc] (Ack.Ack.unpack d) :=
  (Ack.unpack_raises d).tighten (C10_ack d) (by err_tight)
theorem C10_errors_prompt (d : Bytes) : ErrIn [.value, .cfdpVersion, .crc] (Prompt.Prompt.unpack d) :=
  (Prompt.unpack_raises d).tighten (C10_prompt d) (by err_tight)
theorem C10_errors_keep_alive (d : Bytes) : ErrIn [.value, .cfdpVersion, .crc] (KeepAlive.KeepAlive.unpack d) :=
  (KeepAlive.unpack_raises d).tighten (C10_keep_alive d) (by err_tight)
theorem C10_errors_nak (d : Bytes) : ErrIn [.value, .cfdpVersion, .crc] (Nak.Nak.unpack d) :=
  (Nak.unpack_raises d).tighten (C10_nak d) (by err_tight)
/-- EOF and Finished decode TLVs through the typed classes: `TlvTypeMissmatch` can occur -/
theorem C10_errors_eof (d : Bytes) : ErrIn [.value, .cfdpVersion, .crc, .tlvType] (Eof.Eof.unpack d) :=
  (Eof.unpack_raises d).tighten (C10_eof d) (by err_tight)
theorem C10_errors_finished (d : Bytes) :
    ErrIn [.value, .cfdpVersion, .crc, .tlvType] (Finished.Finished.unpack d) :=
  (Finished.unpack_raises d).tighten (C10_finished d) (by err_tight)
/-- Metadata decodes its options as generic TLVs: no `TlvTypeMissmatch` -/
theorem C10_errors_metadata (d : Bytes) : ErrIn [.value, .cfdpVersion, .crc] (Metadata.Metadata.unpack d) :=
  (Metadata.unpack_raises d).tighten (C10_metadata d) (by err_tight)
theorem C10_errors_file_data (d : Bytes) : ErrIn [.value, .cfdpVersion, .crc] (FileData.Pdu.unpack d) :=
  FileData.unpack_raises d
theorem C10_errors_inspectors (d : Bytes) :
    ErrIn [.value] (pduType d) ∧ ErrIn [.value] (isFileDirective d) ∧ ErrIn [.value] (pduDirectiveType d) :=
  ⟨(pduType_raises d).tighten (C10_pdu_type d) (by err_tight),
   (isFileDirective_raises d).tighten (C10_is_file_directive d) (by err_tight),
   (pduDirectiveType_raises d).tighten (C10_pdu_directive_type d) (by err_tight)⟩
theorem C10_errors_factory (d : Bytes) :
    ErrIn [.value, .cfdpVersion, .crc, .tlvType] (fromRaw d) ∧
    ErrIn [.value, .cfdpVersion, .crc, .tlvType] (fromRawToHolder d) :=
  ⟨(fromRaw_raises d).tighten (C10_factory d) (by err_tight),
   (fromRaw_raises d).tighten (C10_factory_holder d) (by err_tight)⟩
/-- reserved CFDP messages: decode + conversion, and every getter on whatever the conversion
    returned, fail with `ValueError` only (the decode step also with `TlvTypeMissmatch`) -/
theorem C10_errors_reserved (d : Bytes) :
    ErrIn [.value, .tlvType] (MessageToUserTlv.unpack d >>= toReservedMsgTlv) ∧
    ∀ m r, MessageToUserTlv.unpack d = .ok m → toReservedMsgTlv m = .ok (some r) →
      ErrIn [.value] r.getProxyPutRequestParams ∧ ErrIn [.value] r.getProxyPutResponseParams ∧
      ErrIn [.value] r.getProxyClosureRequested ∧ ErrIn [.value] r.getProxyTransmissionMode ∧
      ErrIn [.value] r.getOriginatingTransactionId ∧ ErrIn [.value] r.getDirListingRequestParams ∧
      ErrIn [.value] r.getDirListingResponseParams ∧ ErrIn [.value] r.getDirListingOptions := by
  refine ⟨?_, fun m r hm hr => ?_⟩
  · have hl : ErrIn [.value, .tlvType, .index] (MessageToUserTlv.unpack d >>= toReservedMsgTlv) :=
      ErrIn.bind (MessageToUserTlv.unpack_raises d) (fun m => (toReservedMsgTlv_raises m).mono (by err_sub))
    exact hl.tighten (C10_reserved d).1 (by err_tight)
  · obtain ⟨g1, g2, g3, g4, g5, g6, g7, g8, _⟩ := (C10_reserved d).2 m r hm hr
    exact ⟨(ReservedCfdpMessage.getProxyPutRequestParams_raises r).tighten g1 (by err_tight),
      (ReservedCfdpMessage.getProxyPutResponseParams_raises r).tighten g2 (by err_tight),
      (ReservedCfdpMessage.getProxyClosureRequested_raises r).tighten g3 (by err_tight),
      (ReservedCfdpMessage.getProxyTransmissionMode_raises r).tighten g4 (by err_tight),
      (ReservedCfdpMessage.getOriginatingTransactionId_raises r).tighten g5 (by err_tight),
      (ReservedCfdpMessage.getDirListingRequestParams_raises r).tighten g6 (by err_tight),
      (ReservedCfdpMessage.getDirListingResponseParams_raises r).tighten g7 (by err_tight),
      (ReservedCfdpMessage.getDirListingOptions_raises r).tighten g8 (by err_tight)⟩

/-- **"documented" pinned to the statement's list**: every decoder of the table (one conjunct per
    line of `Ops/Robust.decoders`; the typed-TLV, byte-field, inspector and factory groups are the
    grouped theorems above) fails, on ANY octet string and configuration, only with a member of
    `Listed` — never with `OverflowError`, `FileNotFoundError` or `InvalidVerifParams`, which the
    shared predicate `Err.documented` would also accept -/
theorem C10_errors_all_listed (d : Bytes) (n sb eb pfc ver : Nat) (bw : Int) (ids : List Nat) (tr : Bool)
    (oft : Option FrameType) (ft : FrameType) (p : FrameProps) :
    ErrIn Listed (Sph.unpack d) ∧ ErrIn Listed (apidFromRaw d) ∧ ErrIn Listed (parseCall ids [d]) ∧
    ErrIn Listed (Tc.unpack d) ∧ ErrIn Listed (TcSec.unpack d) ∧ ErrIn Listed (TmSec.unpack d n) ∧
    ErrIn Listed (Tm.unpack d n) ∧ ErrIn Listed (srv17Unpack d n) ∧ ErrIn Listed (serviceFromBytes d) ∧
    ErrIn Listed (S1Tm.unpack d n sb eb) ∧ ErrIn Listed (Tm.unpack d n >>= fun tm => S1Tm.fromTm tm sb eb) ∧
    ErrIn Listed (ReqId.unpack d) ∧ ErrIn Listed (Pfe.unpack d pfc) ∧ ErrIn Listed (unpackFromRaw d) ∧
    ErrIn Listed (PduHeader.unpack d) ∧ ErrIn Listed (headerLenFromRaw d) ∧ ErrIn Listed (pduFront d) ∧
    ErrIn Listed (directiveFront d) ∧ ErrIn Listed (FileDirective.unpack d) ∧
    ErrIn Listed (Ack.Ack.unpack d) ∧ ErrIn Listed (Prompt.Prompt.unpack d) ∧
    ErrIn Listed (KeepAlive.KeepAlive.unpack d) ∧ ErrIn Listed (Nak.Nak.unpack d) ∧ ErrIn Listed (Eof.Eof.unpack d) ∧
    ErrIn Listed (Finished.Finished.unpack d) ∧ ErrIn Listed (Metadata.Metadata.unpack d) ∧
    ErrIn Listed (FileData.Pdu.unpack d) ∧ ErrIn Listed (pduType d) ∧ ErrIn Listed (isFileDirective d) ∧
    ErrIn Listed (pduDirectiveType d) ∧ ErrIn Listed (fromRaw d) ∧ ErrIn Listed (fromRawToHolder d) ∧
    ErrIn Listed (MessageToUserTlv.unpack d >>= toReservedMsgTlv) ∧
    ErrIn Listed (CfdpLv.unpack d) ∧ ErrIn Listed (CfdpTlv.unpack d) ∧
    ErrIn Listed (EntityIdTlv.unpack d) ∧ ErrIn Listed (FlowLabelTlv.unpack d) ∧ ErrIn Listed (MessageToUserTlv.unpack d) ∧
    ErrIn Listed (FaultHandlerOverrideTlv.unpack d) ∧ ErrIn Listed (FileStoreRequestTlv.unpack d) ∧
    ErrIn Listed (FileStoreResponseTlv.unpack d) ∧
    ErrIn Listed (fromBytes d) ∧ ErrIn Listed (genFromBytes bw d) ∧
    ErrIn Listed (PrimaryHeader.unpack d ver).toPy ∧ ErrIn Listed (TruncatedHeader.unpack d ver).toPy ∧
    ErrIn Listed (headerIsTruncated d).toPy ∧ ErrIn Listed (Tfdf.unpack d tr n oft).toPy ∧
    ErrIn Listed (Frame.unpack d ft p).toPy := by
  obtain ⟨t1, t2, t3, t4, t5, t6⟩ := C10_errors_concrete_tlv d
  obtain ⟨i1, i2, i3⟩ := C10_errors_inspectors d
  obtain ⟨f1, f2⟩ := C10_errors_factory d
  have key : ∀ {α : Type} {S : List Err} {x : Py α}, ErrIn S x → (∀ e, e ∈ S → e ∈ Listed) → ErrIn Listed x :=
    fun h hs => h.mono hs
  refine ⟨key (C10_errors_sph d) ?_, key (C10_errors_apid d) ?_, key (C10_errors_parser ids [d]) ?_,
    key (C10_errors_tc d) ?_, key (C10_errors_tc_sec d) ?_, key (C10_errors_tm_sec d n) ?_,
    key (C10_errors_tm d n) ?_, key (C10_errors_srv17 d n) ?_, key (C10_errors_tm_service d) ?_,
    key (C10_errors_srv1 d n sb eb) ?_,
    key (ErrIn.bind (C10_errors_tm d n) fun tm => (C10_errors_srv1_from_tm tm sb eb).mono (by err_sub)) ?_,
    key (C10_errors_reqid d) ?_, key (C10_errors_pfe d pfc) ?_, key (C10_errors_cds d) ?_,
    key (C10_errors_pdu_header d) ?_, key (C10_errors_header_len_from_raw d) ?_, key (C10_errors_pdu_front d) ?_,
    key (C10_errors_directive_front d) ?_, key (C10_errors_directive_base d) ?_,
    key (C10_errors_ack d) ?_, key (C10_errors_prompt d) ?_, key (C10_errors_keep_alive d) ?_,
    key (C10_errors_nak d) ?_, key (C10_errors_eof d) ?_, key (C10_errors_finished d) ?_,
    key (C10_errors_metadata d) ?_, key (C10_errors_file_data d) ?_, key i1 ?_, key i2 ?_, key i3 ?_,
    key f1 ?_, key f2 ?_, key (C10_errors_reserved d).1 ?_,
    key (C10_errors_lv d) ?_, key (C10_errors_tlv d) ?_, key t1 ?_, key t2 ?_, key t3 ?_, key t4 ?_, key t5 ?_,
    key t6 ?_, key (C10_errors_bf_from_bytes d) ?_, key (C10_errors_bf_gen bw d) ?_,
    key (C10_errors_uslp_hdr d ver) ?_, key (C10_errors_uslp_thdr d ver) ?_, key (C10_errors_uslp_hdr_type d) ?_,
    key (C10_errors_tfdf d tr n oft) ?_, key (C10_errors_frame d ft p) ?_⟩ <;>
    (intro e; cases e <;> simp [Listed])

-- the sets are tight where it matters: each listed class is really produced by some decoder
example : Tc.unpack [] = .error .value ∧ PduHeader.unpack [0x00, 0, 0, 0x11, 1, 2, 3] = .error .cfdpVersion ∧
    EntityIdTlv.unpack [5, 1, 7] = .error .tlvType ∧
    (PrimaryHeader.unpack [0xC0, 0, 0, 0, 0, 0]).toPy = .error .uslp := by decide

end ErrorSets

/-! ## non-vacuity: concrete members of the domains the prefix clauses quantify over, and concrete verdicts -/
section Examples
open SpVerif.SpacePacket SpVerif.PusTc SpVerif.PusTm SpVerif.Lv SpVerif.Tlv SpVerif.Uslp

private def verdictIs {α : Type} (x : Py α) (e : Option Err) : Bool :=
  match x, e with
  | .ok _, none => true
  | .error a, some b => decide (a = b)
  | _, _ => false

-- a valid telecommand (C02 domain) and a valid telemetry packet with a 3-octet timestamp (C03 domain)
example : C02.WF ⟨⟨0, 1, 1, 0x7FF, 3, 16383, 8⟩, ⟨0b1010, 17, 1, 0xBEEF⟩, [1, 2]⟩ := by
  refine ⟨by decide, ?_, by decide⟩
  unfold C02.WFSec; decide
example : C03.WF ⟨⟨5, 0, 1, 0x7FF, 3, 16383, 13⟩, ⟨9, 17, 2, 0xABCD, 0xBEEF, [1, 2, 3]⟩, [7, 8]⟩ := by
  refine ⟨by decide, ?_, by decide⟩
  unfold C03.WFSec; decide
-- the prefix clause is about non-empty sets of prefixes: the packed telecommand has 15 octets
example : (C02.Spec.octets ⟨⟨0, 1, 1, 0x7FF, 3, 16383, 8⟩, ⟨0b1010, 17, 1, 0xBEEF⟩, [1, 2]⟩).length = 15 := by
  simp [C02.Spec.octets, C02.Spec.body, C02.Spec.sec, C01.Spec.octets, Crc.crcTrailer, Crc.be16]
-- LV / TLV / frame domains
example : C08.WFValue [1, 2, 3] ∧ C08.WFType 6 ∧ C08.Spec.tlv 6 [1, 2, 3] = [6, 3, 1, 2, 3] := by decide
example : verdictIs (CfdpTlv.unpack [6, 3, 1, 2, 3]) none = true ∧
    verdictIs (CfdpTlv.unpack [6, 3, 1, 2]) (some .value) = true ∧
    verdictIs (CfdpTlv.unpack [6]) (some .value) = true ∧ verdictIs (CfdpLv.unpack []) (some .value) = true := by
  decide
example : verdictIs (EntityIdTlv.unpack [5, 1, 7]) (some .tlvType) = true ∧
    verdictIs (FaultHandlerOverrideTlv.unpack [4, 0]) (some .value) = true := by decide
example : verdictIs (Sph.unpack [0x18, 0x01, 0xC0, 0x00, 0x00]) (some .value) = true ∧
    verdictIs (Sph.unpack [0x18, 0x01, 0xC0, 0x00, 0x00, 0x00]) none = true := by decide
example : verdictIs (CfdpHeader.PduHeader.unpack [0x00, 0, 0, 0x11, 1, 2, 3]) (some .cfdpVersion) = true ∧
    verdictIs (CfdpHeader.headerLenFromRaw [0x20, 0, 0]) (some .value) = true ∧
    verdictIs (Factory.pduType []) (some .value) = true := by decide
example : verdictIs (PrimaryHeader.unpack [0xC0, 0, 0, 0, 0, 0]).toPy (some .uslp) = true ∧
    verdictIs (headerIsTruncated [0xC0, 0, 0]).toPy (some .value) = true ∧
    verdictIs (Tfdf.unpack [0x00, 1] false 2 (some .fixed)).toPy (some .uslp) = true := by decide
-- the stream parser keeps a strict prefix of a registered packet (nothing returned, nothing lost)
example : Parser.scan [0x0923] [0x09, 0x23, 0xC0, 0x01, 0x00, 0x01, 0xAA] = ([], [0x09, 0x23, 0xC0, 0x01, 0x00, 0x01, 0xAA]) := by
  decide +kernel
example : C13.WFPacket [0x0923] [0x09, 0x23, 0xC0, 0x01, 0x00, 0x01, 0xAA, 0xBB] := by decide +kernel

end Examples

end SpVerif.Props.C10
