import SpVerif.Proofs.Prefix
import SpVerif.Proofs.PrefixPdu
import SpVerif.Props.C12
/-!
# C09 — decoders never read past the declared packet; trailing octets cannot leak in

Property theorems only; the decoders are the models of C01/C02/C03/C05/C08/C14/C15/C17/C20 (the
very definitions the driver executes and the owning properties tie to `/repo`), the codec table and
the splitters are in `Model/Prefix.lean`, the locality lemmas in `Proofs/Prefix.lean`.

For every self-delimiting unit kind `U` the theorem `C09_U` says, for **every** buffer `d` the
decoder accepts (not only packed ones): the length `N` the decoded object reports lies inside `d`,
decoding just `d[:N]` gives the same object, and so does `d[:N]` followed by **any** octets.
`C09_suffix` / `C09_packed_suffix`: a packed unit followed by anything decodes as the unit alone.
`C09_split*`: a concatenation of packed units (one kind, or mixed kinds) is split into exactly
those units by "decode, drop the reported length" — induction over the list, no bound on the count.

The two filestore TLV classes report the length of their *re-encoding* (`common_packet_len`). Since
/repo commit d425927 a value field that holds anything after the names / the message LV is refused,
so for every accepted buffer that length IS the declared TLV length
(`Tlv.FileStoreRequestTlv.fromTlv_len_exact` / `FileStoreResponseTlv.fromTlv_len_exact`): the
uniform statement holds for them without any hypothesis (`C09_fs_request_exact`,
`C09_fs_response_exact`, and `C09_kind` covers all twenty kinds); `C09_fs_request` /
`C09_fs_response` state the same on the declared length.
-/
namespace SpVerif.Props.C09
open SpVerif SpVerif.Prefix SpVerif.SpacePacket SpVerif.PusTc SpVerif.PusTm SpVerif.Srv1 SpVerif.CfdpHeader
  SpVerif.Lv SpVerif.Tlv SpVerif.Uslp

/-- the uniform shape of the per-unit statement -/
def PrefixOnly {α : Type} (dec : Bytes → Py α) (d : Bytes) (r : α) (n : Nat) : Prop :=
  n ≤ d.length ∧ dec (d.take n) = .ok r ∧ (∀ s : Bytes, dec (d.take n ++ s) = .ok r) ∧
    ∀ d' : Bytes, d'.take n = d.take n → n ≤ d'.length → dec d' = .ok r

private theorem prefixOnly_of {α : Type} {c : Codec α} {d : Bytes} {r : α} (h : LocalAt c d r) :
    PrefixOnly c.decode d r (c.len r) :=
  ⟨h.1, h.take, h.take_append, h.2⟩

/-- a packed unit of kind `k`: a buffer the decoder of `k` accepts with result `r`, whose length is
    exactly the length `r` reports (decidable; what `pack()` produces) -/
def PackedUnit (k : Kind) (p : Bytes) (r : Decoded) : Prop := k.decode p = .ok r ∧ r.len = p.length

instance (k : Kind) (p : Bytes) (r : Decoded) : Decidable (PackedUnit k p r) := by
  unfold PackedUnit; infer_instance

/-! ## per unit kind, for every accepted buffer -/

/-- space packet primary header (`SpacePacketHeader.unpack`, `header_len` = 6) -/
theorem C09_sph (d : Bytes) (h : Sph) (hu : Sph.unpack d = .ok h) : PrefixOnly Sph.unpack d h 6 :=
  prefixOnly_of (sph_local d h hu)

/-- PUS telecommand (`PusTc.unpack`, `packet_len`) -/
theorem C09_tc (d : Bytes) (t : Tc) (hu : Tc.unpack d = .ok t) : PrefixOnly Tc.unpack d t t.packetLen :=
  prefixOnly_of (tc_local d t hu)

/-- PUS telemetry, any timestamp length handed to the decoder (`PusTm.unpack`, `packet_len`) -/
theorem C09_tm (ts : Nat) (d : Bytes) (t : Tm) (hu : Tm.unpack d ts = .ok t) :
    PrefixOnly (fun d => Tm.unpack d ts) d t t.packetLen :=
  prefixOnly_of (tm_local ts d t hu)

/-- service-17 wrapper (`Service17Tm.unpack`) -/
theorem C09_s17 (ts : Nat) (d : Bytes) (t : Tm) (hu : srv17Unpack d ts = .ok t) :
    PrefixOnly (fun d => srv17Unpack d ts) d t t.packetLen :=
  prefixOnly_of (s17_local ts d t hu)

/-- service-1 verification report, any timestamp length and field widths (`Service1Tm.unpack`) -/
theorem C09_s1 (ts sb eb : Nat) (d : Bytes) (s : S1Tm) (hu : S1Tm.unpack d ts sb eb = .ok s) :
    PrefixOnly (fun d => S1Tm.unpack d ts sb eb) d s s.tm.packetLen :=
  prefixOnly_of (s1_local ts sb eb d s hu)

/-- CDS short timestamp (`CdsShortTimestamp.unpack_from_raw`, `len_packed` = 7) -/
theorem C09_cds (d : Bytes) (s : Cds.Stamp) (hu : Cds.unpackFromRaw d = .ok s) :
    PrefixOnly Cds.unpackFromRaw d s 7 :=
  prefixOnly_of (cds_local d s hu)

/-- request id (`RequestId.unpack`, four octets) -/
theorem C09_req_id (d : Bytes) (r : ReqId) (hu : ReqId.unpack d = .ok r) : PrefixOnly ReqId.unpack d r 4 :=
  prefixOnly_of (reqId_local d r hu)

/-- packet field enumeration (`PacketFieldEnum.unpack(data, pfc)`, `len()`) -/
theorem C09_field_enum (pfc : Nat) (d : Bytes) (f : Pfe) (hu : Pfe.unpack d pfc = .ok f) :
    PrefixOnly (fun d => Pfe.unpack d pfc) d f (roundDiv8 f.pfc) :=
  prefixOnly_of (pfe_local pfc d f hu)

/-- CFDP fixed PDU header (`PduHeader.unpack`, `header_len`) -/
theorem C09_cfdp_header (d : Bytes) (h : PduHeader) (hu : PduHeader.unpack d = .ok h) :
    PrefixOnly PduHeader.unpack d h h.headerLen :=
  prefixOnly_of (cfdpHdr_local d h hu)

/-- LV (`CfdpLv.unpack`, `packet_len`) -/
theorem C09_lv (d : Bytes) (l : CfdpLv) (hu : CfdpLv.unpack d = .ok l) : PrefixOnly CfdpLv.unpack d l l.packetLen :=
  prefixOnly_of (lv_local d l hu)

/-- generic TLV (`CfdpTlv.unpack`, `packet_len`) -/
theorem C09_tlv (d : Bytes) (t : CfdpTlv) (hu : CfdpTlv.unpack d = .ok t) :
    PrefixOnly CfdpTlv.unpack d t t.packetLen :=
  prefixOnly_of (tlv_local d t hu)

theorem C09_entity_id (d : Bytes) (t : EntityIdTlv) (hu : EntityIdTlv.unpack d = .ok t) :
    PrefixOnly EntityIdTlv.unpack d t t.packetLen :=
  prefixOnly_of (entityId_local d t hu)

theorem C09_flow_label (d : Bytes) (t : FlowLabelTlv) (hu : FlowLabelTlv.unpack d = .ok t) :
    PrefixOnly FlowLabelTlv.unpack d t t.packetLen :=
  prefixOnly_of (flowLabel_local d t hu)

theorem C09_msg_to_user (d : Bytes) (t : MessageToUserTlv) (hu : MessageToUserTlv.unpack d = .ok t) :
    PrefixOnly MessageToUserTlv.unpack d t t.packetLen :=
  prefixOnly_of (msgToUser_local d t hu)

theorem C09_fault_handler (d : Bytes) (t : FaultHandlerOverrideTlv)
    (hu : FaultHandlerOverrideTlv.unpack d = .ok t) :
    PrefixOnly FaultHandlerOverrideTlv.unpack d t t.packetLen :=
  prefixOnly_of (faultHandler_local d t hu)

/-- filestore request TLV: every accepted buffer is determined by the **declared** TLV (two octets
    plus the length octet's value), which lies inside the buffer; the reported `packet_len` never
    exceeds it -/
theorem C09_fs_request (d : Bytes) (t : FileStoreRequestTlv) (hu : FileStoreRequestTlv.unpack d = .ok t) :
    t.packetLen ≤ tlvDeclaredLen d ∧ PrefixOnly FileStoreRequestTlv.unpack d t (tlvDeclaredLen d) := by
  obtain ⟨hle, hl, hloc⟩ := fsRequest_declared hu
  refine ⟨hle, hl, ?_, fun s => ?_, hloc⟩
  · exact hloc _ (by rw [List.take_take, Nat.min_self]) (by rw [List.length_take]; omega)
  · have hlen : (d.take (tlvDeclaredLen d)).length = tlvDeclaredLen d := by rw [List.length_take]; omega
    exact hloc _ (by rw [List.take_append_of_le_length (by omega), List.take_take, Nat.min_self])
      (by rw [List.length_append]; omega)

/-- … and the reported length IS the declared one for every accepted buffer (slack inside the value
    field is refused), so the uniform statement holds with the reported length, unconditionally -/
theorem C09_fs_request_exact (d : Bytes) (t : FileStoreRequestTlv) (hu : FileStoreRequestTlv.unpack d = .ok t) :
    t.packetLen = tlvDeclaredLen d ∧ PrefixOnly FileStoreRequestTlv.unpack d t t.packetLen :=
  ⟨fsRequest_len_declared hu, prefixOnly_of (fsRequest_local d t hu)⟩

theorem C09_fs_response (d : Bytes) (t : FileStoreResponseTlv) (hu : FileStoreResponseTlv.unpack d = .ok t) :
    t.packetLen ≤ tlvDeclaredLen d ∧ PrefixOnly FileStoreResponseTlv.unpack d t (tlvDeclaredLen d) := by
  obtain ⟨hle, hl, hloc⟩ := fsResponse_declared hu
  refine ⟨hle, hl, ?_, fun s => ?_, hloc⟩
  · exact hloc _ (by rw [List.take_take, Nat.min_self]) (by rw [List.length_take]; omega)
  · have hlen : (d.take (tlvDeclaredLen d)).length = tlvDeclaredLen d := by rw [List.length_take]; omega
    exact hloc _ (by rw [List.take_append_of_le_length (by omega), List.take_take, Nat.min_self])
      (by rw [List.length_append]; omega)

theorem C09_fs_response_exact (d : Bytes) (t : FileStoreResponseTlv)
    (hu : FileStoreResponseTlv.unpack d = .ok t) :
    t.packetLen = tlvDeclaredLen d ∧ PrefixOnly FileStoreResponseTlv.unpack d t t.packetLen :=
  ⟨fsResponse_len_declared hu, prefixOnly_of (fsResponse_local d t hu)⟩

/-- **the former slack witness is refused** (adapted by C08 after /repo commit d425927: `from_tlv`
    refuses a value field that does not end with the names / the message LV, and the model follows).
    The request TLV declaring 12 octets whose value holds three octets after the file name — which the
    unrepaired decoder accepted while reporting 9 — is now a `ValueError`; every accepted filestore
    TLV reports exactly the declared length (`Tlv.FileStoreRequestTlv.fromTlv_len_exact`,
    `Tlv.FileStoreResponseTlv.fromTlv_len_exact`, `C08_fs_request_len_exact`), which is why
    `C09_fs_request_exact` / `C09_fs_response_exact` / `C09_kind` carry no hypothesis about it. -/
theorem C09_fs_request_slack_witness :
    FileStoreRequestTlv.unpack [0, 10, 0, 5, 0x61, 0x2E, 0x74, 0x78, 0x74, 1, 2, 3] = .error .value := by
  decide

/-- a packed filestore TLV (buffer length = reported length) reports the declared length -/
theorem C09_fs_packed_exact (d : Bytes) :
    (∀ t, FileStoreRequestTlv.unpack d = .ok t → t.packetLen = d.length → t.packetLen = tlvDeclaredLen d) ∧
    (∀ t, FileStoreResponseTlv.unpack d = .ok t → t.packetLen = d.length → t.packetLen = tlvDeclaredLen d) := by
  constructor
  · intro t hu hp
    obtain ⟨hle, hl, _⟩ := fsRequest_declared hu
    omega
  · intro t hu hp
    obtain ⟨hle, hl, _⟩ := fsResponse_declared hu
    omega

/-- USLP primary header, any VCF count length 0..7 (`PrimaryHeader.unpack`, `len()`); errors are
    viewed in the shared categories (`UPy.toPy`) -/
theorem C09_uslp_primary (ver : Nat) (d : Bytes) (h : PrimaryHeader) (hu : PrimaryHeader.unpack d ver = .ok h) :
    PrefixOnly (fun d => (PrimaryHeader.unpack d ver).toPy) d h h.len :=
  prefixOnly_of (uslpPrimary_local ver d h (by show (PrimaryHeader.unpack d ver).toPy = .ok h; rw [hu]; rfl))

/-- USLP truncated header (`TruncatedPrimaryHeader.unpack`, `len()` = 4) -/
theorem C09_uslp_truncated (ver : Nat) (d : Bytes) (h : TruncatedHeader)
    (hu : TruncatedHeader.unpack d ver = .ok h) :
    PrefixOnly (fun d => (TruncatedHeader.unpack d ver).toPy) d h 4 :=
  prefixOnly_of (uslpTruncated_local ver d h (by show (TruncatedHeader.unpack d ver).toPy = .ok h; rw [hu]; rfl))

/-- byte fields read from a stream (`ByteFieldGenerator.from_bytes(n, stream)`, hence
    `from_u8_bytes` … `from_u64_bytes`; `byte_len`) -/
theorem C09_byte_field (n : Nat) (d : Bytes) (f : ByteField.Field)
    (hu : ByteField.genFromBytes (n : Int) d = .ok f) :
    PrefixOnly (fun d => ByteField.genFromBytes (n : Int) d) d f f.width :=
  prefixOnly_of (byteField_local n d f hu)

/-- the four subclass readers are the generator at their width -/
theorem C09_byte_field_readers (d : Bytes) :
    ByteField.fromU8Bytes d = ByteField.genFromBytes 1 d ∧ ByteField.fromU16Bytes d = ByteField.genFromBytes 2 d ∧
    ByteField.fromU32Bytes d = ByteField.genFromBytes 4 d ∧ ByteField.fromU64Bytes d = ByteField.genFromBytes 8 d :=
  ⟨rfl, rfl, rfl, rfl⟩

/-! ## the table: one statement for every kind -/

/-- **every kind of the table** (all twenty, the two filestore TLV classes included): every accepted
    buffer is determined by its first `len` octets, `len` being the length the decoded object reports -/
theorem C09_kind (k : Kind) (d : Bytes) (r : Decoded) (hu : k.decode d = .ok r) :
    PrefixOnly k.decode d r r.len :=
  prefixOnly_of (Kind.local k d r hu)

/-- **a unit followed by anything decodes as the unit alone** — every kind, every accepted buffer -/
theorem C09_suffix (k : Kind) (d : Bytes) (r : Decoded) (hu : k.decode d = .ok r) (s : Bytes) :
    k.decode (d ++ s) = k.decode d := by
  rw [hu]; exact Kind.extends k d r s hu

/-- in particular `decode (pack x ‖ s) = decode (pack x)` for every packed unit of every kind, and
    the packed unit is recovered from the front of the longer buffer by the reported length -/
theorem C09_packed_suffix (k : Kind) (p : Bytes) (r : Decoded) (hp : PackedUnit k p r) (s : Bytes) :
    k.decode (p ++ s) = .ok r ∧ (p ++ s).take r.len = p ∧ (p ++ s).drop r.len = s := by
  refine ⟨Kind.extends k p r s hp.1, ?_, ?_⟩
  · rw [hp.2]; exact List.take_left' rfl
  · rw [hp.2]; exact List.drop_left' rfl

/-! ## splitting a buffer of back-to-back units by the reported lengths -/

/-- **one kind**: `n` packed units of kind `k` followed by any tail are split into exactly those
    units and that tail by iterating "decode, drop the reported length". Induction over the list:
    no bound on the number of units. -/
theorem C09_split (k : Kind) (units : List (Bytes × Decoded)) (hp : ∀ u ∈ units, PackedUnit k u.1 u.2)
    (tail : Bytes) :
    splitN k.codec units.length ((units.map (·.1)).flatten ++ tail) = .ok (units.map (·.2), tail) :=
  splitN_concat k.codec (Kind.extends k) units hp tail

/-- **mixed kinds**: the same for a buffer whose units are of different kinds -/
theorem C09_split_mixed (units : List (Kind × Bytes × Decoded))
    (hp : ∀ u ∈ units, PackedUnit u.1 u.2.1 u.2.2) (tail : Bytes) :
    splitKinds (units.map (·.1)) ((units.map (·.2.1)).flatten ++ tail) = .ok (units.map (·.2.2), tail) :=
  splitKinds_concat units (fun u _ => Kind.extends u.1) hp tail

/-- **until the buffer is exhausted**: without knowing the number of units in advance; the fuel of
    `splitStream` (buffer length + 1) is never exhausted -/
theorem C09_split_stream (k : Kind) (units : List (Bytes × Decoded)) (hp : ∀ u ∈ units, PackedUnit k u.1 u.2)
    (hpos : ∀ u ∈ units, 0 < u.1.length) :
    splitStream k.codec (units.map (·.1)).flatten = .ok (units.map (·.2)) :=
  splitStream_concat k.codec (Kind.extends k) units hp hpos

/-- the typed form, for any codec that never looks beyond an accepted buffer (reusable for the CFDP
    PDU kinds and by C12): with the result type of the codec, not the sum type of the table -/
theorem C09_split_codec {α : Type} (c : Codec α) (he : Extends c) (units : List (Bytes × α))
    (hp : ∀ u ∈ units, c.decode u.1 = .ok u.2 ∧ c.len u.2 = u.1.length) (tail : Bytes) :
    splitN c units.length ((units.map (·.1)).flatten ++ tail) = .ok (units.map (·.2), tail) :=
  splitN_concat c he units hp tail

/-- no decoder of the table accepts the empty buffer, so a packed unit is at least one octet long
    and `splitStream` always makes progress: the hypothesis `hpos` of `C09_split_stream` is
    automatically met -/
theorem C09_packed_nonempty (k : Kind) (p : Bytes) (r : Decoded) (hp : PackedUnit k p r) : 0 < p.length := by
  cases p with
  | cons x xs => simp
  | nil => exact absurd hp.1 (by rw [(Kind.decode_nil k).choose_spec]; intro h; cases h)

theorem C09_split_stream_packed (k : Kind) (units : List (Bytes × Decoded))
    (hp : ∀ u ∈ units, PackedUnit k u.1 u.2) :
    splitStream k.codec (units.map (·.1)).flatten = .ok (units.map (·.2)) :=
  C09_split_stream k units hp (fun u hu => C09_packed_nonempty k u.1 u.2 (hp u hu))

/-! ## `decode (pack x ‖ s) = decode (pack x)`, stated on the prescribed octets of the owning properties

`Spec.octets x` is what `pack x` returns for every valid `x` (`C0x_pack_exact`). Together with the
length clause each line says: the packed unit is recovered from the front of any longer buffer. -/

theorem C09_pack_sph (h : Sph) (wf : C01.WF h) (s : Bytes) :
    Sph.unpack (C01.Spec.octets h ++ s) = Sph.unpack (C01.Spec.octets h) ∧
    Sph.unpack (C01.Spec.octets h) = .ok h ∧ (C01.Spec.octets h).length = 6 := by
  have h0 := C01.C01_unpack_pack h wf []
  rw [List.append_nil] at h0
  exact ⟨by rw [C01.C01_unpack_pack h wf s, h0], h0, rfl⟩

theorem C09_pack_tc (t : Tc) (wf : C02.WF t) (s : Bytes) :
    Tc.unpack (C02.Spec.octets t ++ s) = Tc.unpack (C02.Spec.octets t) ∧
    Tc.unpack (C02.Spec.octets t) = .ok t ∧ (C02.Spec.octets t).length = t.packetLen := by
  have h0 := C02.C02_roundtrip t wf []
  rw [List.append_nil] at h0
  exact ⟨by rw [C02.C02_roundtrip t wf s, h0], h0, (C02.C02_len t wf).1⟩

theorem C09_pack_tm (t : Tm) (wf : C03.WF t) (s : Bytes) :
    Tm.unpack (C03.Spec.octets t ++ s) t.sec.timestamp.length = Tm.unpack (C03.Spec.octets t) t.sec.timestamp.length ∧
    Tm.unpack (C03.Spec.octets t) t.sec.timestamp.length = .ok t ∧ (C03.Spec.octets t).length = t.packetLen := by
  have h0 := C03.C03_roundtrip t wf []
  rw [List.append_nil] at h0
  exact ⟨by rw [C03.C03_roundtrip t wf s, h0], h0, (C03.C03_len t wf).1⟩

theorem C09_pack_cds (x : Cds.Stamp) (wf : C14.WF x) (s : Bytes) :
    Cds.unpackFromRaw (C14.Spec.octets x ++ s) = Cds.unpackFromRaw (C14.Spec.octets x) ∧
    Cds.unpackFromRaw (C14.Spec.octets x) = .ok x ∧ (C14.Spec.octets x).length = 7 := by
  have h0 := C14.C14_roundtrip x wf []
  rw [List.append_nil] at h0
  exact ⟨by rw [C14.C14_roundtrip x wf s, h0], h0, rfl⟩

theorem C09_pack_req_id (r : ReqId) (wf : C15.WFReq r) (s : Bytes) :
    ReqId.unpack (C15.Spec.reqOctets r ++ s) = ReqId.unpack (C15.Spec.reqOctets r) ∧
    ReqId.unpack (C15.Spec.reqOctets r) = .ok r ∧ (C15.Spec.reqOctets r).length = 4 := by
  have h0 := C15.C15_reqid_roundtrip r wf []
  rw [List.append_nil] at h0
  exact ⟨by rw [C15.C15_reqid_roundtrip r wf s, h0], h0, rfl⟩

theorem C09_pack_cfdp_header (h : PduHeader) (wf : C05.WF h) (s : Bytes) :
    PduHeader.unpack (C05.Spec.octets h ++ s) = PduHeader.unpack (C05.Spec.octets h) ∧
    PduHeader.unpack (C05.Spec.octets h) = .ok h ∧ (C05.Spec.octets h).length = h.headerLen := by
  have h0 := C05.C05_roundtrip h wf []
  rw [List.append_nil] at h0
  exact ⟨by rw [C05.C05_roundtrip h wf s, h0], h0, (C05.C05_len h wf).1⟩

theorem C09_pack_lv (v : Bytes) (wf : C08.WFValue v) (s : Bytes) :
    CfdpLv.unpack (C08.Spec.lv v ++ s) = CfdpLv.unpack (C08.Spec.lv v) ∧
    CfdpLv.unpack (C08.Spec.lv v) = .ok ⟨v⟩ ∧ (C08.Spec.lv v).length = (CfdpLv.mk v).packetLen := by
  have h0 := (C08.C08_lv_roundtrip v [] wf).1
  rw [List.append_nil] at h0
  exact ⟨by rw [(C08.C08_lv_roundtrip v s wf).1, h0], h0, by simp [C08.Spec.lv, CfdpLv.packetLen]⟩

theorem C09_pack_tlv (t : Nat) (v : Bytes) (ht : C08.WFType t) (wf : C08.WFValue v) (s : Bytes) :
    CfdpTlv.unpack (C08.Spec.tlv t v ++ s) = CfdpTlv.unpack (C08.Spec.tlv t v) ∧
    CfdpTlv.unpack (C08.Spec.tlv t v) = .ok ⟨t, v⟩ ∧ (C08.Spec.tlv t v).length = (CfdpTlv.mk t v).packetLen := by
  have h0 := (C08.C08_tlv_roundtrip t v [] ht wf).1
  rw [List.append_nil] at h0
  exact ⟨by rw [(C08.C08_tlv_roundtrip t v s ht wf).1, h0], h0, by simp [C08.Spec.tlv, CfdpTlv.packetLen]; omega⟩

theorem C09_pack_uslp_primary (h : PrimaryHeader) (wf : C17.WFHdr h) (s : Bytes) :
    PrimaryHeader.unpack (C17.Spec.hdrOctets h ++ s) = PrimaryHeader.unpack (C17.Spec.hdrOctets h) ∧
    PrimaryHeader.unpack (C17.Spec.hdrOctets h) = .ok (C17.normHdr h) ∧
    (C17.Spec.hdrOctets h).length = (C17.normHdr h).len := by
  have h0 := C17.C17_hdr_roundtrip h wf []
  rw [List.append_nil] at h0
  refine ⟨by rw [C17.C17_hdr_roundtrip h wf s, h0], h0, ?_⟩
  have : (C17.normHdr h).vcfLen = h.vcfLen := by unfold C17.normHdr; split <;> rfl
  simp [C17.Spec.hdrOctets, C17.Spec.commonOctets, PrimaryHeader.len, this]; omega

theorem C09_pack_uslp_truncated (h : TruncatedHeader) (wf : C17.WFTHdr h) (s : Bytes) :
    TruncatedHeader.unpack (C17.Spec.thdrOctets h ++ s) = TruncatedHeader.unpack (C17.Spec.thdrOctets h) ∧
    TruncatedHeader.unpack (C17.Spec.thdrOctets h) = .ok h ∧ (C17.Spec.thdrOctets h).length = h.len := by
  have h0 := C17.C17_thdr_roundtrip h wf []
  rw [List.append_nil] at h0
  exact ⟨by rw [C17.C17_thdr_roundtrip h wf s, h0], h0, rfl⟩

theorem C09_pack_byte_field (w v : Nat) (wf : C20.WF w v) (h0 : w ≠ 0) (s : Bytes) :
    ByteField.genFromBytes (w : Int) (C20.Spec.octets w v ++ s) = ByteField.genFromBytes (w : Int) (C20.Spec.octets w v) ∧
    ByteField.genFromBytes (w : Int) (C20.Spec.octets w v) = .ok ⟨w, v, C20.Spec.octets w v⟩ := by
  have h1 := (C20.C20_roundtrip w v wf h0 []).2
  rw [List.append_nil] at h1
  exact ⟨by rw [(C20.C20_roundtrip w v wf h0 s).2, h1], h1⟩

/-- service-17 wrapper: the decoder is `PusTm.unpack` (C03) -/
theorem C09_pack_s17 (t : Tm) (wf : C03.WF t) (s : Bytes) :
    srv17Unpack (C03.Spec.octets t ++ s) t.sec.timestamp.length = srv17Unpack (C03.Spec.octets t) t.sec.timestamp.length ∧
    srv17Unpack (C03.Spec.octets t) t.sec.timestamp.length = .ok t ∧ (C03.Spec.octets t).length = t.packetLen :=
  C09_pack_tm t wf s

/-- service-1 report, every subservice 1..8, every accepted PFC (decoded with the widths of its own
    fields; the decoded parameter set is `C15.normParams p`, `p` itself when all PFCs are 8 × width) -/
theorem C09_pack_s1 (apid sub count ver ref dst : Nat) (ts : Bytes) (p : VParams)
    (ha : apid < 2048) (hc : count < 16384) (hsub : 1 ≤ sub ∧ sub ≤ 8) (hv : ver < 8) (hr : ref < 16)
    (hd : dst < 65536) (hl : ts.length + (C15.Spec.sourceData p).length ≤ 65527)
    (wp : C15.WFParams p) (hm : C15.Matches p sub) (sb eb : Nat)
    (hsb : ∀ f, p.stepId = some f → sb = C15.fieldWidth f)
    (heb : ∀ n, p.failure = some n → eb = C15.fieldWidth n.code) (s : Bytes) :
    S1Tm.unpack (C15.Spec.reportOctets apid sub count ver ref dst ts p ++ s) ts.length sb eb
      = S1Tm.unpack (C15.Spec.reportOctets apid sub count ver ref dst ts p) ts.length sb eb ∧
    S1Tm.unpack (C15.Spec.reportOctets apid sub count ver ref dst ts p) ts.length sb eb
      = .ok ⟨C15.Spec.reportTm apid sub count ver ref dst ts p, C15.normParams p⟩ ∧
    (C15.Spec.reportOctets apid sub count ver ref dst ts p).length
      = (C15.Spec.reportTm apid sub count ver ref dst ts p).packetLen := by
  have h0 := (C15.C15_report_roundtrip_any_pfc apid sub count ver ref dst ts p ha hc hsub hv hr hd hl wp hm sb eb
    hsb heb []).1
  rw [List.append_nil] at h0
  refine ⟨by rw [(C15.C15_report_roundtrip_any_pfc apid sub count ver ref dst ts p ha hc hsub hv hr hd hl wp hm sb eb
    hsb heb s).1, h0], h0, ?_⟩
  exact (C03.C03_len _ (C15.reportTm_wf apid sub count ver ref dst ts p ha hc (by omega) hv hr hd hl)).1

/-- packet field enumeration, every accepted PFC (decoded with its width) -/
theorem C09_pack_field_enum (f : Pfe) (wf : C15.WFField f) (s : Bytes) :
    Pfe.unpack (C15.Spec.fieldOctets f ++ s) (C15.fieldWidth f * 8)
      = Pfe.unpack (C15.Spec.fieldOctets f) (C15.fieldWidth f * 8) ∧
    Pfe.unpack (C15.Spec.fieldOctets f) (C15.fieldWidth f * 8) = .ok (C15.normField f) ∧
    (C15.Spec.fieldOctets f).length = roundDiv8 (C15.normField f).pfc := by
  have h0 := (C15.C15_field_roundtrip_any_pfc f wf []).1
  rw [List.append_nil] at h0
  refine ⟨by rw [(C15.C15_field_roundtrip_any_pfc f wf s).1, h0], h0, ?_⟩
  rw [C15.fieldOctets_length]
  exact (C15.normField_width f).symm

theorem C09_pack_entity_id (v : Bytes) (wf : C08.WFValue v) (s : Bytes) :
    EntityIdTlv.unpack (C08.Spec.entityId v ++ s) = EntityIdTlv.unpack (C08.Spec.entityId v) ∧
    EntityIdTlv.unpack (C08.Spec.entityId v) = EntityIdTlv.new v ∧
    (EntityIdTlv.new v >>= fun e => pure e.packetLen) = .ok (C08.Spec.entityId v).length := by
  have h0 := C08.C08_entity_id_roundtrip v [] wf
  rw [List.append_nil] at h0
  exact ⟨by rw [C08.C08_entity_id_roundtrip v s wf, h0], h0, (C08.C08_entity_id_pack_exact v wf).2⟩

theorem C09_pack_flow_label (v : Bytes) (wf : C08.WFValue v) (s : Bytes) :
    FlowLabelTlv.unpack (C08.Spec.flowLabel v ++ s) = FlowLabelTlv.unpack (C08.Spec.flowLabel v) ∧
    FlowLabelTlv.unpack (C08.Spec.flowLabel v) = FlowLabelTlv.new v ∧
    (FlowLabelTlv.new v >>= fun e => pure e.packetLen) = .ok (C08.Spec.flowLabel v).length := by
  have h0 := C08.C08_flow_label_roundtrip v [] wf
  rw [List.append_nil] at h0
  exact ⟨by rw [C08.C08_flow_label_roundtrip v s wf, h0], h0, (C08.C08_flow_label_pack_exact v wf).2⟩

theorem C09_pack_msg_to_user (v : Bytes) (wf : C08.WFValue v) (s : Bytes) :
    MessageToUserTlv.unpack (C08.Spec.msgToUser v ++ s) = MessageToUserTlv.unpack (C08.Spec.msgToUser v) ∧
    MessageToUserTlv.unpack (C08.Spec.msgToUser v) = MessageToUserTlv.new v ∧
    (MessageToUserTlv.new v >>= fun e => pure e.packetLen) = .ok (C08.Spec.msgToUser v).length := by
  have h0 := C08.C08_msg_to_user_roundtrip v [] wf
  rw [List.append_nil] at h0
  exact ⟨by rw [C08.C08_msg_to_user_roundtrip v s wf, h0], h0, (C08.C08_msg_to_user_pack_exact v wf).2⟩

theorem C09_pack_fault_handler (cc hc : Nat) (hcc : cc < 16) (hhc : hc < 16) (s : Bytes) :
    FaultHandlerOverrideTlv.unpack (C08.Spec.faultHandler cc hc ++ s)
      = FaultHandlerOverrideTlv.unpack (C08.Spec.faultHandler cc hc) ∧
    FaultHandlerOverrideTlv.unpack (C08.Spec.faultHandler cc hc) = FaultHandlerOverrideTlv.new (cc : Int) hc ∧
    (FaultHandlerOverrideTlv.new (cc : Int) hc >>= fun e => pure e.packetLen) = .ok 3 ∧
    (C08.Spec.faultHandler cc hc).length = 3 := by
  have h0 := C08.C08_fault_handler_roundtrip cc hc hcc hhc []
  rw [List.append_nil] at h0
  exact ⟨by rw [C08.C08_fault_handler_roundtrip cc hc hcc hhc s, h0], h0,
    (C08.C08_fault_handler_pack_exact cc hc hcc hhc).2, rfl⟩

theorem C09_pack_fs_request (r : FileStoreRequestTlv) (wf : C08.WFReq r) (s : Bytes) :
    FileStoreRequestTlv.unpack (C08.Spec.fsRequest r ++ s) = FileStoreRequestTlv.unpack (C08.Spec.fsRequest r) ∧
    FileStoreRequestTlv.unpack (C08.Spec.fsRequest r) = .ok r ∧ (C08.Spec.fsRequest r).length = r.packetLen := by
  have h0 := C08.C08_fs_request_roundtrip r wf []
  rw [List.append_nil] at h0
  exact ⟨by rw [C08.C08_fs_request_roundtrip r wf s, h0], h0,
    C08.C08_fs_request_len r _ (C08.C08_fs_request_pack_exact r wf)⟩

theorem C09_pack_fs_response (r : FileStoreResponseTlv) (wf : C08.WFResp r) (s : Bytes) :
    FileStoreResponseTlv.unpack (C08.Spec.fsResponse r ++ s) = FileStoreResponseTlv.unpack (C08.Spec.fsResponse r) ∧
    FileStoreResponseTlv.unpack (C08.Spec.fsResponse r) = .ok r ∧ (C08.Spec.fsResponse r).length = r.packetLen := by
  have h0 := C08.C08_fs_response_roundtrip r wf []
  rw [List.append_nil] at h0
  exact ⟨by rw [C08.C08_fs_response_roundtrip r wf s, h0], h0,
    C08.C08_fs_response_len r _ (C08.C08_fs_response_pack_exact r wf)⟩

/-! ## non-vacuity: concrete accepted buffers, packed units, a split -/

-- a telecommand (service 17, subservice 1, two octets of data) is a packed unit of kind `tc`
example : ∃ p r, PackedUnit .tc p r ∧ p.length = 15 := by
  have wf : C02.WF ⟨⟨0, 1, 1, 0x7FF, 3, 16383, 8⟩, ⟨0b1010, 17, 1, 0xBEEF⟩, [1, 2]⟩ := by
    refine ⟨by decide, ?_, by decide⟩
    unfold C02.WFSec; decide
  obtain ⟨_, h0, hl⟩ := C09_pack_tc _ wf []
  refine ⟨C02.Spec.octets ⟨⟨0, 1, 1, 0x7FF, 3, 16383, 8⟩, ⟨0b1010, 17, 1, 0xBEEF⟩, [1, 2]⟩,
    .tc ⟨⟨0, 1, 1, 0x7FF, 3, 16383, 8⟩, ⟨0b1010, 17, 1, 0xBEEF⟩, [1, 2]⟩, ⟨?_, ?_⟩, ?_⟩
  · show Decoded.tc <$> Tc.unpack _ = _
    rw [h0]; rfl
  · exact hl.symm
  · rw [hl]; rfl
-- generic TLV, LV, CDS stamp, USLP truncated header: decided by evaluation
example : PackedUnit .tlv [6, 2, 0xAB, 0xCD] (.tlv ⟨6, [0xAB, 0xCD]⟩) := by decide
example : PackedUnit .lv [3, 1, 2, 3] (.lv ⟨[1, 2, 3]⟩) := by decide
example : PackedUnit .cds [0x40, 0x12, 0x34, 0, 0, 0x01, 0x02] (.cds ⟨0x1234, 0x102⟩) := by decide
example : PackedUnit .reqId [0x18, 0x2A, 0xC0, 0x07] (.reqId ⟨0, ⟨1, 1, 0x2A⟩, ⟨3, 7⟩⟩) := by decide
-- accepted, not packed: the TLV is followed by two octets that look like another TLV header
example : Kind.tlv.decode [6, 2, 0xAB, 0xCD, 6, 0] = .ok (.tlv ⟨6, [0xAB, 0xCD]⟩) := by decide
-- a mixed buffer (TLV, LV, request id) with a tail is split by the reported lengths
example : splitKinds [.tlv, .lv, .reqId] ([6, 2, 0xAB, 0xCD] ++ [3, 1, 2, 3] ++ [0x18, 0x2A, 0xC0, 0x07] ++ [0xFF]) =
    .ok ([.tlv ⟨6, [0xAB, 0xCD]⟩, .lv ⟨[1, 2, 3]⟩, .reqId ⟨0, ⟨1, 1, 0x2A⟩, ⟨3, 7⟩⟩], [0xFF]) := by decide
-- the former filestore observation: a request whose value field holds three octets more than its
-- names (declares 12 octets, names end after 9) is refused since the repair of `_set_fields`
example : FileStoreRequestTlv.unpack [0, 10, 0, 5, 0x61, 0x2E, 0x74, 0x78, 0x74, 1, 2, 3] =
    .error .value := by decide
example : (FileStoreRequestTlv.mk 0 [0x61, 0x2E, 0x74, 0x78, 0x74] []).packetLen = 9 ∧
    tlvDeclaredLen [0, 10, 0, 5, 0x61, 0x2E, 0x74, 0x78, 0x74, 1, 2, 3] = 12 := by decide
example : FileStoreRequestTlv.unpack ([0, 10, 0, 5, 0x61, 0x2E, 0x74, 0x78, 0x74, 1, 2, 3].take 9) = .error .value := by
  decide


/-! # Second half: complete CFDP PDUs followed by further octets

Decoders: the models of C06 (EOF, Finished, ACK, Metadata, NAK, Prompt, Keep Alive) and C07
(File Data). The length that delimits a PDU is the one its fixed header **declares**
(`cfdpDeclaredLen d`: data-field length + header length, octets 1–3). For every kind `K` and
**every** accepted buffer `d` with result `r`: the declared PDU lies inside `d` and decoding exactly
those octets gives `r` (`C09_pdu_declared`); the same PDU followed by any octets is decoded to `r`
again or refused with a documented error (`C09_pdu_trailing`) — all kinds but NAK always decode it
(`C09_eof` … `C09_file_data`, `C09_pdu_suffix`), NAK always refuses it with `ValueError`
(`C09_nak_trailing`, by design of the library's own test-suite). The decoded object reports exactly
the declared length, except EOF and Finished (≤: they recompute their length from the TLVs they
kept: fault location / filestore responses and the last entity-ID TLV) — `C09_pdu_reported`. `C09_K_no_fold`: the decoded
PDU is the value of the parameter parser on the directive base and the declared PDU **minus its CRC
trailer** — octets beyond the declared length and the trailer itself never reach the parameters,
file data, options, filestore responses or segment requests. -/

open SpVerif.CfdpCrc in
/-- the uniform per-PDU statement, on the declared length -/
def DeclaredOnly {α : Type} (dec : Bytes → Py α) (d : Bytes) (r : α) : Prop :=
  PrefixOnly dec d r (cfdpDeclaredLen d)

private theorem declaredOnly_of {α : Type} {dec : Bytes → Py α} (h : DeclLocal dec) {d : Bytes} {r : α}
    (hu : dec d = .ok r) : DeclaredOnly dec d r := by
  obtain ⟨hl, hloc⟩ := h d r hu
  have hlen : (d.take (CfdpCrc.cfdpDeclaredLen d)).length = CfdpCrc.cfdpDeclaredLen d := by
    rw [List.length_take]; omega
  refine ⟨hl, h.take d r hu, fun s => ?_, hloc⟩
  exact hloc _ (by rw [List.take_append_of_le_length (by omega), List.take_take, Nat.min_self])
    (by rw [List.length_append]; omega)

/-- ACK PDU (`AckPdu.unpack`); the object reports the declared length -/
theorem C09_ack (d : Bytes) (a : Ack.Ack) (hu : Ack.Ack.unpack d = .ok a) :
    DeclaredOnly Ack.Ack.unpack d a ∧ a.packetLen = CfdpCrc.cfdpDeclaredLen d :=
  ⟨declaredOnly_of ack_declLocal hu, ack_declared hu⟩

/-- Prompt PDU -/
theorem C09_prompt (d : Bytes) (a : Prompt.Prompt) (hu : Prompt.Prompt.unpack d = .ok a) :
    DeclaredOnly Prompt.Prompt.unpack d a ∧ a.packetLen = CfdpCrc.cfdpDeclaredLen d :=
  ⟨declaredOnly_of prompt_declLocal hu, prompt_declared hu⟩

/-- Keep Alive PDU -/
theorem C09_keep_alive (d : Bytes) (a : KeepAlive.KeepAlive) (hu : KeepAlive.KeepAlive.unpack d = .ok a) :
    DeclaredOnly KeepAlive.KeepAlive.unpack d a ∧ a.packetLen = CfdpCrc.cfdpDeclaredLen d :=
  ⟨declaredOnly_of keepAlive_declLocal hu, keepAlive_declared hu⟩

/-- Metadata PDU: names and options come from the declared PDU only -/
theorem C09_metadata (d : Bytes) (a : Metadata.Metadata) (hu : Metadata.Metadata.unpack d = .ok a) :
    DeclaredOnly Metadata.Metadata.unpack d a ∧ a.packetLen = CfdpCrc.cfdpDeclaredLen d :=
  ⟨declaredOnly_of metadata_declLocal hu, metadata_declared hu⟩

/-- File Data PDU: offset, file data and segment metadata come from the declared PDU only -/
theorem C09_file_data (d : Bytes) (x : FileData.Pdu) (hu : FileData.Pdu.unpack d = .ok x) :
    DeclaredOnly FileData.Pdu.unpack d x ∧ x.packetLen = CfdpCrc.cfdpDeclaredLen d :=
  ⟨declaredOnly_of fileData_declLocal hu, fileData_declared hu⟩

/-- EOF PDU: the fault location comes from the declared PDU only; the decoded object reports at
    most the declared length -/
theorem C09_eof (d : Bytes) (a : Eof.Eof) (hu : Eof.Eof.unpack d = .ok a) :
    DeclaredOnly Eof.Eof.unpack d a ∧ a.packetLen ≤ CfdpCrc.cfdpDeclaredLen d :=
  ⟨declaredOnly_of eof_declLocal hu, eof_reported_le hu⟩

/-- Finished PDU: filestore responses and fault location come from the declared PDU only; the
    decoded object (whose length is recomputed from the filestore responses and the last entity-ID TLV
    it kept) reports at most the declared length -/
theorem C09_finished (d : Bytes) (a : Finished.Finished) (hu : Finished.Finished.unpack d = .ok a) :
    DeclaredOnly Finished.Finished.unpack d a ∧ a.packetLen ≤ CfdpCrc.cfdpDeclaredLen d :=
  ⟨declaredOnly_of finished_declLocal hu, finished_reported_le hu⟩

/-- NAK PDU: an accepted buffer is *exactly* the declared PDU -/
theorem C09_nak (d : Bytes) (k : Nak.Nak) (hu : Nak.Nak.unpack d = .ok k) :
    d.length = k.packetLen ∧ k.packetLen = CfdpCrc.cfdpDeclaredLen d ∧ Nak.Nak.unpack (d.take k.packetLen) = .ok k :=
  ⟨nak_exact hu, nak_declared hu, (nak_restricts d k hu).2⟩

/-- … and followed by at least one octet it is refused with the documented `ValueError`: trailing
    octets are never folded into segment requests (for every accepted NAK PDU, not only packed ones) -/
theorem C09_nak_trailing (d : Bytes) (k : Nak.Nak) (hu : Nak.Nak.unpack d = .ok k) (s : Bytes) (hs : s ≠ []) :
    Nak.Nak.unpack (d ++ s) = .error .value ∧ Err.value.documented = true :=
  ⟨nak_trailing_refused hu s hs, rfl⟩

/-- **every PDU kind**: the declared PDU lies inside every accepted buffer and decoding exactly the
    declared PDU gives the same result -/
theorem C09_pdu_declared (k : PduKind) (d : Bytes) (r : PduDecoded) (hu : k.decode d = .ok r) :
    CfdpCrc.cfdpDeclaredLen d ≤ d.length ∧ k.decode (d.take (CfdpCrc.cfdpDeclaredLen d)) = .ok r :=
  PduKind.declRestricts k d r hu

/-- the decoded object's `packet_len` is the declared length for every kind but EOF and Finished,
    and never exceeds it for any kind (EOF and Finished recompute it from the TLVs they kept) -/
theorem C09_pdu_reported (k : PduKind) (d : Bytes) (r : PduDecoded) (hu : k.decode d = .ok r) :
    (k ≠ .eof → k ≠ .finished → r.len = CfdpCrc.cfdpDeclaredLen d) ∧
    r.len ≤ CfdpCrc.cfdpDeclaredLen d :=
  PduKind.reported k d r hu

/-- **every PDU kind**: the declared PDU followed by any octets is decoded exactly as the PDU alone
    or refused with a documented error -/
theorem C09_pdu_trailing (k : PduKind) (d : Bytes) (r : PduDecoded) (hu : k.decode d = .ok r) (s : Bytes) :
    k.decode (d.take (CfdpCrc.cfdpDeclaredLen d) ++ s) = .ok r ∨
      ∃ e, k.decode (d.take (CfdpCrc.cfdpDeclaredLen d) ++ s) = .error e ∧ e.documented = true := by
  cases hk : k.acceptsTrailing with
  | true =>
    obtain ⟨hl, hloc⟩ := PduKind.declLocal k hk d r hu
    left
    have hlen : (d.take (CfdpCrc.cfdpDeclaredLen d)).length = CfdpCrc.cfdpDeclaredLen d := by
      rw [List.length_take]; omega
    exact hloc _ (by rw [List.take_append_of_le_length (by omega), List.take_take, Nat.min_self])
      (by rw [List.length_append]; omega)
  | false =>
    cases k <;> try cases hk
    by_cases hs : s = []
    · subst hs; rw [List.append_nil]; exact Or.inl (PduKind.declRestricts .nak d r hu).2
    · right
      have h' : PduDecoded.nak <$> Nak.Nak.unpack d = .ok r := hu
      cases hn : Nak.Nak.unpack d with
      | error e => rw [hn] at h'; cases h'
      | ok x =>
        have e : CfdpCrc.cfdpDeclaredLen d = d.length := by rw [← nak_declared hn, nak_exact hn]
        refine ⟨.value, ?_, rfl⟩
        show PduDecoded.nak <$> Nak.Nak.unpack (d.take (CfdpCrc.cfdpDeclaredLen d) ++ s) = _
        rw [e, List.take_of_length_le (Nat.le_refl _), nak_trailing_refused hn s hs]; rfl

/-- the kinds that accept a longer buffer (all but NAK) decode it exactly as the PDU alone -/
theorem C09_pdu_suffix (k : PduKind) (hk : k.acceptsTrailing = true) (d : Bytes) (r : PduDecoded)
    (hu : k.decode d = .ok r) (s : Bytes) : k.decode (d ++ s) = k.decode d := by
  rw [hu]; exact (PduKind.declLocal k hk).extends d r s hu

/-- … so a buffer of such PDUs back to back is split into exactly those PDUs by the reported
    `packet_len`s (no bound on their number) -/
theorem C09_split_pdu (k : PduKind) (hk : k.acceptsTrailing = true) (units : List (Bytes × PduDecoded))
    (hp : ∀ u ∈ units, k.decode u.1 = .ok u.2 ∧ u.2.len = u.1.length) (tail : Bytes) :
    splitN k.codec units.length ((units.map (·.1)).flatten ++ tail) = .ok (units.map (·.2), tail) :=
  splitN_concat k.codec (fun d r s h => (PduKind.declLocal k hk).extends d r s h) units hp tail

/-- the factory route (`PduFactory.from_raw`, C12): a packed PDU of any kind the factory model
    covers, followed by further octets, is dispatched to the same PDU or refused with a documented
    error -/
theorem C09_factory_trailing (p : Factory.AnyPdu) (wf : C12.WFPdu p) (rest : Bytes) :
    Factory.fromRaw (C12.Spec.octets p ++ rest) = Factory.fromRaw (C12.Spec.octets p) ∨
    ∃ e, Factory.fromRaw (C12.Spec.octets p ++ rest) = .error e ∧ e.documented = true :=
  C12.C12_dispatch_trailing p wf rest

private theorem paramsEnd_eq (fd : FileDirective.FileDirective) :
    fd.paramsEnd = fd.packetLen - (if fd.header.conf.crcFlag = 1 then 2 else 0) := by
  unfold FileDirective.FileDirective.paramsEnd; split <;> simp

/-- **no fold, ACK**: the decoded PDU is the value of the parameter parser (which never sees the
    buffer) on the directive base and the first `packet_len − crc` octets -/
theorem C09_ack_no_fold (d : Bytes) (a : Ack.Ack) (hu : Ack.Ack.unpack d = .ok a) :
    a.fd.paramsEnd = a.packetLen - (if a.fd.header.conf.crcFlag = 1 then 2 else 0) ∧
    Ack.parse (a.fd, d.take a.fd.paramsEnd) = .ok a :=
  ⟨paramsEnd_eq a.fd, (Ack.unpack_inv d a hu).2.2.1⟩

theorem C09_prompt_no_fold (d : Bytes) (a : Prompt.Prompt) (hu : Prompt.Prompt.unpack d = .ok a) :
    a.fd.paramsEnd = a.packetLen - (if a.fd.header.conf.crcFlag = 1 then 2 else 0) ∧
    Prompt.parse (a.fd, d.take a.fd.paramsEnd) = .ok a :=
  ⟨paramsEnd_eq a.fd, (Prompt.unpack_inv d a hu).2.2.1⟩

theorem C09_keep_alive_no_fold (d : Bytes) (a : KeepAlive.KeepAlive) (hu : KeepAlive.KeepAlive.unpack d = .ok a) :
    a.fd.paramsEnd = a.packetLen - (if a.fd.header.conf.crcFlag = 1 then 2 else 0) ∧
    KeepAlive.parse (a.fd, d.take a.fd.paramsEnd) = .ok a :=
  ⟨paramsEnd_eq a.fd, (KeepAlive.unpack_inv d a hu).2.2.1⟩

/-- **no fold, NAK**: scope and every segment request come from the declared PDU minus its CRC
    trailer (the parser's first argument only serves the longer-than-declared refusal) -/
theorem C09_nak_no_fold (d : Bytes) (k : Nak.Nak) (hu : Nak.Nak.unpack d = .ok k) :
    k.fd.paramsEnd = k.packetLen - (if k.fd.header.conf.crcFlag = 1 then 2 else 0) ∧
    Nak.parse k.packetLen (k.fd, d.take k.fd.paramsEnd) = .ok k := by
  obtain ⟨_, hf, hl, _⟩ := Nak.unpack_inv d k hu
  rw [hl] at hf
  exact ⟨paramsEnd_eq k.fd, hf⟩

/-- **no fold, Metadata**: file size, names and every option TLV -/
theorem C09_metadata_no_fold (d : Bytes) (a : Metadata.Metadata) (hu : Metadata.Metadata.unpack d = .ok a) :
    a.fd.paramsEnd = a.packetLen - (if a.fd.header.conf.crcFlag = 1 then 2 else 0) ∧
    Metadata.parse (a.fd, d.take a.fd.paramsEnd) = .ok a := by
  obtain ⟨p, hp, hf, _⟩ := Metadata.unpack_inv d a hu
  have : p = d.take a.fd.paramsEnd := ((FileDirective.prelude_ok_iff d a.fd p).mp hp).2.2.2.2
  rw [this] at hf
  exact ⟨paramsEnd_eq a.fd, hf⟩

/-- **no fold, EOF**: with `fd` the directive base the header declares (its `packet_len` is the
    declared length), condition code, checksum, file size and fault location are the parser's value
    on `fd` and the first `declared − crc` octets -/
theorem C09_eof_no_fold (d : Bytes) (a : Eof.Eof) (hu : Eof.Eof.unpack d = .ok a) :
    ∃ fd : FileDirective.FileDirective, fd.packetLen = CfdpCrc.cfdpDeclaredLen d ∧
      fd.paramsEnd = fd.packetLen - (if fd.header.conf.crcFlag = 1 then 2 else 0) ∧
      Eof.parse (fd, d.take fd.paramsEnd) = .ok a := by
  obtain ⟨fd, p, hp, hf, _⟩ := Eof.unpack_inv d a hu
  have : p = d.take fd.paramsEnd := ((FileDirective.prelude_ok_iff d fd p).mp hp).2.2.2.2
  rw [this] at hf
  exact ⟨fd, prelude_declared hp, paramsEnd_eq fd, hf⟩

/-- **no fold, Finished**: condition code, delivery code, file status, every filestore response and
    the fault location -/
theorem C09_finished_no_fold (d : Bytes) (a : Finished.Finished) (hu : Finished.Finished.unpack d = .ok a) :
    ∃ fd : FileDirective.FileDirective, fd.packetLen = CfdpCrc.cfdpDeclaredLen d ∧
      fd.paramsEnd = fd.packetLen - (if fd.header.conf.crcFlag = 1 then 2 else 0) ∧
      Finished.parse (fd, d.take fd.paramsEnd) = .ok a := by
  obtain ⟨fd, p, hp, hf, _⟩ := Finished.unpack_inv d a hu
  have : p = d.take fd.paramsEnd := ((FileDirective.prelude_ok_iff d fd p).mp hp).2.2.2.2
  rw [this] at hf
  exact ⟨fd, prelude_declared hp, paramsEnd_eq fd, hf⟩

/-- **no fold, File Data**: header, metadata, offset and file data, laid out, ARE the first
    `packet_len − crc` octets of the buffer — not one octet of the trailer or of what follows -/
theorem C09_file_data_no_fold (d : Bytes) (x : FileData.Pdu) (hu : FileData.Pdu.unpack d = .ok x) :
    C07.Spec.body x = d.take (x.packetLen - FileData.crcLen x.header) :=
  C07.C07_no_fold d x hu

-- non-vacuity of the PDU half (octets produced by the model's own `pack`): an ACK of an EOF PDU
-- without CRC (10 octets) and an ACK of a Finished PDU with CRC (12 octets) are accepted and report
-- exactly their own length; followed by two more octets they decode to the same PDU
example : (Ack.Ack.unpack [0x28, 0x00, 0x03, 0x00, 0x01, 0x02, 0x03, 0x06, 0x40, 0x21]).toOption.map
    (fun a => (a.packetLen, a.ackedCode, a.cond, a.status)) = some (10, 4, 2, 1) := by decide
example : (Ack.Ack.unpack [0x22, 0x00, 0x05, 0x00, 0x01, 0x02, 0x03, 0x06, 0x51, 0x02, 0x7B, 0x93]).toOption.map
    (fun a => (a.packetLen, a.fd.paramsEnd, a.ackedCode, a.status)) = some (12, 10, 5, 2) := by decide +kernel
example : Ack.Ack.unpack ([0x28, 0x00, 0x03, 0x00, 0x01, 0x02, 0x03, 0x06, 0x40, 0x21] ++ [0xAA, 0xBB]) =
    Ack.Ack.unpack [0x28, 0x00, 0x03, 0x00, 0x01, 0x02, 0x03, 0x06, 0x40, 0x21] := by decide

end SpVerif.Props.C09
