import SpVerif.Model.MsgToUser
import SpVerif.Proofs.Lv
import SpVerif.Proofs.Tlv
import SpVerif.Proofs.ByteField
namespace SpVerif.Props.C18
open SpVerif SpVerif.Lv SpVerif.Tlv SpVerif.ByteField SpVerif.MsgToUser

theorem C18_not_reserved (m : MessageToUserTlv)
    (h : ¬ (5 ≤ m.tlv.value.length ∧ m.tlv.value.take 4 = cfdpMarker)) :
    m.isReservedCfdpMessage = false ∧ toReservedMsgTlv m = .ok none := by
  have h1 : m.isReservedCfdpMessage = false := by
    unfold MessageToUserTlv.isReservedCfdpMessage
    by_cases h5 : 5 ≤ m.tlv.value.length
    · have : ¬ m.tlv.value.take 4 = cfdpMarker := fun e => h ⟨h5, e⟩
      simp [slice, cfdpMarker] at this ⊢
      intro _; exact this
    · simp; intro h'; omega
  refine ⟨h1, ?_⟩
  simp [toReservedMsgTlv, h1, pure, Except.pure]

end SpVerif.Props.C18
