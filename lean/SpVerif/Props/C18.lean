import SpVerif.Proofs.MsgToUser
/-!
# C18 — reserved CFDP messages (proxy, directory, originating ID) round-trip via message-to-user TLVs

Property theorems only. `Spec.*` is the layout of CCSDS 727.0-B-5 §6.1–6.3 as closed-form octet lists:
a reserved CFDP message is a message-to-user TLV (type 2) whose value is the four ASCII octets
`"cfdp"`, one message-type octet and the fields of that message type:

* proxy put request (0x00): LV destination entity ID, LV source file name, LV destination file name;
* proxy transmission mode (0x04): 7 spare bits, transmission mode;
* proxy put response (0x07): condition code (4 bits), spare (1), delivery code (1), file status (2);
* proxy put cancel (0x09): no fields;  proxy closure request (0x0B): 7 spare bits, closure requested;
* originating transaction ID (0x0A): spare (1), length of entity ID − 1 (3), spare (1), length of
  sequence number − 1 (3), source entity ID, transaction sequence number (big-endian);
* directory listing request (0x10): LV directory name, LV directory file name;
* directory listing response (0x11): listing response code (1 bit), 7 spare bits, the two LVs;
* listing options (0x15, not in the standard — the library's own): 6 spare bits, recursive, all.

Names are octet strings (the library's API takes `CfdpLv` objects; `CfdpLv.from_str` is
`str.encode()`), entity IDs / sequence numbers are byte-field objects (width, value, octets).

Every per-kind theorem has the same shape, for ALL parameter values of an explicit decidable domain
`WF…` and ALL octet strings `rest` following the TLV: the builder succeeds with a message `r` that
`PacksTo` the Spec octets; the receiver's path on those octets (`ReceivedAs`: `MessageToUserTlv.unpack`
accepts, `is_reserved_cfdp_message` answers `True`, `to_reserved_msg_tlv` returns `r`) is followed;
`classify r` is the right classification; the getter of the kind returns exactly the original
parameters (widths included: the decoded byte-field objects are *equal* to the originals).
`C18_wrong_kind` gives `None` (never an error) for every getter of another kind.
-/
namespace SpVerif.Props.C18
open SpVerif SpVerif.Lv SpVerif.Tlv SpVerif.ByteField SpVerif.MsgToUser

/-! ## what the standard prescribes -/

/-- LV: length octet, value -/
def Spec.lv (v : Bytes) : Bytes := u8 v.length :: v
/-- a reserved CFDP message: TLV type 2, TLV length, `"cfdp"`, message type, fields -/
def Spec.reserved (msgType : Nat) (fields : Bytes) : Bytes :=
  [2, u8 (5 + fields.length), 0x63, 0x66, 0x64, 0x70, u8 msgType] ++ fields
/-- an entity ID / sequence number on the wire: big-endian in exactly its width -/
def Spec.idOctets (f : Field) : Bytes := beBytes f.width f.value
def Spec.putRequest (p : ProxyPutRequestParams) : Bytes :=
  Spec.reserved 0x00 (Spec.lv (Spec.idOctets p.destEntityId) ++ Spec.lv p.sourceFileName.value ++
    Spec.lv p.destFileName.value)
def Spec.transmissionMode (mode : Nat) : Bytes := Spec.reserved 0x04 [u8 mode]
def Spec.putResponse (cc dc fs : Nat) : Bytes := Spec.reserved 0x07 [u8 (cc * 16 + dc * 4 + fs)]
def Spec.putCancel : Bytes := Spec.reserved 0x09 []
def Spec.closureRequest (closure : Nat) : Bytes := Spec.reserved 0x0B [u8 closure]
def Spec.originatingId (tid : TransactionId) : Bytes :=
  Spec.reserved 0x0A (u8 ((tid.sourceId.width - 1) * 16 + (tid.seqNum.width - 1)) ::
    (Spec.idOctets tid.sourceId ++ Spec.idOctets tid.seqNum))
def Spec.listingRequest (p : DirectoryParams) : Bytes :=
  Spec.reserved 0x10 (Spec.lv p.dirPath.value ++ Spec.lv p.dirFileName.value)
def Spec.listingResponse (success : Bool) (p : DirectoryParams) : Bytes :=
  Spec.reserved 0x11 (u8 (if success then 128 else 0) :: (Spec.lv p.dirPath.value ++ Spec.lv p.dirFileName.value))
def Spec.listingOptions (o : DirListingOptions) : Bytes := Spec.reserved 0x15 [u8 (o.recursive * 2 + o.all)]

/-- classification of a reserved message by its type octet -/
structure Kind where
  msgType : Nat
  proxy : Bool
  directory : Bool
  originatingId : Bool
  proxyType : Option Nat
  directoryType : Option Nat
deriving DecidableEq, Repr

/-- proxy operations: 0x00–0x09 and 0x0B; originating transaction ID: 0x0A; directory operations:
    0x10, 0x11 (and the library's 0x15) -/
def Spec.kind (t : Nat) : Kind :=
  let px := decide (t ≤ 9 ∨ t = 11)
  let dr := decide (t = 16 ∨ t = 17 ∨ t = 21)
  ⟨t, px, dr, decide (t = 10), if px then some t else none, if dr then some t else none⟩

/-! ## observations -/

/-- all classification methods of a reserved message -/
def classify (r : ReservedCfdpMessage) : Py Kind := do
  let t ← r.msgType
  let p ← r.isCfdpProxyOperation
  let d ← r.isDirectoryOperation
  let o ← r.isOriginatingTransactionId
  let pt ← r.getCfdpProxyMessageType
  let dt ← r.getDirectoryOperationType
  pure ⟨t, p, d, o, pt, dt⟩

/-- `r.pack()` is exactly `octets` and `r.packet_len` their number -/
def PacksTo (r : ReservedCfdpMessage) (octets : Bytes) : Prop :=
  r.pack = .ok octets ∧ r.packetLen = octets.length

/-- the receiver's path on `raw`: `MessageToUserTlv.unpack` accepts, `is_reserved_cfdp_message()`
    answers `True`, `to_reserved_msg_tlv()` returns `r` -/
def ReceivedAs (raw : Bytes) (r : ReservedCfdpMessage) : Prop :=
  ∃ mu, MessageToUserTlv.unpack raw = .ok mu ∧ mu.isReservedCfdpMessage = true ∧
    toReservedMsgTlv mu = .ok (some r)

/-! ## domains -/

/-- an entity ID / sequence number as the constructors of `UnsignedByteField` build it:
    width 1, 2, 4 or 8, value in range, octets = big-endian encoding -/
def WFId (f : Field) : Prop :=
  (f.width = 1 ∨ f.width = 2 ∨ f.width = 4 ∨ f.width = 8) ∧ f.value < 256 ^ f.width ∧
    f.bytes = beBytes f.width f.value
instance (f : Field) : Decidable (WFId f) := by unfold WFId; infer_instance

/-- proxy put request: the three LVs fit into the 255-octet TLV value after `"cfdp"` and the type -/
def WFPutRequest (p : ProxyPutRequestParams) : Prop :=
  WFId p.destEntityId ∧
    3 + p.destEntityId.width + p.sourceFileName.value.length + p.destFileName.value.length ≤ 250
instance (p : ProxyPutRequestParams) : Decidable (WFPutRequest p) := by unfold WFPutRequest; infer_instance

def WFTransactionId (tid : TransactionId) : Prop := WFId tid.sourceId ∧ WFId tid.seqNum
instance (t : TransactionId) : Decidable (WFTransactionId t) := by unfold WFTransactionId; infer_instance

def WFListingRequest (p : DirectoryParams) : Prop := 2 + p.dirPath.value.length + p.dirFileName.value.length ≤ 250
instance (p : DirectoryParams) : Decidable (WFListingRequest p) := by unfold WFListingRequest; infer_instance
def WFListingResponse (p : DirectoryParams) : Prop := 3 + p.dirPath.value.length + p.dirFileName.value.length ≤ 250
instance (p : DirectoryParams) : Decidable (WFListingResponse p) := by unfold WFListingResponse; infer_instance

/-- every non-negative member of `ConditionCode`, both delivery codes, all four file statuses -/
def WFPutResponse (cc dc fs : Nat) : Prop := cc ∈ conditionCodes ∧ dc < 2 ∧ fs < 4
instance (cc dc fs : Nat) : Decidable (WFPutResponse cc dc fs) := by unfold WFPutResponse; infer_instance

def WFListingOptions (o : DirListingOptions) : Prop := o.recursive < 2 ∧ o.all < 2
instance (o : DirListingOptions) : Decidable (WFListingOptions o) := by unfold WFListingOptions; infer_instance

-- non-vacuity: concrete non-trivial members of each domain (every ID width, non-ASCII and long names)
example : WFId ⟨1, 255, [255]⟩ ∧ WFId ⟨2, 513, [2, 1]⟩ ∧ WFId ⟨4, 0xDEADBEEF, [0xDE, 0xAD, 0xBE, 0xEF]⟩ ∧
    WFId ⟨8, 2 ^ 64 - 1, List.replicate 8 255⟩ ∧ ¬ WFId ⟨3, 1, [0, 0, 1]⟩ ∧ ¬ WFId ⟨0, 0, []⟩ ∧
    ¬ WFId ⟨2, 1, [1, 0]⟩ := by decide +kernel
example : WFPutRequest ⟨⟨2, 513, [2, 1]⟩, ⟨[0x61, 0xC3, 0xA4, 0x2E, 0x74]⟩, ⟨[]⟩⟩ := by decide
example : WFPutRequest ⟨⟨8, 7, [0, 0, 0, 0, 0, 0, 0, 7]⟩, ⟨List.replicate 200 0x61⟩, ⟨List.replicate 39 0xFF⟩⟩ ∧
    ¬ WFPutRequest ⟨⟨8, 7, [0, 0, 0, 0, 0, 0, 0, 7]⟩, ⟨List.replicate 200 0x61⟩, ⟨List.replicate 40 0xFF⟩⟩ := by
  decide +kernel
example : WFTransactionId ⟨⟨8, 2 ^ 64 - 1, List.replicate 8 255⟩, ⟨1, 9, [9]⟩⟩ := by decide +kernel
example : WFListingRequest ⟨⟨List.replicate 248 0x2F⟩, ⟨[]⟩⟩ ∧ ¬ WFListingRequest ⟨⟨List.replicate 248 0x2F⟩, ⟨[0]⟩⟩ ∧
    WFListingResponse ⟨⟨[0xE2, 0x82, 0xAC]⟩, ⟨List.replicate 244 0x78⟩⟩ := by decide +kernel
example : WFPutResponse 15 1 3 ∧ ¬ WFPutResponse 9 0 0 ∧ WFListingOptions ⟨1, 1⟩ := by decide

/-! ## private glue between `Spec`, the domains and the lemmas of `Proofs/MsgToUser.lean` -/

private theorem wfId_iff (f : Field) : WFId f ↔ ByteField.Inv f ∧ W f.width := by
  unfold WFId ByteField.Inv W W0
  constructor
  · rintro ⟨h1, h2, h3⟩; exact ⟨⟨by omega, h2, h3⟩, h1⟩
  · rintro ⟨⟨_, h2, h3⟩, h1⟩; exact ⟨h1, h2, h3⟩

private theorem wfId_len {f : Field} (h : WFId f) : f.bytes.length = f.width := by
  rw [h.2.2]; simp

private theorem spec_reserved (t : Nat) (v : Bytes) : Spec.reserved t v = packedRsv (u8 t) v := by
  simp [Spec.reserved, packedRsv, shape, cfdpMarker, tMsgToUser]

private theorem spec_lv (v : Bytes) : Spec.lv v = lvOf v := rfl

private theorem spec_id {f : Field} (h : WFId f) : Spec.idOctets f = f.bytes := h.2.2.symm

private theorem classify_rsv (ty : Nat) (t : UInt8) (v : Bytes) :
    classify (rsv ty t v) = .ok (Spec.kind t.toNat) := by
  have hp : ∀ n : Nat, n ∈ proxyTypes ↔ (n ≤ 9 ∨ n = 11) := by
    intro n; simp only [proxyTypes, List.mem_cons, List.not_mem_nil, or_false]; omega
  have hd : ∀ n : Nat, n ∈ dirOpTypes ↔ (n = 16 ∨ n = 17 ∨ n = 21) := by
    intro n; simp only [dirOpTypes, List.mem_cons, List.not_mem_nil, or_false]
  simp only [classify, msgType_rsv, isProxy_rsv, isDir_rsv, isOrig_rsv, proxyType_rsv, dirType_rsv, bind,
    Except.bind, pure, Except.pure]
  simp [Spec.kind, hp, hd, origIdType]
  exact decide_eq_decide.2 Iff.rfl

/-- pack → decode → recognise → convert, for any message type and any fields that fit -/
private theorem path (t : Nat) (v rest : Bytes) (hv : v.length ≤ 250) :
    PacksTo (rsv tMsgToUser (u8 t) v) (Spec.reserved t v) ∧
    ReceivedAs (Spec.reserved t v ++ rest) (rsv tMsgToUser (u8 t) v) := by
  rw [spec_reserved]
  refine ⟨⟨pack_rsv _ _ hv, by rw [packetLen_rsv, packedRsv_length]⟩, ?_⟩
  exact ⟨_, unpack_packedRsv _ _ rest hv, isReserved_shape _ _ _, by rw [toReserved_shape, if_pos hv]⟩

private theorem kind_of (t : Nat) (ht : t < 256) : Spec.kind (u8 t).toNat = Spec.kind t := by
  have : (u8 t).toNat = t := by simp; omega
  rw [this]

/-! ## the nine message kinds -/

/-- **proxy put request** (0x00): for every destination entity ID of width 1, 2, 4 or 8 and all
    source / destination names that fit -/
theorem C18_put_request (p : ProxyPutRequestParams) (wf : WFPutRequest p) (rest : Bytes) :
    ∃ r, ProxyPutRequest.new p = .ok r ∧ PacksTo r (Spec.putRequest p) ∧
      ReceivedAs (Spec.putRequest p ++ rest) r ∧ classify r = .ok (Spec.kind 0) ∧
      r.getProxyPutRequestParams = .ok (some p) := by
  obtain ⟨hid, hlen⟩ := wf
  obtain ⟨hI, hW⟩ := (wfId_iff _).1 hid
  have l1 := wfId_len hid
  have hv : (putReqValue p).length ≤ 250 := by rw [putReqValue_length, l1]; exact hlen
  have h1 : p.destEntityId.bytes.length ≤ 255 := by rw [l1]; omega
  have h2 : p.sourceFileName.value.length ≤ 255 := by omega
  have h3 : p.destFileName.value.length ≤ 255 := by omega
  have es : Spec.putRequest p = Spec.reserved pPutRequest (putReqValue p) := by
    simp [Spec.putRequest, putReqValue, spec_lv, spec_id hid, pPutRequest]
  refine ⟨rsv tMsgToUser (u8 pPutRequest) (putReqValue p), ?_, ?_, ?_, ?_, ?_⟩
  · rw [ProxyPutRequest.new_eq, if_pos ⟨h1, h2, h3, hv⟩]
  · rw [es]; exact (path _ _ rest hv).1
  · rw [es]; exact (path _ _ rest hv).2
  · rw [classify_rsv]; rfl
  · exact getPutReq_built _ p hI hW h2 h3

/-- **proxy put cancel** (0x09) -/
theorem C18_put_cancel (rest : Bytes) :
    ∃ r, ProxyCancelRequest.new = .ok r ∧ PacksTo r Spec.putCancel ∧ ReceivedAs (Spec.putCancel ++ rest) r ∧
      classify r = .ok (Spec.kind 9) := by
  refine ⟨rsv tMsgToUser (u8 pPutCancel) [], ProxyCancelRequest.new_eq, ?_, ?_, ?_⟩
  · exact (path pPutCancel [] rest (by simp)).1
  · exact (path pPutCancel [] rest (by simp)).2
  · rw [classify_rsv]; rfl

/-- **proxy closure request** (0x0B): both values -/
theorem C18_closure_request (c : Nat) (wf : c < 2) (rest : Bytes) :
    ∃ r, ProxyClosureRequest.new c = .ok r ∧ PacksTo r (Spec.closureRequest c) ∧
      ReceivedAs (Spec.closureRequest c ++ rest) r ∧ classify r = .ok (Spec.kind 11) ∧
      r.getProxyClosureRequested = .ok (some c) := by
  refine ⟨rsv tMsgToUser (u8 pClosureRequest) [u8 c], ?_, ?_, ?_, ?_, ?_⟩
  · rw [ProxyClosureRequest.new_eq, if_pos (by omega)]
  · exact (path pClosureRequest [u8 c] rest (by simp)).1
  · exact (path pClosureRequest [u8 c] rest (by simp)).2
  · rw [classify_rsv]; rfl
  · exact getClosure_built _ c wf

/-- **proxy transmission mode** (0x04): acknowledged (0) and unacknowledged (1) -/
theorem C18_transmission_mode (mode : Nat) (wf : mode < 2) (rest : Bytes) :
    ∃ r, ProxyTransmissionMode.new mode = .ok r ∧ PacksTo r (Spec.transmissionMode mode) ∧
      ReceivedAs (Spec.transmissionMode mode ++ rest) r ∧ classify r = .ok (Spec.kind 4) ∧
      r.getProxyTransmissionMode = .ok (some mode) := by
  refine ⟨rsv tMsgToUser (u8 pTransmissionMode) [u8 mode], ?_, ?_, ?_, ?_, ?_⟩
  · rw [ProxyTransmissionMode.new_eq, if_pos (by omega)]
  · exact (path pTransmissionMode [u8 mode] rest (by simp)).1
  · exact (path pTransmissionMode [u8 mode] rest (by simp)).2
  · rw [classify_rsv]; rfl
  · exact getTxMode_built _ mode wf

/-- **originating transaction ID** (0x0A): all 16 pairs of widths, every value of either field;
    the decoded fields are the original objects (width, value and octets) -/
theorem C18_originating_id (tid : TransactionId) (wf : WFTransactionId tid) (rest : Bytes) :
    ∃ r, OriginatingTransactionId.new tid = .ok r ∧ PacksTo r (Spec.originatingId tid) ∧
      ReceivedAs (Spec.originatingId tid ++ rest) r ∧ classify r = .ok (Spec.kind 10) ∧
      r.getOriginatingTransactionId = .ok (some tid) := by
  obtain ⟨ws, wq⟩ := wf
  obtain ⟨hI1, hW1⟩ := (wfId_iff _).1 ws
  obtain ⟨hI2, hW2⟩ := (wfId_iff _).1 wq
  have l1 := wfId_len ws
  have l2 := wfId_len wq
  have hv : (origIdValue tid).length ≤ 250 := by
    simp only [origIdValue, List.length_cons, List.length_append, l1, l2]; unfold W at hW1 hW2; omega
  have es : Spec.originatingId tid = Spec.reserved origIdType (origIdValue tid) := by
    simp [Spec.originatingId, origIdValue, spec_id ws, spec_id wq, origIdType]
  refine ⟨rsv tMsgToUser (u8 origIdType) (origIdValue tid), ?_, ?_, ?_, ?_, ?_⟩
  · rw [OriginatingTransactionId.new_eq, if_pos ⟨hW1, hW2, hv⟩]
  · rw [es]; exact (path _ _ rest hv).1
  · rw [es]; exact (path _ _ rest hv).2
  · rw [classify_rsv]; rfl
  · exact getOrig_built _ tid hI1 hI2 hW1 hW2

/-- **directory listing request** (0x10): all directory and file names that fit -/
theorem C18_listing_request (p : DirectoryParams) (wf : WFListingRequest p) (rest : Bytes) :
    ∃ r, DirectoryListingRequest.new p = .ok r ∧ PacksTo r (Spec.listingRequest p) ∧
      ReceivedAs (Spec.listingRequest p ++ rest) r ∧ classify r = .ok (Spec.kind 16) ∧
      r.getDirListingRequestParams = .ok (some p) := by
  have hv : (dirValue p).length ≤ 250 := by rw [dirValue_length]; exact wf
  have h1 : p.dirPath.value.length ≤ 255 := by unfold WFListingRequest at wf; omega
  have h2 : p.dirFileName.value.length ≤ 255 := by unfold WFListingRequest at wf; omega
  have es : Spec.listingRequest p = Spec.reserved dListingRequest (dirValue p) := by
    simp [Spec.listingRequest, dirValue, spec_lv, dListingRequest]
  refine ⟨rsv tMsgToUser (u8 dListingRequest) (dirValue p), ?_, ?_, ?_, ?_, ?_⟩
  · rw [DirectoryListingRequest.new_eq, if_pos ⟨h1, h2, hv⟩]
  · rw [es]; exact (path _ _ rest hv).1
  · rw [es]; exact (path _ _ rest hv).2
  · rw [classify_rsv]; rfl
  · exact getDirReq_built _ p h1 h2

/-- **directory listing response** (0x11): success and failure, all names that fit -/
theorem C18_listing_response (s : Bool) (p : DirectoryParams) (wf : WFListingResponse p) (rest : Bytes) :
    ∃ r, DirectoryListingResponse.new s p = .ok r ∧ PacksTo r (Spec.listingResponse s p) ∧
      ReceivedAs (Spec.listingResponse s p ++ rest) r ∧ classify r = .ok (Spec.kind 17) ∧
      r.getDirListingResponseParams = .ok (some (s, p)) := by
  have hv : (dirRespValue s p).length ≤ 250 := by
    simp only [dirRespValue, List.length_cons, dirValue_length]; unfold WFListingResponse at wf; omega
  have h1 : p.dirPath.value.length ≤ 255 := by unfold WFListingResponse at wf; omega
  have h2 : p.dirFileName.value.length ≤ 255 := by unfold WFListingResponse at wf; omega
  have es : Spec.listingResponse s p = Spec.reserved dListingResponse (dirRespValue s p) := by
    simp [Spec.listingResponse, dirRespValue, dirValue, spec_lv, dListingResponse]
  refine ⟨rsv tMsgToUser (u8 dListingResponse) (dirRespValue s p), ?_, ?_, ?_, ?_, ?_⟩
  · rw [DirectoryListingResponse.new_eq, if_pos ⟨h1, h2, hv⟩]
  · rw [es]; exact (path _ _ rest hv).1
  · rw [es]; exact (path _ _ rest hv).2
  · rw [classify_rsv]; rfl
  · exact getDirResp_built _ s p h1 h2

/-- **listing options** (0x15): all four (recursive, all) pairs -/
theorem C18_listing_options (o : DirListingOptions) (wf : WFListingOptions o) (rest : Bytes) :
    ∃ r, DirectoryListingParameters.new o = .ok r ∧ PacksTo r (Spec.listingOptions o) ∧
      ReceivedAs (Spec.listingOptions o ++ rest) r ∧ classify r = .ok (Spec.kind 21) ∧
      r.getDirListingOptions = .ok (some o) := by
  obtain ⟨hr, ha⟩ := wf
  refine ⟨rsv tMsgToUser (u8 dCustomListingParameters) [u8 (o.recursive * 2 + o.all)], ?_, ?_, ?_, ?_, ?_⟩
  · rw [DirectoryListingParameters.new_eq o ha, if_pos (by omega)]
  · exact (path dCustomListingParameters _ rest (by simp)).1
  · exact (path dCustomListingParameters _ rest (by simp)).2
  · rw [classify_rsv]; rfl
  · exact getDirOpts_built _ o hr ha

/-- **proxy put response** (0x07): every condition code × delivery code × file status, built
    directly or from the parameters of a Finished PDU -/
theorem C18_put_response (cc dc fs : Nat) (wf : WFPutResponse cc dc fs) (rest : Bytes) :
    ∃ r, ProxyPutResponse.new ⟨(cc : Int), dc, fs⟩ = .ok r ∧
      ProxyPutResponse.new (ProxyPutResponseParams.fromFinishedParams (cc : Int) dc fs) = .ok r ∧
      PacksTo r (Spec.putResponse cc dc fs) ∧ ReceivedAs (Spec.putResponse cc dc fs ++ rest) r ∧
      classify r = .ok (Spec.kind 7) ∧
      r.getProxyPutResponseParams = .ok (some ⟨(cc : Int), dc, fs⟩) := by
  obtain ⟨hcc, hdc, hfs⟩ := wf
  have hc : cc < 16 := by
    simp only [conditionCodes, List.mem_cons, List.not_mem_nil, or_false] at hcc; omega
  have hn : ProxyPutResponse.new ⟨(cc : Int), dc, fs⟩ =
      .ok (rsv tMsgToUser (u8 pPutResponse) [u8 (cc * 16 + dc * 4 + fs)]) := by
    rw [ProxyPutResponse.new_nat cc dc fs (by omega) hfs, if_pos (by omega)]
  refine ⟨_, hn, hn, ?_, ?_, ?_, ?_⟩
  · exact (path pPutResponse _ rest (by simp)).1
  · exact (path pPutResponse _ rest (by simp)).2
  · rw [classify_rsv]; rfl
  · exact getPutResp_built _ cc dc fs hcc hdc hfs

/-- `NO_CONDITION_FIELD` (−1) cannot be sent -/
theorem C18_put_response_no_condition_field (cc : Int) (dc fs : Nat) (h : cc < 0) :
    ProxyPutResponse.new ⟨cc, dc, fs⟩ = .error .value :=
  ProxyPutResponse.new_neg _ h

/-! ## the reserved-message test -/

/-- `is_reserved_cfdp_message()` is a total Boolean function (it has no error case at all) and
    answers `True` exactly for a value of at least five octets whose first four are `"cfdp"` -/
theorem C18_reserved_iff (m : MessageToUserTlv) :
    m.isReservedCfdpMessage = true ↔
      5 ≤ m.tlv.value.length ∧ m.tlv.value.take 4 = [0x63, 0x66, 0x64, 0x70] :=
  isReserved_iff m

/-- **every other message-to-user content is not reserved**: for EVERY octet string (any length,
    any octets — UTF-8 or not), `False`, and the conversion returns `None`; never an error -/
theorem C18_not_reserved (m : MessageToUserTlv)
    (h : ¬ (5 ≤ m.tlv.value.length ∧ m.tlv.value.take 4 = [0x63, 0x66, 0x64, 0x70])) :
    m.isReservedCfdpMessage = false ∧ toReservedMsgTlv m = .ok none := by
  have h1 : m.isReservedCfdpMessage = false := by
    cases hr : m.isReservedCfdpMessage with
    | false => rfl
    | true => exact absurd ((isReserved_iff m).1 hr) h
  exact ⟨h1, toReserved_not m h1⟩

/-- the same through the packed TLV: decoding any TLV whose value is not reserved and asking gives
    `False` / `None` -/
theorem C18_not_reserved_via_tlv (v rest : Bytes) (hv : v.length ≤ 255)
    (h : ¬ (5 ≤ v.length ∧ v.take 4 = [0x63, 0x66, 0x64, 0x70])) :
    ∃ mu, MessageToUserTlv.unpack (u8 2 :: u8 v.length :: v ++ rest) = .ok mu ∧ mu.value = v ∧
      mu.isReservedCfdpMessage = false ∧ toReservedMsgTlv mu = .ok none := by
  have hu : MessageToUserTlv.unpack (u8 2 :: u8 v.length :: v ++ rest) = .ok ⟨⟨2, v⟩⟩ := by
    have := CfdpTlv.unpack_pack_append tMsgToUser v rest (by decide) hv
    rw [MessageToUserTlv.unpack_bind]
    simp only [List.cons_append] at this ⊢
    simp only [tMsgToUser] at this
    simp only [this, bind, Except.bind, MessageToUserTlv.fromTlv_eq, tMsgToUser, ↓reduceIte]
  obtain ⟨a, b⟩ := C18_not_reserved ⟨⟨2, v⟩⟩ h
  exact ⟨_, hu, rfl, a, b⟩

/-- going through the generic TLV and `TlvHolder.to_msg_to_user()` is the same function -/
theorem C18_holder_route (d : Bytes) :
    (CfdpTlv.unpack d >>= fun t => holderToMsgToUser (.generic t)) = MessageToUserTlv.unpack d := rfl

/-- a decoded message-to-user TLV always converts: `to_reserved_msg_tlv()` never fails on it -/
theorem C18_conversion_total (d : Bytes) (m : MessageToUserTlv) (h : MessageToUserTlv.unpack d = .ok m) :
    ∃ x, toReservedMsgTlv m = .ok x :=
  toReserved_of_unpack d m h

/-! ## classification and getters on EVERY reserved message (also malformed ones) -/

/-- **classification for all 256 type octets**: whatever `to_reserved_msg_tlv()` returns has the
    value of the TLV, `"cfdp"` + type octet + fields, and is classified by the type octet alone —
    never an error -/
theorem C18_classification (m : MessageToUserTlv) (r : ReservedCfdpMessage)
    (h : toReservedMsgTlv m = .ok (some r)) :
    ∃ (t : UInt8) (fields : Bytes), m.tlv.value = [0x63, 0x66, 0x64, 0x70] ++ t :: fields ∧
      r.value = m.tlv.value ∧ r.tlvType = 2 ∧ classify r = .ok (Spec.kind t.toNat) := by
  obtain ⟨t, v, e, hr⟩ := toReserved_some m r h
  subst hr
  exact ⟨t, v, e, e.symm, rfl, classify_rsv _ _ _⟩

/-- **a getter of another kind answers `None`**, never an error, whatever the fields are -/
theorem C18_wrong_kind (m : MessageToUserTlv) (r : ReservedCfdpMessage)
    (h : toReservedMsgTlv m = .ok (some r)) (t : Nat) (ht : r.msgType = .ok t) :
    (t ≠ 0 → r.getProxyPutRequestParams = .ok none) ∧
    (t ≠ 7 → r.getProxyPutResponseParams = .ok none) ∧
    (t ≠ 11 → r.getProxyClosureRequested = .ok none) ∧
    (t ≠ 4 → r.getProxyTransmissionMode = .ok none) ∧
    (t ≠ 10 → r.getOriginatingTransactionId = .ok none) ∧
    (t ≠ 16 → r.getDirListingRequestParams = .ok none) ∧
    (t ≠ 17 → r.getDirListingResponseParams = .ok none) ∧
    (t ≠ 21 → r.getDirListingOptions = .ok none) := by
  obtain ⟨t', v, _, hr⟩ := toReserved_some m r h
  subst hr
  rw [msgType_rsv] at ht
  cases ht
  refine ⟨?_, ?_, ?_, ?_, ?_, ?_, ?_, ?_⟩ <;> intro hne
  · rw [getPutReq_rsv, if_pos (show t'.toNat ≠ pPutRequest from hne)]
  · rw [getPutResp_rsv, if_pos (show t'.toNat ≠ pPutResponse from hne)]
  · rw [getClosure_rsv, if_pos (show t'.toNat ≠ pClosureRequest from hne)]
  · rw [getTxMode_rsv, if_pos (show t'.toNat ≠ pTransmissionMode from hne)]
  · rw [getOrig_rsv, if_pos (show t'.toNat ≠ origIdType from hne)]
  · rw [getDirReq_rsv, if_pos (show t'.toNat ≠ dListingRequest from hne)]
  · rw [getDirResp_rsv, if_pos (show t'.toNat ≠ dListingResponse from hne)]
  · rw [getDirOpts_rsv, if_pos (show t'.toNat ≠ dCustomListingParameters from hne)]

/-- **malformed reserved messages fail only in the documented way**: on whatever the conversion
    returns (any type octet, any fields: cut short, wrong widths, LV lengths beyond the value),
    the conversion and all eight getters either return or raise `ValueError` — no `IndexError`,
    `struct.error`, `AssertionError` -/
theorem C18_documented (m : MessageToUserTlv) :
    Documented (toReservedMsgTlv m) ∧
    ∀ r, toReservedMsgTlv m = .ok (some r) →
      Documented r.getProxyPutRequestParams ∧ Documented r.getProxyPutResponseParams ∧
      Documented r.getProxyClosureRequested ∧ Documented r.getProxyTransmissionMode ∧
      Documented r.getOriginatingTransactionId ∧ Documented r.getDirListingRequestParams ∧
      Documented r.getDirListingResponseParams ∧ Documented r.getDirListingOptions ∧
      (∃ k, classify r = .ok k) := by
  refine ⟨toReserved_documented m, ?_⟩
  intro r h
  obtain ⟨t, v, _, hr⟩ := toReserved_some m r h
  subst hr
  exact ⟨getPutReq_documented _ _ _, getPutResp_documented _ _ _, getClosure_documented _ _ _,
    getTxMode_documented _ _ _, getOrig_documented _ _ _, getDirReq_documented _ _ _,
    getDirResp_documented _ _ _, getDirOpts_documented _ _ _, _, classify_rsv _ _ _⟩

/-- the six getters that need the parameter octet refuse a bare `"cfdp"` + type with `ValueError` -/
theorem C18_parameter_octet_missing (ty : Nat) :
    (rsv ty 7 []).getProxyPutResponseParams = .error .value ∧
    (rsv ty 11 []).getProxyClosureRequested = .error .value ∧
    (rsv ty 4 []).getProxyTransmissionMode = .error .value ∧
    (rsv ty 10 []).getOriginatingTransactionId = .error .value ∧
    (rsv ty 17 []).getDirListingResponseParams = .error .value ∧
    (rsv ty 21 []).getDirListingOptions = .error .value ∧
    (rsv ty 0 []).getProxyPutRequestParams = .error .value ∧
    (rsv ty 16 []).getDirListingRequestParams = .error .value := by
  refine ⟨?_, ?_, ?_, ?_, ?_, ?_, ?_, ?_⟩
  · rw [getPutResp_rsv]; rfl
  · rw [getClosure_rsv]; rfl
  · rw [getTxMode_rsv]; rfl
  · rw [getOrig_rsv]; rfl
  · rw [getDirResp_rsv]; rfl
  · rw [getDirOpts_rsv]; rfl
  · rw [getPutReq_rsv]; rfl
  · rw [getDirReq_rsv]; rfl

/-! ## refusals, LV index arithmetic, names as text, entity IDs -/

/-- **fields that do not fit the one-octet TLV length are refused** with `ValueError` by the three
    builders with variable-length fields -/
theorem C18_refuse_too_long :
    (∀ p : ProxyPutRequestParams,
      250 < 3 + p.destEntityId.bytes.length + p.sourceFileName.value.length + p.destFileName.value.length →
      ProxyPutRequest.new p = .error .value) ∧
    (∀ p : DirectoryParams, 250 < 2 + p.dirPath.value.length + p.dirFileName.value.length →
      DirectoryListingRequest.new p = .error .value) ∧
    (∀ (s : Bool) (p : DirectoryParams), 250 < 3 + p.dirPath.value.length + p.dirFileName.value.length →
      DirectoryListingResponse.new s p = .error .value) := by
  refine ⟨?_, ?_, ?_⟩
  · intro p h
    rw [ProxyPutRequest.new_eq, if_neg]
    rw [putReqValue_length]; omega
  · intro p h
    rw [DirectoryListingRequest.new_eq, if_neg]
    rw [dirValue_length]; omega
  · intro s p h
    rw [DirectoryListingResponse.new_eq, if_neg]
    simp only [dirRespValue, List.length_cons, dirValue_length]; omega

/-- the originating-ID builder refuses every width other than 1, 2, 4, 8 (also the empty field) -/
theorem C18_originating_id_bad_width (tid : TransactionId)
    (h : ¬ (tid.sourceId.width ∈ [1, 2, 4, 8] ∧ tid.seqNum.width ∈ [1, 2, 4, 8])) :
    OriginatingTransactionId.new tid = .error .value := by
  rw [OriginatingTransactionId.new_eq, if_neg]
  rintro ⟨a, b, _⟩
  exact h ⟨(W_mem _).2 a, (W_mem _).2 b⟩

/-- **index arithmetic over consecutive LVs** (list induction, any number of LVs, any lengths
    0..255): the `k`-th LV starts where the `k` previous ones end — at the sum of their packet
    lengths `value length + 1` — and decodes to the `k`-th value, whatever follows the sequence -/
theorem C18_consecutive_lvs (vs : List Bytes) (rest : Bytes) (k : Nat) (hk : k < vs.length)
    (h : ∀ v ∈ vs, v.length ≤ 255) :
    CfdpLv.unpack ((vs.flatMap Spec.lv ++ rest).drop (((vs.take k).map (fun v => v.length + 1)).sum)) =
      .ok ⟨vs[k]⟩ :=
  unpack_lvs_at vs rest k hk h

/-- names that are text come back as the same text (`*_as_str` = UTF-8 decoding) -/
theorem C18_names_as_str (p : ProxyPutRequestParams) (d : DirectoryParams)
    (h1 : utf8Valid p.sourceFileName.value = true) (h2 : utf8Valid p.destFileName.value = true)
    (h3 : utf8Valid d.dirPath.value = true) (h4 : utf8Valid d.dirFileName.value = true) :
    p.sourceFileAsStr = .ok p.sourceFileName.value ∧ p.destFileAsStr = .ok p.destFileName.value ∧
    d.dirPathAsStr = .ok d.dirPath.value ∧ d.dirFileNameAsStr = .ok d.dirFileName.value :=
  ⟨decodeUtf8_ok h1, decodeUtf8_ok h2, decodeUtf8_ok h3, decodeUtf8_ok h4⟩

/-- the domain `WFId` is exactly what the byte-field constructors return for widths 1, 2, 4, 8:
    every in-range (width, value) pair is a member, and every member is such a constructor result -/
theorem C18_ids (w v : Nat) (hw : w = 1 ∨ w = 2 ∨ w = 4 ∨ w = 8) (hv : v < 256 ^ w) :
    Field.new (v : Int) (w : Int) = .ok ⟨w, v, beBytes w v⟩ ∧ WFId ⟨w, v, beBytes w v⟩ ∧
    ∀ f, WFId f → Field.new (f.value : Int) (f.width : Int) = .ok f := by
  have hw0 : W0 w := by unfold W0; omega
  refine ⟨by rw [ByteField.new_nat hw0, if_pos hv], ⟨hw, hv, rfl⟩, ?_⟩
  intro f hf
  obtain ⟨a, b, c⟩ := hf
  have : W0 f.width := by unfold W0; omega
  rw [ByteField.new_nat this, if_pos b, ← c]

/-- **`TransactionId.__eq__` / `__hash__` are functions of the two VALUES** (source entity ID value,
    sequence number value; the field widths are not compared): two transaction IDs with equal values
    are `==` and hash equal — whatever their widths —, two with a different source-ID value or a
    different sequence-number value are not `==`, and `==` holds exactly when the hashed tuples are
    equal. (For the decoded against the original ID the round-trip theorem gives more: equality of
    the whole objects, widths included.) -/
theorem C18_transaction_id_eq (a b : TransactionId) :
    (a.sourceId.value = b.sourceId.value ∧ a.seqNum.value = b.seqNum.value →
      a.beq b = true ∧ b.beq a = true ∧ a.hashKey = b.hashKey) ∧
    (a.sourceId.value ≠ b.sourceId.value ∨ a.seqNum.value ≠ b.seqNum.value →
      a.beq b = false ∧ b.beq a = false ∧ a.hashKey ≠ b.hashKey) ∧
    (a.beq b = true ↔ a.hashKey = b.hashKey) := by
  refine ⟨fun ⟨h1, h2⟩ => ?_, fun h => ?_, ?_⟩
  · simp [TransactionId.beq, TransactionId.hashKey, h1, h2]
  · simp only [TransactionId.beq, TransactionId.hashKey, Bool.and_eq_false_iff, beq_eq_false_iff_ne, ne_eq,
      Prod.mk.injEq, not_and]
    rcases h with h | h
    · exact ⟨.inl h, .inl (fun e => h e.symm), fun e => absurd e h⟩
    · exact ⟨.inr h, .inr (fun e => h e.symm), fun _ => h⟩
  · simp [TransactionId.beq, TransactionId.hashKey]

-- equal values in different widths are `==`; one differing value is not
example : TransactionId.beq ⟨⟨1, 5, [5]⟩, ⟨2, 7, [0, 7]⟩⟩ ⟨⟨4, 5, [0, 0, 0, 5]⟩, ⟨1, 7, [7]⟩⟩ = true ∧
    TransactionId.beq ⟨⟨1, 5, [5]⟩, ⟨2, 7, [0, 7]⟩⟩ ⟨⟨1, 5, [5]⟩, ⟨2, 8, [0, 8]⟩⟩ = false := by decide

-- the library's second length guard of `get_originating_transaction_id` is too weak (it does not
-- count the six octets before the fields): a value announcing 8 + 8 octets but carrying 8 + 4 is
-- decoded as an (8, 4)-octet pair instead of being refused. Not part of the statement (the decoder
-- stays inside the value and raises nothing); recorded here so that the model is seen to follow the code.
example : (rsv 2 10 (0x77 :: List.replicate 12 1)).getOriginatingTransactionId =
    .ok (some ⟨⟨8, 0x0101010101010101, List.replicate 8 1⟩, ⟨4, 0x01010101, List.replicate 4 1⟩⟩) := by decide +kernel

/-! ## distinct messages of one kind never pack to the same TLV

For every kind with parameters whose round trip is proved above: on the domain of that theorem the
prescribed octets determine the parameters (`Spec.k p = Spec.k q ↔ p = q`), and so do the octets
`pack()` returns for the objects the constructor builds. Each is a corollary of the kind's theorem:
equal octets are received as one message, whose getter returns both parameter values. (Put cancel
has no parameters.) -/

private theorem receivedAs_unique {raw : Bytes} {r r' : ReservedCfdpMessage}
    (h : ReceivedAs raw r) (h' : ReceivedAs raw r') : r = r' := by
  obtain ⟨m, hm, _, hr⟩ := h
  obtain ⟨m', hm', _, hr'⟩ := h'
  rw [hm] at hm'
  cases hm'
  rw [hr] at hr'
  cases hr'
  rfl

/-- injectivity from "built, packs to `spec p`, `spec p` is received as the built object, whose
    getter returns `emb p`" -/
private theorem inj_of {α β : Type} (mk : α → Py ReservedCfdpMessage) (spec : α → Bytes)
    (get : ReservedCfdpMessage → Py (Option β)) (emb : α → β) (hemb : ∀ a b, emb a = emb b → a = b)
    (p q : α)
    (hp : ∃ r, mk p = .ok r ∧ PacksTo r (spec p) ∧ ReceivedAs (spec p ++ []) r ∧ get r = .ok (some (emb p)))
    (hq : ∃ r, mk q = .ok r ∧ PacksTo r (spec q) ∧ ReceivedAs (spec q ++ []) r ∧ get r = .ok (some (emb q))) :
    (spec p = spec q ↔ p = q) ∧
    ∀ r r', mk p = .ok r → mk q = .ok r' → (r.pack = r'.pack ↔ p = q) := by
  obtain ⟨r1, n1, k1, v1, g1⟩ := hp
  obtain ⟨r2, n2, k2, v2, g2⟩ := hq
  have main : spec p = spec q → p = q := by
    intro h
    rw [h] at v1
    have e := receivedAs_unique v1 v2
    rw [e, g2] at g1
    have := Option.some.inj (Except.ok.inj g1)
    exact (hemb _ _ this).symm
  refine ⟨⟨main, fun h => by rw [h]⟩, ?_⟩
  intro r r' hr hr'
  rw [n1] at hr
  rw [n2] at hr'
  cases hr
  cases hr'
  constructor
  · intro h
    rw [k1.1, k2.1] at h
    exact main (Except.ok.inj h)
  · intro h
    subst h
    rw [n1] at n2
    cases n2
    rfl

/-- **proxy put requests** with different parameters never share a TLV -/
theorem C18_put_request_injective (p q : ProxyPutRequestParams) (wp : WFPutRequest p) (wq : WFPutRequest q) :
    (Spec.putRequest p = Spec.putRequest q ↔ p = q) ∧
    ∀ r r', ProxyPutRequest.new p = .ok r → ProxyPutRequest.new q = .ok r' → (r.pack = r'.pack ↔ p = q) := by
  obtain ⟨r1, a1, a2, a3, _, a5⟩ := C18_put_request p wp []
  obtain ⟨r2, b1, b2, b3, _, b5⟩ := C18_put_request q wq []
  exact inj_of ProxyPutRequest.new Spec.putRequest (·.getProxyPutRequestParams) id (fun _ _ h => h) p q
    ⟨r1, a1, a2, a3, a5⟩ ⟨r2, b1, b2, b3, b5⟩

/-- **proxy closure requests** with different values never share a TLV -/
theorem C18_closure_request_injective (c d : Nat) (wc : c < 2) (wd : d < 2) :
    (Spec.closureRequest c = Spec.closureRequest d ↔ c = d) ∧
    ∀ r r', ProxyClosureRequest.new c = .ok r → ProxyClosureRequest.new d = .ok r' → (r.pack = r'.pack ↔ c = d) := by
  obtain ⟨r1, a1, a2, a3, _, a5⟩ := C18_closure_request c wc []
  obtain ⟨r2, b1, b2, b3, _, b5⟩ := C18_closure_request d wd []
  exact inj_of ProxyClosureRequest.new Spec.closureRequest (·.getProxyClosureRequested) id (fun _ _ h => h) c d
    ⟨r1, a1, a2, a3, a5⟩ ⟨r2, b1, b2, b3, b5⟩

/-- **proxy transmission modes** with different values never share a TLV -/
theorem C18_transmission_mode_injective (c d : Nat) (wc : c < 2) (wd : d < 2) :
    (Spec.transmissionMode c = Spec.transmissionMode d ↔ c = d) ∧
    ∀ r r', ProxyTransmissionMode.new c = .ok r → ProxyTransmissionMode.new d = .ok r' →
      (r.pack = r'.pack ↔ c = d) := by
  obtain ⟨r1, a1, a2, a3, _, a5⟩ := C18_transmission_mode c wc []
  obtain ⟨r2, b1, b2, b3, _, b5⟩ := C18_transmission_mode d wd []
  exact inj_of ProxyTransmissionMode.new Spec.transmissionMode (·.getProxyTransmissionMode) id (fun _ _ h => h) c d
    ⟨r1, a1, a2, a3, a5⟩ ⟨r2, b1, b2, b3, b5⟩

/-- **originating transaction IDs** that differ (in a width, a value or the octets of either field)
    never share a TLV — the request identity is faithful on the wire -/
theorem C18_originating_id_injective (s t : TransactionId) (ws : WFTransactionId s) (wt : WFTransactionId t) :
    (Spec.originatingId s = Spec.originatingId t ↔ s = t) ∧
    ∀ r r', OriginatingTransactionId.new s = .ok r → OriginatingTransactionId.new t = .ok r' →
      (r.pack = r'.pack ↔ s = t) := by
  obtain ⟨r1, a1, a2, a3, _, a5⟩ := C18_originating_id s ws []
  obtain ⟨r2, b1, b2, b3, _, b5⟩ := C18_originating_id t wt []
  exact inj_of OriginatingTransactionId.new Spec.originatingId (·.getOriginatingTransactionId) id (fun _ _ h => h) s t
    ⟨r1, a1, a2, a3, a5⟩ ⟨r2, b1, b2, b3, b5⟩

/-- **directory listing requests** with different names never share a TLV -/
theorem C18_listing_request_injective (p q : DirectoryParams) (wp : WFListingRequest p) (wq : WFListingRequest q) :
    (Spec.listingRequest p = Spec.listingRequest q ↔ p = q) ∧
    ∀ r r', DirectoryListingRequest.new p = .ok r → DirectoryListingRequest.new q = .ok r' →
      (r.pack = r'.pack ↔ p = q) := by
  obtain ⟨r1, a1, a2, a3, _, a5⟩ := C18_listing_request p wp []
  obtain ⟨r2, b1, b2, b3, _, b5⟩ := C18_listing_request q wq []
  exact inj_of DirectoryListingRequest.new Spec.listingRequest (·.getDirListingRequestParams) id (fun _ _ h => h) p q
    ⟨r1, a1, a2, a3, a5⟩ ⟨r2, b1, b2, b3, b5⟩

/-- **directory listing responses** that differ in the success flag or a name never share a TLV -/
theorem C18_listing_response_injective (s t : Bool) (p q : DirectoryParams)
    (wp : WFListingResponse p) (wq : WFListingResponse q) :
    (Spec.listingResponse s p = Spec.listingResponse t q ↔ (s = t ∧ p = q)) ∧
    ∀ r r', DirectoryListingResponse.new s p = .ok r → DirectoryListingResponse.new t q = .ok r' →
      (r.pack = r'.pack ↔ (s = t ∧ p = q)) := by
  obtain ⟨r1, a1, a2, a3, _, a5⟩ := C18_listing_response s p wp []
  obtain ⟨r2, b1, b2, b3, _, b5⟩ := C18_listing_response t q wq []
  have := inj_of (fun x : Bool × DirectoryParams => DirectoryListingResponse.new x.1 x.2)
    (fun x => Spec.listingResponse x.1 x.2) (·.getDirListingResponseParams) id (fun _ _ h => h) (s, p) (t, q)
    ⟨r1, a1, a2, a3, a5⟩ ⟨r2, b1, b2, b3, b5⟩
  simpa only [Prod.mk.injEq] using this

/-- **listing options** with a different (recursive, all) pair never share a TLV -/
theorem C18_listing_options_injective (o o' : DirListingOptions) (wo : WFListingOptions o) (wo' : WFListingOptions o') :
    (Spec.listingOptions o = Spec.listingOptions o' ↔ o = o') ∧
    ∀ r r', DirectoryListingParameters.new o = .ok r → DirectoryListingParameters.new o' = .ok r' →
      (r.pack = r'.pack ↔ o = o') := by
  obtain ⟨r1, a1, a2, a3, _, a5⟩ := C18_listing_options o wo []
  obtain ⟨r2, b1, b2, b3, _, b5⟩ := C18_listing_options o' wo' []
  exact inj_of DirectoryListingParameters.new Spec.listingOptions (·.getDirListingOptions) id (fun _ _ h => h) o o'
    ⟨r1, a1, a2, a3, a5⟩ ⟨r2, b1, b2, b3, b5⟩

/-- **proxy put responses** that differ in condition code, delivery code or file status never share a TLV -/
theorem C18_put_response_injective (cc dc fs cc' dc' fs' : Nat)
    (w : WFPutResponse cc dc fs) (w' : WFPutResponse cc' dc' fs') :
    (Spec.putResponse cc dc fs = Spec.putResponse cc' dc' fs' ↔ (cc = cc' ∧ dc = dc' ∧ fs = fs')) ∧
    ∀ r r', ProxyPutResponse.new ⟨(cc : Int), dc, fs⟩ = .ok r → ProxyPutResponse.new ⟨(cc' : Int), dc', fs'⟩ = .ok r' →
      (r.pack = r'.pack ↔ (cc = cc' ∧ dc = dc' ∧ fs = fs')) := by
  obtain ⟨r1, a1, _, a2, a3, _, a5⟩ := C18_put_response cc dc fs w []
  obtain ⟨r2, b1, _, b2, b3, _, b5⟩ := C18_put_response cc' dc' fs' w' []
  have := inj_of (fun x : Nat × Nat × Nat => ProxyPutResponse.new ⟨(x.1 : Int), x.2.1, x.2.2⟩)
    (fun x => Spec.putResponse x.1 x.2.1 x.2.2) (·.getProxyPutResponseParams)
    (fun x : Nat × Nat × Nat => (⟨(x.1 : Int), x.2.1, x.2.2⟩ : ProxyPutResponseParams))
    (by
      rintro ⟨a, b, c⟩ ⟨a', b', c'⟩ h
      simp only [ProxyPutResponseParams.mk.injEq, Int.natCast_inj] at h
      simp only [Prod.mk.injEq]; exact h)
    (cc, dc, fs) (cc', dc', fs') ⟨r1, a1, a2, a3, a5⟩ ⟨r2, b1, b2, b3, b5⟩
  simpa only [Prod.mk.injEq] using this

-- non-vacuity: for every kind two distinct members of the domain with different octets (they differ
-- in one octet / one bit only)
example : WFPutRequest ⟨⟨2, 513, [2, 1]⟩, ⟨[0x61, 0xC3]⟩, ⟨[]⟩⟩ ∧ WFPutRequest ⟨⟨2, 513, [2, 1]⟩, ⟨[0x61]⟩, ⟨[0xC3]⟩⟩ ∧
    Spec.putRequest ⟨⟨2, 513, [2, 1]⟩, ⟨[0x61, 0xC3]⟩, ⟨[]⟩⟩ ≠ Spec.putRequest ⟨⟨2, 513, [2, 1]⟩, ⟨[0x61]⟩, ⟨[0xC3]⟩⟩ := by
  decide
example : Spec.closureRequest 0 ≠ Spec.closureRequest 1 ∧ Spec.transmissionMode 0 ≠ Spec.transmissionMode 1 := by decide
example : WFTransactionId ⟨⟨2, 1, [0, 1]⟩, ⟨1, 2, [2]⟩⟩ ∧ WFTransactionId ⟨⟨1, 0, [0]⟩, ⟨2, 258, [1, 2]⟩⟩ ∧
    Spec.originatingId ⟨⟨2, 1, [0, 1]⟩, ⟨1, 2, [2]⟩⟩ ≠ Spec.originatingId ⟨⟨1, 0, [0]⟩, ⟨2, 258, [1, 2]⟩⟩ := by
  decide
example : WFListingRequest ⟨⟨[0x2F, 0x61]⟩, ⟨[]⟩⟩ ∧ WFListingRequest ⟨⟨[0x2F]⟩, ⟨[0x61]⟩⟩ ∧
    Spec.listingRequest ⟨⟨[0x2F, 0x61]⟩, ⟨[]⟩⟩ ≠ Spec.listingRequest ⟨⟨[0x2F]⟩, ⟨[0x61]⟩⟩ := by decide
example : WFListingResponse ⟨⟨[0x2F]⟩, ⟨[0x61]⟩⟩ ∧
    Spec.listingResponse true ⟨⟨[0x2F]⟩, ⟨[0x61]⟩⟩ ≠ Spec.listingResponse false ⟨⟨[0x2F]⟩, ⟨[0x61]⟩⟩ := by decide
example : WFListingOptions ⟨1, 0⟩ ∧ WFListingOptions ⟨0, 1⟩ ∧ Spec.listingOptions ⟨1, 0⟩ ≠ Spec.listingOptions ⟨0, 1⟩ := by
  decide
example : WFPutResponse 4 1 0 ∧ WFPutResponse 4 0 2 ∧ Spec.putResponse 4 1 0 ≠ Spec.putResponse 4 0 2 := by decide

end SpVerif.Props.C18
