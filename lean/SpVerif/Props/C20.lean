import SpVerif.Proofs.ByteField
/-!
# C20 — unsigned byte fields keep value, width and big-endian octets coherent

Property theorems only. The model (`Model/ByteField.lean`) keeps the three attributes an
`UnsignedByteField` stores (`_byte_len`, `_val`, `_val_as_bytes`); the theorems show that every
way of building or re-assigning a field through the public API keeps them coherent
(`Coherent`), for **all** values of the 8/16/32/64-bit ranges (no sampling in the proofs).

`Spec.octets w v` is the closed-form big-endian layout: octet `i` of a `w`-octet field holds
`v / 256^(w-1-i) mod 256`.

Interpretation (DESIGN.md §8): for the empty field the int / len / octet views are claimed;
`from_bytes(b"")`, `ByteFieldGenerator.from_int(0, …)` / `.from_bytes(0, …)` and assigning octets to
an empty field are refused with `ValueError` by the code as documented, and proved as such.
-/
namespace SpVerif.Props.C20
open SpVerif SpVerif.ByteField

-- lets `decide` evaluate the concrete non-vacuity examples at the end of the file
private instance : DecidableEq (Py Bytes) := fun a b =>
  match a, b with
  | .ok x, .ok y => if h : x = y then isTrue (by rw [h]) else isFalse (by intro e; cases e; exact h rfl)
  | .error x, .error y => if h : x = y then isTrue (by rw [h]) else isFalse (by intro e; cases e; exact h rfl)
  | .ok _, .error _ => isFalse (by intro e; cases e)
  | .error _, .ok _ => isFalse (by intro e; cases e)
private instance : DecidableEq (Py Field) := fun a b =>
  match a, b with
  | .ok x, .ok y => if h : x = y then isTrue (by rw [h]) else isFalse (by intro e; cases e; exact h rfl)
  | .error x, .error y => if h : x = y then isTrue (by rw [h]) else isFalse (by intro e; cases e; exact h rfl)
  | .ok _, .error _ => isFalse (by intro e; cases e)
  | .error _, .ok _ => isFalse (by intro e; cases e)

/-- the domain of the statement: a supported width and a value representable in it -/
def WF (w v : Nat) : Prop := (w = 0 ∨ w = 1 ∨ w = 2 ∨ w = 4 ∨ w = 8) ∧ v < 256 ^ w

instance (w v : Nat) : Decidable (WF w v) := by unfold WF; infer_instance

/-- coherence of a field object: supported width, value in range, octets = encoding of the value -/
abbrev Coherent (f : Field) : Prop := Inv f

/-- what "big-endian in exactly that width" prescribes, octet by octet -/
def Spec.octets (w v : Nat) : Bytes :=
  if w = 1 then [u8 (v % 256)]
  else if w = 2 then [u8 (v / 256 % 256), u8 (v % 256)]
  else if w = 4 then
    [u8 (v / 16777216 % 256), u8 (v / 65536 % 256), u8 (v / 256 % 256), u8 (v % 256)]
  else if w = 8 then
    [u8 (v / 72057594037927936 % 256), u8 (v / 281474976710656 % 256),
     u8 (v / 1099511627776 % 256), u8 (v / 4294967296 % 256),
     u8 (v / 16777216 % 256), u8 (v / 65536 % 256), u8 (v / 256 % 256), u8 (v % 256)]
  else []

private theorem d2 (v : Nat) : v / 256 / 256 = v / 65536 := by omega
private theorem d3 (v : Nat) : v / 65536 / 256 = v / 16777216 := by omega
private theorem d4 (v : Nat) : v / 16777216 / 256 = v / 4294967296 := by omega
private theorem d5 (v : Nat) : v / 4294967296 / 256 = v / 1099511627776 := by omega
private theorem d6 (v : Nat) : v / 1099511627776 / 256 = v / 281474976710656 := by omega
private theorem d7 (v : Nat) : v / 281474976710656 / 256 = v / 72057594037927936 := by omega

/-- the recursive codec of `BE.lean` is the closed-form layout on every supported width -/
theorem C20_spec (w v : Nat) (hw : w = 0 ∨ w = 1 ∨ w = 2 ∨ w = 4 ∨ w = 8) :
    beBytes w v = Spec.octets w v := by
  rcases hw with rfl | rfl | rfl | rfl | rfl
  · rfl
  · simp [beBytes, Spec.octets]
  · simp [beBytes, Spec.octets]
  · simp only [beBytes, Spec.octets, d2, d3]; simp
  · simp only [beBytes, Spec.octets, d2, d3, d4, d5, d6, d7]; simp

/-- **construction = Spec**: every in-range (width, value) pair is accepted and the object holds
    exactly the width, the value and the prescribed octets. -/
theorem C20_new (w v : Nat) (wf : WF w v) :
    Field.new (v : Int) (w : Int) = .ok ⟨w, v, Spec.octets w v⟩ := by
  rw [new_nat wf.1, if_pos wf.2, C20_spec w v wf.1]

/-- the concrete subclasses and the generator build the same object -/
theorem C20_new_variants (w v : Nat) (wf : WF w v) (h0 : w ≠ 0) :
    genFromInt (w : Int) (v : Int) = .ok ⟨w, v, Spec.octets w v⟩ ∧
    (w = 1 → u8New (v : Int) = .ok ⟨w, v, Spec.octets w v⟩) ∧
    (w = 2 → u16New (v : Int) = .ok ⟨w, v, Spec.octets w v⟩) ∧
    (w = 4 → u32New (v : Int) = .ok ⟨w, v, Spec.octets w v⟩) ∧
    (w = 8 → u64New (v : Int) = .ok ⟨w, v, Spec.octets w v⟩) := by
  have hn := C20_new w v wf
  have hw : (w : Int) = 1 ∨ (w : Int) = 2 ∨ (w : Int) = 4 ∨ (w : Int) = 8 := by
    have := wf.1; omega
  refine ⟨by rw [genFromInt_eq, if_pos hw, hn], ?_, ?_, ?_, ?_⟩ <;>
    (intro e; subst e; exact hn)

/-- the empty field: `ByteFieldEmpty()` is (width 0, value 0, no octets) -/
theorem C20_empty : emptyNew 0 = .ok ⟨0, 0, []⟩ := by
  have := C20_new 0 0 (by decide)
  simpa [emptyNew, Spec.octets] using this

/-- every object the constructor returns is coherent and stores the arguments unchanged -/
theorem C20_bytes (v n : Int) (f : Field) (h : Field.new v n = .ok f) :
    Coherent f ∧ (f.width : Int) = n ∧ (f.value : Int) = v ∧
    f.asBytes = Spec.octets f.width f.value ∧ f.asBytes.length = f.width ∧
    beNat f.asBytes = f.value := by
  have hi := new_inv h
  rw [new_eq] at h
  split at h
  · rename_i g
    cases h
    have e1 := (okWidth_toNat g.1).1
    refine ⟨hi, e1, by show ((v.toNat : Nat) : Int) = v; omega, ?_, ?_, ?_⟩
    · exact C20_spec _ _ hi.1
    · simp [Field.asBytes]
    · exact beNat_beBytes _ _ hi.2.1
  · cases h

/-- **the views agree** on every coherent field: `int()` is the big-endian number of the octets,
    `len()` their count, `hex_str` is `0x` + their hex digits (absent for the empty field). -/
theorem C20_views (f : Field) (hf : Coherent f) :
    f.intView = beNat f.asBytes ∧ f.lenView = f.asBytes.length ∧
    f.asBytes = Spec.octets f.lenView f.intView ∧
    f.hexStr = (if f.lenView = 0 then none
                else some (String.ofList ('0' :: 'x' :: hexOfBytes f.asBytes))) := by
  obtain ⟨hw, hv, hb⟩ := hf
  refine ⟨?_, ?_, ?_, hexStr_eq ⟨hw, hv, hb⟩⟩
  · simp only [Field.intView, Field.asBytes, hb]; exact (beNat_beBytes _ _ hv).symm
  · simp [Field.lenView, Field.asBytes, hb]
  · simp only [Field.lenView, Field.intView, Field.asBytes, hb]; exact C20_spec _ _ hw

/-- **refusal**: a negative value, a value too large for the width, or an unsupported width is
    refused with ValueError — by the base class, the four subclasses, `ByteFieldEmpty` and the
    generator (which also refuses width 0). Exactly these are refused (`C20_new_iff`). -/
theorem C20_refuse (v n : Int)
    (h : ¬ okWidth n ∨ v < 0 ∨ ((256 ^ n.toNat : Nat) : Int) ≤ v) :
    Field.new v n = .error .value ∧ genFromInt n v = .error .value := by
  have g : ¬ (okWidth n ∧ 0 ≤ v ∧ v < ((256 ^ n.toNat : Nat) : Int)) := by
    intro ⟨a, b, c⟩
    rcases h with h | h | h
    · exact h a
    · omega
    · omega
  have h1 : Field.new v n = .error .value := by rw [new_eq, if_neg g]
  refine ⟨h1, ?_⟩
  rw [genFromInt_eq]; split
  · exact h1
  · rfl

theorem C20_new_iff (v n : Int) (f : Field) :
    Field.new v n = .ok f ↔
      okWidth n ∧ 0 ≤ v ∧ v < ((256 ^ n.toNat : Nat) : Int) ∧
      f = ⟨n.toNat, v.toNat, Spec.octets n.toNat v.toNat⟩ := by
  rw [new_eq]
  constructor
  · intro h
    split at h
    · rename_i g
      cases h
      exact ⟨g.1, g.2.1, g.2.2, by rw [C20_spec _ _ (okWidth_toNat g.1).2]⟩
    · cases h
  · rintro ⟨a, b, c, rfl⟩
    rw [if_pos ⟨a, b, c⟩, C20_spec _ _ (okWidth_toNat a).2]

theorem C20_refuse_subclasses (v : Int) :
    ((v < 0 ∨ 256 ≤ v) → u8New v = .error .value) ∧
    ((v < 0 ∨ 65536 ≤ v) → u16New v = .error .value) ∧
    ((v < 0 ∨ 4294967296 ≤ v) → u32New v = .error .value) ∧
    ((v < 0 ∨ 18446744073709551616 ≤ v) → u64New v = .error .value) := by
  refine ⟨?_, ?_, ?_, ?_⟩ <;> intro h
  · exact (C20_refuse v 1 (by right; simpa using h)).1
  · exact (C20_refuse v 2 (by right; simpa using h)).1
  · exact (C20_refuse v 4 (by right; simpa using h)).1
  · exact (C20_refuse v 8 (by right; simpa using h)).1

/-- the generator and `ByteFieldEmpty` on widths: the generator accepts 1, 2, 4, 8 only -/
theorem C20_refuse_width (n v : Int) :
    (¬ okWidth n → Field.new v n = .error .value ∧ emptyNew n = .error .value) ∧
    (¬ (n = 1 ∨ n = 2 ∨ n = 4 ∨ n = 8) →
      genFromInt n v = .error .value ∧ ∀ s, genFromBytes n s = .error .value) := by
  refine ⟨fun h => ⟨new_bad_width h v, new_bad_width h 0⟩, fun h => ⟨?_, fun s => ?_⟩⟩
  · rw [genFromInt_eq, if_neg h]
  · rw [genFromBytes_eq, if_neg (by intro ⟨a, _⟩; exact h a)]

/-- **round trip through the octets**, for every width 1, 2, 4, 8 and every value: building from
    the field's octets — directly, through the subclass reader (which may be handed a longer
    stream) or through the width-dispatching generator — gives back the same object. -/
theorem C20_roundtrip (w v : Nat) (wf : WF w v) (h0 : w ≠ 0) (rest : Bytes) :
    fromBytes (Spec.octets w v) = .ok ⟨w, v, Spec.octets w v⟩ ∧
    genFromBytes (w : Int) (Spec.octets w v ++ rest) = .ok ⟨w, v, Spec.octets w v⟩ := by
  have hw : W w := by have := wf.1; unfold W; omega
  rw [← C20_spec w v wf.1]
  constructor
  · rw [fromBytes_eq]
    simp only [beBytes_length, hw, ↓reduceIte, beNat_beBytes w v wf.2]
  · rw [genFromBytes_eq]
    have g : ((w : Int) = 1 ∨ (w : Int) = 2 ∨ (w : Int) = 4 ∨ (w : Int) = 8) ∧
        ¬ (((beBytes w v ++ rest).length : Nat) : Int) < (w : Int) := by
      unfold W at hw
      refine ⟨by omega, ?_⟩
      simp only [List.length_append, beBytes_length]; omega
    rw [if_pos g]
    simp only [Int.toNat_natCast]
    rw [List.take_left' (beBytes_length w v), beNat_beBytes w v wf.2]

/-- the same, stated on objects: a coherent non-empty field is rebuilt from its own octets -/
theorem C20_roundtrip_obj (f : Field) (hf : Coherent f) (h0 : f.width ≠ 0) (rest : Bytes) :
    fromBytes f.asBytes = .ok f ∧ genFromBytes (f.width : Int) (f.asBytes ++ rest) = .ok f := by
  obtain ⟨hw, hv, hb⟩ := hf
  have := C20_roundtrip f.width f.value ⟨hw, hv⟩ h0 rest
  rw [← C20_spec _ _ hw, ← hb] at this
  cases f
  simpa [Field.asBytes] using this

/-- the generator dispatches on the width to the four subclass readers -/
theorem C20_gen_dispatch (s : Bytes) :
    genFromBytes 1 s = fromU8Bytes s ∧ genFromBytes 2 s = fromU16Bytes s ∧
    genFromBytes 4 s = fromU32Bytes s ∧ genFromBytes 8 s = fromU64Bytes s := by
  refine ⟨rfl, rfl, rfl, rfl⟩

/-- **from-bytes is total and exact on octet strings**: every string of 1, 2, 4 or 8 octets is
    accepted by `from_bytes`, the result is coherent and its octets are the input (with
    `C20_roundtrip`: a bijection between in-range pairs and octet strings of those lengths). -/
theorem C20_from_bytes (raw : Bytes) (h : W raw.length) :
    ∃ f, fromBytes raw = .ok f ∧ Coherent f ∧ f.asBytes = raw ∧ f.lenView = raw.length ∧
      f.intView = beNat raw := by
  refine ⟨⟨raw.length, beNat raw, raw⟩, ?_, ⟨h.w0, beNat_lt raw, (beBytes_beNat raw).symm⟩, rfl, rfl, rfl⟩
  rw [fromBytes_eq, if_pos h]

/-- a stream with at least `n` octets, `n ∈ {1,2,4,8}`: the subclass reader / generator takes the
    first `n` octets and ignores the rest -/
theorem C20_from_stream (n : Nat) (hn : W n) (s : Bytes) (h : n ≤ s.length) :
    ∃ f, genFromBytes (n : Int) s = .ok f ∧ Coherent f ∧ f.asBytes = s.take n ∧ f.lenView = n := by
  have hl : (s.take n).length = n := by simp; omega
  refine ⟨⟨n, beNat (s.take n), s.take n⟩, ?_, ⟨hn.w0, ?_, ?_⟩, rfl, rfl⟩
  · rw [genFromBytes_eq]
    have g : ((n : Int) = 1 ∨ (n : Int) = 2 ∨ (n : Int) = 4 ∨ (n : Int) = 8) ∧
        ¬ ((s.length : Nat) : Int) < (n : Int) := by unfold W at hn; omega
    rw [if_pos g]; simp only [Int.toNat_natCast]
  · have := beNat_lt (s.take n); rwa [hl] at this
  · have := beBytes_beNat (s.take n); rw [hl] at this; exact this.symm

/-- **too-short or wrongly sized octet strings are refused with ValueError** — `from_bytes` on any
    length other than 1, 2, 4, 8 (including the empty string), each subclass reader and the
    generator on a stream shorter than the width. -/
theorem C20_refuse_bytes (s : Bytes) :
    (¬ W s.length → fromBytes s = .error .value) ∧
    (s.length < 1 → fromU8Bytes s = .error .value ∧ genFromBytes 1 s = .error .value) ∧
    (s.length < 2 → fromU16Bytes s = .error .value ∧ genFromBytes 2 s = .error .value) ∧
    (s.length < 4 → fromU32Bytes s = .error .value ∧ genFromBytes 4 s = .error .value) ∧
    (s.length < 8 → fromU64Bytes s = .error .value ∧ genFromBytes 8 s = .error .value) := by
  refine ⟨fun h => by rw [fromBytes_eq, if_neg h], ?_, ?_, ?_, ?_⟩ <;> intro h
  · have : fromU8Bytes s = .error .value := by rw [fromU8Bytes_eq, if_pos h]
    exact ⟨this, this⟩
  · have : fromU16Bytes s = .error .value := by rw [fromU16Bytes_eq, if_pos h]
    exact ⟨this, this⟩
  · have : fromU32Bytes s = .error .value := by rw [fromU32Bytes_eq, if_pos h]
    exact ⟨this, this⟩
  · have : fromU64Bytes s = .error .value := by rw [fromU64Bytes_eq, if_pos h]
    exact ⟨this, this⟩

/-- **equality and hashing depend on exactly (value, width)**: `==` holds iff the hashed tuples
    are equal, for any two field objects … -/
theorem C20_eq (f g : Field) :
    f.beq g = true ↔ (f.value, f.width) = (g.value, g.width) := by
  simp [Field.beq]

theorem C20_hash (f g : Field) : f.hashKey = (f.value, f.width) ∧ (f.beq g = true ↔ f.hashKey = g.hashKey) :=
  ⟨rfl, beq_iff f g⟩

/-- … and on coherent fields that is the same as having the same octets, and as being the same
    object state; comparing with an octet string compares with the encoding. -/
theorem C20_eq_coherent (f g : Field) (hf : Coherent f) (hg : Coherent g) :
    (f.beq g = true ↔ f = g) ∧ (f.beq g = true ↔ f.asBytes = g.asBytes) ∧
    (∀ b, f.eqBytes b = true ↔ b = Spec.octets f.width f.value) := by
  refine ⟨⟨fun h => eq_of_key hf hg ((beq_iff f g).1 h), fun h => by subst h; simp [Field.beq]⟩,
    ⟨fun h => by rw [eq_of_key hf hg ((beq_iff f g).1 h)],
     fun h => by rw [eq_of_bytes hf hg h]; simp [Field.beq]⟩, fun b => ?_⟩
  rw [← C20_spec _ _ hf.1, ← hf.2.2]
  simp only [Field.eqBytes, beq_iff_eq]
  exact eq_comm

/-- distinct in-range pairs give unequal fields with distinct octets (no two values share an
    encoding, no two widths either) -/
theorem C20_injective (w v w' v' : Nat) (h : WF w v) (h' : WF w' v')
    (e : Spec.octets w v = Spec.octets w' v') : w = w' ∧ v = v' := by
  rw [← C20_spec _ _ h.1, ← C20_spec _ _ h'.1] at e
  have hw : w = w' := by
    have := congrArg List.length e
    simpa using this
  subst hw
  exact ⟨rfl, beBytes_inj w v v' h.2 h'.2 e⟩

/-- **assigning an integer**: accepted iff it fits the (unchanged) width; value and octets are
    replaced together. Refused (ValueError) otherwise. -/
theorem C20_set_int (f : Field) (hf : Coherent f) (v : Int) :
    f.setInt v =
      if 0 ≤ v ∧ v < ((256 ^ f.width : Nat) : Int)
      then .ok ⟨f.width, v.toNat, Spec.octets f.width v.toNat⟩ else .error .value := by
  rw [setInt_eq f hf.1, C20_spec _ _ hf.1]

/-- **assigning octets**: a string of at least `width` octets is accepted on a non-empty field,
    its first `width` octets become the octets and their big-endian number the value; a shorter
    one is refused with ValueError (as is any assignment of octets to the empty field). -/
theorem C20_set_bytes (f : Field) (hf : Coherent f) (raw : Bytes) :
    f.setBytes raw =
      if f.width = 0 ∨ raw.length < f.width then .error .value
      else .ok ⟨f.width, beNat (raw.take f.width), raw.take f.width⟩ :=
  setBytes_eq f hf.1 raw

/-- **all views stay in step under every history of assignments** (integers and octet strings,
    accepted or refused, in any order and number): the object is coherent after each step, the
    width never changes, and a refused assignment changes nothing. -/
theorem C20_set_coherent (f : Field) (hf : Coherent f) (l : List Assign) :
    Coherent (f.run l) ∧ (f.run l).width = f.width := by
  refine ⟨run_inv hf l, ?_⟩
  induction l generalizing f with
  | nil => rfl
  | cons a l ih =>
    have := ih (f.after a) (after_inv hf a)
    simp only [Field.run, List.foldl_cons] at this ⊢
    rw [this, after_width]

theorem C20_set_step (f : Field) (hf : Coherent f) (a : Assign) :
    Coherent (f.after a) ∧ (∀ e, f.assign a = .error e → f.after a = f ∧ e = .value) ∧
    (∀ g, f.assign a = .ok g → f.after a = g) := by
  refine ⟨after_inv hf a, fun e h => ⟨by simp [Field.after, h], ?_⟩, fun g h => by simp [Field.after, h]⟩
  cases a with
  | int v =>
    simp only [Field.assign] at h
    rw [setInt_eq f hf.1] at h
    split at h
    · cases h
    · cases h; rfl
  | octets raw =>
    simp only [Field.assign] at h
    rw [setBytes_eq f hf.1] at h
    split at h
    · cases h; rfl
    · cases h

/-- the trace the correspondence check compares is the unfolding of `after` -/
theorem C20_trace_states (f : Field) (l : List Assign) :
    (f.trace l).length = l.length ∧
    ∀ i (h : i < (f.trace l).length), ((f.trace l)[i]).2 = f.run (l.take (i + 1)) := by
  induction l generalizing f with
  | nil => exact ⟨rfl, fun i h => absurd h (by simp [Field.trace])⟩
  | cons a l ih =>
    obtain ⟨h1, h2⟩ := ih (f.after a)
    refine ⟨by simp [Field.trace, h1], fun i h => ?_⟩
    cases i with
    | zero => simp [Field.trace, Field.run]
    | succ i =>
      simp only [Field.trace, List.getElem_cons_succ]
      rw [h2 i (by simpa [Field.trace] using h)]
      simp [Field.run]

/-- **`to_unsigned` is big-endian over its whole accepted range**: on widths 1, 2, 4, 8 it accepts
    exactly `0 ≤ v < 256^w` and returns the prescribed octets. -/
theorem C20_unsigned (w : Nat) (hw : W w) (v : Int) (b : Bytes) :
    toUnsigned (w : Int) v = .ok b ↔
      0 ≤ v ∧ v < ((256 ^ w : Nat) : Int) ∧ b = Spec.octets w v.toNat := by
  rw [toUnsigned_W hw, ← C20_spec _ _ hw.w0]
  constructor
  · intro h
    split at h
    · cases h
    · split at h
      · cases h
      · cases h; exact ⟨by omega, by omega, rfl⟩
  · rintro ⟨a, c, rfl⟩
    rw [if_neg (by omega), if_neg (by omega)]

/-- its refusals: too large → ValueError; negative → the `struct.error` of `struct.pack`
    (not a ValueError; outside the accepted range, see manifest note); other widths → ValueError;
    width 0 → `b""` whatever the value. -/
theorem C20_unsigned_refuse (n v : Int) :
    (¬ okWidth n → toUnsigned n v = .error .value) ∧
    (n = 0 → toUnsigned n v = .ok []) ∧
    (∀ w : Nat, W w → n = (w : Int) →
      (((256 ^ w : Nat) : Int) ≤ v → toUnsigned n v = .error .value) ∧
      (v < 0 → toUnsigned n v = .error .struct)) := by
  refine ⟨fun h => toUnsigned_bad h v, fun h => by rw [h, toUnsigned_zero], fun w hw e => ?_⟩
  subst e
  rw [toUnsigned_W hw]
  constructor
  · intro h
    have hp : (0 : Int) ≤ ((256 ^ w : Nat) : Int) := Int.natCast_nonneg _
    rw [if_neg (by omega), if_pos h]
  · intro h; rw [if_pos h]

/-- **`to_signed` is big-endian two's complement over its whole accepted range**: on widths
    1, 2, 4, 8 it accepts exactly `|v| ≤ 2^(8w-1) - 1`; the octets are the unsigned encoding of
    `v mod 256^w`. Everything else is a ValueError (`struct.error` cannot occur). -/
theorem C20_signed (w : Nat) (hw : W w) (v : Int) (b : Bytes) :
    toSigned (w : Int) v = .ok b ↔
      (-((256 ^ w / 2 : Nat) : Int) < v ∧ v < ((256 ^ w / 2 : Nat) : Int)) ∧
      b = Spec.octets w (v % ((256 ^ w : Nat) : Int)).toNat := by
  rw [toSigned_W hw, ← C20_spec _ _ hw.w0]
  constructor
  · intro h
    split at h
    · rename_i g; cases h; exact ⟨g, rfl⟩
    · cases h
  · rintro ⟨g, rfl⟩
    rw [if_pos g]

theorem C20_signed_refuse (n v : Int) :
    (¬ okWidth n → toSigned n v = .error .value) ∧
    (n = 0 → toSigned n v = .ok []) ∧
    (∀ w : Nat, W w → n = (w : Int) →
      (v ≤ -((256 ^ w / 2 : Nat) : Int) ∨ ((256 ^ w / 2 : Nat) : Int) ≤ v) →
      toSigned n v = .error .value) := by
  refine ⟨fun h => toSigned_bad h v, fun h => by rw [h, toSigned_zero], fun w hw e h => ?_⟩
  subst e
  rw [toSigned_W hw, if_neg (by omega)]

/-- two's complement, spelled out: `w` octets; non-negative values are encoded like the unsigned
    helper does, a negative `v` as `256^w + v`; the number read back as unsigned is `v mod 256^w`;
    and decoding with the signed `struct` format returns `v`. -/
theorem C20_signed_twos (w : Nat) (hw : W w) (v : Int) (b : Bytes)
    (h : toSigned (w : Int) v = .ok b) :
    b.length = w ∧ (beNat b : Int) = v % ((256 ^ w : Nat) : Int) ∧ unpackS w b = .ok v ∧
    (0 ≤ v → toUnsigned (w : Int) v = .ok b) ∧
    (v < 0 → b = beBytes w (((256 ^ w : Nat) : Int) + v).toNat) := by
  rw [toSigned_W hw] at h
  split at h
  · rename_i g
    cases h
    have hp : (0 : Int) < ((256 ^ w : Nat) : Int) := by
      have : 0 < 256 ^ w := Nat.pow_pos (by decide)
      omega
    have he := pow_even hw
    have m0 : 0 ≤ v % ((256 ^ w : Nat) : Int) := Int.emod_nonneg _ (by omega)
    have m1 : v % ((256 ^ w : Nat) : Int) < ((256 ^ w : Nat) : Int) := Int.emod_lt_of_pos _ hp
    refine ⟨by simp, ?_, unpackS_packS hw v ⟨by omega, g.2⟩, fun h0 => ?_, fun hn => ?_⟩
    · rw [beNat_beBytes _ _ (by omega)]; omega
    · have e : v % ((256 ^ w : Nat) : Int) = v := Int.emod_eq_of_lt h0 (by omega)
      rw [toUnsigned_W hw, if_neg (by omega), if_neg (by omega), e]
    · have e : v % ((256 ^ w : Nat) : Int) = v + ((256 ^ w : Nat) : Int) := by
        rw [← Int.add_emod_right v]
        exact Int.emod_eq_of_lt (by omega) (by omega)
      rw [e, Int.add_comm]
  · cases h

/-- the two helpers return exactly `byte_num` octets whenever they accept -/
theorem C20_helper_len (n v : Int) (b : Bytes) :
    (toUnsigned n v = .ok b → (b.length : Int) = n) ∧ (toSigned n v = .ok b → (b.length : Int) = n) := by
  by_cases h : okWidth n
  · obtain ⟨e, hw⟩ := okWidth_toNat h
    rw [← e]
    rcases hw.cases with h0 | hw
    · rw [h0]
      simp only [Int.natCast_zero, toUnsigned_zero, toSigned_zero]
      constructor <;> (intro h; cases h; rfl)
    · constructor
      · intro hh
        have := ((C20_unsigned _ hw v b).1 hh).2.2
        rw [this, ← C20_spec _ _ hw.w0]; simp
      · intro hh
        have := (C20_signed_twos _ hw v b hh).1
        omega
  · rw [toUnsigned_bad h, toSigned_bad h]
    constructor <;> (intro h; cases h)

/-- **only ValueError**: every constructor, reader, generator entry and `to_signed` fails, if at
    all, with the documented ValueError, for every input; so does `to_unsigned` for `v ≥ 0`. -/
theorem C20_documented (v n : Int) (s : Bytes) :
    Documented (Field.new v n) ∧ Documented (fromBytes s) ∧ Documented (genFromBytes n s) ∧
    Documented (genFromInt n v) ∧ Documented (toSigned n v) ∧
    (0 ≤ v → Documented (toUnsigned n v)) :=
  ⟨new_documented v n, fromBytes_documented s, genFromBytes_documented n s,
   genFromInt_documented n v, toSigned_documented n v, toUnsigned_documented n v⟩

-- non-vacuity: concrete non-trivial instances of the hypotheses
example : WF 8 0xFEDCBA9876543210 := by decide
example : WF 0 0 ∧ ¬ WF 0 1 ∧ ¬ WF 3 5 ∧ ¬ WF 2 65536 := by decide
example : Spec.octets 8 0xFEDCBA9876543210 = [0xFE, 0xDC, 0xBA, 0x98, 0x76, 0x54, 0x32, 0x10] := by decide
example : Spec.octets 4 0x80000001 = [0x80, 0x00, 0x00, 0x01] := by decide
example : Coherent ⟨2, 0xFFFE, [0xFF, 0xFE]⟩ := by decide
example : ¬ Coherent ⟨2, 0xFFFE, [0xFE, 0xFF]⟩ := by decide
example : W 4 ∧ W [0xAB, 0xCD].length := by decide
example : toSigned 2 (-2) = .ok [0xFF, 0xFE] := by decide +kernel
example : toSigned 1 (-128) = .error .value ∧ toSigned 1 (-127) = .ok [0x81] := by decide +kernel
example : toUnsigned 8 0xFFFFFFFFFFFFFFFF = .ok [0xFF, 0xFF, 0xFF, 0xFF, 0xFF, 0xFF, 0xFF, 0xFF] := by
  decide +kernel
example : toUnsigned 1 (-1) = .error .struct ∧ toUnsigned 1 256 = .error .value := by decide +kernel
example : (Field.mk 2 0x00AB [0x00, 0xAB]).hexStr = some "0x00ab" := by decide
example : fromBytes [] = .error .value ∧ genFromInt 0 0 = .error .value := by decide +kernel

end SpVerif.Props.C20
