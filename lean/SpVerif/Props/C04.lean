import SpVerif.Proofs.PusCrcAccept
import SpVerif.Proofs.CfdpCrcAccept
import SpVerif.Props.C05
import SpVerif.Model.Srv1
/-!
# C04 — a corrupted CRC-protected packet is never accepted as valid (PUS TC, PUS TM and wrappers)

Fault model: `Crc.Burst d d' k B` — `d'` is `d` with the bits of the pattern `B` xor-ed in from bit
offset `k` (bit 0 = most significant bit of octet 0); `B` is any non-zero pattern of at most 16 bits
(a single-bit flip is `B = [true]`); `Crc.flipBurst d k B` is that string as a function.
"Outside the octets that determine the packet's length": the window does not meet octets 4–5
(`AvoidsLenField k B.length`, bits 32…47).

* `C04_*_pack_always_valid`  — whatever the field values of the object are when `pack` runs (so after
  any sequence of setters), a successful `pack` ends with the CRC of all octets before it: residue 0.
* `C04_*_valid_passes`       — every valid packet packs, has residue 0, decodes, passes `check_pus_crc`.
* `C04_*_accept_implies_crc` — a decoder that returns has seen residue 0 over exactly `declaredLen d`
  octets, a function of octets 4–5 only.
* `C04_*_burst_rejected`     — every burst inside an accepted packet (in particular a packed one,
  followed by anything) is refused with a documented error and fails `check_pus_crc`.

CFDP (section at the end): the theorems are about the part every PDU decoder runs first — fixed header
decode + `verify_length_and_checksum` (`CfdpFront.pduFront`, `directiveFront`) — and about the tail of
every PDU `pack()` (`CfdpFront.framePdu`). Length-determining octets: 0–3 (`AvoidsFixedHeader`).
The eight real PDU decoders (each proved to be "front, then body"), their `pack()` tails and the factory
are the subject of `Props/C04Pdu.lean`, which builds on the theorems of this section.
-/
namespace SpVerif.Props.C04
open SpVerif SpVerif.SpacePacket SpVerif.Crc SpVerif.PusCrc

/-! ## fault model: non-vacuity -/

/-- the admissible error patterns: at most 16 bits, not all zero -/
def Pattern (B : List Bool) : Prop := B.length ≤ 16 ∧ B ≠ List.replicate B.length false

instance (B : List Bool) : Decidable (Pattern B) := by unfold Pattern; infer_instance

example : Pattern [true] := by decide
example : Pattern [true, false, false, false, false, false, false, false,
                   false, false, false, false, false, false, false, true] := by decide
example : AvoidsLenField 31 1 ∧ AvoidsLenField 48 16 ∧ AvoidsLenField 16 16 ∧ ¬ AvoidsLenField 31 2 ∧
    ¬ AvoidsLenField 47 1 := by decide

/-- the declared length is a function of octets 4 and 5 only -/
theorem C04_declared_len_octets_4_5 (d d' : Bytes) (h4 : d'[4]? = d[4]?) (h5 : d'[5]? = d[5]?) :
    declaredLen d' = declaredLen d := declaredLen_congr h4 h5

/-- a burst that avoids octets 4–5 leaves every octet outside its window, and the declared length, unchanged -/
theorem C04_burst_local (d d' : Bytes) (k : Nat) (B : List Bool) (hb : Burst d d' k B) :
    d'.length = d.length ∧
    (∀ i, (8 * i + 7 < k ∨ k + B.length ≤ 8 * i) → d'[i]? = d[i]?) ∧
    (AvoidsLenField k B.length → declaredLen d' = declaredLen d) :=
  ⟨hb.length_eq, fun i h => hb.getElem?_eq i h, burst_declaredLen hb⟩

/-- `flipBurst` realises every burst, and only that -/
theorem C04_flipBurst_is_burst (d : Bytes) (k : Nat) (B : List Bool) (hin : k + B.length ≤ 8 * d.length) :
    Burst d (flipBurst d k B) k B ∧ ∀ d', Burst d d' k B → d' = flipBurst d k B :=
  ⟨flipBurst_spec d k B hin, fun _ h => h.eq_flipBurst⟩

/-- **generic CRC-frame theorem** (any decoder that checks residue zero over a frame): residue zero
    becomes non-zero under every admissible burst inside the frame -/
theorem C04_frame_burst (p : Bytes) (k : Nat) (B : List Bool) (hz : crc16 p = 0) (hp : Pattern B)
    (hin : k + B.length ≤ 8 * p.length) : crc16 (flipBurst p k B) ≠ 0 :=
  crc16_flipBurst_ne_zero p k B hz hp.1 hp.2 hin

/-- the same for a frame that is the first `n` octets of a longer buffer -/
theorem C04_frame_burst_prefix (d d' : Bytes) (n k : Nat) (B : List Bool) (hb : Burst d d' k B)
    (hn : n ≤ d.length) (hin : k + B.length ≤ 8 * n) (hz : crc16 (d.take n) = 0) (hp : Pattern B) :
    crc16 (d'.take n) ≠ 0 :=
  hb.crc_take_ne_zero n hn hin hz hp.1 hp.2

/-! ## telecommand -/
section TC
open SpVerif.PusTc

/-- **pack always recomputes the trailer**: for ANY field values (no well-formedness assumed — the
    state after arbitrary setters), whenever `pack` succeeds its output is `body ‖ CRC(body)`, has
    residue zero and passes `check_pus_crc`. -/
theorem C04_tc_pack_always_valid (t : Tc) (raw : Bytes) (h : t.pack = .ok raw) :
    (∃ body, t.packNoCrc = .ok body ∧ raw = body ++ crcTrailer body) ∧ crc16 raw = 0 ∧ checkPusCrc raw = true := by
  unfold Tc.pack at h
  cases hb : t.packNoCrc with
  | error e => simp [hb, bind, Except.bind] at h
  | ok body =>
    simp only [hb, bind, Except.bind, pure, Except.pure] at h
    have := Except.ok.inj h
    subst this
    exact ⟨⟨body, rfl, rfl⟩, crc16_residue body, by simp [checkPusCrc, crc16_residue]⟩

/-- in particular after the application-data setter -/
theorem C04_tc_pack_after_setter (t : Tc) (data raw : Bytes) (h : (t.setAppData data).pack = .ok raw) :
    crc16 raw = 0 ∧ checkPusCrc raw = true :=
  (C04_tc_pack_always_valid _ raw h).2

/-- **every valid telecommand passes**: it packs, the packed octets have residue zero, decode to the
    same telecommand (whatever follows in the buffer) and pass `check_pus_crc`. -/
theorem C04_tc_valid_passes (t : Tc) (wf : C02.WF t) (rest : Bytes) :
    ∃ p, t.pack = .ok p ∧ crc16 p = 0 ∧ checkPusCrc p = true ∧ Tc.unpack (p ++ rest) = .ok t ∧
      declaredLen (p ++ rest) = p.length := by
  refine ⟨C02.Spec.octets t, C02.C02_pack_exact t wf, ?_, C02.C02_crc_valid t, C02.C02_roundtrip t wf rest, ?_⟩
  · simpa [checkPusCrc] using C02.C02_crc_valid t
  · have h1 := (tc_accept_crc (C02.C02_roundtrip t wf rest)).1
    have h2 := (C02.C02_len t wf).1
    omega

/-- **acceptance implies CRC**: a returned telecommand means residue zero over exactly the first
    `declaredLen d` octets (which exist), where `declaredLen d` depends on octets 4–5 only. -/
theorem C04_tc_accept_implies_crc (d : Bytes) (t : Tc) (h : Tc.unpack d = .ok t) :
    declaredLen d ≤ d.length ∧ crc16 (d.take (declaredLen d)) = 0 ∧ t.packetLen = declaredLen d ∧
    checkPusCrc (d.take (declaredLen d)) = true := by
  obtain ⟨e, _, hle, hz⟩ := tc_accept_crc h
  exact ⟨hle, hz, e, by simp [checkPusCrc, hz]⟩

/-- **burst rejection, strongest form**: take ANY buffer the decoder accepts; corrupt it by any
    admissible burst that lies inside the declared packet and avoids octets 4–5. Then the decoder
    returns no telecommand, its error is a documented one, and `check_pus_crc` on the (unchanged-length)
    packet is false. -/
theorem C04_tc_burst_rejected_of_accepted (d d' : Bytes) (t : Tc) (k : Nat) (B : List Bool)
    (hacc : Tc.unpack d = .ok t) (hb : Burst d d' k B) (hp : Pattern B)
    (hin : k + B.length ≤ 8 * declaredLen d) (hav : AvoidsLenField k B.length) :
    (∃ e, Tc.unpack d' = .error e ∧ e.documented = true) ∧
    declaredLen d' = declaredLen d ∧ checkPusCrc (d'.take (declaredLen d')) = false := by
  obtain ⟨_, _, hle, hz⟩ := tc_accept_crc hacc
  have hne := burst_frame_crc hb hle hz hin hp.1 hp.2 hav
  refine ⟨?_, burst_declaredLen hb hav, by simp only [checkPusCrc, decide_eq_false_iff_not]; exact hne⟩
  cases hu : Tc.unpack d' with
  | ok t' => exact absurd (tc_accept_crc hu).2.2.2 hne
  | error e => exact ⟨e, rfl, C02.C02_documented d' e hu⟩

/-- **burst rejection for packed telecommands** (the statement of the property): for every valid
    telecommand, its packed octets `p` followed by any `rest`, every admissible burst inside `p` that
    avoids octets 4–5: no telecommand is returned, the error is documented, `check_pus_crc` is false. -/
theorem C04_tc_burst_rejected (t : Tc) (wf : C02.WF t) (p rest d' : Bytes) (k : Nat) (B : List Bool)
    (hpk : t.pack = .ok p) (hb : Burst (p ++ rest) d' k B) (hp : Pattern B)
    (hin : k + B.length ≤ 8 * p.length) (hav : AvoidsLenField k B.length) :
    (∃ e, Tc.unpack d' = .error e ∧ e.documented = true) ∧ checkPusCrc (d'.take p.length) = false := by
  obtain ⟨p0, hp0, _, _, hacc, hlen⟩ := C04_tc_valid_passes t wf rest
  have : p0 = p := Except.ok.inj (hp0.symm.trans hpk)
  subst this
  obtain ⟨h1, h2, h3⟩ := C04_tc_burst_rejected_of_accepted _ d' t k B hacc hb hp (by rw [hlen]; exact hin) hav
  rw [h2, hlen] at h3
  exact ⟨h1, h3⟩

/-- the packet alone (no trailing octets), corrupted by `flipBurst`: what the fault enumeration runs -/
theorem C04_tc_flip_rejected (t : Tc) (wf : C02.WF t) (p : Bytes) (k : Nat) (B : List Bool)
    (hpk : t.pack = .ok p) (hp : Pattern B) (hin : k + B.length ≤ 8 * p.length)
    (hav : AvoidsLenField k B.length) :
    (∃ e, Tc.unpack (flipBurst p k B) = .error e ∧ e.documented = true) ∧ checkPusCrc (flipBurst p k B) = false := by
  have hb : Burst (p ++ []) (flipBurst p k B) k B := by
    rw [List.append_nil]; exact flipBurst_spec p k B hin
  obtain ⟨h1, h2⟩ := C04_tc_burst_rejected t wf p [] _ k B hpk hb hp hin hav
  rw [← flipBurst_length p k B, List.take_length] at h2
  exact ⟨h1, h2⟩

/-- single-bit flips are the special case `B = [true]` -/
theorem C04_tc_bit_flip_rejected (t : Tc) (wf : C02.WF t) (p : Bytes) (k : Nat)
    (hpk : t.pack = .ok p) (hin : k < 8 * p.length) (hav : k < 32 ∨ 48 ≤ k) :
    (∃ e, Tc.unpack (flipBurst p k [true]) = .error e ∧ e.documented = true) ∧
    checkPusCrc (flipBurst p k [true]) = false :=
  C04_tc_flip_rejected t wf p k [true] hpk (by decide) (by simp only [List.length_singleton]; omega)
    (by unfold AvoidsLenField; simp only [List.length_singleton]; omega)

end TC

/-! ## telemetry (any timestamp length), service-17 and service-1 wrappers -/
section TM
open SpVerif.PusTm SpVerif.Srv1

theorem C04_tm_pack_always_valid (t : Tm) (raw : Bytes) (h : t.pack = .ok raw) :
    (∃ body, t.packNoCrc = .ok body ∧ raw = body ++ crcTrailer body) ∧ crc16 raw = 0 ∧
    PusTc.checkPusCrc raw = true := by
  unfold Tm.pack at h
  cases hb : t.packNoCrc with
  | error e => simp [hb, bind, Except.bind] at h
  | ok body =>
    simp only [hb, bind, Except.bind, pure, Except.pure] at h
    have := Except.ok.inj h
    subst this
    exact ⟨⟨body, rfl, rfl⟩, crc16_residue body, by simp [PusTc.checkPusCrc, crc16_residue]⟩

theorem C04_tm_pack_after_setter (t : Tm) (data raw : Bytes) (h : (t.setTmData data).pack = .ok raw) :
    crc16 raw = 0 ∧ PusTc.checkPusCrc raw = true :=
  (C04_tm_pack_always_valid _ raw h).2

/-- the service-1 wrapper packs through `PusTm.pack` -/
theorem C04_srv1_pack_always_valid (s : S1Tm) (raw : Bytes) (h : s.pack = .ok raw) :
    crc16 raw = 0 ∧ PusTc.checkPusCrc raw = true :=
  (C04_tm_pack_always_valid s.tm raw h).2

theorem C04_tm_valid_passes (t : Tm) (wf : C03.WF t) (rest : Bytes) :
    ∃ p, t.pack = .ok p ∧ crc16 p = 0 ∧ PusTc.checkPusCrc p = true ∧
      Tm.unpack (p ++ rest) t.sec.timestamp.length = .ok t ∧
      srv17Unpack (p ++ rest) t.sec.timestamp.length = .ok t ∧ declaredLen (p ++ rest) = p.length := by
  have hr := C03.C03_roundtrip t wf rest
  refine ⟨C03.Spec.octets t, C03.C03_pack_exact t wf, C03.C03_crc_valid t, ?_, hr, hr, ?_⟩
  · simp [PusTc.checkPusCrc, C03.C03_crc_valid t]
  · have h1 := (tm_accept_crc hr).1
    have h2 := (C03.C03_len t wf).1
    omega

theorem C04_tm_accept_implies_crc (d : Bytes) (n : Nat) (t : Tm) (h : Tm.unpack d n = .ok t) :
    declaredLen d ≤ d.length ∧ crc16 (d.take (declaredLen d)) = 0 ∧ t.packetLen = declaredLen d ∧
    PusTc.checkPusCrc (d.take (declaredLen d)) = true := by
  obtain ⟨e, _, hle, hz⟩ := tm_accept_crc h
  exact ⟨hle, hz, e, by simp [PusTc.checkPusCrc, hz]⟩

/-- the wrappers decode through `PusTm.unpack`: whatever they accept, `PusTm.unpack` accepted -/
theorem C04_wrappers_accept_implies_crc (d : Bytes) (n sb eb : Nat) :
    (∀ t, srv17Unpack d n = .ok t → crc16 (d.take (declaredLen d)) = 0) ∧
    (∀ s, S1Tm.unpack d n sb eb = .ok s → crc16 (d.take (declaredLen d)) = 0) := by
  constructor
  · intro t h; exact (tm_accept_crc (show Tm.unpack d n = .ok t from h)).2.2.2
  · intro s h
    unfold S1Tm.unpack at h
    cases hu : Tm.unpack d n with
    | error e => simp [hu, bind, Except.bind] at h
    | ok tm => exact (tm_accept_crc hu).2.2.2

/-- **burst rejection, strongest form** — the decoder may be configured with ANY timestamp length
    `n'` when it sees the corrupted buffer. -/
theorem C04_tm_burst_rejected_of_accepted (d d' : Bytes) (n n' : Nat) (t : Tm) (k : Nat) (B : List Bool)
    (hacc : Tm.unpack d n = .ok t) (hb : Burst d d' k B) (hp : Pattern B)
    (hin : k + B.length ≤ 8 * declaredLen d) (hav : AvoidsLenField k B.length) :
    (∃ e, Tm.unpack d' n' = .error e ∧ e.documented = true) ∧
    declaredLen d' = declaredLen d ∧ PusTc.checkPusCrc (d'.take (declaredLen d')) = false := by
  obtain ⟨_, _, hle, hz⟩ := tm_accept_crc hacc
  have hne := burst_frame_crc hb hle hz hin hp.1 hp.2 hav
  refine ⟨?_, burst_declaredLen hb hav, by simp only [PusTc.checkPusCrc, decide_eq_false_iff_not]; exact hne⟩
  cases hu : Tm.unpack d' n' with
  | ok t' => exact absurd (tm_accept_crc hu).2.2.2 hne
  | error e => exact ⟨e, rfl, C03.C03_documented d' n' e hu⟩

/-- **burst rejection for packed telemetry**, every timestamp (any length), every packet version -/
theorem C04_tm_burst_rejected (t : Tm) (wf : C03.WF t) (p rest d' : Bytes) (n' k : Nat) (B : List Bool)
    (hpk : t.pack = .ok p) (hb : Burst (p ++ rest) d' k B) (hp : Pattern B)
    (hin : k + B.length ≤ 8 * p.length) (hav : AvoidsLenField k B.length) :
    (∃ e, Tm.unpack d' n' = .error e ∧ e.documented = true) ∧ PusTc.checkPusCrc (d'.take p.length) = false := by
  obtain ⟨p0, hp0, _, _, hacc, _, hlen⟩ := C04_tm_valid_passes t wf rest
  have : p0 = p := Except.ok.inj (hp0.symm.trans hpk)
  subst this
  obtain ⟨h1, h2, h3⟩ := C04_tm_burst_rejected_of_accepted _ d' _ n' t k B hacc hb hp (by rw [hlen]; exact hin) hav
  rw [h2, hlen] at h3
  exact ⟨h1, h3⟩

theorem C04_tm_flip_rejected (t : Tm) (wf : C03.WF t) (p : Bytes) (n' k : Nat) (B : List Bool)
    (hpk : t.pack = .ok p) (hp : Pattern B) (hin : k + B.length ≤ 8 * p.length)
    (hav : AvoidsLenField k B.length) :
    (∃ e, Tm.unpack (flipBurst p k B) n' = .error e ∧ e.documented = true) ∧
    PusTc.checkPusCrc (flipBurst p k B) = false := by
  have hb : Burst (p ++ []) (flipBurst p k B) k B := by
    rw [List.append_nil]; exact flipBurst_spec p k B hin
  obtain ⟨h1, h2⟩ := C04_tm_burst_rejected t wf p [] _ n' k B hpk hb hp hin hav
  rw [← flipBurst_length p k B, List.take_length] at h2
  exact ⟨h1, h2⟩

theorem C04_tm_bit_flip_rejected (t : Tm) (wf : C03.WF t) (p : Bytes) (n' k : Nat)
    (hpk : t.pack = .ok p) (hin : k < 8 * p.length) (hav : k < 32 ∨ 48 ≤ k) :
    (∃ e, Tm.unpack (flipBurst p k [true]) n' = .error e ∧ e.documented = true) ∧
    PusTc.checkPusCrc (flipBurst p k [true]) = false :=
  C04_tm_flip_rejected t wf p n' k [true] hpk (by decide) (by simp only [List.length_singleton]; omega)
    (by unfold AvoidsLenField; simp only [List.length_singleton]; omega)

/-- **the wrappers reject too**: `Service17Tm.unpack` and `Service1Tm.unpack` (any step-id / error-code
    widths) fail with the very error `PusTm.unpack` fails with — never an object. -/
theorem C04_wrappers_burst_rejected (t : Tm) (wf : C03.WF t) (p rest d' : Bytes) (n' sb eb k : Nat)
    (B : List Bool) (hpk : t.pack = .ok p) (hb : Burst (p ++ rest) d' k B) (hp : Pattern B)
    (hin : k + B.length ≤ 8 * p.length) (hav : AvoidsLenField k B.length) :
    ∃ e, e.documented = true ∧ srv17Unpack d' n' = .error e ∧ S1Tm.unpack d' n' sb eb = .error e := by
  obtain ⟨⟨e, he, hd⟩, _⟩ := C04_tm_burst_rejected t wf p rest d' n' k B hpk hb hp hin hav
  refine ⟨e, hd, he, ?_⟩
  simp [S1Tm.unpack, he, bind, Except.bind]

end TM

/-! ## CFDP PDUs built with the CRC flag -/
section CFDP
open SpVerif.CfdpHeader SpVerif.CfdpFront SpVerif.CfdpCrc

/-- PDU length, header length and CRC flag are functions of octets 0–3 only -/
theorem C04_cfdp_declared_len_octets_0_3 (d d' : Bytes) (h : ∀ i, i < 4 → d'[i]? = d[i]?) :
    cfdpHeaderLen d' = cfdpHeaderLen d ∧ cfdpDeclaredLen d' = cfdpDeclaredLen d ∧ cfdpCrcFlag d' = cfdpCrcFlag d :=
  fixed_congr h

/-- **the tail of every PDU `pack()` always produces a valid trailer**: for ANY header field values,
    with the CRC flag the assembled PDU is `header ‖ body ‖ CRC(header ‖ body)`: residue zero. -/
theorem C04_cfdp_frame_always_valid (h : PduHeader) (body p : Bytes) (hf : framePdu h body = .ok p)
    (hc : h.conf.crcFlag = 1) : crc16 p = 0 := by
  unfold framePdu at hf
  cases hp : h.pack with
  | error e => simp [hp, bind, Except.bind] at hf
  | ok hd =>
    simp only [hp, bind, Except.bind, pure, Except.pure, hc, ↓reduceIte] at hf
    have := Except.ok.inj hf
    subst this
    exact crc16_residue _

/-- **every valid CRC-flagged PDU passes**: header in the C05 domain, any body, data-field length =
    |body| + 2: the framed PDU has residue zero, exactly the declared length, and the front of every
    decoder accepts it (whatever follows in the buffer), returning the header. -/
theorem C04_cfdp_valid_passes (h : PduHeader) (wf : C05.WF h) (body rest : Bytes) (hc : h.conf.crcFlag = 1)
    (hl : h.dataFieldLen = body.length + 2) :
    ∃ p, framePdu h body = .ok p ∧ crc16 p = 0 ∧ p.length = h.packetLen ∧ pduFront (p ++ rest) = .ok h ∧
      cfdpDeclaredLen (p ++ rest) = p.length ∧ cfdpCrcFlag (p ++ rest) = 1 := by
  let p := C05.Spec.octets h ++ body ++ crcTrailer (C05.Spec.octets h ++ body)
  have hf : framePdu h body = .ok p := by
    simp [framePdu, C05.C05_pack_exact h wf, bind, Except.bind, pure, Except.pure, hc, p]
  have hz : crc16 p = 0 := crc16_residue _
  have hlen : p.length = h.packetLen := by
    have := (C05.C05_len h wf).2.1
    simp only [p, List.length_append, crcTrailer, be16, List.length_cons, List.length_nil, PduHeader.packetLen]
    omega
  have hu : PduHeader.unpack (p ++ rest) = .ok h := by
    have : p ++ rest = C05.Spec.octets h ++ (body ++ crcTrailer (C05.Spec.octets h ++ body) ++ rest) := by
      simp [p]
    rw [this]; exact C05.C05_roundtrip h wf _
  have hv : h.verifyLengthAndChecksum (p ++ rest) = .ok h.packetLen := by
    rw [verify_eq]
    have g1 : ¬ (p ++ rest).length < h.packetLen := by simp only [List.length_append]; omega
    have g2 : ¬ (h.conf.crcFlag = 1 ∧ crc16 ((p ++ rest).take h.packetLen) ≠ 0) := by
      rw [← hlen, List.take_left' rfl]; simp [hz]
    rw [if_neg g1, if_neg g2]
  have hfr : pduFront (p ++ rest) = .ok h := (pduFront_ok_iff _ _).mpr ⟨hu, _, hv⟩
  obtain ⟨e1, e2, _, _⟩ := unpack_fixed hu
  exact ⟨p, hf, hz, hlen, hfr, by rw [← e1, hlen], by rw [← e2, hc]⟩

/-- **acceptance implies CRC**: `verify_length_and_checksum` returning for a header with the CRC flag
    means residue zero over exactly the declared PDU, which lies inside the buffer. -/
theorem C04_cfdp_accept_implies_crc (h : PduHeader) (d : Bytes) (n : Nat)
    (hv : h.verifyLengthAndChecksum d = .ok n) (hc : h.conf.crcFlag = 1) :
    n = h.packetLen ∧ h.packetLen ≤ d.length ∧ crc16 (d.take h.packetLen) = 0 :=
  verify_accept_crc hv hc

/-- the same seen from the buffer: any decoder front that returns on a buffer whose octet 0 has the
    CRC flag has seen residue zero over `cfdpDeclaredLen d` octets — a function of octets 0–3 only. -/
theorem C04_cfdp_front_accept_implies_crc (d : Bytes) (h : PduHeader) (ha : pduFront d = .ok h)
    (hc : cfdpCrcFlag d = 1) :
    h.packetLen = cfdpDeclaredLen d ∧ cfdpDeclaredLen d ≤ d.length ∧ crc16 (d.take (cfdpDeclaredLen d)) = 0 :=
  front_accept_crc ha hc

/-- **burst rejection at the common front**: take ANY buffer the front accepts as a CRC-flagged PDU
    and corrupt it by any admissible burst inside the declared PDU that avoids octets 0–3. Then the
    header still decodes to the same lengths and flag, `verify_length_and_checksum` raises
    `InvalidCrc`, and so do the plain front and the file-directive front. (What this means for the
    eight PDU decoders the driver executes is stated per decoder in `Props/C04Pdu.lean`; the former
    conjuncts "every `front >>= body` fails" were instances of `error >>= f = error` for an
    arbitrary `f` and have been dropped — `Proofs/CfdpCrcAccept.front_bind_error` keeps the fact as
    a lemma.) -/
theorem C04_cfdp_burst_rejected_of_accepted (d d' : Bytes) (h : PduHeader) (k : Nat) (B : List Bool)
    (ha : pduFront d = .ok h) (hc : cfdpCrcFlag d = 1) (hb : Burst d d' k B) (hp : Pattern B)
    (hin : k + B.length ≤ 8 * cfdpDeclaredLen d) (hav : AvoidsFixedHeader k) :
    (∃ h', PduHeader.unpack d' = .ok h' ∧ h'.packetLen = h.packetLen ∧ h'.conf.crcFlag = 1 ∧
        h'.verifyLengthAndChecksum d' = .error .crc) ∧
    pduFront d' = .error .crc ∧
    (∀ c, directiveFront d = .ok (h, c) → directiveFront d' = .error .crc) ∧
    cfdpDeclaredLen d' = cfdpDeclaredLen d ∧ crc16 (d'.take (cfdpDeclaredLen d')) ≠ 0 := by
  obtain ⟨h', hu', e1, _, e3, hv', hne⟩ := burst_verify_crc ha hc hb hp.1 hp.2 hin hav
  have hfr := burst_front_crc ha hc hb hp.1 hp.2 hin hav
  exact ⟨⟨h', hu', e1, e3, hv'⟩, hfr, fun c hd => burst_directiveFront_crc hd hc hb hp.1 hp.2 hin hav,
    (fixed_congr (burst_fixed hb hav)).2.1, hne⟩

/-- **burst rejection for packed CRC-flagged PDUs** (the statement of the property at the level of
    the common front): valid header, any body, the framed PDU `p` followed by any `rest`, every
    admissible burst inside `p` that avoids octets 0–3: the checksum error, never an object. -/
theorem C04_cfdp_burst_rejected (h : PduHeader) (wf : C05.WF h) (body p rest d' : Bytes) (k : Nat) (B : List Bool)
    (hc : h.conf.crcFlag = 1) (hl : h.dataFieldLen = body.length + 2) (hf : framePdu h body = .ok p)
    (hb : Burst (p ++ rest) d' k B) (hp : Pattern B) (hin : k + B.length ≤ 8 * p.length)
    (hav : AvoidsFixedHeader k) :
    pduFront d' = .error .crc ∧ crc16 (d'.take p.length) ≠ 0 := by
  obtain ⟨p0, hf0, _, _, hfr, hdl, hcf⟩ := C04_cfdp_valid_passes h wf body rest hc hl
  have : p0 = p := Except.ok.inj (hf0.symm.trans hf)
  subst this
  obtain ⟨_, h2, _, h5, h6⟩ :=
    C04_cfdp_burst_rejected_of_accepted _ d' h k B hfr hcf hb hp (by rw [hdl]; exact hin) hav
  rw [h5, hdl] at h6
  exact ⟨h2, h6⟩

/-- the PDU alone, corrupted by `flipBurst`: what the fault enumeration runs against the real classes -/
theorem C04_cfdp_flip_rejected (h : PduHeader) (wf : C05.WF h) (body p : Bytes) (k : Nat) (B : List Bool)
    (hc : h.conf.crcFlag = 1) (hl : h.dataFieldLen = body.length + 2) (hf : framePdu h body = .ok p)
    (hp : Pattern B) (hin : k + B.length ≤ 8 * p.length) (hav : AvoidsFixedHeader k) :
    pduFront (flipBurst p k B) = .error .crc ∧ crc16 (flipBurst p k B) ≠ 0 := by
  have hb : Burst (p ++ []) (flipBurst p k B) k B := by
    rw [List.append_nil]; exact flipBurst_spec p k B hin
  obtain ⟨h1, h3⟩ := C04_cfdp_burst_rejected h wf body p [] _ k B hc hl hf hb hp hin hav
  rw [← flipBurst_length p k B, List.take_length] at h3
  exact ⟨h1, h3⟩

end CFDP

-- non-vacuity: the hypotheses of the rejection theorems are met by concrete packets and bursts
example : C02.WF ⟨⟨0, 1, 1, 0x7FF, 3, 16383, 8⟩, ⟨0b1010, 17, 1, 0xBEEF⟩, [1, 2]⟩ ∧
    Pattern [true, false, true] ∧ AvoidsLenField 117 3 ∧ 117 + 3 ≤ 8 * 15 := by
  refine ⟨⟨by decide, ?_, by decide⟩, by decide, by decide, by decide⟩
  unfold C02.WFSec; decide

example : C03.WF ⟨⟨5, 0, 1, 0x7FF, 3, 16383, 13⟩, ⟨9, 17, 2, 0xABCD, 0xBEEF, [1, 2, 3]⟩, [7, 8]⟩ ∧
    Pattern [true, true] ∧ AvoidsLenField 30 2 := by
  refine ⟨⟨by decide, ?_, by decide⟩, by decide, by decide⟩
  unfold C03.WFSec; decide

-- a CRC-flagged file-directive header (2-octet entity ids, 4-octet sequence number) with a 7-octet body
example : C05.WF ⟨0, 0, 9, ⟨⟨2, 0x1234⟩, ⟨2, 0xFFFF⟩, ⟨4, 7⟩, 1, 0, 1, 0, 0⟩⟩ ∧
    (9 : Nat) = ([4, 0x50, 1, 2, 3, 4, 5] : Bytes).length + 2 ∧ CfdpCrc.AvoidsFixedHeader 32 ∧ Pattern [true] := by
  refine ⟨?_, by decide, by decide, by decide⟩
  unfold C05.WF C05.WFField CfdpHeader.okWidth; decide

end SpVerif.Props.C04
