import SpVerif.Proofs.CfdpHeader
/-!
# C05 — CFDP fixed PDU header is encoded exactly per CCSDS 727.0-B-5 and round-trips

Property theorems only. `Spec.octets` is the layout of CCSDS 727.0-B-5 §5.1 (table 5-1) as arithmetic:
octet 0 = version `001` (3 bits) | PDU type | direction | transmission mode | CRC flag | large-file flag,
octets 1,2 = PDU data field length big-endian,
octet 3 = segmentation control | (entity-ID length − 1) (3 bits) | segment-metadata flag | (seq-number length − 1) (3 bits),
then source entity ID ‖ transaction sequence number ‖ destination entity ID, each big-endian.
-/
namespace SpVerif.Props.C05
open SpVerif SpVerif.CfdpHeader

/-- a byte field the header can carry: width 1, 2, 4 or 8 and a value of that width -/
def WFField (f : BF) : Prop := okWidth f.width ∧ f.value < 256 ^ f.width

/-- the domain the statement quantifies over: seven one-bit flags, a 16-bit data-field length,
    entity-ID width and sequence-number width in {1,2,4,8} (both IDs of the same width) and every
    value of those widths -/
def WF (h : PduHeader) : Prop :=
  h.pduType < 2 ∧ h.conf.direction < 2 ∧ h.conf.transMode < 2 ∧ h.conf.crcFlag < 2 ∧ h.conf.fileFlag < 2 ∧
  h.conf.segCtrl < 2 ∧ h.segMeta < 2 ∧ h.dataFieldLen < 65536 ∧
  WFField h.conf.source ∧ WFField h.conf.seqNum ∧ WFField h.conf.dest ∧
  h.conf.dest.width = h.conf.source.width

instance (f : BF) : Decidable (WFField f) := by unfold WFField; infer_instance
instance (h : PduHeader) : Decidable (WF h) := by unfold WF; infer_instance

/-- what the standard prescribes -/
def Spec.octets (h : PduHeader) : Bytes :=
  [u8 (32 + h.pduType * 16 + h.conf.direction * 8 + h.conf.transMode * 4 + h.conf.crcFlag * 2 + h.conf.fileFlag),
   u8 (h.dataFieldLen / 256), u8 (h.dataFieldLen % 256),
   u8 (h.conf.segCtrl * 128 + (h.conf.source.width - 1) * 16 + h.segMeta * 8 + (h.conf.seqNum.width - 1))]
  ++ beBytes h.conf.source.width h.conf.source.value
  ++ beBytes h.conf.seqNum.width h.conf.seqNum.value
  ++ beBytes h.conf.source.width h.conf.dest.value

-- arithmetic facts, proved in an empty context
private theorem a0 (t d m c l : Nat) (ht : t < 2) (hd : d < 2) (hm : m < 2) (hc : c < 2) (hl : l < 2) :
    (32 + t * 16 + d * 8 + m * 4 + c * 2 + l) % 256 / 32 = 1 ∧
    (32 + t * 16 + d * 8 + m * 4 + c * 2 + l) % 256 / 16 % 2 = t ∧
    (32 + t * 16 + d * 8 + m * 4 + c * 2 + l) % 256 / 8 % 2 = d ∧
    (32 + t * 16 + d * 8 + m * 4 + c * 2 + l) % 256 / 4 % 2 = m ∧
    (32 + t * 16 + d * 8 + m * 4 + c * 2 + l) % 256 / 2 % 2 = c ∧
    (32 + t * 16 + d * 8 + m * 4 + c * 2 + l) % 256 % 2 = l := by omega
private theorem a3 (g i m j : Nat) (hg : g < 2) (hi : 1 ≤ i ∧ i ≤ 8) (hm : m < 2) (hj : 1 ≤ j ∧ j ≤ 8) :
    (g * 128 + (i - 1) * 16 + m * 8 + (j - 1)) % 256 / 128 % 2 = g ∧
    (g * 128 + (i - 1) * 16 + m * 8 + (j - 1)) % 256 / 16 % 8 + 1 = i ∧
    (g * 128 + (i - 1) * 16 + m * 8 + (j - 1)) % 256 / 8 % 2 = m ∧
    (g * 128 + (i - 1) * 16 + m * 8 + (j - 1)) % 256 % 8 + 1 = j := by omega
private theorem a12 (n : Nat) (h : n < 65536) : n / 256 % 256 * 256 + n % 256 % 256 = n := by omega
private theorem a1 (n : Nat) (h : n < 65536) : n / 256 % 256 = n / 256 := by omega
private theorem b0 (x : Nat) (_hx : x < 256) (hv : x / 32 = 1) :
    32 + x / 16 % 2 * 16 + x / 8 % 2 * 8 + x / 4 % 2 * 4 + x / 2 % 2 * 2 + x % 2 = x := by omega
private theorem b3 (x : Nat) (hx : x < 256) :
    x / 128 % 2 * 128 + (x / 16 % 8 + 1 - 1) * 16 + x / 8 % 2 * 8 + (x % 8 + 1 - 1) = x := by omega
private theorem b12 (x y : Nat) (hy : y < 256) : (x * 256 + y) / 256 = x ∧ (x * 256 + y) % 256 = y := by omega

/-- **pack = standard layout**, for every flag combination, width combination, ID / sequence
    value and data-field length. -/
theorem C05_pack_exact (h : PduHeader) (wf : WF h) : h.pack = .ok (Spec.octets h) := by
  obtain ⟨ht, hd, hm, hc, hl, hg, hs, hn, ⟨hsw, _⟩, ⟨hqw, _⟩, _, hdw⟩ := wf
  have p1 := okWidth_pos hsw
  have p2 := okWidth_le hsw
  have q1 := okWidth_pos hqw
  have q2 := okWidth_le hqw
  have g : ¬ (h.conf.source.width = 0 ∨ h.conf.seqNum.width = 0) := by omega
  unfold PduHeader.pack
  rw [byteOfN_ok (show 32 + h.pduType * 16 + h.conf.direction * 8 + h.conf.transMode * 4
        + h.conf.crcFlag * 2 + h.conf.fileFlag < 256 by omega),
    byteOfN_ok (show h.conf.segCtrl * 128 + (h.conf.source.width - 1) * 16 + h.segMeta * 8
        + (h.conf.seqNum.width - 1) < 256 by omega)]
  simp only [g, ↓reduceIte, bind, Except.bind, pure, Except.pure, Spec.octets, BF.bytes, a1 _ hn, hdw]

/-- **length**: 4 + 2·idwidth + seqwidth, which is what `header_len` and `PduConfig.header_len()` report -/
theorem C05_len (h : PduHeader) (wf : WF h) :
    (Spec.octets h).length = 4 + 2 * h.conf.source.width + h.conf.seqNum.width ∧
    h.headerLen = (Spec.octets h).length ∧ h.conf.headerLen = (Spec.octets h).length := by
  obtain ⟨_, _, _, _, _, _, _, _, _, _, _, hdw⟩ := wf
  simp only [Spec.octets, List.length_append, List.length_cons, List.length_nil, beBytes_length,
    PduHeader.headerLen, PduConfig.headerLen, hdw]
  omega

theorem C05_pack_len (h : PduHeader) (wf : WF h) : ∃ b, h.pack = .ok b ∧ b.length = h.headerLen :=
  ⟨_, C05_pack_exact h wf, (C05_len h wf).2.1.symm⟩

/-- `packet_len` = data-field length + header length -/
theorem C05_packet_len (h : PduHeader) :
    h.packetLen = h.dataFieldLen + (4 + 2 * h.conf.source.width + h.conf.seqNum.width) := rfl

/-- the constructor accepts every member of the domain and stores it unchanged -/
theorem C05_new (h : PduHeader) (wf : WF h) :
    PduHeader.new h.pduType h.segMeta h.dataFieldLen h.conf = .ok h := by
  obtain ⟨_, _, _, _, _, _, _, hn, _, _, _, hdw⟩ := wf
  have g : ¬ (65535 < h.dataFieldLen ∨ h.conf.source.width ≠ h.conf.dest.width) := by omega
  rw [new_eq, if_neg g]

/-- **decode ∘ encode = id** for every member of the domain, whatever follows the header
    (one theorem for all 2^7 flag combinations × 16 width combinations × all values × all lengths) -/
theorem C05_roundtrip (h : PduHeader) (wf : WF h) (rest : Bytes) :
    PduHeader.unpack (Spec.octets h ++ rest) = .ok h := by
  obtain ⟨ht, hd, hm, hc, hl, hg, hs, hn, ⟨hsw, hsv⟩, ⟨hqw, hqv⟩, ⟨_, hdv⟩, hdw⟩ := wf
  have p1 := okWidth_pos hsw
  have p2 := okWidth_le hsw
  have q1 := okWidth_pos hqw
  have q2 := okWidth_le hqw
  have A0 := a0 _ _ _ _ _ ht hd hm hc hl
  have A3 := a3 _ _ _ _ hg ⟨p1, p2⟩ hs ⟨q1, q2⟩
  have e : Spec.octets h ++ rest =
      u8 (32 + h.pduType * 16 + h.conf.direction * 8 + h.conf.transMode * 4 + h.conf.crcFlag * 2 + h.conf.fileFlag)
      :: u8 (h.dataFieldLen / 256) :: u8 (h.dataFieldLen % 256)
      :: u8 (h.conf.segCtrl * 128 + (h.conf.source.width - 1) * 16 + h.segMeta * 8 + (h.conf.seqNum.width - 1))
      :: (beBytes h.conf.source.width h.conf.source.value ++ beBytes h.conf.seqNum.width h.conf.seqNum.value
          ++ beBytes h.conf.source.width h.conf.dest.value ++ rest) := by
    simp [Spec.octets]
  rw [e, unpack_layout]
  · simp only [u8_toNat, A0, A3, a12 _ hn, beNat_beBytes _ _ hsv, beNat_beBytes _ _ hqv]
    rw [hdw] at hdv
    rw [beNat_beBytes _ _ hdv]
    cases h with
    | mk t m n c =>
      cases c with
      | mk s d q tm ff cf dir sc =>
        cases s; cases d; cases q
        simp only at hdw
        simp only [hdw]
  · simp only [u8_toNat]; exact A0.1
  · simp only [u8_toNat, A3.2.1]; exact hsw
  · simp only [u8_toNat, A3.2.2.2]; exact hqw
  · simp only [u8_toNat, A3.2.1, beBytes_length]
  · simp only [u8_toNat, A3.2.2.2, beBytes_length]
  · simp only [u8_toNat, A3.2.1, beBytes_length]

/-- the packed header decodes to the original (pack and unpack composed) -/
theorem C05_unpack_pack (h : PduHeader) (wf : WF h) (rest : Bytes) :
    (h.pack >>= fun b => PduHeader.unpack (b ++ rest)) = .ok h := by
  rw [C05_pack_exact h wf]; exact C05_roundtrip h wf rest

/-- two members of the domain with the same octets are the same header -/
theorem C05_pack_injective (h1 h2 : PduHeader) (w1 : WF h1) (w2 : WF h2)
    (he : Spec.octets h1 = Spec.octets h2) : h1 = h2 := by
  have r1 := C05_roundtrip h1 w1 []
  have r2 := C05_roundtrip h2 w2 []
  rw [he, r2] at r1
  cases r1; rfl

private theorem wf_decoded (x0 x1 x2 x3 : UInt8) (r : Bytes)
    (hi : okWidth (x3.toNat / 16 % 8 + 1)) (hs : okWidth (x3.toNat % 8 + 1))
    (hl : ¬ r.length < 2 * (x3.toNat / 16 % 8 + 1) + (x3.toNat % 8 + 1)) :
    WF (decoded x0.toNat x1.toNat x2.toNat x3.toNat r) := by
  have c1 := toNat_lt x1
  have c2 := toNat_lt x2
  have l1 : (r.take (x3.toNat / 16 % 8 + 1)).length = x3.toNat / 16 % 8 + 1 := by simp; omega
  have l2 : ((r.drop (x3.toNat / 16 % 8 + 1)).take (x3.toNat % 8 + 1)).length = x3.toNat % 8 + 1 := by
    simp; omega
  have l3 : ((r.drop (x3.toNat / 16 % 8 + 1 + (x3.toNat % 8 + 1))).take (x3.toNat / 16 % 8 + 1)).length
      = x3.toNat / 16 % 8 + 1 := by simp; omega
  have v1 := beNat_lt (r.take (x3.toNat / 16 % 8 + 1))
  have v2 := beNat_lt ((r.drop (x3.toNat / 16 % 8 + 1)).take (x3.toNat % 8 + 1))
  have v3 := beNat_lt ((r.drop (x3.toNat / 16 % 8 + 1 + (x3.toNat % 8 + 1))).take (x3.toNat / 16 % 8 + 1))
  rw [l1] at v1; rw [l2] at v2; rw [l3] at v3
  unfold WF WFField decoded
  refine ⟨?_, ?_, ?_, ?_, ?_, ?_, ?_, ?_, ⟨hi, v1⟩, ⟨hs, v2⟩, ⟨hi, v3⟩, rfl⟩ <;> simp only <;> omega

/-- **encode ∘ decode = identity on the header octets**: whenever the decoder accepts, the result
    is in the domain, the buffer holds the whole header, and re-encoding gives exactly the first
    `header_len` octets of the buffer (with `C05_roundtrip`: a bijection). -/
theorem C05_decode_encode (b : Bytes) (h : PduHeader) (hu : PduHeader.unpack b = .ok h) :
    WF h ∧ h.headerLen ≤ b.length ∧ h.pack = .ok (b.take h.headerLen) := by
  by_cases h4 : b.length < 4
  · rw [unpack_short b h4] at hu; cases hu
  · obtain ⟨x0, x1, x2, x3, r, rfl⟩ := exists_cons4 b (by omega)
    rw [unpack_cons4] at hu
    split at hu
    · cases hu
    · split at hu
      · cases hu
      · split at hu
        · cases hu
        · split at hu
          · cases hu
          · rename_i hv hi hs hl
            have hi' : okWidth (x3.toNat / 16 % 8 + 1) := Classical.not_not.mp hi
            have hs' : okWidth (x3.toNat % 8 + 1) := Classical.not_not.mp hs
            have hv' : x0.toNat / 32 = 1 := Classical.not_not.mp hv
            have wf := wf_decoded x0 x1 x2 x3 r hi' hs' hl
            cases hu
            refine ⟨wf, ?_, ?_⟩
            · simp only [decoded, PduHeader.headerLen, List.length_cons]; omega
            · rw [C05_pack_exact _ wf]
              congr 1
              have c0 := toNat_lt x0
              have c1 := toNat_lt x1
              have c2 := toNat_lt x2
              have c3 := toNat_lt x3
              have l1 : (r.take (x3.toNat / 16 % 8 + 1)).length = x3.toNat / 16 % 8 + 1 := by simp; omega
              have l2 : ((r.drop (x3.toNat / 16 % 8 + 1)).take (x3.toNat % 8 + 1)).length = x3.toNat % 8 + 1 := by
                simp; omega
              have l3 : ((r.drop (x3.toNat / 16 % 8 + 1 + (x3.toNat % 8 + 1))).take (x3.toNat / 16 % 8 + 1)).length
                  = x3.toNat / 16 % 8 + 1 := by simp; omega
              have r1 := beBytes_beNat (r.take (x3.toNat / 16 % 8 + 1))
              have r2 := beBytes_beNat ((r.drop (x3.toNat / 16 % 8 + 1)).take (x3.toNat % 8 + 1))
              have r3 := beBytes_beNat ((r.drop (x3.toNat / 16 % 8 + 1 + (x3.toNat % 8 + 1))).take (x3.toNat / 16 % 8 + 1))
              rw [l1] at r1; rw [l2] at r2; rw [l3] at r3
              simp only [Spec.octets, decoded, PduHeader.headerLen, b0 _ c0 hv', b3 _ c3, (b12 _ _ c2).1,
                (b12 _ _ c2).2, u8_toNat_self, r1, r2, r3]
              have e : 4 + 2 * (x3.toNat / 16 % 8 + 1) + (x3.toNat % 8 + 1)
                  = ((x3.toNat / 16 % 8 + 1) + (x3.toNat % 8 + 1) + (x3.toNat / 16 % 8 + 1)) + 4 := by omega
              rw [e]
              simp only [List.take_succ_cons, List.cons_append, List.nil_append, List.take_add, List.drop_drop,
                List.append_assoc]

/-- source and destination IDs of different widths are refused (`ValueError`), by the constructor
    and by `set_entity_ids` -/
theorem C05_refuse_widths (t m n : Nat) (c : PduConfig) (hw : c.source.width ≠ c.dest.width) :
    PduHeader.new t m n c = .error .value := by
  rw [new_eq, if_pos (Or.inr hw)]

theorem C05_refuse_widths_setter (h : PduHeader) (s d : BF) (hw : s.width ≠ d.width) :
    h.setEntityIds s d = .error .value := by
  rw [setEntityIds_eq, if_pos hw]

/-- a data-field length above 65 535 is refused (`ValueError`), by the constructor and by the setter -/
theorem C05_refuse_len (t m n : Nat) (c : PduConfig) (hn : 65535 < n) :
    PduHeader.new t m n c = .error .value := by
  rw [new_eq, if_pos (Or.inl hn)]

theorem C05_refuse_len_setter (h : PduHeader) (n : Nat) (hn : 65535 < n) :
    h.setDataFieldLen n = .error .value := by
  rw [setDataFieldLen_eq, if_pos hn]

/-- the setters accept what is allowed and change nothing else -/
theorem C05_setters_accept (h : PduHeader) (n : Nat) (s d : BF) (hn : n ≤ 65535) (hw : s.width = d.width) :
    h.setDataFieldLen n = .ok { h with dataFieldLen := n } ∧
    h.setEntityIds s d = .ok { h with conf := { h.conf with source := s, dest := d } } := by
  constructor
  · rw [setDataFieldLen_eq, if_neg (by omega)]
  · rw [setEntityIds_eq, if_neg (by omega)]

/-- an unsupported version (anything but `001`) is refused with `UnsupportedCfdpVersion`,
    for every buffer of at least four octets -/
theorem C05_refuse_version (x0 x1 x2 x3 : UInt8) (r : Bytes) (hv : x0.toNat / 32 ≠ 1) :
    PduHeader.unpack (x0 :: x1 :: x2 :: x3 :: r) = .error .cfdpVersion := by
  rw [unpack_cons4, if_pos hv]

/-- a width code other than 1/2/4/8 (entity IDs or sequence number) is refused with `ValueError` -/
theorem C05_refuse_code (x0 x1 x2 x3 : UInt8) (r : Bytes) (hv : x0.toNat / 32 = 1)
    (hc : ¬ okWidth (x3.toNat / 16 % 8 + 1) ∨ ¬ okWidth (x3.toNat % 8 + 1)) :
    PduHeader.unpack (x0 :: x1 :: x2 :: x3 :: r) = .error .value := by
  rw [unpack_cons4, if_neg (by omega)]
  rcases hc with hc | hc
  · rw [if_pos hc]
  · by_cases hi : ¬ okWidth (x3.toNat / 16 % 8 + 1)
    · rw [if_pos hi]
    · rw [if_neg hi, if_pos hc]

/-- `check_len_in_bytes` accepts exactly 1, 2, 4, 8 -/
theorem C05_check_len (n : Nat) :
    checkLenInBytes n = if n = 1 ∨ n = 2 ∨ n = 4 ∨ n = 8 then .ok n else .error .value := rfl

/-- fewer than four octets are refused with the documented too-short error (a `ValueError`) -/
theorem C05_short (b : Bytes) (h : b.length < 4) : PduHeader.unpack b = .error .value :=
  unpack_short b h

/-- every strict prefix of a packed header is refused with `ValueError` -/
theorem C05_truncated (h : PduHeader) (wf : WF h) (k : Nat) (hk : k < h.headerLen) :
    PduHeader.unpack ((Spec.octets h).take k) = .error .value := by
  have hlen := (C05_len h wf).2.1
  by_cases h4 : k < 4
  · apply unpack_short; simp; omega
  · obtain ⟨ht, hd, hm, hc, hl, hg, hs, hn, ⟨hsw, hsv⟩, ⟨hqw, hqv⟩, ⟨_, hdv⟩, hdw⟩ := wf
    have p1 := okWidth_pos hsw
    have p2 := okWidth_le hsw
    have q1 := okWidth_pos hqw
    have q2 := okWidth_le hqw
    have A0 := a0 _ _ _ _ _ ht hd hm hc hl
    have A3 := a3 _ _ _ _ hg ⟨p1, p2⟩ hs ⟨q1, q2⟩
    obtain ⟨j, rfl⟩ : ∃ j, k = j + 4 := ⟨k - 4, by omega⟩
    have e : (Spec.octets h).take (j + 4) =
        u8 (32 + h.pduType * 16 + h.conf.direction * 8 + h.conf.transMode * 4 + h.conf.crcFlag * 2 + h.conf.fileFlag)
        :: u8 (h.dataFieldLen / 256) :: u8 (h.dataFieldLen % 256)
        :: u8 (h.conf.segCtrl * 128 + (h.conf.source.width - 1) * 16 + h.segMeta * 8 + (h.conf.seqNum.width - 1))
        :: (beBytes h.conf.source.width h.conf.source.value ++ beBytes h.conf.seqNum.width h.conf.seqNum.value
            ++ beBytes h.conf.source.width h.conf.dest.value).take j := by
      simp [Spec.octets]
    rw [e, unpack_cons4]
    have g4 : ((beBytes h.conf.source.width h.conf.source.value ++ beBytes h.conf.seqNum.width h.conf.seqNum.value
            ++ beBytes h.conf.source.width h.conf.dest.value).take j).length
          < 2 * h.conf.source.width + h.conf.seqNum.width := by
      simp only [List.length_take, List.length_append, beBytes_length]
      unfold PduHeader.headerLen at hk
      omega
    simp only [u8_toNat, A0.1, A3.2.1, A3.2.2.2, ne_eq, not_true_eq_false, hsw, hqw, ↓reduceIte, g4]

/-- `header_len_from_raw` agrees with `header_len` of the decoded header -/
theorem C05_header_len_from_raw (b : Bytes) (h : PduHeader) (hu : PduHeader.unpack b = .ok h) :
    headerLenFromRaw b = .ok h.headerLen := by
  by_cases h4 : b.length < 4
  · rw [unpack_short b h4] at hu; cases hu
  · obtain ⟨x0, x1, x2, x3, r, rfl⟩ := exists_cons4 b (by omega)
    rw [unpack_cons4] at hu
    rw [headerLenFromRaw_cons4]
    split at hu
    · cases hu
    · split at hu
      · cases hu
      · split at hu
        · cases hu
        · split at hu
          · cases hu
          · cases hu; rfl

/-- … and with the length of the packed header, whatever follows -/
theorem C05_header_len_from_raw_pack (h : PduHeader) (wf : WF h) (rest : Bytes) :
    headerLenFromRaw (Spec.octets h ++ rest) = .ok (Spec.octets h).length := by
  rw [C05_header_len_from_raw _ h (C05_roundtrip h wf rest), (C05_len h wf).2.1]

/-- `header_len_from_raw` refuses fewer than four octets with `ValueError` and is total otherwise -/
theorem C05_header_len_from_raw_total (b : Bytes) :
    (b.length < 4 → headerLenFromRaw b = .error .value) ∧
    (4 ≤ b.length → ∃ n, headerLenFromRaw b = .ok n ∧ 7 ≤ n ∧ n ≤ 28) := by
  constructor
  · exact headerLenFromRaw_short b
  · intro h4
    obtain ⟨x0, x1, x2, x3, r, rfl⟩ := exists_cons4 b h4
    exact ⟨_, headerLenFromRaw_cons4 x0 x1 x2 x3 r, by omega, by omega⟩

/-- the decoder fails, for any octet string whatever, only with `ValueError` or
    `UnsupportedCfdpVersion` (never IndexError / struct.error) -/
theorem C05_unpack_errors (b : Bytes) (e : Err) (h : PduHeader.unpack b = .error e) :
    e = .value ∨ e = .cfdpVersion := unpack_error b e h

theorem C05_unpack_documented (b : Bytes) : Documented (PduHeader.unpack b) := unpack_documented b

/-- the decoder reads nothing beyond the header: the result depends only on the first
    `header_len` octets -/
theorem C05_unpack_prefix (b : Bytes) (h : PduHeader) (hu : PduHeader.unpack b = .ok h) (rest : Bytes) :
    PduHeader.unpack (b.take h.headerLen ++ rest) = .ok h := by
  obtain ⟨wf, _, hp⟩ := C05_decode_encode b h hu
  rw [C05_pack_exact h wf] at hp
  have he := Except.ok.inj hp
  rw [← he]
  exact C05_roundtrip h wf rest

/-- a header whose IDs or sequence number are empty byte fields (`PduConfig.empty()`) cannot be
    packed: `ValueError` -/
theorem C05_pack_empty_width (h : PduHeader) (h0 : h.conf.source.width = 0 ∨ h.conf.seqNum.width = 0) :
    h.pack = .error .value := by
  unfold PduHeader.pack byteOfN
  split
  · simp [bind, Except.bind, throw, throwThe, MonadExceptOf.throw]
  · simp [bind, Except.bind]

/-- `verify_length_and_checksum`: complete verdict — too short → `ValueError`; CRC flag set and
    CRC-16 over exactly the declared PDU non-zero → `InvalidCrc`; otherwise `packet_len` -/
theorem C05_verify (h : PduHeader) (d : Bytes) :
    h.verifyLengthAndChecksum d =
      if d.length < h.packetLen then .error .value
      else if h.conf.crcFlag = 1 ∧ Crc.crc16 (d.take h.packetLen) ≠ 0 then .error .crc
      else .ok h.packetLen := verify_eq h d

/-- a PDU body followed by its CRC-16 trailer (and anything after it) passes the check -/
theorem C05_verify_accepts_trailer (h : PduHeader) (m rest : Bytes) (hl : m.length + 2 = h.packetLen) :
    h.verifyLengthAndChecksum (m ++ Crc.crcTrailer m ++ rest) = .ok h.packetLen := by
  have hlen : (m ++ Crc.crcTrailer m).length = h.packetLen := by
    simp [Crc.crcTrailer, Crc.be16]; omega
  rw [verify_eq]
  have g1 : ¬ (m ++ Crc.crcTrailer m ++ rest).length < h.packetLen := by
    simp only [List.length_append] at hlen ⊢; omega
  have t : (m ++ Crc.crcTrailer m ++ rest).take h.packetLen = m ++ Crc.crcTrailer m := List.take_left' hlen
  rw [if_neg g1, t, Crc.crc16_residue]
  simp

-- non-vacuity: concrete non-trivial members of the domain (8-octet IDs, 4-octet sequence number,
-- every flag set) and the prescribed octets
example : WF ⟨1, 1, 0xFEDC, ⟨⟨8, 0x0102030405060708⟩, ⟨8, 0xF1F2F3F4F5F6F7F8⟩, ⟨4, 0xA1A2A3A4⟩, 1, 1, 1, 1, 1⟩⟩ := by
  decide
example : Spec.octets ⟨1, 1, 0xFEDC, ⟨⟨8, 0x0102030405060708⟩, ⟨8, 0xF1F2F3F4F5F6F7F8⟩, ⟨4, 0xA1A2A3A4⟩, 1, 1, 1, 1, 1⟩⟩
    = [0x3F, 0xFE, 0xDC, 0xFB, 1, 2, 3, 4, 5, 6, 7, 8, 0xA1, 0xA2, 0xA3, 0xA4,
       0xF1, 0xF2, 0xF3, 0xF4, 0xF5, 0xF6, 0xF7, 0xF8] := by decide
example : WF ⟨0, 0, 7, ⟨⟨1, 255⟩, ⟨1, 0⟩, ⟨2, 0x1234⟩, 0, 0, 0, 0, 0⟩⟩ := by decide
example : Spec.octets ⟨0, 0, 7, ⟨⟨1, 255⟩, ⟨1, 0⟩, ⟨2, 0x1234⟩, 0, 0, 0, 0, 0⟩⟩ = [0x20, 0, 7, 0x01, 255, 0x12, 0x34, 0] := by
  decide
-- refusals are not vacuous either
example : PduHeader.new 0 0 65536 PduConfig.default = .error .value := by rfl
example : PduHeader.new 0 0 0 { PduConfig.default with dest := ⟨2, 0⟩ } = .error .value := by rfl
example : PduHeader.unpack [0x40, 0, 0, 0x11, 0, 0, 0, 0, 0, 0, 0] = .error .cfdpVersion :=
  C05_refuse_version _ _ _ _ _ (by decide)
example : PduHeader.unpack [0x20, 0, 0, 0x20, 0, 0, 0, 0, 0, 0, 0] = .error .value :=
  C05_refuse_code _ _ _ _ _ (by decide) (Or.inl (by decide))

end SpVerif.Props.C05
