import SpVerif.Model.Cds
/-!
# C14 — CDS short timestamps encode exactly and agree with calendar arithmetic

Property theorems only. `Spec.octets` is the CCSDS 301.0-B-4 §3.3 "CDS" layout for the short
variant (P-field `0100 0000`: time code 100, 1958 epoch, 16-bit day segment, millisecond
resolution; then the day count and the millisecond of day, both big-endian).

The float view `as_unix_seconds()` and the `datetime` view `as_datetime()` are represented by the
exact integer `Stamp.unixMs`; the conversion of the real views to integers is done by the
correspondence check (*partial*, see manifest/C14.json).
-/
namespace SpVerif.Props.C14
open SpVerif SpVerif.Cds

/-- the domain of the statement: day count 0..65535, millisecond of day 0..86 399 999 -/
def WF (s : Stamp) : Prop := 0 ≤ s.days ∧ s.days < 65536 ∧ 0 ≤ s.ms ∧ s.ms < 86400000

instance (s : Stamp) : Decidable (WF s) := by unfold WF; infer_instance

/-- normalised non-negative `timedelta` (what CPython guarantees for the last two fields) -/
def TdWF (t : TimeDelta) : Prop :=
  0 ≤ t.days ∧ 0 ≤ t.seconds ∧ t.seconds < 86400 ∧ 0 ≤ t.micros ∧ t.micros < 1000000

instance (t : TimeDelta) : Decidable (TdWF t) := by unfold TdWF; infer_instance

/-- what the standard prescribes: P-field 0x40, 16-bit day, 32-bit millisecond of day -/
def Spec.octets (s : Stamp) : Bytes :=
  [0x40,
   u8 (s.days.toNat / 256), u8 (s.days.toNat % 256),
   u8 (s.ms.toNat / 16777216), u8 (s.ms.toNat / 65536 % 256), u8 (s.ms.toNat / 256 % 256),
   u8 (s.ms.toNat % 256)]

/-- total milliseconds since the CCSDS epoch 1958-01-01T00:00:00Z -/
def totalMs (s : Stamp) : Int := s.days * 86400000 + s.ms

/-- the (day, millisecond-of-day) pair of a total millisecond count -/
def normalise (t : Int) : Stamp := ⟨t / 86400000, t % 86400000⟩

/-- lexicographic order on (day, millisecond of day) -/
def Earlier (a b : Stamp) : Prop := a.days < b.days ∨ (a.days = b.days ∧ a.ms < b.ms)

-- ------------------------------------------------------------------------------------------
-- arithmetic facts, each in an empty context
-- ------------------------------------------------------------------------------------------
private theorem ar_d (d : Nat) (h : d < 65536) : d / 256 % 256 = d / 256 := by omega
private theorem ar_m3 (m : Nat) (h : m < 4294967296) : m / 256 / 256 / 256 % 256 = m / 16777216 := by omega
private theorem ar_m2 (m : Nat) : m / 256 / 256 % 256 = m / 65536 % 256 := by omega
private theorem ar_rt_d (d : Nat) (h : d < 65536) : d / 256 % 256 * 256 + d % 256 = d := by omega
private theorem ar_rt_m (m : Nat) (h : m < 4294967296) :
    ((m / 16777216 % 256 * 256 + m / 65536 % 256) * 256 + m / 256 % 256) * 256 + m % 256 = m := by omega

private theorem packInt_nat (n v : Nat) : packInt n (v : Int) = packBE n v := by
  simp [packInt]

private theorem packInt_neg (n : Nat) (v : Int) (h : v < 0) : packInt n v = .error .struct := by
  have : ¬ 0 ≤ v := by omega
  simp [packInt, this]

private theorem beBytes_4 (v : Nat) :
    beBytes 4 v = [u8 (v / 256 / 256 / 256 % 256), u8 (v / 256 / 256 % 256), u8 (v / 256 % 256), u8 (v % 256)] := by
  simp [beBytes]

private theorem beNat_four (a b c e : UInt8) :
    beNat [a, b, c, e] = ((a.toNat * 256 + b.toNat) * 256 + c.toNat) * 256 + e.toNat := by
  simp [beNat]

-- ------------------------------------------------------------------------------------------
-- pack
-- ------------------------------------------------------------------------------------------

/-- **pack = standard layout** for every day count 0..65535 and every millisecond value that fits
    32 bits (in particular every millisecond of day 0..86 399 999). -/
theorem C14_pack_exact32 (s : Stamp) (hd0 : 0 ≤ s.days) (hd : s.days < 65536)
    (hm0 : 0 ≤ s.ms) (hm : s.ms < 4294967296) : s.pack = .ok (Spec.octets s) := by
  obtain ⟨d, m⟩ := s
  simp only at hd0 hd hm0 hm
  obtain ⟨dn, rfl⟩ := Int.eq_ofNat_of_zero_le hd0
  obtain ⟨mn, rfl⟩ := Int.eq_ofNat_of_zero_le hm0
  have hdn : dn < 65536 := by omega
  have hmn : mn < 4294967296 := by omega
  unfold Stamp.pack
  rw [packInt_nat, packInt_nat, packBE_ok (show dn < 256 ^ 2 by omega), packBE_ok (show mn < 256 ^ 4 by omega)]
  simp only [bind, Except.bind, pure, Except.pure, Spec.octets, beBytes_2, beBytes_4, CDS_ID,
    Int.toNat_natCast, ar_d dn hdn, ar_m3 mn hmn, ar_m2]
  rfl

theorem C14_pack_exact (s : Stamp) (wf : WF s) : s.pack = .ok (Spec.octets s) := by
  obtain ⟨h0, h1, h2, h3⟩ := wf
  exact C14_pack_exact32 s h0 h1 h2 (by omega)

/-- the layout is P-field ‖ big-endian 16-bit day ‖ big-endian 32-bit millisecond of day -/
theorem C14_spec_be (s : Stamp) (wf : WF s) :
    Spec.octets s = [0x40] ++ beBytes 2 s.days.toNat ++ beBytes 4 s.ms.toNat := by
  obtain ⟨h0, h1, h2, h3⟩ := wf
  have hd : s.days.toNat < 65536 := by omega
  have hm : s.ms.toNat < 4294967296 := by omega
  simp only [Spec.octets, beBytes_2, beBytes_4, ar_d _ hd, ar_m3 _ hm, ar_m2]
  rfl

theorem C14_pack_len (s : Stamp) (wf : WF s) : ∃ b, s.pack = .ok b ∧ b.length = 7 :=
  ⟨_, C14_pack_exact s wf, rfl⟩

/-- `pack` never wraps silently: it succeeds only for a day count that fits 16 bits and a
    millisecond value that fits 32 bits (otherwise `struct.error`). -/
theorem C14_pack_range (s : Stamp) (b : Bytes) (h : s.pack = .ok b) :
    0 ≤ s.days ∧ s.days < 65536 ∧ 0 ≤ s.ms ∧ s.ms < 4294967296 := by
  obtain ⟨d, m⟩ := s
  unfold Stamp.pack at h
  simp only at h ⊢
  by_cases hd0 : 0 ≤ d
  · obtain ⟨dn, rfl⟩ := Int.eq_ofNat_of_zero_le hd0
    by_cases hdn : dn < 256 ^ 2
    · by_cases hm0 : 0 ≤ m
      · obtain ⟨mn, rfl⟩ := Int.eq_ofNat_of_zero_le hm0
        by_cases hmn : mn < 256 ^ 4
        · omega
        · simp [packInt_nat, packBE, hdn, hmn, bind, Except.bind] at h
      · have hm1 : m < 0 := by omega
        simp [packInt_nat, packInt_neg _ m hm1, packBE, hdn, bind, Except.bind] at h
    · simp [packInt_nat, packBE, hdn, bind, Except.bind] at h
  · have hd1 : d < 0 := by omega
    simp [packInt_neg _ d hd1, bind, Except.bind] at h

-- ------------------------------------------------------------------------------------------
-- unpack
-- ------------------------------------------------------------------------------------------

/-- equational characterisation of the decoder on ≥ 7 octets -/
private theorem unpack_eq (d : Bytes) (h7 : 7 ≤ d.length) :
    unpackFromRaw d =
      if d[0].toNat / 16 % 8 ≠ 4 then .error .value
      else if d[0].toNat / 4 % 2 ≠ 0 then .error .value
      else .ok ⟨((beNat (slice d 1 3) : Nat) : Int), ((beNat (slice d 3 7) : Nat) : Int)⟩ := by
  have hl : ¬ d.length < 7 := by omega
  have l2 : (slice d 1 3).length = 2 := by simp; omega
  have l4 : (slice d 3 7).length = 4 := by simp; omega
  unfold unpackFromRaw
  simp only [TIMESTAMP_SIZE, CDS_ID, hl, ↓reduceIte, bind, Except.bind, pure, Except.pure,
    idx_ok (show 0 < d.length by omega), unpackBE_ok l2, unpackBE_ok l4]
  by_cases h1 : d[0].toNat / 16 % 8 = 4
  · have hmem : d[0].toNat / 4 % 2 ∈ [0, 1] := by
      have : d[0].toNat / 4 % 2 = 0 ∨ d[0].toNat / 4 % 2 = 1 := by omega
      rcases this with h | h <;> simp [h]
    by_cases h2 : d[0].toNat / 4 % 2 = 0
    · simp [h1, h2, enumOf]
    · simp [h1, h2, enumOf, hmem, throw, throwThe, MonadExceptOf.throw]
  · simp [h1, throw, throwThe, MonadExceptOf.throw]

/-- **decode ∘ encode = id** for all 65 536 × 86 400 000 pairs (indeed for every 32-bit millisecond
    value), with any octets following the seven of the timestamp. -/
theorem C14_roundtrip32 (s : Stamp) (hd0 : 0 ≤ s.days) (hd : s.days < 65536)
    (hm0 : 0 ≤ s.ms) (hm : s.ms < 4294967296) (rest : Bytes) :
    unpackFromRaw (Spec.octets s ++ rest) = .ok s := by
  obtain ⟨d, m⟩ := s
  simp only at hd0 hd hm0 hm
  obtain ⟨dn, rfl⟩ := Int.eq_ofNat_of_zero_le hd0
  obtain ⟨mn, rfl⟩ := Int.eq_ofNat_of_zero_le hm0
  have hdn : dn < 65536 := by omega
  have hmn : mn < 4294967296 := by omega
  rw [unpack_eq _ (by simp [Spec.octets])]
  simp only [Spec.octets, Int.toNat_natCast, List.cons_append, List.getElem_cons_zero]
  have e1 : slice (0x40 :: u8 (dn / 256) :: u8 (dn % 256) :: u8 (mn / 16777216) :: u8 (mn / 65536 % 256)
      :: u8 (mn / 256 % 256) :: u8 (mn % 256) :: ([] ++ rest)) 1 3 = [u8 (dn / 256), u8 (dn % 256)] := by
    simp [slice]
  have e2 : slice (0x40 :: u8 (dn / 256) :: u8 (dn % 256) :: u8 (mn / 16777216) :: u8 (mn / 65536 % 256)
      :: u8 (mn / 256 % 256) :: u8 (mn % 256) :: ([] ++ rest)) 3 7 =
      [u8 (mn / 16777216), u8 (mn / 65536 % 256), u8 (mn / 256 % 256), u8 (mn % 256)] := by
    simp [slice]
  rw [e1, e2, beNat_two, beNat_four]
  simp only [u8_toNat, Nat.mod_mod]
  have p0 : (0x40 : UInt8).toNat / 16 % 8 = 4 := by decide
  have p1 : (0x40 : UInt8).toNat / 4 % 2 = 0 := by decide
  simp only [p0, p1, ne_eq, not_true_eq_false, ↓reduceIte]
  rw [ar_rt_d dn hdn, ar_rt_m mn hmn]

theorem C14_roundtrip (s : Stamp) (wf : WF s) (rest : Bytes) :
    unpackFromRaw (Spec.octets s ++ rest) = .ok s := by
  obtain ⟨h0, h1, h2, h3⟩ := wf
  exact C14_roundtrip32 s h0 h1 h2 (by omega) rest

/-- `unpack (pack s ‖ suffix) = s`, stated through `pack` itself -/
theorem C14_unpack_pack (s : Stamp) (wf : WF s) (rest : Bytes) :
    ∃ b, s.pack = .ok b ∧ unpackFromRaw (b ++ rest) = .ok s :=
  ⟨_, C14_pack_exact s wf, C14_roundtrip s wf rest⟩

/-- **refusal**: fewer than seven octets → the documented too-short error (a ValueError);
    time-code identification ≠ `100` → ValueError; 24-bit day-segment flag set → ValueError. -/
theorem C14_refuse_short (b : Bytes) (h : b.length < 7) : unpackFromRaw b = .error .value := by
  simp [unpackFromRaw, TIMESTAMP_SIZE, h, throw, throwThe, MonadExceptOf.throw, bind, Except.bind]

theorem C14_refuse_pfield (b : Bytes) (h7 : 7 ≤ b.length)
    (h : b[0].toNat / 16 % 8 ≠ 4 ∨ b[0].toNat / 4 % 2 = 1) : unpackFromRaw b = .error .value := by
  rw [unpack_eq b h7]
  rcases h with h | h
  · simp [h]
  · have : b[0].toNat / 4 % 2 ≠ 0 := by omega
    by_cases h1 : b[0].toNat / 16 % 8 = 4 <;> simp [h1, this]

/-- both refusal clauses in one statement -/
theorem C14_refuse (b : Bytes)
    (h : b.length < 7 ∨ (∃ h7 : 7 ≤ b.length, b[0].toNat / 16 % 8 ≠ 4 ∨ b[0].toNat / 4 % 2 = 1)) :
    unpackFromRaw b = .error .value := by
  rcases h with h | ⟨h7, h⟩
  · exact C14_refuse_short b h
  · exact C14_refuse_pfield b h7 h

/-- conversely, seven or more octets with time code `100` and the 16-bit day flag always decode,
    to a 16-bit day and a 32-bit millisecond value whose re-encoding is `0x40` ‖ octets 1..6 -/
theorem C14_unpack_accept (b : Bytes) (h7 : 7 ≤ b.length)
    (hp : b[0].toNat / 16 % 8 = 4) (hl : b[0].toNat / 4 % 2 = 0) :
    ∃ s, unpackFromRaw b = .ok s ∧ 0 ≤ s.days ∧ s.days < 65536 ∧ 0 ≤ s.ms ∧ s.ms < 4294967296 ∧
      s.pack = .ok (0x40 :: (b.take 7).drop 1) := by
  have l2 : (slice b 1 3).length = 2 := by simp; omega
  have l4 : (slice b 3 7).length = 4 := by simp; omega
  have b2 := beNat_lt (slice b 1 3)
  have b4 := beNat_lt (slice b 3 7)
  rw [l2] at b2
  rw [l4] at b4
  refine ⟨⟨((beNat (slice b 1 3) : Nat) : Int), ((beNat (slice b 3 7) : Nat) : Int)⟩, ?_, ?_, ?_, ?_, ?_, ?_⟩
  · rw [unpack_eq b h7]; simp only [hp, hl, ne_eq, not_true_eq_false, ↓reduceIte]
  · simp only; omega
  · simp only; omega
  · simp only; omega
  · simp only; omega
  · unfold Stamp.pack
    simp only [packInt_nat, packBE_ok b2, packBE_ok b4, bind, Except.bind, pure, Except.pure, CDS_ID]
    have q2 := beBytes_beNat (slice b 1 3)
    have q4 := beBytes_beNat (slice b 3 7)
    rw [l2] at q2
    rw [l4] at q4
    rw [q2, q4]
    match b, h7 with
    | x0 :: x1 :: x2 :: x3 :: x4 :: x5 :: x6 :: r, _ => simp [slice]

/-- the decoder never fails with anything but ValueError, on any octet string (C10 for this unit) -/
theorem C14_unpack_documented (b : Bytes) : Documented (unpackFromRaw b) := by
  by_cases h : b.length < 7
  · rw [C14_refuse_short b h]; exact Documented.err rfl
  · rw [unpack_eq b (by omega)]
    split
    · exact Documented.err rfl
    · split
      · exact Documented.err rfl
      · exact Documented.ok _

-- ------------------------------------------------------------------------------------------
-- views: Unix time, epoch, order
-- ------------------------------------------------------------------------------------------

/-- the Unix-time view is 1958-01-01 plus days and milliseconds, i.e. total milliseconds since the
    CCSDS epoch shifted by the 4383 days between the two epochs — for every stamp, also before 1970
    (no sign case distinction) -/
theorem C14_unix_ms (s : Stamp) : s.unixMs = totalMs s - 4383 * 86400000 := by
  simp only [Stamp.unixMs, totalMs, ccsdsDaysToUnix, DAYS_CCSDS_TO_UNIX, SECONDS_PER_DAY]
  omega

/-- Gregorian leap-year rule and the number of days of the years `y .. y+n-1` -/
def isLeap (y : Nat) : Bool := (y % 4 == 0 && y % 100 != 0) || y % 400 == 0
def daysInYear (y : Nat) : Nat := if isLeap y then 366 else 365
def daysOfYears : Nat → Nat → Nat
  | _, 0 => 0
  | y, n+1 => daysInYear y + daysOfYears (y+1) n

/-- **epoch**: day 0 / ms 0 is 4383 days before the Unix epoch, day 4383 is the Unix epoch, and
    4383 is the calendar distance 1958-01-01 → 1970-01-01 (twelve years, three of them leap);
    day 65 535 is 2137-06-06 (179 years, then Jan..May = 151 days, then 5 days). -/
theorem C14_epoch :
    (Stamp.new 0 0).unixMs = -4383 * 86400000 ∧ (Stamp.new 4383 0).unixMs = 0 ∧
    daysOfYears 1958 12 = 4383 ∧ ((List.range 12).filter fun i => isLeap (1958 + i)).length = 3 ∧
    daysOfYears 1958 179 + (31 + 28 + 31 + 30 + 31) + 5 = 65535 ∧ isLeap 2137 = false := by
  refine ⟨by decide, by decide, by decide, by decide, by decide +kernel, by decide⟩

/-- **monotone**: for milliseconds of day below 86 400 000 the lexicographic order on
    (day, ms) is exactly the order of the instants; in particular distinct stamps are distinct
    instants. -/
theorem C14_monotone (a b : Stamp) (ha0 : 0 ≤ a.ms) (ha : a.ms < 86400000)
    (hb0 : 0 ≤ b.ms) (hb : b.ms < 86400000) : Earlier a b ↔ a.unixMs < b.unixMs := by
  obtain ⟨ad, am⟩ := a
  obtain ⟨bd, bm⟩ := b
  simp only [Earlier, Stamp.unixMs, ccsdsDaysToUnix, DAYS_CCSDS_TO_UNIX, SECONDS_PER_DAY] at *
  omega

theorem C14_unix_inj (a b : Stamp) (ha0 : 0 ≤ a.ms) (ha : a.ms < 86400000)
    (hb0 : 0 ≤ b.ms) (hb : b.ms < 86400000) (h : a.unixMs = b.unixMs) : a = b := by
  obtain ⟨ad, am⟩ := a
  obtain ⟨bd, bm⟩ := b
  simp only [Stamp.unixMs, ccsdsDaysToUnix, DAYS_CCSDS_TO_UNIX, SECONDS_PER_DAY] at *
  have h1 : ad = bd := by omega
  have h2 : am = bm := by omega
  rw [h1, h2]

/-- day-offset helpers: inverse of each other, offset 4383, and `from_unix_days` -/
theorem C14_day_offsets (d ms : Int) :
    unixDaysToCcsds d = d + 4383 ∧ ccsdsDaysToUnix d = d - 4383 ∧
    ccsdsDaysToUnix (unixDaysToCcsds d) = d ∧ unixDaysToCcsds (ccsdsDaysToUnix d) = d ∧
    (Stamp.fromUnixDays d ms).unixMs = d * 86400000 + ms := by
  simp only [unixDaysToCcsds, ccsdsDaysToUnix, DAYS_CCSDS_TO_UNIX, Stamp.fromUnixDays, Stamp.new,
    Stamp.unixMs, SECONDS_PER_DAY]
  omega

-- ------------------------------------------------------------------------------------------
-- from_datetime
-- ------------------------------------------------------------------------------------------

private theorem ar_from (us : Int) :
    (us / 86400000000 - -4383 + -4383) * 86400 * 1000
      + (us % 86400000000 / 1000000 * 1000 + us % 86400000000 % 1000000 / 1000) = us / 1000 := by
  omega

private theorem ar_from_ms (us : Int) :
    0 ≤ us % 86400000000 / 1000000 * 1000 + us % 86400000000 % 1000000 / 1000 ∧
    us % 86400000000 / 1000000 * 1000 + us % 86400000000 % 1000000 / 1000 < 86400000 := by
  omega

/-- **from_datetime**: for every instant given in microseconds relative to the Unix epoch
    (negative before 1970) the stamp is *the* day / millisecond-of-day of that instant: its
    millisecond of day is below 86 400 000 and its Unix time is `⌊µs / 1000⌋` — floor, not
    truncation toward zero, also before 1970; the day is `⌊µs / 86 400 000 000⌋ + 4383`. -/
theorem C14_from_unix (us : Int) :
    0 ≤ (fromUnixMicros us).ms ∧ (fromUnixMicros us).ms < 86400000 ∧
    (fromUnixMicros us).unixMs = us / 1000 ∧
    (fromUnixMicros us).days = us / 86400000000 + 4383 := by
  simp only [fromUnixMicros, TimeDelta.ofMicros, Stamp.unixMs, unixDaysToCcsds, ccsdsDaysToUnix,
    DAYS_CCSDS_TO_UNIX, SECONDS_PER_DAY]
  refine ⟨(ar_from_ms us).1, (ar_from_ms us).2, ar_from us, by omega⟩

/-- exact for whole-millisecond datetimes -/
theorem C14_from_unix_whole_ms (k : Int) : (fromUnixMicros (k * 1000)).unixMs = k := by
  rw [(C14_from_unix (k * 1000)).2.2.1]; omega

/-- a datetime in 1958-01-01T00:00:00Z ≤ dt < 2137-06-07T00:00:00Z gives a stamp in the domain -/
theorem C14_from_unix_range (us : Int) (h0 : -4383 * 86400000000 ≤ us)
    (h1 : us < (65536 - 4383) * 86400000000) : WF (fromUnixMicros us) := by
  obtain ⟨a, b, _, d⟩ := C14_from_unix us
  refine ⟨?_, ?_, a, b⟩
  · rw [d]; omega
  · rw [d]; omega

/-- … and it is the only stamp with a millisecond of day below 86 400 000 at that millisecond -/
theorem C14_from_unix_unique (us : Int) (s : Stamp) (h0 : 0 ≤ s.ms) (h1 : s.ms < 86400000)
    (h : s.unixMs = us / 1000) : s = fromUnixMicros us := by
  obtain ⟨a, b, c, _⟩ := C14_from_unix us
  exact C14_unix_inj s _ h0 h1 a b (by rw [h, c])

/-- the model's `timedelta` triple of a microsecond count is CPython's normal form -/
theorem C14_timedelta_normal (us : Int) :
    (TimeDelta.ofMicros us).toMicros = us ∧ 0 ≤ (TimeDelta.ofMicros us).seconds ∧
    (TimeDelta.ofMicros us).seconds < 86400 ∧ 0 ≤ (TimeDelta.ofMicros us).micros ∧
    (TimeDelta.ofMicros us).micros < 1000000 := by
  simp only [TimeDelta.ofMicros, TimeDelta.toMicros]
  omega

-- ------------------------------------------------------------------------------------------
-- __add__
-- ------------------------------------------------------------------------------------------

private theorem ar_td (td ts tu : Int) :
    ((td * 86400 + ts) * 1000000 + tu) / 1000 = td * 86400000 + ts * 1000 + tu / 1000 := by
  omega

/-- `⌊Δµs / 1000⌋` of a timedelta -/
theorem C14_td_floor_ms (t : TimeDelta) :
    t.toMicros / 1000 = t.days * 86400000 + t.seconds * 1000 + t.micros / 1000 := by
  unfold TimeDelta.toMicros
  exact ar_td _ _ _

private theorem ar_add_carry (d m td ts tu : Int) (hm0 : 0 ≤ m) (hm : m < 86400000)
    (hs0 : 0 ≤ ts) (hs : ts < 86400) (hu0 : 0 ≤ tu) (hu : tu < 1000000)
    (hc : m + (tu / 1000 + ts * 1000) ≥ 86400000) :
    (d * 86400000 + m + (td * 86400000 + ts * 1000 + tu / 1000)) / 86400000 = d + 1 + td ∧
    (d * 86400000 + m + (td * 86400000 + ts * 1000 + tu / 1000)) % 86400000
      = m + (tu / 1000 + ts * 1000) - 86400000 := by
  omega

private theorem ar_add_nocarry (d m td ts tu : Int) (hm0 : 0 ≤ m)
    (hs0 : 0 ≤ ts) (hu0 : 0 ≤ tu)
    (hc : ¬ m + (tu / 1000 + ts * 1000) ≥ 86400000) :
    (d * 86400000 + m + (td * 86400000 + ts * 1000 + tu / 1000)) / 86400000 = d + td ∧
    (d * 86400000 + m + (td * 86400000 + ts * 1000 + tu / 1000)) % 86400000
      = m + (tu / 1000 + ts * 1000) := by
  omega

/-- **add**: for every stamp with a millisecond of day below 86 400 000 (any day count) and every
    non-negative timedelta, `stamp + timedelta` is integer arithmetic on total milliseconds:
    with `t = totalMs s + ⌊Δµs / 1000⌋` the result is `normalise t = (t / 86 400 000, t % 86 400 000)`
    — so the millisecond of day is always below 86 400 000, also when landing exactly on midnight —
    and it is `OverflowError` exactly when the day count `t / 86 400 000` exceeds 65 535. -/
theorem C14_add (s : Stamp) (t : TimeDelta) (hm0 : 0 ≤ s.ms) (hm : s.ms < 86400000) (ht : TdWF t) :
    s.add t =
      if (totalMs s + t.toMicros / 1000) / 86400000 > 65535 then .error .overflow
      else .ok (normalise (totalMs s + t.toMicros / 1000)) := by
  obtain ⟨d, m⟩ := s
  obtain ⟨td, ts, tu⟩ := t
  obtain ⟨hd0, hs0, hs, hu0, hu⟩ := ht
  simp only at hm0 hm hd0 hs0 hs hu0 hu
  rw [C14_td_floor_ms]
  simp only [Stamp.add, totalMs, normalise, MS_PER_DAY, SECONDS_PER_DAY, Int.reduceMul, Int.reducePow,
    Int.reduceSub]
  by_cases hc : m + (tu / 1000 + ts * 1000) ≥ 86400000
  · obtain ⟨e1, e2⟩ := ar_add_carry d m td ts tu hm0 hm hs0 hs hu0 hu hc
    simp only [e1, e2]
    by_cases o1 : d + 1 > 65535
    · have o2 : d + 1 + td > 65535 := by omega
      simp [hc, o1, o2, bind, Except.bind, throw, throwThe, MonadExceptOf.throw]
    · by_cases o2 : d + 1 + td > 65535
      · simp [hc, o1, o2, bind, Except.bind, pure, Except.pure, throw, throwThe, MonadExceptOf.throw]
      · simp [hc, o1, o2, bind, Except.bind, pure, Except.pure]
  · obtain ⟨e1, e2⟩ := ar_add_nocarry d m td ts tu hm0 hs0 hu0 hc
    simp only [e1, e2]
    by_cases o2 : d + td > 65535
    · simp [hc, o2, bind, Except.bind, pure, Except.pure, throw, throwThe, MonadExceptOf.throw]
    · simp [hc, o2, bind, Except.bind, pure, Except.pure]

/-- consequences: a successful addition yields a stamp in the domain (when the input day count is
    non-negative) whose instant is the input's instant plus `⌊Δµs / 1000⌋` milliseconds -/
theorem C14_add_ok (s r : Stamp) (t : TimeDelta) (wf : WF s) (ht : TdWF t) (h : s.add t = .ok r) :
    WF r ∧ r.unixMs = s.unixMs + t.toMicros / 1000 ∧ totalMs r = totalMs s + t.toMicros / 1000 := by
  obtain ⟨hd0, hd, hm0, hm⟩ := wf
  rw [C14_add s t hm0 hm ht] at h
  have ht' := ht
  obtain ⟨td0, hs0, hs, hu0, hu⟩ := ht'
  have hfl := C14_td_floor_ms t
  split at h
  · cases h
  · rename_i hov
    injection h with h
    subst h
    have hnn : 0 ≤ t.toMicros / 1000 := by rw [hfl]; omega
    refine ⟨?_, ?_, ?_⟩
    · simp only [WF, normalise, totalMs] at hov ⊢
      omega
    · rw [C14_unix_ms, C14_unix_ms]
      simp only [normalise, totalMs]
      omega
    · simp only [normalise, totalMs]
      omega

/-- overflow happens exactly when the day count would exceed 16 bits -/
theorem C14_add_overflow_iff (s : Stamp) (t : TimeDelta) (hm0 : 0 ≤ s.ms) (hm : s.ms < 86400000)
    (ht : TdWF t) :
    s.add t = .error .overflow ↔ (totalMs s + t.toMicros / 1000) / 86400000 > 65535 := by
  rw [C14_add s t hm0 hm ht]
  split <;> simp_all

-- ------------------------------------------------------------------------------------------
-- non-vacuity
-- ------------------------------------------------------------------------------------------
example : WF ⟨0x0102, 0x03040506⟩ := by decide
example : Spec.octets ⟨0x0102, 0x03040506⟩ = [0x40, 0x01, 0x02, 0x03, 0x04, 0x05, 0x06] := by decide
example : WF ⟨65535, 86399999⟩ ∧ WF ⟨0, 0⟩ := by decide
example : TdWF ⟨3, 86399, 999999⟩ := by decide
-- 1969-12-31T23:59:59.999999Z is day 4382, 23:59:59.999 (floor, not truncation)
example : fromUnixMicros (-1) = ⟨4382, 86399999⟩ := by decide
-- landing exactly on midnight carries into the next day
example : (Stamp.mk 10 86399999).add ⟨0, 0, 1000⟩ = .ok ⟨11, 0⟩ := by rfl
example : (Stamp.mk 65535 86399999).add ⟨0, 0, 1000⟩ = .error .overflow := by rfl
example : (Stamp.mk 65535 86399998).add ⟨0, 0, 1999⟩ = .ok ⟨65535, 86399999⟩ := by rfl
example : unpackFromRaw [0x40, 1, 2, 3, 4, 5, 6, 0xFF] = .ok ⟨0x0102, 0x03040506⟩ := by rfl
example : unpackFromRaw [0x44, 0, 0, 0, 0, 0, 0] = .error .value := by rfl
example : unpackFromRaw [0x50, 0, 0, 0, 0, 0, 0] = .error .value := by rfl

/-- the seven octets determine (days, ms): injective for every 16-bit day count and every 32-bit
    millisecond value (consequence of `C14_roundtrip32`) -/
theorem C14_octets_injective32 (a b : Stamp) (ad0 : 0 ≤ a.days) (ad : a.days < 65536)
    (am0 : 0 ≤ a.ms) (am : a.ms < 4294967296) (bd0 : 0 ≤ b.days) (bd : b.days < 65536)
    (bm0 : 0 ≤ b.ms) (bm : b.ms < 4294967296) (he : Spec.octets a = Spec.octets b) : a = b := by
  have r1 := C14_roundtrip32 a ad0 ad am0 am []
  have r2 := C14_roundtrip32 b bd0 bd bm0 bm []
  rw [he, r2] at r1
  cases r1; rfl

/-- on the domain: timestamps with the same seven octets are the same (days, ms) pair -/
theorem C14_octets_injective (a b : Stamp) (wa : WF a) (wb : WF b)
    (he : Spec.octets a = Spec.octets b) : a = b := by
  have r1 := C14_roundtrip a wa []
  have r2 := C14_roundtrip b wb []
  rw [he, r2] at r1
  cases r1; rfl

/-- the same for `pack()` itself, as an iff: timestamps of the domain are equal iff they pack to the
    same octets -/
theorem C14_pack_injective (a b : Stamp) (wa : WF a) (wb : WF b) : a.pack = b.pack ↔ a = b := by
  refine ⟨fun he => ?_, fun he => by rw [he]⟩
  rw [C14_pack_exact a wa, C14_pack_exact b wb] at he
  exact C14_octets_injective a b wa wb (Except.ok.inj he)

-- non-vacuity of the injectivity statements: distinct members of the domain, distinct octets
example : WF ⟨1, 0⟩ ∧ WF ⟨0, 1⟩ ∧ Spec.octets ⟨1, 0⟩ ≠ Spec.octets ⟨0, 1⟩ := by decide

end SpVerif.Props.C14
