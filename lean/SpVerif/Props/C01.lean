import SpVerif.Model.SpacePacket
/-!
# C01 — Space Packet primary header is encoded exactly per CCSDS 133.0-B-2, bijectively

Property theorems only. `Spec.octets` is the layout of CCSDS 133.0-B-2 §4.1.3 as arithmetic:
octet 0 = version(3) | type(1) | sec-hdr flag(1) | APID[10:8], octet 1 = APID[7:0],
octet 2 = seq flags(2) | count[13:8], octet 3 = count[7:0], octets 4,5 = data length big-endian.
-/
namespace SpVerif.Props.C01
open SpVerif SpVerif.SpacePacket

/-- in-range header values: the domain the statement quantifies over -/
def WF (h : Sph) : Prop :=
  h.version < 8 ∧ h.ptype < 2 ∧ h.shf < 2 ∧ h.apid < 2048 ∧ h.flags < 4 ∧ h.count < 16384 ∧ h.dlen < 65536

instance (h : Sph) : Decidable (WF h) := by unfold WF; infer_instance

/-- what the standard prescribes -/
def Spec.octets (h : Sph) : Bytes :=
  [u8 (h.version * 32 + h.ptype * 16 + h.shf * 8 + h.apid / 256), u8 (h.apid % 256),
   u8 (h.flags * 64 + h.count / 256), u8 (h.count % 256),
   u8 (h.dlen / 256), u8 (h.dlen % 256)]

-- arithmetic facts, proved in an empty context (omega is sensitive to division facts in context)
private theorem ar0 (v t s a : Nat) (ht : t < 2) (hs : s < 2) (ha : a < 2048) :
    (v * 8192 + (t * 4096 + s * 2048 + a)) / 256 = v * 32 + t * 16 + s * 8 + a / 256 := by omega
private theorem ar1 (v t s a : Nat) : (v * 8192 + (t * 4096 + s * 2048 + a)) % 256 = a % 256 := by omega
private theorem ar2 (f c : Nat) (hc : c < 16384) : (f * 16384 + c) / 256 = f * 64 + c / 256 := by omega
private theorem ar3 (f c : Nat) : (f * 16384 + c) % 256 = c % 256 := by omega
private theorem br0 (x y : Nat) (hx : x < 256) (hy : y < 256) :
    x / 32 * 32 + x / 16 % 2 * 16 + x / 8 % 2 * 8 + (x % 8 * 256 + y) / 256 = x := by omega
private theorem br1 (x y : Nat) (hy : y < 256) : (x % 8 * 256 + y) % 256 = y := by omega
private theorem br2 (x y : Nat) (hx : x < 256) (hy : y < 256) :
    x / 64 * 64 + (x % 64 * 256 + y) / 256 = x := by omega
private theorem br3 (x y : Nat) (hy : y < 256) : (x % 64 * 256 + y) % 256 = y := by omega
private theorem br4 (x y : Nat) (hy : y < 256) : (x * 256 + y) / 256 = x := by omega
private theorem br5 (x y : Nat) (hy : y < 256) : (x * 256 + y) % 256 = y := by omega
private theorem cr1 (w : Nat) (hw : w < 65536) : w / 65536 * 65536 + w % 16384 = w % 16384 := by omega
private theorem cr2 (w : Nat) (hw : w < 65536) : w / 16384 % 4 * 16384 + w % 16384 = w := by omega

/-- **pack = standard layout**, for every in-range header (all 2^48). -/
theorem C01_pack_exact (h : Sph) (wf : WF h) : h.pack = .ok (Spec.octets h) := by
  obtain ⟨hv, ht, hs, ha, hf, hc, hd⟩ := wf
  unfold Sph.pack
  rw [packBE2_ok (show h.version * 8192 + pidRaw h.ptype h.shf h.apid < 65536 by unfold pidRaw; omega),
    packBE2_ok (show pscRaw h.flags h.count < 65536 by unfold pscRaw; omega), packBE2_ok hd]
  simp only [bind, Except.bind, pure, Except.pure, Spec.octets, pidRaw, pscRaw]
  simp [ar0 _ _ _ _ ht hs ha, ar1, ar2 _ _ hc, ar3]

theorem C01_pack_len (h : Sph) (wf : WF h) : ∃ b, h.pack = .ok b ∧ b.length = 6 :=
  ⟨_, C01_pack_exact h wf, rfl⟩

/-- equational characterisation of the decoder (helper, reused by C02/C03/C15) -/
theorem unpack_eq (d : Bytes) (h6 : 6 ≤ d.length) :
    Sph.unpack d = .ok ⟨d[0].toNat / 32, d[0].toNat / 16 % 2, d[0].toNat / 8 % 2,
      d[0].toNat % 8 * 256 + d[1].toNat, d[2].toNat / 64, d[2].toNat % 64 * 256 + d[3].toNat,
      d[4].toNat * 256 + d[5].toNat⟩ := by
  have hl : ¬ d.length < 6 := by omega
  have b0 := toNat_lt d[0]
  have b1 := toNat_lt d[1]
  have b2 := toNat_lt d[2]
  have b3 := toNat_lt d[3]
  have b4 := toNat_lt d[4]
  have b5 := toNat_lt d[5]
  unfold Sph.unpack
  simp only [hl, ↓reduceIte, bind, Except.bind, pure, Except.pure,
    idx_ok (show 0 < d.length by omega), idx_ok (show 1 < d.length by omega),
    unpackBE2_slice d 2 (by omega), unpackBE2_slice d 4 (by omega)]
  rw [Sph.new_nat]
  have b3' := toNat_lt d[2+1]
  have b5' := toNat_lt d[4+1]
  have g : ¬ (65535 < d[4].toNat * 256 + d[4+1].toNat ∨ 2047 < d[0].toNat % 8 * 256 + d[1].toNat ∨ 16383 < (d[2].toNat * 256 + d[2+1].toNat) % 16384) := by omega
  simp only [g, ↓reduceIte]
  have e1 : d[0].toNat / 32 % 8 = d[0].toNat / 32 := by omega
  have e2 : (d[2].toNat * 256 + d[2+1].toNat) / 16384 = d[2].toNat / 64 := by omega
  have e3 : (d[2].toNat * 256 + d[2+1].toNat) % 16384 = d[2].toNat % 64 * 256 + d[2+1].toNat := by omega
  simp [e1, e2, e3]

/-- **decode ∘ encode = id**, with any octets following the header (also C09 for this unit). -/
theorem C01_unpack_pack (h : Sph) (wf : WF h) (rest : Bytes) :
    Sph.unpack (Spec.octets h ++ rest) = .ok h := by
  obtain ⟨hv, ht, hs, ha, hf, hc, hd⟩ := wf
  rw [unpack_eq _ (by simp [Spec.octets])]
  simp only [Spec.octets, List.cons_append, List.getElem_cons_zero, List.getElem_cons_succ, u8_toNat]
  cases h with
  | mk v t s a f c dl =>
    simp only at hv ht hs ha hf hc hd ⊢
    congr 1
    simp only [Sph.mk.injEq]
    refine ⟨?_, ?_, ?_, ?_, ?_, ?_, ?_⟩ <;> omega

/-- **encode ∘ decode = b[:6]**: the decoder is total on ≥ 6 octets, its result is in range and
    re-encodes to the first six octets. Together with `C01_unpack_pack`: a bijection between
    in-range headers and 6-octet strings. -/
theorem C01_pack_unpack (b : Bytes) (h6 : 6 ≤ b.length) :
    ∃ h, Sph.unpack b = .ok h ∧ WF h ∧ h.pack = .ok (b.take 6) := by
  refine ⟨_, unpack_eq b h6, ?_, ?_⟩
  · have b0 := toNat_lt b[0]
    have b1 := toNat_lt b[1]
    have b2 := toNat_lt b[2]
    have b3 := toNat_lt b[3]
    have b4 := toNat_lt b[4]
    have b5 := toNat_lt b[5]
    unfold WF
    refine ⟨?_, ?_, ?_, ?_, ?_, ?_, ?_⟩ <;> simp only <;> omega
  · rw [C01_pack_exact]
    · have b0 := toNat_lt b[0]
      have b1 := toNat_lt b[1]
      have b2 := toNat_lt b[2]
      have b3 := toNat_lt b[3]
      have b4 := toNat_lt b[4]
      have b5 := toNat_lt b[5]
      simp only [Spec.octets, br0 _ _ b0 b1, br1 _ _ b1, br2 _ _ b2 b3, br3 _ _ b3, br4 _ _ b5, br5 _ _ b5, u8_toNat_self]
      congr 1
      match b, h6 with
      | x0 :: x1 :: x2 :: x3 :: x4 :: x5 :: r, _ => simp
    · have b0 := toNat_lt b[0]
      have b1 := toNat_lt b[1]
      have b2 := toNat_lt b[2]
      have b3 := toNat_lt b[3]
      have b4 := toNat_lt b[4]
      have b5 := toNat_lt b[5]
      unfold WF
      refine ⟨?_, ?_, ?_, ?_, ?_, ?_, ?_⟩ <;> simp only <;> omega

/-- fewer than six octets are refused with the documented too-short error (a ValueError) -/
theorem C01_short (b : Bytes) (h : b.length < 6) : Sph.unpack b = .error .value := by
  simp [Sph.unpack, h, throw, throwThe, MonadExceptOf.throw, bind, Except.bind]

/-- the decoder never fails on ≥ 6 octets and only with ValueError otherwise (C10 for this unit) -/
theorem C01_unpack_documented (b : Bytes) : Documented (Sph.unpack b) := by
  by_cases h : b.length < 6
  · rw [C01_short b h]; exact Documented.err rfl
  · rw [unpack_eq b (by omega)]; exact Documented.ok _

/-- reported total packet length = data-length field + 7 -/
theorem C01_len (h : Sph) : h.packetLen = h.dlen + 7 := by
  unfold Sph.packetLen; omega

theorem C01_total_len (n : Nat) : totalLenFromLenField n = n + 7 := by
  unfold totalLenFromLenField; omega

/-- the first packed 16-bit word is `version * 2^13 + PacketId.raw`, the second is `Psc.raw` -/
theorem C01_words (h : Sph) (wf : WF h) :
    beNat ((Spec.octets h).take 2) = h.version * 8192 + (PacketId.raw ⟨h.ptype, h.shf, h.apid⟩) ∧
    beNat (((Spec.octets h).drop 2).take 2) = Psc.raw ⟨h.flags, h.count⟩ := by
  obtain ⟨hv, ht, hs, ha, hf, hc, hd⟩ := wf
  simp only [Spec.octets, List.take, List.drop, beNat_two, u8_toNat, PacketId.raw, Psc.raw, pidRaw, pscRaw]
  constructor <;> omega

/-- packet-identification word: `from_raw (raw x) = x` on in-range values, `raw (from_raw w) = w mod 2^13` -/
theorem C01_pid_roundtrip (p : PacketId) (ht : p.ptype < 2) (hs : p.shf < 2) (ha : p.apid < 2048) :
    PacketId.fromRaw p.raw = p := by
  cases p with
  | mk t s a =>
    simp only at ht hs ha
    simp only [PacketId.fromRaw, PacketId.raw, pidRaw, PacketId.mk.injEq]
    refine ⟨?_, ?_, ?_⟩ <;> omega

theorem C01_pid_raw_fromRaw (w : Nat) : (PacketId.fromRaw w).raw = w % 8192 := by
  simp only [PacketId.fromRaw, PacketId.raw, pidRaw]; omega

/-- sequence-control word -/
theorem C01_psc_roundtrip (p : Psc) (hf : p.flags < 4) (hc : p.count < 16384) :
    Psc.fromRaw p.raw = .ok p := by
  cases p with
  | mk f c =>
    simp only at hf hc
    have e1 : (f * 16384 + c) / 16384 % 4 = f := by omega
    have e2 : (f * 16384 + c) / 65536 * 65536 + (f * 16384 + c) % 16384 = c := by omega
    have g : ¬ 16383 < c := by omega
    simp only [Psc.fromRaw, Psc.raw, pscRaw, Psc.new_nat, e1, e2, g, ↓reduceIte]

theorem C01_psc_raw_fromRaw (w : Nat) (hw : w < 65536) :
    ∃ p, Psc.fromRaw w = .ok p ∧ p.raw = w := by
  have e2 := cr1 w hw
  have g : ¬ 16383 < w % 16384 := by omega
  refine ⟨⟨w / 16384 % 4, w % 16384⟩, ?_, ?_⟩
  · simp only [Psc.fromRaw, Psc.new_nat, e2, g, ↓reduceIte]
  · simp only [Psc.raw, pscRaw]; exact cr2 w hw

/-- out-of-range APID, sequence count or data length are refused with ValueError, never encoded -/
theorem C01_refuse (v t s f : Nat) (apid count dlen : Int)
    (h : apid < 0 ∨ 2047 < apid ∨ count < 0 ∨ 16383 < count ∨ dlen < 0 ∨ 65535 < dlen) :
    Sph.new v t s apid f count dlen = .error .value := by
  unfold Sph.new
  split
  · rfl
  · split
    · rfl
    · split
      · rfl
      · omega

theorem C01_refuse_pid (t s : Nat) (apid : Int) (h : apid < 0 ∨ 2047 < apid) :
    PacketId.new t s apid = .error .value := by
  unfold PacketId.new; split
  · rfl
  · omega

theorem C01_refuse_psc (f : Nat) (count : Int) (h : count < 0 ∨ 16383 < count) :
    Psc.new f count = .error .value := by
  unfold Psc.new; split
  · rfl
  · omega

/-- in-range constructor arguments are accepted and stored unchanged -/
theorem C01_accept (v t s f a c d : Nat) (ha : a < 2048) (hc : c < 16384) (hd : d < 65536) :
    Sph.new v t s (a : Int) f (c : Int) (d : Int) = .ok ⟨v, t, s, a, f, c, d⟩ := by
  have g : ¬ (65535 < d ∨ 2047 < a ∨ 16383 < c) := by omega
  simp only [Sph.new_nat, g, ↓reduceIte]

/-- generic space packet: header ‖ secondary header ‖ user data -/
theorem C01_sp_pack (h : Sph) (wf : WF h) (sec user : Bytes) (hs : h.shf = 1) :
    spPack h (some sec) (some user) = .ok (Spec.octets h ++ sec ++ user) := by
  simp [spPack, C01_pack_exact h wf, hs, bind, Except.bind, pure, Except.pure]

/-- generic space packet, the other branches of `SpacePacket.pack()`: without the secondary header
    flag the secondary header argument is ignored and the packet is header ‖ user data; with the
    flag and no user data it is header ‖ secondary header; a missing mandatory part is `ValueError` -/
theorem C01_sp_pack_branches (h : Sph) (wf : WF h) :
    (h.shf = 0 → ∀ (sec : Option Bytes) (user : Bytes),
      spPack h sec (some user) = .ok (Spec.octets h ++ user)) ∧
    (h.shf = 1 → ∀ sec : Bytes, spPack h (some sec) none = .ok (Spec.octets h ++ sec)) ∧
    (h.shf = 1 → ∀ user : Option Bytes, spPack h none user = .error .value) ∧
    (h.shf = 0 → ∀ sec : Option Bytes, spPack h sec none = .error .value) := by
  refine ⟨fun hs sec user => ?_, fun hs sec => ?_, fun hs user => ?_, fun hs sec => ?_⟩
  · simp [spPack, C01_pack_exact h wf, hs, bind, Except.bind, pure, Except.pure]
  · simp [spPack, C01_pack_exact h wf, hs, bind, Except.bind, pure, Except.pure]
  · simp [spPack, C01_pack_exact h wf, hs, bind, Except.bind, throw, throwThe, MonadExceptOf.throw]
  · simp [spPack, C01_pack_exact h wf, hs, bind, Except.bind, throw, throwThe, MonadExceptOf.throw]

private theorem id0 (v t s a : Nat) (hv : v < 8) (ht : t < 2) (hs : s < 2) (ha : a < 2048) :
    v % 8 * 32 + t % 2 * 16 + s % 2 * 8 + a / 256 % 8 = (v * 32 + t * 16 + s * 8 + a / 256) % 256 := by omega

/-- `get_space_packet_id_bytes(packet_type, sec_header_flag, apid, version)` returns octets 0 and 1
    of the standard layout, for every in-range header -/
theorem C01_id_bytes (h : Sph) (wf : WF h) :
    ((Spec.octets h).take 2).map (·.toNat) =
      [(idBytes h.version h.ptype h.shf h.apid).1, (idBytes h.version h.ptype h.shf h.apid).2] := by
  obtain ⟨hv, ht, hs, ha, _, _, _⟩ := wf
  simp only [idBytes, Spec.octets, List.take_succ_cons, List.take_zero, List.map_cons, List.map_nil, u8_toNat]
  rw [id0 _ _ _ _ hv ht hs ha, Nat.mod_mod]

/-- out-of-range arguments are masked, never widened: both results are octets -/
theorem C01_id_bytes_range (v t s a : Nat) : (idBytes v t s a).1 < 256 ∧ (idBytes v t s a).2 < 256 := by
  simp only [idBytes]; omega

/-- `get_apid_from_raw_space_packet`, completely: on every buffer of at least 6 octets it returns the
    11 bits `(raw[0] & 7) << 8 | raw[1]`, below 6 octets it raises `ValueError` -/
theorem C01_apid_from_raw (d : Bytes) :
    (∀ h : 6 ≤ d.length, apidFromRaw d = .ok ((d[0]'(by omega)).toNat % 8 * 256 + (d[1]'(by omega)).toNat)) ∧
    (d.length < 6 → apidFromRaw d = .error .value) := by
  unfold apidFromRaw
  refine ⟨fun h => ?_, fun h => ?_⟩
  · have hl : ¬ d.length < 6 := by omega
    simp [hl, bind, Except.bind, pure, Except.pure, idx_ok (show 0 < d.length by omega),
      idx_ok (show 1 < d.length by omega)]
  · simp [h, throw, throwThe, MonadExceptOf.throw, bind, Except.bind]

/-- it agrees with the header decoder on every buffer the decoder accepts … -/
theorem C01_apid_from_raw_unpack (d : Bytes) (h : Sph) (hu : Sph.unpack d = .ok h) :
    apidFromRaw d = .ok h.apid := by
  by_cases h6 : 6 ≤ d.length
  · rw [unpack_eq d h6] at hu
    rw [(C01_apid_from_raw d).1 h6, ← Except.ok.inj hu]
  · rw [C01_short d (by omega)] at hu; cases hu

/-- … hence returns the APID of every packed header, whatever follows it -/
theorem C01_apid_from_raw_packed (h : Sph) (wf : WF h) (rest : Bytes) :
    apidFromRaw (Spec.octets h ++ rest) = .ok h.apid :=
  C01_apid_from_raw_unpack _ h (C01_unpack_pack h wf rest)

-- non-vacuity: a concrete non-trivial header meets the hypotheses
example : WF ⟨5, 1, 1, 0x7AB, 2, 0x2BCD, 0xFEDC⟩ := by decide
example : Spec.octets ⟨5, 1, 1, 0x7AB, 2, 0x2BCD, 0xFEDC⟩ = [0xBF, 0xAB, 0xAB, 0xCD, 0xFE, 0xDC] := by decide

/-- the encoding is injective on the domain: two in-range headers with the same six octets are the
    same header (consequence of `C01_unpack_pack`) -/
theorem C01_octets_injective (h k : Sph) (wh : WF h) (wk : WF k)
    (he : Spec.octets h = Spec.octets k) : h = k := by
  have r1 := C01_unpack_pack h wh []
  have r2 := C01_unpack_pack k wk []
  rw [he, r2] at r1
  cases r1; rfl

/-- the same for `pack()` itself, as an iff: in-range headers are equal iff they pack to the same octets -/
theorem C01_pack_injective (h k : Sph) (wh : WF h) (wk : WF k) : h.pack = k.pack ↔ h = k := by
  refine ⟨fun he => ?_, fun he => by rw [he]⟩
  rw [C01_pack_exact h wh, C01_pack_exact k wk] at he
  exact C01_octets_injective h k wh wk (Except.ok.inj he)

/-- packet-identification word: in-range `PacketId`s are equal iff their 13-bit raw values are equal -/
theorem C01_pid_raw_injective (p q : PacketId) (hp : p.ptype < 2 ∧ p.shf < 2 ∧ p.apid < 2048)
    (hq : q.ptype < 2 ∧ q.shf < 2 ∧ q.apid < 2048) : p.raw = q.raw ↔ p = q := by
  refine ⟨fun he => ?_, fun he => by rw [he]⟩
  have r1 := C01_pid_roundtrip p hp.1 hp.2.1 hp.2.2
  have r2 := C01_pid_roundtrip q hq.1 hq.2.1 hq.2.2
  rw [he, r2] at r1
  exact r1.symm

/-- sequence-control word: in-range `PacketSeqCtrl`s are equal iff their 16-bit raw values are equal -/
theorem C01_psc_raw_injective (p q : Psc) (hp : p.flags < 4 ∧ p.count < 16384)
    (hq : q.flags < 4 ∧ q.count < 16384) : p.raw = q.raw ↔ p = q := by
  refine ⟨fun he => ?_, fun he => by rw [he]⟩
  have r1 := C01_psc_roundtrip p hp.1 hp.2
  have r2 := C01_psc_roundtrip q hq.1 hq.2
  rw [he, r2] at r1
  exact (Except.ok.inj r1).symm

-- non-vacuity of the injectivity statements: two distinct in-range values, distinct encodings
example : WF ⟨0, 0, 0, 1, 3, 0, 0⟩ ∧ WF ⟨0, 0, 0, 2, 3, 0, 0⟩ ∧
    Spec.octets ⟨0, 0, 0, 1, 3, 0, 0⟩ ≠ Spec.octets ⟨0, 0, 0, 2, 3, 0, 0⟩ := by decide
example : PacketId.raw ⟨1, 0, 5⟩ ≠ PacketId.raw ⟨0, 1, 5⟩ := by decide
example : Psc.raw ⟨3, 7⟩ ≠ Psc.raw ⟨2, 7⟩ := by decide

end SpVerif.Props.C01
