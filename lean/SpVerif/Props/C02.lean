import SpVerif.Model.PusTc
import SpVerif.Props.C01
import SpVerif.Proofs.CrcResidue
/-!
# C02 — PUS-C telecommand encode/decode is exact and mutually inverse

`Spec.octets t` is the packet ECSS-E-ST-70-41C prescribes: CCSDS primary header ‖
[0x20 + ack, service, subservice, source id (16 bit BE)] ‖ application data ‖ CRC-16/CCITT-FALSE.
-/
namespace SpVerif.Props.C02
open SpVerif SpVerif.SpacePacket SpVerif.PusTc

/-- in-range secondary header -/
def WFSec (s : TcSec) : Prop := s.ack < 16 ∧ s.service < 256 ∧ s.subservice < 256 ∧ s.sourceId < 65536

/-- a telecommand whose fields are in range and whose length field matches its application data -/
def WF (t : Tc) : Prop := C01.WF t.sph ∧ WFSec t.sec ∧ t.sph.dlen = t.appData.length + 6

def Spec.sec (s : TcSec) : Bytes :=
  [u8 (32 + s.ack), u8 s.service, u8 s.subservice, u8 (s.sourceId / 256), u8 (s.sourceId % 256)]

def Spec.body (t : Tc) : Bytes := C01.Spec.octets t.sph ++ Spec.sec t.sec ++ t.appData
def Spec.octets (t : Tc) : Bytes := Spec.body t ++ Crc.crcTrailer (Spec.body t)

theorem sec_pack (s : TcSec) (wf : WFSec s) : s.pack = .ok (Spec.sec s) := by
  obtain ⟨ha, hs, hb, hi⟩ := wf
  simp [TcSec.pack, byteOfN_ok (show 32 + s.ack < 256 by omega), byteOfN_ok hs, byteOfN_ok hb,
    packBE2_ok hi, bind, Except.bind, pure, Except.pure, Spec.sec]

/-- constructor: valid arguments give a TC header (type TC, secondary header flag, unsegmented,
    data length = |data| + 6) -/
theorem C02_new (service subservice apid count sourceId ack : Nat) (appData : Bytes)
    (ha : apid < 2048) (hc : count < 16384) (hl : appData.length ≤ 65529) :
    Tc.new service subservice (apid : Int) appData (count : Int) sourceId ack =
      .ok ⟨⟨0, 1, 1, apid, 3, count, appData.length + 6⟩, ⟨ack, service, subservice, sourceId⟩, appData⟩ := by
  have e : dataLength appData.length 5 = appData.length + 6 := by unfold dataLength; omega
  have g : ¬ (65535 < appData.length + 6 ∨ 2047 < apid ∨ 16383 < count) := by omega
  simp only [Tc.new, Sph.new_nat, e, g, ↓reduceIte, bind, Except.bind, pure, Except.pure]

/-- application data beyond what the 16-bit length field can describe is refused (ValueError) -/
theorem C02_too_long (service subservice sourceId ack : Nat) (apid count : Int) (appData : Bytes)
    (hl : 65529 < appData.length) :
    Tc.new service subservice apid appData count sourceId ack = .error .value := by
  have : ((dataLength appData.length 5 : Nat) : Int) > 65535 ∨ ((dataLength appData.length 5 : Nat) : Int) < 0 := by
    unfold dataLength; omega
  simp [Tc.new, Sph.new, this, bind, Except.bind]

/-- **pack = prescribed octets** -/
theorem C02_pack_exact (t : Tc) (wf : WF t) : t.pack = .ok (Spec.octets t) := by
  obtain ⟨wh, ws, _⟩ := wf
  simp [Tc.pack, Tc.packNoCrc, C01.C01_pack_exact t.sph wh, sec_pack t.sec ws, bind, Except.bind,
    pure, Except.pure, Spec.octets, Spec.body]

theorem body_length (t : Tc) : (Spec.body t).length = 11 + t.appData.length := by
  simp [Spec.body, C01.Spec.octets, Spec.sec]; omega

/-- total length is data-length field + 7 = reported packet length -/
theorem C02_len (t : Tc) (wf : WF t) : (Spec.octets t).length = t.packetLen ∧ t.packetLen = t.sph.dlen + 7 := by
  obtain ⟨_, _, hd⟩ := wf
  simp [Spec.octets, body_length, Crc.crcTrailer, Crc.be16, Tc.packetLen, Sph.packetLen]; omega

/-- the trailer is the CRC of all preceding octets: the packed packet has residue zero -/
theorem C02_crc_valid (t : Tc) : checkPusCrc (Spec.octets t) = true := by
  simp [checkPusCrc, Spec.octets, Crc.crc16_residue]

private theorem sec_unpack_eq (d : Bytes) (h5 : 5 ≤ d.length) :
    TcSec.unpack d = if d[0].toNat / 16 ≠ 2 then .error .value else
      .ok ⟨d[0].toNat % 16, d[1].toNat, d[2].toNat, d[3].toNat * 256 + d[4].toNat⟩ := by
  have hl : ¬ d.length < 5 := by omega
  unfold TcSec.unpack
  simp only [hl, ↓reduceIte, bind, Except.bind, pure, Except.pure,
    idx_ok (show 0 < d.length by omega), idx_ok (show 1 < d.length by omega),
    idx_ok (show 2 < d.length by omega), unpackBE2_slice d 3 (by omega)]
  split <;> simp_all [throw, throwThe, MonadExceptOf.throw]

private theorem sec_unpack_short (d : Bytes) (h : d.length < 5) : TcSec.unpack d = .error .value := by
  simp [TcSec.unpack, h, throw, throwThe, MonadExceptOf.throw, bind, Except.bind]

theorem sec_unpack_documented (d : Bytes) : Documented (TcSec.unpack d) := by
  by_cases h : d.length < 5
  · rw [sec_unpack_short d h]; exact Documented.err rfl
  · rw [sec_unpack_eq d (by omega)]
    split
    · exact Documented.err rfl
    · exact Documented.ok _

private theorem ar_sec0 (a : Nat) (h : a < 16) : (32 + a) % 256 / 16 = 2 ∧ (32 + a) % 256 % 16 = a := by omega
private theorem ar_src (v : Nat) (h : v < 65536) : v / 256 % 256 * 256 + v % 256 % 256 = v := by omega
private theorem ar_mod (v : Nat) (h : v < 256) : v % 256 = v := by omega

theorem sec_unpack_spec (s : TcSec) (wf : WFSec s) (rest : Bytes) :
    TcSec.unpack (Spec.sec s ++ rest) = .ok s := by
  obtain ⟨ha, hs, hb, hi⟩ := wf
  rw [sec_unpack_eq _ (by simp [Spec.sec])]
  simp only [Spec.sec, List.cons_append, List.getElem_cons_zero, List.getElem_cons_succ, u8_toNat]
  have := ar_sec0 s.ack ha
  simp only [this.1, this.2, ne_eq, not_true_eq_false, ↓reduceIte, ar_src _ hi, ar_mod _ hs, ar_mod _ hb]

/-- **decode ∘ encode = id**, whatever follows the packet in the buffer -/
theorem C02_roundtrip (t : Tc) (wf : WF t) (rest : Bytes) :
    Tc.unpack (Spec.octets t ++ rest) = .ok t := by
  obtain ⟨wh, ws, hd⟩ := wf
  have hlen : (Spec.octets t).length = t.sph.dlen + 7 := by
    simp [Spec.octets, body_length, Crc.crcTrailer, Crc.be16]; omega
  unfold Tc.unpack
  have e1 : Sph.unpack (Spec.octets t ++ rest) = .ok t.sph := by
    have : Spec.octets t ++ rest = C01.Spec.octets t.sph ++ (Spec.sec t.sec ++ t.appData ++ Crc.crcTrailer (Spec.body t) ++ rest) := by
      simp [Spec.octets, Spec.body]
    rw [this]; exact C01.C01_unpack_pack t.sph wh _
  have e2 : TcSec.unpack ((Spec.octets t ++ rest).drop 6) = .ok t.sec := by
    have : (Spec.octets t ++ rest).drop 6 = Spec.sec t.sec ++ (t.appData ++ Crc.crcTrailer (Spec.body t) ++ rest) := by
      simp [Spec.octets, Spec.body, C01.Spec.octets]
    rw [this]; exact sec_unpack_spec t.sec ws _
  have e3 : (Spec.octets t ++ rest).take t.sph.packetLen = Spec.octets t := by
    have : t.sph.packetLen = (Spec.octets t).length := by rw [hlen]; simp [Sph.packetLen]; omega
    rw [this]; simp
  have e4 : slice (Spec.octets t ++ rest) 11 (t.sph.packetLen - 2) = t.appData := by
    have h11 : (C01.Spec.octets t.sph ++ Spec.sec t.sec).length = 11 := by simp [C01.Spec.octets, Spec.sec]
    have : Spec.octets t ++ rest = (C01.Spec.octets t.sph ++ Spec.sec t.sec) ++ t.appData ++ (Crc.crcTrailer (Spec.body t) ++ rest) := by
      simp [Spec.octets, Spec.body]
    rw [this]
    have hn : t.sph.packetLen - 2 = (C01.Spec.octets t.sph ++ Spec.sec t.sec).length + t.appData.length := by
      rw [h11]; simp [Sph.packetLen]; omega
    rw [hn, ← h11]
    exact slice_eq_of_append _ _ _
  have g1 : ¬ (Spec.octets t ++ rest).length < t.sph.packetLen := by
    simp [hlen, Sph.packetLen]; omega
  have g2 : ¬ t.sph.packetLen < 6 + 5 + 2 := by simp [Sph.packetLen]; omega
  simp only [e1, e2, bind, Except.bind, g1, g2, ↓reduceIte, e3, e4, pure, Except.pure]
  have : Crc.crc16 (Spec.octets t) = 0 := by simp [Spec.octets, Crc.crc16_residue]
  simp [this]

/-- re-packing the decoded packet reproduces the octets -/
theorem C02_repack (t : Tc) (wf : WF t) (rest : Bytes) :
    (Tc.unpack (Spec.octets t ++ rest) >>= Tc.pack) = .ok (Spec.octets t) := by
  rw [C02_roundtrip t wf rest]; exact C02_pack_exact t wf

/-- the generic space-packet view packs to the same octets -/
theorem C02_space_packet_view (t : Tc) (wf : WF t) (hs : t.sph.shf = 1) : t.spacePacketPack = t.pack := by
  obtain ⟨wh, ws, _⟩ := wf
  simp [Tc.spacePacketPack, Tc.pack, Tc.packNoCrc, C01.C01_pack_exact t.sph wh, sec_pack t.sec ws, bind,
    Except.bind, pure, Except.pure, spPack, hs]

/-- equality is reflexive on valid telecommands (`==` of the library) -/
theorem C02_eq_refl (t : Tc) (wf : WF t) : t.beq t = true := by
  obtain ⟨wh, ws, _⟩ := wf
  simp [Tc.beq, pyEq, C01.C01_pack_exact t.sph wh, sec_pack t.sec ws]

/-- **`==` is exactly equality of the compared fields**: for in-range telecommands `a == b` holds
    iff space packet header, secondary header and application data are all equal, i.e. iff the two
    objects are equal field by field (so `==` distinguishes any two different packets; together
    with `C02_roundtrip` this is "unpack(pack(x)) == x and nothing else is") -/
theorem C02_eq_iff (a b : Tc) (ha : C01.WF a.sph) (hb : C01.WF b.sph) (sa : WFSec a.sec) (sb : WFSec b.sec) :
    a.beq b = true ↔ a = b := by
  constructor
  · intro h
    simp only [Tc.beq, pyEq, C01.C01_pack_exact a.sph ha, C01.C01_pack_exact b.sph hb, sec_pack a.sec sa,
      sec_pack b.sec sb, Bool.and_eq_true, decide_eq_true_eq] at h
    obtain ⟨⟨h1, h2⟩, h3⟩ := h
    have e1 : a.sph = b.sph := by
      have u1 := C01.C01_unpack_pack a.sph ha []
      have u2 := C01.C01_unpack_pack b.sph hb []
      rw [h1, u2] at u1
      exact (Except.ok.inj u1).symm
    have e2 : a.sec = b.sec := by
      have u1 := sec_unpack_spec a.sec sa []
      have u2 := sec_unpack_spec b.sec sb []
      rw [h2, u2] at u1
      exact (Except.ok.inj u1).symm
    obtain ⟨x1, x2, x3⟩ := a
    obtain ⟨y1, y2, y3⟩ := b
    simp only at e1 e2 h3
    subst e1 e2 h3
    rfl
  · rintro rfl
    simp [Tc.beq, pyEq, C01.C01_pack_exact a.sph ha, sec_pack a.sec sa]

/-- what a successful decode guarantees: the declared length has room for secondary header and
    CRC, lies inside the buffer, the CRC over exactly the declared packet is zero, and the
    result is determined by the first `packetLen` octets only (never by neighbouring octets). -/
theorem C02_accept_sound (d : Bytes) (t : Tc) (h : Tc.unpack d = .ok t) :
    13 ≤ t.packetLen ∧ t.packetLen ≤ d.length ∧ Crc.crc16 (d.take t.packetLen) = 0 ∧
    t.appData = slice d 11 (t.packetLen - 2) ∧ Sph.unpack d = .ok t.sph := by
  unfold Tc.unpack at h
  cases hs : Sph.unpack d with
  | error e => simp [hs, bind, Except.bind] at h
  | ok sph =>
    cases hc : TcSec.unpack (d.drop 6) with
    | error e => simp [hs, hc, bind, Except.bind] at h
    | ok sec =>
      simp only [hs, hc, bind, Except.bind] at h
      by_cases g1 : d.length < sph.packetLen
      · simp [g1, throw, throwThe, MonadExceptOf.throw] at h
      · by_cases g2 : sph.packetLen < 6 + 5 + 2
        · simp [g1, g2, throw, throwThe, MonadExceptOf.throw] at h
        · by_cases g3 : Crc.crc16 (d.take sph.packetLen) = 0
          · simp only [g1, g2, g3, ne_eq, not_true_eq_false, ↓reduceIte, pure, Except.pure] at h
            have := Except.ok.inj h
            subst this
            simp only [Tc.packetLen]
            refine ⟨by omega, by omega, g3, ?_, ?_⟩ <;> trivial
          · simp only [g1, g2, ↓reduceIte, ne_eq, g3, not_false_eq_true, throw, throwThe, MonadExceptOf.throw] at h
            cases h

/-- **a declared packet length too small to hold secondary header and CRC is rejected** -/
theorem C02_reject_small_len (d : Bytes) (sph : Sph) (h : Sph.unpack d = .ok sph)
    (hsmall : sph.packetLen < 13) : ∃ e, Tc.unpack d = .error e ∧ e.documented = true := by
  unfold Tc.unpack
  cases hc : TcSec.unpack (d.drop 6) with
  | error e =>
    exact ⟨e, by simp [h, hc, bind, Except.bind], sec_unpack_documented _ e hc⟩
  | ok sec =>
    by_cases g1 : d.length < sph.packetLen
    · exact ⟨.value, by simp [h, hc, bind, Except.bind, g1, throw, throwThe, MonadExceptOf.throw], rfl⟩
    · have g2 : sph.packetLen < 6 + 5 + 2 := by omega
      exact ⟨.value, by simp [h, hc, bind, Except.bind, g1, g2, throw, throwThe, MonadExceptOf.throw], rfl⟩

/-- any octet string: the decoder returns a telecommand or fails with a documented error (C10) -/
theorem C02_documented (d : Bytes) : Documented (Tc.unpack d) := by
  intro e he
  unfold Tc.unpack at he
  cases hs : Sph.unpack d with
  | error e' =>
    simp [hs, bind, Except.bind] at he; subst he
    exact C01.C01_unpack_documented d _ hs
  | ok sph =>
    cases hc : TcSec.unpack (d.drop 6) with
    | error e' =>
      simp [hs, hc, bind, Except.bind] at he; subst he
      exact sec_unpack_documented _ _ hc
    | ok sec =>
      simp only [hs, hc, bind, Except.bind] at he
      by_cases g1 : d.length < sph.packetLen
      · simp [g1, throw, throwThe, MonadExceptOf.throw] at he; subst he; rfl
      · by_cases g2 : sph.packetLen < 6 + 5 + 2
        · simp [g1, g2, throw, throwThe, MonadExceptOf.throw] at he; subst he; rfl
        · by_cases g3 : Crc.crc16 (d.take sph.packetLen) = 0
          · simp [g1, g2, g3, pure, Except.pure] at he
          · simp only [g1, g2, ↓reduceIte, ne_eq, g3, not_false_eq_true, throw, throwThe, MonadExceptOf.throw] at he
            cases he; rfl

-- non-vacuity
example : WF ⟨⟨0, 1, 1, 0x7FF, 3, 16383, 8⟩, ⟨0b1010, 17, 1, 0xBEEF⟩, [1, 2]⟩ := by
  refine ⟨by decide, ?_, by decide⟩
  unfold WFSec; decide

/-- **the encoding is injective on the domain**: two valid telecommands with the same octets are the
    same telecommand (corollary of `C02_roundtrip`) -/
theorem C02_pack_injective (a b : Tc) (wa : WF a) (wb : WF b)
    (h : Spec.octets a = Spec.octets b) : a = b := by
  have r1 := C02_roundtrip a wa []
  have r2 := C02_roundtrip b wb []
  rw [h, r2] at r1
  exact (Except.ok.inj r1).symm

/-- the same for the library's `pack()` and as an iff: valid telecommands are equal exactly when they
    pack to the same octets (so telecommands that differ in any field never share an encoding) -/
theorem C02_pack_eq_iff (a b : Tc) (wa : WF a) (wb : WF b) : a.pack = b.pack ↔ a = b := by
  constructor
  · intro h
    rw [C02_pack_exact a wa, C02_pack_exact b wb] at h
    exact C02_pack_injective a b wa wb (Except.ok.inj h)
  · rintro rfl; rfl

-- non-vacuity of the injectivity hypotheses: two distinct valid telecommands (they differ in the
-- last application data octet only), whose encodings differ
example : WF ⟨⟨0, 1, 1, 0x7FF, 3, 16383, 8⟩, ⟨0b1010, 17, 1, 0xBEEF⟩, [1, 2]⟩ ∧
    WF ⟨⟨0, 1, 1, 0x7FF, 3, 16383, 8⟩, ⟨0b1010, 17, 1, 0xBEEF⟩, [1, 3]⟩ ∧
    Spec.octets ⟨⟨0, 1, 1, 0x7FF, 3, 16383, 8⟩, ⟨0b1010, 17, 1, 0xBEEF⟩, [1, 2]⟩ ≠
      Spec.octets ⟨⟨0, 1, 1, 0x7FF, 3, 16383, 8⟩, ⟨0b1010, 17, 1, 0xBEEF⟩, [1, 3]⟩ := by
  have w1 : WF ⟨⟨0, 1, 1, 0x7FF, 3, 16383, 8⟩, ⟨0b1010, 17, 1, 0xBEEF⟩, [1, 2]⟩ := by
    refine ⟨by decide, ?_, by decide⟩
    unfold WFSec; decide
  have w2 : WF ⟨⟨0, 1, 1, 0x7FF, 3, 16383, 8⟩, ⟨0b1010, 17, 1, 0xBEEF⟩, [1, 3]⟩ := by
    refine ⟨by decide, ?_, by decide⟩
    unfold WFSec; decide
  refine ⟨w1, w2, fun h => ?_⟩
  have := C02_pack_injective _ _ w1 w2 h
  exact absurd this (by decide)

end SpVerif.Props.C02
