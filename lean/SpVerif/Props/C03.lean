import SpVerif.Model.PusTm
import SpVerif.Props.C01
import SpVerif.Proofs.CrcResidue
/-!
# C03 — PUS-C telemetry encode/decode is exact and inverse for any timestamp length

`Spec.octets t`: CCSDS primary header ‖ [0x20 + time ref, service, subservice, message counter
(16 bit BE), destination id (16 bit BE)] ‖ timestamp (any length) ‖ source data ‖ CRC-16/CCITT-FALSE.
-/
namespace SpVerif.Props.C03
open SpVerif SpVerif.SpacePacket SpVerif.PusTm

def WFSec (s : TmSec) : Prop :=
  s.timeRef < 16 ∧ s.service < 256 ∧ s.subservice < 256 ∧ s.msgCounter < 65536 ∧ s.destId < 65536

/-- in-range fields, and the length field matches timestamp and source data -/
def WF (t : Tm) : Prop :=
  C01.WF t.sph ∧ WFSec t.sec ∧ t.sph.dlen = 7 + t.sec.timestamp.length + t.sourceData.length + 1

def Spec.secFixed (s : TmSec) : Bytes :=
  [u8 (32 + s.timeRef), u8 s.service, u8 s.subservice, u8 (s.msgCounter / 256), u8 (s.msgCounter % 256),
   u8 (s.destId / 256), u8 (s.destId % 256)]

def Spec.sec (s : TmSec) : Bytes := Spec.secFixed s ++ s.timestamp
def Spec.body (t : Tm) : Bytes := C01.Spec.octets t.sph ++ Spec.sec t.sec ++ t.sourceData
def Spec.octets (t : Tm) : Bytes := Spec.body t ++ Crc.crcTrailer (Spec.body t)

theorem sec_pack (s : TmSec) (wf : WFSec s) : s.pack = .ok (Spec.sec s) := by
  obtain ⟨ha, hs, hb, hc, hd⟩ := wf
  simp [TmSec.pack, byteOfN_ok (show 32 + s.timeRef < 256 by omega), byteOfN_ok hs, byteOfN_ok hb,
    packBE2_ok hc, packBE2_ok hd, bind, Except.bind, pure, Except.pure, Spec.sec, Spec.secFixed]

theorem TmSec.new_nat (svc sub cnt dst ref : Nat) (ts : Bytes) :
    TmSec.new (svc : Int) (sub : Int) ts (cnt : Int) dst ref =
      if 255 < svc ∨ 255 < sub ∨ 65535 < cnt then .error .value else .ok ⟨ref, svc, sub, cnt, dst, ts⟩ := by
  unfold TmSec.new
  by_cases h1 : 255 < svc
  · have : (svc : Int) > 255 ∨ (svc : Int) < 0 := by omega
    simp [this, h1]
  · have g1 : ¬ ((svc : Int) > 255 ∨ (svc : Int) < 0) := by omega
    by_cases h2 : 255 < sub
    · have : (sub : Int) > 255 ∨ (sub : Int) < 0 := by omega
      simp [g1, this, h2]
    · have g2 : ¬ ((sub : Int) > 255 ∨ (sub : Int) < 0) := by omega
      by_cases h3 : 65535 < cnt
      · have : (cnt : Int) > 65535 ∨ (cnt : Int) < 0 := by omega
        simp [g1, g2, this, h3]
      · have g3 : ¬ ((cnt : Int) > 65535 ∨ (cnt : Int) < 0) := by omega
        simp [g1, g2, g3, h1, h2, h3]

/-- constructor: valid arguments give a TM header (type TM, secondary-header flag, unsegmented,
    data length = 7 + |timestamp| + |source data| + 1), for every packet version -/
theorem C03_new (svc sub apid count cnt ref dst ver : Nat) (ts src : Bytes)
    (ha : apid < 2048) (hc : count < 16384) (hs : svc < 256) (hb : sub < 256) (hm : cnt < 65536)
    (hl : ts.length + src.length ≤ 65527) :
    Tm.new (svc : Int) (sub : Int) ts src (apid : Int) (count : Int) (cnt : Int) ref dst ver =
      .ok ⟨⟨ver, 0, 1, apid, 3, count, 7 + ts.length + src.length + 1⟩, ⟨ref, svc, sub, cnt, dst, ts⟩, src⟩ := by
  have e : dataLen ts.length src.length = 7 + ts.length + src.length + 1 := rfl
  have g : ¬ (65535 < 7 + ts.length + src.length + 1 ∨ 2047 < apid ∨ 16383 < count) := by omega
  have g2 : ¬ (255 < svc ∨ 255 < sub ∨ 65535 < cnt) := by omega
  simp only [Tm.new, Sph.new_nat, e, g, ↓reduceIte, bind, Except.bind, TmSec.new_nat, g2, pure, Except.pure]

/-- timestamp + source data beyond what the 16-bit length field can describe are refused -/
theorem C03_too_long (svc sub apid count cnt : Int) (ref dst ver : Nat) (ts src : Bytes)
    (hl : 65527 < ts.length + src.length) :
    Tm.new svc sub ts src apid count cnt ref dst ver = .error .value := by
  have : ((dataLen ts.length src.length : Nat) : Int) > 65535 ∨ ((dataLen ts.length src.length : Nat) : Int) < 0 := by
    unfold dataLen; omega
  simp [Tm.new, Sph.new, this, bind, Except.bind]

/-- out-of-range service, subservice or message counter are refused with ValueError -/
theorem C03_refuse_sec (svc sub cnt : Int) (ts : Bytes) (dst ref : Nat)
    (h : svc < 0 ∨ 255 < svc ∨ sub < 0 ∨ 255 < sub ∨ cnt < 0 ∨ 65535 < cnt) :
    TmSec.new svc sub ts cnt dst ref = .error .value := by
  unfold TmSec.new
  split
  · rfl
  · split
    · rfl
    · split
      · rfl
      · omega

/-- **pack = prescribed octets**, for every timestamp (any length) -/
theorem C03_pack_exact (t : Tm) (wf : WF t) : t.pack = .ok (Spec.octets t) := by
  obtain ⟨wh, ws, _⟩ := wf
  simp [Tm.pack, Tm.packNoCrc, C01.C01_pack_exact t.sph wh, sec_pack t.sec ws, bind, Except.bind,
    pure, Except.pure, Spec.octets, Spec.body]

theorem body_length (t : Tm) : (Spec.body t).length = 13 + t.sec.timestamp.length + t.sourceData.length := by
  simp [Spec.body, C01.Spec.octets, Spec.sec, Spec.secFixed]; omega

theorem C03_len (t : Tm) (wf : WF t) : (Spec.octets t).length = t.packetLen ∧ t.packetLen = t.sph.dlen + 7 := by
  obtain ⟨_, _, hd⟩ := wf
  simp [Spec.octets, body_length, Crc.crcTrailer, Crc.be16, Tm.packetLen, Sph.packetLen]; omega

theorem C03_crc_valid (t : Tm) : Crc.crc16 (Spec.octets t) = 0 := by
  simp [Spec.octets, Crc.crc16_residue]

/-- the timestamp starts at `PUS_TM_TIMESTAMP_OFFSET` = 13 -/
theorem C03_offset (t : Tm) : timestampOffset = 13 ∧
    ((Spec.octets t).drop 13).take t.sec.timestamp.length = t.sec.timestamp := by
  refine ⟨rfl, ?_⟩
  have h13 : (C01.Spec.octets t.sph ++ Spec.secFixed t.sec).length = 13 := by
    simp [C01.Spec.octets, Spec.secFixed]
  have : Spec.octets t = (C01.Spec.octets t.sph ++ Spec.secFixed t.sec) ++
      (t.sec.timestamp ++ (t.sourceData ++ Crc.crcTrailer (Spec.body t))) := by
    simp [Spec.octets, Spec.body, Spec.sec]
  rw [this, ← h13, List.drop_left]
  simp

private theorem sec_unpack_eq (d : Bytes) (n : Nat) (h7 : 7 ≤ d.length) :
    TmSec.unpack d n = if d[0].toNat / 16 ≠ 2 then .error .value else
      .ok ⟨d[0].toNat % 16, d[1].toNat, d[2].toNat, d[3].toNat * 256 + d[4].toNat,
           d[5].toNat * 256 + d[6].toNat, slice d 7 (7 + n)⟩ := by
  have hl : ¬ d.length < 7 := by omega
  unfold TmSec.unpack
  simp only [hl, ↓reduceIte, bind, Except.bind, pure, Except.pure,
    idx_ok (show 0 < d.length by omega), idx_ok (show 1 < d.length by omega),
    idx_ok (show 2 < d.length by omega), unpackBE2_slice d 3 (by omega), unpackBE2_slice d 5 (by omega)]
  split <;> simp_all [throw, throwThe, MonadExceptOf.throw]

private theorem sec_unpack_short (d : Bytes) (n : Nat) (h : d.length < 7) : TmSec.unpack d n = .error .value := by
  simp [TmSec.unpack, h, throw, throwThe, MonadExceptOf.throw, bind, Except.bind]

theorem sec_unpack_documented (d : Bytes) (n : Nat) : Documented (TmSec.unpack d n) := by
  by_cases h : d.length < 7
  · rw [sec_unpack_short d n h]; exact Documented.err rfl
  · rw [sec_unpack_eq d n (by omega)]
    split
    · exact Documented.err rfl
    · exact Documented.ok _

private theorem ar_sec0 (a : Nat) (h : a < 16) : (32 + a) % 256 / 16 = 2 ∧ (32 + a) % 256 % 16 = a := by omega
private theorem ar_src (v : Nat) (h : v < 65536) : v / 256 % 256 * 256 + v % 256 % 256 = v := by omega
private theorem ar_mod (v : Nat) (h : v < 256) : v % 256 = v := by omega

theorem sec_unpack_spec (s : TmSec) (wf : WFSec s) (rest : Bytes) :
    TmSec.unpack (Spec.sec s ++ rest) s.timestamp.length = .ok s := by
  obtain ⟨ha, hs, hb, hc, hd⟩ := wf
  rw [sec_unpack_eq _ _ (by simp [Spec.sec, Spec.secFixed])]
  have hsl : slice (Spec.sec s ++ rest) 7 (7 + s.timestamp.length) = s.timestamp := by
    have h7 : (Spec.secFixed s).length = 7 := by simp [Spec.secFixed]
    have : Spec.sec s ++ rest = Spec.secFixed s ++ s.timestamp ++ rest := by simp [Spec.sec]
    rw [this, ← h7]; exact slice_eq_of_append _ _ _
  rw [hsl]
  simp only [Spec.sec, Spec.secFixed, List.cons_append, List.getElem_cons_zero, List.getElem_cons_succ, u8_toNat]
  have := ar_sec0 s.timeRef ha
  simp only [this.1, this.2, ne_eq, not_true_eq_false, ↓reduceIte, ar_src _ hc, ar_src _ hd, ar_mod _ hs, ar_mod _ hb]

/-- **decode ∘ encode = id** when decoding with the packed timestamp length, whatever follows -/
theorem C03_roundtrip (t : Tm) (wf : WF t) (rest : Bytes) :
    Tm.unpack (Spec.octets t ++ rest) t.sec.timestamp.length = .ok t := by
  obtain ⟨wh, ws, hd⟩ := wf
  have hlen : (Spec.octets t).length = t.sph.dlen + 7 := by
    simp [Spec.octets, body_length, Crc.crcTrailer, Crc.be16]; omega
  unfold Tm.unpack
  have e1 : Sph.unpack (Spec.octets t ++ rest) = .ok t.sph := by
    have : Spec.octets t ++ rest = C01.Spec.octets t.sph ++ (Spec.sec t.sec ++ t.sourceData ++ Crc.crcTrailer (Spec.body t) ++ rest) := by
      simp [Spec.octets, Spec.body]
    rw [this]; exact C01.C01_unpack_pack t.sph wh _
  have e2 : TmSec.unpack ((Spec.octets t ++ rest).drop 6) t.sec.timestamp.length = .ok t.sec := by
    have : (Spec.octets t ++ rest).drop 6 = Spec.sec t.sec ++ (t.sourceData ++ Crc.crcTrailer (Spec.body t) ++ rest) := by
      simp [Spec.octets, Spec.body, C01.Spec.octets]
    rw [this]; exact sec_unpack_spec t.sec ws _
  have hn : totalLenFromLenField t.sph.dlen = (Spec.octets t).length := by
    rw [hlen]; simp [totalLenFromLenField]
  have e3 : (Spec.octets t ++ rest).take (totalLenFromLenField t.sph.dlen) = Spec.octets t := by
    rw [hn]; simp
  have e4 : slice (Spec.octets t ++ rest) (t.sec.headerSize + 6) (totalLenFromLenField t.sph.dlen - 2) = t.sourceData := by
    have hp : (C01.Spec.octets t.sph ++ Spec.sec t.sec).length = t.sec.headerSize + 6 := by
      simp [C01.Spec.octets, Spec.sec, Spec.secFixed, TmSec.headerSize]; omega
    have : Spec.octets t ++ rest = (C01.Spec.octets t.sph ++ Spec.sec t.sec) ++ t.sourceData ++ (Crc.crcTrailer (Spec.body t) ++ rest) := by
      simp [Spec.octets, Spec.body]
    rw [this]
    have hn2 : totalLenFromLenField t.sph.dlen - 2 = (C01.Spec.octets t.sph ++ Spec.sec t.sec).length + t.sourceData.length := by
      rw [hp]; simp [totalLenFromLenField, TmSec.headerSize]; omega
    rw [hn2, ← hp]
    exact slice_eq_of_append _ _ _
  have g1 : ¬ totalLenFromLenField t.sph.dlen > (Spec.octets t ++ rest).length := by
    simp [hlen, totalLenFromLenField]
  have g2 : ¬ totalLenFromLenField t.sph.dlen < 6 + 7 + t.sec.timestamp.length + 2 := by
    simp [totalLenFromLenField]; omega
  have g3 : ¬ totalLenFromLenField t.sph.dlen < t.sec.headerSize + 6 := by
    simp [totalLenFromLenField, TmSec.headerSize]; omega
  simp only [e1, e2, bind, Except.bind, g1, g2, g3, ↓reduceIte, e3, e4, pure, Except.pure]
  have : Crc.crc16 (Spec.octets t) = 0 := by simp [Spec.octets, Crc.crc16_residue]
  simp [this]

theorem C03_repack (t : Tm) (wf : WF t) (rest : Bytes) :
    (Tm.unpack (Spec.octets t ++ rest) t.sec.timestamp.length >>= Tm.pack) = .ok (Spec.octets t) := by
  rw [C03_roundtrip t wf rest]; exact C03_pack_exact t wf

/-- the generic space-packet view packs to the same octets -/
theorem C03_space_packet_view (t : Tm) (wf : WF t) (hs : t.sph.shf = 1) : t.spacePacketPack = t.pack := by
  obtain ⟨wh, ws, _⟩ := wf
  simp [Tm.spacePacketPack, Tm.pack, Tm.packNoCrc, C01.C01_pack_exact t.sph wh, sec_pack t.sec ws, bind,
    Except.bind, pure, Except.pure, spPack, hs]

theorem C03_eq_refl (t : Tm) (wf : WF t) : t.beq t = true := by
  obtain ⟨wh, ws, _⟩ := wf
  simp [Tm.beq, pyEq, C01.C01_pack_exact t.sph wh, sec_pack t.sec ws]

/-- **`==` is exactly equality of the compared fields**: for in-range telemetry `a == b` holds iff
    space packet header, secondary header (timestamp included) and source data are all equal, i.e.
    iff the two objects are equal field by field (so `==` distinguishes any two different packets) -/
theorem C03_eq_iff (a b : Tm) (ha : C01.WF a.sph) (hb : C01.WF b.sph) (sa : WFSec a.sec) (sb : WFSec b.sec) :
    a.beq b = true ↔ a = b := by
  constructor
  · intro h
    simp only [Tm.beq, pyEq, C01.C01_pack_exact a.sph ha, C01.C01_pack_exact b.sph hb, sec_pack a.sec sa,
      sec_pack b.sec sb, Bool.and_eq_true, decide_eq_true_eq] at h
    obtain ⟨⟨h1, h2⟩, h3⟩ := h
    have e1 : a.sph = b.sph := by
      have u1 := C01.C01_unpack_pack a.sph ha []
      have u2 := C01.C01_unpack_pack b.sph hb []
      rw [h1, u2] at u1
      exact (Except.ok.inj u1).symm
    have hl : a.sec.timestamp.length = b.sec.timestamp.length := by
      have := congrArg List.length h2
      simp only [Spec.sec, Spec.secFixed, List.length_append, List.length_cons, List.length_nil] at this
      omega
    have e2 : a.sec = b.sec := by
      have u1 := sec_unpack_spec a.sec sa []
      have u2 := sec_unpack_spec b.sec sb []
      rw [h2, hl, u2] at u1
      exact (Except.ok.inj u1).symm
    obtain ⟨x1, x2, x3⟩ := a
    obtain ⟨y1, y2, y3⟩ := b
    simp only at e1 e2 h3
    subst e1 e2 h3
    rfl
  · rintro rfl
    simp [Tm.beq, pyEq, C01.C01_pack_exact a.sph ha, sec_pack a.sec sa]

/-- the service-17 wrapper builds service-17 telemetry and decodes/packs exactly like the generic class -/
theorem C03_srv17 (sub apid ssc ref dst ver : Nat) (ts src : Bytes)
    (ha : apid < 2048) (hc : ssc < 16384) (hb : sub < 256) (hl : ts.length + src.length ≤ 65527) :
    srv17New (apid : Int) (sub : Int) ts (ssc : Int) src ver ref dst =
      .ok ⟨⟨ver, 0, 1, apid, 3, ssc, 7 + ts.length + src.length + 1⟩, ⟨ref, 17, sub, 0, dst, ts⟩, src⟩ ∧
    ∀ d n, srv17Unpack d n = Tm.unpack d n := by
  refine ⟨?_, fun _ _ => rfl⟩
  have := C03_new 17 sub apid ssc 0 ref dst ver ts src ha hc (by omega) hb (by omega) hl
  simpa [srv17New] using this

/-- what a successful decode guarantees, for ANY timestamp length handed to the decoder -/
theorem C03_accept_sound (d : Bytes) (n : Nat) (t : Tm) (h : Tm.unpack d n = .ok t) :
    13 + n + 2 ≤ t.packetLen ∧ t.packetLen ≤ d.length ∧ Crc.crc16 (d.take t.packetLen) = 0 ∧
    t.sec.timestamp.length = n ∧ t.sourceData = slice d (13 + n) (t.packetLen - 2) := by
  unfold Tm.unpack at h
  cases hs : Sph.unpack d with
  | error e => simp [hs, bind, Except.bind] at h
  | ok sph =>
    simp only [hs, bind, Except.bind] at h
    by_cases g1 : totalLenFromLenField sph.dlen > d.length
    · simp [g1, throw, throwThe, MonadExceptOf.throw] at h
    · by_cases g2 : totalLenFromLenField sph.dlen < 6 + 7 + n + 2
      · simp [g1, g2, throw, throwThe, MonadExceptOf.throw] at h
      · simp only [g1, g2, ↓reduceIte] at h
        cases hc : TmSec.unpack (d.drop 6) n with
        | error e => simp [hc] at h
        | ok sec =>
          have hd7 : 7 ≤ (d.drop 6).length := by
            simp [totalLenFromLenField] at g1 g2; simp; omega
          have hsec := hc
          rw [sec_unpack_eq _ _ hd7] at hsec
          have hts : sec.timestamp.length = n := by
            split at hsec
            · cases hsec
            · have := Except.ok.inj hsec
              subst this
              simp [totalLenFromLenField] at g1 g2
              simp; omega
          simp only [hc] at h
          by_cases g3 : totalLenFromLenField sph.dlen < sec.headerSize + 6
          · simp [g3, throw, throwThe, MonadExceptOf.throw] at h
          · by_cases g4 : Crc.crc16 (d.take (totalLenFromLenField sph.dlen)) = 0
            · simp only [g3, g4, ne_eq, not_true_eq_false, ↓reduceIte, pure, Except.pure] at h
              have := Except.ok.inj h
              subst this
              have e : totalLenFromLenField sph.dlen = sph.packetLen := by
                simp [totalLenFromLenField, Sph.packetLen]; omega
              rw [e] at g1 g2 g3 g4
              simp only [Tm.packetLen, TmSec.headerSize] at *
              refine ⟨by omega, by omega, g4, hts, ?_⟩
              rw [hts, e]
              congr 1; omega
            · simp only [g3, ↓reduceIte, ne_eq, g4, not_false_eq_true, throw, throwThe, MonadExceptOf.throw] at h
              cases h

/-- **a declared length too small for header, timestamp and CRC is rejected** (documented error),
    for every timestamp length handed to the decoder -/
theorem C03_reject_small_len (d : Bytes) (n : Nat) (sph : Sph) (h : Sph.unpack d = .ok sph)
    (hsmall : sph.packetLen < 13 + n + 2) : Tm.unpack d n = .error .value := by
  unfold Tm.unpack
  simp only [h, bind, Except.bind]
  by_cases g1 : totalLenFromLenField sph.dlen > d.length
  · simp [g1, throw, throwThe, MonadExceptOf.throw]
  · have g2 : totalLenFromLenField sph.dlen < 6 + 7 + n + 2 := by
      simp [Sph.packetLen, totalLenFromLenField] at *; omega
    simp [g1, g2, throw, throwThe, MonadExceptOf.throw]

/-- any octet string, any timestamp length: only documented errors (C10) -/
theorem C03_documented (d : Bytes) (n : Nat) : Documented (Tm.unpack d n) := by
  intro e he
  unfold Tm.unpack at he
  cases hs : Sph.unpack d with
  | error e' =>
    simp [hs, bind, Except.bind] at he; subst he
    exact C01.C01_unpack_documented d _ hs
  | ok sph =>
    simp only [hs, bind, Except.bind] at he
    by_cases g1 : totalLenFromLenField sph.dlen > d.length
    · simp [g1, throw, throwThe, MonadExceptOf.throw] at he; subst he; rfl
    · by_cases g2 : totalLenFromLenField sph.dlen < 6 + 7 + n + 2
      · simp [g1, g2, throw, throwThe, MonadExceptOf.throw] at he; subst he; rfl
      · simp only [g1, g2, ↓reduceIte] at he
        cases hc : TmSec.unpack (d.drop 6) n with
        | error e' =>
          simp [hc] at he; subst he
          exact sec_unpack_documented _ _ _ hc
        | ok sec =>
          simp only [hc] at he
          by_cases g3 : totalLenFromLenField sph.dlen < sec.headerSize + 6
          · simp [g3, throw, throwThe, MonadExceptOf.throw] at he; subst he; rfl
          · by_cases g4 : Crc.crc16 (d.take (totalLenFromLenField sph.dlen)) = 0
            · simp [g3, g4, pure, Except.pure] at he
            · simp only [g3, ↓reduceIte, ne_eq, g4, not_false_eq_true, throw, throwThe, MonadExceptOf.throw] at he
              cases he; rfl

/-- `service_from_bytes`, completely: on every buffer of at least 8 octets it returns octet 7 (the
    service octet of the secondary header), below 8 octets it raises `ValueError`; no other outcome -/
theorem C03_service_from_bytes (d : Bytes) :
    (∀ h : 8 ≤ d.length, serviceFromBytes d = .ok (d[7]'(by omega)).toNat) ∧
    (d.length < 8 → serviceFromBytes d = .error .value) ∧ Documented (serviceFromBytes d) := by
  unfold serviceFromBytes
  by_cases h : d.length < 8
  · refine ⟨fun h8 => absurd h (by omega), fun _ => ?_, ?_⟩
    · simp [h, throw, throwThe, MonadExceptOf.throw, bind, Except.bind]
    · simp [h, throw, throwThe, MonadExceptOf.throw, bind, Except.bind]; exact Documented.err rfl
  · refine ⟨fun h8 => ?_, fun h' => absurd h' h, ?_⟩
    · simp [h, bind, Except.bind, idx_ok (show 7 < d.length by omega)]
    · simp [h, bind, Except.bind, idx_ok (show 7 < d.length by omega)]; exact Documented.ok _

/-- on a packed telemetry packet (whatever follows it in the buffer) `service_from_bytes` returns the
    service the packet was built with -/
theorem C03_service_from_bytes_packed (t : Tm) (wf : WF t) (rest : Bytes) :
    serviceFromBytes (Spec.octets t ++ rest) = .ok t.sec.service := by
  obtain ⟨_, ⟨_, hs, _⟩, _⟩ := wf
  have h8 : 8 ≤ (Spec.octets t ++ rest).length := by
    simp [Spec.octets, Spec.body, Spec.sec, Spec.secFixed, C01.Spec.octets]
  rw [(C03_service_from_bytes _).1 h8]
  simp [Spec.octets, Spec.body, Spec.sec, Spec.secFixed, C01.Spec.octets, ar_mod _ hs]

-- non-vacuity: a 3-octet timestamp, packet version 5
example : WF ⟨⟨5, 0, 1, 0x7FF, 3, 16383, 13⟩, ⟨9, 17, 2, 0xABCD, 0xBEEF, [1, 2, 3]⟩, [7, 8]⟩ := by
  refine ⟨by decide, ?_, by decide⟩
  unfold WFSec; decide

/-- **the encoding is injective for a fixed timestamp length**: two valid telemetry packets whose
    timestamps have the same length and whose octets are equal are the same packet (corollary of
    `C03_roundtrip`). The packet does not carry the timestamp length (the decoder is told it), so the
    hypothesis `hl` is needed: see the `example` below for two different valid packets with
    timestamps of different length and identical octets. -/
theorem C03_pack_injective (a b : Tm) (wa : WF a) (wb : WF b)
    (hl : a.sec.timestamp.length = b.sec.timestamp.length)
    (h : Spec.octets a = Spec.octets b) : a = b := by
  have r1 := C03_roundtrip a wa []
  have r2 := C03_roundtrip b wb []
  rw [h, hl, r2] at r1
  exact (Except.ok.inj r1).symm

/-- the same for the library's `pack()` and as an iff: valid telemetry packets with timestamps of one
    length are equal exactly when they pack to the same octets -/
theorem C03_pack_eq_iff (a b : Tm) (wa : WF a) (wb : WF b)
    (hl : a.sec.timestamp.length = b.sec.timestamp.length) : a.pack = b.pack ↔ a = b := by
  constructor
  · intro h
    rw [C03_pack_exact a wa, C03_pack_exact b wb] at h
    exact C03_pack_injective a b wa wb hl (Except.ok.inj h)
  · rintro rfl; rfl

-- non-vacuity of the injectivity hypotheses: two distinct valid packets with 3-octet timestamps
-- (they differ in the last timestamp octet only), whose encodings differ
example : WF ⟨⟨5, 0, 1, 0x7FF, 3, 16383, 13⟩, ⟨9, 17, 2, 0xABCD, 0xBEEF, [1, 2, 3]⟩, [7, 8]⟩ ∧
    WF ⟨⟨5, 0, 1, 0x7FF, 3, 16383, 13⟩, ⟨9, 17, 2, 0xABCD, 0xBEEF, [1, 2, 4]⟩, [7, 8]⟩ ∧
    Spec.octets ⟨⟨5, 0, 1, 0x7FF, 3, 16383, 13⟩, ⟨9, 17, 2, 0xABCD, 0xBEEF, [1, 2, 3]⟩, [7, 8]⟩ ≠
      Spec.octets ⟨⟨5, 0, 1, 0x7FF, 3, 16383, 13⟩, ⟨9, 17, 2, 0xABCD, 0xBEEF, [1, 2, 4]⟩, [7, 8]⟩ := by
  have w1 : WF ⟨⟨5, 0, 1, 0x7FF, 3, 16383, 13⟩, ⟨9, 17, 2, 0xABCD, 0xBEEF, [1, 2, 3]⟩, [7, 8]⟩ := by
    refine ⟨by decide, ?_, by decide⟩
    unfold WFSec; decide
  have w2 : WF ⟨⟨5, 0, 1, 0x7FF, 3, 16383, 13⟩, ⟨9, 17, 2, 0xABCD, 0xBEEF, [1, 2, 4]⟩, [7, 8]⟩ := by
    refine ⟨by decide, ?_, by decide⟩
    unfold WFSec; decide
  refine ⟨w1, w2, fun h => ?_⟩
  have := C03_pack_injective _ _ w1 w2 rfl h
  exact absurd this (by decide)

-- the equal-length hypothesis cannot be dropped: these two valid packets differ (3-octet timestamp
-- and 2 source data octets versus 2-octet timestamp and 3 source data octets) and have the same octets
example : WF ⟨⟨5, 0, 1, 0x7FF, 3, 16383, 13⟩, ⟨9, 17, 2, 0xABCD, 0xBEEF, [1, 2, 3]⟩, [7, 8]⟩ ∧
    WF ⟨⟨5, 0, 1, 0x7FF, 3, 16383, 13⟩, ⟨9, 17, 2, 0xABCD, 0xBEEF, [1, 2]⟩, [3, 7, 8]⟩ ∧
    ⟨⟨5, 0, 1, 0x7FF, 3, 16383, 13⟩, ⟨9, 17, 2, 0xABCD, 0xBEEF, [1, 2, 3]⟩, [7, 8]⟩ ≠ (⟨⟨5, 0, 1, 0x7FF, 3, 16383, 13⟩, ⟨9, 17, 2, 0xABCD, 0xBEEF, [1, 2]⟩, [3, 7, 8]⟩ : Tm) ∧
    Spec.octets ⟨⟨5, 0, 1, 0x7FF, 3, 16383, 13⟩, ⟨9, 17, 2, 0xABCD, 0xBEEF, [1, 2, 3]⟩, [7, 8]⟩ =
      Spec.octets ⟨⟨5, 0, 1, 0x7FF, 3, 16383, 13⟩, ⟨9, 17, 2, 0xABCD, 0xBEEF, [1, 2]⟩, [3, 7, 8]⟩ := by
  refine ⟨?_, ?_, by decide, ?_⟩
  · refine ⟨by decide, ?_, by decide⟩
    unfold WFSec; decide
  · refine ⟨by decide, ?_, by decide⟩
    unfold WFSec; decide
  · have : Spec.body ⟨⟨5, 0, 1, 0x7FF, 3, 16383, 13⟩, ⟨9, 17, 2, 0xABCD, 0xBEEF, [1, 2, 3]⟩, [7, 8]⟩ = Spec.body ⟨⟨5, 0, 1, 0x7FF, 3, 16383, 13⟩, ⟨9, 17, 2, 0xABCD, 0xBEEF, [1, 2]⟩, [3, 7, 8]⟩ := by
      simp [Spec.body, Spec.sec, Spec.secFixed]
    simp only [Spec.octets, this]

end SpVerif.Props.C03
