import SpVerif.Model.Parser
import SpVerif.Proofs.Parser
/-!
# C13 — Space-packet stream parser reassembles losslessly under any fragmentation

Property theorems only. Model: `SpVerif.Parser` (`parse_space_packets` as it is in `/repo` now).

* `scanPy`/`parseCall`/`runPy` are the Python-faithful versions in the `Py` monad (they perform the
  `struct.unpack` calls of the code); `scan`/`call`/`run` are the pure functions. `C13_total*`:
  the former never fail and compute the latter, for **every** buffer, deque, ID list and schedule.
* A *schedule* is any list of `append c` (the caller's `deque.append`) and `parse` steps
  (`Parser.Step`); `fed s` is the concatenation of what it appends. Every way of cutting a stream
  into chunks (every subset of cut positions) together with every placement of parser calls is a
  schedule with `fed s = stream`; there is no bound on the number or size of chunks or packets.
* The statement's objects: `WFPacket` (registered ID, complete, length = length field + 7), `Junk`
  (octets between packets at none of which a registered ID can be read), `Incomplete` (the
  not-yet-complete tail), `stream` (junk₁ ‖ packet₁ ‖ junk₂ ‖ packet₂ ‖ … ‖ rest) — all decidable.

`Spec` for this property is the decomposition itself: the parser applied to `stream segs rest`
must return exactly the packets of `segs`, in order, and then go on with `rest` (`C13_stream`).
-/
namespace SpVerif.Props.C13
open SpVerif SpVerif.Parser

/-! ## Well-formedness predicates (decidable) -/

/-- a complete space packet whose (masked) packet ID is registered: at least seven octets, and as
    long as its length field says (`length field + 7`) -/
def WFPacket (ids : List Nat) (p : Bytes) : Prop :=
  6 < p.length ∧ pidOf p ∈ ids ∧ p.length = totalOf p

/-- octets `j` in front of `x` that "cannot be a registered packet ID": at no position of `j` whose
    successor octet is known does the 16-bit word (masked with `0x1FFF`) equal a registered ID.
    (The successor of the last octet of `j` is the first octet of `x`.) -/
def Junk (ids : List Nat) (j x : Bytes) : Prop :=
  ∀ i, i < j.length → i + 1 < (j ++ x).length → pidOf ((j ++ x).drop i) ∉ ids

/-- the not-yet-complete tail: fewer than seven octets of anything, or the beginning of a packet
    with a registered ID that is shorter than its header announces -/
def Incomplete (ids : List Nat) (t : Bytes) : Prop :=
  t.length ≤ 6 ∨ (pidOf t ∈ ids ∧ t.length < totalOf t)

/-- junk₁ ‖ packet₁ ‖ … ‖ junkₙ ‖ packetₙ ‖ rest -/
def stream : List (Bytes × Bytes) → Bytes → Bytes
  | [], rest => rest
  | (j, p) :: segs, rest => j ++ p ++ stream segs rest

/-- every segment is junk (possibly empty) followed by a well-formed packet -/
def WFStream (ids : List Nat) : List (Bytes × Bytes) → Prop
  | [] => True
  | (j, p) :: segs => Junk ids j p ∧ WFPacket ids p ∧ WFStream ids segs

/-- the packets of a stream, in stream order -/
def packetsOf (segs : List (Bytes × Bytes)) : List Bytes := segs.map (·.2)

instance (ids : List Nat) (p : Bytes) : Decidable (WFPacket ids p) := by unfold WFPacket; infer_instance
instance (ids : List Nat) (j x : Bytes) : Decidable (Junk ids j x) := by unfold Junk; infer_instance
instance (ids : List Nat) (t : Bytes) : Decidable (Incomplete ids t) := by unfold Incomplete; infer_instance
instance instDecWFStream (ids : List Nat) : (segs : List (Bytes × Bytes)) → Decidable (WFStream ids segs)
  | [] => isTrue trivial
  | (j, p) :: segs =>
    have := instDecWFStream ids segs
    by unfold WFStream; infer_instance

/-! ## The parser never fails (for every input, not only well-formed streams) -/

/-- the scan performs its two `struct.unpack` calls only on slices of exactly two octets: no
    `struct.error`, no `IndexError`, for every buffer and every ID list; and it terminates
    (well-founded recursion on the number of remaining octets) -/
theorem C13_total (ids : List Nat) (buf : Bytes) : scanPy ids buf = .ok (scan ids buf) :=
  scanPy_eq ids buf

/-- one call on any deque succeeds and is the pure `call` -/
theorem C13_total_call (ids : List Nat) (q : List Bytes) : parseCall ids q = .ok (call ids q) :=
  parseCall_eq ids q

/-- any schedule of appends and calls on any deque succeeds and is the pure `run` -/
theorem C13_total_run (ids : List Nat) (q : List Bytes) (s : List Step) :
    runPy ids q s = .ok (run ids q s) :=
  runPy_eq ids q s

/-! ## The deque protocol only sees the concatenation of the chunks -/

/-- drain – concatenate – scan – re-insert: a call returns what a scan of the concatenated deque
    returns, and the deque afterwards concatenates to the residual of that scan (whatever the
    number and sizes of the chunks that were in the deque) -/
theorem C13_call (ids : List Nat) (q : List Bytes) :
    (call ids q).1 = (scan ids q.flatten).1 ∧ (call ids q).2.flatten = (scan ids q.flatten).2 :=
  ⟨call_packets ids q, call_queue ids q⟩

/-- after a call the deque holds at most one chunk -/
theorem C13_call_one_chunk (ids : List Nat) (q : List Bytes) : (call ids q).2.length ≤ 1 := by
  unfold call requeue
  split
  · simp
  · split
    · simp
    · split <;> simp

/-! ## Chunk invariance and its lift to every schedule -/

/-- **chunking**: scanning `a ++ b` is scanning `a`, then scanning what was left of `a` followed by
    `b`: a decision taken at a scan position depends only on octets that were available when it was
    taken -/
theorem C13_chunk (ids : List Nat) (a b : Bytes) :
    scan ids (a ++ b) =
      ((scan ids a).1 ++ (scan ids ((scan ids a).2 ++ b)).1, (scan ids ((scan ids a).2 ++ b)).2) :=
  scan_chunk ids a b

/-- a second call without new data returns nothing and leaves the residual as it is -/
theorem C13_idem (ids : List Nat) (a : Bytes) : scan ids (scan ids a).2 = ([], (scan ids a).2) :=
  scan_idem ids a

/-- **every schedule** (induction over the schedule): at any point of any interleaving of appends
    and parser calls, starting from any deque, the packets returned so far followed by what a scan
    of the present deque returns are exactly what ONE scan of all octets fed returns — and the
    residuals agree -/
theorem C13_any_schedule (ids : List Nat) (q : List Bytes) (s : List Step) :
    scan ids (q.flatten ++ fed s) =
      (returned (run ids q s).1 ++ (scan ids (run ids q s).2.flatten).1,
       (scan ids (run ids q s).2.flatten).2) :=
  run_invariant ids q s

/-- **after any parser call**: whatever the schedule before it, once a call has been made all the
    packets returned up to and including it are exactly those of one scan of everything fed so far,
    and the deque concatenates to exactly that scan's residual -/
theorem C13_after_parse (ids : List Nat) (q : List Bytes) (s : List Step) :
    returned (run ids q (s ++ [.parse])).1 = (scan ids (q.flatten ++ fed s)).1 ∧
    (run ids q (s ++ [.parse])).2.flatten = (scan ids (q.flatten ++ fed s)).2 := by
  rw [run_append]
  have h1 : run ids (run ids q s).2 [.parse] =
      ([call ids (run ids q s).2], (call ids (run ids q s).2).2) := rfl
  rw [h1, returned_append, returned_cons, run_invariant ids q s]
  simp [returned, call_packets, call_queue]

/-- the schedule "append one chunk, call the parser" for a list of chunks -/
def feedEach (cs : List Bytes) : List Step := cs.flatMap fun c => [.append c, .parse]

private theorem fed_feedEach (cs : List Bytes) : fed (feedEach cs) = cs.flatten := by
  induction cs with
  | nil => rfl
  | cons c cs ih =>
    have : feedEach (c :: cs) = .append c :: .parse :: feedEach cs := by simp [feedEach]
    rw [this]
    simp only [fed, List.flatten_cons, ih]

/-- **every fragmentation**: for every list of chunks (every set of cut positions, empty chunks
    included), calling the parser after each chunk returns in total what one call on the unfragmented
    stream returns, and leaves the same residual -/
theorem C13_feed_eq_batch (ids : List Nat) (cs : List Bytes) (hne : cs ≠ []) :
    returned (run ids [] (feedEach cs)).1 = (scan ids cs.flatten).1 ∧
    (run ids [] (feedEach cs)).2.flatten = (scan ids cs.flatten).2 := by
  obtain ⟨cs', c, rfl⟩ : ∃ cs' c, cs = cs' ++ [c] :=
    ⟨cs.dropLast, cs.getLast hne, (List.dropLast_concat_getLast hne).symm⟩
  have e : feedEach (cs' ++ [c]) = (feedEach cs' ++ [.append c]) ++ [.parse] := by
    simp [feedEach]
  have hf : fed (feedEach cs' ++ [.append c]) = (cs' ++ [c]).flatten := by
    rw [fed_append, fed_feedEach]; simp [fed]
  have := C13_after_parse ids [] (feedEach cs' ++ [.append c])
  rw [← e, hf] at this
  simpa using this

/-! ## What a scan returns: soundness for arbitrary input -/

/-- whatever the buffer, every returned element is a complete packet with a registered ID whose
    length is the one its header announces -/
theorem C13_sound (ids : List Nat) (buf : Bytes) : ∀ p ∈ (scan ids buf).1, WFPacket ids p :=
  scan_sound ids buf

/-- the residual kept in the deque is a suffix of what was scanned -/
theorem C13_residual_suffix (ids : List Nat) (buf : Bytes) : (scan ids buf).2 <:+ buf :=
  scan_suffix ids buf

/-- **the residual is always "not yet decidable"**: for every input, what the scan leaves in the
    deque is `Incomplete` — at most six octets of anything, or the beginning of a packet with a
    registered ID that is shorter than its header announces. (Never a complete registered packet,
    never more than six octets that do not start with a registered ID.) -/
theorem C13_residual_incomplete (ids : List Nat) (buf : Bytes) : Incomplete ids (scan ids buf).2 := by
  fun_induction scan ids buf with
  | case1 rest h6 => exact Or.inl (by simpa [headerLen] using h6)
  | case2 rest h6 hpid hinc => exact Or.inr ⟨hpid, by omega⟩
  | case3 rest h6 hpid hinc r ih => exact ih
  | case4 rest h6 hpid ih => exact ih

/-! ## The stream theorem -/

/-- an incomplete tail is kept whole -/
theorem C13_incomplete (ids : List Nat) (t : Bytes) (h : Incomplete ids t) : scan ids t = ([], t) := by
  rcases h with h | ⟨hp, hl⟩
  · exact scan_short ids t h
  · exact scan_incomplete ids t hp hl

/-- corollary (the former statement of `C13_residual_incomplete`): scanning the residual again
    returns no packet and keeps it whole -/
theorem C13_residual_quiet (ids : List Nat) (buf : Bytes) :
    (scan ids (scan ids buf).2).1 = [] ∧ scan ids (scan ids buf).2 = ([], (scan ids buf).2) := by
  have h := C13_incomplete ids _ (C13_residual_incomplete ids buf)
  exact ⟨by rw [h], h⟩

/-- a strict prefix of a well-formed packet is an incomplete tail -/
theorem C13_prefix_incomplete (ids : List Nat) (t c : Bytes) (hc : c ≠ []) (hp : WFPacket ids (t ++ c)) :
    Incomplete ids t := by
  obtain ⟨h6, hid, hlen⟩ := hp
  have hcl : 0 < c.length := List.length_pos_iff.mpr hc
  by_cases hs : t.length ≤ 6
  · exact Or.inl hs
  · refine Or.inr ⟨?_, ?_⟩
    · rw [← pidOf_append t c (by omega)]; exact hid
    · rw [← totalOf_append t c (by omega), ← hlen]; simp; omega

private theorem junk_widen (ids : List Nat) (j p x : Bytes) (hp : 2 ≤ p.length) (hj : Junk ids j p) :
    ∀ i, i < j.length → i + 1 < (j ++ (p ++ x)).length → pidOf ((j ++ (p ++ x)).drop i) ∉ ids := by
  intro i hi _
  have h := hj i hi (by simp; omega)
  rw [← List.append_assoc, List.drop_append_of_le_length (by simp; omega),
    pidOf_append _ _ (by simp; omega)]
  exact h

/-- **stream theorem** (parser = Spec): for packets `P₁ … Pₙ` with registered IDs and
    `|Pᵢ| = length field + 7`, each preceded by junk `Jᵢ` (possibly empty) in which no position carries
    a registered ID, followed by ANY further octets `rest`, the scan returns `P₁ … Pₙ` — each exactly
    once, complete, byte-identical, in stream order — and then continues with `rest` exactly as if
    the stream had started there -/
theorem C13_stream (ids : List Nat) (segs : List (Bytes × Bytes)) (rest : Bytes) (h : WFStream ids segs) :
    scan ids (stream segs rest) = (packetsOf segs ++ (scan ids rest).1, (scan ids rest).2) := by
  induction segs with
  | nil => simp [stream, packetsOf]
  | cons seg segs ih =>
    obtain ⟨j, p⟩ := seg
    obtain ⟨hj, hp, hs⟩ := h
    obtain ⟨h6, hid, hlen⟩ := hp
    simp only [stream, List.append_assoc]
    rw [scan_junk_skip ids j (p ++ stream segs rest) (by simp; omega)
      (junk_widen ids j p _ (by omega) hj)]
    rw [scan_packet ids p _ h6 hid hlen, ih hs]
    simp [packetsOf]

/-- the stream ends in an incomplete tail (a strict prefix of a further packet, or fewer than seven
    octets): exactly the packets are returned and exactly the tail stays in the queue -/
theorem C13_stream_tail (ids : List Nat) (segs : List (Bytes × Bytes)) (t : Bytes)
    (h : WFStream ids segs) (ht : Incomplete ids t) :
    scan ids (stream segs t) = (packetsOf segs, t) := by
  rw [C13_stream ids segs t h, C13_incomplete ids t ht]; simp

/-- junk in front of the incomplete tail: junk octets are skipped as long as more than six octets
    remain; the tail is kept whole (the residual is the last `max |t| (min 6 |j ++ t|)` octets) -/
theorem C13_stream_junk_tail (ids : List Nat) (segs : List (Bytes × Bytes)) (j t : Bytes)
    (h : WFStream ids segs) (hj : Junk ids j t) (ht : Incomplete ids t) :
    scan ids (stream segs (j ++ t)) =
      (packetsOf segs, (j ++ t).drop (min j.length ((j ++ t).length - 6))) := by
  rw [C13_stream ids segs (j ++ t) h, scan_junk_tail ids j t (C13_incomplete ids t ht) hj]; simp

/-- the residual of `C13_stream_junk_tail` ends with the whole tail -/
theorem C13_tail_kept (j t : Bytes) : t <:+ (j ++ t).drop (min j.length ((j ++ t).length - 6)) := by
  refine ⟨j.drop (min j.length ((j ++ t).length - 6)), ?_⟩
  rw [List.drop_append_of_le_length (Nat.min_le_left _ _)]

/-! ## Every octet string is a stream in the sense of the statement -/

private theorem junk_nil (ids : List Nat) (x : Bytes) : Junk ids [] x := by
  intro i hi; simp at hi

private theorem junk_cons (ids : List Nat) (o : UInt8) (j y : Bytes)
    (h0 : pidOf (o :: (j ++ y)) ∉ ids) (hj : Junk ids j y) : Junk ids (o :: j) y := by
  intro i hi hi'
  cases i with
  | zero => simpa using h0
  | succ i =>
    have := hj i (by simp at hi; omega) (by simp at hi' ⊢; omega)
    simpa using this

/-- **the decomposition always exists**: every octet string is (uniquely, by `C13_stream_junk_tail`)
    of the form junk₁ ‖ packet₁ ‖ … ‖ junkₙ ‖ packetₙ ‖ junk ‖ incomplete tail with well-formed
    registered packets and junk that carries no registered ID. Hence the stream theorem and the
    lossless corollary speak about EVERY input: the parser's result on arbitrary octets is
    prescribed by the statement (this is why the correspondence check may treat every generated
    stream as an input inside the property's domain). -/
theorem C13_every_stream (ids : List Nat) (b : Bytes) :
    ∃ segs j t, WFStream ids segs ∧ Junk ids j t ∧ Incomplete ids t ∧ b = stream segs (j ++ t) := by
  fun_induction scan ids b with
  | case1 rest h6 => exact ⟨[], [], rest, trivial, junk_nil ids _, Or.inl h6, by simp [stream]⟩
  | case2 rest h6 hpid hinc =>
    exact ⟨[], [], rest, trivial, junk_nil ids _, Or.inr ⟨hpid, by omega⟩, by simp [stream]⟩
  | case3 rest h6 hpid hinc r ih =>
    obtain ⟨segs, j, t, hs, hj, ht, he⟩ := ih
    simp only [headerLen] at h6
    have h7 := totalOf_ge rest
    have hle : totalOf rest ≤ rest.length := by omega
    refine ⟨([], rest.take (totalOf rest)) :: segs, j, t, ⟨junk_nil ids _, ⟨?_, ?_, ?_⟩, hs⟩, hj, ht, ?_⟩
    · simp; omega
    · rw [pidOf_take _ _ (by omega) hle]; exact hpid
    · rw [totalOf_take _ _ (by omega) hle]; simp; omega
    · simp only [stream, List.nil_append, ← he, List.take_append_drop]
  | case4 rest h6 hpid ih =>
    obtain ⟨segs, j, t, hs, hj, ht, he⟩ := ih
    simp only [headerLen] at h6
    obtain ⟨o, tl, rfl⟩ : ∃ o tl, rest = o :: tl := by
      cases rest with
      | nil => simp at h6
      | cons o tl => exact ⟨o, tl, rfl⟩
    simp only [List.drop_succ_cons, List.drop_zero] at he
    cases segs with
    | nil =>
      simp only [stream] at he
      exact ⟨[], o :: j, t, trivial, junk_cons ids o j t (by rw [← he]; exact hpid) hj, ht, by simp [stream, he]⟩
    | cons seg segs =>
      obtain ⟨j₁, p₁⟩ := seg
      obtain ⟨hj₁, hp₁, hs'⟩ := hs
      simp only [stream] at he
      refine ⟨(o :: j₁, p₁) :: segs, j, t, ⟨junk_cons ids o j₁ p₁ ?_ hj₁, hp₁, hs'⟩, hj, ht, by simp [stream, he]⟩
      have h2 : 2 ≤ (o :: (j₁ ++ p₁)).length := by have := hp₁.1; simp; omega
      have : pidOf ((o :: (j₁ ++ p₁)) ++ stream segs (j ++ t)) ∉ ids := by
        simpa [he] using hpid
      rwa [pidOf_append _ _ h2] at this

/-! ## Lossless reassembly under any fragmentation and any interleaving -/

/-- **lossless**: take any well-formed stream (packets with registered IDs separated by junk, then
    junk and an incomplete tail), cut it in ANY way into chunks and interleave the appends with parser
    calls in ANY way (`s` is any schedule with `fed s = the stream`, starting from an empty deque).
    Then, as soon as a call follows the last append, all calls together have returned exactly the
    packets of the stream — each exactly once, complete, byte-identical, in stream order — and the
    deque concatenates to exactly the not-yet-complete tail (preceded by at most `6 - |t|` octets of
    the junk in front of it). -/
theorem C13_lossless (ids : List Nat) (segs : List (Bytes × Bytes)) (j t : Bytes)
    (h : WFStream ids segs) (hj : Junk ids j t) (ht : Incomplete ids t)
    (s : List Step) (hs : fed s = stream segs (j ++ t)) :
    returned (run ids [] (s ++ [.parse])).1 = packetsOf segs ∧
    (run ids [] (s ++ [.parse])).2.flatten = (j ++ t).drop (min j.length ((j ++ t).length - 6)) := by
  have := C13_after_parse ids [] s
  simp only [List.flatten_nil, List.nil_append, hs, C13_stream_junk_tail ids segs j t h hj ht] at this
  exact this

/-- junk-free tail: the deque holds exactly the tail -/
theorem C13_lossless_tail (ids : List Nat) (segs : List (Bytes × Bytes)) (t : Bytes)
    (h : WFStream ids segs) (ht : Incomplete ids t)
    (s : List Step) (hs : fed s = stream segs t) :
    returned (run ids [] (s ++ [.parse])).1 = packetsOf segs ∧
    (run ids [] (s ++ [.parse])).2.flatten = t := by
  have := C13_lossless ids segs [] t h (by intro i hi; simp at hi) ht s (by simpa using hs)
  simpa using this

/-- **a later call finishes it**: a deque that concatenates to junk followed by the incomplete tail
    `t`; the caller appends the missing octets `c` (so that `t ++ c` is a well-formed packet) and
    calls the parser: exactly that packet is returned and the deque is empty -/
theorem C13_finish (ids : List Nat) (q : List Bytes) (j t c : Bytes)
    (hq : q.flatten = j ++ t) (hj : Junk ids j (t ++ c)) (hp : WFPacket ids (t ++ c)) :
    call ids (q ++ [c]) = ([t ++ c], []) := by
  have hs : scan ids ((q ++ [c]).flatten) = ([t ++ c], []) := by
    have := C13_stream ids [(j, t ++ c)] [] ⟨hj, hp, trivial⟩
    simp only [stream, List.append_nil, packetsOf, List.map_cons, List.map_nil,
      scan_short ids [] (by simp)] at this
    simp only [List.flatten_append, List.flatten_cons, List.flatten_nil, List.append_nil, hq,
      List.append_assoc]
    exact this
  have h6 : 6 < (q ++ [c]).flatten.length := by
    have := hp.1
    simp only [List.flatten_append, List.flatten_cons, List.flatten_nil, List.append_nil, hq,
      List.length_append] at this ⊢
    omega
  unfold call
  have hne : ¬ (q ++ [c]).isEmpty = true := by simp
  have hl : ¬ (q ++ [c]).flatten.length < headerLen := by simp only [headerLen]; omega
  rw [if_neg hne, if_neg hl, hs]
  rfl

/-! ## Discarding junk early does not change what is returned (justifies the relation the
    correspondence check uses for the queue content of streams with junk) -/

/-- a leading residual position with both octets known and no registered ID may be dropped at once:
    every later scan returns the same packets -/
theorem C13_early_discard (ids : List Nat) (r c : Bytes) :
    (scan ids (canonRest ids r ++ c)).1 = (scan ids (r ++ c)).1 :=
  scan_canonRest ids r c

/-! ## Non-vacuity: concrete instances of every hypothesis -/

section Examples

/-- registered: TM, secondary header, APID 0x123 (raw 0x0923); TC, APID 5 (raw 0x1005) -/
def exIds : List Nat := [0x0923, 0x1005]
/-- 8 octets, length field 1 -/
def exP1 : Bytes := [0x09, 0x23, 0xC0, 0x01, 0x00, 0x01, 0xAA, 0xBB]
/-- 7 octets, length field 0, version bits set (masked away by `0x1FFF`) -/
def exP2 : Bytes := [0x30, 0x05, 0xC0, 0x02, 0x00, 0x00, 0x7F]
def exJunk : Bytes := [0xFF, 0x09]
/-- the first five octets of a further packet -/
def exTail : Bytes := [0x09, 0x23, 0xC0, 0x03, 0x00]

example : WFPacket exIds exP1 := by decide
example : WFPacket exIds exP2 := by decide
example : Junk exIds exJunk exP2 := by decide
example : Incomplete exIds exTail := by decide
example : WFStream exIds [([], exP1), (exJunk, exP2)] := by decide
example : ¬ WFPacket exIds (exP1.take 7) := by decide
/-- junk whose last octet together with the first octet of the next packet reads as a registered ID is not junk -/
example : ¬ Junk exIds [0x55, 0x09] [0x23, 0x00] := by decide

example : scan exIds (exP1 ++ exJunk ++ exP2 ++ exTail) = ([exP1, exP2], exTail) :=
  C13_stream_tail exIds [([], exP1), (exJunk, exP2)] exTail (by decide) (by decide)

/-- a schedule cutting inside the first header, exactly behind it, and one octet before the end -/
example :
    returned (run exIds []
      ([.append (exP1.take 3), .parse, .append ((exP1.drop 3).take 3), .parse,
        .append (exP1.drop 6 ++ exJunk ++ exP2.take 6), .append (exP2.drop 6 ++ exTail)] ++ [.parse])).1
      = [exP1, exP2] :=
  (C13_lossless_tail exIds [([], exP1), (exJunk, exP2)] exTail (by decide) (by decide) _ (by decide)).1

end Examples

end SpVerif.Props.C13
