import SpVerif.Model.Srv1
import SpVerif.Proofs.Srv1
import SpVerif.Props.C03
/-!
# C15 — Request IDs and service-1 verification reports identify the telecommand exactly
-/
namespace SpVerif.Props.C15
open SpVerif SpVerif.SpacePacket SpVerif.PusTm SpVerif.Srv1

/-! ## Request ID -/

def WFReq (r : ReqId) : Prop :=
  r.version < 8 ∧ r.pid.ptype < 2 ∧ r.pid.shf < 2 ∧ r.pid.apid < 2048 ∧ r.psc.flags < 4 ∧ r.psc.count < 16384

/-- the four octets of a request id = the first four octets of the space packet header -/
def Spec.reqOctets (r : ReqId) : Bytes :=
  [u8 (r.version * 32 + r.pid.ptype * 16 + r.pid.shf * 8 + r.pid.apid / 256), u8 (r.pid.apid % 256),
   u8 (r.psc.flags * 64 + r.psc.count / 256), u8 (r.psc.count % 256)]

private theorem ar0 (v t s a : Nat) (ht : t < 2) (hs : s < 2) (ha : a < 2048) :
    (v * 8192 + (t * 4096 + s * 2048 + a)) / 256 = v * 32 + t * 16 + s * 8 + a / 256 := by omega
private theorem ar1 (v t s a : Nat) : (v * 8192 + (t * 4096 + s * 2048 + a)) % 256 = a % 256 := by omega
private theorem ar2 (f c : Nat) (hc : c < 16384) : (f * 16384 + c) / 256 = f * 64 + c / 256 := by omega
private theorem ar3 (f c : Nat) : (f * 16384 + c) % 256 = c % 256 := by omega

private theorem beNat_four (a b c d : UInt8) :
    beNat [a, b, c, d] = ((a.toNat * 256 + b.toNat) * 256 + c.toNat) * 256 + d.toNat := by
  simp [beNat]

private theorem er0 (x y : Nat) (hx : x < 256) (hy : y < 256) :
    x / 32 * 32 + x / 16 % 2 * 16 + x / 8 % 2 * 8 + (x % 8 * 256 + y) / 256 = x := by omega
private theorem er1 (x y : Nat) (hy : y < 256) : (x % 8 * 256 + y) % 256 = y := by omega
private theorem er2 (x y : Nat) (hx : x < 256) (hy : y < 256) : x / 64 * 64 + (x % 64 * 256 + y) / 256 = x := by omega
private theorem er3 (x y : Nat) (hy : y < 256) : (x % 64 * 256 + y) % 256 = y := by omega

theorem req_pack (r : ReqId) (wf : WFReq r) : r.pack = .ok (Spec.reqOctets r) := by
  obtain ⟨hv, ht, hs, ha, hf, hc⟩ := wf
  unfold ReqId.pack
  rw [packBE2_ok (show r.word0 < 65536 by simp only [ReqId.word0, PacketId.raw, pidRaw]; omega),
    packBE2_ok (show r.psc.raw < 65536 by simp only [Psc.raw, pscRaw]; omega)]
  simp [bind, Except.bind, pure, Except.pure, Spec.reqOctets, ReqId.word0, PacketId.raw, Psc.raw, pidRaw, pscRaw,
    ar0 _ _ _ _ ht hs ha, ar1, ar2 _ _ hc, ar3]

/-- **`RequestId.pack()` is the closed-form four octets** (`req_pack` under the property's name, so that
    the axiom audit, which lists `^theorem C15_`, covers this load-bearing lemma) -/
theorem C15_req_pack (r : ReqId) (wf : WFReq r) : r.pack = .ok (Spec.reqOctets r) := req_pack r wf

/-- **the request id of a telecommand is exactly the first four octets of its space packet header** -/
theorem C15_reqid_is_header (h : Sph) (wf : C01.WF h) :
    (ReqId.fromSph h).pack = .ok ((C01.Spec.octets h).take 4) := by
  obtain ⟨hv, ht, hs, ha, hf, hc, _⟩ := wf
  rw [req_pack _ ⟨hv, ht, hs, ha, hf, hc⟩]
  simp [Spec.reqOctets, ReqId.fromSph, C01.Spec.octets]

private theorem u32_of_octets (v t s a f c : Nat) (hv : v < 8) (ht : t < 2) (hs : s < 2) (ha : a < 2048)
    (hf : f < 4) (hc : c < 16384) :
    (((v * 32 + t * 16 + s * 8 + a / 256) % 256 * 256 + a % 256 % 256) * 256 + (f * 64 + c / 256) % 256) * 256
      + c % 256 % 256 = (v * 8192 + (t * 4096 + s * 2048 + a)) * 65536 + (f * 16384 + c) := by omega

/-- the 32-bit integer form is the big-endian value of the packed form, and fits 32 bits -/
theorem C15_reqid_u32 (r : ReqId) (wf : WFReq r) :
    beNat (Spec.reqOctets r) = r.asU32 ∧ r.asU32 < 2 ^ 32 := by
  obtain ⟨hv, ht, hs, ha, hf, hc⟩ := wf
  constructor
  · simp only [Spec.reqOctets, beNat_four, u8_toNat, ReqId.asU32, ReqId.word0, PacketId.raw, Psc.raw, pidRaw, pscRaw]
    exact u32_of_octets r.version r.pid.ptype r.pid.shf r.pid.apid r.psc.flags r.psc.count hv ht hs ha hf hc
  · simp only [ReqId.asU32, ReqId.word0, PacketId.raw, Psc.raw, pidRaw, pscRaw]; omega

/-- **decode ∘ encode = id** for request ids, with any octets following -/
theorem C15_reqid_roundtrip (r : ReqId) (wf : WFReq r) (rest : Bytes) :
    ReqId.unpack (Spec.reqOctets r ++ rest) = .ok r := by
  obtain ⟨hv, ht, hs, ha, hf, hc⟩ := wf
  rw [ReqId.unpack_eq _ (by simp [Spec.reqOctets])]
  simp only [Spec.reqOctets, List.cons_append, List.getElem_cons_zero, List.getElem_cons_succ, u8_toNat]
  cases r with
  | mk v p q =>
    cases p with
    | mk t s a =>
      cases q with
      | mk f c =>
        simp only at hv ht hs ha hf hc ⊢
        congr 1
        simp only [ReqId.mk.injEq, PacketId.mk.injEq, Psc.mk.injEq]
        refine ⟨?_, ⟨?_, ?_, ?_⟩, ?_, ?_⟩ <;> omega

/-- **encode ∘ decode = b[:4]** for every octet string of at least four octets: together with the
    round trip, a bijection between in-range request ids and all 2^32 values -/
theorem C15_reqid_decode_encode (b : Bytes) (h4 : 4 ≤ b.length) :
    ∃ r, ReqId.unpack b = .ok r ∧ WFReq r ∧ r.pack = .ok (b.take 4) ∧ r.asU32 = beNat (b.take 4) := by
  have b0 := toNat_lt b[0]
  have b1 := toNat_lt b[1]
  have b2 := toNat_lt b[2]
  have b3 := toNat_lt b[3]
  have wf : WFReq ⟨b[0].toNat / 32, ⟨b[0].toNat / 16 % 2, b[0].toNat / 8 % 2, b[0].toNat % 8 * 256 + b[1].toNat⟩,
      ⟨b[2].toNat / 64, b[2].toNat % 64 * 256 + b[3].toNat⟩⟩ := by
    unfold WFReq; refine ⟨?_, ?_, ?_, ?_, ?_, ?_⟩ <;> simp only <;> omega
  have hoct : Spec.reqOctets ⟨b[0].toNat / 32, ⟨b[0].toNat / 16 % 2, b[0].toNat / 8 % 2, b[0].toNat % 8 * 256 + b[1].toNat⟩,
      ⟨b[2].toNat / 64, b[2].toNat % 64 * 256 + b[3].toNat⟩⟩ = b.take 4 := by
    simp only [Spec.reqOctets, er0 _ _ b0 b1, er1 _ _ b1, er2 _ _ b2 b3, er3 _ _ b3, u8_toNat_self]
    match b, h4 with
    | x0 :: x1 :: x2 :: x3 :: r, _ => simp
  refine ⟨_, ReqId.unpack_eq b h4, wf, ?_, ?_⟩
  · rw [req_pack _ wf, hoct]
  · rw [← (C15_reqid_u32 _ wf).1, hoct]

private theorem u32_inj (v t s a f c v' t' s' a' f' c' : Nat)
    (ht : t < 2) (hs : s < 2) (ha : a < 2048) (hf : f < 4) (hc : c < 16384)
    (ht' : t' < 2) (hs' : s' < 2) (ha' : a' < 2048) (hf' : f' < 4) (hc' : c' < 16384)
    (h : (v * 8192 + (t * 4096 + s * 2048 + a)) * 65536 + (f * 16384 + c)
       = (v' * 8192 + (t' * 4096 + s' * 2048 + a')) * 65536 + (f' * 16384 + c')) :
    v = v' ∧ t = t' ∧ s = s' ∧ a = a' ∧ f = f' ∧ c = c' := by omega

/-- **two request ids are equal (`==`, and hash equal) iff their 32 bits are equal**: `==` is
    defined through `as_u32()` (and so is `__hash__`), and on in-range ids equal 32-bit values mean
    equal fields -/
theorem C15_reqid_eq (a b : ReqId) (wa : WFReq a) (wb : WFReq b) :
    (a.beq b = true ↔ a.asU32 = b.asU32) ∧ (a.asU32 = b.asU32 ↔ a = b) := by
  refine ⟨by simp [ReqId.beq], ⟨fun h => ?_, fun h => by rw [h]⟩⟩
  obtain ⟨hv, ht, hs, ha, hf, hc⟩ := wa
  obtain ⟨hv', ht', hs', ha', hf', hc'⟩ := wb
  simp only [ReqId.asU32, ReqId.word0, PacketId.raw, Psc.raw, pidRaw, pscRaw] at h
  have := u32_inj _ _ _ _ _ _ _ _ _ _ _ _ ht hs ha hf hc ht' hs' ha' hf' hc' h
  cases a with
  | mk v p q => cases p; cases q; cases b with
    | mk v' p' q' => cases p'; cases q'; simp_all

/-- fewer than four octets are refused (ValueError); the decoder never fails otherwise -/
theorem C15_reqid_documented (d : Bytes) : Documented (ReqId.unpack d) := by
  by_cases h : d.length < 4
  · simp [ReqId.unpack, h, throw, throwThe, MonadExceptOf.throw, bind, Except.bind]; exact Documented.err rfl
  · rw [ReqId.unpack_eq d (by omega)]; exact Documented.ok _

instance (r : ReqId) : Decidable (WFReq r) := by unfold WFReq; infer_instance

example : WFReq ⟨5, ⟨1, 1, 0x7AB⟩, ⟨2, 0x2BCD⟩⟩ := by decide

/-! ## PacketFieldEnum (step id, error code) -/

/-- declared width of a field in octets: `check_pfc(pfc)` = Python's `round(pfc / 8)` -/
def fieldWidth (f : Pfe) : Nat := roundDiv8 f.pfc

/-- well-formed field: the PFC rounds to 1, 2, 4 or 8 octets and the value fits that many octets -/
def WFField (f : Pfe) : Prop := Width (fieldWidth f) ∧ f.val < 256 ^ fieldWidth f

/-- the PFC is exactly 8 × width (what a decoder that is told the width reconstructs) -/
def ExactField (f : Pfe) : Prop := f.pfc = fieldWidth f * 8

instance (f : Pfe) : Decidable (WFField f) := by unfold WFField; infer_instance
instance (f : Pfe) : Decidable (ExactField f) := by unfold ExactField; infer_instance

/-- a field is its value, big-endian, on its declared width -/
def Spec.fieldOctets (f : Pfe) : Bytes := beBytes (fieldWidth f) f.val

theorem fieldOctets_length (f : Pfe) : (Spec.fieldOctets f).length = fieldWidth f := by
  simp [Spec.fieldOctets]

theorem reqOctets_length (r : ReqId) : (Spec.reqOctets r).length = 4 := rfl

/-- **`check_pfc`**: returns the rounded width iff it is 1, 2, 4 or 8, ValueError otherwise; the
    width is within half an octet of `pfc / 8` (ties to even); byte-aligned PFCs give `pfc / 8` -/
theorem C15_check_pfc (pfc : Nat) :
    (Width (roundDiv8 pfc) → checkPfc pfc = .ok (roundDiv8 pfc)) ∧
    (¬ Width (roundDiv8 pfc) → checkPfc pfc = .error .value) ∧
    (8 * roundDiv8 pfc ≤ pfc + 4 ∧ pfc ≤ 8 * roundDiv8 pfc + 4) ∧
    (∀ w, pfc = w * 8 → roundDiv8 pfc = w) := by
  refine ⟨fun h => ?_, fun h => ?_, ⟨(roundDiv8_spec pfc).1, (roundDiv8_spec pfc).2.1⟩, fun w hw => ?_⟩
  · rw [checkPfc_eq]; simp [h]
  · rw [checkPfc_eq]; simp [h]
  · rw [hw]; exact roundDiv8_mul w

/-- **a field packs to its value, big-endian, on its declared width**; the constructor accepts it
    and `len()` is the width -/
theorem C15_field_pack (f : Pfe) (wf : WFField f) :
    Pfe.new f.pfc f.val = .ok f ∧ f.pack = .ok (Spec.fieldOctets f) ∧ f.len = .ok (fieldWidth f) ∧
    (Spec.fieldOctets f).length = fieldWidth f ∧ beNat (Spec.fieldOctets f) = f.val := by
  obtain ⟨hw, hv⟩ := wf
  unfold fieldWidth at hw hv
  refine ⟨?_, ?_, ?_, fieldOctets_length f, ?_⟩
  · rw [Pfe.new_eq]; simp [hw]
  · rw [Pfe.pack_eq]; simp [hw, hv, Spec.fieldOctets, fieldWidth]
  · simp only [Pfe.len]; rw [checkPfc_eq]; simp [hw, fieldWidth]
  · exact beNat_beBytes _ _ hv

/-- a PFC that does not round to 1, 2, 4 or 8 octets is refused by the constructor, by `pack` and by
    the decoder; a value that does not fit its width is refused by `pack` (ValueError each) -/
theorem C15_field_refuse (f : Pfe) :
    (¬ Width (fieldWidth f) → Pfe.new f.pfc f.val = .error .value ∧ f.pack = .error .value ∧
        ∀ d, Pfe.unpack d f.pfc = .error .value) ∧
    (Width (fieldWidth f) → 256 ^ fieldWidth f ≤ f.val → f.pack = .error .value) := by
  unfold fieldWidth
  refine ⟨fun h => ⟨?_, ?_, fun d => ?_⟩, fun hw hv => ?_⟩
  · rw [Pfe.new_eq]; simp [h]
  · rw [Pfe.pack_eq]; simp [h]
  · rw [Pfe.unpack_eq]; simp [h]
  · have : ¬ f.val < 256 ^ roundDiv8 f.pfc := by omega
    rw [Pfe.pack_eq]; simp [hw, this]

/-- **decode ∘ encode = id** for a field, whatever follows it -/
theorem C15_field_roundtrip (f : Pfe) (wf : WFField f) (ex : ExactField f) (rest : Bytes) :
    Pfe.unpack (Spec.fieldOctets f ++ rest) (fieldWidth f * 8) = .ok f := by
  obtain ⟨hw, hv⟩ := wf
  rw [Spec.fieldOctets, Pfe.unpack_beBytes hw _ hv rest, ← ex]

/-- **encode ∘ decode = the first `w` octets**: with a width `w` ∈ {1,2,4,8} the decoder is total on
    at least `w` octets, and its result is well formed and re-packs to exactly those octets -/
theorem C15_field_decode_encode (d : Bytes) (w : Nat) (hw : Width w) (hl : w ≤ d.length) :
    ∃ f, Pfe.unpack d (w * 8) = .ok f ∧ WFField f ∧ ExactField f ∧ fieldWidth f = w ∧
      f.pack = .ok (d.take w) := by
  have hlen : (d.take w).length = w := by simp; omega
  have hlt : beNat (d.take w) < 256 ^ w := by have := beNat_lt (d.take w); rwa [hlen] at this
  refine ⟨⟨w * 8, beNat (d.take w)⟩, ?_, ?_, ?_, ?_, ?_⟩
  · rw [Pfe.unpack_eq, roundDiv8_mul]; simp [hw, hl]
  · simp only [WFField, fieldWidth, roundDiv8_mul]; exact ⟨hw, hlt⟩
  · simp [ExactField, fieldWidth, roundDiv8_mul]
  · simp [fieldWidth, roundDiv8_mul]
  · rw [Pfe.pack_eq]
    simp only [roundDiv8_mul, hw, hlt, ↓reduceIte]
    have := beBytes_beNat (d.take w)
    rw [hlen] at this
    rw [this]

/-- fewer octets than the width: ValueError; and for every input only documented errors -/
theorem C15_field_short (d : Bytes) (pfc : Nat) (h : d.length < roundDiv8 pfc) :
    Pfe.unpack d pfc = .error .value ∧ ∀ d' pfc', Documented (Pfe.unpack d' pfc') := by
  refine ⟨?_, Pfe.unpack_documented⟩
  have : ¬ roundDiv8 pfc ≤ d.length := by omega
  rw [Pfe.unpack_eq]; split <;> simp [this]

/-- `PacketFieldEnum.__eq__` is equality of (pfc, value) -/
theorem C15_field_eq (a b : Pfe) : a.beq b = true ↔ a = b := by
  cases a; cases b; simp [Pfe.beq]

/-! ### Fields whose PFC is not a multiple of 8 (accepted by the constructor, e.g. pfc 12 → 2 octets)

A decoder that is only told the width reconstructs pfc = 8 × width. For such a field the decoded
object is therefore NOT `==` the original (`C15_field_eq`: `==` compares the PFC); what does hold
for EVERY accepted PFC is: same value, same width, same octets. -/

/-- the field a width-driven decoder returns for `f`: PFC normalised to 8 × width, same value -/
def normField (f : Pfe) : Pfe := ⟨fieldWidth f * 8, f.val⟩

theorem normField_width (f : Pfe) : fieldWidth (normField f) = fieldWidth f := by
  simp [normField, fieldWidth, roundDiv8_mul]

theorem normField_octets (f : Pfe) : Spec.fieldOctets (normField f) = Spec.fieldOctets f := by
  simp only [Spec.fieldOctets, normField_width]; rfl

theorem normField_wf (f : Pfe) (wf : WFField f) : WFField (normField f) ∧ ExactField (normField f) := by
  refine ⟨?_, ?_⟩
  · unfold WFField; rw [normField_width]; exact wf
  · unfold ExactField; rw [normField_width]; rfl

theorem normField_exact (f : Pfe) (ex : ExactField f) : normField f = f := by
  cases f; simp only [ExactField] at ex; simp only [normField, Pfe.mk.injEq, and_true]; exact ex.symm

/-- **round trip of a field for EVERY accepted PFC** (also one that is not 8 × width, e.g. 12):
    decoding the packed field, whatever follows it, with the field's width returns a field with the
    same VALUE and the same WIDTH, the PFC being normalised to 8 × width; that field re-packs to the
    same octets; it is `==` the original exactly when the original PFC was already 8 × width -/
theorem C15_field_roundtrip_any_pfc (f : Pfe) (wf : WFField f) (rest : Bytes) :
    Pfe.unpack (Spec.fieldOctets f ++ rest) (fieldWidth f * 8) = .ok (normField f) ∧
    (normField f).val = f.val ∧ fieldWidth (normField f) = fieldWidth f ∧
    (normField f).pfc = fieldWidth f * 8 ∧
    (normField f).pack = f.pack ∧ f.pack = .ok (Spec.fieldOctets f) ∧
    ((normField f).beq f = true ↔ ExactField f) := by
  obtain ⟨wn, en⟩ := normField_wf f wf
  have h := C15_field_roundtrip (normField f) wn en rest
  rw [normField_octets, normField_width] at h
  have hp := (C15_field_pack f wf).2.1
  have hpn := (C15_field_pack (normField f) wn).2.1
  rw [normField_octets] at hpn
  refine ⟨h, rfl, normField_width f, rfl, by rw [hp, hpn], hp, ?_⟩
  rw [C15_field_eq]
  exact ⟨fun e => by unfold ExactField; rw [← e, normField_width]; rfl, normField_exact f⟩

example : normField ⟨12, 7⟩ = ⟨16, 7⟩ ∧ WFField ⟨12, 7⟩ ∧ (normField ⟨12, 7⟩).beq ⟨12, 7⟩ = false := by decide

example : WFField ⟨16, 0xBEEF⟩ ∧ ExactField ⟨16, 0xBEEF⟩ ∧ WFField ⟨12, 7⟩ ∧ ¬ ExactField ⟨12, 7⟩ := by decide

/-! ## FailureNotice -/

def WFNotice (n : FailureNotice) : Prop := WFField n.code

/-- a failure notice is the error code on its declared width, then the failure data -/
def Spec.noticeOctets (n : FailureNotice) : Bytes := Spec.fieldOctets n.code ++ n.data

theorem C15_notice_pack (n : FailureNotice) (wf : WFNotice n) :
    n.pack = .ok (Spec.noticeOctets n) ∧ n.len = .ok (Spec.noticeOctets n).length := by
  obtain ⟨_, hp, hl, _, _⟩ := C15_field_pack n.code wf
  simp [FailureNotice.pack, FailureNotice.len, hp, hl, bind, Except.bind, pure, Except.pure,
    Spec.noticeOctets, fieldOctets_length]

theorem notice_unpack (n : FailureNotice) (wf : WFNotice n) (ex : ExactField n.code) (k : Nat)
    (hk : n.data.length ≤ k) :
    FailureNotice.unpack (Spec.noticeOctets n) (fieldWidth n.code) (some k) = .ok n := by
  unfold FailureNotice.unpack
  rw [Spec.noticeOctets, C15_field_roundtrip n.code wf ex n.data]
  simp only [bind, Except.bind, pure, Except.pure]
  have hs : slice (Spec.fieldOctets n.code ++ n.data) (fieldWidth n.code) (fieldWidth n.code + k) = n.data := by
    have hl := fieldOctets_length n.code
    simp only [slice]
    rw [List.take_of_length_le (by simp [hl]; omega)]
    exact List.drop_left' hl
  rw [hs]

/-- **decode ∘ encode = id** for a failure notice: with the default "all remaining octets", and with
    an explicit data length when further octets follow -/
theorem C15_notice_roundtrip (n : FailureNotice) (wf : WFNotice n) (ex : ExactField n.code) :
    FailureNotice.unpack (Spec.noticeOctets n) (fieldWidth n.code) none = .ok n ∧
    ∀ rest, FailureNotice.unpack (Spec.noticeOctets n ++ rest) (fieldWidth n.code) (some n.data.length) = .ok n := by
  constructor
  · have := notice_unpack n wf ex ((Spec.noticeOctets n).length - fieldWidth n.code) (by
      simp [Spec.noticeOctets, fieldOctets_length])
    simpa [FailureNotice.unpack] using this
  · intro rest
    unfold FailureNotice.unpack
    have e : Spec.noticeOctets n ++ rest = Spec.fieldOctets n.code ++ (n.data ++ rest) := by
      simp [Spec.noticeOctets]
    rw [e, C15_field_roundtrip n.code wf ex]
    simp only [bind, Except.bind, pure, Except.pure]
    have hl := fieldOctets_length n.code
    have hs : slice (Spec.fieldOctets n.code ++ (n.data ++ rest)) (fieldWidth n.code)
        (fieldWidth n.code + n.data.length) = n.data := by
      rw [← List.append_assoc, ← hl]
      exact slice_eq_of_append _ _ _
    rw [hs]

/-- `FailureNotice.__eq__` compares by value (error code field and failure data) -/
theorem C15_notice_eq (a b : FailureNotice) : a.beq b = true ↔ a = b := by
  cases a; cases b; simp [FailureNotice.beq, C15_field_eq]

/-! ## Verification parameters and their match with the subservice -/

def WFParams (p : VParams) : Prop :=
  WFReq p.reqId ∧ (∀ s, p.stepId = some s → WFField s) ∧ (∀ n, p.failure = some n → WFNotice n)

/-- all PFCs are exactly 8 × width -/
def ExactParams (p : VParams) : Prop :=
  (∀ s, p.stepId = some s → ExactField s) ∧ (∀ n, p.failure = some n → ExactField n.code)

/-- the parameter set fits the subservice: a failure notice exactly for the failure reports (even
    subservices), a step id exactly for the two step reports (5 and 6) -/
def Matches (p : VParams) (sub : Nat) : Prop :=
  (p.failure.isSome = true ↔ sub % 2 = 0) ∧ (p.stepId.isSome = true ↔ (sub = 5 ∨ sub = 6))

instance (p : VParams) (sub : Nat) : Decidable (Matches p sub) := by unfold Matches; infer_instance

/-- **source data of a report**: request id ‖ step id (if any) ‖ error code ‖ failure data (if any) -/
def Spec.sourceData (p : VParams) : Bytes :=
  Spec.reqOctets p.reqId ++
    (match p.stepId with | none => [] | some s => Spec.fieldOctets s) ++
    (match p.failure with | none => [] | some n => Spec.noticeOctets n)

theorem C15_params_pack (p : VParams) (wf : WFParams p) :
    p.pack = .ok (Spec.sourceData p) ∧ p.len = .ok (Spec.sourceData p).length := by
  obtain ⟨wr, ws, wn⟩ := wf
  obtain ⟨r, step, fail⟩ := p
  simp only at wr ws wn
  cases step with
  | none =>
    cases fail with
    | none =>
      simp [VParams.pack, VParams.len, req_pack r wr, bind, Except.bind, pure, Except.pure, Spec.sourceData,
        reqOctets_length]
    | some n =>
      obtain ⟨hp, hl⟩ := C15_notice_pack n (wn n rfl)
      simp [VParams.pack, VParams.len, req_pack r wr, hp, hl, bind, Except.bind, pure, Except.pure,
        Spec.sourceData, reqOctets_length]
  | some s =>
    obtain ⟨_, sp, sl, _, _⟩ := C15_field_pack s (ws s rfl)
    cases fail with
    | none =>
      simp [VParams.pack, VParams.len, req_pack r wr, sp, sl, bind, Except.bind, pure, Except.pure,
        Spec.sourceData, reqOctets_length, fieldOctets_length]
    | some n =>
      obtain ⟨hp, hl⟩ := C15_notice_pack n (wn n rfl)
      simp [VParams.pack, VParams.len, req_pack r wr, sp, sl, hp, hl, bind, Except.bind, pure, Except.pure,
        Spec.sourceData, reqOctets_length, fieldOctets_length]
      omega

/-- `verify_against_subservice` accepts exactly the matching parameter sets (for every subservice
    number, not only 1..8) and refuses all others with `InvalidVerifParams` -/
theorem verify_iff (p : VParams) (sub : Nat) :
    (Matches p sub → p.verify sub = .ok ()) ∧ (¬ Matches p sub → p.verify sub = .error .verifParams) := by
  obtain ⟨r, step, fail⟩ := p
  unfold Matches VParams.verify
  cases step <;> cases fail <;> simp <;> (by_cases h2 : sub % 2 = 0 <;> simp [h2] <;> omega)

/-! ## Service-1 reports -/

/-- the telemetry packet of a report: service 1, the given subservice, message counter 0, source
    data as prescribed, data length field = 7 + |timestamp| + |source data| + 1 -/
def Spec.reportTm (apid sub count ver ref dst : Nat) (ts : Bytes) (p : VParams) : Tm :=
  ⟨⟨ver, 0, 1, apid, 3, count, 7 + ts.length + (Spec.sourceData p).length + 1⟩, ⟨ref, 1, sub, 0, dst, ts⟩,
   Spec.sourceData p⟩

/-- the report's octets: the PUS-C telemetry layout of C03 around the prescribed source data -/
def Spec.reportOctets (apid sub count ver ref dst : Nat) (ts : Bytes) (p : VParams) : Bytes :=
  C03.Spec.octets (Spec.reportTm apid sub count ver ref dst ts p)

theorem reportTm_wf (apid sub count ver ref dst : Nat) (ts : Bytes) (p : VParams)
    (ha : apid < 2048) (hc : count < 16384) (hb : sub < 256) (hv : ver < 8) (hr : ref < 16) (hd : dst < 65536)
    (hl : ts.length + (Spec.sourceData p).length ≤ 65527) :
    C03.WF (Spec.reportTm apid sub count ver ref dst ts p) := by
  refine ⟨⟨?_, ?_, ?_, ?_, ?_, ?_, ?_⟩, ⟨?_, ?_, ?_, ?_, ?_⟩, ?_⟩ <;> simp only [Spec.reportTm] <;> omega

private theorem tm_new_s1 (apid sub count ver ref dst : Nat) (ts : Bytes)
    (ha : apid < 2048) (hc : count < 16384) (hb : sub < 256) (hts : ts.length ≤ 65527) :
    Tm.new 1 (sub : Int) ts [] (apid : Int) (count : Int) 0 ref dst ver =
      .ok ⟨⟨ver, 0, 1, apid, 3, count, 7 + ts.length + 1⟩, ⟨ref, 1, sub, 0, dst, ts⟩, []⟩ := by
  have := C03.C03_new 1 sub apid count 0 ref dst ver ts [] ha hc (by omega) hb (by omega) (by simpa using hts)
  simpa using this

/-- **every report built for a request id carries, in its source data, that request id, then the
    step id (step reports), then error code and failure data (failure reports), each on its
    declared width** — and the packed report is the C03 telemetry layout around that source data.
    For every subservice, every width combination, every timestamp. -/
theorem C15_report_layout (apid sub count ver ref dst : Nat) (ts : Bytes) (p : VParams)
    (ha : apid < 2048) (hc : count < 16384) (hb : sub < 256) (hts : ts.length ≤ 65527)
    (wp : WFParams p) (hm : Matches p sub) :
    S1Tm.new (apid : Int) (sub : Int) ts (some p) (count : Int) ver ref dst
      = .ok ⟨Spec.reportTm apid sub count ver ref dst ts p, p⟩ ∧
    (Spec.reportTm apid sub count ver ref dst ts p).sourceData = Spec.sourceData p ∧
    (ver < 8 → ref < 16 → dst < 65536 → ts.length + (Spec.sourceData p).length ≤ 65527 →
      (S1Tm.mk (Spec.reportTm apid sub count ver ref dst ts p) p).pack
        = .ok (Spec.reportOctets apid sub count ver ref dst ts p) ∧
      (Spec.reportOctets apid sub count ver ref dst ts p).length = 13 + ts.length + (Spec.sourceData p).length + 2) := by
  refine ⟨?_, rfl, fun hv hr hd hl => ⟨?_, ?_⟩⟩
  · unfold S1Tm.new
    rw [tm_new_s1 apid sub count ver ref dst ts ha hc hb hts]
    simp only [bind, Except.bind, Int.toNat_natCast, (verify_iff p sub).1 hm, (C15_params_pack p wp).1, pure,
      Except.pure, Tm.setTmData, dataLen, Spec.reportTm]
  · exact C03.C03_pack_exact _ (reportTm_wf apid sub count ver ref dst ts p ha hc hb hv hr hd hl)
  · have := (C03.C03_len _ (reportTm_wf apid sub count ver ref dst ts p ha hc hb hv hr hd hl)).1
    rw [Spec.reportOctets, this]
    simp only [Tm.packetLen, Sph.packetLen, Spec.reportTm]; omega

/-- **the eight `create_*_tm` helpers put the first four octets of the telecommand's space packet
    header at the start of the source data** (sequence count, version, time reference and
    destination id of the report are 0) -/
theorem C15_create_layout (sub apid : Nat) (tc : Sph) (step : Option Pfe) (fn : Option FailureNotice) (ts : Bytes)
    (ha : apid < 2048) (hb : sub < 256) (hts : ts.length ≤ 65527) (wtc : C01.WF tc)
    (ws : ∀ s, step = some s → WFField s) (wn : ∀ n, fn = some n → WFNotice n)
    (hm : Matches ⟨ReqId.fromSph tc, step, fn⟩ sub) :
    ∃ s, create sub (apid : Int) tc step fn ts = .ok s ∧
      s.tm.sourceData = (C01.Spec.octets tc).take 4 ++
        (match step with | none => [] | some s => Spec.fieldOctets s) ++
        (match fn with | none => [] | some n => Spec.noticeOctets n) ∧
      s.tm.sec.service = 1 ∧ s.tm.sec.subservice = sub ∧ s.params = ⟨ReqId.fromSph tc, step, fn⟩ := by
  obtain ⟨hv, ht, hs, hap, hf, hc, _⟩ := wtc
  have wp : WFParams ⟨ReqId.fromSph tc, step, fn⟩ := ⟨⟨hv, ht, hs, hap, hf, hc⟩, ws, wn⟩
  have := (C15_report_layout apid sub 0 0 0 0 ts _ ha (by omega) hb hts wp hm).1
  have hreq : Spec.reqOctets (ReqId.fromSph tc) = (C01.Spec.octets tc).take 4 := by
    simp [Spec.reqOctets, ReqId.fromSph, C01.Spec.octets]
  refine ⟨_, this, ?_, rfl, rfl, rfl⟩
  rw [← hreq]
  cases step <;> cases fn <;> rfl

/-- **parameter sets that do not match the subservice are refused** with `InvalidVerifParams` (for
    otherwise valid constructor arguments; with invalid ones the constructor fails before) -/
theorem C15_refuse (apid sub count ver ref dst : Nat) (ts : Bytes) (p : VParams)
    (ha : apid < 2048) (hc : count < 16384) (hb : sub < 256) (hts : ts.length ≤ 65527)
    (hm : ¬ Matches p sub) :
    p.verify sub = .error .verifParams ∧
    S1Tm.new (apid : Int) (sub : Int) ts (some p) (count : Int) ver ref dst = .error .verifParams := by
  refine ⟨(verify_iff p sub).2 hm, ?_⟩
  unfold S1Tm.new
  rw [tm_new_s1 apid sub count ver ref dst ts ha hc hb hts]
  simp only [bind, Except.bind, Int.toNat_natCast, (verify_iff p sub).2 hm]

/-- … and with arbitrary (also invalid) other arguments a mismatching set never yields a report -/
theorem C15_refuse_any (apid sub count : Int) (ver ref dst : Nat) (ts : Bytes) (p : VParams)
    (hm : ¬ Matches p sub.toNat) (s : S1Tm) :
    S1Tm.new apid sub ts (some p) count ver ref dst ≠ .ok s := by
  unfold S1Tm.new
  cases Tm.new 1 sub ts [] apid count 0 ref dst ver with
  | error e => simp [bind, Except.bind]
  | ok tm => simp [bind, Except.bind, (verify_iff p sub.toNat).2 hm]

private theorem req_slice (r : ReqId) (wf : WFReq r) (x y : Bytes) :
    ReqId.unpack (slice (Spec.reqOctets r ++ x ++ y) 0 4) = .ok r := by
  have : slice (Spec.reqOctets r ++ x ++ y) 0 4 = Spec.reqOctets r ++ [] := by
    simp [slice, Spec.reqOctets]
  rw [this]; exact C15_reqid_roundtrip r wf []

/-- the decoder of the source data inverts the prescribed layout when it is told the widths used -/
theorem unpackRaw_spec (tm : Tm) (p : VParams) (sb eb : Nat)
    (hsrc : tm.sourceData = Spec.sourceData p) (hsub : 1 ≤ tm.sec.subservice ∧ tm.sec.subservice ≤ 8)
    (wp : WFParams p) (ex : ExactParams p) (hm : Matches p tm.sec.subservice)
    (hsb : ∀ s, p.stepId = some s → sb = fieldWidth s)
    (heb : ∀ n, p.failure = some n → eb = fieldWidth n.code) :
    unpackRaw tm sb eb = .ok ⟨tm, p⟩ := by
  obtain ⟨wr, ws, wn⟩ := wp
  obtain ⟨exs, exn⟩ := ex
  obtain ⟨r, step, fail⟩ := p
  simp only at wr ws wn exs exn hsb heb
  obtain ⟨hm1, hm2⟩ := hm
  have h4 : ¬ (Spec.sourceData ⟨r, step, fail⟩).length < 4 := by
    simp [Spec.sourceData, reqOctets_length]
  unfold unpackRaw
  simp only [hsrc, h4, ↓reduceIte]
  cases step with
  | none =>
    cases fail with
    | none =>
      simp only [Option.isSome_none, Bool.false_eq_true, false_iff] at hm1 hm2
      have h1 : tm.sec.subservice = 1 ∨ tm.sec.subservice = 3 ∨ tm.sec.subservice = 7 := by omega
      have h5 : ¬ tm.sec.subservice = 5 := by omega
      simp only [Spec.sourceData, req_slice r wr, bind, Except.bind, hm1, h5, h1, ↓reduceIte, not_true_eq_false,
        pure, Except.pure]
    | some n =>
      simp only [Option.isSome_none, Option.isSome_some, Bool.false_eq_true, false_iff, true_iff] at hm1 hm2
      have hE := heb n rfl
      subst hE
      have h6 : ¬ tm.sec.subservice = 6 := by omega
      have h1 : tm.sec.subservice = 2 ∨ tm.sec.subservice = 4 ∨ tm.sec.subservice = 8 := by omega
      have hlen : (Spec.sourceData ⟨r, none, some n⟩).length = 4 + (fieldWidth n.code + n.data.length) := by
        simp [Spec.sourceData, Spec.noticeOctets, reqOctets_length, fieldOctets_length]
      have hg : ¬ (4 + (fieldWidth n.code + n.data.length) < fieldWidth n.code) := by omega
      have hdrop : (Spec.sourceData ⟨r, none, some n⟩).drop 4 = Spec.noticeOctets n := by
        simp only [Spec.sourceData, List.append_nil]
        exact List.drop_left' (reqOctets_length r)
      simp only [hlen, hdrop, hg, h6, h1, hm1, ↓reduceIte, ne_eq, not_false_eq_true, not_true_eq_false,
        true_and, and_false, bind, Except.bind, pure, Except.pure]
      simp only [Spec.sourceData, req_slice r wr]
      rw [notice_unpack n (wn n rfl) (exn n rfl) _ (by omega)]
  | some s =>
    have hS := hsb s rfl
    subst hS
    cases fail with
    | none =>
      simp only [Option.isSome_none, Option.isSome_some, Bool.false_eq_true, false_iff, true_iff] at hm1 hm2
      have h5 : tm.sec.subservice = 5 := by omega
      have hsl : slice (Spec.sourceData ⟨r, some s, none⟩) 4 (4 + fieldWidth s) = Spec.fieldOctets s := by
        simp only [Spec.sourceData]
        rw [← reqOctets_length r, ← fieldOctets_length s]
        exact slice_eq_of_append _ _ _
      have hu : Pfe.unpack (Spec.fieldOctets s) (fieldWidth s * 8) = .ok s := by
        simpa using C15_field_roundtrip s (ws s rfl) (exs s rfl) []
      simp only [hsl, hu, hm1, ↓reduceIte, bind, Except.bind, pure, Except.pure]
      simp only [Spec.sourceData, req_slice r wr, h5, ↓reduceIte]
    | some n =>
      simp only [Option.isSome_some, true_iff] at hm1 hm2
      have hE := heb n rfl
      subst hE
      have h6 : tm.sec.subservice = 6 := by omega
      have hlen : (Spec.sourceData ⟨r, some s, some n⟩).length
          = 4 + fieldWidth s + (fieldWidth n.code + n.data.length) := by
        simp [Spec.sourceData, Spec.noticeOctets, reqOctets_length, fieldOctets_length]; omega
      have hg : ¬ (4 + fieldWidth s + (fieldWidth n.code + n.data.length) < fieldWidth n.code + fieldWidth s) := by omega
      have hdrop4 : (Spec.sourceData ⟨r, some s, some n⟩).drop 4 = Spec.fieldOctets s ++ Spec.noticeOctets n := by
        simp only [Spec.sourceData, List.append_assoc]
        exact List.drop_left' (reqOctets_length r)
      have hdrop : (Spec.sourceData ⟨r, some s, some n⟩).drop (4 + fieldWidth s) = Spec.noticeOctets n := by
        simp only [Spec.sourceData]
        exact List.drop_left' (by simp [reqOctets_length, fieldOctets_length])
      simp only [hlen, hdrop4, hdrop, hg, h6, hm1, ↓reduceIte, ne_eq, not_true_eq_false, false_and,
        bind, Except.bind, pure, Except.pure, C15_field_roundtrip s (ws s rfl) (exs s rfl)]
      simp only [Spec.sourceData, req_slice r wr]
      rw [notice_unpack n (wn n rfl) (exn n rfl) _ (by omega)]

/-- **decoding the packed report with matching widths returns the same request id, step id, error
    code and failure data** (and the same telemetry fields): the decoded object *is* the original —
    for every subservice 1..8, every width combination, every timestamp, whatever octets follow.
    A width the report does not use (step width for non-step reports, error-code width for success
    reports) may be anything. -/
theorem C15_report_roundtrip (apid sub count ver ref dst : Nat) (ts : Bytes) (p : VParams)
    (ha : apid < 2048) (hc : count < 16384) (hsub : 1 ≤ sub ∧ sub ≤ 8) (hv : ver < 8) (hr : ref < 16)
    (hd : dst < 65536) (hl : ts.length + (Spec.sourceData p).length ≤ 65527)
    (wp : WFParams p) (ex : ExactParams p) (hm : Matches p sub) (sb eb : Nat)
    (hsb : ∀ s, p.stepId = some s → sb = fieldWidth s)
    (heb : ∀ n, p.failure = some n → eb = fieldWidth n.code) (rest : Bytes) :
    S1Tm.unpack (Spec.reportOctets apid sub count ver ref dst ts p ++ rest) ts.length sb eb
      = .ok ⟨Spec.reportTm apid sub count ver ref dst ts p, p⟩ := by
  have wf := reportTm_wf apid sub count ver ref dst ts p ha hc (by omega) hv hr hd hl
  have h := C03.C03_roundtrip _ wf rest
  unfold S1Tm.unpack
  have e : (Spec.reportTm apid sub count ver ref dst ts p).sec.timestamp.length = ts.length := rfl
  rw [e] at h
  simp only [Spec.reportOctets, h, bind, Except.bind]
  exact unpackRaw_spec _ p sb eb rfl hsub wp ex hm hsb heb

/-- … hence **it re-packs identically** … -/
theorem C15_report_repack (apid sub count ver ref dst : Nat) (ts : Bytes) (p : VParams)
    (ha : apid < 2048) (hc : count < 16384) (hsub : 1 ≤ sub ∧ sub ≤ 8) (hv : ver < 8) (hr : ref < 16)
    (hd : dst < 65536) (hl : ts.length + (Spec.sourceData p).length ≤ 65527)
    (wp : WFParams p) (ex : ExactParams p) (hm : Matches p sub) (sb eb : Nat)
    (hsb : ∀ s, p.stepId = some s → sb = fieldWidth s)
    (heb : ∀ n, p.failure = some n → eb = fieldWidth n.code) (rest : Bytes) :
    (S1Tm.unpack (Spec.reportOctets apid sub count ver ref dst ts p ++ rest) ts.length sb eb >>= S1Tm.pack)
      = .ok (Spec.reportOctets apid sub count ver ref dst ts p) := by
  rw [C15_report_roundtrip apid sub count ver ref dst ts p ha hc hsub hv hr hd hl wp ex hm sb eb hsb heb rest]
  exact C03.C03_pack_exact _ (reportTm_wf apid sub count ver ref dst ts p ha hc (by omega) hv hr hd hl)

private theorem optBeq_iff {α : Type} (f : α → α → Bool) (hf : ∀ a b, f a b = true ↔ a = b) (x y : Option α) :
    optBeq f x y = true ↔ x = y := by
  cases x <;> cases y <;> simp [optBeq, hf]

private theorem sph_octets_inj (a b : Sph) (wa : C01.WF a) (wb : C01.WF b)
    (h : C01.Spec.octets a = C01.Spec.octets b) : a = b := by
  have ha := C01.C01_unpack_pack a wa []
  have hb := C01.C01_unpack_pack b wb []
  rw [h, hb] at ha
  exact (Except.ok.inj ha).symm

private theorem sec_octets_inj (a b : TmSec) (wa : C03.WFSec a) (wb : C03.WFSec b)
    (h : C03.Spec.sec a = C03.Spec.sec b) : a = b := by
  have hlen : a.timestamp.length = b.timestamp.length := by
    have := congrArg List.length h
    simp [C03.Spec.sec, C03.Spec.secFixed] at this
    exact this
  have ha := C03.sec_unpack_spec a wa []
  have hb := C03.sec_unpack_spec b wb []
  rw [h, hlen, hb] at ha
  exact (Except.ok.inj ha).symm

/-- well-formedness of an arbitrary report object as far as `==` needs it -/
def WFEq (s : S1Tm) : Prop := C01.WF s.tm.sph ∧ C03.WFSec s.tm.sec ∧ WFReq s.params.reqId

/-- **`==` on reports is equality of all fields** — telemetry header fields, timestamp, source
    data, request id (by its 32 bits), step id and failure notice *by value* — so the decoded report
    compares equal to the original, also for failure reports -/
theorem C15_report_eq_iff (a b : S1Tm) (wa : WFEq a) (wb : WFEq b) : a.beq b = true ↔ a = b := by
  obtain ⟨ha1, ha2, ha3⟩ := wa
  obtain ⟨hb1, hb2, hb3⟩ := wb
  obtain ⟨⟨sa, ca, da⟩, ⟨ra, sta, fa⟩⟩ := a
  obtain ⟨⟨sb, cb, db⟩, ⟨rb, stb, fb⟩⟩ := b
  simp only at ha1 ha2 ha3 hb1 hb2 hb3
  have hreq : ra.beq rb = true ↔ ra = rb := by
    have := C15_reqid_eq ra rb ha3 hb3
    exact this.1.trans this.2
  simp only [S1Tm.beq, Tm.beq, VParams.beq, pyEq, C01.C01_pack_exact sa ha1, C01.C01_pack_exact sb hb1,
    C03.sec_pack ca ha2, C03.sec_pack cb hb2, Bool.and_eq_true, decide_eq_true_eq, hreq,
    optBeq_iff Pfe.beq C15_field_eq, optBeq_iff FailureNotice.beq C15_notice_eq,
    S1Tm.mk.injEq, Tm.mk.injEq, VParams.mk.injEq]
  constructor
  · rintro ⟨⟨⟨h1, h2⟩, h3⟩, ⟨h4, h5⟩, h6⟩
    exact ⟨⟨sph_octets_inj sa sb ha1 hb1 h1, sec_octets_inj ca cb ha2 hb2 h2, h3⟩, h4, h5, h6⟩
  · rintro ⟨⟨h1, h2, h3⟩, h4, h5, h6⟩
    subst h1 h2 h3 h4 h5 h6
    exact ⟨⟨⟨rfl, rfl⟩, rfl⟩, ⟨rfl, rfl⟩, rfl⟩

/-- … and **the decoded report compares equal to the original** (both directions of `==`) -/
theorem C15_report_eq (apid sub count ver ref dst : Nat) (ts : Bytes) (p : VParams)
    (ha : apid < 2048) (hc : count < 16384) (hsub : 1 ≤ sub ∧ sub ≤ 8) (hv : ver < 8) (hr : ref < 16)
    (hd : dst < 65536) (hl : ts.length + (Spec.sourceData p).length ≤ 65527)
    (wp : WFParams p) (ex : ExactParams p) (hm : Matches p sub) (sb eb : Nat)
    (hsb : ∀ s, p.stepId = some s → sb = fieldWidth s)
    (heb : ∀ n, p.failure = some n → eb = fieldWidth n.code) (rest : Bytes) :
    ∃ s', S1Tm.unpack (Spec.reportOctets apid sub count ver ref dst ts p ++ rest) ts.length sb eb = .ok s' ∧
      s'.beq ⟨Spec.reportTm apid sub count ver ref dst ts p, p⟩ = true ∧
      (S1Tm.mk (Spec.reportTm apid sub count ver ref dst ts p) p).beq s' = true := by
  have wf := reportTm_wf apid sub count ver ref dst ts p ha hc (by omega) hv hr hd hl
  have we : WFEq ⟨Spec.reportTm apid sub count ver ref dst ts p, p⟩ := ⟨wf.1, wf.2.1, wp.1⟩
  refine ⟨_, C15_report_roundtrip apid sub count ver ref dst ts p ha hc hsub hv hr hd hl wp ex hm sb eb hsb heb rest,
    (C15_report_eq_iff _ _ we we).2 rfl, (C15_report_eq_iff _ _ we we).2 rfl⟩

/-- **end to end**, in terms of the constructor and `pack`/`unpack` only: the report built for a
    request id packs, carries the prescribed source data, and decoding the packed octets (followed by
    anything) with matching widths gives back the very same report, which compares equal to itself
    under `==` — every subservice 1..8, every width combination, every timestamp length -/
theorem C15_report_end_to_end (apid sub count ver ref dst : Nat) (ts : Bytes) (p : VParams)
    (ha : apid < 2048) (hc : count < 16384) (hsub : 1 ≤ sub ∧ sub ≤ 8) (hv : ver < 8) (hr : ref < 16)
    (hd : dst < 65536) (hl : ts.length + (Spec.sourceData p).length ≤ 65527)
    (wp : WFParams p) (ex : ExactParams p) (hm : Matches p sub) (sb eb : Nat)
    (hsb : ∀ s, p.stepId = some s → sb = fieldWidth s)
    (heb : ∀ n, p.failure = some n → eb = fieldWidth n.code) (rest : Bytes) :
    ∃ s raw, S1Tm.new (apid : Int) (sub : Int) ts (some p) (count : Int) ver ref dst = .ok s ∧
      s.pack = .ok raw ∧ s.tm.sourceData = Spec.sourceData p ∧ s.params = p ∧
      S1Tm.unpack (raw ++ rest) ts.length sb eb = .ok s ∧ (S1Tm.unpack (raw ++ rest) ts.length sb eb >>= S1Tm.pack) = .ok raw ∧
      s.beq s = true := by
  obtain ⟨h1, h2, h3⟩ := C15_report_layout apid sub count ver ref dst ts p ha hc (by omega) (by omega) wp hm
  obtain ⟨h4, _⟩ := h3 hv hr hd hl
  have wf := reportTm_wf apid sub count ver ref dst ts p ha hc (by omega) hv hr hd hl
  have we : WFEq ⟨Spec.reportTm apid sub count ver ref dst ts p, p⟩ := ⟨wf.1, wf.2.1, wp.1⟩
  exact ⟨_, _, h1, h4, h2, rfl,
    C15_report_roundtrip apid sub count ver ref dst ts p ha hc hsub hv hr hd hl wp ex hm sb eb hsb heb rest,
    C15_report_repack apid sub count ver ref dst ts p ha hc hsub hv hr hd hl wp ex hm sb eb hsb heb rest,
    (C15_report_eq_iff _ _ we we).2 rfl⟩

/-! ### Reports whose step id / error code PFC is not a multiple of 8 -/

/-- the parameter set a width-driven decoder returns: every PFC normalised to 8 × width -/
def normParams (p : VParams) : VParams :=
  ⟨p.reqId, p.stepId.map normField, p.failure.map (fun n => ⟨normField n.code, n.data⟩)⟩

theorem normParams_sourceData (p : VParams) : Spec.sourceData (normParams p) = Spec.sourceData p := by
  obtain ⟨r, step, fail⟩ := p
  cases step <;> cases fail <;> simp [normParams, Spec.sourceData, Spec.noticeOctets, normField_octets]

theorem normParams_wf (p : VParams) (wp : WFParams p) : WFParams (normParams p) ∧ ExactParams (normParams p) := by
  obtain ⟨wr, ws, wn⟩ := wp
  obtain ⟨r, step, fail⟩ := p
  simp only at wr ws wn
  refine ⟨⟨wr, ?_, ?_⟩, ⟨?_, ?_⟩⟩
  · intro s hs
    cases step with
    | none => simp [normParams] at hs
    | some s0 => simp only [normParams, Option.map_some, Option.some.injEq] at hs; subst hs; exact (normField_wf s0 (ws s0 rfl)).1
  · intro n hn
    cases fail with
    | none => simp [normParams] at hn
    | some n0 =>
      simp only [normParams, Option.map_some, Option.some.injEq] at hn; subst hn
      exact (normField_wf n0.code (wn n0 rfl)).1
  · intro s hs
    cases step with
    | none => simp [normParams] at hs
    | some s0 => simp only [normParams, Option.map_some, Option.some.injEq] at hs; subst hs; exact (normField_wf s0 (ws s0 rfl)).2
  · intro n hn
    cases fail with
    | none => simp [normParams] at hn
    | some n0 =>
      simp only [normParams, Option.map_some, Option.some.injEq] at hn; subst hn
      exact (normField_wf n0.code (wn n0 rfl)).2

theorem normParams_matches (p : VParams) (sub : Nat) : Matches (normParams p) sub ↔ Matches p sub := by
  obtain ⟨r, step, fail⟩ := p
  cases step <;> cases fail <;> simp [normParams, Matches]

theorem normParams_exact (p : VParams) (ex : ExactParams p) : normParams p = p := by
  obtain ⟨exs, exn⟩ := ex
  obtain ⟨r, step, fail⟩ := p
  simp only at exs exn
  cases step with
  | none =>
    cases fail with
    | none => rfl
    | some n => obtain ⟨c, d⟩ := n; simp [normParams, normField_exact c (exn _ rfl)]
  | some s =>
    cases fail with
    | none => simp [normParams, normField_exact s (exs _ rfl)]
    | some n => obtain ⟨c, d⟩ := n; simp [normParams, normField_exact s (exs _ rfl), normField_exact c (exn _ rfl)]

/-- **round trip of a report for EVERY accepted PFC** (no `ExactParams`): decoding the packed report
    (followed by anything) with matching widths returns the same telemetry fields, the same request
    id, and step id / error code with the same VALUE and the same WIDTH — their PFC normalised to
    8 × width (`normParams`) — and the same failure data; the decoded report re-packs to exactly the
    same octets; it is `==` the original iff all PFCs of the original were already 8 × width.
    (With pfc 12 the decoded step id is `PacketFieldEnum(16, v)` and `==` is False — in Python too.) -/
theorem C15_report_roundtrip_any_pfc (apid sub count ver ref dst : Nat) (ts : Bytes) (p : VParams)
    (ha : apid < 2048) (hc : count < 16384) (hsub : 1 ≤ sub ∧ sub ≤ 8) (hv : ver < 8) (hr : ref < 16)
    (hd : dst < 65536) (hl : ts.length + (Spec.sourceData p).length ≤ 65527)
    (wp : WFParams p) (hm : Matches p sub) (sb eb : Nat)
    (hsb : ∀ s, p.stepId = some s → sb = fieldWidth s)
    (heb : ∀ n, p.failure = some n → eb = fieldWidth n.code) (rest : Bytes) :
    S1Tm.unpack (Spec.reportOctets apid sub count ver ref dst ts p ++ rest) ts.length sb eb
      = .ok ⟨Spec.reportTm apid sub count ver ref dst ts p, normParams p⟩ ∧
    (normParams p).reqId = p.reqId ∧
    (∀ s, p.stepId = some s → ∃ s', (normParams p).stepId = some s' ∧ s'.val = s.val ∧
        fieldWidth s' = fieldWidth s ∧ s'.pfc = fieldWidth s * 8) ∧
    (p.stepId = none → (normParams p).stepId = none) ∧
    (∀ n, p.failure = some n → ∃ n', (normParams p).failure = some n' ∧ n'.code.val = n.code.val ∧
        fieldWidth n'.code = fieldWidth n.code ∧ n'.code.pfc = fieldWidth n.code * 8 ∧ n'.data = n.data) ∧
    (p.failure = none → (normParams p).failure = none) ∧
    (S1Tm.mk (Spec.reportTm apid sub count ver ref dst ts p) (normParams p)).pack
      = .ok (Spec.reportOctets apid sub count ver ref dst ts p) ∧
    ((S1Tm.mk (Spec.reportTm apid sub count ver ref dst ts p) (normParams p)).beq
        ⟨Spec.reportTm apid sub count ver ref dst ts p, p⟩ = true ↔ ExactParams p) := by
  obtain ⟨wpn, exn⟩ := normParams_wf p wp
  have hsd := normParams_sourceData p
  have hoct : Spec.reportOctets apid sub count ver ref dst ts (normParams p)
      = Spec.reportOctets apid sub count ver ref dst ts p := by simp only [Spec.reportOctets, Spec.reportTm, hsd]
  have htm : Spec.reportTm apid sub count ver ref dst ts (normParams p)
      = Spec.reportTm apid sub count ver ref dst ts p := by simp only [Spec.reportTm, hsd]
  have h := C15_report_roundtrip apid sub count ver ref dst ts (normParams p) ha hc hsub hv hr hd (by rw [hsd]; exact hl)
    wpn exn ((normParams_matches p sub).2 hm) sb eb
    (by
      intro s hs
      cases hp : p.stepId with
      | none => simp [normParams, hp] at hs
      | some s0 =>
        simp only [normParams, hp, Option.map_some, Option.some.injEq] at hs
        subst hs; rw [normField_width]; exact hsb s0 hp)
    (by
      intro n hn
      cases hp : p.failure with
      | none => simp [normParams, hp] at hn
      | some n0 =>
        simp only [normParams, hp, Option.map_some, Option.some.injEq] at hn
        subst hn; simp only; rw [normField_width]; exact heb n0 hp) rest
  rw [hoct, htm] at h
  have wf := reportTm_wf apid sub count ver ref dst ts p ha hc (by omega) hv hr hd hl
  refine ⟨h, rfl, ?_, ?_, ?_, ?_, ?_, ?_⟩
  · intro s hs; exact ⟨normField s, by simp [normParams, hs], rfl, normField_width s, rfl⟩
  · intro hs; simp [normParams, hs]
  · intro n hn; exact ⟨⟨normField n.code, n.data⟩, by simp [normParams, hn], rfl, normField_width n.code, rfl, rfl⟩
  · intro hn; simp [normParams, hn]
  · exact C03.C03_pack_exact _ wf
  · have we : WFEq ⟨Spec.reportTm apid sub count ver ref dst ts p, p⟩ := ⟨wf.1, wf.2.1, wp.1⟩
    have wen : WFEq ⟨Spec.reportTm apid sub count ver ref dst ts p, normParams p⟩ := ⟨wf.1, wf.2.1, wp.1⟩
    rw [C15_report_eq_iff _ _ wen we]
    constructor
    · intro e
      have e2 : normParams p = p := by injection e
      rw [← e2]; exact exn
    · intro ex; rw [normParams_exact p ex]

/-- what the decoder guarantees for ANY accepted octet string, with any configured widths: the
    telemetry part is what the generic decoder returns, the subservice is one of 1..8, the decoded
    parameter set has the shape of that subservice, and the request id is the first four octets of
    the source data -/
theorem C15_unpack_sound (d : Bytes) (n sb eb : Nat) (s : S1Tm) (h : S1Tm.unpack d n sb eb = .ok s) :
    Tm.unpack d n = .ok s.tm ∧ (1 ≤ s.tm.sec.subservice ∧ s.tm.sec.subservice ≤ 8) ∧
    Matches s.params s.tm.sec.subservice ∧ 4 ≤ s.tm.sourceData.length ∧
    ReqId.unpack s.tm.sourceData = .ok s.params.reqId := by
  unfold S1Tm.unpack at h
  cases ht : Tm.unpack d n with
  | error e => simp [ht, bind, Except.bind] at h
  | ok tm =>
    simp only [ht, bind, Except.bind] at h
    unfold unpackRaw at h
    by_cases h4 : tm.sourceData.length < 4
    · simp [h4, throw, throwThe, MonadExceptOf.throw, bind, Except.bind] at h
    · simp only [h4, ↓reduceIte, bind, Except.bind] at h
      have hreq : ReqId.unpack (slice tm.sourceData 0 4) = ReqId.unpack tm.sourceData := by
        have : slice tm.sourceData 0 4 = tm.sourceData.take 4 := by simp [slice]
        rw [this]; exact ReqId.unpack_take _ (by omega)
      rw [hreq] at h
      cases hr : ReqId.unpack tm.sourceData with
      | error e => simp [hr] at h
      | ok req =>
        simp only [hr] at h
        simp only [throw, throwThe, MonadExceptOf.throw, pure, Except.pure] at h
        repeat' split at h
        all_goals
          first
          | (cases h; done)
          | (have hs := (Except.ok.inj h).symm
             subst hs
             refine ⟨rfl, ?_, ?_, by simp only; omega, hr⟩
             · simp only; omega
             · unfold Matches
               simp
               omega)

/-- any octet string, any timestamp length, any configured widths: the report decoder fails only
    with documented errors (ValueError family, CRC error) -/
theorem C15_unpack_documented (d : Bytes) (n sb eb : Nat) : Documented (S1Tm.unpack d n sb eb) := by
  unfold S1Tm.unpack
  exact Documented.bind (C03.C03_documented d n) (fun tm _ => unpackRaw_documented tm sb eb)

-- non-vacuity: a step-failure report with a 2-octet step id, a 4-octet error code and failure data,
-- request id with version bits 5; a completion-success report; a mismatching set
example : WFParams ⟨⟨5, ⟨1, 1, 0x7AB⟩, ⟨2, 0x2BCD⟩⟩, some ⟨16, 0xBEEF⟩, some ⟨⟨32, 0xDEADBEEF⟩, [1, 2, 3]⟩⟩ ∧
    ExactParams ⟨⟨5, ⟨1, 1, 0x7AB⟩, ⟨2, 0x2BCD⟩⟩, some ⟨16, 0xBEEF⟩, some ⟨⟨32, 0xDEADBEEF⟩, [1, 2, 3]⟩⟩ ∧
    Matches ⟨⟨5, ⟨1, 1, 0x7AB⟩, ⟨2, 0x2BCD⟩⟩, some ⟨16, 0xBEEF⟩, some ⟨⟨32, 0xDEADBEEF⟩, [1, 2, 3]⟩⟩ 6 := by
  refine ⟨⟨by decide, ?_, ?_⟩, ⟨?_, ?_⟩, by decide⟩
  · intro s h; cases h; decide
  · intro n h; cases h; unfold WFNotice; decide
  · intro s h; cases h; decide
  · intro n h; cases h; decide

example : Spec.sourceData ⟨⟨5, ⟨1, 1, 0x7AB⟩, ⟨2, 0x2BCD⟩⟩, some ⟨16, 0xBEEF⟩, some ⟨⟨32, 0xDEADBEEF⟩, [1, 2, 3]⟩⟩
    = [0xBF, 0xAB, 0xAB, 0xCD, 0xBE, 0xEF, 0xDE, 0xAD, 0xBE, 0xEF, 1, 2, 3] := by decide

example : Matches ⟨ReqId.empty, none, none⟩ 7 ∧ ¬ Matches ⟨ReqId.empty, some ⟨8, 1⟩, none⟩ 7 ∧
    ¬ Matches ⟨ReqId.empty, none, none⟩ 8 := by decide

/-- request id, packed form: in-range ids with the same four octets are the same id (consequence of
    `C15_reqid_roundtrip`; the 32-bit integer form is `C15_reqid_eq`) -/
theorem C15_reqid_octets_injective (a b : ReqId) (wa : WFReq a) (wb : WFReq b)
    (he : Spec.reqOctets a = Spec.reqOctets b) : a = b := by
  have r1 := C15_reqid_roundtrip a wa []
  have r2 := C15_reqid_roundtrip b wb []
  rw [he, r2] at r1
  cases r1; rfl

/-- the three forms agree: in-range request ids are equal iff `pack()` gives the same octets iff
    `as_u32()` gives the same 32-bit value -/
theorem C15_reqid_pack_injective (a b : ReqId) (wa : WFReq a) (wb : WFReq b) :
    (a.pack = b.pack ↔ a = b) ∧ (a.pack = b.pack ↔ a.asU32 = b.asU32) := by
  have h1 : a.pack = b.pack ↔ a = b := by
    refine ⟨fun he => ?_, fun he => by rw [he]⟩
    rw [C15_req_pack a wa, C15_req_pack b wb] at he
    exact C15_reqid_octets_injective a b wa wb (Except.ok.inj he)
  exact ⟨h1, h1.trans (C15_reqid_eq a b wa wb).2.symm⟩

-- non-vacuity: two distinct in-range request ids, distinct octets
example : WFReq ⟨0, ⟨1, 0, 5⟩, ⟨3, 7⟩⟩ ∧ WFReq ⟨0, ⟨1, 0, 5⟩, ⟨3, 8⟩⟩ ∧
    Spec.reqOctets ⟨0, ⟨1, 0, 5⟩, ⟨3, 7⟩⟩ ≠ Spec.reqOctets ⟨0, ⟨1, 0, 5⟩, ⟨3, 8⟩⟩ := by decide

end SpVerif.Props.C15
