import SpVerif.Model.Srv1
import SpVerif.Props.C03
namespace SpVerif.Props.C15
theorem C15_placeholder : True := trivial
end SpVerif.Props.C15
