import SpVerif.Model.Srv1
import SpVerif.Props.C03
/-!
# C15 — Request IDs and service-1 verification reports identify the telecommand exactly
-/
namespace SpVerif.Props.C15
open SpVerif SpVerif.SpacePacket SpVerif.PusTm SpVerif.Srv1

/-! ## Request ID -/

def WFReq (r : ReqId) : Prop :=
  r.version < 8 ∧ r.pid.ptype < 2 ∧ r.pid.shf < 2 ∧ r.pid.apid < 2048 ∧ r.psc.flags < 4 ∧ r.psc.count < 16384

/-- the four octets of a request id = the first four octets of the space packet header -/
def Spec.reqOctets (r : ReqId) : Bytes :=
  [u8 (r.version * 32 + r.pid.ptype * 16 + r.pid.shf * 8 + r.pid.apid / 256), u8 (r.pid.apid % 256),
   u8 (r.psc.flags * 64 + r.psc.count / 256), u8 (r.psc.count % 256)]

private theorem ar0 (v t s a : Nat) (ht : t < 2) (hs : s < 2) (ha : a < 2048) :
    (v * 8192 + (t * 4096 + s * 2048 + a)) / 256 = v * 32 + t * 16 + s * 8 + a / 256 := by omega
private theorem ar1 (v t s a : Nat) : (v * 8192 + (t * 4096 + s * 2048 + a)) % 256 = a % 256 := by omega
private theorem ar2 (f c : Nat) (hc : c < 16384) : (f * 16384 + c) / 256 = f * 64 + c / 256 := by omega
private theorem ar3 (f c : Nat) : (f * 16384 + c) % 256 = c % 256 := by omega

private theorem beNat_four (a b c d : UInt8) :
    beNat [a, b, c, d] = ((a.toNat * 256 + b.toNat) * 256 + c.toNat) * 256 + d.toNat := by
  simp [beNat]

private theorem dr_g (x y : Nat) (hx : x < 256) (hy : y < 256) :
    ¬ 16383 < (x * 256 + y) / 65536 * 65536 + (x * 256 + y) % 16384 := by omega
private theorem dr1 (x y : Nat) (hx : x < 256) (hy : y < 256) : (x * 256 + y) / 8192 % 8 = x / 32 := by omega
private theorem dr2 (x y : Nat) (hy : y < 256) : (x * 256 + y) / 4096 % 2 = x / 16 % 2 := by omega
private theorem dr3 (x y : Nat) (hy : y < 256) : (x * 256 + y) / 2048 % 2 = x / 8 % 2 := by omega
private theorem dr4 (x y : Nat) (hy : y < 256) : (x * 256 + y) % 2048 = x % 8 * 256 + y := by omega
private theorem dr5 (x y : Nat) (hx : x < 256) (hy : y < 256) : (x * 256 + y) / 16384 % 4 = x / 64 := by omega
private theorem dr6 (x y : Nat) (hx : x < 256) (hy : y < 256) :
    (x * 256 + y) / 65536 * 65536 + (x * 256 + y) % 16384 = x % 64 * 256 + y := by omega
private theorem er0 (x y : Nat) (hx : x < 256) (hy : y < 256) :
    x / 32 * 32 + x / 16 % 2 * 16 + x / 8 % 2 * 8 + (x % 8 * 256 + y) / 256 = x := by omega
private theorem er1 (x y : Nat) (hy : y < 256) : (x % 8 * 256 + y) % 256 = y := by omega
private theorem er2 (x y : Nat) (hx : x < 256) (hy : y < 256) : x / 64 * 64 + (x % 64 * 256 + y) / 256 = x := by omega
private theorem er3 (x y : Nat) (hy : y < 256) : (x % 64 * 256 + y) % 256 = y := by omega

theorem req_pack (r : ReqId) (wf : WFReq r) : r.pack = .ok (Spec.reqOctets r) := by
  obtain ⟨hv, ht, hs, ha, hf, hc⟩ := wf
  unfold ReqId.pack
  rw [packBE2_ok (show r.word0 < 65536 by simp only [ReqId.word0, PacketId.raw, pidRaw]; omega),
    packBE2_ok (show r.psc.raw < 65536 by simp only [Psc.raw, pscRaw]; omega)]
  simp [bind, Except.bind, pure, Except.pure, Spec.reqOctets, ReqId.word0, PacketId.raw, Psc.raw, pidRaw, pscRaw,
    ar0 _ _ _ _ ht hs ha, ar1, ar2 _ _ hc, ar3]

/-- **the request id of a telecommand is exactly the first four octets of its space packet header** -/
theorem C15_reqid_is_header (h : Sph) (wf : C01.WF h) :
    (ReqId.fromSph h).pack = .ok ((C01.Spec.octets h).take 4) := by
  obtain ⟨hv, ht, hs, ha, hf, hc, _⟩ := wf
  rw [req_pack _ ⟨hv, ht, hs, ha, hf, hc⟩]
  simp [Spec.reqOctets, ReqId.fromSph, C01.Spec.octets]

private theorem u32_of_octets (v t s a f c : Nat) (hv : v < 8) (ht : t < 2) (hs : s < 2) (ha : a < 2048)
    (hf : f < 4) (hc : c < 16384) :
    (((v * 32 + t * 16 + s * 8 + a / 256) % 256 * 256 + a % 256 % 256) * 256 + (f * 64 + c / 256) % 256) * 256
      + c % 256 % 256 = (v * 8192 + (t * 4096 + s * 2048 + a)) * 65536 + (f * 16384 + c) := by omega

/-- the 32-bit integer form is the big-endian value of the packed form, and fits 32 bits -/
theorem C15_reqid_u32 (r : ReqId) (wf : WFReq r) :
    beNat (Spec.reqOctets r) = r.asU32 ∧ r.asU32 < 2 ^ 32 := by
  obtain ⟨hv, ht, hs, ha, hf, hc⟩ := wf
  constructor
  · simp only [Spec.reqOctets, beNat_four, u8_toNat, ReqId.asU32, ReqId.word0, PacketId.raw, Psc.raw, pidRaw, pscRaw]
    exact u32_of_octets r.version r.pid.ptype r.pid.shf r.pid.apid r.psc.flags r.psc.count hv ht hs ha hf hc
  · simp only [ReqId.asU32, ReqId.word0, PacketId.raw, Psc.raw, pidRaw, pscRaw]; omega

private theorem req_unpack_eq (d : Bytes) (h4 : 4 ≤ d.length) :
    ReqId.unpack d = .ok ⟨d[0].toNat / 32, ⟨d[0].toNat / 16 % 2, d[0].toNat / 8 % 2, d[0].toNat % 8 * 256 + d[1].toNat⟩,
      ⟨d[2].toNat / 64, d[2].toNat % 64 * 256 + d[3].toNat⟩⟩ := by
  have hl : ¬ d.length < 4 := by omega
  have b0 := toNat_lt d[0]
  have b1 := toNat_lt d[1]
  have b2 := toNat_lt d[2]
  have b3 := toNat_lt d[3]
  have b1' := toNat_lt d[0+1]
  have b3' := toNat_lt d[2+1]
  unfold ReqId.unpack
  simp only [hl, ↓reduceIte, bind, Except.bind, pure, Except.pure,
    unpackBE2_slice d 0 (by omega), unpackBE2_slice d 2 (by omega), Psc.fromRaw, Psc.new_nat]
  simp only [dr_g _ _ b2 b3', ↓reduceIte, PacketId.fromRaw, dr1 _ _ b0 b1', dr2 _ _ b1', dr3 _ _ b1', dr4 _ _ b1',
    dr5 _ _ b2 b3', dr6 _ _ b2 b3']
  have g2 : ¬ 16383 < d[2].toNat % 64 * 256 + d[2+1].toNat := by omega
  simp [g2]

/-- **decode ∘ encode = id** for request ids, with any octets following -/
theorem C15_reqid_roundtrip (r : ReqId) (wf : WFReq r) (rest : Bytes) :
    ReqId.unpack (Spec.reqOctets r ++ rest) = .ok r := by
  obtain ⟨hv, ht, hs, ha, hf, hc⟩ := wf
  rw [req_unpack_eq _ (by simp [Spec.reqOctets])]
  simp only [Spec.reqOctets, List.cons_append, List.getElem_cons_zero, List.getElem_cons_succ, u8_toNat]
  cases r with
  | mk v p q =>
    cases p with
    | mk t s a =>
      cases q with
      | mk f c =>
        simp only at hv ht hs ha hf hc ⊢
        congr 1
        simp only [ReqId.mk.injEq, PacketId.mk.injEq, Psc.mk.injEq]
        refine ⟨?_, ⟨?_, ?_, ?_⟩, ?_, ?_⟩ <;> omega

/-- **encode ∘ decode = b[:4]** for every octet string of at least four octets: together with the
    round trip, a bijection between in-range request ids and all 2^32 values -/
theorem C15_reqid_decode_encode (b : Bytes) (h4 : 4 ≤ b.length) :
    ∃ r, ReqId.unpack b = .ok r ∧ WFReq r ∧ r.pack = .ok (b.take 4) ∧ r.asU32 = beNat (b.take 4) := by
  have b0 := toNat_lt b[0]
  have b1 := toNat_lt b[1]
  have b2 := toNat_lt b[2]
  have b3 := toNat_lt b[3]
  have wf : WFReq ⟨b[0].toNat / 32, ⟨b[0].toNat / 16 % 2, b[0].toNat / 8 % 2, b[0].toNat % 8 * 256 + b[1].toNat⟩,
      ⟨b[2].toNat / 64, b[2].toNat % 64 * 256 + b[3].toNat⟩⟩ := by
    unfold WFReq; refine ⟨?_, ?_, ?_, ?_, ?_, ?_⟩ <;> simp only <;> omega
  have hoct : Spec.reqOctets ⟨b[0].toNat / 32, ⟨b[0].toNat / 16 % 2, b[0].toNat / 8 % 2, b[0].toNat % 8 * 256 + b[1].toNat⟩,
      ⟨b[2].toNat / 64, b[2].toNat % 64 * 256 + b[3].toNat⟩⟩ = b.take 4 := by
    simp only [Spec.reqOctets, er0 _ _ b0 b1, er1 _ _ b1, er2 _ _ b2 b3, er3 _ _ b3, u8_toNat_self]
    match b, h4 with
    | x0 :: x1 :: x2 :: x3 :: r, _ => simp
  refine ⟨_, req_unpack_eq b h4, wf, ?_, ?_⟩
  · rw [req_pack _ wf, hoct]
  · rw [← (C15_reqid_u32 _ wf).1, hoct]

private theorem u32_inj (v t s a f c v' t' s' a' f' c' : Nat)
    (ht : t < 2) (hs : s < 2) (ha : a < 2048) (hf : f < 4) (hc : c < 16384)
    (ht' : t' < 2) (hs' : s' < 2) (ha' : a' < 2048) (hf' : f' < 4) (hc' : c' < 16384)
    (h : (v * 8192 + (t * 4096 + s * 2048 + a)) * 65536 + (f * 16384 + c)
       = (v' * 8192 + (t' * 4096 + s' * 2048 + a')) * 65536 + (f' * 16384 + c')) :
    v = v' ∧ t = t' ∧ s = s' ∧ a = a' ∧ f = f' ∧ c = c' := by omega

/-- **two request ids are equal (`==`, and hash equal) iff their 32 bits are equal**: `==` is
    defined through `as_u32()` (and so is `__hash__`), and on in-range ids equal 32-bit values mean
    equal fields -/
theorem C15_reqid_eq (a b : ReqId) (wa : WFReq a) (wb : WFReq b) :
    (a.beq b = true ↔ a.asU32 = b.asU32) ∧ (a.asU32 = b.asU32 ↔ a = b) := by
  refine ⟨by simp [ReqId.beq], ⟨fun h => ?_, fun h => by rw [h]⟩⟩
  obtain ⟨hv, ht, hs, ha, hf, hc⟩ := wa
  obtain ⟨hv', ht', hs', ha', hf', hc'⟩ := wb
  simp only [ReqId.asU32, ReqId.word0, PacketId.raw, Psc.raw, pidRaw, pscRaw] at h
  have := u32_inj _ _ _ _ _ _ _ _ _ _ _ _ ht hs ha hf hc ht' hs' ha' hf' hc' h
  cases a with
  | mk v p q => cases p; cases q; cases b with
    | mk v' p' q' => cases p'; cases q'; simp_all

/-- fewer than four octets are refused (ValueError); the decoder never fails otherwise -/
theorem C15_reqid_documented (d : Bytes) : Documented (ReqId.unpack d) := by
  by_cases h : d.length < 4
  · simp [ReqId.unpack, h, throw, throwThe, MonadExceptOf.throw, bind, Except.bind]; exact Documented.err rfl
  · rw [req_unpack_eq d (by omega)]; exact Documented.ok _

example : WFReq ⟨5, ⟨1, 1, 0x7AB⟩, ⟨2, 0x2BCD⟩⟩ := by unfold WFReq; decide

end SpVerif.Props.C15
