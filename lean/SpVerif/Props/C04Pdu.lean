import SpVerif.Props.C04
import SpVerif.Props.C12
import SpVerif.Proofs.CfdpPduFront
/-!
# C04, CFDP clause, for each of the eight real PDU decoders and for the factory

`Props/C04.lean` proves the CFDP clause for the part every PDU decoder runs first
(`CfdpFront.pduFront`, `directiveFront`) and for the common tail of every `pack()`. This file closes
the three facts that were carried by the correspondence check only, now that the per-PDU models exist
(`Model/Ack|Prompt|KeepAlive|Nak|Eof|Finished|Metadata|FileData.lean`, `Model/Factory.lean`):

1. **each real decoder is "front, then body"** — `C04_directive_decoders_run_front`,
   `C04_filedata_decoder_runs_front`, `C04_factory_decoders_run_front`
   (`RunsFirst fr dec`: whenever the front fails, the decoder fails with the same error);
2. **each `pack()` ends with the CRC tail** — `C04_<K>_pack_always_valid`, for ANY field values
   (the state after arbitrary setters): a successful `pack` with the CRC flag is `body ‖ CRC-16(body)`;
3. **each decoder accepts its own packed PDUs** — `C04_<K>_valid_passes`, domains = the owners'
   `WF` predicates (C06 / C07) with the CRC flag set.

and from these, per kind K ∈ {ack, prompt, keepalive, nak, eof, finished, metadata, filedata}:

* `C04_<K>_accept_implies_crc` — the decoder returns on a buffer whose octet 0 carries the CRC flag
  only if CRC-16 over exactly `cfdpDeclaredLen d` octets (a function of octets 0–3) is zero and they
  all lie inside the buffer;
* `C04_<K>_burst_rejected_of_accepted` — ANY buffer the decoder accepts, any admissible burst inside
  the declared PDU outside octets 0–3: the decoder fails with `InvalidCrc` (documented), the
  declared length is unchanged, the CRC over it is non-zero;
* `C04_<K>_burst_rejected` — the same for `flipBurst` on every packed valid PDU followed by any
  octets (NAK: alone — its decoder refuses trailing octets by design).

`C04_any_*` state the same uniformly over `Factory.AnyPdu` / `decoderOf`; `C04_factory_*` through
`PduFactory.from_raw`, which reads the directive octet before any decoder runs: a burst on that
octet can make it answer `ValueError` (no such directive) or `None` (`DirectiveType.NONE`) instead of
`InvalidCrc` — never a PDU object.
-/
namespace SpVerif.Props.C04Pdu
open SpVerif SpVerif.Crc SpVerif.CfdpHeader SpVerif.CfdpFront SpVerif.CfdpCrc SpVerif.FileDirective
open SpVerif.Factory
open SpVerif.Props.C04 (Pattern)

/-- `InvalidCrc` (the error every rejection theorem below names) is a documented error -/
theorem C04_crc_error_documented : Err.crc.documented = true := rfl

/-! ## 1. every real decoder runs the common front first -/

private theorem ack_runs : RunsFirst directiveFront Ack.Ack.unpack := by
  intro d e he; rw [Ack.unpack_eq]; exact runsFirst_prelude_bind (fun _ => Ack.parse) d e he
private theorem prompt_runs : RunsFirst directiveFront Prompt.Prompt.unpack := by
  intro d e he; rw [Prompt.unpack_eq]; exact runsFirst_prelude_bind (fun _ => Prompt.parse) d e he
private theorem keepalive_runs : RunsFirst directiveFront KeepAlive.KeepAlive.unpack := by
  intro d e he; rw [KeepAlive.unpack_eq]; exact runsFirst_prelude_bind (fun _ => KeepAlive.parse) d e he
private theorem nak_runs : RunsFirst directiveFront Nak.Nak.unpack := by
  intro d e he; rw [Nak.unpack_eq]; exact runsFirst_prelude_bind (fun d => Nak.parse d.length) d e he
private theorem eof_runs : RunsFirst directiveFront Eof.Eof.unpack := by
  intro d e he; rw [Eof.unpack_eq]; exact runsFirst_prelude_bind (fun _ => Eof.parse) d e he
private theorem finished_runs : RunsFirst directiveFront Finished.Finished.unpack := by
  intro d e he; rw [Finished.unpack_eq]; exact runsFirst_prelude_bind (fun _ => Finished.parse) d e he
private theorem metadata_runs : RunsFirst directiveFront Metadata.Metadata.unpack := by
  intro d e he; rw [Metadata.unpack_eq]; exact runsFirst_prelude_bind (fun _ => Metadata.parse) d e he

/-- **the common prelude of the seven directive decoders is the directive front** of `Props/C04.lean`
    (`FileDirectivePduBase.unpack`, `verify_length_and_checksum`) followed by the cut to
    `end_of_params`: same guards, same order, same errors -/
theorem C04_directive_prelude_is_front (d : Bytes) :
    prelude d = directiveFront d >>= fun r =>
      pure ((⟨r.1, r.2⟩ : FileDirective), d.take (FileDirective.paramsEnd ⟨r.1, r.2⟩)) :=
  prelude_eq_front d

/-- **each of the seven directive decoders is "directive front, then body"**: whenever the front
    fails, the decoder fails with the very same error — it accepts only what the front accepts -/
theorem C04_directive_decoders_run_front :
    RunsFirst directiveFront Ack.Ack.unpack ∧ RunsFirst directiveFront Prompt.Prompt.unpack ∧
    RunsFirst directiveFront KeepAlive.KeepAlive.unpack ∧ RunsFirst directiveFront Nak.Nak.unpack ∧
    RunsFirst directiveFront Eof.Eof.unpack ∧ RunsFirst directiveFront Finished.Finished.unpack ∧
    RunsFirst directiveFront Metadata.Metadata.unpack :=
  ⟨ack_runs, prompt_runs, keepalive_runs, nak_runs, eof_runs, finished_runs, metadata_runs⟩

/-- **`FileDataPdu.unpack` is "front, then body"** -/
theorem C04_filedata_decoder_runs_front : RunsFirst pduFront FileData.Pdu.unpack := runsFirst_fileData

/-- the same for the factory's table of decoders, kind by kind -/
theorem C04_factory_decoders_run_front (k : Kind) :
    (k = .fileData → RunsFirst pduFront (decoderOf k)) ∧
    (k ≠ .fileData → RunsFirst directiveFront (decoderOf k)) := decoderOf_runsFirst k

/-- what "runs the front first" means for acceptance: a returned object implies the front returned -/
theorem C04_runs_first_accept {α β : Type} (fr : Bytes → Py β) (dec : Bytes → Py α) (hr : RunsFirst fr dec)
    (d : Bytes) (r : α) (h : dec d = .ok r) : ∃ b, fr d = .ok b := hr.accept h

/-! ## 2. every `pack()` ends with the CRC tail, whatever the field values -/

private theorem starts_of_crc {S O c P T : Bytes} (h : S = (O ++ c ++ P) ++ T) : ∃ A, S = O ++ A :=
  ⟨c ++ (P ++ T), by rw [h]; simp only [List.append_assoc]⟩

theorem C04_ack_pack_always_valid (a : Ack.Ack) (raw : Bytes) (h : a.pack = .ok raw)
    (hc : a.fd.header.conf.crcFlag = 1) : (∃ body, raw = body ++ crcTrailer body) ∧ crc16 raw = 0 := by
  have : EndsCrc 1 a.pack := by
    unfold Ack.Ack.pack; rw [hc]
    exact .bind fun _ => .bind fun _ => .bind fun _ => .pure _ _
  exact this.valid h

theorem C04_prompt_pack_always_valid (a : Prompt.Prompt) (raw : Bytes) (h : a.pack = .ok raw)
    (hc : a.fd.header.conf.crcFlag = 1) : (∃ body, raw = body ++ crcTrailer body) ∧ crc16 raw = 0 := by
  have : EndsCrc 1 a.pack := by
    unfold Prompt.Prompt.pack; rw [hc]
    exact .bind fun _ => .bind fun _ => .pure _ _
  exact this.valid h

theorem C04_keepalive_pack_always_valid (a : KeepAlive.KeepAlive) (raw : Bytes) (h : a.pack = .ok raw)
    (hc : a.fd.header.conf.crcFlag = 1) : (∃ body, raw = body ++ crcTrailer body) ∧ crc16 raw = 0 := by
  have : EndsCrc 1 a.pack := by
    unfold KeepAlive.KeepAlive.pack; rw [hc]
    exact .bind fun _ => .ite (.ite (.bind fun _ => .bind fun _ => .pure _ _) (.bind fun _ => .pure _ _))
      (.bind fun _ => .pure _ _)
  exact this.valid h

theorem C04_nak_pack_always_valid (a : Nak.Nak) (raw : Bytes) (h : a.pack = .ok raw)
    (hc : a.fd.header.conf.crcFlag = 1) : (∃ body, raw = body ++ crcTrailer body) ∧ crc16 raw = 0 := by
  have : EndsCrc 1 a.pack := by
    unfold Nak.Nak.pack; rw [hc]
    exact .bind fun _ => .bind fun _ => .bind fun _ => .pure _ _
  exact this.valid h

theorem C04_eof_pack_always_valid (a : Eof.Eof) (raw : Bytes) (h : a.pack = .ok raw)
    (hc : a.fd.header.conf.crcFlag = 1) : (∃ body, raw = body ++ crcTrailer body) ∧ crc16 raw = 0 := by
  have : EndsCrc 1 a.pack := by
    unfold Eof.Eof.pack; rw [hc]
    exact .bind fun _ => .bind fun _ => .bind fun _ => .bind fun _ => .pure _ _
  exact this.valid h

theorem C04_finished_pack_always_valid (a : Finished.Finished) (raw : Bytes) (h : a.pack = .ok raw)
    (hc : a.fd.header.conf.crcFlag = 1) : (∃ body, raw = body ++ crcTrailer body) ∧ crc16 raw = 0 := by
  have : EndsCrc 1 a.pack := by
    unfold Finished.Finished.pack; rw [hc]
    exact .bind fun _ => .ite (.bind fun _ => .bind fun _ => .bind fun _ => .bind fun _ => .pure _ _)
      (.bind fun _ => .bind fun _ => .bind fun _ => .pure _ _)
  exact this.valid h

theorem C04_metadata_pack_always_valid (a : Metadata.Metadata) (raw : Bytes) (h : a.pack = .ok raw)
    (hc : a.fd.header.conf.crcFlag = 1) : (∃ body, raw = body ++ crcTrailer body) ∧ crc16 raw = 0 := by
  have : EndsCrc 1 a.pack := by
    unfold Metadata.Metadata.pack; rw [hc]
    exact .bind fun _ => .bind fun _ => .bind fun _ => .bind fun _ => .bind fun _ => .bind fun _ =>
      .bind fun _ => .pure _ _
  exact this.valid h

theorem C04_filedata_pack_always_valid (x : FileData.Pdu) (raw : Bytes) (h : x.pack = .ok raw)
    (hc : x.header.conf.crcFlag = 1) :
    (∃ body, x.packBody = .ok body ∧ raw = body ++ crcTrailer body) ∧ crc16 raw = 0 := by
  unfold FileData.Pdu.pack at h
  cases hb : x.packBody with
  | error e => simp [hb, bind, Except.bind] at h
  | ok body =>
    simp only [hb, bind, Except.bind, hc, ↓reduceIte, pure, Except.pure] at h
    have := Except.ok.inj h
    subst this
    exact ⟨⟨body, rfl, rfl⟩, crc16_residue body⟩

/-! ## 3. per kind: valid PDUs pass, acceptance implies CRC, bursts are rejected

Domains are the owners' well-formedness predicates (`C06Fixed.WFAck`, … `C07.WF`) plus "CRC flag set".
`cfdpDeclaredLen`, `cfdpCrcFlag` read octets 0–3 only (`C04.C04_cfdp_declared_len_octets_0_3`). -/

/-! ### ACK -/

/-- **every valid CRC-flagged ACK PDU passes**: it packs, the packed octets have residue zero and
    exactly `packet_len` octets — the length octets 1–3 declare —, and the decoder accepts them,
    whatever follows in the buffer -/
theorem C04_ack_valid_passes (a : Ack.Ack) (wf : C06Fixed.WFAck a) (hc : a.fd.header.conf.crcFlag = 1) (rest : Bytes) :
    ∃ p, a.pack = .ok p ∧ crc16 p = 0 ∧ p.length = a.packetLen ∧ Ack.Ack.unpack (p ++ rest) = .ok a ∧
      cfdpDeclaredLen (p ++ rest) = p.length ∧ cfdpCrcFlag (p ++ rest) = 1 := by
  obtain ⟨hs, hz⟩ := (C06Fixed.C06_ack_crc a).1 hc
  have hl := (C06Fixed.C06_ack_len a wf).1
  obtain ⟨e1, e2⟩ := laid_out _ a.fd.header wf.2.2.2.2.2.1 (starts_of_crc hs) hl hc rest
  exact ⟨_, C06Fixed.C06_ack_pack_exact a wf, hz, hl, C06Fixed.C06_ack_roundtrip a wf rest, e1, e2⟩

/-- **acceptance implies CRC**: the ACK decoder returns on a buffer with the CRC flag in octet 0 only
    if the declared PDU lies inside the buffer and has residue zero -/
theorem C04_ack_accept_implies_crc (d : Bytes) (a : Ack.Ack) (h : Ack.Ack.unpack d = .ok a)
    (hc : cfdpCrcFlag d = 1) :
    cfdpDeclaredLen d ≤ d.length ∧ crc16 (d.take (cfdpDeclaredLen d)) = 0 :=
  ack_runs.directive_accept_crc h hc

/-- **burst rejection, strongest form**: ANY buffer the ACK decoder accepts, any admissible burst
    inside the declared PDU outside octets 0–3: `InvalidCrc`, never an object -/
theorem C04_ack_burst_rejected_of_accepted (d d' : Bytes) (a : Ack.Ack) (k : Nat) (B : List Bool)
    (hacc : Ack.Ack.unpack d = .ok a) (hc : cfdpCrcFlag d = 1) (hb : Burst d d' k B) (hp : Pattern B)
    (hin : k + B.length ≤ 8 * cfdpDeclaredLen d) (hav : AvoidsFixedHeader k) :
    Ack.Ack.unpack d' = .error .crc ∧ cfdpDeclaredLen d' = cfdpDeclaredLen d ∧ cfdpCrcFlag d' = 1 ∧
    crc16 (d'.take (cfdpDeclaredLen d')) ≠ 0 :=
  ack_runs.directive_reject hacc hc hb hp.1 hp.2 hin hav

/-- **burst rejection for packed PDUs** (the statement of the property): every valid CRC-flagged
    ACK PDU, packed octets `p` followed by any `rest`, every admissible burst inside `p` outside
    octets 0–3 -/
theorem C04_ack_burst_rejected (a : Ack.Ack) (wf : C06Fixed.WFAck a) (hc : a.fd.header.conf.crcFlag = 1)
    (p rest : Bytes) (k : Nat) (B : List Bool) (hpk : a.pack = .ok p) (hp : Pattern B)
    (hin : k + B.length ≤ 8 * p.length) (hav : AvoidsFixedHeader k) :
    Ack.Ack.unpack (flipBurst (p ++ rest) k B) = .error .crc ∧
    crc16 ((flipBurst (p ++ rest) k B).take p.length) ≠ 0 := by
  obtain ⟨p0, hp0, _, _, hacc, hdl, hcf⟩ := C04_ack_valid_passes a wf hc rest
  have : p0 = p := Except.ok.inj (hp0.symm.trans hpk)
  subst this
  obtain ⟨h1, h2, _, h4⟩ := C04_ack_burst_rejected_of_accepted _ _ _ k B hacc hcf
    (flip_packed p0 rest k B hin) hp (by rw [hdl]; exact hin) hav
  rw [h2, hdl] at h4
  exact ⟨h1, h4⟩

/-! ### Prompt -/

/-- **every valid CRC-flagged Prompt PDU passes**: it packs, the packed octets have residue zero and
    exactly `packet_len` octets — the length octets 1–3 declare —, and the decoder accepts them,
    whatever follows in the buffer -/
theorem C04_prompt_valid_passes (a : Prompt.Prompt) (wf : C06Fixed.WFPrompt a) (hc : a.fd.header.conf.crcFlag = 1) (rest : Bytes) :
    ∃ p, a.pack = .ok p ∧ crc16 p = 0 ∧ p.length = a.packetLen ∧ Prompt.Prompt.unpack (p ++ rest) = .ok a ∧
      cfdpDeclaredLen (p ++ rest) = p.length ∧ cfdpCrcFlag (p ++ rest) = 1 := by
  obtain ⟨hs, hz⟩ := (C06Fixed.C06_prompt_crc a).1 hc
  have hl := (C06Fixed.C06_prompt_len a wf).1
  obtain ⟨e1, e2⟩ := laid_out _ a.fd.header wf.2.1 (starts_of_crc hs) hl hc rest
  exact ⟨_, C06Fixed.C06_prompt_pack_exact a wf, hz, hl, C06Fixed.C06_prompt_roundtrip a wf rest, e1, e2⟩

/-- **acceptance implies CRC**: the Prompt decoder returns on a buffer with the CRC flag in octet 0 only
    if the declared PDU lies inside the buffer and has residue zero -/
theorem C04_prompt_accept_implies_crc (d : Bytes) (a : Prompt.Prompt) (h : Prompt.Prompt.unpack d = .ok a)
    (hc : cfdpCrcFlag d = 1) :
    cfdpDeclaredLen d ≤ d.length ∧ crc16 (d.take (cfdpDeclaredLen d)) = 0 :=
  prompt_runs.directive_accept_crc h hc

/-- **burst rejection, strongest form**: ANY buffer the Prompt decoder accepts, any admissible burst
    inside the declared PDU outside octets 0–3: `InvalidCrc`, never an object -/
theorem C04_prompt_burst_rejected_of_accepted (d d' : Bytes) (a : Prompt.Prompt) (k : Nat) (B : List Bool)
    (hacc : Prompt.Prompt.unpack d = .ok a) (hc : cfdpCrcFlag d = 1) (hb : Burst d d' k B) (hp : Pattern B)
    (hin : k + B.length ≤ 8 * cfdpDeclaredLen d) (hav : AvoidsFixedHeader k) :
    Prompt.Prompt.unpack d' = .error .crc ∧ cfdpDeclaredLen d' = cfdpDeclaredLen d ∧ cfdpCrcFlag d' = 1 ∧
    crc16 (d'.take (cfdpDeclaredLen d')) ≠ 0 :=
  prompt_runs.directive_reject hacc hc hb hp.1 hp.2 hin hav

/-- **burst rejection for packed PDUs** (the statement of the property): every valid CRC-flagged
    Prompt PDU, packed octets `p` followed by any `rest`, every admissible burst inside `p` outside
    octets 0–3 -/
theorem C04_prompt_burst_rejected (a : Prompt.Prompt) (wf : C06Fixed.WFPrompt a) (hc : a.fd.header.conf.crcFlag = 1)
    (p rest : Bytes) (k : Nat) (B : List Bool) (hpk : a.pack = .ok p) (hp : Pattern B)
    (hin : k + B.length ≤ 8 * p.length) (hav : AvoidsFixedHeader k) :
    Prompt.Prompt.unpack (flipBurst (p ++ rest) k B) = .error .crc ∧
    crc16 ((flipBurst (p ++ rest) k B).take p.length) ≠ 0 := by
  obtain ⟨p0, hp0, _, _, hacc, hdl, hcf⟩ := C04_prompt_valid_passes a wf hc rest
  have : p0 = p := Except.ok.inj (hp0.symm.trans hpk)
  subst this
  obtain ⟨h1, h2, _, h4⟩ := C04_prompt_burst_rejected_of_accepted _ _ _ k B hacc hcf
    (flip_packed p0 rest k B hin) hp (by rw [hdl]; exact hin) hav
  rw [h2, hdl] at h4
  exact ⟨h1, h4⟩

/-! ### Keep Alive -/

/-- **every valid CRC-flagged Keep Alive PDU passes**: it packs, the packed octets have residue zero and
    exactly `packet_len` octets — the length octets 1–3 declare —, and the decoder accepts them,
    whatever follows in the buffer -/
theorem C04_keepalive_valid_passes (a : KeepAlive.KeepAlive) (wf : C06Fixed.WFKeepAlive a) (hc : a.fd.header.conf.crcFlag = 1) (rest : Bytes) :
    ∃ p, a.pack = .ok p ∧ crc16 p = 0 ∧ p.length = a.packetLen ∧ KeepAlive.KeepAlive.unpack (p ++ rest) = .ok a ∧
      cfdpDeclaredLen (p ++ rest) = p.length ∧ cfdpCrcFlag (p ++ rest) = 1 := by
  obtain ⟨hs, hz⟩ := (C06Fixed.C06_keepalive_crc a).1 hc
  have hl := (C06Fixed.C06_keepalive_len a wf).1
  obtain ⟨e1, e2⟩ := laid_out _ a.fd.header wf.2.2.1 (starts_of_crc hs) hl hc rest
  exact ⟨_, C06Fixed.C06_keepalive_pack_exact a wf, hz, hl, C06Fixed.C06_keepalive_roundtrip a wf rest, e1, e2⟩

/-- **acceptance implies CRC**: the Keep Alive decoder returns on a buffer with the CRC flag in octet 0 only
    if the declared PDU lies inside the buffer and has residue zero -/
theorem C04_keepalive_accept_implies_crc (d : Bytes) (a : KeepAlive.KeepAlive) (h : KeepAlive.KeepAlive.unpack d = .ok a)
    (hc : cfdpCrcFlag d = 1) :
    cfdpDeclaredLen d ≤ d.length ∧ crc16 (d.take (cfdpDeclaredLen d)) = 0 :=
  keepalive_runs.directive_accept_crc h hc

/-- **burst rejection, strongest form**: ANY buffer the Keep Alive decoder accepts, any admissible burst
    inside the declared PDU outside octets 0–3: `InvalidCrc`, never an object -/
theorem C04_keepalive_burst_rejected_of_accepted (d d' : Bytes) (a : KeepAlive.KeepAlive) (k : Nat) (B : List Bool)
    (hacc : KeepAlive.KeepAlive.unpack d = .ok a) (hc : cfdpCrcFlag d = 1) (hb : Burst d d' k B) (hp : Pattern B)
    (hin : k + B.length ≤ 8 * cfdpDeclaredLen d) (hav : AvoidsFixedHeader k) :
    KeepAlive.KeepAlive.unpack d' = .error .crc ∧ cfdpDeclaredLen d' = cfdpDeclaredLen d ∧ cfdpCrcFlag d' = 1 ∧
    crc16 (d'.take (cfdpDeclaredLen d')) ≠ 0 :=
  keepalive_runs.directive_reject hacc hc hb hp.1 hp.2 hin hav

/-- **burst rejection for packed PDUs** (the statement of the property): every valid CRC-flagged
    Keep Alive PDU, packed octets `p` followed by any `rest`, every admissible burst inside `p` outside
    octets 0–3 -/
theorem C04_keepalive_burst_rejected (a : KeepAlive.KeepAlive) (wf : C06Fixed.WFKeepAlive a) (hc : a.fd.header.conf.crcFlag = 1)
    (p rest : Bytes) (k : Nat) (B : List Bool) (hpk : a.pack = .ok p) (hp : Pattern B)
    (hin : k + B.length ≤ 8 * p.length) (hav : AvoidsFixedHeader k) :
    KeepAlive.KeepAlive.unpack (flipBurst (p ++ rest) k B) = .error .crc ∧
    crc16 ((flipBurst (p ++ rest) k B).take p.length) ≠ 0 := by
  obtain ⟨p0, hp0, _, _, hacc, hdl, hcf⟩ := C04_keepalive_valid_passes a wf hc rest
  have : p0 = p := Except.ok.inj (hp0.symm.trans hpk)
  subst this
  obtain ⟨h1, h2, _, h4⟩ := C04_keepalive_burst_rejected_of_accepted _ _ _ k B hacc hcf
    (flip_packed p0 rest k B hin) hp (by rw [hdl]; exact hin) hav
  rw [h2, hdl] at h4
  exact ⟨h1, h4⟩

/-! ### EOF -/

/-- **every valid CRC-flagged EOF PDU passes**: it packs, the packed octets have residue zero and
    exactly `packet_len` octets — the length octets 1–3 declare —, and the decoder accepts them,
    whatever follows in the buffer -/
theorem C04_eof_valid_passes (a : Eof.Eof) (wf : C06Var.WFEof a) (hc : a.fd.header.conf.crcFlag = 1) (rest : Bytes) :
    ∃ p, a.pack = .ok p ∧ crc16 p = 0 ∧ p.length = a.packetLen ∧ Eof.Eof.unpack (p ++ rest) = .ok a ∧
      cfdpDeclaredLen (p ++ rest) = p.length ∧ cfdpCrcFlag (p ++ rest) = 1 := by
  obtain ⟨hs, hz⟩ := (C06Var.C06_eof_crc a).1 hc
  have hl := (C06Var.C06_eof_len a wf).1
  obtain ⟨e1, e2⟩ := laid_out _ a.fd.header wf.2.2.2.2.2.1 (starts_of_crc hs) hl hc rest
  exact ⟨_, C06Var.C06_eof_pack_exact a wf, hz, hl, C06Var.C06_eof_roundtrip a wf rest, e1, e2⟩

/-- **acceptance implies CRC**: the EOF decoder returns on a buffer with the CRC flag in octet 0 only
    if the declared PDU lies inside the buffer and has residue zero -/
theorem C04_eof_accept_implies_crc (d : Bytes) (a : Eof.Eof) (h : Eof.Eof.unpack d = .ok a)
    (hc : cfdpCrcFlag d = 1) :
    cfdpDeclaredLen d ≤ d.length ∧ crc16 (d.take (cfdpDeclaredLen d)) = 0 :=
  eof_runs.directive_accept_crc h hc

/-- **burst rejection, strongest form**: ANY buffer the EOF decoder accepts, any admissible burst
    inside the declared PDU outside octets 0–3: `InvalidCrc`, never an object -/
theorem C04_eof_burst_rejected_of_accepted (d d' : Bytes) (a : Eof.Eof) (k : Nat) (B : List Bool)
    (hacc : Eof.Eof.unpack d = .ok a) (hc : cfdpCrcFlag d = 1) (hb : Burst d d' k B) (hp : Pattern B)
    (hin : k + B.length ≤ 8 * cfdpDeclaredLen d) (hav : AvoidsFixedHeader k) :
    Eof.Eof.unpack d' = .error .crc ∧ cfdpDeclaredLen d' = cfdpDeclaredLen d ∧ cfdpCrcFlag d' = 1 ∧
    crc16 (d'.take (cfdpDeclaredLen d')) ≠ 0 :=
  eof_runs.directive_reject hacc hc hb hp.1 hp.2 hin hav

/-- **burst rejection for packed PDUs** (the statement of the property): every valid CRC-flagged
    EOF PDU, packed octets `p` followed by any `rest`, every admissible burst inside `p` outside
    octets 0–3 -/
theorem C04_eof_burst_rejected (a : Eof.Eof) (wf : C06Var.WFEof a) (hc : a.fd.header.conf.crcFlag = 1)
    (p rest : Bytes) (k : Nat) (B : List Bool) (hpk : a.pack = .ok p) (hp : Pattern B)
    (hin : k + B.length ≤ 8 * p.length) (hav : AvoidsFixedHeader k) :
    Eof.Eof.unpack (flipBurst (p ++ rest) k B) = .error .crc ∧
    crc16 ((flipBurst (p ++ rest) k B).take p.length) ≠ 0 := by
  obtain ⟨p0, hp0, _, _, hacc, hdl, hcf⟩ := C04_eof_valid_passes a wf hc rest
  have : p0 = p := Except.ok.inj (hp0.symm.trans hpk)
  subst this
  obtain ⟨h1, h2, _, h4⟩ := C04_eof_burst_rejected_of_accepted _ _ _ k B hacc hcf
    (flip_packed p0 rest k B hin) hp (by rw [hdl]; exact hin) hav
  rw [h2, hdl] at h4
  exact ⟨h1, h4⟩

/-! ### Finished -/

/-- **every valid CRC-flagged Finished PDU passes**: it packs, the packed octets have residue zero and
    exactly `packet_len` octets — the length octets 1–3 declare —, and the decoder accepts them,
    whatever follows in the buffer -/
theorem C04_finished_valid_passes (a : Finished.Finished) (wf : C06Var.WFFin a) (hc : a.fd.header.conf.crcFlag = 1) (rest : Bytes) :
    ∃ p, a.pack = .ok p ∧ crc16 p = 0 ∧ p.length = a.packetLen ∧ Finished.Finished.unpack (p ++ rest) = .ok a ∧
      cfdpDeclaredLen (p ++ rest) = p.length ∧ cfdpCrcFlag (p ++ rest) = 1 := by
  obtain ⟨hs, hz⟩ := (C06Var.C06_finished_crc a).1 hc
  have hl := (C06Var.C06_finished_len a wf).1
  obtain ⟨e1, e2⟩ := laid_out _ a.fd.header wf.2.2.2.2.2.2.2.1 (starts_of_crc hs) hl hc rest
  exact ⟨_, C06Var.C06_finished_pack_exact a wf, hz, hl, C06Var.C06_finished_roundtrip a wf rest, e1, e2⟩

/-- **acceptance implies CRC**: the Finished decoder returns on a buffer with the CRC flag in octet 0 only
    if the declared PDU lies inside the buffer and has residue zero -/
theorem C04_finished_accept_implies_crc (d : Bytes) (a : Finished.Finished) (h : Finished.Finished.unpack d = .ok a)
    (hc : cfdpCrcFlag d = 1) :
    cfdpDeclaredLen d ≤ d.length ∧ crc16 (d.take (cfdpDeclaredLen d)) = 0 :=
  finished_runs.directive_accept_crc h hc

/-- **burst rejection, strongest form**: ANY buffer the Finished decoder accepts, any admissible burst
    inside the declared PDU outside octets 0–3: `InvalidCrc`, never an object -/
theorem C04_finished_burst_rejected_of_accepted (d d' : Bytes) (a : Finished.Finished) (k : Nat) (B : List Bool)
    (hacc : Finished.Finished.unpack d = .ok a) (hc : cfdpCrcFlag d = 1) (hb : Burst d d' k B) (hp : Pattern B)
    (hin : k + B.length ≤ 8 * cfdpDeclaredLen d) (hav : AvoidsFixedHeader k) :
    Finished.Finished.unpack d' = .error .crc ∧ cfdpDeclaredLen d' = cfdpDeclaredLen d ∧ cfdpCrcFlag d' = 1 ∧
    crc16 (d'.take (cfdpDeclaredLen d')) ≠ 0 :=
  finished_runs.directive_reject hacc hc hb hp.1 hp.2 hin hav

/-- **burst rejection for packed PDUs** (the statement of the property): every valid CRC-flagged
    Finished PDU, packed octets `p` followed by any `rest`, every admissible burst inside `p` outside
    octets 0–3 -/
theorem C04_finished_burst_rejected (a : Finished.Finished) (wf : C06Var.WFFin a) (hc : a.fd.header.conf.crcFlag = 1)
    (p rest : Bytes) (k : Nat) (B : List Bool) (hpk : a.pack = .ok p) (hp : Pattern B)
    (hin : k + B.length ≤ 8 * p.length) (hav : AvoidsFixedHeader k) :
    Finished.Finished.unpack (flipBurst (p ++ rest) k B) = .error .crc ∧
    crc16 ((flipBurst (p ++ rest) k B).take p.length) ≠ 0 := by
  obtain ⟨p0, hp0, _, _, hacc, hdl, hcf⟩ := C04_finished_valid_passes a wf hc rest
  have : p0 = p := Except.ok.inj (hp0.symm.trans hpk)
  subst this
  obtain ⟨h1, h2, _, h4⟩ := C04_finished_burst_rejected_of_accepted _ _ _ k B hacc hcf
    (flip_packed p0 rest k B hin) hp (by rw [hdl]; exact hin) hav
  rw [h2, hdl] at h4
  exact ⟨h1, h4⟩

/-! ### Metadata -/

/-- **every valid CRC-flagged Metadata PDU passes**: it packs, the packed octets have residue zero and
    exactly `packet_len` octets — the length octets 1–3 declare —, and the decoder accepts them,
    whatever follows in the buffer -/
theorem C04_metadata_valid_passes (a : Metadata.Metadata) (wf : C06Var.WFMd a) (hc : a.fd.header.conf.crcFlag = 1) (rest : Bytes) :
    ∃ p, a.pack = .ok p ∧ crc16 p = 0 ∧ p.length = a.packetLen ∧ Metadata.Metadata.unpack (p ++ rest) = .ok (C06Var.normMd a) ∧
      cfdpDeclaredLen (p ++ rest) = p.length ∧ cfdpCrcFlag (p ++ rest) = 1 := by
  obtain ⟨hs, hz⟩ := (C06Var.C06_metadata_crc a).1 hc
  have hl := (C06Var.C06_metadata_len a wf).1
  obtain ⟨e1, e2⟩ := laid_out _ a.fd.header wf.2.2.2.2.2.1 (starts_of_crc hs) hl hc rest
  exact ⟨_, C06Var.C06_metadata_pack_exact a wf, hz, hl, C06Var.C06_metadata_roundtrip a wf rest, e1, e2⟩

/-- **acceptance implies CRC**: the Metadata decoder returns on a buffer with the CRC flag in octet 0 only
    if the declared PDU lies inside the buffer and has residue zero -/
theorem C04_metadata_accept_implies_crc (d : Bytes) (a : Metadata.Metadata) (h : Metadata.Metadata.unpack d = .ok a)
    (hc : cfdpCrcFlag d = 1) :
    cfdpDeclaredLen d ≤ d.length ∧ crc16 (d.take (cfdpDeclaredLen d)) = 0 :=
  metadata_runs.directive_accept_crc h hc

/-- **burst rejection, strongest form**: ANY buffer the Metadata decoder accepts, any admissible burst
    inside the declared PDU outside octets 0–3: `InvalidCrc`, never an object -/
theorem C04_metadata_burst_rejected_of_accepted (d d' : Bytes) (a : Metadata.Metadata) (k : Nat) (B : List Bool)
    (hacc : Metadata.Metadata.unpack d = .ok a) (hc : cfdpCrcFlag d = 1) (hb : Burst d d' k B) (hp : Pattern B)
    (hin : k + B.length ≤ 8 * cfdpDeclaredLen d) (hav : AvoidsFixedHeader k) :
    Metadata.Metadata.unpack d' = .error .crc ∧ cfdpDeclaredLen d' = cfdpDeclaredLen d ∧ cfdpCrcFlag d' = 1 ∧
    crc16 (d'.take (cfdpDeclaredLen d')) ≠ 0 :=
  metadata_runs.directive_reject hacc hc hb hp.1 hp.2 hin hav

/-- **burst rejection for packed PDUs** (the statement of the property): every valid CRC-flagged
    Metadata PDU, packed octets `p` followed by any `rest`, every admissible burst inside `p` outside
    octets 0–3 -/
theorem C04_metadata_burst_rejected (a : Metadata.Metadata) (wf : C06Var.WFMd a) (hc : a.fd.header.conf.crcFlag = 1)
    (p rest : Bytes) (k : Nat) (B : List Bool) (hpk : a.pack = .ok p) (hp : Pattern B)
    (hin : k + B.length ≤ 8 * p.length) (hav : AvoidsFixedHeader k) :
    Metadata.Metadata.unpack (flipBurst (p ++ rest) k B) = .error .crc ∧
    crc16 ((flipBurst (p ++ rest) k B).take p.length) ≠ 0 := by
  obtain ⟨p0, hp0, _, _, hacc, hdl, hcf⟩ := C04_metadata_valid_passes a wf hc rest
  have : p0 = p := Except.ok.inj (hp0.symm.trans hpk)
  subst this
  obtain ⟨h1, h2, _, h4⟩ := C04_metadata_burst_rejected_of_accepted _ _ _ k B hacc hcf
    (flip_packed p0 rest k B hin) hp (by rw [hdl]; exact hin) hav
  rw [h2, hdl] at h4
  exact ⟨h1, h4⟩

/-! ### NAK (its decoder refuses octets after the declared PDU by design: the PDU alone) -/

/-- **every valid CRC-flagged NAK PDU passes** -/
theorem C04_nak_valid_passes (a : Nak.Nak) (wf : C06Fixed.WFNak a) (hc : a.fd.header.conf.crcFlag = 1) :
    ∃ p, a.pack = .ok p ∧ crc16 p = 0 ∧ p.length = a.packetLen ∧ Nak.Nak.unpack p = .ok a ∧
      cfdpDeclaredLen p = p.length ∧ cfdpCrcFlag p = 1 := by
  obtain ⟨hs, hz⟩ := (C06Fixed.C06_nak_crc a).1 hc
  have hl := (C06Fixed.C06_nak_len a wf).1
  obtain ⟨e1, e2⟩ := laid_out _ a.fd.header wf.2.2.2.1 (starts_of_crc hs) hl hc []
  rw [List.append_nil] at e1 e2
  exact ⟨_, C06Fixed.C06_nak_pack_exact a wf, hz, hl, C06Fixed.C06_nak_roundtrip a wf, e1, e2⟩

/-- **acceptance implies CRC** (the NAK decoder moreover accepts only `d` of exactly the declared length) -/
theorem C04_nak_accept_implies_crc (d : Bytes) (a : Nak.Nak) (h : Nak.Nak.unpack d = .ok a)
    (hc : cfdpCrcFlag d = 1) :
    cfdpDeclaredLen d ≤ d.length ∧ crc16 (d.take (cfdpDeclaredLen d)) = 0 :=
  nak_runs.directive_accept_crc h hc

theorem C04_nak_burst_rejected_of_accepted (d d' : Bytes) (a : Nak.Nak) (k : Nat) (B : List Bool)
    (hacc : Nak.Nak.unpack d = .ok a) (hc : cfdpCrcFlag d = 1) (hb : Burst d d' k B) (hp : Pattern B)
    (hin : k + B.length ≤ 8 * cfdpDeclaredLen d) (hav : AvoidsFixedHeader k) :
    Nak.Nak.unpack d' = .error .crc ∧ cfdpDeclaredLen d' = cfdpDeclaredLen d ∧ cfdpCrcFlag d' = 1 ∧
    crc16 (d'.take (cfdpDeclaredLen d')) ≠ 0 :=
  nak_runs.directive_reject hacc hc hb hp.1 hp.2 hin hav

theorem C04_nak_burst_rejected (a : Nak.Nak) (wf : C06Fixed.WFNak a) (hc : a.fd.header.conf.crcFlag = 1)
    (p : Bytes) (k : Nat) (B : List Bool) (hpk : a.pack = .ok p) (hp : Pattern B)
    (hin : k + B.length ≤ 8 * p.length) (hav : AvoidsFixedHeader k) :
    Nak.Nak.unpack (flipBurst p k B) = .error .crc ∧ crc16 (flipBurst p k B) ≠ 0 := by
  obtain ⟨p0, hp0, _, _, hacc, hdl, hcf⟩ := C04_nak_valid_passes a wf hc
  have : p0 = p := Except.ok.inj (hp0.symm.trans hpk)
  subst this
  obtain ⟨h1, h2, _, h4⟩ := C04_nak_burst_rejected_of_accepted _ _ _ k B hacc hcf
    (flipBurst_spec p0 k B hin) hp (by rw [hdl]; exact hin) hav
  rw [h2, hdl, ← flipBurst_length p0 k B, List.take_length] at h4
  exact ⟨h1, h4⟩

/-! ### File Data -/

/-- **every valid CRC-flagged File Data PDU passes** (any segment metadata, empty file data included) -/
theorem C04_filedata_valid_passes (x : FileData.Pdu) (wf : C07.WF x) (hc : x.header.conf.crcFlag = 1)
    (rest : Bytes) :
    ∃ p, x.pack = .ok p ∧ crc16 p = 0 ∧ p.length = x.packetLen ∧ FileData.Pdu.unpack (p ++ rest) = .ok x ∧
      cfdpDeclaredLen (p ++ rest) = p.length ∧ cfdpCrcFlag (p ++ rest) = 1 := by
  have hl := (C07.C07_len x wf).1
  have hS : ∃ A, C07.Spec.octets x = C05.Spec.octets x.header ++ A :=
    ⟨_, by simp only [C07.Spec.octets, C07.Spec.body, List.append_assoc]; rfl⟩
  obtain ⟨e1, e2⟩ := laid_out _ x.header wf.1 hS hl hc rest
  exact ⟨_, C07.C07_pack_exact x wf, C07.C07_crc_valid x hc, hl, C07.C07_roundtrip x wf rest, e1, e2⟩

theorem C04_filedata_accept_implies_crc (d : Bytes) (x : FileData.Pdu) (h : FileData.Pdu.unpack d = .ok x)
    (hc : cfdpCrcFlag d = 1) :
    cfdpDeclaredLen d ≤ d.length ∧ crc16 (d.take (cfdpDeclaredLen d)) = 0 :=
  runsFirst_fileData.plain_accept_crc h hc

theorem C04_filedata_burst_rejected_of_accepted (d d' : Bytes) (x : FileData.Pdu) (k : Nat) (B : List Bool)
    (hacc : FileData.Pdu.unpack d = .ok x) (hc : cfdpCrcFlag d = 1) (hb : Burst d d' k B) (hp : Pattern B)
    (hin : k + B.length ≤ 8 * cfdpDeclaredLen d) (hav : AvoidsFixedHeader k) :
    FileData.Pdu.unpack d' = .error .crc ∧ cfdpDeclaredLen d' = cfdpDeclaredLen d ∧ cfdpCrcFlag d' = 1 ∧
    crc16 (d'.take (cfdpDeclaredLen d')) ≠ 0 :=
  runsFirst_fileData.plain_reject hacc hc hb hp.1 hp.2 hin hav

theorem C04_filedata_burst_rejected (x : FileData.Pdu) (wf : C07.WF x) (hc : x.header.conf.crcFlag = 1)
    (p rest : Bytes) (k : Nat) (B : List Bool) (hpk : x.pack = .ok p) (hp : Pattern B)
    (hin : k + B.length ≤ 8 * p.length) (hav : AvoidsFixedHeader k) :
    FileData.Pdu.unpack (flipBurst (p ++ rest) k B) = .error .crc ∧
    crc16 ((flipBurst (p ++ rest) k B).take p.length) ≠ 0 := by
  obtain ⟨p0, hp0, _, _, hacc, hdl, hcf⟩ := C04_filedata_valid_passes x wf hc rest
  have : p0 = p := Except.ok.inj (hp0.symm.trans hpk)
  subst this
  obtain ⟨h1, h2, _, h4⟩ := C04_filedata_burst_rejected_of_accepted _ _ _ k B hacc hcf
    (flip_packed p0 rest k B hin) hp (by rw [hdl]; exact hin) hav
  rw [h2, hdl] at h4
  exact ⟨h1, h4⟩

/-! ## 4. uniformly over the eight kinds: `Factory.decoderOf` and `PduFactory.from_raw` -/

/-- **acceptance implies CRC**, whichever decoder of the factory's table returned -/
theorem C04_any_accept_implies_crc (kd : Kind) (d : Bytes) (p : AnyPdu) (h : decoderOf kd d = .ok p)
    (hc : cfdpCrcFlag d = 1) :
    cfdpDeclaredLen d ≤ d.length ∧ crc16 (d.take (cfdpDeclaredLen d)) = 0 := by
  obtain ⟨hd, hf⟩ := decoderOf_accept_front h
  exact (front_accept_crc hf hc).2

/-- **burst rejection for any kind**: a buffer accepted by the decoder of kind `kd`, corrupted by an
    admissible burst inside the declared PDU outside octets 0–3: the same decoder fails with
    `InvalidCrc`, and NO decoder of the table (of whatever kind) returns an object -/
theorem C04_any_burst_rejected_of_accepted (kd : Kind) (d d' : Bytes) (p : AnyPdu) (k : Nat) (B : List Bool)
    (hacc : decoderOf kd d = .ok p) (hc : cfdpCrcFlag d = 1) (hb : Burst d d' k B) (hp : Pattern B)
    (hin : k + B.length ≤ 8 * cfdpDeclaredLen d) (hav : AvoidsFixedHeader k) :
    decoderOf kd d' = .error .crc ∧ (∀ kd' q, decoderOf kd' d' ≠ .ok q) ∧
    cfdpDeclaredLen d' = cfdpDeclaredLen d ∧ cfdpCrcFlag d' = 1 ∧ crc16 (d'.take (cfdpDeclaredLen d')) ≠ 0 := by
  obtain ⟨hd, hf⟩ := decoderOf_accept_front hacc
  have hfr := burst_front_crc hf hc hb hp.1 hp.2 hin hav
  have hall : ∀ kd' q, decoderOf kd' d' ≠ .ok q := by
    intro kd' q hq
    obtain ⟨_, hf'⟩ := decoderOf_accept_front hq
    rw [hfr] at hf'; cases hf'
  by_cases hk : kd = .fileData
  · obtain ⟨h1, h2⟩ := ((decoderOf_runsFirst kd).1 hk).plain_reject hacc hc hb hp.1 hp.2 hin hav
    exact ⟨h1, hall, h2⟩
  · obtain ⟨h1, h2⟩ := ((decoderOf_runsFirst kd).2 hk).directive_reject hacc hc hb hp.1 hp.2 hin hav
    exact ⟨h1, hall, h2⟩

/-- **every valid CRC-flagged PDU of every kind passes through the factory**: `p` of the C12 domain
    (the C06 / C07 domains, kind by kind) with the CRC flag: it packs, residue zero, exactly the declared
    length, and `from_raw` on the packed octets followed by anything (NAK: nothing) returns the PDU
    (`norm`: Metadata options come back as generic TLVs, everything else is the object itself) -/
theorem C04_factory_valid_passes (p : AnyPdu) (wf : C12.WFPdu p) (hc : (C12.headerOf p).conf.crcFlag = 1)
    (rest : Bytes) (hr : C12.refusesTrailing p = true → rest = []) :
    ∃ o, p.pack = .ok o ∧ crc16 o = 0 ∧ o.length = p.packetLen ∧
      fromRaw (o ++ rest) = .ok (some (C12.norm p)) ∧
      cfdpDeclaredLen (o ++ rest) = o.length ∧ cfdpCrcFlag (o ++ rest) = 1 := by
  have hd := C12.C12_dispatch p wf rest
  have hne : ¬ (C12.refusesTrailing p = true ∧ rest ≠ []) := fun ⟨h1, h2⟩ => h2 (hr h1)
  rw [if_neg hne] at hd
  have hpk := C12.C12_pack_exact p wf
  cases p with
  | fileData x =>
    obtain ⟨o, h1, h2, h3, _, h5, h6⟩ := C04_filedata_valid_passes x wf.1 hc rest
    have : o = C12.Spec.octets (.fileData x) := Except.ok.inj (h1.symm.trans hpk)
    subst this
    exact ⟨_, hpk, h2, h3, hd, h5, h6⟩
  | ack x =>
    obtain ⟨o, h1, h2, h3, _, h5, h6⟩ := C04_ack_valid_passes x wf hc rest
    have : o = C12.Spec.octets (.ack x) := Except.ok.inj (h1.symm.trans hpk)
    subst this
    exact ⟨_, hpk, h2, h3, hd, h5, h6⟩
  | prompt x =>
    obtain ⟨o, h1, h2, h3, _, h5, h6⟩ := C04_prompt_valid_passes x wf hc rest
    have : o = C12.Spec.octets (.prompt x) := Except.ok.inj (h1.symm.trans hpk)
    subst this
    exact ⟨_, hpk, h2, h3, hd, h5, h6⟩
  | keepAlive x =>
    obtain ⟨o, h1, h2, h3, _, h5, h6⟩ := C04_keepalive_valid_passes x wf hc rest
    have : o = C12.Spec.octets (.keepAlive x) := Except.ok.inj (h1.symm.trans hpk)
    subst this
    exact ⟨_, hpk, h2, h3, hd, h5, h6⟩
  | eof x =>
    obtain ⟨o, h1, h2, h3, _, h5, h6⟩ := C04_eof_valid_passes x wf hc rest
    have : o = C12.Spec.octets (.eof x) := Except.ok.inj (h1.symm.trans hpk)
    subst this
    exact ⟨_, hpk, h2, h3, hd, h5, h6⟩
  | finished x =>
    obtain ⟨o, h1, h2, h3, _, h5, h6⟩ := C04_finished_valid_passes x wf hc rest
    have : o = C12.Spec.octets (.finished x) := Except.ok.inj (h1.symm.trans hpk)
    subst this
    exact ⟨_, hpk, h2, h3, hd, h5, h6⟩
  | metadata x =>
    obtain ⟨o, h1, h2, h3, _, h5, h6⟩ := C04_metadata_valid_passes x wf hc rest
    have : o = C12.Spec.octets (.metadata x) := Except.ok.inj (h1.symm.trans hpk)
    subst this
    exact ⟨_, hpk, h2, h3, hd, h5, h6⟩
  | nak x =>
    have hrest : rest = [] := hr rfl
    subst hrest
    obtain ⟨o, h1, h2, h3, _, h5, h6⟩ := C04_nak_valid_passes x wf hc
    have : o = C12.Spec.octets (.nak x) := Except.ok.inj (h1.symm.trans hpk)
    subst this
    rw [List.append_nil] at hd
    refine ⟨_, hpk, h2, h3, ?_, ?_, ?_⟩ <;> rw [List.append_nil] <;> assumption

/-- **acceptance implies CRC for the factory**: a PDU object out of `from_raw` on a buffer with the
    CRC flag means residue zero over exactly the declared PDU, which lies inside the buffer -/
theorem C04_factory_accept_implies_crc (d : Bytes) (p : AnyPdu) (h : fromRaw d = .ok (some p))
    (hc : cfdpCrcFlag d = 1) :
    cfdpDeclaredLen d ≤ d.length ∧ crc16 (d.take (cfdpDeclaredLen d)) = 0 := by
  obtain ⟨kd, hk⟩ := fromRaw_some_inv h
  exact C04_any_accept_implies_crc kd d p hk hc

/-- **burst rejection through the factory, strongest form**: ANY buffer for which `from_raw` returns a
    PDU object, with the CRC flag, corrupted by an admissible burst inside the declared PDU outside
    octets 0–3: `from_raw` never returns a PDU object. What it does instead: `InvalidCrc` from the
    selected decoder; or — only when the burst changed the directive octet, which the factory reads
    before any decoder runs — `ValueError` (no such directive) or `None` (`DirectiveType.NONE`). All
    documented. -/
theorem C04_factory_burst_rejected_of_accepted (d d' : Bytes) (p : AnyPdu) (k : Nat) (B : List Bool)
    (hacc : fromRaw d = .ok (some p)) (hc : cfdpCrcFlag d = 1) (hb : Burst d d' k B) (hp : Pattern B)
    (hin : k + B.length ≤ 8 * cfdpDeclaredLen d) (hav : AvoidsFixedHeader k) :
    (∀ q, fromRaw d' ≠ .ok (some q)) ∧
    (fromRaw d' = .error .crc ∨ fromRaw d' = .error .value ∨ fromRaw d' = .ok none) ∧
    Documented (fromRaw d') ∧
    cfdpDeclaredLen d' = cfdpDeclaredLen d ∧ crc16 (d'.take (cfdpDeclaredLen d')) ≠ 0 := by
  obtain ⟨kd, hk⟩ := fromRaw_some_inv hacc
  obtain ⟨hd, hf⟩ := decoderOf_accept_front hk
  obtain ⟨h', hu', _, _, _, hv', _⟩ := burst_verify_crc hf hc hb hp.1 hp.2 hin hav
  obtain ⟨hpf, hdf⟩ := fronts_crc_of_verify hu' hv'
  obtain ⟨e1, _, e3⟩ := burst_declared hf hc hb hp.1 hp.2 hin hav
  have hnever : ∀ q, fromRaw d' ≠ .ok (some q) := by
    intro q hq
    obtain ⟨kd', hk'⟩ := fromRaw_some_inv hq
    obtain ⟨_, hf'⟩ := decoderOf_accept_front hk'
    rw [hpf] at hf'; cases hf'
  refine ⟨hnever, ?_, fromRaw_documented d', e1, e3⟩
  by_cases ht : h'.pduType = 0
  · by_cases hl : h'.headerLen < d'.length
    · rw [(fromRaw_directive d' h' hu' ht _ (idx_ok hl)).2, directiveOf_eq]
      split
      · rcases dispatch_crc (hdf hl) (some d'[h'.headerLen].toNat) with h | h
        · exact Or.inl h
        · exact Or.inr (Or.inr h)
      · exact Or.inr (Or.inl rfl)
    · rw [fromRaw_of_header d' h' hu', if_neg (by omega), if_pos (by omega)]
      exact Or.inr (Or.inl rfl)
  · rw [fromRaw_of_header d' h' hu', if_pos ht]
    exact Or.inl (decodeAs_crc_fileData hpf)

/-- **… and when the burst leaves the directive octet alone** (always the case for File Data, whose
    type bit sits in octet 0; for a directive: the window does not meet the octet right behind the
    header, at index `cfdpHeaderLen d`): the factory fails with `InvalidCrc` -/
theorem C04_factory_burst_crc_error (d d' : Bytes) (p : AnyPdu) (k : Nat) (B : List Bool)
    (hacc : fromRaw d = .ok (some p)) (hc : cfdpCrcFlag d = 1) (hb : Burst d d' k B) (hp : Pattern B)
    (hin : k + B.length ≤ 8 * cfdpDeclaredLen d) (hav : AvoidsFixedHeader k)
    (hoct : p.kind = .fileData ∨ 8 * cfdpHeaderLen d + 7 < k ∨ k + B.length ≤ 8 * cfdpHeaderLen d) :
    fromRaw d' = .error .crc := by
  obtain ⟨kd, hk⟩ := fromRaw_some_inv hacc
  obtain ⟨hd, hf⟩ := decoderOf_accept_front hk
  obtain ⟨hu, _, _⟩ := (pduFront_ok_iff d hd).mp hf
  obtain ⟨h', hu', _, hhl, _, hv', _⟩ := burst_verify_crc hf hc hb hp.1 hp.2 hin hav
  obtain ⟨hpf, hdf⟩ := fronts_crc_of_verify hu' hv'
  have ht : h'.pduType = hd.pduType := by
    have h1 := pduType_of_header d' h' hu'
    have h2 := pduType_of_header d hd hu
    rw [pduType_congr (burst_fixed hb hav 0 (by omega)), h2] at h1
    exact (Except.ok.inj h1).symm
  have hsound := fromRaw_sound d p hacc
  by_cases h0 : hd.pduType = 0
  · -- a file directive: the directive octet selected the decoder, and it is unchanged
    have hkind : p.kind ≠ .fileData := by
      intro hkf
      have h3 := hsound.2.2
      rw [pduDirectiveType_of_header d hd hu, if_neg (by omega), hkf] at h3
      split at h3
      · cases h3
      · rename_i hl
        rw [idx_ok (by omega : hd.headerLen < d.length)] at h3
        change directiveOf _ = _ at h3
        rw [directiveOf_eq] at h3
        split at h3 <;> cases h3
    have hwin : 8 * cfdpHeaderLen d + 7 < k ∨ k + B.length ≤ 8 * cfdpHeaderLen d := by
      rcases hoct with h | h
      · exact absurd h hkind
      · exact h
    have hlen : hd.headerLen < d.length := by
      by_cases hl : hd.headerLen < d.length
      · exact hl
      · rw [fromRaw_of_header d hd hu, if_neg (by omega), if_pos (by omega)] at hacc; cases hacc
    have hHL : hd.headerLen = cfdpHeaderLen d := (unpack_fixed hu).2.2.1
    have hi : idx d' h'.headerLen = idx d hd.headerLen := by
      rw [hhl]; exact idx_congr (hb.getElem?_eq _ (by rw [hHL]; exact hwin))
    obtain ⟨c, hci⟩ : ∃ c, idx d hd.headerLen = .ok c := ⟨_, idx_ok hlen⟩
    have hA := (fromRaw_directive d hd hu h0 c hci).2
    have hB := (fromRaw_directive d' h' hu' (by rw [ht]; exact h0) c (by rw [hi]; exact hci)).2
    rw [hA] at hacc
    rw [hB]
    cases hdo : directiveOf c with
    | error e => rw [hdo] at hacc; cases hacc
    | ok dir =>
      rw [hdo] at hacc
      change dispatch dir d = _ at hacc
      obtain ⟨kk, hkk, hall⟩ := dispatch_some_inv hacc
      show dispatch dir d' = _
      rw [hall d']
      exact decodeAs_crc_directive hkk (hdf (by rw [hhl, hb.length_eq]; exact hlen))
  · rw [fromRaw_of_header d' h' hu', if_pos (by rw [ht]; exact h0)]
    exact decodeAs_crc_fileData hpf

/-- **burst rejection for packed PDUs through the factory** (the statement of the property): every
    valid CRC-flagged PDU of every kind, packed octets `o` followed by any `rest` (NAK: nothing), every
    admissible burst inside `o` outside octets 0–3: `from_raw` never returns a PDU object; its answer
    is documented; the CRC over the (unchanged) declared length is non-zero -/
theorem C04_factory_burst_rejected (p : AnyPdu) (wf : C12.WFPdu p) (hc : (C12.headerOf p).conf.crcFlag = 1)
    (o rest : Bytes) (hr : C12.refusesTrailing p = true → rest = []) (k : Nat) (B : List Bool)
    (hpk : p.pack = .ok o) (hp : Pattern B) (hin : k + B.length ≤ 8 * o.length) (hav : AvoidsFixedHeader k) :
    (∀ q, fromRaw (flipBurst (o ++ rest) k B) ≠ .ok (some q)) ∧
    (fromRaw (flipBurst (o ++ rest) k B) = .error .crc ∨ fromRaw (flipBurst (o ++ rest) k B) = .error .value ∨
      fromRaw (flipBurst (o ++ rest) k B) = .ok none) ∧
    Documented (fromRaw (flipBurst (o ++ rest) k B)) ∧
    crc16 ((flipBurst (o ++ rest) k B).take o.length) ≠ 0 := by
  obtain ⟨o0, hp0, _, _, hacc, hdl, hcf⟩ := C04_factory_valid_passes p wf hc rest hr
  have : o0 = o := Except.ok.inj (hp0.symm.trans hpk)
  subst this
  obtain ⟨h1, h2, h3, h4, h5⟩ := C04_factory_burst_rejected_of_accepted _ _ _ k B hacc hcf
    (flip_packed o0 rest k B hin) hp (by rw [hdl]; exact hin) hav
  rw [h4, hdl] at h5
  exact ⟨h1, h2, h3, h5⟩

/-- single-bit flips are the special case `B = [true]`: any bit from bit 32 on inside the packed PDU -/
theorem C04_factory_bit_flip_rejected (p : AnyPdu) (wf : C12.WFPdu p) (hc : (C12.headerOf p).conf.crcFlag = 1)
    (o : Bytes) (k : Nat) (hpk : p.pack = .ok o) (hlo : 32 ≤ k) (hhi : k < 8 * o.length) :
    (∀ q, fromRaw (flipBurst o k [true]) ≠ .ok (some q)) ∧ Documented (fromRaw (flipBurst o k [true])) ∧
    crc16 (flipBurst o k [true]) ≠ 0 := by
  obtain ⟨h1, _, h3, h4⟩ := C04_factory_burst_rejected p wf hc o [] (fun _ => rfl) k [true] hpk (by decide)
    (by simp only [List.length_singleton]; omega) hlo
  rw [List.append_nil] at h1 h3 h4
  rw [← flipBurst_length o k [true], List.take_length] at h4
  exact ⟨h1, h3, h4⟩

/-! ## non-vacuity: concrete CRC-flagged PDUs in the domains, concrete admissible bursts -/

-- an ACK of an EOF PDU with the CRC flag, 2-octet entity IDs and sequence number
def exAck : Ack.Ack := ⟨⟨⟨0, 0, 5, ⟨⟨2, 1⟩, ⟨2, 2⟩, ⟨2, 3⟩, 1, 0, 1, 1, 0⟩⟩, 6⟩, 4, 0, 2, 1⟩

example : C06Fixed.WFAck exAck ∧ exAck.fd.header.conf.crcFlag = 1 ∧ C12.WFPdu (.ack exAck) ∧
    (C12.headerOf (.ack exAck)).conf.crcFlag = 1 := by decide

-- its 15 packed octets: bit 32 is the first bit behind the fixed header, bit 119 the last CRC bit
example : (C06Fixed.Spec.ack exAck).length = 15 ∧ Pattern [true] ∧ AvoidsFixedHeader 32 ∧
    32 + 1 ≤ 8 * 15 ∧ AvoidsFixedHeader 119 ∧ 119 + 1 ≤ 8 * 15 := by decide

-- a CRC-flagged File Data PDU (C07's example with segment metadata) satisfies the hypotheses
example : C07.WF C07.exA ∧ C07.exA.header.conf.crcFlag = 1 ∧ C12.WFPdu (.fileData C07.exA) ∧
    Pattern [true, false, true] ∧ AvoidsFixedHeader 32 := by decide

end SpVerif.Props.C04Pdu
