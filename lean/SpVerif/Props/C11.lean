import SpVerif.Proofs.Mutation
import SpVerif.Props.C02
import SpVerif.Props.C03
import SpVerif.Props.C06Fixed
import SpVerif.Props.C06Var
import SpVerif.Props.C08
import SpVerif.Props.C07
import SpVerif.Props.C17
/-!
# C11 — lengths track mutations, pack is repeatable, caller inputs are not modified

Property theorems only, over the setter state machines of `Model/Mutation.lean` (which wrap the
very models the owning properties C02/C03/C06/C07/C17 are about). For every mutable class `K`:

* `KInv` — the cached length (and flags) agree with the field values,
* `C11_K_init` — the constructor establishes it, `C11_K_step` — every setter call keeps it, whether
  accepted or refused (a refused call changes nothing), `C11_K_reach` — so does every finite sequence,
* `C11_K_pack_len` — under the invariant, whenever `pack` returns: number of octets = reported
  length, and the length field inside the octets is what the format requires,
* `C11_K_fresh` — after any sequence the object IS the freshly constructed object with the same
  final values (so it packs to the same octets and compares equal),
* `C11_K_pack_idem` — packing again gives the same octets and the same post-state; only caches
  differ between pre- and post-state and `==` never looks at them,
* `C11_conf_untouched` — what the caller's configuration looks like after a constructor call
  (*partial*: trivial in a functional model; aliasing is carried by the tie).

No bound on the length of the sequence or the size of any argument.
-/
namespace SpVerif.Props.C11
open SpVerif SpVerif.Mutation

variable {S O : Type}

/-- **reachability principle**: a predicate kept by every single setter call (accepted or refused)
    holds after every finite sequence of calls -/
theorem C11_reach (m : Machine S O) (Inv : S → Prop) (hstep : ∀ s o, Inv s → Inv (m.step s o).1)
    (s : S) (ops : List O) (h : Inv s) : Inv (m.run s ops) := by
  induction ops generalizing s with
  | nil => exact h
  | cons o rest ih => exact ih _ (hstep s o h)

/-- the trace has one entry per call, and a run over `ops ++ [o]` is the run over `ops` followed by
    one more step (so `trace` lists exactly the states `run` goes through) -/
theorem C11_trace_run (m : Machine S O) (s : S) (ops : List O) (o : O) :
    (m.trace s ops).length = ops.length ∧ m.run s (ops ++ [o]) = (m.step (m.run s ops) o).1 := by
  refine ⟨?_, by simp [Machine.run, List.foldl_append]⟩
  induction ops generalizing s with
  | nil => rfl
  | cons o2 rest ih => simp [Machine.trace, ih]

/-! ## PUS telecommand (`app_data`) -/
section Tc
open SpVerif.PusTc SpVerif.SpacePacket

/-- the cached CCSDS data length field agrees with the application data -/
def TcInv (s : TcS) : Prop := s.obj.sph.dlen = dataLength s.obj.appData.length 5

instance (s : TcS) : Decidable (TcInv s) := by unfold TcInv; infer_instance

private theorem sph_new_inv {v t sh f : Nat} {a c d : Int} {h : Sph} (hn : Sph.new v t sh a f c d = .ok h) :
    ¬ (d > 65535 ∨ d < 0) ∧ ¬ (a > 2047 ∨ a < 0) ∧ ¬ (c > 16383 ∨ c < 0) ∧
    h = ⟨v, t, sh, a.toNat, f, c.toNat, d.toNat⟩ := by
  unfold Sph.new at hn
  by_cases h1 : d > 65535 ∨ d < 0
  · simp [h1] at hn
  · by_cases h2 : a > 2047 ∨ a < 0
    · simp [h1, h2] at hn
    · by_cases h3 : c > 16383 ∨ c < 0
      · simp [h1, h2, h3] at hn
      · simp only [h1, h2, h3, ↓reduceIte] at hn
        exact ⟨h1, h2, h3, (Except.ok.inj hn).symm⟩

private theorem sph_new_redo {v t sh f : Nat} {a c d : Int} {h : Sph} (hn : Sph.new v t sh a f c d = .ok h)
    (n : Nat) (hle : n ≤ 65535) : Sph.new v t sh a f c (n : Int) = .ok { h with dlen := n } := by
  obtain ⟨_, h2, h3, e⟩ := sph_new_inv hn
  subst e
  unfold Sph.new
  have h1 : ¬ ((n : Int) > 65535 ∨ (n : Int) < 0) := by omega
  simp only [h1, h2, h3, ↓reduceIte, Int.toNat_natCast]

/-- the constructor establishes the invariant (and stores the data, with an empty CRC cache) -/
theorem C11_tc_init (svc sub : Nat) (apid : Int) (d : Bytes) (cnt : Int) (src ack : Nat) (t : Tc)
    (h : Tc.new svc sub apid d cnt src ack = .ok t) :
    TcInv (TcS.ofNew t) ∧ t.appData = d ∧ (TcS.ofNew t).crc = none := by
  unfold Tc.new at h
  obtain ⟨sph, hs, h⟩ := bind_ok_inv h
  have := pure_ok_inv h
  subst this
  obtain ⟨_, _, _, e⟩ := sph_new_inv hs
  subst e
  exact ⟨by simp [TcInv, TcS.ofNew], rfl, rfl⟩

/-- **the setter, completely**: refused (`ValueError`, object unchanged) exactly when the data
    would need a length field beyond 16 bits (more than 65 529 octets); otherwise data and length
    field are replaced together and nothing else changes -/
theorem C11_tc_step_spec (s : TcS) (d : Bytes) :
    tcStep s (.appData d) =
      if 65529 < d.length then (s, some .value)
      else ({ s with obj := { s.obj with appData := d, sph := { s.obj.sph with dlen := d.length + 6 } } }, none) := by
  show (if dataLength d.length 5 > 65535 then (s, some Err.value)
        else ({ s with obj := s.obj.setAppData d }, none)) = _
  unfold dataLength
  by_cases g : 65529 < d.length
  · rw [if_pos (by omega), if_pos g]
  · rw [if_neg (by omega), if_neg g]
    simp only [Tc.setAppData, dataLength]
    congr 4
    omega

/-- every setter call keeps the invariant; a refused call changes nothing at all -/
theorem C11_tc_step (s : TcS) (o : TcOp) (h : TcInv s) :
    TcInv (tcStep s o).1 ∧ ((tcStep s o).2 ≠ none → (tcStep s o).1 = s) ∧
    (tcStep s o).1.obj.sec = s.obj.sec ∧ (tcStep s o).1.crc = s.crc := by
  cases o with
  | appData d =>
    rw [C11_tc_step_spec]
    split
    · exact ⟨h, fun _ => rfl, rfl, rfl⟩
    · refine ⟨?_, fun hne => absurd rfl hne, rfl, rfl⟩
      simp only [TcInv, dataLength]; omega

/-- after every finite sequence of setter calls the length field agrees with the data -/
theorem C11_tc_reach (s : TcS) (ops : List TcOp) (h : TcInv s) : TcInv (tcMachine.run s ops) :=
  C11_reach tcMachine TcInv (fun s o hs => (C11_tc_step s o hs).1) s ops h

/-- the octets of the state machine's `pack` are those of the owning model's `Tc.pack` (so every
    C02 / C04 theorem about `Tc.pack` speaks about them): the cache never influences them -/
theorem C11_tc_pack_octets (s : TcS) : (s.pack).map Prod.fst = s.obj.pack := by
  unfold TcS.pack Tc.pack
  cases s.obj.packNoCrc <;> rfl

/-- **reported length = packed length, and the length field says so**: under the invariant,
    whenever `pack` returns, it returns `packet_len` octets (13 + data), and octets 4–5 hold the
    number of octets after the primary header minus one -/
theorem C11_tc_pack_len (s : TcS) (h : TcInv s) (b : Bytes) (s' : TcS) (hp : s.pack = .ok (b, s')) :
    b.length = s.reported ∧ beNat ((b.drop 4).take 2) = b.length - 7 ∧
    b.length = 13 + s.obj.appData.length := by
  unfold TcS.pack at hp
  obtain ⟨p, hn, hp⟩ := bind_ok_inv hp
  have e := pure_ok_inv hp
  unfold Tc.packNoCrc at hn
  obtain ⟨hb, hh, hn⟩ := bind_ok_inv hn
  obtain ⟨sb, hs, hn⟩ := bind_ok_inv hn
  have := pure_ok_inv hn
  subst this
  obtain ⟨l6, hd, hlt⟩ := sph_pack_inv hh
  have l5 := tcsec_pack_len hs
  have hb' : b = hb ++ sb ++ s.obj.appData ++ Crc.crcTrailer (hb ++ sb ++ s.obj.appData) := (congrArg Prod.fst e).symm
  have hlen : b.length = 13 + s.obj.appData.length := by
    rw [hb']; simp [l6, l5, Crc.crcTrailer, Crc.be16]; omega
  have hinv : s.obj.sph.dlen = s.obj.appData.length + 6 := by
    have := h; simp only [TcInv, dataLength] at this; omega
  refine ⟨?_, ?_, hlen⟩
  · simp only [TcS.reported, Tc.packetLen, Sph.packetLen]; omega
  · have : (b.drop 4).take 2 = beBytes 2 s.obj.sph.dlen := by
      rw [hb', List.append_assoc, List.append_assoc, List.drop_append_of_le_length (by omega), hd]
      exact List.take_left' (by simp)
    rw [this, beNat_beBytes 2 _ (by simpa using hlt)]
    omega

/-- pack is repeatable IN THE MODEL, by construction of a functional model (bookkeeping lemma: it does
    not carry the property's clause "packing twice yields identical octets and does not change
    equality", which only the tie checks — on the real objects, caches included): packing the post-state gives the same octets and the same post-state;
    pre- and post-state differ in the CRC cache only; they are `==` in both directions, and every
    equality verdict against any other object is the same before and after -/
theorem C11_tc_pack_idem (s : TcS) (b : Bytes) (s' : TcS) (hp : s.pack = .ok (b, s')) :
    s'.pack = .ok (b, s') ∧ s'.obj = s.obj ∧ TcS.beq s s' = true ∧ TcS.beq s' s = true ∧
    ∀ x, TcS.beq x s' = TcS.beq x s ∧ TcS.beq s' x = TcS.beq s x := by
  unfold TcS.pack at hp
  obtain ⟨p, hn, hp⟩ := bind_ok_inv hp
  have e := pure_ok_inv hp
  have e1 : b = p ++ Crc.crcTrailer p := (congrArg Prod.fst e).symm
  have e2 : s' = { s with crc := some (Crc.crcTrailer p) } := (congrArg Prod.snd e).symm
  have ho : s'.obj = s.obj := by rw [e2]
  have hrefl : s.obj.beq s.obj = true := by
    unfold Tc.packNoCrc at hn
    obtain ⟨hb, hh, hn⟩ := bind_ok_inv hn
    obtain ⟨sb, hs, _⟩ := bind_ok_inv hn
    simp [Tc.beq, PusTc.pyEq, hh, hs]
  refine ⟨?_, ho, ?_, ?_, fun x => ⟨?_, ?_⟩⟩
  · subst e2 e1
    simp only [TcS.pack, hn, bind, Except.bind, pure, Except.pure]
  all_goals simp only [TcS.beq, ho, hrefl]

/-- **same as a fresh object**: after any sequence of setter calls on a constructed telecommand,
    constructing a telecommand from the same arguments with the final data gives exactly this
    object (hence the same octets, the same `packet_len`, and `==`) -/
theorem C11_tc_fresh (svc sub : Nat) (apid : Int) (d : Bytes) (cnt : Int) (src ack : Nat) (t : Tc)
    (h : Tc.new svc sub apid d cnt src ack = .ok t) (ops : List TcOp) :
    Tc.new svc sub apid (tcMachine.run (TcS.ofNew t) ops).obj.appData cnt src ack
      = .ok (tcMachine.run (TcS.ofNew t) ops).obj := by
  apply C11_reach tcMachine (fun s => Tc.new svc sub apid s.obj.appData cnt src ack = .ok s.obj)
  · intro s o hs
    cases o with
    | appData d2 =>
      show Tc.new svc sub apid (tcStep s (.appData d2)).1.obj.appData cnt src ack = .ok (tcStep s (.appData d2)).1.obj
      rw [C11_tc_step_spec]
      split
      · exact hs
      · rename_i g
        unfold Tc.new at hs ⊢
        obtain ⟨sph, hsp, hs⟩ := bind_ok_inv hs
        have e := pure_ok_inv hs
        simp only [dataLength]
        rw [sph_new_redo hsp (5 + d2.length + 1) (by omega)]
        simp only [bind, Except.bind, pure, Except.pure]
        rw [← e]
        simp only
        congr 3
        omega
  · show Tc.new svc sub apid t.appData cnt src ack = .ok t
    rw [(C11_tc_init svc sub apid d cnt src ack t h).2.1]
    exact h

end Tc

/-! ## PUS telemetry (`tm_data`) -/
section Tm
open SpVerif.PusTm SpVerif.SpacePacket

/-- the cached CCSDS data length field agrees with timestamp and source data -/
def TmInv (s : TmS) : Prop := s.obj.sph.dlen = dataLen s.obj.sec.timestamp.length s.obj.sourceData.length

instance (s : TmS) : Decidable (TmInv s) := by unfold TmInv; infer_instance

private theorem tmsec_new_ts {svc sub mc : Int} {ts : Bytes} {dst ref : Nat} {sec : TmSec}
    (h : TmSec.new svc sub ts mc dst ref = .ok sec) : sec.timestamp = ts := by
  unfold TmSec.new at h
  split at h
  · cases h
  · split at h
    · cases h
    · split at h
      · cases h
      · cases h; rfl

theorem C11_tm_init (svc sub : Int) (ts d : Bytes) (apid cnt mc : Int) (ref dst ver : Nat) (t : Tm)
    (h : Tm.new svc sub ts d apid cnt mc ref dst ver = .ok t) :
    TmInv (TmS.ofNew t) ∧ t.sourceData = d ∧ t.sec.timestamp = ts ∧ (TmS.ofNew t).crc = none := by
  unfold Tm.new at h
  obtain ⟨sph, hs, h⟩ := bind_ok_inv h
  obtain ⟨sec, hsec, h⟩ := bind_ok_inv h
  have := pure_ok_inv h
  subst this
  obtain ⟨_, _, _, e⟩ := sph_new_inv hs
  subst e
  have hts := tmsec_new_ts hsec
  exact ⟨by simp [TmInv, TmS.ofNew, hts], rfl, hts, rfl⟩

/-- **the setter, completely**: refused (`ValueError`, object unchanged) exactly when secondary
    header, timestamp, data and CRC would need a length field beyond 16 bits -/
theorem C11_tm_step_spec (s : TmS) (d : Bytes) :
    tmStep s (.tmData d) =
      if 65527 < s.obj.sec.timestamp.length + d.length then (s, some .value)
      else ({ s with obj :=
              { s.obj with sourceData := d, sph := { s.obj.sph with dlen := s.obj.sec.timestamp.length + d.length + 8 } } },
            none) := by
  show (if dataLen s.obj.sec.timestamp.length d.length > 65535 then (s, some Err.value)
        else ({ s with obj := s.obj.setTmData d }, none)) = _
  unfold dataLen
  by_cases g : 65527 < s.obj.sec.timestamp.length + d.length
  · rw [if_pos (by omega), if_pos g]
  · rw [if_neg (by omega), if_neg g]
    simp only [Tm.setTmData, dataLen]
    congr 4
    omega

theorem C11_tm_step (s : TmS) (o : TmOp) (h : TmInv s) :
    TmInv (tmStep s o).1 ∧ ((tmStep s o).2 ≠ none → (tmStep s o).1 = s) ∧
    (tmStep s o).1.obj.sec = s.obj.sec ∧ (tmStep s o).1.crc = s.crc := by
  cases o with
  | tmData d =>
    rw [C11_tm_step_spec]
    split
    · exact ⟨h, fun _ => rfl, rfl, rfl⟩
    · refine ⟨?_, fun hne => absurd rfl hne, rfl, rfl⟩
      simp only [TmInv, dataLen]; omega

theorem C11_tm_reach (s : TmS) (ops : List TmOp) (h : TmInv s) : TmInv (tmMachine.run s ops) :=
  C11_reach tmMachine TmInv (fun s o hs => (C11_tm_step s o hs).1) s ops h

/-- the octets are those of the owning model's `Tm.pack` (C03 / C04 speak about them) -/
theorem C11_tm_pack_octets (s : TmS) : (s.pack).map Prod.fst = s.obj.pack := by
  unfold TmS.pack Tm.pack
  cases s.obj.packNoCrc <;> rfl

/-- **reported length = packed length, and the length field says so**, for every timestamp length -/
theorem C11_tm_pack_len (s : TmS) (h : TmInv s) (b : Bytes) (s' : TmS) (hp : s.pack = .ok (b, s')) :
    b.length = s.reported ∧ beNat ((b.drop 4).take 2) = b.length - 7 ∧
    b.length = 15 + s.obj.sec.timestamp.length + s.obj.sourceData.length := by
  unfold TmS.pack at hp
  obtain ⟨p, hn, hp⟩ := bind_ok_inv hp
  have e := pure_ok_inv hp
  unfold Tm.packNoCrc at hn
  obtain ⟨hb, hh, hn⟩ := bind_ok_inv hn
  obtain ⟨sb, hs, hn⟩ := bind_ok_inv hn
  have := pure_ok_inv hn
  subst this
  obtain ⟨l6, hd, hlt⟩ := sph_pack_inv hh
  have l7 := tmsec_pack_len hs
  have hb' : b = hb ++ sb ++ s.obj.sourceData ++ Crc.crcTrailer (hb ++ sb ++ s.obj.sourceData) :=
    (congrArg Prod.fst e).symm
  have hlen : b.length = 15 + s.obj.sec.timestamp.length + s.obj.sourceData.length := by
    rw [hb']; simp [l6, l7, Crc.crcTrailer, Crc.be16]; omega
  have hinv : s.obj.sph.dlen = s.obj.sec.timestamp.length + s.obj.sourceData.length + 8 := by
    have := h; simp only [TmInv, dataLen] at this; omega
  refine ⟨?_, ?_, hlen⟩
  · simp only [TmS.reported, Tm.packetLen, Sph.packetLen]; omega
  · have : (b.drop 4).take 2 = beBytes 2 s.obj.sph.dlen := by
      rw [hb', List.append_assoc, List.append_assoc, List.drop_append_of_le_length (by omega), hd]
      exact List.take_left' (by simp)
    rw [this, beNat_beBytes 2 _ (by simpa using hlt)]
    omega

theorem C11_tm_pack_idem (s : TmS) (b : Bytes) (s' : TmS) (hp : s.pack = .ok (b, s')) :
    s'.pack = .ok (b, s') ∧ s'.obj = s.obj ∧ TmS.beq s s' = true ∧ TmS.beq s' s = true ∧
    ∀ x, TmS.beq x s' = TmS.beq x s ∧ TmS.beq s' x = TmS.beq s x := by
  unfold TmS.pack at hp
  obtain ⟨p, hn, hp⟩ := bind_ok_inv hp
  have e := pure_ok_inv hp
  have e1 : b = p ++ Crc.crcTrailer p := (congrArg Prod.fst e).symm
  have e2 : s' = { s with crc := some (Crc.crcTrailer p) } := (congrArg Prod.snd e).symm
  have ho : s'.obj = s.obj := by rw [e2]
  have hrefl : s.obj.beq s.obj = true := by
    unfold Tm.packNoCrc at hn
    obtain ⟨hb, hh, hn⟩ := bind_ok_inv hn
    obtain ⟨sb, hs, _⟩ := bind_ok_inv hn
    simp [Tm.beq, PusTm.pyEq, hh, hs]
  refine ⟨?_, ho, ?_, ?_, fun x => ⟨?_, ?_⟩⟩
  · subst e2 e1
    simp only [TmS.pack, hn, bind, Except.bind, pure, Except.pure]
  all_goals simp only [TmS.beq, ho, hrefl]

/-- **same as a fresh object**: after any sequence of setter calls on a constructed telemetry
    packet, constructing one from the same arguments with the final data gives exactly this object -/
theorem C11_tm_fresh (svc sub : Int) (ts d : Bytes) (apid cnt mc : Int) (ref dst ver : Nat) (t : Tm)
    (h : Tm.new svc sub ts d apid cnt mc ref dst ver = .ok t) (ops : List TmOp) :
    Tm.new svc sub ts (tmMachine.run (TmS.ofNew t) ops).obj.sourceData apid cnt mc ref dst ver
      = .ok (tmMachine.run (TmS.ofNew t) ops).obj := by
  apply C11_reach tmMachine (fun s => Tm.new svc sub ts s.obj.sourceData apid cnt mc ref dst ver = .ok s.obj)
  · intro s o hs
    cases o with
    | tmData d2 =>
      show Tm.new svc sub ts (tmStep s (.tmData d2)).1.obj.sourceData apid cnt mc ref dst ver
        = .ok (tmStep s (.tmData d2)).1.obj
      rw [C11_tm_step_spec]
      split
      · exact hs
      · rename_i g
        unfold Tm.new at hs ⊢
        obtain ⟨sph, hsp, hs⟩ := bind_ok_inv hs
        obtain ⟨sec, hsec, hs⟩ := bind_ok_inv hs
        have e := pure_ok_inv hs
        have hts := tmsec_new_ts hsec
        have hts2 : s.obj.sec.timestamp = ts := by rw [← e]; exact hts
        rw [hts2] at g
        simp only [dataLen]
        rw [sph_new_redo hsp (7 + ts.length + d2.length + 1) (by omega), hsec]
        simp only [bind, Except.bind, pure, Except.pure]
        rw [← e]
        simp only [hts]
        congr 3
        omega
  · show Tm.new svc sub ts t.sourceData apid cnt mc ref dst ver = .ok t
    rw [(C11_tm_init svc sub ts d apid cnt mc ref dst ver t h).2.1]
    exact h

end Tm

/-! ## CFDP: the length field of a packed PDU -/
section Cfdp
open SpVerif.CfdpHeader SpVerif.FileDirective

/-- octets 1–2 of a packed PDU read as a big-endian number, when they hold a 16-bit length -/
private theorem lenfield_val (b : Bytes) (n : Nat) (hn : n ≤ 65535)
    (h : (b.drop 1).take 2 = [u8 (n / 256 % 256), u8 (n % 256)]) : beNat ((b.drop 1).take 2) = n := by
  rw [h, beNat_two, u8_toNat, u8_toNat]
  omega

end Cfdp

/-! ## NAK PDU (`segment_requests`, `file_flag`) -/
section Nak
open SpVerif.CfdpHeader SpVerif.FileDirective SpVerif.Nak

/-- the cached data-field length agrees with the large-file flag, the CRC flag and the number of
    segment requests (and fits its 16 bits); the flag is NORMAL or LARGE; ID widths agree -/
def NakInv (k : Nak) : Prop :=
  k.fd.header.conf.fileFlag < 2 ∧ k.fd.header.conf.dest.width = k.fd.header.conf.source.width ∧
  k.fd.header.dataFieldLen ≤ 65535 ∧
  k.fd.header.dataFieldLen = nakParamLen k.fd.header.conf.fileFlag k.fd.header.conf.crcFlag k.segs.length + 1

instance (k : Nak) : Decidable (NakInv k) := by unfold NakInv; infer_instance

/-- the constructor establishes the invariant; the object holds a copy of the configuration with
    the direction forced towards the sender -/
theorem C11_nak_init (c : PduConfig) (hf : c.fileFlag < 2) (s e : Int) (segs : List Seg) (k : Nak)
    (h : Nak.new c s e segs = .ok k) :
    NakInv k ∧ k.segs = segs ∧ k.fd.header.conf = { c with direction := 1 } := by
  rw [new_eq c s e segs hf] at h
  split at h
  · cases h
  · rename_i g
    have := Except.ok.inj h
    subst this
    exact ⟨⟨hf, by simp only; omega, by simp only; omega, rfl⟩, rfl, rfl⟩

/-- **the setters, completely**: refused (`ValueError`, PDU unchanged) exactly when the new
    data-field length would exceed 16 bits, or when the flag is neither NORMAL nor LARGE -/
theorem C11_nak_step_spec (k : Nak) (hf : k.fd.header.conf.fileFlag < 2) :
    (∀ l, nakStep k (.segs l) =
      if 65535 < nakParamLen k.fd.header.conf.fileFlag k.fd.header.conf.crcFlag l.length + 1 then (k, some .value)
      else ({ k with segs := l, fd := { k.fd with header := { k.fd.header with
        dataFieldLen := nakParamLen k.fd.header.conf.fileFlag k.fd.header.conf.crcFlag l.length + 1 } } }, none)) ∧
    (∀ f, f < 2 → nakStep k (.fileFlag f) =
      if 65535 < nakParamLen f k.fd.header.conf.crcFlag k.segs.length + 1 then (k, some .value)
      else ({ k with fd := { k.fd with header := { k.fd.header with
        dataFieldLen := nakParamLen f k.fd.header.conf.crcFlag k.segs.length + 1,
        conf := { k.fd.header.conf with fileFlag := f } } } }, none)) ∧
    (∀ f, 2 ≤ f → nakStep k (.fileFlag f) = (k, some .value)) := by
  refine ⟨fun l => ?_, fun f hf2 => ?_, fun f hf2 => ?_⟩
  · show (match k.setSegs l with | .ok k' => (k', none) | .error e => (k, some e)) = _
    rw [setSegs_eq k l hf]
    by_cases g : 65535 < nakParamLen k.fd.header.conf.fileFlag k.fd.header.conf.crcFlag l.length + 1
    · rw [if_pos g, if_pos g]
    · rw [if_neg g, if_neg g]
  · show (match k.setFileFlag f with | .ok k' => (k', none) | .error e => (k, some e)) = _
    rw [setFileFlag_eq k f hf2]
    by_cases g : 65535 < nakParamLen f k.fd.header.conf.crcFlag k.segs.length + 1
    · rw [if_pos g, if_pos g]
    · rw [if_neg g, if_neg g]
  · show (match k.setFileFlag f with | .ok k' => (k', none) | .error e => (k, some e)) = _
    unfold Nak.setFileFlag
    rw [calcLen_bad_flag _ _ (by simpa [FileDirective.setFileFlag] using hf2)]
    rfl

/-- every setter call keeps the invariant; a refused call changes nothing at all; the setters
    touch nothing but the list, the flag and the cached length -/
theorem C11_nak_step (k : Nak) (o : NakOp) (h : NakInv k) :
    NakInv (nakStep k o).1 ∧ ((nakStep k o).2 ≠ none → (nakStep k o).1 = k) ∧
    (nakStep k o).1.startOfScope = k.startOfScope ∧ (nakStep k o).1.endOfScope = k.endOfScope ∧
    (nakStep k o).1.fd.code = k.fd.code ∧
    { (nakStep k o).1.fd.header.conf with fileFlag := 0 } = { k.fd.header.conf with fileFlag := 0 } := by
  obtain ⟨hf, hw, hle, hd⟩ := h
  obtain ⟨h1, h2, h3⟩ := C11_nak_step_spec k hf
  cases o with
  | segs l =>
    rw [h1 l]
    split
    · exact ⟨⟨hf, hw, hle, hd⟩, fun _ => rfl, rfl, rfl, rfl, rfl⟩
    · exact ⟨⟨hf, hw, by simp only; omega, rfl⟩, fun hne => absurd rfl hne, rfl, rfl, rfl, rfl⟩
  | fileFlag f =>
    by_cases hf2 : f < 2
    · rw [h2 f hf2]
      split
      · exact ⟨⟨hf, hw, hle, hd⟩, fun _ => rfl, rfl, rfl, rfl, rfl⟩
      · exact ⟨⟨hf2, hw, by simp only; omega, rfl⟩, fun hne => absurd rfl hne, rfl, rfl, rfl, rfl⟩
    · rw [h3 f (by omega)]
      exact ⟨⟨hf, hw, hle, hd⟩, fun _ => rfl, rfl, rfl, rfl, rfl⟩

theorem C11_nak_reach (k : Nak) (ops : List NakOp) (h : NakInv k) : NakInv (nakMachine.run k ops) :=
  C11_reach nakMachine NakInv (fun s o hs => (C11_nak_step s o hs).1) k ops h

/-- **reported length = packed length, and the length field says so**: under the invariant,
    whenever `pack` returns, it returns `packet_len` octets, and octets 1–2 hold the number of
    octets after the fixed header (directive code, scope, segment requests, CRC) -/
theorem C11_nak_pack_len (k : Nak) (h : NakInv k) (b : Bytes) (k' : Nak) (hp : nakPack k = .ok (b, k')) :
    b.length = k.packetLen ∧ beNat ((b.drop 1).take 2) = b.length - k.fd.header.headerLen ∧
    b.length = k.fd.header.headerLen + 1 + 2 * fssWidth k.fd.header.conf.fileFlag * (k.segs.length + 1)
      + (if k.fd.header.conf.crcFlag = 1 then 2 else 0) := by
  obtain ⟨hf, hw, hle, hd⟩ := h
  unfold nakPack at hp
  obtain ⟨b0, hp0, hp⟩ := bind_ok_inv hp
  have e := pure_ok_inv hp
  have eb : b0 = b := congrArg Prod.fst e
  subst eb
  unfold Nak.pack at hp0
  obtain ⟨d, hdp, hp0⟩ := bind_ok_inv hp0
  obtain ⟨sc, hsc, hp0⟩ := bind_ok_inv hp0
  obtain ⟨sg, hsg, hp0⟩ := bind_ok_inv hp0
  have eb := pure_ok_inv hp0
  obtain ⟨ld, lf⟩ := fd_pack_inv hdp hw
  have lsc := packPair_len hsc
  have lsg := packSegs_len hsg
  rw [segW_eq] at lsc lsg
  have h4 := headerLen_ge k.fd.header
  have hlen : b0.length = k.fd.header.headerLen + 1 + 2 * fssWidth k.fd.header.conf.fileFlag * (k.segs.length + 1)
      + (if k.fd.header.conf.crcFlag = 1 then 2 else 0) := by
    rw [← eb, withCrc_length]
    simp only [List.length_append, ld, lsc, lsg]
    rw [Nat.mul_add, Nat.mul_comm k.segs.length]
    omega
  have hfield : (b0.drop 1).take 2 =
      [u8 (k.fd.header.dataFieldLen / 256 % 256), u8 (k.fd.header.dataFieldLen % 256)] := by
    rw [← eb, withCrc_len_field _ _ (by simp only [List.length_append, ld]; omega), List.append_assoc,
      List.drop_append_of_le_length (by omega), List.take_append_of_le_length (by simp; omega), lf]
  have hpl : k.packetLen = k.fd.header.dataFieldLen + k.fd.header.headerLen := rfl
  have hd' : k.fd.header.dataFieldLen = 2 * fssWidth k.fd.header.conf.fileFlag * (k.segs.length + 1)
      + (if k.fd.header.conf.crcFlag = 1 then 2 else 0) + 1 := hd
  refine ⟨by omega, ?_, hlen⟩
  rw [lenfield_val _ _ hle hfield]
  omega

/-- pack is repeatable IN THE MODEL, by construction of a functional model (bookkeeping lemma: it does
    not carry the property's clause "packing twice yields identical octets and does not change
    equality", which only the tie checks — on the real objects, caches included): the PDU carries no cache — the post-state is the object itself, so a
    second `pack` gives the same octets and no equality verdict can change; it is `==` to itself -/
theorem C11_nak_pack_idem (k : Nak) (b : Bytes) (k' : Nak) (hp : nakPack k = .ok (b, k')) :
    k' = k ∧ nakPack k' = .ok (b, k') ∧ k.beq k' = true ∧ k'.beq k = true := by
  have hk : k' = k := by
    unfold nakPack at hp
    obtain ⟨b0, _, hp⟩ := bind_ok_inv hp
    exact (congrArg Prod.snd (pure_ok_inv hp)).symm
  subst hk
  exact ⟨rfl, hp, by simp [Nak.beq, beq_refl], by simp [Nak.beq, beq_refl]⟩

/-- **same as a fresh object**: after any sequence of setter calls on a constructed NAK PDU,
    constructing one from the object's configuration (with the final flag), scope and final list
    of segment requests gives exactly this object -/
theorem C11_nak_fresh (c : PduConfig) (hf : c.fileFlag < 2) (s e : Int) (segs : List Seg) (k : Nak)
    (h : Nak.new c s e segs = .ok k) (ops : List NakOp) :
    Nak.new (nakMachine.run k ops).fd.header.conf (nakMachine.run k ops).startOfScope
      (nakMachine.run k ops).endOfScope (nakMachine.run k ops).segs = .ok (nakMachine.run k ops) := by
  refine (C11_reach nakMachine (fun r => r.fd.header.conf.fileFlag < 2 ∧
      Nak.new r.fd.header.conf r.startOfScope r.endOfScope r.segs = .ok r) ?_ k ops ?_).2
  · intro r o ⟨hrf, hr⟩
    -- a constructor image, componentwise
    obtain ⟨⟨⟨pt, sm, dfl, cf⟩, code⟩, rs, re, rsegs⟩ := r
    simp only at hrf hr
    rw [new_eq cf rs re rsegs hrf] at hr
    split at hr
    · cases hr
    · rename_i g
      have hr := Except.ok.inj hr
      injection hr with hfd _ _ _
      injection hfd with hhdr hcode
      injection hhdr with hpt hsm hdfl hcf
      subst hpt hsm hcode
      have hdir : cf.direction = 1 := by rw [← hcf]
      have hcfe : ({ cf with direction := 1 } : PduConfig) = cf := hcf
      obtain ⟨h1, h2, h3⟩ := C11_nak_step_spec ⟨⟨⟨0, 0, dfl, cf⟩, 8⟩, rs, re, rsegs⟩ hrf
      cases o with
      | segs l =>
        show (nakStep _ (.segs l)).1.fd.header.conf.fileFlag < 2 ∧ Nak.new (nakStep _ (.segs l)).1.fd.header.conf
          (nakStep _ (.segs l)).1.startOfScope (nakStep _ (.segs l)).1.endOfScope (nakStep _ (.segs l)).1.segs
            = .ok (nakStep _ (.segs l)).1
        rw [h1 l]
        split
        · refine ⟨hrf, ?_⟩
          simp only
          rw [new_eq cf rs re rsegs hrf, if_neg g, hcfe, ← hdfl]
        · rename_i g2
          refine ⟨hrf, ?_⟩
          simp only
          rw [new_eq cf rs re l hrf, if_neg (by simp only at g2; omega), hcfe]
      | fileFlag f =>
        show (nakStep _ (.fileFlag f)).1.fd.header.conf.fileFlag < 2 ∧ Nak.new (nakStep _ (.fileFlag f)).1.fd.header.conf
          (nakStep _ (.fileFlag f)).1.startOfScope (nakStep _ (.fileFlag f)).1.endOfScope (nakStep _ (.fileFlag f)).1.segs
            = .ok (nakStep _ (.fileFlag f)).1
        by_cases hf2 : f < 2
        · rw [h2 f hf2]
          split
          · refine ⟨hrf, ?_⟩
            simp only
            rw [new_eq cf rs re rsegs hrf, if_neg g, hcfe, ← hdfl]
          · rename_i g2
            refine ⟨hf2, ?_⟩
            simp only
            rw [new_eq { cf with fileFlag := f } rs re rsegs hf2, if_neg (by simp only at g2 ⊢; omega)]
            simp only [hdir]
        · rw [h3 f (by omega)]
          refine ⟨hrf, ?_⟩
          simp only
          rw [new_eq cf rs re rsegs hrf, if_neg g, hcfe, ← hdfl]
  · have hk := h
    rw [new_eq c s e segs hf] at hk
    by_cases g : c.source.width ≠ c.dest.width ∨ 65535 < nakParamLen c.fileFlag c.crcFlag segs.length + 1
    · rw [if_pos g] at hk; cases hk
    · rw [if_neg g] at hk
      have hk := Except.ok.inj hk
      subst hk
      refine ⟨hf, ?_⟩
      show Nak.new { c with direction := 1 } s e segs = _
      have g' : ¬ (({ c with direction := 1 } : PduConfig).source.width ≠ ({ c with direction := 1 } : PduConfig).dest.width ∨
          65535 < nakParamLen ({ c with direction := 1 } : PduConfig).fileFlag
            ({ c with direction := 1 } : PduConfig).crcFlag segs.length + 1) := g
      rw [new_eq { c with direction := 1 } s e segs hf, if_neg g']

end Nak

/-! ## Keep Alive PDU (`file_flag`) -/
section KeepAlive
open SpVerif.CfdpHeader SpVerif.FileDirective SpVerif.KeepAlive

/-- the cached data-field length agrees with the large-file flag and the CRC flag (directive code,
    progress of 4 or 8 octets, CRC trailer); ID widths agree -/
def KaInv (k : KeepAlive) : Prop :=
  k.fd.header.conf.dest.width = k.fd.header.conf.source.width ∧
  k.fd.header.dataFieldLen = paramLenFor k.fd.header.conf.fileFlag k.fd.header.conf.crcFlag + 1

instance (k : KeepAlive) : Decidable (KaInv k) := by unfold KaInv; infer_instance

theorem C11_ka_init (c : PduConfig) (progress : Int) (k : KeepAlive) (h : KeepAlive.new c progress = .ok k) :
    KaInv k ∧ k.progress = progress ∧ k.fd.header.conf = { c with direction := 1 } := by
  rw [SpVerif.KeepAlive.new_eq] at h
  split at h
  · cases h
  · rename_i g
    have := Except.ok.inj h
    subst this
    exact ⟨⟨by simp only; omega, rfl⟩, rfl, rfl⟩

/-- **the setter, completely**: never refused; flag and cached length (CRC trailer included) are
    replaced together, nothing else changes -/
theorem C11_ka_step_spec (k : KeepAlive) (f : Nat) :
    kaStep k (.fileFlag f) = ({ k with fd := { k.fd with header := { k.fd.header with
      dataFieldLen := paramLenFor f k.fd.header.conf.crcFlag + 1,
      conf := { k.fd.header.conf with fileFlag := f } } } }, none) := by
  show (match k.setFileFlag f with | .ok k' => (k', none) | .error e => (k, some e)) = _
  rw [setFileFlag_eq]

theorem C11_ka_step (k : KeepAlive) (o : KaOp) (h : KaInv k) :
    KaInv (kaStep k o).1 ∧ (kaStep k o).2 = none ∧ (kaStep k o).1.progress = k.progress ∧
    (kaStep k o).1.fd.code = k.fd.code ∧
    { (kaStep k o).1.fd.header.conf with fileFlag := 0 } = { k.fd.header.conf with fileFlag := 0 } := by
  cases o with
  | fileFlag f =>
    rw [C11_ka_step_spec]
    exact ⟨⟨h.1, rfl⟩, rfl, rfl, rfl, rfl⟩

theorem C11_ka_reach (k : KeepAlive) (ops : List KaOp) (h : KaInv k) : KaInv (kaMachine.run k ops) :=
  C11_reach kaMachine KaInv (fun s o hs => (C11_ka_step s o hs).1) k ops h

/-- **reported length = packed length, and the length field says so** (16 vs 18: the CRC trailer
    is counted after a flag change as well) -/
theorem C11_ka_pack_len (k : KeepAlive) (h : KaInv k) (b : Bytes) (k' : KeepAlive) (hp : kaPack k = .ok (b, k')) :
    b.length = k.packetLen ∧ beNat ((b.drop 1).take 2) = b.length - k.fd.header.headerLen ∧
    b.length = k.fd.header.headerLen + 1 + (if k.fd.header.conf.fileFlag = 1 then 8 else 4)
      + (if k.fd.header.conf.crcFlag = 1 then 2 else 0) := by
  obtain ⟨hw, hd⟩ := h
  unfold kaPack at hp
  obtain ⟨b0, hp0, hp⟩ := bind_ok_inv hp
  have eb : b0 = b := congrArg Prod.fst (pure_ok_inv hp)
  subst eb
  unfold KeepAlive.pack at hp0
  obtain ⟨d, hdp, hp0⟩ := bind_ok_inv hp0
  obtain ⟨ld, lf⟩ := fd_pack_inv hdp hw
  have h4 := headerLen_ge k.fd.header
  have hex : ∃ pr : Bytes, pr.length = (if k.fd.header.conf.fileFlag = 1 then 8 else 4) ∧
      withCrc k.fd.header.conf.crcFlag (d ++ pr) = b0 := by
    by_cases hf : k.fd.header.conf.fileFlag = 1
    · have hl : k.fd.header.largeFileFlagSet = true := by simp [PduHeader.largeFileFlagSet, hf]
      simp only [hl, not_true_eq_false, ↓reduceIte] at hp0
      obtain ⟨pr, hpr, hp0⟩ := bind_ok_inv hp0
      exact ⟨pr, by rw [packInt_len hpr, if_pos hf], pure_ok_inv hp0⟩
    · have hl : k.fd.header.largeFileFlagSet = false := by simp [PduHeader.largeFileFlagSet, hf]
      simp only [hl, Bool.false_eq_true, not_false_eq_true, ↓reduceIte] at hp0
      by_cases g : k.progress > 4294967295
      · simp [g, throw, throwThe, MonadExceptOf.throw, bind, Except.bind] at hp0
      · simp only [g, ↓reduceIte] at hp0
        obtain ⟨pr, hpr, hp0⟩ := bind_ok_inv hp0
        exact ⟨pr, by rw [packInt_len hpr, if_neg hf], pure_ok_inv hp0⟩
  obtain ⟨pr, lpr, eb⟩ := hex
  have hlen : b0.length = k.fd.header.headerLen + 1 + (if k.fd.header.conf.fileFlag = 1 then 8 else 4)
      + (if k.fd.header.conf.crcFlag = 1 then 2 else 0) := by
    rw [← eb, withCrc_length]
    simp only [List.length_append, ld, lpr]
  have hfield : (b0.drop 1).take 2 =
      [u8 (k.fd.header.dataFieldLen / 256 % 256), u8 (k.fd.header.dataFieldLen % 256)] := by
    rw [← eb, withCrc_len_field _ _ (by simp only [List.length_append, ld]; omega),
      List.drop_append_of_le_length (by omega), List.take_append_of_le_length (by simp; omega), lf]
  have hpl : k.packetLen = k.fd.header.dataFieldLen + k.fd.header.headerLen := rfl
  have hd' : k.fd.header.dataFieldLen = (if k.fd.header.conf.fileFlag = 1 then 8 else 4)
      + (if k.fd.header.conf.crcFlag = 1 then 2 else 0) + 1 := hd
  have hle := paramLenFor_le k.fd.header.conf.fileFlag k.fd.header.conf.crcFlag
  refine ⟨by omega, ?_, hlen⟩
  rw [lenfield_val _ _ (by omega) hfield]
  omega

theorem C11_ka_pack_idem (k : KeepAlive) (b : Bytes) (k' : KeepAlive) (hp : kaPack k = .ok (b, k')) :
    k' = k ∧ kaPack k' = .ok (b, k') ∧ k.beq k' = true ∧ k'.beq k = true := by
  have hk : k' = k := by
    unfold kaPack at hp
    obtain ⟨b0, _, hp⟩ := bind_ok_inv hp
    exact (congrArg Prod.snd (pure_ok_inv hp)).symm
  subst hk
  exact ⟨rfl, hp, by simp [KeepAlive.beq, beq_refl], by simp [KeepAlive.beq, beq_refl]⟩

/-- **same as a fresh object**: after any sequence of flag changes the PDU is the one the
    constructor builds from the object's configuration (with the final flag) and progress -/
theorem C11_ka_fresh (c : PduConfig) (progress : Int) (k : KeepAlive) (h : KeepAlive.new c progress = .ok k)
    (ops : List KaOp) :
    KeepAlive.new (kaMachine.run k ops).fd.header.conf (kaMachine.run k ops).progress = .ok (kaMachine.run k ops) := by
  refine C11_reach kaMachine (fun r => KeepAlive.new r.fd.header.conf r.progress = .ok r) ?_ k ops ?_
  · intro r o hr
    obtain ⟨⟨⟨pt, sm, dfl, cf⟩, code⟩, pr⟩ := r
    simp only at hr
    rw [SpVerif.KeepAlive.new_eq] at hr
    split at hr
    · cases hr
    · rename_i g
      have hr := Except.ok.inj hr
      injection hr with hfd _
      injection hfd with hhdr hcode
      injection hhdr with hpt hsm hdfl hcf
      subst hpt hsm hcode
      have hdir : cf.direction = 1 := by rw [← hcf]
      cases o with
      | fileFlag f =>
        show KeepAlive.new (kaStep _ (.fileFlag f)).1.fd.header.conf (kaStep _ (.fileFlag f)).1.progress
          = .ok (kaStep _ (.fileFlag f)).1
        rw [C11_ka_step_spec]
        simp only
        rw [SpVerif.KeepAlive.new_eq, if_neg (by simpa using g)]
        simp only [hdir]
  · have hk := h
    rw [SpVerif.KeepAlive.new_eq] at hk
    by_cases g : c.source.width ≠ c.dest.width
    · rw [if_pos g] at hk; cases hk
    · rw [if_neg g] at hk
      have hk := Except.ok.inj hk
      subst hk
      show KeepAlive.new { c with direction := 1 } progress = _
      have g' : ¬ (({ c with direction := 1 } : PduConfig).source.width ≠ ({ c with direction := 1 } : PduConfig).dest.width) := g
      rw [SpVerif.KeepAlive.new_eq, if_neg g']

end KeepAlive

/-! ## File Data PDU (`file_data`, `segment_metadata`) -/
section FileData
open SpVerif.CfdpHeader SpVerif.FileData

/-- C07's consistency (cached data-field length = metadata + offset + data + CRC, flag in step
    with the presence of segment metadata), the length fitting its 16 bits, ID widths agreeing -/
def FdInv (p : Pdu) : Prop :=
  C07.Consistent p ∧ p.header.conf.dest.width = p.header.conf.source.width ∧ p.header.dataFieldLen ≤ 65535

instance (p : Pdu) : Decidable (FdInv p) := by unfold FdInv; infer_instance

/-- complete case analysis of the constructor -/
private theorem fd_new_eq (c : PduConfig) (ps : Params) :
    Pdu.new c ps =
      if c.source.width ≠ c.dest.width then .error .value
      else if 65535 < (Pdu.mk ⟨1, C07.metaFlag ps.segMeta, 0, { c with direction := 0 }⟩ ps).calcLen then .error .value
      else .ok ⟨⟨1, C07.metaFlag ps.segMeta,
        (Pdu.mk ⟨1, C07.metaFlag ps.segMeta, 0, { c with direction := 0 }⟩ ps).calcLen, { c with direction := 0 }⟩, ps⟩ := by
  unfold Pdu.new
  simp only [CfdpHeader.new_eq, bind, Except.bind]
  by_cases hw : c.source.width = c.dest.width
  · have g : ¬ (65535 < 0 ∨ ({ c with direction := 0 } : PduConfig).source.width ≠
        ({ c with direction := 0 } : PduConfig).dest.width) := by simp; omega
    have g2 : ¬ c.source.width ≠ c.dest.width := by omega
    rw [if_neg g, if_neg g2]
    show (Pdu.mk ⟨1, (if ps.segMeta.isSome then 1 else 0), 0, { c with direction := 0 }⟩ ps).recalc = _
    rw [recalc_eq]
    rfl
  · have g : (65535 < 0 ∨ ({ c with direction := 0 } : PduConfig).source.width ≠
        ({ c with direction := 0 } : PduConfig).dest.width) := Or.inr hw
    rw [if_pos g, if_pos hw]

theorem C11_fd_init (c : PduConfig) (ps : Params) (p : Pdu) (h : Pdu.new c ps = .ok p) :
    FdInv p ∧ p.params = ps ∧ p.header.conf = { c with direction := 0 } := by
  rw [fd_new_eq] at h
  split at h
  · cases h
  · rename_i g
    split at h
    · cases h
    · rename_i g2
      have := Except.ok.inj h
      subst this
      exact ⟨⟨⟨rfl, rfl⟩, by simp only; omega, by simp only; omega⟩, rfl, rfl⟩

/-- **the setters, completely**: refused (`ValueError`, PDU unchanged) exactly when the new
    data-field length would exceed 16 bits; otherwise the assigned attribute, the flag (metadata
    setter) and the cached length change together -/
theorem C11_fd_step_spec (p : Pdu) (s : Setter) :
    fdStep p s = if 65535 < (p.put s).calcLen then (p, some .value)
      else ({ p.put s with header := { (p.put s).header with dataFieldLen := (p.put s).calcLen } }, none) := by
  unfold fdStep Pdu.step
  rw [recalc_eq]
  by_cases g : 65535 < (p.put s).calcLen
  · rw [if_pos g, if_pos g]
  · rw [if_neg g, if_neg g]

theorem C11_fd_step (p : Pdu) (s : Setter) (h : FdInv p) :
    FdInv (fdStep p s).1 ∧ ((fdStep p s).2 ≠ none → (fdStep p s).1 = p) ∧
    (fdStep p s).1.header.conf = p.header.conf ∧ (fdStep p s).1.header.pduType = p.header.pduType ∧
    (fdStep p s).1.params.offset = p.params.offset := by
  obtain ⟨⟨hd, hflag⟩, hw, hle⟩ := h
  rw [C11_fd_step_spec]
  split
  · exact ⟨⟨⟨hd, hflag⟩, hw, hle⟩, fun _ => rfl, rfl, rfl, rfl⟩
  · rename_i g
    cases s with
    | fileData d => exact ⟨⟨⟨rfl, hflag⟩, hw, by simp only; omega⟩, fun hne => absurd rfl hne, rfl, rfl, rfl⟩
    | segMeta m => exact ⟨⟨⟨rfl, rfl⟩, hw, by simp only; omega⟩, fun hne => absurd rfl hne, rfl, rfl, rfl⟩

theorem C11_fd_reach (p : Pdu) (ops : List Setter) (h : FdInv p) : FdInv (fdMachine.run p ops) :=
  C11_reach fdMachine FdInv (fun s o hs => (C11_fd_step s o hs).1) p ops h

/-- **reported length = packed length, and the length field says so** (via C07's length theorem) -/
theorem C11_fd_pack_len (p : Pdu) (h : FdInv p) (b : Bytes) (p' : Pdu) (hp : fdPack p = .ok (b, p')) :
    b.length = p.packetLen ∧ beNat ((b.drop 1).take 2) = b.length - p.header.headerLen := by
  obtain ⟨hc, hw, hle⟩ := h
  unfold fdPack at hp
  obtain ⟨b0, hp0, hp⟩ := bind_ok_inv hp
  have eb : b0 = b := congrArg Prod.fst (pure_ok_inv hp)
  subst eb
  obtain ⟨h1, h2⟩ := C07.C07_consistent_pack_len p hc hw b0 hp0
  refine ⟨h1, ?_⟩
  rw [lenfield_val _ _ hle h2, h1]
  simp only [Pdu.packetLen, PduHeader.packetLen]
  omega

theorem C11_fd_pack_idem (p : Pdu) (b : Bytes) (p' : Pdu) (hp : fdPack p = .ok (b, p')) :
    p' = p ∧ fdPack p' = .ok (b, p') ∧ p.beq p' = true ∧ p'.beq p = true := by
  have hk : p' = p := by
    unfold fdPack at hp
    obtain ⟨b0, _, hp⟩ := bind_ok_inv hp
    exact (congrArg Prod.snd (pure_ok_inv hp)).symm
  subst hk
  exact ⟨rfl, hp, by simp [Pdu.beq, hdrBeq], by simp [Pdu.beq, hdrBeq]⟩

/-- "is a constructor image", spelled out: PDU type File Data, direction towards the receiver, flag
    in step with the metadata, ID widths agreeing, the cached length being the computed one and
    fitting 16 bits -/
def FdBuilt (p : Pdu) : Prop :=
  p.header.pduType = 1 ∧ p.header.segMeta = C07.metaFlag p.params.segMeta ∧ p.header.conf.direction = 0 ∧
  p.header.conf.source.width = p.header.conf.dest.width ∧ p.header.dataFieldLen = p.calcLen ∧ p.calcLen ≤ 65535

instance (p : Pdu) : Decidable (FdBuilt p) := by unfold FdBuilt; infer_instance

private theorem fd_built_new (p : Pdu) (h : FdBuilt p) : Pdu.new p.header.conf p.params = .ok p := by
  obtain ⟨⟨pt, sm, dfl, ⟨src, dst, seq, tm, ff, crc, dir, sc⟩⟩, ps⟩ := p
  obtain ⟨h1, h2, h3, h4, h5, h6⟩ := h
  simp only at h1 h2 h3 h4
  subst h1 h2 h3
  have h5' : dfl = (Pdu.mk ⟨1, C07.metaFlag ps.segMeta, 0, ⟨src, dst, seq, tm, ff, crc, 0, sc⟩⟩ ps).calcLen := h5
  have h6' : (Pdu.mk ⟨1, C07.metaFlag ps.segMeta, 0, ⟨src, dst, seq, tm, ff, crc, 0, sc⟩⟩ ps).calcLen ≤ 65535 := h6
  subst h5'
  rw [fd_new_eq]
  have g : ¬ (src.width ≠ dst.width) := by omega
  rw [if_neg g]
  refine (if_neg ?_).trans rfl
  exact Nat.not_lt.mpr h6'

/-- **same as a fresh object**: after any sequence of setter calls on a constructed File Data
    PDU, constructing one from the object's configuration and its final params gives exactly this
    object -/
theorem C11_fd_fresh (c : PduConfig) (ps : Params) (p : Pdu) (h : Pdu.new c ps = .ok p) (ops : List Setter) :
    FdBuilt (fdMachine.run p ops) ∧
    Pdu.new (fdMachine.run p ops).header.conf (fdMachine.run p ops).params = .ok (fdMachine.run p ops) := by
  have key : FdBuilt (fdMachine.run p ops) := by
    refine C11_reach fdMachine FdBuilt ?_ p ops ?_
    · intro r o ⟨h1, h2, h3, h4, h5, h6⟩
      show FdBuilt (fdStep r o).1
      rw [C11_fd_step_spec]
      split
      · exact ⟨h1, h2, h3, h4, h5, h6⟩
      · rename_i g
        cases o with
        | fileData d => exact ⟨h1, h2, h3, h4, rfl, by simp only [Pdu.put] at g; exact Nat.le_of_not_lt g⟩
        | segMeta m => exact ⟨h1, rfl, h3, h4, rfl, by simp only [Pdu.put] at g; exact Nat.le_of_not_lt g⟩
    · rw [fd_new_eq] at h
      split at h
      · cases h
      · rename_i g
        split at h
        · cases h
        · rename_i g2
          have := Except.ok.inj h
          subst this
          exact ⟨rfl, rfl, rfl, by simp only; omega, rfl, Nat.le_of_not_lt g2⟩
  exact ⟨key, fd_built_new _ key⟩

end FileData

/-! ## USLP transfer frame (data zone `tfdz`, `set_frame_len_in_header`) -/
section Uslp
open SpVerif.Uslp

/-- the size cached by the data field agrees with its header and data zone, and the frame is a
    frame of type `ft` in C17's sense (identifiers in range, pointer present exactly when the type
    requires it, OCF present exactly when flagged) -/
def FrameInv (ft : FrameType) (s : FrameS) : Prop := s.size = s.frame.tfdf.len ∧ C17.WFFrame s.frame ft

instance (ft : FrameType) (s : FrameS) : Decidable (FrameInv ft s) := by unfold FrameInv; infer_instance

theorem C11_frame_init (ft : FrameType) (f : Frame) (wf : C17.WFFrame f ft) : FrameInv ft (FrameS.ofNew f) :=
  ⟨rfl, wf⟩

/-- under the invariant the reported `len()` is the length computed from the fields -/
theorem C11_frame_len (ft : FrameType) (s : FrameS) (h : FrameInv ft s) : s.len = s.frame.len := by
  unfold FrameS.len Frame.len
  rw [h.1]

/-- **the setters, completely**: a data zone beyond what the constructor allows is refused
    (`ValueError`, frame unchanged), otherwise data zone and cached size are replaced together;
    the frame-length update is refused (`ValueError`, header unchanged) when the total length minus
    one does not fit 16 bits, stores it otherwise, and does nothing for a truncated header -/
theorem C11_frame_step_spec (s : FrameS) :
    (∀ d, frameStep s (.tfdz d) =
      if tfdfMaxSize - s.frame.tfdf.headerLen < s.frame.tfdf.headerLen + d.length then (s, some .value)
      else ({ frame := { s.frame with tfdf := { s.frame.tfdf with tfdz := d } },
              size := s.frame.tfdf.headerLen + d.length }, none)) ∧
    (∀ h, s.frame.header = .primary h → frameStep s .setFrameLen =
      if 65535 < s.len - 1 then (s, some .value)
      else ({ s with frame := { s.frame with header := .primary { h with frameLen := s.len - 1 } } }, none)) ∧
    (∀ h, s.frame.header = .truncated h → frameStep s .setFrameLen = (s, none)) := by
  refine ⟨fun d => rfl, fun h hh => ?_, fun h hh => ?_⟩
  · simp only [frameStep, Frame.setFrameLenWith, hh]
    by_cases g : 65535 < s.len - 1
    · rw [if_pos g, if_pos g]; rfl
    · rw [if_neg g, if_neg g]
  · simp only [frameStep, Frame.setFrameLenWith, hh]

/-- the frame machine's length update **is** C17's `set_frame_len_in_header` model: under the
    invariant (cached size = size of the data field) it returns the frame that function returns, and
    refuses (`ValueError`, state unchanged) exactly when that function refuses -/
theorem C11_frame_set_len_is_c17 (ft : FrameType) (s : FrameS) (h : FrameInv ft s) :
    frameStep s .setFrameLen =
      match s.frame.setFrameLenInHeader with
      | .ok f => ({ s with frame := f }, none)
      | .error e => (s, some e.toErr) := by
  have hl : s.len = s.frame.len := by unfold FrameS.len Frame.len; rw [h.1]
  simp only [frameStep, Frame.setFrameLenInHeader, hl]
  rfl

private theorem wf_set_len {f : Frame} {ft : FrameType} (wf : C17.WFFrame f ft) (h : PrimaryHeader)
    (hh : f.header = .primary h) (n : Nat) (hn : n ≤ 65535) :
    C17.WFFrame { f with header := .primary { h with frameLen := n } } ft := by
  obtain ⟨hdr, tfdf, iz, ocf, fecf⟩ := f
  simp only at hh
  subst hh
  obtain ⟨wh, wt, wtr, wo⟩ := wf
  refine ⟨?_, wt, wtr, ?_⟩
  · obtain ⟨w1, _, w3, w4⟩ := wh
    exact ⟨w1, by show n < 65536; omega, w3, w4⟩
  · cases ocf <;> exact wo

/-- every setter call keeps the invariant; a refused call changes nothing; an accepted
    frame-length update leaves the length field equal to the total length minus one (C17's
    `LenSet`), and replacing the data zone never touches header, insert zone, OCF or FECF -/
theorem C11_frame_step (ft : FrameType) (s : FrameS) (o : FrameOp) (h : FrameInv ft s) :
    FrameInv ft (frameStep s o).1 ∧ ((frameStep s o).2 ≠ none → (frameStep s o).1 = s) ∧
    (frameStep s o).1.frame.insertZone = s.frame.insertZone ∧ (frameStep s o).1.frame.ocf = s.frame.ocf ∧
    (frameStep s o).1.frame.fecf = s.frame.fecf ∧
    (o = .setFrameLen → (frameStep s o).2 = none → C17.LenSet (frameStep s o).1.frame) := by
  obtain ⟨h1, h2, h3⟩ := C11_frame_step_spec s
  obtain ⟨hs, wf⟩ := h
  cases o with
  | tfdz d =>
    rw [h1 d]
    split
    · exact ⟨⟨hs, wf⟩, fun _ => rfl, rfl, rfl, rfl, fun e => by cases e⟩
    · refine ⟨⟨rfl, ?_⟩, fun hne => absurd rfl hne, rfl, rfl, rfl, fun e => by cases e⟩
      obtain ⟨wh, wt, wtr, wo⟩ := wf
      exact ⟨wh, wt, wtr, wo⟩
  | setFrameLen =>
    cases hh : s.frame.header with
    | truncated t =>
      rw [h3 t hh]
      exact ⟨⟨hs, wf⟩, fun _ => rfl, rfl, rfl, rfl, fun _ _ => by simp [C17.LenSet, hh]⟩
    | primary p =>
      rw [h2 p hh]
      split
      · exact ⟨⟨hs, wf⟩, fun _ => rfl, rfl, rfl, rfl, fun _ e => by cases e⟩
      · rename_i g
        refine ⟨⟨hs, wf_set_len wf p hh _ (by omega)⟩, fun hne => absurd rfl hne, rfl, rfl, rfl, fun _ _ => ?_⟩
        have hl : s.len = s.frame.len := C11_frame_len ft s ⟨hs, wf⟩
        have h1 : 1 ≤ s.frame.len := by
          unfold Frame.len Tfdf.len Tfdf.headerLen
          split <;> omega
        simp only [C17.LenSet, Frame.len, Header.len, PrimaryHeader.len]
        simp only [Frame.len, hh, Header.len, PrimaryHeader.len] at h1 hl
        omega

theorem C11_frame_reach (ft : FrameType) (s : FrameS) (ops : List FrameOp) (h : FrameInv ft s) :
    FrameInv ft (frameMachine.run s ops) :=
  C11_reach frameMachine (FrameInv ft) (fun s o hs => (C11_frame_step ft s o hs).1) s ops h

/-- **reported length = packed length; the length field holds what the header holds**, and after an
    accepted frame-length update (`LenSet`) that is the number of packed octets minus one -/
theorem C11_frame_pack_len (ft : FrameType) (s : FrameS) (h : FrameInv ft s) :
    ∃ b, framePack s = .ok (b, s) ∧ b.length = s.len ∧
      (∀ p, s.frame.header = .primary p → beNat ((b.drop 4).take 2) = p.frameLen ∧
        (C17.LenSet s.frame → beNat ((b.drop 4).take 2) = b.length - 1)) := by
  obtain ⟨hs, wf⟩ := h
  obtain ⟨hp, hl⟩ := C17.C17_frame_order s.frame ft none wf (Or.inl rfl)
  refine ⟨C17.Spec.frameOctets s.frame, by simp [framePack, hp], ?_, fun p hh => ?_⟩
  · rw [hl, C11_frame_len ft s ⟨hs, wf⟩]
  · have hlt : p.frameLen < 65536 := by
      have := wf.1; rw [hh] at this; exact this.2.1
    have hv : beNat (((C17.Spec.frameOctets s.frame).drop 4).take 2) = p.frameLen := by
      simp only [C17.Spec.frameOctets, C17.Spec.headerOctets, hh, C17.Spec.hdrOctets, C17.Spec.commonOctets]
      simp only [List.cons_append, List.nil_append, List.drop_succ_cons, List.drop_zero, List.take_succ_cons,
        List.take_zero, beNat_two, u8_toNat]
      omega
    refine ⟨hv, fun hset => ?_⟩
    rw [hv, hl]
    simp only [C17.LenSet, hh] at hset
    omega

/-- pack is repeatable IN THE MODEL, by construction of a functional model (bookkeeping lemma: it does
    not carry the property's clause "packing twice yields identical octets and does not change
    equality", which only the tie checks — on the real objects, caches included): the frame carries no cache that `pack` fills; the post-state is the
    object itself -/
theorem C11_frame_pack_idem (s : FrameS) (b : Bytes) (s' : FrameS) (hp : framePack s = .ok (b, s')) :
    s' = s ∧ framePack s' = .ok (b, s') := by
  have hk : s' = s := by
    unfold framePack at hp
    split at hp
    · exact (congrArg Prod.snd (Except.ok.inj hp)).symm
    · cases hp
  subst hk
  exact ⟨rfl, hp⟩

/-- "is a constructor image": the data field is what `TransferFrameDataField(rules, upid, tfdz, fhp)`
    builds from its own values (in particular within the size bound), and the cached size is the
    one that constructor caches -/
def FrameBuilt (r : FrameS) : Prop :=
  Tfdf.new r.frame.tfdf.rules r.frame.tfdf.upid r.frame.tfdf.tfdz r.frame.tfdf.fhp = .ok r.frame.tfdf ∧
  FrameS.ofNew r.frame = r

private theorem tfdf_new_self (t : Tfdf) (d : Bytes)
    (g : ¬ tfdfMaxSize - t.headerLen < t.headerLen + d.length) :
    Tfdf.new t.rules t.upid d t.fhp = .ok { t with tfdz := d } := by
  unfold Tfdf.new
  exact if_neg g

/-- **same as a fresh object**: after any sequence of setter calls, building the data field anew
    from its final values succeeds and the frame built around it, with the header as it now is, is
    exactly this object -/
theorem C11_frame_fresh (f : Frame)
    (hnew : Tfdf.new f.tfdf.rules f.tfdf.upid f.tfdf.tfdz f.tfdf.fhp = .ok f.tfdf) (ops : List FrameOp) :
    FrameBuilt (frameMachine.run (FrameS.ofNew f) ops) := by
  refine C11_reach frameMachine FrameBuilt ?_ _ ops ⟨hnew, rfl⟩
  intro r o ⟨hr, hsz⟩
  obtain ⟨h1, h2, h3⟩ := C11_frame_step_spec r
  have hsize : r.size = r.frame.tfdf.len := by rw [← hsz]; rfl
  cases o with
  | tfdz d =>
    show FrameBuilt (frameStep r (.tfdz d)).1
    rw [h1 d]
    split
    · exact ⟨hr, hsz⟩
    · rename_i g
      exact ⟨tfdf_new_self r.frame.tfdf d g, rfl⟩
  | setFrameLen =>
    show FrameBuilt (frameStep r .setFrameLen).1
    cases hh : r.frame.header with
    | truncated t => rw [h3 t hh]; exact ⟨hr, hsz⟩
    | primary p =>
      rw [h2 p hh]
      split
      · exact ⟨hr, hsz⟩
      · refine ⟨hr, ?_⟩
        simp only [FrameS.ofNew]
        rw [← hsize]

end Uslp

/-! ## EOF PDU (`fault_location`) -/
section Eof
open SpVerif.CfdpHeader SpVerif.FileDirective SpVerif.Eof SpVerif.Tlv

/-- the cached data-field length agrees with large-file flag, CRC flag and fault location (and
    fits 16 bits); the checksum has its four octets; ID widths agree -/
def EofInv (k : Eof) : Prop :=
  k.fd.header.conf.dest.width = k.fd.header.conf.source.width ∧ k.fd.header.dataFieldLen ≤ 65535 ∧
  k.checksum.length = 4 ∧
  k.fd.header.dataFieldLen = eofParamLen k.fd.header.conf.fileFlag k.fd.header.conf.crcFlag k.faultLoc + 1

instance (k : Eof) : Decidable (EofInv k) := by unfold EofInv; infer_instance

/-- "is a constructor image": additionally file-directive type, EOF directive code, direction
    towards the receiver -/
def EofBuilt (k : Eof) : Prop :=
  EofInv k ∧ k.fd.header.pduType = 0 ∧ k.fd.header.segMeta = 0 ∧ k.fd.code = 4 ∧ k.fd.header.conf.direction = 0

instance (k : Eof) : Decidable (EofBuilt k) := by unfold EofBuilt; infer_instance

theorem C11_eof_init (c : PduConfig) (cs : Bytes) (size : Int) (fl : Option EntityIdTlv) (cond : Int) (k : Eof)
    (h : Eof.new c cs size fl cond = .ok k) :
    EofBuilt k ∧ k.faultLoc = fl ∧ k.fd.header.conf = { c with direction := 0 } := by
  rw [Eof.new_eq] at h
  split at h
  · cases h
  · rename_i g1
    split at h
    · cases h
    · rename_i g2
      have := Except.ok.inj h
      subst this
      exact ⟨⟨⟨by simp only; omega, by simp only; omega, by simp only; omega, rfl⟩, rfl, rfl, rfl, rfl⟩, rfl, rfl⟩

/-- **the setter, completely**: refused (`ValueError`, PDU unchanged) exactly when the new
    data-field length would exceed 16 bits; otherwise fault location and cached length change together -/
theorem C11_eof_step_spec (k : Eof) (fl : Option EntityIdTlv) :
    eofStep k (.faultLoc fl) =
      if 65535 < eofParamLen k.fd.header.conf.fileFlag k.fd.header.conf.crcFlag fl + 1 then (k, some .value)
      else ({ k with faultLoc := fl, fd := { k.fd with header := { k.fd.header with
        dataFieldLen := eofParamLen k.fd.header.conf.fileFlag k.fd.header.conf.crcFlag fl + 1 } } }, none) := by
  show (match k.setFaultLoc fl with | .ok k' => (k', none) | .error e => (k, some e)) = _
  rw [setFaultLoc_eq]
  by_cases g : 65535 < eofParamLen k.fd.header.conf.fileFlag k.fd.header.conf.crcFlag fl + 1
  · rw [if_pos g, if_pos g]
  · rw [if_neg g, if_neg g]

theorem C11_eof_step (k : Eof) (o : EofOp) (h : EofBuilt k) :
    EofBuilt (eofStep k o).1 ∧ ((eofStep k o).2 ≠ none → (eofStep k o).1 = k) ∧
    (eofStep k o).1.cond = k.cond ∧ (eofStep k o).1.checksum = k.checksum ∧ (eofStep k o).1.fileSize = k.fileSize ∧
    (eofStep k o).1.fd.header.conf = k.fd.header.conf := by
  obtain ⟨⟨hw, hle, hcs, hd⟩, h1, h2, h3, h4⟩ := h
  cases o with
  | faultLoc fl =>
    rw [C11_eof_step_spec]
    split
    · exact ⟨⟨⟨hw, hle, hcs, hd⟩, h1, h2, h3, h4⟩, fun _ => rfl, rfl, rfl, rfl, rfl⟩
    · exact ⟨⟨⟨hw, by simp only; omega, hcs, rfl⟩, h1, h2, h3, h4⟩, fun hne => absurd rfl hne, rfl, rfl, rfl, rfl⟩

theorem C11_eof_reach (k : Eof) (ops : List EofOp) (h : EofBuilt k) : EofBuilt (eofMachine.run k ops) :=
  C11_reach eofMachine EofBuilt (fun s o hs => (C11_eof_step s o hs).1) k ops h

private theorem eof_packFault_len {fl : Option EntityIdTlv} {b : Bytes} (h : Eof.packFaultLoc fl = .ok b) :
    b.length = Eof.faultLen fl := by
  cases fl with
  | none => cases h; rfl
  | some t => exact CfdpTlv.pack_length t.tlv b h

/-- **reported length = packed length, and the length field says so** -/
theorem C11_eof_pack_len (k : Eof) (h : EofInv k) (b : Bytes) (k' : Eof) (hp : eofPack k = .ok (b, k')) :
    b.length = k.packetLen ∧ beNat ((b.drop 1).take 2) = b.length - k.fd.header.headerLen := by
  obtain ⟨hw, hle, hcs, hd⟩ := h
  unfold eofPack at hp
  obtain ⟨b0, hp0, hp⟩ := bind_ok_inv hp
  have eb : b0 = b := congrArg Prod.fst (pure_ok_inv hp)
  subst eb
  unfold Eof.pack at hp0
  obtain ⟨d, hdp, hp0⟩ := bind_ok_inv hp0
  obtain ⟨c, _, hp0⟩ := bind_ok_inv hp0
  obtain ⟨sz, hsz, hp0⟩ := bind_ok_inv hp0
  obtain ⟨fl, hfl, hp0⟩ := bind_ok_inv hp0
  have eb := pure_ok_inv hp0
  obtain ⟨ld, lf⟩ := fd_pack_inv hdp hw
  have lsz := packInt_len hsz
  have lfl := eof_packFault_len hfl
  have h4 := headerLen_ge k.fd.header
  have hwid : (if k.fd.header.largeFileFlagSet = true then 8 else 4) = fssWidth k.fd.header.conf.fileFlag := by
    unfold PduHeader.largeFileFlagSet fssWidth
    by_cases hf : k.fd.header.conf.fileFlag = 1 <;> simp [hf]
  rw [hwid] at lsz
  have hlen : b0.length = k.fd.header.headerLen + 1 + 1 + 4 + fssWidth k.fd.header.conf.fileFlag
      + Eof.faultLen k.faultLoc + (if k.fd.header.conf.crcFlag = 1 then 2 else 0) := by
    rw [← eb, withCrc_length]
    simp only [List.length_append, List.length_cons, List.length_nil, ld, lsz, lfl, hcs]
  have hfield : (b0.drop 1).take 2 =
      [u8 (k.fd.header.dataFieldLen / 256 % 256), u8 (k.fd.header.dataFieldLen % 256)] := by
    rw [← eb, withCrc_len_field _ _ (by simp only [List.length_append, ld]; omega), List.append_assoc,
      List.append_assoc, List.append_assoc, List.drop_append_of_le_length (by omega),
      List.take_append_of_le_length (by simp; omega), lf]
  have hpl : k.packetLen = k.fd.header.dataFieldLen + k.fd.header.headerLen := rfl
  have hd' : k.fd.header.dataFieldLen = 5 + fssWidth k.fd.header.conf.fileFlag + Eof.faultLen k.faultLoc
      + (if k.fd.header.conf.crcFlag = 1 then 2 else 0) + 1 := hd
  refine ⟨by omega, ?_⟩
  rw [lenfield_val _ _ hle hfield]
  omega

/-- pack is repeatable IN THE MODEL, by construction of a functional model (bookkeeping lemma: it does
    not carry the property's clause "packing twice yields identical octets and does not change
    equality", which only the tie checks — on the real objects, caches included): no cache — the post-state is the object itself -/
theorem C11_eof_pack_idem (k : Eof) (b : Bytes) (k' : Eof) (hp : eofPack k = .ok (b, k')) :
    k' = k ∧ eofPack k' = .ok (b, k') := by
  have hk : k' = k := by
    unfold eofPack at hp
    obtain ⟨b0, _, hp⟩ := bind_ok_inv hp
    exact (congrArg Prod.snd (pure_ok_inv hp)).symm
  subst hk
  exact ⟨rfl, hp⟩

private theorem eof_built_new (k : Eof) (h : EofBuilt k) :
    Eof.new k.fd.header.conf k.checksum k.fileSize k.faultLoc k.cond = .ok k := by
  obtain ⟨⟨⟨pt, sm, dfl, ⟨src, dst, seq, tm, ff, crc, dir, sc⟩⟩, code⟩, cond, cs, size, fl⟩ := k
  obtain ⟨⟨hw, hle, hcs, hd⟩, h1, h2, h3, h4⟩ := h
  simp only at hw hle hcs hd h1 h2 h3 h4
  subst h1 h2 h3 h4 hd
  rw [Eof.new_eq, if_neg (show ¬ cs.length ≠ 4 by omega)]
  refine (if_neg ?_).trans rfl
  simp only
  omega

/-- **same as a fresh object**: after any sequence of setter calls on a constructed EOF PDU,
    the constructor applied to the object's own final values gives exactly this object -/
theorem C11_eof_fresh (c : PduConfig) (cs : Bytes) (size : Int) (fl : Option EntityIdTlv) (cond : Int) (k : Eof)
    (h : Eof.new c cs size fl cond = .ok k) (ops : List EofOp) :
    Eof.new (eofMachine.run k ops).fd.header.conf (eofMachine.run k ops).checksum (eofMachine.run k ops).fileSize
      (eofMachine.run k ops).faultLoc (eofMachine.run k ops).cond = .ok (eofMachine.run k ops) :=
  eof_built_new _ (C11_eof_reach k ops (C11_eof_init c cs size fl cond k h).1)

end Eof

/-! ## Finished PDU (`file_store_responses`, `fault_location`, `condition_code`) -/
section Finished
open SpVerif.CfdpHeader SpVerif.FileDirective SpVerif.Finished SpVerif.Tlv

/-- the cached data-field length agrees with CRC flag, condition code (a fault location is
    counted only when the code can have one), responses and fault location, and fits 16 bits -/
def FinInv (s : FinS) : Prop :=
  s.obj.fd.header.conf.dest.width = s.obj.fd.header.conf.source.width ∧ s.obj.fd.header.dataFieldLen ≤ 65535 ∧
  s.obj.fd.header.dataFieldLen
    = finParamLen s.obj.fd.header.conf.crcFlag s.obj.cond s.obj.responses s.obj.faultLoc + 1

instance (s : FinS) : Decidable (FinInv s) := by unfold FinInv; infer_instance

def FinBuilt (s : FinS) : Prop :=
  FinInv s ∧ s.obj.fd.header.pduType = 0 ∧ s.obj.fd.header.segMeta = 0 ∧ s.obj.fd.code = 5 ∧
  s.obj.fd.header.conf.direction = 1

instance (s : FinS) : Decidable (FinBuilt s) := by unfold FinBuilt; infer_instance

theorem C11_fin_init (c : PduConfig) (cond : Int) (dc fs : Nat) (rs : List FileStoreResponseTlv)
    (fl : Option EntityIdTlv) (k : Finished) (h : Finished.new c cond dc fs rs fl = .ok k) :
    FinBuilt (FinS.ofNew k) ∧ k.responses = rs ∧ k.faultLoc = fl ∧ k.fd.header.conf = { c with direction := 1 } := by
  rw [Finished.new_eq] at h
  split at h
  · cases h
  · rename_i g
    have := Except.ok.inj h
    subst this
    exact ⟨⟨⟨by simp only [FinS.ofNew]; omega, by simp only [FinS.ofNew]; omega, rfl⟩, rfl, rfl, rfl, rfl⟩, rfl, rfl, rfl⟩

/-- **the setters, completely**: each is refused (`ValueError`, object and caches unchanged)
    exactly when the new data-field length would exceed 16 bits -/
theorem C11_fin_step_spec (s : FinS) :
    (∀ c, finStep s (.cond c) =
      if 65535 < finParamLen s.obj.fd.header.conf.crcFlag c s.obj.responses s.obj.faultLoc + 1 then (s, some .value)
      else ({ s with obj := { s.obj with cond := c, fd := { s.obj.fd with header := { s.obj.fd.header with
        dataFieldLen := finParamLen s.obj.fd.header.conf.crcFlag c s.obj.responses s.obj.faultLoc + 1 } } } }, none)) ∧
    (∀ rs, finStep s (.responses rs) =
      if 65535 < finParamLen s.obj.fd.header.conf.crcFlag s.obj.cond (rs.getD []) s.obj.faultLoc + 1 then (s, some .value)
      else (FinS.ofNew { s.obj with responses := rs.getD [], fd := { s.obj.fd with header := { s.obj.fd.header with
        dataFieldLen := finParamLen s.obj.fd.header.conf.crcFlag s.obj.cond (rs.getD []) s.obj.faultLoc + 1 } } }, none)) ∧
    (∀ fl, finStep s (.faultLoc fl) =
      if 65535 < finParamLen s.obj.fd.header.conf.crcFlag s.obj.cond s.obj.responses fl + 1 then (s, some .value)
      else ({ s with obj := { s.obj with faultLoc := fl, fd := { s.obj.fd with header := { s.obj.fd.header with
        dataFieldLen := finParamLen s.obj.fd.header.conf.crcFlag s.obj.cond s.obj.responses fl + 1 } } } }, none)) := by
  refine ⟨fun c => ?_, fun rs => ?_, fun fl => ?_⟩
  · show (match s.obj.setCond c with | .ok k' => ({ s with obj := k' }, none) | .error e => (s, some e)) = _
    rw [setCond_eq]
    by_cases g : 65535 < finParamLen s.obj.fd.header.conf.crcFlag c s.obj.responses s.obj.faultLoc + 1
    · rw [if_pos g, if_pos g]
    · rw [if_neg g, if_neg g]
  · show (match s.obj.setResponses rs with | .ok k' => (FinS.ofNew k', none) | .error e => (s, some e)) = _
    rw [setResponses_eq]
    by_cases g : 65535 < finParamLen s.obj.fd.header.conf.crcFlag s.obj.cond (rs.getD []) s.obj.faultLoc + 1
    · rw [if_pos g, if_pos g]
    · rw [if_neg g, if_neg g]
  · show (match s.obj.setFaultLoc fl with | .ok k' => ({ s with obj := k' }, none) | .error e => (s, some e)) = _
    rw [setFaultLoc_eq]
    by_cases g : 65535 < finParamLen s.obj.fd.header.conf.crcFlag s.obj.cond s.obj.responses fl + 1
    · rw [if_pos g, if_pos g]
    · rw [if_neg g, if_neg g]

theorem C11_fin_step (s : FinS) (o : FinOp) (h : FinBuilt s) :
    FinBuilt (finStep s o).1 ∧ ((finStep s o).2 ≠ none → (finStep s o).1 = s) ∧
    (finStep s o).1.obj.delivery = s.obj.delivery ∧ (finStep s o).1.obj.status = s.obj.status ∧
    (finStep s o).1.obj.fd.header.conf = s.obj.fd.header.conf := by
  obtain ⟨⟨hw, hle, hd⟩, h1, h2, h3, h4⟩ := h
  obtain ⟨s1, s2, s3⟩ := C11_fin_step_spec s
  cases o with
  | cond c =>
    rw [s1 c]
    split
    · exact ⟨⟨⟨hw, hle, hd⟩, h1, h2, h3, h4⟩, fun _ => rfl, rfl, rfl, rfl⟩
    · exact ⟨⟨⟨hw, by simp only; omega, rfl⟩, h1, h2, h3, h4⟩, fun hne => absurd rfl hne, rfl, rfl, rfl⟩
  | responses rs =>
    rw [s2 rs]
    split
    · exact ⟨⟨⟨hw, hle, hd⟩, h1, h2, h3, h4⟩, fun _ => rfl, rfl, rfl, rfl⟩
    · exact ⟨⟨⟨hw, by simp only [FinS.ofNew]; omega, rfl⟩, h1, h2, h3, h4⟩, fun hne => absurd rfl hne, rfl, rfl, rfl⟩
  | faultLoc fl =>
    rw [s3 fl]
    split
    · exact ⟨⟨⟨hw, hle, hd⟩, h1, h2, h3, h4⟩, fun _ => rfl, rfl, rfl, rfl⟩
    · exact ⟨⟨⟨hw, by simp only; omega, rfl⟩, h1, h2, h3, h4⟩, fun hne => absurd rfl hne, rfl, rfl, rfl⟩

theorem C11_fin_reach (s : FinS) (ops : List FinOp) (h : FinBuilt s) : FinBuilt (finMachine.run s ops) :=
  C11_reach finMachine FinBuilt (fun s o hs => (C11_fin_step s o hs).1) s ops h

private theorem packResponses_len : ∀ {l : List FileStoreResponseTlv} {b : Bytes}, packResponses l = .ok b →
    b.length = responsesLen l
  | [], b, h => by cases h; rfl
  | r :: l, b, h => by
    unfold packResponses at h
    obtain ⟨x, hx, h⟩ := bind_ok_inv h
    obtain ⟨rest, hr, h⟩ := bind_ok_inv h
    have := pure_ok_inv h
    subst this
    simp only [List.length_append, responsesLen, FileStoreResponseTlv.pack_length r x hx, packResponses_len hr]

private theorem fin_packFault_len {cond : Int} {fl : Option EntityIdTlv} {b : Bytes}
    (h : Finished.packFaultLoc cond fl = .ok b) : b.length = Finished.faultLen cond fl := by
  cases fl with
  | none => cases h; rfl
  | some t =>
    show b.length = if mightHaveFaultLoc cond then t.packetLen else 0
    have h' : (if mightHaveFaultLoc cond then t.pack else pure []) = .ok b := h
    by_cases g : mightHaveFaultLoc cond = true
    · rw [if_pos g] at h' ⊢; exact CfdpTlv.pack_length t.tlv b h'
    · rw [if_neg g] at h' ⊢; cases h'; rfl

/-- the octets of the state machine's `pack` are those of the owning model's `Finished.pack`: the
    caches never influence them -/
theorem C11_fin_pack_octets (s : FinS) (b : Bytes) (s' : FinS) (hp : s.pack = .ok (b, s')) : s.obj.pack = .ok b := by
  unfold FinS.pack at hp
  obtain ⟨b0, hp0, hp⟩ := bind_ok_inv hp
  obtain ⟨cs, _, hp⟩ := bind_ok_inv hp
  have eb : b0 = b := congrArg Prod.fst (pure_ok_inv hp)
  rw [← eb]; exact hp0

/-- **reported length = packed length, and the length field says so** -/
theorem C11_fin_pack_len (s : FinS) (h : FinInv s) (b : Bytes) (s' : FinS) (hp : s.pack = .ok (b, s')) :
    b.length = s.reported ∧ beNat ((b.drop 1).take 2) = b.length - s.obj.fd.header.headerLen := by
  obtain ⟨hw, hle, hd⟩ := h
  have hp0 := C11_fin_pack_octets s b s' hp
  unfold Finished.pack at hp0
  obtain ⟨d, hdp, hp0⟩ := bind_ok_inv hp0
  by_cases hneg : s.obj.cond < 0
  · simp [hneg, bind, Except.bind, throw, throwThe, MonadExceptOf.throw] at hp0
  · simp only [hneg, ↓reduceIte] at hp0
    obtain ⟨x, _, hp0⟩ := bind_ok_inv hp0
    obtain ⟨rs, hrs, hp0⟩ := bind_ok_inv hp0
    obtain ⟨fl, hfl, hp0⟩ := bind_ok_inv hp0
    have eb := pure_ok_inv hp0
    obtain ⟨ld, lf⟩ := fd_pack_inv hdp hw
    have lrs := packResponses_len hrs
    have lfl := fin_packFault_len hfl
    have h4 := headerLen_ge s.obj.fd.header
    have hlen : b.length = s.obj.fd.header.headerLen + 1 + 1 + responsesLen s.obj.responses
        + Finished.faultLen s.obj.cond s.obj.faultLoc + (if s.obj.fd.header.conf.crcFlag = 1 then 2 else 0) := by
      rw [← eb, withCrc_length]
      simp only [List.length_append, List.length_cons, List.length_nil, ld, lrs, lfl]
    have hfield : (b.drop 1).take 2 =
        [u8 (s.obj.fd.header.dataFieldLen / 256 % 256), u8 (s.obj.fd.header.dataFieldLen % 256)] := by
      rw [← eb, withCrc_len_field _ _ (by simp only [List.length_append, ld]; omega), List.append_assoc,
        List.append_assoc, List.drop_append_of_le_length (by omega),
        List.take_append_of_le_length (by simp; omega), lf]
    have hpl : s.reported = s.obj.fd.header.dataFieldLen + s.obj.fd.header.headerLen := rfl
    have hd' : s.obj.fd.header.dataFieldLen = (if s.obj.fd.header.conf.crcFlag = 1 then 3 else 1)
        + Finished.faultLen s.obj.cond s.obj.faultLoc + responsesLen s.obj.responses + 1 := hd
    have hsplit : (if s.obj.fd.header.conf.crcFlag = 1 then 3 else 1)
        = 1 + (if s.obj.fd.header.conf.crcFlag = 1 then 2 else 0) := by split <;> rfl
    refine ⟨by omega, ?_⟩
    rw [lenfield_val _ _ hle hfield]
    omega

/-- pack is repeatable IN THE MODEL, by construction of a functional model (bookkeeping lemma: it does
    not carry the property's clause "packing twice yields identical octets and does not change
    equality", which only the tie checks — on the real objects, caches included): packing the post-state gives the same octets and the same post-state;
    pre- and post-state differ in the filestore-response TLV caches only, which `==` never looks
    at: every equality verdict against any other object is the same before and after -/
theorem C11_fin_pack_idem (s : FinS) (b : Bytes) (s' : FinS) (hp : s.pack = .ok (b, s')) :
    s'.pack = .ok (b, s') ∧ s'.obj = s.obj ∧ ∀ x, FinS.beq x s' = FinS.beq x s ∧ FinS.beq s' x = FinS.beq s x := by
  have hp' := hp
  unfold FinS.pack at hp
  obtain ⟨b0, hp0, hp⟩ := bind_ok_inv hp
  obtain ⟨cs, hcs, hp⟩ := bind_ok_inv hp
  have e := pure_ok_inv hp
  have eb : b0 = b := congrArg Prod.fst e
  have es : s' = { s with cache := cs.map some } := (congrArg Prod.snd e).symm
  have ho : s'.obj = s.obj := by rw [es]
  refine ⟨?_, ho, fun x => ⟨by simp only [FinS.beq, ho], by simp only [FinS.beq, ho]⟩⟩
  subst es eb
  simp only [FinS.pack, hp0, hcs, bind, Except.bind, pure, Except.pure]

private theorem fin_built_new (s : FinS) (h : FinBuilt s) :
    Finished.new s.obj.fd.header.conf s.obj.cond s.obj.delivery s.obj.status s.obj.responses s.obj.faultLoc = .ok s.obj := by
  obtain ⟨⟨⟨⟨pt, sm, dfl, ⟨src, dst, seq, tm, ff, crc, dir, sc⟩⟩, code⟩, cond, dc, fs, rs, fl⟩, cache⟩ := s
  obtain ⟨⟨hw, hle, hd⟩, h1, h2, h3, h4⟩ := h
  simp only at hw hle hd h1 h2 h3 h4
  subst h1 h2 h3 h4 hd
  rw [Finished.new_eq]
  refine (if_neg ?_).trans rfl
  simp only
  omega

/-- **same as a fresh object**: after any sequence of setter calls on a constructed Finished PDU,
    the constructor applied to the object's own final values gives exactly this PDU -/
theorem C11_fin_fresh (c : PduConfig) (cond : Int) (dc fs : Nat) (rs : List FileStoreResponseTlv)
    (fl : Option EntityIdTlv) (k : Finished) (h : Finished.new c cond dc fs rs fl = .ok k) (ops : List FinOp) :
    Finished.new (finMachine.run (FinS.ofNew k) ops).obj.fd.header.conf (finMachine.run (FinS.ofNew k) ops).obj.cond
      (finMachine.run (FinS.ofNew k) ops).obj.delivery (finMachine.run (FinS.ofNew k) ops).obj.status
      (finMachine.run (FinS.ofNew k) ops).obj.responses (finMachine.run (FinS.ofNew k) ops).obj.faultLoc
        = .ok (finMachine.run (FinS.ofNew k) ops).obj :=
  fin_built_new _ (C11_fin_reach _ ops (C11_fin_init c cond dc fs rs fl k h).1)

end Finished

/-! ## Metadata PDU (`options`, `source_file_name`, `dest_file_name`) -/
section Metadata
open SpVerif.CfdpHeader SpVerif.FileDirective SpVerif.Metadata SpVerif.Tlv SpVerif.Lv

/-- the cached data-field length agrees with the flags, both file-name LVs and the options, and
    fits 16 bits -/
def MdInv (k : Metadata) : Prop :=
  k.fd.header.conf.dest.width = k.fd.header.conf.source.width ∧ k.fd.header.dataFieldLen ≤ 65535 ∧
  k.fd.header.dataFieldLen
    = mdParamLen k.fd.header.conf.fileFlag k.fd.header.conf.crcFlag k.srcLv k.dstLv k.options + 1

instance (k : Metadata) : Decidable (MdInv k) := by unfold MdInv; infer_instance

def MdBuilt (k : Metadata) : Prop :=
  MdInv k ∧ k.fd.header.pduType = 0 ∧ k.fd.header.segMeta = 0 ∧ k.fd.code = 7 ∧ k.fd.header.conf.direction = 0 ∧
  k.srcLv.value.length ≤ 255 ∧ k.dstLv.value.length ≤ 255

instance (k : Metadata) : Decidable (MdBuilt k) := by unfold MdBuilt; infer_instance

theorem C11_md_init (c : PduConfig) (cl : Bool) (ct : Nat) (size : Int) (src dst : Option Bytes)
    (opts : Option (List AnyTlv)) (k : Metadata) (h : Metadata.new c cl ct size src dst opts = .ok k) :
    MdBuilt k ∧ k.options = opts ∧ k.srcLv.value = nameOctets src ∧ k.dstLv.value = nameOctets dst ∧
    k.fd.header.conf = { c with direction := 0 } := by
  rw [Metadata.new_eq] at h
  split at h
  · cases h
  · rename_i g1
    split at h
    · cases h
    · rename_i g2
      have := Except.ok.inj h
      subst this
      exact ⟨⟨⟨by simp only; omega, by simp only; omega, rfl⟩, rfl, rfl, rfl, rfl, by simp only; omega, by simp only; omega⟩,
        rfl, rfl, rfl, rfl⟩

/-- **the setters, completely**: a file name of more than 255 octets is refused before anything
    is assigned; every setter is refused (`ValueError`, PDU unchanged) when the new data-field
    length would exceed 16 bits -/
theorem C11_md_step_spec (k : Metadata) :
    (∀ o, mdStep k (.options o) =
      if 65535 < mdParamLen k.fd.header.conf.fileFlag k.fd.header.conf.crcFlag k.srcLv k.dstLv o + 1 then (k, some .value)
      else ({ k with options := o, fd := { k.fd with header := { k.fd.header with
        dataFieldLen := mdParamLen k.fd.header.conf.fileFlag k.fd.header.conf.crcFlag k.srcLv k.dstLv o + 1 } } }, none)) ∧
    (∀ n, mdStep k (.srcName n) =
      if 255 < (nameOctets n).length ∨
        65535 < mdParamLen k.fd.header.conf.fileFlag k.fd.header.conf.crcFlag ⟨nameOctets n⟩ k.dstLv k.options + 1
      then (k, some .value)
      else ({ k with srcLv := ⟨nameOctets n⟩, fd := { k.fd with header := { k.fd.header with
        dataFieldLen :=
          mdParamLen k.fd.header.conf.fileFlag k.fd.header.conf.crcFlag ⟨nameOctets n⟩ k.dstLv k.options + 1 } } }, none)) ∧
    (∀ n, mdStep k (.dstName n) =
      if 255 < (nameOctets n).length ∨
        65535 < mdParamLen k.fd.header.conf.fileFlag k.fd.header.conf.crcFlag k.srcLv ⟨nameOctets n⟩ k.options + 1
      then (k, some .value)
      else ({ k with dstLv := ⟨nameOctets n⟩, fd := { k.fd with header := { k.fd.header with
        dataFieldLen :=
          mdParamLen k.fd.header.conf.fileFlag k.fd.header.conf.crcFlag k.srcLv ⟨nameOctets n⟩ k.options + 1 } } }, none)) := by
  refine ⟨fun o => ?_, fun n => ?_, fun n => ?_⟩
  · show (match k.setOptions o with | .ok k' => (k', none) | .error e => (k, some e)) = _
    rw [setOptions_eq]
    by_cases g : 65535 < mdParamLen k.fd.header.conf.fileFlag k.fd.header.conf.crcFlag k.srcLv k.dstLv o + 1
    · rw [if_pos g, if_pos g]
    · rw [if_neg g, if_neg g]
  · show (match k.setSrcName n with | .ok k' => (k', none) | .error e => (k, some e)) = _
    rw [setSrcName_eq]
    by_cases g : 255 < (nameOctets n).length ∨
        65535 < mdParamLen k.fd.header.conf.fileFlag k.fd.header.conf.crcFlag ⟨nameOctets n⟩ k.dstLv k.options + 1
    · rw [if_pos g, if_pos g]
    · rw [if_neg g, if_neg g]
  · show (match k.setDstName n with | .ok k' => (k', none) | .error e => (k, some e)) = _
    rw [setDstName_eq]
    by_cases g : 255 < (nameOctets n).length ∨
        65535 < mdParamLen k.fd.header.conf.fileFlag k.fd.header.conf.crcFlag k.srcLv ⟨nameOctets n⟩ k.options + 1
    · rw [if_pos g, if_pos g]
    · rw [if_neg g, if_neg g]

theorem C11_md_step (k : Metadata) (o : MdOp) (h : MdBuilt k) :
    MdBuilt (mdStep k o).1 ∧ ((mdStep k o).2 ≠ none → (mdStep k o).1 = k) ∧
    (mdStep k o).1.closure = k.closure ∧ (mdStep k o).1.checksumType = k.checksumType ∧
    (mdStep k o).1.fileSize = k.fileSize ∧ (mdStep k o).1.fd.header.conf = k.fd.header.conf := by
  obtain ⟨⟨hw, hle, hd⟩, h1, h2, h3, h4, h5, h6⟩ := h
  obtain ⟨s1, s2, s3⟩ := C11_md_step_spec k
  cases o with
  | options o =>
    rw [s1 o]
    split
    · exact ⟨⟨⟨hw, hle, hd⟩, h1, h2, h3, h4, h5, h6⟩, fun _ => rfl, rfl, rfl, rfl, rfl⟩
    · exact ⟨⟨⟨hw, by simp only; omega, rfl⟩, h1, h2, h3, h4, h5, h6⟩, fun hne => absurd rfl hne, rfl, rfl, rfl, rfl⟩
  | srcName n =>
    rw [s2 n]
    split
    · exact ⟨⟨⟨hw, hle, hd⟩, h1, h2, h3, h4, h5, h6⟩, fun _ => rfl, rfl, rfl, rfl, rfl⟩
    · exact ⟨⟨⟨hw, by simp only; omega, rfl⟩, h1, h2, h3, h4, by simp only; omega, h6⟩,
        fun hne => absurd rfl hne, rfl, rfl, rfl, rfl⟩
  | dstName n =>
    rw [s3 n]
    split
    · exact ⟨⟨⟨hw, hle, hd⟩, h1, h2, h3, h4, h5, h6⟩, fun _ => rfl, rfl, rfl, rfl, rfl⟩
    · exact ⟨⟨⟨hw, by simp only; omega, rfl⟩, h1, h2, h3, h4, h5, by simp only; omega⟩,
        fun hne => absurd rfl hne, rfl, rfl, rfl, rfl⟩

theorem C11_md_reach (k : Metadata) (ops : List MdOp) (h : MdBuilt k) : MdBuilt (mdMachine.run k ops) :=
  C11_reach mdMachine MdBuilt (fun s o hs => (C11_md_step s o hs).1) k ops h

private theorem packOptions_len : ∀ {l : List AnyTlv} {b : Bytes}, packOptions l = .ok b → b.length = optionsLen l
  | [], b, h => by cases h; rfl
  | t :: l, b, h => by
    unfold packOptions at h
    obtain ⟨x, hx, h⟩ := bind_ok_inv h
    obtain ⟨rest, hr, h⟩ := bind_ok_inv h
    have := pure_ok_inv h
    subst this
    simp only [List.length_append, optionsLen, C08.C08_packet_len t x hx, packOptions_len hr]

/-- **reported length = packed length, and the length field says so** -/
theorem C11_md_pack_len (k : Metadata) (h : MdInv k) (b : Bytes) (k' : Metadata) (hp : mdPack k = .ok (b, k')) :
    b.length = k.packetLen ∧ beNat ((b.drop 1).take 2) = b.length - k.fd.header.headerLen := by
  obtain ⟨hw, hle, hd⟩ := h
  unfold mdPack at hp
  obtain ⟨b0, hp0, hp⟩ := bind_ok_inv hp
  have eb : b0 = b := congrArg Prod.fst (pure_ok_inv hp)
  subst eb
  unfold Metadata.pack at hp0
  obtain ⟨_, _, hp0⟩ := bind_ok_inv hp0
  obtain ⟨d, hdp, hp0⟩ := bind_ok_inv hp0
  obtain ⟨x, _, hp0⟩ := bind_ok_inv hp0
  obtain ⟨sz, hsz, hp0⟩ := bind_ok_inv hp0
  obtain ⟨sv, hsv, hp0⟩ := bind_ok_inv hp0
  obtain ⟨tv, htv, hp0⟩ := bind_ok_inv hp0
  obtain ⟨ov, hov, hp0⟩ := bind_ok_inv hp0
  have eb := pure_ok_inv hp0
  obtain ⟨ld, lf⟩ := fd_pack_inv hdp hw
  have lsz := packInt_len hsz
  have lsv := CfdpLv.pack_length _ _ hsv
  have ltv := CfdpLv.pack_length _ _ htv
  have lov := packOptions_len hov
  have h4 := headerLen_ge k.fd.header
  have hwid : (if k.fd.header.largeFileFlagSet = true then 8 else 4) = fssWidth k.fd.header.conf.fileFlag := by
    unfold PduHeader.largeFileFlagSet fssWidth
    by_cases hf : k.fd.header.conf.fileFlag = 1 <;> simp [hf]
  rw [hwid] at lsz
  have hlen : b0.length = k.fd.header.headerLen + 1 + 1 + fssWidth k.fd.header.conf.fileFlag + k.srcLv.packetLen
      + k.dstLv.packetLen + optionsLen (optList k.options) + (if k.fd.header.conf.crcFlag = 1 then 2 else 0) := by
    rw [← eb, withCrc_length]
    simp only [List.length_append, List.length_cons, List.length_nil, ld, lsz, lsv, ltv, lov]
  have hfield : (b0.drop 1).take 2 =
      [u8 (k.fd.header.dataFieldLen / 256 % 256), u8 (k.fd.header.dataFieldLen % 256)] := by
    rw [← eb, withCrc_len_field _ _ (by simp only [List.length_append, ld]; omega), List.append_assoc,
      List.append_assoc, List.append_assoc, List.append_assoc, List.drop_append_of_le_length (by omega),
      List.take_append_of_le_length (by simp; omega), lf]
  have hpl : k.packetLen = k.fd.header.dataFieldLen + k.fd.header.headerLen := rfl
  have hd' : k.fd.header.dataFieldLen = 1 + fssWidth k.fd.header.conf.fileFlag + k.srcLv.packetLen + k.dstLv.packetLen
      + optionsLen (optList k.options) + (if k.fd.header.conf.crcFlag = 1 then 2 else 0) + 1 := hd
  refine ⟨by omega, ?_⟩
  rw [lenfield_val _ _ hle hfield]
  omega

theorem C11_md_pack_idem (k : Metadata) (b : Bytes) (k' : Metadata) (hp : mdPack k = .ok (b, k')) :
    k' = k ∧ mdPack k' = .ok (b, k') := by
  have hk : k' = k := by
    unfold mdPack at hp
    obtain ⟨b0, _, hp⟩ := bind_ok_inv hp
    exact (congrArg Prod.snd (pure_ok_inv hp)).symm
  subst hk
  exact ⟨rfl, hp⟩

private theorem md_built_new (k : Metadata) (h : MdBuilt k) :
    Metadata.new k.fd.header.conf k.closure k.checksumType k.fileSize (some k.srcLv.value) (some k.dstLv.value) k.options
      = .ok k := by
  obtain ⟨⟨⟨pt, sm, dfl, ⟨src, dst, seq, tm, ff, crc, dir, sc⟩⟩, code⟩, cl, ct, size, ⟨sv⟩, ⟨dv⟩, opts⟩ := k
  obtain ⟨⟨hw, hle, hd⟩, h1, h2, h3, h4, h5, h6⟩ := h
  simp only at hw hle hd h1 h2 h3 h4 h5 h6
  subst h1 h2 h3 h4 hd
  rw [Metadata.new_eq]
  refine (if_neg ?_).trans ?_
  · simp only [nameOctets]; omega
  · refine (if_neg ?_).trans rfl
    simp only [nameOctets]
    omega

/-- **same as a fresh object**: after any sequence of setter calls on a constructed Metadata PDU,
    the constructor applied to the object's own final values (file names as their LV octets) gives
    exactly this object -/
theorem C11_md_fresh (c : PduConfig) (cl : Bool) (ct : Nat) (size : Int) (src dst : Option Bytes)
    (opts : Option (List AnyTlv)) (k : Metadata) (h : Metadata.new c cl ct size src dst opts = .ok k) (ops : List MdOp) :
    Metadata.new (mdMachine.run k ops).fd.header.conf (mdMachine.run k ops).closure (mdMachine.run k ops).checksumType
      (mdMachine.run k ops).fileSize (some (mdMachine.run k ops).srcLv.value) (some (mdMachine.run k ops).dstLv.value)
      (mdMachine.run k ops).options = .ok (mdMachine.run k ops) :=
  md_built_new _ (C11_md_reach k ops (C11_md_init c cl ct size src dst opts k h).1)

end Metadata

/-! ## decode, then continue: decoded objects start inside the invariant as well -/
section Decoded
open SpVerif.PusTc SpVerif.PusTm SpVerif.SpacePacket SpVerif.CfdpHeader SpVerif.FileDirective

/-- a decoded telecommand satisfies the invariant (so every theorem above applies to setter
    sequences that start from `PusTc.unpack`) -/
theorem C11_tc_unpack_inv (d : Bytes) (s : TcS) (h : TcS.ofUnpack d = .ok s) : TcInv s := by
  unfold TcS.ofUnpack at h
  obtain ⟨t, ht, h⟩ := bind_ok_inv h
  have := pure_ok_inv h
  subst this
  obtain ⟨h13, hle, _, hdata, _⟩ := C02.C02_accept_sound d t ht
  have hl : t.appData.length = t.packetLen - 13 := by
    rw [hdata]; simp only [slice_length]; omega
  simp only [TcInv, PusTc.dataLength]
  simp only [Tc.packetLen, Sph.packetLen] at hl h13
  omega

theorem C11_tm_unpack_inv (d : Bytes) (n : Nat) (s : TmS) (h : TmS.ofUnpack d n = .ok s) : TmInv s := by
  unfold TmS.ofUnpack at h
  obtain ⟨t, ht, h⟩ := bind_ok_inv h
  have := pure_ok_inv h
  subst this
  obtain ⟨h13, hle, _, hts, hdata⟩ := C03.C03_accept_sound d n t ht
  have hl : t.sourceData.length = t.packetLen - (15 + n) := by
    rw [hdata]; simp only [slice_length]; omega
  simp only [TmInv, PusTm.dataLen, hts]
  simp only [Tm.packetLen, Sph.packetLen] at hl h13
  omega

theorem C11_fd_unpack_inv (d : Bytes) (p : FileData.Pdu) (h : FileData.Pdu.unpack d = .ok p) : FdInv p := by
  obtain ⟨wf, _, _, _⟩ := C07.C07_decode_encode d p h
  obtain ⟨wh, hflag, hdfl, _, _⟩ := wf
  obtain ⟨_, _, _, _, _, _, _, hlt, _, _, _, hw⟩ := wh
  exact ⟨⟨hdfl, hflag⟩, hw, by omega⟩

theorem C11_nak_unpack_inv (d : Bytes) (k : Nak.Nak) (h : Nak.Nak.unpack d = .ok k) : NakInv k := by
  obtain ⟨hp, _, _, _, _, hdfl, _⟩ := Nak.unpack_inv d k h
  obtain ⟨wh, _, _, _, _, _⟩ := prelude_facts d _ _ hp
  obtain ⟨_, _, _, _, hff, _, _, hlt, _, _, _, hw⟩ := wh
  exact ⟨hff, hw, by omega, hdfl⟩

end Decoded

/-! ## caller inputs -/
section Caller
open SpVerif.CfdpHeader

/-- **the caller's configuration after a constructor call** — *partial*: in the functional model
    the constructor receives a value, so "not modified" is true by construction (`withCaller`
    returns the caller's argument as it was). What the theorem adds is the other half of the
    copy-on-construct contract for the six mutable CFDP kinds: the object's own configuration is the
    caller's with the direction forced (NAK, Keep Alive, Finished: towards the sender; File Data,
    EOF, Metadata: towards the receiver) — so a constructor that stored the caller's object and
    then forced the direction on it (the former `NakPdu.__init__`) would have changed the caller's
    `direction`, which is what the tie observes on the real objects. -/
theorem C11_conf_untouched (c : PduConfig) :
    (∀ s e segs k, Nak.Nak.new c s e segs = .ok k → c.fileFlag < 2 →
      withCaller c (Nak.Nak.new c s e segs) = .ok (k, c) ∧ k.fd.header.conf = { c with direction := 1 }) ∧
    (∀ pr k, KeepAlive.KeepAlive.new c pr = .ok k →
      withCaller c (KeepAlive.KeepAlive.new c pr) = .ok (k, c) ∧ k.fd.header.conf = { c with direction := 1 }) ∧
    (∀ ps p, FileData.Pdu.new c ps = .ok p →
      withCaller c (FileData.Pdu.new c ps) = .ok (p, c) ∧ p.header.conf = { c with direction := 0 }) ∧
    (∀ cs size fl cond k, Eof.Eof.new c cs size fl cond = .ok k →
      withCaller c (Eof.Eof.new c cs size fl cond) = .ok (k, c) ∧ k.fd.header.conf = { c with direction := 0 }) ∧
    (∀ cond dc fs rs fl k, Finished.Finished.new c cond dc fs rs fl = .ok k →
      withCaller c (Finished.Finished.new c cond dc fs rs fl) = .ok (k, c) ∧
      k.fd.header.conf = { c with direction := 1 }) ∧
    (∀ cl ct size src dst opts k, Metadata.Metadata.new c cl ct size src dst opts = .ok k →
      withCaller c (Metadata.Metadata.new c cl ct size src dst opts) = .ok (k, c) ∧
      k.fd.header.conf = { c with direction := 0 }) := by
  refine ⟨fun s e segs k h hf => ⟨by rw [h]; rfl, (C11_nak_init c hf s e segs k h).2.2⟩,
    fun pr k h => ⟨by rw [h]; rfl, (C11_ka_init c pr k h).2.2⟩,
    fun ps p h => ⟨by rw [h]; rfl, (C11_fd_init c ps p h).2.2⟩,
    fun cs size fl cond k h => ⟨by rw [h]; rfl, (C11_eof_init c cs size fl cond k h).2.2⟩,
    fun cond dc fs rs fl k h => ⟨by rw [h]; rfl, (C11_fin_init c cond dc fs rs fl k h).2.2.2⟩,
    fun cl ct size src dst opts k h => ⟨by rw [h]; rfl, (C11_md_init c cl ct size src dst opts k h).2.2.2.2⟩⟩

end Caller

/-! ## non-vacuity -/
section Examples
open SpVerif.PusTc SpVerif.CfdpHeader

private def tc0 : Tc := ⟨⟨0, 1, 1, 0x42, 3, 7, 8⟩, ⟨15, 17, 1, 0⟩, [1, 2]⟩
private def nak0 : Nak.Nak := ⟨⟨⟨0, 0, 19, ⟨⟨1, 1⟩, ⟨1, 2⟩, ⟨1, 3⟩, 0, 0, 1, 1, 0⟩⟩, 8⟩, 0, 640, [(0, 128)]⟩
private def fd0 : FileData.Pdu :=
  ⟨⟨1, 1, 1 + 3 + 8 + 2 + 2, ⟨⟨2, 1⟩, ⟨2, 2⟩, ⟨1, 3⟩, 0, 1, 1, 0, 0⟩⟩, ⟨[0xDE, 0xAD], 5, some ⟨3, [7, 8, 9]⟩⟩⟩

example : Tc.new 17 1 0x42 [1, 2] 7 0 15 = .ok tc0 := rfl
example : TcInv (TcS.ofNew tc0) := by decide
example : NakInv nak0 := by decide
example : FdInv fd0 ∧ FdBuilt fd0 := by decide
-- a refused call in the middle of a sequence: the object stays as it was and the sequence goes on
example : (tcStep (TcS.ofNew tc0) (.appData (List.replicate 65530 0))) = (TcS.ofNew tc0, some .value) := by
  rw [C11_tc_step_spec, if_pos (by rw [List.length_replicate]; omega)]
example : (tcMachine.run (TcS.ofNew tc0) [.appData [9], .appData (List.replicate 65530 0), .appData [3, 4, 5]]).obj.sph.dlen = 9 := by
  have h1 : ¬ 65529 < ([9] : Bytes).length := by decide
  have h2 : 65529 < (List.replicate 65530 (0 : UInt8)).length := by rw [List.length_replicate]; omega
  have h3 : ¬ 65529 < ([3, 4, 5] : Bytes).length := by decide
  simp only [Machine.run, List.foldl_cons, List.foldl_nil, tcMachine, C11_tc_step_spec, if_neg h1, if_pos h2, if_neg h3]
  rfl
example : (nakStep nak0 (.segs (List.replicate 8191 (0, 0)))).2 = some .value := by
  rw [(C11_nak_step_spec nak0 (by decide)).1, if_pos (by rw [List.length_replicate]; decide)]
example : (nakStep nak0 (.fileFlag 1)).1.fd.header.dataFieldLen = 35 := by decide
example : (kaStep ⟨⟨⟨0, 0, 7, ⟨⟨1, 1⟩, ⟨1, 2⟩, ⟨1, 3⟩, 0, 0, 1, 1, 0⟩⟩, 12⟩, 5⟩ (.fileFlag 1)).1.fd.header.dataFieldLen = 11 := by
  decide
example : (fdStep fd0 (.fileData (List.replicate 65535 0))).2 = some .value := by
  have h : 65535 < (fd0.put (.fileData (List.replicate 65535 0))).calcLen := by
    have := FileData.offWidth_pos (fd0.put (.fileData (List.replicate 65535 0))).header
    rw [FileData.calcLen_eq]
    simp only [FileData.Pdu.put, FileData.Pdu.putFileData, List.length_replicate]
    simp only [FileData.Pdu.put, FileData.Pdu.putFileData] at this
    omega
  rw [C11_fd_step_spec, if_pos h]

end Examples

end SpVerif.Props.C11
