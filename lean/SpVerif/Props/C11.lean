import SpVerif.Model.Mutation
/-!
# C11 — lengths track mutations, pack is repeatable, caller inputs are not modified
-/
namespace SpVerif.Props.C11
open SpVerif SpVerif.Mutation

variable {S O : Type}

/-- **reachability principle**: a predicate kept by every single setter call (accepted or refused)
    holds after every finite sequence of calls -/
theorem C11_reach (m : Machine S O) (Inv : S → Prop) (hstep : ∀ s o, Inv s → Inv (m.step s o).1)
    (s : S) (ops : List O) (h : Inv s) : Inv (m.run s ops) := by
  induction ops generalizing s with
  | nil => exact h
  | cons o rest ih => exact ih _ (hstep s o h)

end SpVerif.Props.C11
