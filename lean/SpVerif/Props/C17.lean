import SpVerif.Proofs.Uslp
set_option linter.unusedVariables false
set_option linter.unusedSimpArgs false
/-!
# C17 — USLP headers and transfer frames encode exactly per CCSDS 732.1-B-2 and round-trip

Property theorems only. `Spec.*` are the layouts of the Blue Book as arithmetic:
octet 0 = TFVN `1100` | SCID[15:12], octet 1 = SCID[11:4], octet 2 = SCID[3:0] | source/dest |
VCID[5:3], octet 3 = VCID[2:0] | MAP ID | end-of-header flag, octets 4–5 = frame length,
octet 6 = bypass | protocol-command | spare(2) | OCF flag | VCF count length(3), then the VCF count
big-endian in 0..7 octets; data field header = construction rule(3) | protocol id(5), optional
16-bit pointer; frame = header ‖ insert zone ‖ data field ‖ OCF ‖ FECF.

Errors: `UErr.uslp k` is the individual `Uslp*` exception class, `UErr.py .value` is `ValueError`.
-/
namespace SpVerif.Props.C17
open SpVerif SpVerif.Uslp

/-- the VCF count fits its declared length (a count of length 0 carries no value) -/
def vcfOk (n : Nat) : Option Nat → Prop
  | some c => n = 0 ∨ c < 256 ^ n
  | none => n = 0

instance (n : Nat) (c : Option Nat) : Decidable (vcfOk n c) := by
  cases c <;> unfold vcfOk <;> infer_instance

def WFIds (scid vcid mapId : Int) : Prop :=
  0 ≤ scid ∧ scid ≤ 65535 ∧ 0 ≤ vcid ∧ vcid ≤ 63 ∧ 0 ≤ mapId ∧ mapId ≤ 15

def WFHdr (h : PrimaryHeader) : Prop :=
  WFIds h.scid h.vcid h.mapId ∧ h.frameLen < 65536 ∧ h.vcfLen ≤ 7 ∧ vcfOk h.vcfLen h.vcfCount

instance (h : PrimaryHeader) : Decidable (WFHdr h) := by unfold WFHdr WFIds; infer_instance

def WFTHdr (h : TruncatedHeader) : Prop := WFIds h.scid h.vcid h.mapId
instance (h : TruncatedHeader) : Decidable (WFTHdr h) := by unfold WFTHdr WFIds; infer_instance

/-- CCSDS 732.1-B-2 §4.1.2.2–4.1.2.5 -/
def Spec.commonOctets (scid : Nat) (srcDest : Bool) (vcid mapId : Nat) (endOfHeader : Bool) : Bytes :=
  [u8 (12 * 16 + scid / 4096), u8 (scid / 16 % 256),
   u8 (scid % 16 * 16 + b2n srcDest * 8 + vcid / 8), u8 (vcid % 8 * 32 + mapId * 2 + b2n endOfHeader)]

def Spec.thdrOctets (h : TruncatedHeader) : Bytes :=
  Spec.commonOctets h.scid.toNat h.srcDest h.vcid.toNat h.mapId.toNat true

def Spec.hdrOctets (h : PrimaryHeader) : Bytes :=
  Spec.commonOctets h.scid.toNat h.srcDest h.vcid.toNat h.mapId.toNat false ++
  [u8 (h.frameLen / 256), u8 (h.frameLen % 256),
   u8 (b2n h.bypass * 128 + b2n h.protCmd * 64 + b2n h.ocf * 8 + h.vcfLen)] ++
  beBytes h.vcfLen (h.vcfCount.getD 0)

def normHdr (h : PrimaryHeader) : PrimaryHeader :=
  if h.vcfLen = 0 then { h with vcfCount := some 0 } else h

private theorem b2n_le (b : Bool) : b2n b ≤ 1 := by cases b <;> simp [b2n]

private theorem packVcf_ok (n : Nat) (c : Option Nat) (hn : n ≤ 7) (hc : vcfOk n c) :
    packVcf n c = .ok (beBytes n (c.getD 0)) := by
  unfold packVcf
  cases c with
  | none =>
    have : n = 0 := hc
    subst this; simp [beBytes]
  | some c =>
    have hc' : n = 0 ∨ c < 256 ^ n := hc
    by_cases h1 : n = 1
    · subst h1
      have : c < 256 := by omega
      simp [byteOfN_ok this, beBytes_1, bind, Except.bind, pure, Except.pure, Nat.mod_eq_of_lt this]
    · by_cases h2 : n = 2
      · subst h2
        have : c < 256 ^ 2 := by omega
        simp [packBE_ok this]
      · by_cases h4 : n = 4
        · subst h4
          have : c < 256 ^ 4 := by omega
          simp [packBE_ok this]
        · by_cases h0 : n = 0
          · subst h0; simp [beBytes]
          · simp [h1, h2, h4, h0]

private theorem common_ok (s v m : Nat) (sd tr : Bool) (hs : s ≤ 65535) (hv : v ≤ 63) (hm : m ≤ 15) :
    packCommon (s : Int) sd (v : Int) (m : Int) tr = .ok (Spec.commonOctets s sd v m tr) := by
  rw [packCommon_nat]
  have g : ¬ (65535 < s ∨ 63 < v ∨ 15 < m) := by omega
  have e1 : s / 4096 % 16 = s / 4096 := by omega
  have e2 : v / 8 % 8 = v / 8 := by omega
  simp only [g, ↓reduceIte, Spec.commonOctets, versionNumber, e1, e2]

theorem C17_thdr_exact (h : TruncatedHeader) (wf : WFTHdr h) :
    h.pack = .ok (Spec.thdrOctets h) ∧ (Spec.thdrOctets h).length = 4 ∧ h.len = 4 := by
  obtain ⟨s0, s1, v0, v1, m0, m1⟩ := wf
  obtain ⟨scid, sd, vcid, mapId⟩ := h
  simp only at s0 s1 v0 v1 m0 m1
  obtain ⟨s, rfl⟩ := Int.eq_ofNat_of_zero_le s0
  obtain ⟨v, rfl⟩ := Int.eq_ofNat_of_zero_le v0
  obtain ⟨m, rfl⟩ := Int.eq_ofNat_of_zero_le m0
  refine ⟨?_, rfl, rfl⟩
  simp only [TruncatedHeader.pack, Spec.thdrOctets, Int.toNat_natCast]
  exact common_ok s v m sd true (by omega) (by omega) (by omega)

theorem C17_hdr_exact (h : PrimaryHeader) (wf : WFHdr h) :
    h.pack = .ok (Spec.hdrOctets h) ∧ (Spec.hdrOctets h).length = 7 + h.vcfLen ∧ h.len = 7 + h.vcfLen := by
  obtain ⟨⟨s0, s1, v0, v1, m0, m1⟩, hf, hn, hc⟩ := wf
  obtain ⟨scid, sd, vcid, mapId, fl, by_, pc, oc, n, c⟩ := h
  simp only at s0 s1 v0 v1 m0 m1 hf hn hc
  obtain ⟨s, rfl⟩ := Int.eq_ofNat_of_zero_le s0
  obtain ⟨v, rfl⟩ := Int.eq_ofNat_of_zero_le v0
  obtain ⟨m, rfl⟩ := Int.eq_ofNat_of_zero_le m0
  refine ⟨?_, by simp [Spec.hdrOctets, Spec.commonOctets]; omega, rfl⟩
  have hb := b2n_le by_
  have hp := b2n_le pc
  have ho := b2n_le oc
  have e6 : (8 * (b2n by_ * 16 + b2n pc * 8 + b2n oc)) ||| n = b2n by_ * 128 + b2n pc * 64 + b2n oc * 8 + n := by
    rw [or8 _ _ (by omega)]; omega
  have l6 : b2n by_ * 128 + b2n pc * 64 + b2n oc * 8 + n < 256 := by omega
  have e4 : fl / 256 % 256 = fl / 256 := by omega
  simp only [PrimaryHeader.pack, Spec.hdrOctets, Int.toNat_natCast,
    common_ok s v m sd false (by omega) (by omega) (by omega), e6, byteOfN_ok l6, liftPy_ok,
    packVcf_ok n c hn hc, bind, Except.bind, pure, Except.pure, e4]


private theorem b2n_beq (b : Bool) : (b2n b == 1) = b := by cases b <;> rfl

-- arithmetic facts in an empty context
private theorem a0 (s : Nat) (hs : s ≤ 65535) : (12 * 16 + s / 4096) % 256 / 16 = 12 := by omega
private theorem a3 (v m t : Nat) (hm : m ≤ 15) (ht : t ≤ 1) : (v % 8 * 32 + m * 2 + t) % 256 % 2 = t := by omega
private theorem a_scid (s sd v : Nat) (hs : s ≤ 65535) (hsd : sd ≤ 1) (hv : v ≤ 63) :
    (12 * 16 + s / 4096) % 256 % 16 * 4096 + s / 16 % 256 % 256 * 16 + (s % 16 * 16 + sd * 8 + v / 8) % 256 / 16 = s := by omega
private theorem a_sd (s sd v : Nat) (hsd : sd ≤ 1) (hv : v ≤ 63) :
    (s % 16 * 16 + sd * 8 + v / 8) % 256 / 8 % 2 = sd := by omega
private theorem a_vcid (s sd v m t : Nat) (hsd : sd ≤ 1) (hv : v ≤ 63) (hm : m ≤ 15) (ht : t ≤ 1) :
    (s % 16 * 16 + sd * 8 + v / 8) % 256 % 8 * 8 + (v % 8 * 32 + m * 2 + t) % 256 / 32 % 8 = v := by omega
private theorem a_map (v m t : Nat) (hm : m ≤ 15) (ht : t ≤ 1) : (v % 8 * 32 + m * 2 + t) % 256 / 2 % 16 = m := by omega
private theorem a_fl (f : Nat) (hf : f < 65536) : f / 256 % 256 * 256 + f % 256 % 256 = f := by omega
private theorem a6_by (b p o n : Nat) (hb : b ≤ 1) (hp : p ≤ 1) (ho : o ≤ 1) (hn : n ≤ 7) :
    (b * 128 + p * 64 + o * 8 + n) % 256 / 128 % 2 = b := by omega
private theorem a6_pc (b p o n : Nat) (hb : b ≤ 1) (hp : p ≤ 1) (ho : o ≤ 1) (hn : n ≤ 7) :
    (b * 128 + p * 64 + o * 8 + n) % 256 / 64 % 2 = p := by omega
private theorem a6_oc (b p o n : Nat) (hb : b ≤ 1) (hp : p ≤ 1) (ho : o ≤ 1) (hn : n ≤ 7) :
    (b * 128 + p * 64 + o * 8 + n) % 256 / 8 % 2 = o := by omega
private theorem a6_n (b p o n : Nat) (hb : b ≤ 1) (hp : p ≤ 1) (ho : o ≤ 1) (hn : n ≤ 7) :
    (b * 128 + p * 64 + o * 8 + n) % 256 % 8 = n := by omega

theorem C17_thdr_roundtrip (h : TruncatedHeader) (wf : WFTHdr h) (rest : Bytes) :
    TruncatedHeader.unpack (Spec.thdrOctets h ++ rest) = .ok h := by
  obtain ⟨s0, s1, v0, v1, m0, m1⟩ := wf
  obtain ⟨scid, sd, vcid, mapId⟩ := h
  simp only at s0 s1 v0 v1 m0 m1
  obtain ⟨s, rfl⟩ := Int.eq_ofNat_of_zero_le s0
  obtain ⟨v, rfl⟩ := Int.eq_ofNat_of_zero_le v0
  obtain ⟨m, rfl⟩ := Int.eq_ofNat_of_zero_le m0
  have hs : s ≤ 65535 := by omega
  have hv : v ≤ 63 := by omega
  have hm : m ≤ 15 := by omega
  have hsd := b2n_le sd
  rw [TruncatedHeader.unpack_eq _ _ (by simp [Spec.thdrOctets, Spec.commonOctets])]
  simp only [Spec.thdrOctets, Spec.commonOctets, Int.toNat_natCast, List.cons_append, List.getElem_cons_zero,
    List.getElem_cons_succ, u8_toNat, versionNumber]
  have t1 : b2n true ≤ 1 := by simp [b2n]
  simp only [a0 s hs, a3 v m _ hm t1, a_scid s _ v hs hsd hv, a_sd s _ v hsd hv, a_vcid s _ v m _ hsd hv hm t1,
    a_map v m _ hm t1, b2n_beq]
  simp [b2n]


private theorem slice7 (x0 x1 x2 x3 x4 x5 x6 : UInt8) (vc rest : Bytes) :
    slice (x0 :: x1 :: x2 :: x3 :: x4 :: x5 :: x6 :: (vc ++ rest)) 7 (7 + vc.length) = vc :=
  slice_of_decomp (a := [x0, x1, x2, x3, x4, x5, x6]) (m := vc) (c := rest) (by simp) rfl rfl

theorem C17_hdr_roundtrip (h : PrimaryHeader) (wf : WFHdr h) (rest : Bytes) :
    PrimaryHeader.unpack (Spec.hdrOctets h ++ rest) = .ok (normHdr h) := by
  obtain ⟨⟨s0, s1, v0, v1, m0, m1⟩, hf, hn, hc⟩ := wf
  obtain ⟨scid, sd, vcid, mapId, fl, by_, pc, oc, n, c⟩ := h
  simp only at s0 s1 v0 v1 m0 m1 hf hn hc
  obtain ⟨s, rfl⟩ := Int.eq_ofNat_of_zero_le s0
  obtain ⟨v, rfl⟩ := Int.eq_ofNat_of_zero_le v0
  obtain ⟨m, rfl⟩ := Int.eq_ofNat_of_zero_le m0
  have hs : s ≤ 65535 := by omega
  have hv : v ≤ 63 := by omega
  have hm : m ≤ 15 := by omega
  have hsd := b2n_le sd
  have hb := b2n_le by_
  have hp := b2n_le pc
  have ho := b2n_le oc
  have t0 : b2n false ≤ 1 := by simp [b2n]
  have hlen : (beBytes n (c.getD 0)).length = n := beBytes_length _ _
  rw [PrimaryHeader.unpack_eq _ _ (by simp [Spec.hdrOctets, Spec.commonOctets])]
  simp only [hdrOf, Spec.hdrOctets, Spec.commonOctets, Int.toNat_natCast, List.cons_append, List.nil_append,
    List.append_assoc, List.getElem_cons_zero, List.getElem_cons_succ, u8_toNat, versionNumber, List.length_cons,
    List.length_append, hlen]
  simp only [a0 s hs, a3 v m _ hm t0, a_scid s _ v hs hsd hv, a_sd s _ v hsd hv, a_vcid s _ v m _ hsd hv hm t0,
    a_map v m _ hm t0, b2n_beq, a_fl fl hf, a6_by _ _ _ n hb hp ho hn, a6_pc _ _ _ n hb hp ho hn,
    a6_oc _ _ _ n hb hp ho hn, a6_n _ _ _ n hb hp ho hn]
  have hsl := slice7 (u8 (12 * 16 + s / 4096)) (u8 (s / 16 % 256)) (u8 (s % 16 * 16 + b2n sd * 8 + v / 8))
    (u8 (v % 8 * 32 + m * 2 + b2n false)) (u8 (fl / 256)) (u8 (fl % 256))
    (u8 (b2n by_ * 128 + b2n pc * 64 + b2n oc * 8 + n)) (beBytes n (c.getD 0)) rest
  rw [hlen] at hsl
  have hg : ¬ (n + rest.length + 1 + 1 + 1 + 1 + 1 + 1 + 1 - 7 < n) := by omega
  simp only [hsl]
  simp only [hg, ↓reduceIte, ne_eq, not_true_eq_false, show b2n false = 0 from rfl, Nat.zero_ne_one]
  unfold normHdr
  cases c with
  | none =>
    have : n = 0 := hc
    subst this
    simp [beBytes]
  | some c =>
    have hc' : n = 0 ∨ c < 256 ^ n := hc
    by_cases h0 : n = 0
    · subst h0; simp [beBytes]
    · have : c < 256 ^ n := by omega
      simp [h0, beNat_beBytes n c this]


/-! ## transfer frame data field -/

/-- CCSDS 732.1-B-2 §4.1.4.2: construction rule (3 bits), protocol id (5 bits), optional 16-bit
    first-header / last-valid-octet pointer, then the data zone -/
def Spec.tfdfOctets (t : Tfdf) : Bytes :=
  [u8 (t.rules * 32 + t.upid)] ++
  (match t.fhp with
   | some p => [u8 (p / 256), u8 (p % 256)]
   | none => []) ++ t.tfdz

/-- a data field that belongs to frame type `ft`: rule and protocol id in range, the rule is one
    of the type's rules, and the pointer is present exactly when that type requires it -/
def WFTfdf (t : Tfdf) (truncated : Bool) (ft : FrameType) : Prop :=
  t.rules < 8 ∧ t.upid < 32 ∧ verifyFrameType t.rules ft = true ∧
  (match t.fhp with
   | some p => shouldHaveFhp t.rules truncated (some ft) = true ∧ p < 65536
   | none => shouldHaveFhp t.rules truncated (some ft) = false)

instance (t : Tfdf) (tr : Bool) (ft : FrameType) : Decidable (WFTfdf t tr ft) := by
  unfold WFTfdf; cases t.fhp <;> infer_instance

private theorem auto_of_verify (rules : Nat) (ft : FrameType) (h : verifyFrameType rules ft = true) :
    autoFrameType rules = some ft := by
  cases ft
  · simp only [verifyFrameType] at h
    simp [autoFrameType, h]
  · simp only [verifyFrameType] at h
    have hfp : rulesForFp rules = false := by
      simp only [rulesForVp, rulesForFp, Bool.or_eq_true, beq_iff_eq] at h
      simp only [rulesForFp, Bool.or_eq_false_iff, beq_eq_false_iff_ne]
      omega
    simp [autoFrameType, h, hfp]

private theorem t0 (r u : Nat) (hr : r < 8) (hu : u < 32) : (r * 32 + u) % 256 / 32 % 8 = r := by omega
private theorem t1 (r u : Nat) (hr : r < 8) (hu : u < 32) : (r * 32 + u) % 256 % 32 = u := by omega
private theorem t2 (p : Nat) (hp : p < 65536) : p / 256 % 256 * 256 + p % 256 % 256 = p := by omega

theorem C17_tfdf_exact (t : Tfdf) (tr : Bool) (ft : FrameType) (fto : Option FrameType)
    (wf : WFTfdf t tr ft) (hft : fto = none ∨ fto = some ft) :
    t.pack tr fto = .ok (Spec.tfdfOctets t) ∧ (Spec.tfdfOctets t).length = t.len := by
  obtain ⟨hr, hu, hv, hp⟩ := wf
  obtain ⟨r, u, fhp, z⟩ := t
  simp only at hr hu hv hp
  have e0 : (32 * r) ||| u = r * 32 + u := by rw [or32 _ _ hu]; omega
  have l0 : r * 32 + u < 256 := by omega
  have hft' : effectiveFt fto r = some ft := by
    rcases hft with rfl | rfl
    · exact auto_of_verify r ft hv
    · rfl
  cases fhp with
  | none =>
    simp only at hp
    refine ⟨?_, by simp [Spec.tfdfOctets, Tfdf.len, Tfdf.headerLen]; omega⟩
    simp only [Tfdf.pack, e0, byteOfN_ok l0, liftPy_ok, bind, Except.bind, hft', hp, pure, Except.pure,
      Spec.tfdfOctets]
    simp
  | some p =>
    simp only at hp
    obtain ⟨hs, hp⟩ := hp
    refine ⟨?_, by simp [Spec.tfdfOctets, Tfdf.len, Tfdf.headerLen]; omega⟩
    simp only [Tfdf.pack, e0, byteOfN_ok l0, liftPy_ok, bind, Except.bind, hft', hs, pure, Except.pure,
      Spec.tfdfOctets, packBE2_ok hp, ↓reduceIte]

theorem C17_tfdf_roundtrip (t : Tfdf) (tr : Bool) (ft : FrameType) (wf : WFTfdf t tr ft) (rest : Bytes) :
    Tfdf.unpack (Spec.tfdfOctets t ++ rest) tr t.len (some ft) = .ok t := by
  obtain ⟨hr, hu, hv, hp⟩ := wf
  obtain ⟨r, u, fhp, z⟩ := t
  simp only at hr hu hv hp
  cases fhp with
  | none =>
    simp only at hp
    have h1 : 1 ≤ (Spec.tfdfOctets ⟨r, u, none, z⟩ ++ rest).length := by simp [Spec.tfdfOctets]
    have e : (Spec.tfdfOctets ⟨r, u, none, z⟩ ++ rest)[0].toNat = (r * 32 + u) % 256 := by
      simp [Spec.tfdfOctets]
    rw [Tfdf.unpack_nofhp _ h1 tr _ (some ft) (by rw [e, t0 r u hr hu]; exact hv) (by rw [e, t0 r u hr hu]; exact hp)]
    rw [e, t0 r u hr hu, t1 r u hr hu]
    have hs : slice (Spec.tfdfOctets ⟨r, u, none, z⟩ ++ rest) 1 (Tfdf.len ⟨r, u, none, z⟩) = z :=
      slice_of_decomp (a := [u8 (r * 32 + u)]) (m := z) (c := rest) (by simp [Spec.tfdfOctets]) rfl
        (by simp [Tfdf.len, Tfdf.headerLen])
    rw [hs]
  | some p =>
    simp only at hp
    obtain ⟨hs, hp⟩ := hp
    have h3 : 3 ≤ (Spec.tfdfOctets ⟨r, u, some p, z⟩ ++ rest).length := by simp [Spec.tfdfOctets]
    have e : (Spec.tfdfOctets ⟨r, u, some p, z⟩ ++ rest)[0].toNat = (r * 32 + u) % 256 := by
      simp [Spec.tfdfOctets]
    have e1 : (Spec.tfdfOctets ⟨r, u, some p, z⟩ ++ rest)[1].toNat = p / 256 % 256 := by
      simp [Spec.tfdfOctets]
    have e2 : (Spec.tfdfOctets ⟨r, u, some p, z⟩ ++ rest)[2].toNat = p % 256 % 256 := by
      simp [Spec.tfdfOctets]
    rw [Tfdf.unpack_fhp _ h3 tr _ (by simp [Tfdf.len, Tfdf.headerLen]) (some ft) (by rw [e, t0 r u hr hu]; exact hv)
      (by rw [e, t0 r u hr hu]; exact hs)]
    rw [e, e1, e2, t0 r u hr hu, t1 r u hr hu, t2 p hp]
    have hsl : slice (Spec.tfdfOctets ⟨r, u, some p, z⟩ ++ rest) 3 (Tfdf.len ⟨r, u, some p, z⟩) = z :=
      slice_of_decomp (a := [u8 (r * 32 + u), u8 (p / 256), u8 (p % 256)]) (m := z) (c := rest)
        (by simp [Spec.tfdfOctets]) rfl (by simp [Tfdf.len, Tfdf.headerLen])
    rw [hsl]


/-! ## transfer frame -/

def Spec.headerOctets : Header → Bytes
  | .truncated h => Spec.thdrOctets h
  | .primary h => Spec.hdrOctets h

/-- CCSDS 732.1-B-2 §4.1.1: primary header, insert zone, data field (header, data zone),
    operational control field, frame error control field — in this order -/
def Spec.frameOctets (f : Frame) : Bytes :=
  Spec.headerOctets f.header ++ (optBytes f.insertZone ++ (Spec.tfdfOctets f.tfdf ++
    (optBytes f.ocf ++ optBytes f.fecf)))

def WFHeader : Header → Prop
  | .truncated h => WFTHdr h
  | .primary h => WFHdr h

instance (h : Header) : Decidable (WFHeader h) := by cases h <;> unfold WFHeader <;> infer_instance

/-- the OCF is present (4 octets) exactly when the regular header's OCF flag is set; a truncated
    frame has none -/
def OcfOk : Header → Option Bytes → Prop
  | .primary h, some o => h.ocf = true ∧ o.length = 4
  | .primary h, none => h.ocf = false
  | .truncated _, o => o = none

instance (h : Header) (o : Option Bytes) : Decidable (OcfOk h o) := by
  cases h <;> cases o <;> unfold OcfOk <;> infer_instance

/-- a frame of frame type `ft` (truncated frames exist only for the variable type) -/
def WFFrame (f : Frame) (ft : FrameType) : Prop :=
  WFHeader f.header ∧ WFTfdf f.tfdf f.header.isTruncated ft ∧
  (f.header.isTruncated = true → ft = .variable) ∧ OcfOk f.header f.ocf

instance (f : Frame) (ft : FrameType) : Decidable (WFFrame f ft) := by unfold WFFrame; infer_instance

/-- the frame-length field of a regular header holds the total length minus one -/
def LenSet (f : Frame) : Prop :=
  match f.header with
  | .primary h => h.frameLen + 1 = f.len
  | .truncated _ => True

instance (f : Frame) : Decidable (LenSet f) := by unfold LenSet; cases f.header <;> infer_instance

/-- managed parameters matching the frame: insert-zone and FECF sizes, the fixed length for the
    fixed type, the truncated length for a truncated frame (for a variable frame with a regular
    header neither the class nor the length parameter is consulted) -/
def Matching (f : Frame) (ft : FrameType) (p : FrameProps) : Prop :=
  p.insertZone = f.insertZone.map List.length ∧ p.fecf = f.fecf.map List.length ∧
  (ft = .fixed → p.kind = .fixed ∧ p.lenParam = f.len) ∧
  (f.header.isTruncated = true → p.kind = .variable ∧ p.lenParam = f.len)

instance (f : Frame) (ft : FrameType) (p : FrameProps) : Decidable (Matching f ft p) := by
  unfold Matching; infer_instance

def normHeader : Header → Header
  | .primary h => .primary (normHdr h)
  | .truncated h => .truncated h

def normFrame (f : Frame) : Frame := { f with header := normHeader f.header }

private theorem optLen_eq (o : Option Bytes) : optLen o = (optBytes o).length := by cases o <;> rfl

theorem C17_header_exact (h : Header) (wf : WFHeader h) :
    h.pack = .ok (Spec.headerOctets h) ∧ (Spec.headerOctets h).length = h.len := by
  cases h with
  | truncated t =>
    have := C17_thdr_exact t wf
    exact ⟨this.1, by simp [Spec.headerOctets, Header.len, this.2.1, this.2.2]⟩
  | primary t =>
    have := C17_hdr_exact t wf
    exact ⟨this.1, by simp [Spec.headerOctets, Header.len, this.2.1, this.2.2]⟩

/-- **order of the fields**: header ‖ insert zone ‖ data-field header ‖ data zone ‖ OCF ‖ FECF,
    and the packed size is what `len()` reports -/
theorem C17_frame_order (f : Frame) (ft : FrameType) (fto : Option FrameType) (wf : WFFrame f ft)
    (hft : fto = none ∨ fto = some ft) :
    f.pack f.header.isTruncated fto = .ok (Spec.frameOctets f) ∧ (Spec.frameOctets f).length = f.len := by
  obtain ⟨wh, wt, _, wo⟩ := wf
  have hh := C17_header_exact f.header wh
  have ht := C17_tfdf_exact f.tfdf f.header.isTruncated ft fto wt hft
  refine ⟨?_, ?_⟩
  · obtain ⟨hdr, tfdf, iz, ocf, fecf⟩ := f
    simp only at wh wt wo hh ht
    simp only [Frame.pack, hh.1, ht.1, bind, Except.bind, Spec.frameOctets]
    cases hdr with
    | truncated t =>
      have : ocf = none := wo
      subst this
      simp [optLen, optBytes, Header.isTruncated, pure, Except.pure]
    | primary t =>
      cases ocf with
      | none =>
        have : t.ocf = false := wo
        simp [optLen, optBytes, Header.isTruncated, Header.opCtrlFlag, this, pure, Except.pure, bind, Except.bind]
      | some o =>
        have : t.ocf = true ∧ o.length = 4 := wo
        simp [optLen, optBytes, Header.isTruncated, Header.opCtrlFlag, this.1, this.2, pure, Except.pure, bind,
          Except.bind]
  · simp only [Spec.frameOctets, List.length_append, hh.2, ht.2, Frame.len, optLen_eq]
    omega

/-- `set_frame_len_in_header()` on a frame whose length minus one fits the 16-bit field (or whose
    header is truncated: it has no length field and nothing is checked) succeeds, stores the total
    length minus one and changes no length and no other field -/
theorem C17_set_frame_len (f : Frame) (hb : f.header.isTruncated = true ∨ f.len - 1 ≤ 65535) :
    ∃ g, f.setFrameLenInHeader = .ok g ∧ g.len = f.len ∧ LenSet g ∧
    g.tfdf = f.tfdf ∧ g.insertZone = f.insertZone ∧ g.ocf = f.ocf ∧ g.fecf = f.fecf ∧
    (∀ h, f.header = .primary h → g.header = .primary { h with frameLen := f.len - 1 }) ∧
    (∀ h, f.header = .truncated h → g = f) := by
  obtain ⟨hdr, tfdf, iz, ocf, fecf⟩ := f
  cases hdr with
  | truncated t =>
    exact ⟨_, rfl, rfl, (by simp [LenSet]), rfl, rfl, rfl, rfl, fun h e => (by cases e), fun _ _ => rfl⟩
  | primary t =>
    have hle : (Frame.mk (.primary t) tfdf iz ocf fecf).len - 1 ≤ 65535 := by
      rcases hb with hb | hb
      · cases hb
      · exact hb
    have h1 : 1 ≤ Tfdf.len tfdf := by unfold Tfdf.len Tfdf.headerLen; split <;> omega
    refine ⟨⟨.primary { t with frameLen := (Frame.mk (.primary t) tfdf iz ocf fecf).len - 1 }, tfdf, iz, ocf, fecf⟩,
      ?_, ?_⟩
    · simp only [Frame.setFrameLenInHeader, Frame.setFrameLenWith]
      rw [if_neg (by omega)]
    · simp [LenSet, Frame.len, Header.len, PrimaryHeader.len]
      simp only [Frame.len, Header.len, PrimaryHeader.len] at hle
      omega

/-- `set_frame_len_in_header()` on a regular frame longer than 65536 octets is refused with
    `ValueError` (the frame object, in particular its header, is unchanged: no new state is
    returned); the length field is never silently truncated -/
theorem C17_set_frame_len_refused (f : Frame) (h : PrimaryHeader) (hh : f.header = .primary h)
    (hb : 65535 < f.len - 1) : f.setFrameLenInHeader = .error (.py .value) := by
  simp only [Frame.setFrameLenInHeader, Frame.setFrameLenWith, hh]
  rw [if_pos hb]

/-- exactly these two outcomes: accepted iff truncated header or `len() - 1 ≤ 0xFFFF` -/
theorem C17_set_frame_len_ok_iff (f : Frame) :
    (∃ g, f.setFrameLenInHeader = .ok g) ↔ (f.header.isTruncated = true ∨ f.len - 1 ≤ 65535) := by
  constructor
  · rintro ⟨g, hg⟩
    cases hh : f.header with
    | truncated t => exact Or.inl rfl
    | primary p =>
      refine Or.inr ?_
      by_cases hb : 65535 < f.len - 1
      · rw [C17_set_frame_len_refused f p hh hb] at hg; cases hg
      · omega
  · intro hb
    obtain ⟨g, hg, _⟩ := C17_set_frame_len f hb
    exact ⟨g, hg⟩

private theorem normHdr_vcfLen (h : PrimaryHeader) : (normHdr h).vcfLen = h.vcfLen := by
  unfold normHdr; split <;> rfl
private theorem normHdr_ocf (h : PrimaryHeader) : (normHdr h).ocf = h.ocf := by
  unfold normHdr; split <;> rfl
private theorem normHdr_frameLen (h : PrimaryHeader) : (normHdr h).frameLen = h.frameLen := by
  unfold normHdr; split <;> rfl

private theorem optSize_map (o : Option Bytes) : optSize (o.map List.length) = (optBytes o).length := by
  cases o <;> rfl

private theorem map_const_optBytes (o : Option Bytes) :
    (o.map List.length).map (fun _ => optBytes o) = o := by
  cases o <;> rfl

private theorem map_const_optBytes' (o : Option Bytes) :
    o.map ((fun _ => optBytes o) ∘ List.length) = o := by
  cases o <;> rfl

private theorem a3' (v m t : Nat) (hm : m ≤ 15) (ht : t ≤ 1) : (v % 8 * 32 + m * 2 + t) % 256 % 2 = t := by omega

private theorem roundtrip_truncated (t : TruncatedHeader) (tfdf : Tfdf) (iz fecf : Option Bytes)
    (p : FrameProps) (rest : Bytes)
    (wh : WFTHdr t) (wt : WFTfdf tfdf true .variable)
    (miz : p.insertZone = iz.map List.length) (mfe : p.fecf = fecf.map List.length)
    (mk : p.kind = .variable) (ml : p.lenParam = Frame.len ⟨.truncated t, tfdf, iz, none, fecf⟩) :
    Frame.unpack (Spec.thdrOctets t ++ (optBytes iz ++ (Spec.tfdfOctets tfdf ++ ([] ++ (optBytes fecf ++ rest)))))
      .variable p = .ok ⟨.truncated t, tfdf, iz, none, fecf⟩ := by
  have htl := (C17_tfdf_exact tfdf true .variable (some .variable) wt (Or.inr rfl)).2
  have hhl : (Spec.thdrOctets t).length = 4 := (C17_thdr_exact t wh).2.1
  have hlen : p.lenParam = 4 + tfdf.len + (optBytes iz).length + (optBytes fecf).length := by
    rw [ml]; simp [Frame.len, Header.len, TruncatedHeader.len, optLen_eq, optBytes] <;> omega
  have hL : (Spec.thdrOctets t ++ (optBytes iz ++ (Spec.tfdfOctets tfdf ++ ([] ++ (optBytes fecf ++ rest))))).length =
      4 + (optBytes iz).length + tfdf.len + (optBytes fecf).length + rest.length := by
    simp [hhl, htl]; omega
  -- header stage
  have hH : Frame.unpackHeader
      (Spec.thdrOctets t ++ (optBytes iz ++ (Spec.tfdfOctets tfdf ++ ([] ++ (optBytes fecf ++ rest))))) .variable p =
      .ok (.truncated t) := by
    rw [Frame.unpackHeader_eq _ _ _ (by rw [hL]; omega), C17_thdr_roundtrip t wh]
    have h3 : (Spec.thdrOctets t ++ (optBytes iz ++ (Spec.tfdfOctets tfdf ++ ([] ++ (optBytes fecf ++ rest)))))[3]'(by rw [hL]; omega) =
        u8 (t.vcid.toNat % 8 * 32 + t.mapId.toNat * 2 + b2n true) := by
      simp [Spec.thdrOctets, Spec.commonOctets]
    obtain ⟨_, _, _, _, m0, m1⟩ := wh
    have hm : t.mapId.toNat ≤ 15 := by omega
    have g : ¬ (Spec.thdrOctets t ++ (optBytes iz ++ (Spec.tfdfOctets tfdf ++ ([] ++ (optBytes fecf ++ rest))))).length < p.lenParam := by
      rw [hL, hlen]; omega
    rw [h3]
    simp only [u8_toNat, a3' _ _ _ hm (show b2n true ≤ 1 by simp [b2n]), mk, g]
    simp [b2n, Except.bind]
  -- body stage
  have hB := Frame.unpackBody_assemble (.truncated t) (Spec.thdrOctets t) (optBytes iz) (Spec.tfdfOctets tfdf) []
    (optBytes fecf) rest .variable p tfdf hhl (by rw [miz, optSize_map]) (by rw [mfe, optSize_map]) (by simp [Header.hasOcf])
    (by simp [frameLenCheck, pure, Except.pure])
    (by
      rw [tfdfLen_truncated _ _ _ mk, htl, hlen]
      have e1 : optSizeI p.fecf = ((optBytes fecf).length : Int) := by simp [optSizeI, mfe, optSize_map]
      have e2 : optSizeI p.insertZone = ((optBytes iz).length : Int) := by simp [optSizeI, miz, optSize_map]
      rw [e1, e2]
      congr 1
      omega)
    (by rw [htl]; unfold Tfdf.len Tfdf.headerLen; split <;> omega)
    (by
      rw [htl]
      exact C17_tfdf_roundtrip tfdf true .variable wt _)
  unfold Frame.unpack
  rw [hH]
  simp only [bind, Except.bind]
  rw [hB]
  simp [Header.hasOcf, miz, mfe, map_const_optBytes']


private theorem roundtrip_primary (h : PrimaryHeader) (tfdf : Tfdf) (iz ocf fecf : Option Bytes)
    (ft : FrameType) (p : FrameProps) (rest : Bytes)
    (wh : WFHdr h) (wt : WFTfdf tfdf false ft) (wo : OcfOk (.primary h) ocf)
    (hl : h.frameLen + 1 = Frame.len ⟨.primary h, tfdf, iz, ocf, fecf⟩)
    (miz : p.insertZone = iz.map List.length) (mfe : p.fecf = fecf.map List.length)
    (mfix : ft = .fixed → p.kind = .fixed ∧ p.lenParam = Frame.len ⟨.primary h, tfdf, iz, ocf, fecf⟩) :
    Frame.unpack (Spec.hdrOctets h ++ (optBytes iz ++ (Spec.tfdfOctets tfdf ++ (optBytes ocf ++ (optBytes fecf ++ rest)))))
      ft p = .ok ⟨.primary (normHdr h), tfdf, iz, ocf, fecf⟩ := by
  have htl := (C17_tfdf_exact tfdf false ft (some ft) wt (Or.inr rfl)).2
  have hhl : (Spec.hdrOctets h).length = 7 + h.vcfLen := (C17_hdr_exact h wh).2.1
  have hocf : (optBytes ocf).length = if h.ocf then 4 else 0 := by
    cases ocf with
    | none => have : h.ocf = false := wo; simp [optBytes, this]
    | some o => have : h.ocf = true ∧ o.length = 4 := wo; simp [optBytes, this.1, this.2]
  have hflen : h.frameLen + 1 = 7 + h.vcfLen + tfdf.len + (optBytes iz).length + (optBytes ocf).length + (optBytes fecf).length := by
    rw [hl]; simp [Frame.len, Header.len, PrimaryHeader.len, optLen_eq] <;> omega
  have hL : (Spec.hdrOctets h ++ (optBytes iz ++ (Spec.tfdfOctets tfdf ++ (optBytes ocf ++ (optBytes fecf ++ rest))))).length =
      h.frameLen + 1 + rest.length := by
    simp [hhl, htl]; omega
  have h1 : 1 ≤ tfdf.len := by unfold Tfdf.len Tfdf.headerLen; split <;> omega
  -- header stage
  have h3 : (Spec.hdrOctets h ++ (optBytes iz ++ (Spec.tfdfOctets tfdf ++ (optBytes ocf ++ (optBytes fecf ++ rest)))))[3]'(by rw [hL]; omega) =
      u8 (h.vcid.toNat % 8 * 32 + h.mapId.toNat * 2 + b2n false) := by
    simp [Spec.hdrOctets, Spec.commonOctets]
  have hm : h.mapId.toNat ≤ 15 := by
    obtain ⟨⟨_, _, _, _, m0, m1⟩, _⟩ := wh
    omega
  have hH := Frame.unpackHeader_primary_ok _ ft p (normHdr h) (by rw [hL]; omega)
    (by rw [h3, u8_toNat, a3' _ _ _ hm (show b2n false ≤ 1 by simp [b2n])]; rfl)
    (C17_hdr_roundtrip h wh _)
    (fun hf => ⟨(mfix hf).1, by rw [(mfix hf).2, ← hl, hL]; omega⟩)
  -- body stage
  have hB := Frame.unpackBody_assemble (.primary (normHdr h)) (Spec.hdrOctets h) (optBytes iz) (Spec.tfdfOctets tfdf)
    (optBytes ocf) (optBytes fecf) rest ft p tfdf
    (by simp [Header.len, PrimaryHeader.len, normHdr_vcfLen, hhl])
    (by rw [miz, optSize_map]) (by rw [mfe, optSize_map])
    (by simp only [Header.hasOcf, normHdr_ocf]; exact hocf)
    (frameLenCheck_primary_ok _ ft p (normHdr h) (by rw [normHdr_frameLen, hL]; omega)
      (fun hf => by rw [normHdr_frameLen, (mfix hf).2, hl]))
    (by
      rw [htl]
      apply tfdfLen_primary_ok
      · rw [normHdr_frameLen, hL]; omega
      · rw [normHdr_frameLen, normHdr_ocf, ← hocf, miz, mfe, optSize_map, optSize_map, PrimaryHeader.len,
          normHdr_vcfLen]
        omega)
    (by rw [htl]; exact h1)
    (by
      rw [htl]
      exact C17_tfdf_roundtrip tfdf false ft wt _)
  unfold Frame.unpack
  rw [hH]
  simp only [bind, Except.bind]
  rw [hB]
  have ho : (if (Header.primary (normHdr h)).hasOcf = true then some (optBytes ocf) else none) = ocf := by
    simp only [Header.hasOcf, normHdr_ocf]
    cases ocf with
    | none => have : h.ocf = false := wo; simp [this]
    | some o => have : h.ocf = true ∧ o.length = 4 := wo; simp [optBytes, this.1]
  simp [ho, miz, mfe, map_const_optBytes']

/-- **decode ∘ encode = id** with the matching managed parameters, for every construction rule,
    protocol id, header kind, VCF length and combination of insert zone / OCF / FECF, with any
    octets following the frame. (`normFrame`: a VCF count of length 0 is reported as 0.) -/
theorem C17_frame_roundtrip (f : Frame) (ft : FrameType) (p : FrameProps) (wf : WFFrame f ft)
    (hl : LenSet f) (hm : Matching f ft p) (rest : Bytes) :
    Frame.unpack (Spec.frameOctets f ++ rest) ft p = .ok (normFrame f) := by
  obtain ⟨wh, wt, wtr, wo⟩ := wf
  obtain ⟨miz, mfe, mfix, mtr⟩ := hm
  obtain ⟨hdr, tfdf, iz, ocf, fecf⟩ := f
  simp only at wh wt wtr wo miz mfe mfix mtr
  cases hdr with
  | truncated t =>
    have hft : ft = .variable := wtr rfl
    subst hft
    have : ocf = none := wo
    subst this
    obtain ⟨mk, ml⟩ := mtr rfl
    have := roundtrip_truncated t tfdf iz fecf p rest wh wt miz mfe mk ml
    simpa [Spec.frameOctets, Spec.headerOctets, optBytes, normFrame, normHeader] using this
  | primary h =>
    have := roundtrip_primary h tfdf iz ocf fecf ft p rest wh wt wo hl miz mfe mfix
    simpa [Spec.frameOctets, Spec.headerOctets, normFrame, normHeader, List.append_assoc] using this


/-! ## refusals -/

/-- out-of-range spacecraft / virtual channel / MAP identifiers (negative ones included) are
    refused with `ValueError` by both header encoders -/
theorem C17_hdr_refuse (h : PrimaryHeader)
    (bad : h.scid < 0 ∨ 65535 < h.scid ∨ h.vcid < 0 ∨ 63 < h.vcid ∨ h.mapId < 0 ∨ 15 < h.mapId) :
    h.pack = .error (.py .value) := by
  simp [PrimaryHeader.pack, packCommon_refuse _ _ _ _ _ bad, bind, Except.bind]

theorem C17_thdr_refuse (h : TruncatedHeader)
    (bad : h.scid < 0 ∨ 65535 < h.scid ∨ h.vcid < 0 ∨ 63 < h.vcid ∨ h.mapId < 0 ∨ 15 < h.mapId) :
    h.pack = .error (.py .value) := by
  simp [TruncatedHeader.pack, packCommon_refuse _ _ _ _ _ bad]

/-- … and so is a frame carrying such a header -/
theorem C17_frame_refuse_ids (f : Frame) (tr : Bool) (fto : Option FrameType) (h : PrimaryHeader)
    (hh : f.header = .primary h)
    (bad : h.scid < 0 ∨ 65535 < h.scid ∨ h.vcid < 0 ∨ 63 < h.vcid ∨ h.mapId < 0 ∨ 15 < h.mapId) :
    f.pack tr fto = .error (.py .value) := by
  simp [Frame.pack, hh, Header.pack, C17_hdr_refuse h bad, bind, Except.bind]

/-! ## mismatching managed parameters -/

/-- buffer shorter than the smallest header: `UslpInvalidRawPacketOrFrameLen` -/
theorem C17_mismatch_too_short (raw : Bytes) (ft : FrameType) (p : FrameProps) (h : raw.length < 4) :
    Frame.unpack raw ft p = .error (.uslp .invalidLen) := by
  simp [Frame.unpack, Frame.unpackHeader_short raw ft p h, bind, Except.bind]

/-- fixed frame type with variable-frame properties: `ValueError` -/
theorem C17_mismatch_fixed_var_props (raw : Bytes) (p : FrameProps) (h4 : 4 ≤ raw.length)
    (hk : p.kind = .variable) : Frame.unpack raw .fixed p = .error (.py .value) := by
  simp [Frame.unpack, Frame.unpackHeader_eq raw .fixed p h4, hk, bind, Except.bind]

/-- fixed frame type, buffer shorter than the managed fixed length: `UslpInvalidRawPacketOrFrameLen` -/
theorem C17_mismatch_fixed_short (raw : Bytes) (p : FrameProps) (hk : p.kind = .fixed)
    (hl : raw.length < p.lenParam) : Frame.unpack raw .fixed p = .error (.uslp .invalidLen) := by
  by_cases h4 : 4 ≤ raw.length
  · simp [Frame.unpack, Frame.unpackHeader_eq raw .fixed p h4, hk, hl, bind, Except.bind]
  · exact C17_mismatch_too_short raw .fixed p (by omega)

/-- truncated header with the fixed frame type: `UslpTruncatedFrameNotAllowed` -/
theorem C17_mismatch_truncated_fixed (raw : Bytes) (p : FrameProps) (h4 : 4 ≤ raw.length)
    (ht : raw[3].toNat % 2 = 1) (hk : p.kind = .fixed) (hl : p.lenParam ≤ raw.length) :
    Frame.unpack raw .fixed p = .error (.uslp .truncatedNotAllowed) := by
  have g : ¬ raw.length < p.lenParam := by omega
  simp [Frame.unpack, Frame.unpackHeader_eq raw .fixed p h4, hk, g, ht, bind, Except.bind]

/-- truncated header, variable frame type, fixed-frame properties: `ValueError` -/
theorem C17_mismatch_truncated_fixed_props (raw : Bytes) (p : FrameProps) (h4 : 4 ≤ raw.length)
    (ht : raw[3].toNat % 2 = 1) (hk : p.kind = .fixed) :
    Frame.unpack raw .variable p = .error (.py .value) := by
  simp [Frame.unpack, Frame.unpackHeader_eq raw .variable p h4, hk, ht, bind, Except.bind]

/-- truncated header, buffer shorter than the managed truncated length:
    `UslpInvalidRawPacketOrFrameLen` -/
theorem C17_mismatch_truncated_short (raw : Bytes) (p : FrameProps) (h4 : 4 ≤ raw.length)
    (ht : raw[3].toNat % 2 = 1) (hk : p.kind = .variable) (hl : raw.length < p.lenParam) :
    Frame.unpack raw .variable p = .error (.uslp .invalidLen) := by
  simp [Frame.unpack, Frame.unpackHeader_eq raw .variable p h4, hk, hl, ht, bind, Except.bind]


/-- fixed frame type: a regular header whose frame-length field + 1 differs from the managed fixed
    length is refused with `UslpInvalidRawPacketOrFrameLen`, whatever else the buffer holds -/
theorem C17_mismatch_fixed_len (raw : Bytes) (p : FrameProps) (h : PrimaryHeader) (h4 : 4 ≤ raw.length)
    (h3 : raw[3].toNat % 2 = 0) (hu : PrimaryHeader.unpack raw = .ok h) (hk : p.kind = .fixed)
    (hne : h.frameLen + 1 ≠ p.lenParam) :
    Frame.unpack raw .fixed p = .error (.uslp .invalidLen) := by
  by_cases hl : raw.length < p.lenParam
  · exact C17_mismatch_fixed_short raw p hk hl
  · have hH := Frame.unpackHeader_primary_ok raw .fixed p h h4 h3 hu (fun _ => ⟨hk, by omega⟩)
    unfold Frame.unpack
    rw [hH]
    simp only [bind, Except.bind]
    cases hb : Frame.unpackBody raw .fixed p (.primary h) with
    | ok f =>
      have := (frameLenCheck_primary_inv raw .fixed p h (Frame.unpackBody_inv raw .fixed p _ f hb).1).2 rfl
      exact absurd this hne
    | error e =>
      -- the failing guard is one of the two frame-length checks
      unfold Frame.unpackBody at hb
      cases hc : frameLenCheck raw .fixed p (.primary h) with
      | error e1 =>
        simp [hc, bind, Except.bind] at hb
        subst hb
        rw [frameLenCheck_err raw .fixed p _ _ hc]
      | ok u =>
        exact absurd ((frameLenCheck_primary_inv raw .fixed p h hc).2 rfl) hne

/-- **what acceptance guarantees** (contrapositive of the mismatch clauses): an accepted frame has
    a header that decodes from the buffer, a frame length (header field + 1, resp. the managed
    truncated length) inside the buffer, for the fixed type fixed-frame properties whose length
    equals it, and room for header, insert zone, at least one data-field octet, OCF and FECF
    inside that length. Hence a buffer shorter than the declared frame, a fixed length different
    from the frame length, a truncated header with the fixed type, the wrong class of properties,
    and zone sizes that leave no data field are all refused. -/
theorem C17_unpack_sound (raw : Bytes) (ft : FrameType) (p : FrameProps) (f : Frame)
    (hu : Frame.unpack raw ft p = .ok f) :
    match f.header with
    | .primary h =>
      PrimaryHeader.unpack raw = .ok h ∧ h.frameLen + 1 ≤ raw.length ∧
      (ft = .fixed → p.kind = .fixed ∧ p.lenParam = h.frameLen + 1) ∧
      h.len + optSize p.insertZone + 1 + (if h.ocf then 4 else 0) + optSize p.fecf ≤ h.frameLen + 1
    | .truncated h =>
      TruncatedHeader.unpack raw = .ok h ∧ ft = .variable ∧ p.kind = .variable ∧ p.lenParam ≤ raw.length ∧
      4 + optSize p.insertZone + 1 + optSize p.fecf ≤ p.lenParam := by
  unfold Frame.unpack at hu
  cases hh : Frame.unpackHeader raw ft p with
  | error e => simp [hh, bind, Except.bind] at hu
  | ok hdr =>
    simp only [hh, bind, Except.bind] at hu
    obtain ⟨hc, e, hlen, hpos, hin, hhdr, _⟩ := Frame.unpackBody_inv raw ft p hdr f hu
    rw [hhdr]
    cases hdr with
    | primary h =>
      obtain ⟨hup, hfix⟩ := Frame.unpackHeader_primary raw ft p h hh
      obtain ⟨hfl, hfl2⟩ := frameLenCheck_primary_inv raw ft p h hc
      refine ⟨hup, hfl, fun hf => ⟨(hfix hf).1, (hfl2 hf).symm⟩, ?_⟩
      rw [tfdfLen_primary] at hlen
      split at hlen
      · cases hlen
      · simp only [Except.ok.injEq] at hlen
        subst hlen
        simp only [optSizeI] at hpos
        split at hpos <;> simp_all <;> omega
    | truncated t =>
      obtain ⟨hft, hk, hl, _⟩ := Frame.unpackHeader_truncated raw ft p t hh
      refine ⟨Frame.unpackHeader_truncated_unpack raw ft p t hh, hft, hk, hl, ?_⟩
      subst hft
      rw [tfdfLen_truncated _ _ _ hk] at hlen
      simp only [Except.ok.injEq] at hlen
      subst hlen
      simp only [optSizeI] at hpos
      omega

/-- **only the documented errors** (C10 for this unit): for every buffer, frame type and
    managed-parameter object the frame decoder fails with a `Uslp*` class or `ValueError` only -/
theorem C17_unpack_errors (raw : Bytes) (ft : FrameType) (p : FrameProps) (e : UErr)
    (h : Frame.unpack raw ft p = .error e) : e = .py .value ∨ ∃ k, e = .uslp k := by
  have := Frame.unpack_err raw ft p e h
  cases e with
  | uslp k => exact Or.inr ⟨k, rfl⟩
  | py e => cases e <;> simp [UErr.isUslpOrValue] at this; exact Or.inl rfl

/-- both header decoders fail with `Uslp*` classes only; fewer than 4 / 7 octets give
    `UslpInvalidRawPacketOrFrameLen` -/
theorem C17_hdr_errors (raw : Bytes) (ver : Nat) (e : UErr) :
    (PrimaryHeader.unpack raw ver = .error e ∨ TruncatedHeader.unpack raw ver = .error e) →
    e = .uslp .invalidLen ∨ e = .uslp .versionMismatch ∨ e = .uslp .typeMismatch := by
  rintro (h | h)
  · exact PrimaryHeader.unpack_err raw ver e h
  · exact TruncatedHeader.unpack_err raw ver e h

theorem C17_hdr_short (raw : Bytes) (ver : Nat) :
    (raw.length < 7 → PrimaryHeader.unpack raw ver = .error (.uslp .invalidLen)) ∧
    (raw.length < 4 → TruncatedHeader.unpack raw ver = .error (.uslp .invalidLen)) :=
  ⟨PrimaryHeader.unpack_short raw ver, TruncatedHeader.unpack_short raw ver⟩

/-! ## non-vacuity: concrete non-trivial values meet the hypotheses -/

private def exHdr : PrimaryHeader := ⟨0xA5C3, true, 0x2B, 0xD, 23, true, false, true, 3, some 0x010203⟩
private def exFrame : Frame :=
  ⟨.primary exHdr, ⟨1, 0x1F, some 0xFFFE, [1, 2, 3]⟩, some [9, 8], some [0xA, 0xB, 0xC, 0xD], some [0xEE, 0xFF]⟩
private def exProps : FrameProps := ⟨.fixed, 24, some 2, some 2⟩
private def exTrunc : Frame := ⟨.truncated ⟨0xFFFF, false, 63, 15⟩, ⟨7, 5, none, [0x55]⟩, none, none, some [1, 2]⟩

example : WFHdr exHdr := by decide
example : Spec.hdrOctets exHdr = [0xCA, 0x5C, 0x3D, 0x7A, 0x00, 0x17, 0x8B, 0x01, 0x02, 0x03] := by decide
example : Spec.thdrOctets ⟨0xFFFF, false, 63, 15⟩ = [0xCF, 0xFF, 0xF7, 0xFF] := by decide
example : WFFrame exFrame .fixed ∧ LenSet exFrame ∧ Matching exFrame .fixed exProps := by decide
example : Spec.frameOctets exFrame =
    [0xCA, 0x5C, 0x3D, 0x7A, 0x00, 0x17, 0x8B, 0x01, 0x02, 0x03, 9, 8, 0x3F, 0xFF, 0xFE, 1, 2, 3,
     0xA, 0xB, 0xC, 0xD, 0xEE, 0xFF] ++ [] := by decide
example : WFFrame exTrunc .variable ∧ LenSet exTrunc ∧ Matching exTrunc .variable ⟨.variable, 8, none, some 2⟩ := by
  decide
private def okIs (x : UPy Frame) (f : Frame) : Bool :=
  match x with
  | .ok g => decide (g = f)
  | .error _ => false
private def errIs (x : UPy Frame) (e : UErr) : Bool :=
  match x with
  | .ok _ => false
  | .error e' => decide (e' = e)
example : okIs (Frame.unpack (Spec.frameOctets exFrame ++ [7, 7]) .fixed exProps) exFrame = true := by decide +kernel
example : errIs (Frame.unpack (Spec.frameOctets exFrame) .fixed ⟨.fixed, 23, some 2, some 2⟩)
    (.uslp .invalidLen) = true := by decide +kernel
example : errIs (Frame.unpack (Spec.frameOctets exTrunc) .fixed ⟨.fixed, 8, none, some 2⟩)
    (.uslp .truncatedNotAllowed) = true := by decide +kernel
example : errIs (Frame.unpack (Spec.frameOctets exFrame) .fixed ⟨.variable, 24, some 2, some 2⟩)
    (.py .value) = true := by decide +kernel


/-! ## a fixed frame whose data field is declared as one octet but whose rule requires the pointer:
refused (`UslpInvalidRawPacketOrFrameLen`). Before the repair recorded in known_findings.json the
decoder only checked the *buffer* for three octets, read the pointer from the OCF and returned a
frame whose `len()` (14) exceeded the declared 12. -/
example : errIs (Frame.unpack [0xC0, 0, 0, 0, 0, 0x0B, 0x08, 0x00, 0xAA, 0xBB, 0xCC, 0xDD] .fixed ⟨.fixed, 12, none, none⟩)
    (.uslp .invalidLen) = true := by decide +kernel

/-! ## injectivity of the header encodings (corollaries of the round trips) -/

/-- truncated header: members of the domain with the same four octets are the same header -/
theorem C17_thdr_octets_injective (h k : TruncatedHeader) (wh : WFTHdr h) (wk : WFTHdr k)
    (he : Spec.thdrOctets h = Spec.thdrOctets k) : h = k := by
  have r1 := C17_thdr_roundtrip h wh []
  have r2 := C17_thdr_roundtrip k wk []
  rw [he, r2] at r1
  cases r1; rfl

/-- the same for `pack()` itself, as an iff -/
theorem C17_thdr_pack_injective (h k : TruncatedHeader) (wh : WFTHdr h) (wk : WFTHdr k) :
    h.pack = k.pack ↔ h = k := by
  refine ⟨fun he => ?_, fun he => by rw [he]⟩
  rw [(C17_thdr_exact h wh).1, (C17_thdr_exact k wk).1] at he
  exact C17_thdr_octets_injective h k wh wk (Except.ok.inj he)

private theorem hdrOctets_norm (h : PrimaryHeader) : Spec.hdrOctets (normHdr h) = Spec.hdrOctets h := by
  unfold normHdr
  split
  · next h0 => simp [Spec.hdrOctets, h0, beBytes]
  · rfl

/-- primary header: injective up to the normalisation of the round trip (`normHdr`: with a VCF count
    length of 0 the count carries no octets, so `none` and any `some c` encode alike and decode to
    `some 0`); two members of the domain have the same octets iff they are the same header after
    that normalisation -/
theorem C17_hdr_octets_injective (h k : PrimaryHeader) (wh : WFHdr h) (wk : WFHdr k) :
    Spec.hdrOctets h = Spec.hdrOctets k ↔ normHdr h = normHdr k := by
  refine ⟨fun he => ?_, fun he => ?_⟩
  · have r1 := C17_hdr_roundtrip h wh []
    have r2 := C17_hdr_roundtrip k wk []
    rw [he, r2] at r1
    exact (Except.ok.inj r1).symm
  · rw [← hdrOctets_norm h, he, hdrOctets_norm k]

/-- the same for `pack()` itself -/
theorem C17_hdr_pack_injective (h k : PrimaryHeader) (wh : WFHdr h) (wk : WFHdr k) :
    h.pack = k.pack ↔ normHdr h = normHdr k := by
  rw [(C17_hdr_exact h wh).1, (C17_hdr_exact k wk).1, ← C17_hdr_octets_injective h k wh wk]
  exact ⟨fun he => Except.ok.inj he, fun he => by rw [he]⟩

/-- without normalisation: headers that carry a VCF count (length > 0) are equal iff they pack to
    the same octets -/
theorem C17_hdr_pack_injective_vcf (h k : PrimaryHeader) (wh : WFHdr h) (wk : WFHdr k)
    (nh : h.vcfLen ≠ 0) (nk : k.vcfLen ≠ 0) : h.pack = k.pack ↔ h = k := by
  have eh : normHdr h = h := by unfold normHdr; simp [nh]
  have ek : normHdr k = k := by unfold normHdr; simp [nk]
  rw [C17_hdr_pack_injective h k wh wk, eh, ek]

-- non-vacuity of the injectivity statements: distinct members of the domain, distinct octets;
-- and the normalisation is needed: two distinct headers of the domain with the same octets
example : WFTHdr ⟨1, false, 2, 3⟩ ∧ WFTHdr ⟨1, true, 2, 3⟩ ∧
    Spec.thdrOctets ⟨1, false, 2, 3⟩ ≠ Spec.thdrOctets ⟨1, true, 2, 3⟩ := by decide
example : WFHdr exHdr ∧ WFHdr { exHdr with vcfCount := some 0x010204 } ∧ exHdr.vcfLen ≠ 0 ∧
    Spec.hdrOctets exHdr ≠ Spec.hdrOctets { exHdr with vcfCount := some 0x010204 } := by decide
example : WFHdr ⟨1, false, 2, 3, 9, false, false, false, 0, none⟩ ∧
    WFHdr ⟨1, false, 2, 3, 9, false, false, false, 0, some 5⟩ ∧
    Spec.hdrOctets ⟨1, false, 2, 3, 9, false, false, false, 0, none⟩ =
      Spec.hdrOctets ⟨1, false, 2, 3, 9, false, false, false, 0, some 5⟩ := by decide

end SpVerif.Props.C17
