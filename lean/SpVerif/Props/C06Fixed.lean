import SpVerif.Props.C05
namespace SpVerif.Props.C06Fixed
theorem C06_placeholder : True := trivial
end SpVerif.Props.C06Fixed
